package main

import (
	"fmt"
	"math"
	"strings"

	. "ottoh/lib"
)

func bp(b bool) *bool { return &b }
func vp(v V) *V       { return &v }

// ---------- value pools ----------

func (g *gen) val() V {
	r := g.r
	switch r.Intn(20) {
	case 0:
		return vUndef
	case 1:
		return vNull
	case 2:
		return vBool(r.Intn(2) == 0)
	case 3, 4:
		return vStr(Pick(r, []string{"a", "b", "", "1", "10", "ab", "B", "undefined", "0"}))
	case 5:
		return vNum(float64(-r.Intn(12)))
	case 6:
		return Pick(r, []V{vNum(math.NaN()), vNum(math.Copysign(0, -1)), vNum(0), vNum(100), vNum(21), vNum(4294967296)})
	default:
		return vNum(float64(r.Intn(10)))
	}
}

// a numeric argument with boundary values relative to the length n
func (g *gen) numArg(n int64) V {
	r := g.r
	fn := float64(n)
	switch r.Intn(16) {
	case 0:
		return vUndef
	case 1:
		return vNum(math.NaN())
	case 2:
		return vNum(math.Inf(1 - 2*r.Intn(2)))
	case 3, 4:
		return vNum(Pick(r, []float64{0.5, -0.5, 1.5, -1.5, fn - 0.5, -fn + 0.5, fn + 0.5, -fn - 0.5, 0.9999999999, -0.9999999999, fn - 1.5, 2.9, -2.9, 5e-324, -5e-324}))
	case 5:
		return vNum(Pick(r, []float64{2147483648, -2147483648, 4294967296, -4294967296, 4294967297, 4294967295, -4294967295, 9007199254740992, -9007199254740992,
			9223372036854775808, -9223372036854775808, 18446744073709551616, -18446744073709551616, 1e300, -1e300, 9223372036854774784, -9223372036854774784,
			9223372036854777856, -9223372036854777856, 1e21}))
	case 6, 13:
		return Pick(r, []V{vNull, vNull, vBool(true), vBool(false), vStr("1"), vStr(""), vStr("2"), vStr("0"), vUndef})
	case 7:
		return vNum(math.Copysign(0, -1))
	case 8, 9:
		return vNum(fn + float64(r.Intn(5)-2))
	case 10, 11:
		return vNum(-fn + float64(r.Intn(5)-2))
	case 12:
		return vNum(float64(r.Intn(5) - 2))
	default:
		return vNum(float64(r.Int63n(2*n+7) - n - 3))
	}
}

// an OPTIONAL numeric argument that is present: explicit undefined and null are first-class
// (omission is decided by the caller through the argument count)
func (g *gen) optNum(n int64) V {
	switch g.r.Intn(8) {
	case 0:
		return vUndef
	case 1:
		return vNull
	}
	return g.numArg(n)
}

func (g *gen) slots(n int, holeMode int) []*V {
	a := make([]*V, n)
	for i := range a {
		hole := false
		switch holeMode {
		case 1:
			hole = g.r.Intn(4) == 0
		case 2:
			hole = g.r.Intn(3) > 0
		case 3:
			hole = true
		}
		if !hole {
			a[i] = vp(g.val())
		}
	}
	return a
}

func (g *gen) size() int {
	return Pick(g.r, []int{0, 0, 1, 1, 2, 2, 3, 3, 3, 4, 4, 5, 5, 6, 7, 8})
}

func (g *gen) recv(arrOnly bool) Recv {
	r := g.r
	n := g.size()
	rc := Recv{arr: true}
	rc.elems = g.slots(n, Pick(r, []int{0, 0, 0, 1, 1, 2, 2, 3}))
	if !arrOnly && r.Intn(10) < 3 {
		rc.arr = false
		fn := float64(n)
		switch r.Intn(10) {
		case 0, 1, 2, 3, 4, 5:
			rc.length = vp(vNum(fn))
		case 6:
			rc.length = vp(vNum(fn + float64(r.Intn(3)-1)))
			if rc.length.n < 0 {
				rc.length = vp(vNum(0))
			}
		case 7:
			rc.length = vp(Pick(r, []V{vStr(fmt.Sprint(n)), vNum(fn + 0.7), vNum(math.NaN()), vNull, vBool(true), vNum(-fn - 4294967296 + 2*fn), vNum(4294967296 + fn),
				vNum(math.Inf(1)), vNum(-0.5), vUndef, vStr(""),
				vNum(9223372036854775808), vNum(-9223372036854775808), vNum(18446744073709551616), vNum(9223372036854777856), vNum(1e300), vNum(9007199254740994)}))
		case 8:
			rc.length = nil
		case 9:
			rc.length = vp(Pick(r, []V{vNum(-1), vNum(4294967295), vNum(4294967294), vNum(-2), vNum(8589934591),
				vNum(9223372036854775808), vNum(-9223372036854775808), vNum(18446744073709551616), vNum(9223372036854777856), vNum(-9223372036854777856),
				vNum(1e300), vNum(-1e300), vNum(9007199254740994), vNum(36893488147419103232 + 8192)}))
		}
	}
	if r.Intn(5) == 0 {
		rc.proto = map[int64]Prop{}
		rc.onAP = rc.arr && r.Intn(2) == 0
		for k := 0; k < 1+r.Intn(2); k++ {
			rc.proto[int64(r.Intn(n+2))] = Prop{v: vStr(Pick(r, []string{"P", "Q"})), w: r.Intn(5) > 0, e: true, c: true}
		}
	}
	return rc
}

func (r Recv) lenGuess() int64 {
	if r.arr || r.length == nil || r.length.k != 'd' || r.length.n != r.length.n || r.length.n < 0 || r.length.n > 100 {
		return int64(len(r.elems))
	}
	return int64(r.length.n)
}

// ---------- operations ----------

// mode 0: ordinary; 1: heavy (the callback grows / shrinks / edits the receiver early in the walk);
// 2: for length-getter receivers (element edits only)
func (g *gen) cbScript(n int64, mode int) []CbStep {
	r := g.r
	k := r.Intn(int(n) + 2)
	if mode == 0 && r.Intn(4) == 0 {
		k = 0
	}
	if mode == 1 {
		k = int(n) + 1 + r.Intn(4)
	}
	st := make([]CbStep, k)
	for i := range st {
		st[i].ret = Pick(r, []V{vBool(true), vBool(false), vNum(1), vNum(0), vUndef, vStr("x"), vStr(""), vNull, vNum(float64(r.Intn(9))), vNum(math.NaN())})
	}
	mutate := func(i int) {
		c := r.Intn(20)
		if mode == 2 {
			c = 11 + r.Intn(9)
		}
		switch {
		case c < 6:
			st[i].mut, st[i].v = 'a', g.val()
		case c < 9:
			st[i].mut, st[i].k, st[i].v = 'p', kName("length"), vNum(float64(n)+float64(r.Intn(4))-1)
		case c < 11:
			st[i].mut, st[i].k, st[i].v = 'p', kName("length"), vNum(float64(r.Intn(int(n)+1)))
		case c < 14:
			st[i].mut, st[i].k = 'd', kIdx(int64(r.Intn(int(n)+1)))
		case c < 17:
			st[i].mut, st[i].k, st[i].v = 'p', kIdx(n+int64(r.Intn(3))), g.val()
		default:
			st[i].mut, st[i].k, st[i].v = 'p', kIdx(int64(r.Intn(int(n)+1))), g.val()
		}
	}
	if mode == 3 { // most steps act on the element the callback is visiting; results mostly truthy
		k = int(n) + 1
		st = make([]CbStep, k)
		for i := range st {
			st[i].ret = Pick(r, []V{vBool(true), vBool(true), vNum(1), vStr("x"), vBool(false), vUndef, vNum(float64(r.Intn(9)))})
			switch c := r.Intn(10); {
			case c < 4:
				st[i].mut, st[i].v = 'P', g.val()
			case c < 6:
				st[i].mut = 'D'
			case c < 7:
				st[i].mut, st[i].gid, st[i].gp = 'G', 50+i, r.Intn(9)
			}
		}
		return st
	}
	switch {
	case mode == 1 && k > 0:
		mutate(r.Intn(min(k, 2)))
		if r.Intn(3) == 0 {
			mutate(r.Intn(k))
		}
	case mode == 4:
	case k > 0 && r.Intn(5) == 0:
		mutate(r.Intn(k))
	}
	if k > 0 && r.Intn(25) == 0 {
		st[r.Intn(k)].throw = true
	}
	return st
}

func av(v V) Arg { return Arg{kind: 'v', v: v} }

func (g *gen) call(rc Recv, m int) Op {
	r := g.r
	n := rc.lenGuess()
	op := Op{kind: 'c', m: m}
	search := func() V {
		var present []V
		for _, e := range rc.elems {
			if e != nil {
				present = append(present, *e)
			}
		}
		if len(present) > 0 && r.Intn(10) < 7 {
			return Pick(r, present)
		}
		if len(rc.proto) > 0 && r.Intn(2) == 0 {
			return vStr(Pick(r, []string{"P", "Q"}))
		}
		return g.val()
	}
	switch m {
	case 0: // join
		if r.Intn(2) == 0 {
			op.args = []Arg{av(Pick(r, []V{vUndef, vUndef, vNull, vNull, vStr(","), vStr("-"), vStr(""), vNum(1), vStr("ab"), vBool(true)}))}
		}
	case 1, 3, 4:
		if r.Intn(8) == 0 {
			op.args = []Arg{av(g.val())}
		}
	case 2, 7:
		for i := r.Intn(4); i > 0; i-- {
			op.args = append(op.args, av(g.val()))
		}
	case 5: // slice
		for i := Pick(r, []int{0, 1, 1, 2, 2, 2, 2, 3}); i > 0; i-- {
			op.args = append(op.args, av(g.optNum(n)))
		}
	case 6: // splice
		na := Pick(r, []int{0, 1, 1, 2, 2, 2, 2, 2, 2})
		for i := 0; i < na; i++ {
			op.args = append(op.args, av(g.optNum(n)))
		}
		if na == 2 {
			for i := r.Intn(4); i > 0; i-- {
				op.args = append(op.args, av(g.val()))
			}
		}
	case 8, 9:
		if r.Intn(12) > 0 {
			op.args = append(op.args, av(search()))
			if r.Intn(3) > 0 {
				op.args = append(op.args, av(g.optNum(n)))
			}
		}
	case 10, 11, 12, 13, 14:
		if r.Intn(12) == 0 {
			if r.Intn(2) == 0 {
				op.args = []Arg{av(g.val())}
			}
		} else {
			op.args = []Arg{{kind: 'c'}}
			switch r.Intn(4) {
			case 0:
				op.args = append(op.args, Arg{kind: 't'})
			case 1:
				op.args = append(op.args, av(Pick(r, []V{vUndef, vNull})))
			}
			op.cbs = g.cbScript(n, 0)
		}
	case 15, 16:
		if r.Intn(14) == 0 {
			op.args = []Arg{av(g.val())}
			if r.Intn(2) == 0 {
				op.args = append(op.args, av(g.val()))
			}
		} else {
			op.args = []Arg{{kind: 'c'}}
			switch r.Intn(8) {
			case 0:
				op.args = append(op.args, av(vUndef))
			case 1:
				op.args = append(op.args, av(vNull))
			case 2, 3, 4:
				op.args = append(op.args, av(g.val()))
			}
			op.cbs = g.cbScript(n, 0)
		}
	case 17:
		for i := r.Intn(4); i > 0; i-- {
			if r.Intn(2) == 0 {
				op.args = append(op.args, av(g.val()))
			} else {
				op.args = append(op.args, Arg{kind: 'a', a: g.slots(r.Intn(4), Pick(r, []int{0, 1, 2, 3}))})
			}
		}
	}
	if (m == 0 || m == 5 || m == 6 || m == 8 || m == 9) && r.Intn(8) == 0 {
		lo := 0
		if m == 8 || m == 9 {
			lo = 1
		}
		hi := len(op.args)
		if m == 6 && hi > 2 {
			hi = 2
		}
		if m == 0 && hi > 1 {
			hi = 1
		}
		if hi > lo {
			i := lo + r.Intn(hi-lo)
			op.args[i] = Arg{kind: 'o', oid: 1 + i, op: r.Intn(int(n)+3) - 1, othrow: r.Intn(4) == 0}
		}
	}
	g.extras(&op, rc)
	return op
}

// with probability 1/3 fill the optional positions and append one or two arguments the method must ignore
func (g *gen) extras(op *Op, rc Recv) {
	r := g.r
	m := op.m
	if m == 2 || m == 6 || m == 7 || m == 17 || r.Intn(3) > 0 {
		return
	}
	n := rc.lenGuess()
	fill := func(want int, mk func() Arg) {
		for len(op.args) < want {
			op.args = append(op.args, mk())
		}
	}
	switch m {
	case 0:
		fill(1, func() Arg { return av(Pick(r, []V{vUndef, vStr(","), vStr("-"), vNull})) })
	case 5:
		fill(2, func() Arg { return av(g.optNum(n)) })
	case 8, 9:
		fill(1, func() Arg { return av(g.val()) })
		fill(2, func() Arg { return av(g.optNum(n)) })
	case 10, 11, 12, 13, 14:
		if len(op.args) == 0 || op.args[0].kind != 'c' {
			return
		}
		fill(2, func() Arg {
			if r.Intn(2) == 0 {
				return Arg{kind: 't'}
			}
			return av(Pick(r, []V{vUndef, vNull}))
		})
	case 15, 16:
		if len(op.args) == 0 || op.args[0].kind != 'c' {
			return
		}
		fill(2, func() Arg { return av(g.val()) })
	}
	for i := 1 + r.Intn(2); i > 0; i-- {
		if m == 18 || r.Intn(2) == 0 {
			op.args = append(op.args, av(g.val()))
		} else {
			op.args = append(op.args, av(g.numArg(n)))
		}
	}
}

func (g *gen) anyMethod(rc Recv) int {
	for {
		m := g.r.Intn(len(methods))
		if m == 17 && !rc.arr {
			continue
		}
		return m
	}
}

func (g *gen) lengthValue(n int64) V {
	r := g.r
	fn := float64(n)
	switch r.Intn(8) {
	case 0:
		return Pick(r, []V{vNum(-1), vNum(1.5), vNum(math.NaN()), vNum(4294967296), vUndef, vNum(math.Inf(1)), vNum(-0.5), vNum(1e300), vNum(4294967295.5), vNum(-4294967296)})
	case 1:
		return Pick(r, []V{vStr("2"), vNull, vBool(true), vBool(false), vStr(""), vStr("0"), vNum(math.Copysign(0, -1)), vNum(4294967295), vNum(4294967294)})
	case 2:
		return vNum(fn)
	default:
		x := fn + float64(r.Intn(int(n)+4)) - fn - 1
		if x < 0 {
			x = 0
		}
		return vNum(x)
	}
}

func (g *gen) indexKey(n int64) Key {
	r := g.r
	if r.Intn(25) == 0 {
		return kIdx(Pick(r, []int64{4294967294, 4294967295, 4294967296, 4294967293, 1000, 2147483648}))
	}
	return kIdx(r.Int63n(n + 3))
}

func (g *gen) elemDesc() Desc {
	r := g.r
	d := Desc{v: vp(g.val())}
	ob := func() *bool {
		switch r.Intn(3) {
		case 0:
			return nil
		case 1:
			return bp(true)
		}
		return bp(false)
	}
	switch r.Intn(8) {
	case 0: // value only
	case 1:
		d.w, d.e, d.c = bp(r.Intn(2) == 0), bp(r.Intn(2) == 0), bp(r.Intn(2) == 0)
	case 2:
		d.w, d.e, d.c = bp(true), bp(true), bp(false)
	case 3:
		d.w, d.e, d.c = bp(false), bp(true), bp(true)
	case 4:
		if r.Intn(2) == 0 {
			d.c = bp(false)
		} else {
			d.w = bp(false)
		}
	case 5: // generic descriptor: neither value nor writable (8.12.9 step 8; on a new name it creates an undefined, all-false property)
		d.v, d.e, d.c = nil, ob(), ob()
	case 6: // writable without a value
		d.v, d.w, d.e, d.c = nil, bp(r.Intn(2) == 0), ob(), ob()
	default: // any subset of the four fields
		if r.Intn(2) == 0 {
			d.v = nil
		}
		d.w, d.e, d.c = ob(), ob(), ob()
	}
	return d
}

func (g *gen) mutation(rc Recv) Op {
	r := g.r
	n := rc.lenGuess()
	switch r.Intn(16) {
	case 0, 1, 2, 3:
		return Op{kind: 's', k: g.indexKey(n), v: g.val()}
	case 4, 5, 6:
		return Op{kind: 's', k: kName("length"), v: g.lengthValue(n)}
	case 7, 8:
		return Op{kind: 'x', k: g.indexKey(n)}
	case 9, 10, 11:
		return Op{kind: 'p', k: g.indexKey(n), d: g.elemDesc()}
	case 12, 13:
		d := Desc{}
		switch r.Intn(6) {
		case 0:
			d.w = bp(false)
		case 1:
			d.v, d.w = vp(g.lengthValue(n)), bp(false)
		case 2: // generic / attribute-only descriptors on length (non-configurable, non-enumerable on arrays)
			d = g.elemDesc()
			d.v = nil
		case 3:
			d = g.elemDesc()
			d.v = vp(g.lengthValue(n))
		default:
			d.v = vp(g.lengthValue(n))
		}
		return Op{kind: 'p', k: kName("length"), d: d}
	case 14:
		return Op{kind: Pick(r, []byte{'f', 'l', 'e'})}
	default:
		return Op{kind: 'x', k: kName("length")}
	}
}

var trickyNames = []string{"01", "+1", "-0", "+0", "-1", "1.0", "1e0", " 1", "1 ", "0x1", "00", "007", "4294967294", "4294967295", "4294967296",
	"+4294967294", "+4294967295", "-4294967294", "18446744073709551616", "9223372036854775807", "9223372036854775808", "-9223372036854775809", "", "+", "-", "1_0", "+01", "-00",
	"Infinity", "NaN", "0", "1", "2", "3", "10", "+2", "02", "+3", "1.", ".1", "0.0", "1e1", "+", "++1", "+-1", "2147483648", "+2147483648"}

func (g *gen) nameOp(rc Recv) Op {
	r := g.r
	k := kName(Pick(r, trickyNames))
	switch r.Intn(6) {
	case 0:
		return Op{kind: 'x', k: k}
	case 1:
		return Op{kind: 'p', k: k, d: g.elemDesc()}
	default:
		return Op{kind: 's', k: k, v: g.val()}
	}
}

// ---------- sort ----------

var cmpJS = []string{"", "function(a,b){return a-b}", "function(a,b){return b-a}", "function(a,b){return a%3-b%3}", "function(a,b){return Math.abs(a)-Math.abs(b)}"}

func (g *gen) runSort(elems []*V, cmp int) {
	arg := ""
	if cmp > 0 {
		arg = ", " + cmpJS[cmp]
	}
	src := prelude + fmt.Sprintf("var R=%s; var r=AP.sort.call(R%s); (r===R?\"same \":\"other \")+encarr(R)", arrLit(elems), arg)
	o := runScript(src)
	text := fmt.Sprintf("sort %s.sort(%s) -> ", arrLit(elems), cmpJS[cmp])
	obs := "[Some (VStr [63])]"
	if o.Panic != nil {
		text += fmt.Sprintf("GO PANIC %v", o.Panic)
	} else if o.Err != nil {
		text += "ERROR " + o.Err.Error()
	} else {
		s := o.Val.String()
		text += s
		if strings.HasPrefix(s, "same A") {
			if t, ok := decArr(s[len("same "):]); ok {
				obs = t
			}
		}
	}
	g.env.Add(fmt.Sprintf("CSort %s %d %s", slotsCoq(elems), cmp, obs), text, "sort", true)
}

func (g *gen) sortCase() {
	r := g.r
	cmp := Pick(r, []int{0, 0, 0, 1, 1, 2, 3, 4})
	n := Pick(r, []int{0, 1, 2, 2, 3, 3, 4, 5, 6, 7, 8, 9, 10, 12})
	a := make([]*V, n)
	for i := range a {
		switch {
		case r.Intn(6) == 0:
		case r.Intn(6) == 0:
			a[i] = vp(vUndef)
		case cmp > 0:
			a[i] = vp(vNum(float64(r.Intn(15) - 5)))
		default:
			a[i] = vp(g.val())
		}
	}
	g.runSort(a, cmp)
}

// ---------- String slice/substring/substr and the Array constructor ----------

var strMethods = []string{"slice", "substring", "substr"}

func valsCoq(vs []V) string {
	t := make([]string, len(vs))
	for i, v := range vs {
		t[i] = v.Coq()
	}
	return Clist(t)
}
func valsJS(vs []V) string {
	t := make([]string, len(vs))
	for i, v := range vs {
		t[i] = v.JS()
	}
	return strings.Join(t, ", ")
}

func (g *gen) runStr(m int, s string, args []V, bucket string) {
	src := fmt.Sprintf("var r=%s.%s(%s); if(typeof r!==\"string\")throw 1; r", JSStr(Units(s)), strMethods[m], valsJS(args))
	o := runScript(src)
	text := fmt.Sprintf("str %s.%s(%s) -> ", JSStr(Units(s)), strMethods[m], valsJS(args))
	obs := "None"
	if o.Panic != nil {
		text += fmt.Sprintf("GO PANIC %v", o.Panic)
	} else if o.Err != nil {
		text += "ERROR " + o.Err.Error()
	} else {
		text += JSStr(Units(o.Val.String()))
		obs = "(Some " + Cstr(o.Val.String()) + ")"
	}
	g.env.Add(fmt.Sprintf("CStr %d %s %s %s", m, Cstr(s), valsCoq(args), obs), text, bucket, true)
}

func (g *gen) strCase() {
	r := g.r
	s := "abcdefgh"[:Pick(r, []int{0, 1, 2, 3, 3, 5, 5, 7, 8})]
	n := int64(len(s))
	odd := []V{vNull, vUndef, vBool(false), vBool(true), vStr(""), vStr("1"), vNum(math.NaN()), vNum(0), vNum(math.Copysign(0, -1)), vNum(math.Inf(1)), vNum(math.Inf(-1))}
	var args []V
	for i := Pick(r, []int{0, 1, 1, 2, 2, 2, 2, 2, 3}); i > 0; i-- {
		if r.Intn(4) == 0 {
			args = append(args, Pick(r, odd))
		} else {
			args = append(args, g.numArg(n))
		}
	}
	g.runStr(r.Intn(3), s, args, "string-range")
}

func (g *gen) runCtor(args []V, withNew bool, bucket string) { g.runCtorP(args, withNew, 0, "", bucket) }

// form 0 Array(..) / new Array(..), 1 array literal, 2 Array.apply(null, [..]); protoJS installs index
// properties on the prototypes first (they must not influence how the result is built)
func (g *gen) runCtorP(args []V, withNew bool, form int, protoJS string, bucket string) {
	call := "Array"
	if withNew {
		call = "new Array"
	}
	expr := fmt.Sprintf("%s(%s)", call, valsJS(args))
	switch form {
	case 1:
		expr = "[" + valsJS(args) + "]"
	case 2:
		expr = "Array.apply(null,[" + valsJS(args) + "])"
	}
	src := prelude + protoJS + fmt.Sprintf("var R=null, r=null, out; LOG=\"\"; try{ r=%s; out=\"ok \"+(Array.isArray(r)&&Object.getPrototypeOf(r)===AP ? (r.length<=64?encarr(r):enc(r.length)) : \"o\") }catch(e){ out=\"ex \"+(e instanceof RangeError?3:e instanceof TypeError?6:8) } out+(LOG===\"\"?\"\":\" SETTER-OR-GETTER-CALLED \"+LOG)", expr)
	o := runScript(src)
	text := fmt.Sprintf("ctor %s%s -> ", protoJS, expr)
	obs := "(Thrown 9)"
	if o.Panic != nil {
		text += fmt.Sprintf("GO PANIC %v", o.Panic)
	} else if o.Err != nil {
		text += "ERROR " + o.Err.Error()
	} else {
		out := o.Val.String()
		text += out
		switch {
		case strings.HasPrefix(out, "ex "):
			obs = "(Thrown " + out[3:] + ")"
		case strings.HasPrefix(out, "ok A"):
			if t, ok := decArr(out[3:]); ok {
				obs = "(Ret (RArr " + t + "))"
			}
		case strings.HasPrefix(out, "ok "):
			if t, ok := decVal(out[3:]); ok {
				obs = "(Ret (RVal " + t + "))"
			}
		}
	}
	g.env.Add(fmt.Sprintf("CCtor %s %s", valsCoq(args), obs), text, bucket, true)
}

func (g *gen) ctorCase() {
	r := g.r
	var args []V
	switch r.Intn(4) {
	case 0, 1:
		args = []V{g.lengthValue(int64(r.Intn(6)))}
	case 2:
		args = []V{g.val()}
	default:
		for i := r.Intn(4); i > 0; i-- {
			args = append(args, g.val())
		}
	}
	g.runCtor(args, r.Intn(2) == 0, "constructor")
}

// ---------- toLocaleString under script-defined X.prototype.toLocaleString (15.4.4.3 steps 8.b / 10.d) ----------

// cfg[i] for strings, numbers, booleans: 0 built-in, 1 a logging wrapper function, 2 not callable.
// viaObject installs the wrapper on Object.prototype instead of String/Boolean.prototype (numbers keep their own).
func (g *gen) runLoc(rc Recv, cfg [3]int, viaObject bool, bucket string) {
	names := []string{"String", "Number", "Boolean"}
	var pre strings.Builder
	pre.WriteString("var WRAP=function(){var t=typeof this.valueOf();LOG+=\"6,i\"+(t===\"string\"?0:t===\"number\"?1:2)+\",\"+(typeof this===\"object\"?\"t\":\"f\")+\";\";return \"<\"+String(this)+\">\"};")
	if viaObject {
		pre.WriteString("Object.prototype.toLocaleString=WRAP;")
		cfg = [3]int{1, 0, 1}
	} else {
		for i, c := range cfg {
			switch c {
			case 1:
				fmt.Fprintf(&pre, "%s.prototype.toLocaleString=WRAP;", names[i])
			case 2:
				fmt.Fprintf(&pre, "%s.prototype.toLocaleString=%s;", names[i], Pick(g.r, []string{"undefined", "5", "null", "\"f\""}))
			}
		}
	}
	src := prelude + pre.String() + rc.JS() + "var out; LOG=\"\"; try{ out=\"ok \"+enc(AP.toLocaleString.call(R)) }catch(e){ out=\"ex \"+(e instanceof RangeError?3:e instanceof TypeError?6:8) } out+\"#\"+LOG"
	o := runScript(src)
	text := "locale " + pre.String()[strings.Index(pre.String(), "};")+2:] + rc.JS() + " AP.toLocaleString.call(R) -> "
	obs := "(Thrown 9, [])"
	if o.Panic != nil {
		text += fmt.Sprintf("GO PANIC %v", o.Panic)
	} else if o.Err != nil {
		text += "ERROR " + o.Err.Error()
	} else {
		out := o.Val.String()
		text += out
		parts := strings.SplitN(out, "#", 2)
		if len(parts) == 2 {
			oc := ""
			if strings.HasPrefix(parts[0], "ex ") {
				oc = "Thrown " + parts[0][3:]
			} else if strings.HasPrefix(parts[0], "ok ") {
				if t, ok := decVal(parts[0][3:]); ok {
					oc = "Ret (RVal " + t + ")"
				}
			}
			var log []string
			good := oc != ""
			for _, e := range strings.Split(parts[1], ";") {
				if e == "" {
					continue
				}
				var vs []string
				for i, t := range strings.Split(e, ",") {
					if i == 0 {
						vs = append(vs, "VNum "+t)
					} else if c, ok := decVal(t); ok {
						vs = append(vs, c)
					} else {
						good = false
					}
				}
				log = append(log, Clist(vs))
			}
			if good {
				obs = fmt.Sprintf("(%s, %s)", oc, Clist(log))
			}
		}
	}
	g.env.Add(fmt.Sprintf("CLoc %d %d %d %s %s", cfg[0], cfg[1], cfg[2], rc.Coq(), obs), text, bucket, true)
}

func (g *gen) locVal() *V {
	r := g.r
	switch r.Intn(10) {
	case 0:
		return nil
	case 1:
		return vp(Pick(r, []V{vUndef, vNull}))
	case 2, 3:
		return vp(vNum(float64(r.Intn(1999) - 999)))
	case 4:
		return vp(vBool(r.Intn(2) == 0))
	default:
		return vp(vStr(Pick(r, []string{"a", "b", "", "xy", "1", "true"})))
	}
}

func (g *gen) locCase() {
	r := g.r
	n := r.Intn(6)
	el := make([]*V, n)
	for i := range el {
		el[i] = g.locVal()
	}
	rc := Recv{arr: r.Intn(3) > 0, elems: el}
	if !rc.arr {
		rc.length = vp(vNum(float64(n)))
		if r.Intn(4) == 0 {
			rc = Recv{prim: vp(vStr("abcd"[:r.Intn(5)]))}
		}
	}
	g.runLoc(rc, [3]int{r.Intn(3), r.Intn(3), r.Intn(3)}, r.Intn(5) == 0, "locale-string")
}

// ---------- pinned witnesses (run first on every run): findings 1-13 are repaired in /repo and are
// regression cases that expect the ES5 result; 14 and 15 too since 0a77c0d / 33e9d82 ----------

func nums(xs ...float64) []*V {
	a := make([]*V, len(xs))
	for i, x := range xs {
		a[i] = vp(vNum(x))
	}
	return a
}

// deterministic families that run on every seed
func (g *gen) families() {
	str := func(x string) *V { return vp(vStr(x)) }
	// (1) toLocaleString: every configuration of the string entry x (built-in, wrapper, not callable) for numbers/booleans
	mixed := []*V{str("a"), vp(vNum(1)), nil, str("b"), vp(vNull), vp(vBool(true)), vp(vUndef)}
	for cs := 0; cs < 3; cs++ {
		for cn := 0; cn < 3; cn++ {
			g.runLoc(Recv{arr: true, elems: mixed}, [3]int{cs, cn, (cs + cn) % 3}, false, "family-locale")
		}
		g.runLoc(Recv{elems: []*V{str("x"), str("y")}, length: vp(vNum(2))}, [3]int{cs, 0, 0}, false, "family-locale")
		g.runLoc(Recv{prim: str("pq")}, [3]int{cs, 0, 0}, false, "family-locale")
		g.runLoc(Recv{arr: true, elems: []*V{vp(vBool(false)), vp(vNum(7))}}, [3]int{0, cs, 2 - cs}, false, "family-locale")
	}
	g.runLoc(Recv{arr: true, elems: mixed}, [3]int{}, true, "family-locale")
	// (2) primitive receivers: every callback method (and the searching / joining ones) must work on ToObject(this)
	//     and hand the callback that one wrapper object as third argument
	for _, pv := range []V{vStr("ab"), vStr(""), vNum(5), vBool(true)} {
		for m := 10; m <= 16; m++ {
			cbs := []CbStep{{ret: vBool(m == 10)}, {ret: vBool(m == 10)}}
			g.runHist(Recv{prim: vp(pv)}, []Op{{kind: 'c', m: m, args: []Arg{{kind: 'c'}}, cbs: cbs}}, "family-primitive")
		}
		g.runHist(Recv{prim: vp(pv)}, []Op{{kind: 'c', m: 0}, {kind: 'c', m: 8, args: []Arg{av(vStr("b"))}}, {kind: 'c', m: 9, args: []Arg{av(vStr("a"))}},
			{kind: 'c', m: 5, args: []Arg{av(vNum(1))}}, {kind: 'c', m: 19}}, "family-primitive")
	}
	// (6) WHEN each method converts its arguments: objects whose valueOf/toString logs or throws, at every converting
	//     position, on empty and non-empty arrays and array-likes (e.g. indexOf/lastIndexOf: not at all when len is 0)
	ao := func(id, p int, t bool) Arg { return Arg{kind: 'o', oid: id, op: p, othrow: t} }
	for _, rc := range []Recv{{arr: true}, {arr: true, elems: nums(1, 2, 1)}, {length: vp(vNum(0))}, {elems: nums(1, 2), length: vp(vNum(2))}, {length: vp(vStr("0"))},
		{elems: nums(7, 1), length: vp(vNum(2)), lenGet: true}, {length: vp(vNum(0)), lenGet: true}} {
		for _, t := range []bool{false, true} {
			g.runHist(rc, []Op{{kind: 'c', m: 8, args: []Arg{av(vNum(1)), ao(1, 0, t)}}}, "family-conversion-order")
			g.runHist(rc, []Op{{kind: 'c', m: 9, args: []Arg{av(vNum(1)), ao(1, 1, t)}}}, "family-conversion-order")
			g.runHist(rc, []Op{{kind: 'c', m: 0, args: []Arg{ao(1, 7, t)}}}, "family-conversion-order")
			g.runHist(rc, []Op{{kind: 'c', m: 5, args: []Arg{ao(1, 0, t), ao(2, 2, false)}}, {kind: 'c', m: 5, args: []Arg{ao(3, 1, false), ao(4, 9, t)}}}, "family-conversion-order")
			if !rc.lenGet {
				g.runHist(rc, []Op{{kind: 'c', m: 6, args: []Arg{ao(1, 0, t), ao(2, 1, false), av(vNum(5))}}, {kind: 'c', m: 6, args: []Arg{ao(3, 1, false), ao(4, 0, t)}}}, "family-conversion-order")
			}
		}
		if rc.lenGet {
			continue
		}
		g.runHist(rc, []Op{{kind: 'c', m: 8, args: []Arg{av(vNum(1)), ao(1, -1, false), ao(2, 0, true)}}, {kind: 'c', m: 9, args: []Arg{av(vNum(2)), ao(3, -5, false)}},
			{kind: 'c', m: 18, args: []Arg{ao(4, 0, true)}}, {kind: 'c', m: 1, args: []Arg{ao(5, 0, true)}}}, "family-conversion-order")
	}
	// (4) definitions and stores past the end of hardened arrays (15.4.5.1 step 4: the element first, then length)
	for _, h := range []Op{{kind: 'e'}, {kind: 'l'}, {kind: 'f'}, {kind: 'p', k: kName("length"), d: Desc{w: bp(false)}}} {
		for _, w := range []Op{
			{kind: 'p', k: kIdx(3), d: Desc{v: vp(vNum(7)), w: bp(true), e: bp(true), c: bp(true)}},
			{kind: 'p', k: kIdx(5), d: Desc{v: vp(vNum(7))}},
			{kind: 's', k: kIdx(3), v: vNum(7)},
			{kind: 'c', m: 2, args: []Arg{av(vNum(7))}},
		} {
			g.runHist(Recv{arr: true, elems: nums(1, 2, 3)}, []Op{h, w, {kind: 'c', m: 17}}, "family-past-the-end")
		}
	}
	// (5) every optional argument: omitted / explicit undefined / null
	for _, opt := range [][]Arg{nil, {av(vUndef)}, {av(vNull)}} {
		for _, m := range []int{8, 9} {
			g.runHist(Recv{arr: true, elems: nums(1, 2, 1)}, []Op{{kind: 'c', m: m, args: append([]Arg{av(vNum(1))}, opt...)}}, "family-optional-args")
		}
		g.runHist(Recv{arr: true, elems: nums(1, 2, 3)}, []Op{{kind: 'c', m: 5, args: append([]Arg{av(vNum(1))}, opt...)}, {kind: 'c', m: 5, args: opt},
			{kind: 'c', m: 0, args: opt}, {kind: 'c', m: 6, args: append([]Arg{av(vNum(1))}, opt...)}}, "family-optional-args")
		g.runHist(Recv{arr: true, elems: nums(1, 2, 3)}, []Op{{kind: 'c', m: 6, args: append(append([]Arg{}, opt...), av(vNum(1)))},
			{kind: 'c', m: 15, args: append([]Arg{{kind: 'c'}}, opt...)}, {kind: 'c', m: 12, args: append([]Arg{{kind: 'c'}}, opt...)}}, "family-optional-args")
	}
	// (3) [[Put]] through an inherited index accessor: every writing route x every hardening of the receiver
	acc := func(k int64) Prop { return Prop{acc: &Getter{id: 90 + int(k), p: int(k)}} }
	hard := [][]Op{nil, {{kind: 'e'}}, {{kind: 'l'}}, {{kind: 'f'}}}
	writes := []Op{
		{kind: 'c', m: 2, args: []Arg{av(vNum(99))}}, {kind: 'c', m: 7, args: []Arg{av(vNum(5))}}, {kind: 'c', m: 7}, {kind: 'c', m: 3},
		{kind: 'c', m: 6, args: []Arg{av(vNum(0)), av(vNum(0)), av(vNum(1))}}, {kind: 'c', m: 6, args: []Arg{av(vNum(0)), av(vNum(1))}}, {kind: 'c', m: 4}, {kind: 'c', m: 1},
		{kind: 's', k: kIdx(1), v: vNum(8)}, {kind: 's', k: kIdx(3), v: vNum(8)},
	}
	for hi, h := range hard {
		for wi, w := range writes {
			for _, onAP := range []bool{true, false} {
				if (hi+wi)%2 == 0 && !onAP {
					continue
				}
				rc := Recv{arr: true, elems: []*V{vp(vNum(10)), nil, vp(vNum(12))}, proto: map[int64]Prop{1: acc(1), 3: acc(3)}, onAP: onAP}
				ops := append(append([]Op{}, h...), w)
				g.runHist(rc, ops, "family-inherited-setter")
			}
		}
		rc := Recv{elems: []*V{vp(vStr("a")), nil}, length: vp(vNum(2)), proto: map[int64]Prop{1: acc(1), 2: acc(2)}}
		g.runHist(rc, append(append([]Op{}, h...), Op{kind: 'c', m: 2, args: []Arg{av(vNum(1))}}, Op{kind: 'c', m: 3}), "family-inherited-setter")
	}
}

func (g *gen) pinned() {
	arr := func(e []*V) Recv { return Recv{arr: true, elems: e} }
	cb := Arg{kind: 'c'}
	// 1 (fixed 4b90749) non-canonical names are plain names
	g.runHist(arr(nil), []Op{{kind: 's', k: kName("01"), v: vNum(1)}}, "pinned")
	g.runHist(arr(nil), []Op{{kind: 's', k: kName("+1"), v: vNum(1)}}, "pinned")
	g.runHist(arr(nums(7)), []Op{{kind: 's', k: kName("-0"), v: vNum(1)}}, "pinned")
	// 2 (fixed 22c1182) holes stay holes in result arrays
	g.runHist(arr([]*V{vp(vNum(1)), nil, vp(vNum(3))}), []Op{{kind: 'c', m: 5, args: []Arg{av(vNum(0))}}}, "pinned")
	g.runHist(arr([]*V{vp(vNum(1)), nil, vp(vNum(3))}), []Op{{kind: 'c', m: 17}}, "pinned")
	g.runHist(arr([]*V{vp(vNum(1)), nil, vp(vNum(3))}), []Op{{kind: 'c', m: 13, args: []Arg{cb}}}, "pinned")
	g.runHist(arr([]*V{vp(vNum(1)), nil, vp(vNum(3))}), []Op{{kind: 'c', m: 6, args: []Arg{av(vNum(0)), av(vNum(3))}}}, "pinned")
	// 3 (fixed 336a3bd) reduce over holes only throws TypeError
	g.runHist(arr([]*V{nil, nil}), []Op{{kind: 'c', m: 15, args: []Arg{cb}}}, "pinned")
	g.runHist(arr([]*V{nil, nil}), []Op{{kind: 'c', m: 16, args: []Arg{cb}}}, "pinned")
	// 4 (fixed 336a3bd) reduceRight passes a numeric index
	g.runHist(arr(nums(5, 7)), []Op{{kind: 'c', m: 16, args: []Arg{cb}}}, "pinned")
	// 5 (fixed 5af2855) splice() deletes nothing
	g.runHist(arr(nums(1, 2, 3)), []Op{{kind: 'c', m: 6}}, "pinned")
	// 6 (fixed 63573fc) reverse: Put before Delete
	g.runHist(arr([]*V{nil, vp(vNum(2))}), []Op{{kind: 'p', k: kIdx(1), d: Desc{v: vp(vNum(2)), w: bp(true), e: bp(true), c: bp(false)}}, {kind: 'c', m: 3}}, "pinned")
	// 7 (fixed 0dd4ff4) lastIndexOf with fromIndex = length
	g.runHist(Recv{arr: false, elems: []*V{vp(vStr("a")), vp(vStr("b")), vp(vStr("c"))}, length: vp(vNum(2))},
		[]Op{{kind: 'c', m: 9, args: []Arg{av(vStr("c")), av(vNum(2))}}}, "pinned")
	// 8 (fixed 9d565b2) length redefined with its own value when not writable
	g.runHist(arr(nums(1, 2, 3)), []Op{{kind: 'p', k: kName("length"), d: Desc{w: bp(false)}}, {kind: 'p', k: kName("length"), d: Desc{v: vp(vNum(3))}}}, "pinned")
	// 9 (fixed 27b5748) substr: saturated length
	g.runStr(2, "abc", []V{vNum(1), vNum(math.Inf(1))}, "pinned")
	// 11 (fixed 4b9c107) toString calls join without arguments
	g.runHist(arr(nums(1, 2)), []Op{{kind: 'c', m: 18, args: []Arg{av(vStr("-"))}}}, "pinned")
	// 13 (fixed c7552c5) reverse Gets both values before the presence tests: a getter that truncates the receiver
	g.runHist(Recv{arr: true, elems: []*V{vp(vNum(3)), vp(vStr("x"))}, getters: map[int]Getter{1: {id: 32, p: 8, fx: 4}}}, []Op{{kind: 'c', m: 3}}, "pinned")
	// 14 (fixed 0a77c0d) lastIndexOf leaves fromIndex alone on an empty receiver
	g.runHist(arr(nil), []Op{{kind: 'c', m: 9, args: []Arg{av(vNum(1)), {kind: 'o', oid: 1, op: 0, othrow: true}}}}, "pinned")
	// 15 (fixed 33e9d82) join reads length before it converts the separator
	g.runHist(Recv{elems: nums(7), length: vp(vNum(1)), lenGet: true}, []Op{{kind: 'c', m: 0, args: []Arg{{kind: 'o', oid: 1, op: 1}}}}, "pinned")
	// 12 (fixed fcc8076) the callback methods read length before the IsCallable test: all seven, every run
	for m := 10; m <= 16; m++ {
		g.runHist(Recv{elems: []*V{vp(vStr("a")), nil, vp(vStr("b"))}, length: vp(vNum(3)), lenGet: true},
			[]Op{{kind: 'c', m: m, args: []Arg{av(Pick(g.r, []V{vNum(1), vUndef, vNull, vStr("f")}))}}, {kind: 'c', m: m}, {kind: 'c', m: m, args: []Arg{{kind: 'c'}}}}, "pinned")
	}
	g.runHist(Recv{elems: []*V{vp(vStr("a")), vp(vStr("b"))}, length: vp(vNum(2)), lenGet: true},
		[]Op{{kind: 'c', m: 12, args: []Arg{av(vNum(1))}}}, "pinned")
}

// ---------- driver ----------

func runC08(env *Env) {
	env.Import = "Otto.C08.Corr"
	env.Rule = "receivers: arrays and array-likes of 0-8 slots (values, holes, all-holes), odd lengths for array-likes, inherited index properties on Object/Array.prototype; " +
		"histories of 1-6 steps over assignments, deletes, defineProperty (elements and length), freeze/seal/preventExtensions and the 20 Array.prototype methods of the table (toString/toLocaleString included, with 0-2 superfluous arguments on every method) + sort; callbacks that append/grow/shrink/edit the receiver during the walk; mutators on sealed/frozen/non-extensible/non-writable/non-configurable receivers; array-likes whose length getter counts its reads; callbacks that overwrite/delete/redefine-as-getter the element being visited; receivers whose elements are counting getters (which value is used and how often each getter runs); explicit undefined / null / omission for every optional argument; getters that grow/shrink a later concat argument or the receiver during the call; [[Put]] through inherited index accessors on hardened receivers; primitive receivers (ToObject(this)); toLocaleString under script-defined String/Number/Boolean/Object.prototype.toLocaleString; read-only and accessor (logging setter) index properties on Array.prototype/Object.prototype while map/filter/slice/splice/concat/Array()/literals/apply build their result; " +
		"numeric arguments drawn around 0, +-length, +-1/2, NaN, +-Infinity, +-2^31..2^64, undefined/null/booleans/digit strings; callbacks scripted (return value, mutation of the receiver, throw); " +
		"every generated case counts as non-trivial when its text is distinct (the generator has no filler cases)"
	g := &gen{env: env, r: env.Rng}
	r := g.r
	g.pinned()
	g.families()
	for env.Count() < env.N {
		switch k := r.Intn(53); {
		case k == 48 || k == 49: // writing methods / assignments where a missing index is an inherited accessor (setter), receiver hardened or not
			n := 1 + r.Intn(5)
			rc := Recv{arr: r.Intn(4) > 0, elems: g.slots(n, Pick(r, []int{1, 2, 2}))}
			if !rc.arr {
				rc.length = vp(vNum(float64(n)))
			}
			rc.onAP = rc.arr && r.Intn(2) == 0
			rc.proto = map[int64]Prop{}
			for i := 1 + r.Intn(3); i > 0; i-- {
				k := int64(r.Intn(n + 3))
				if r.Intn(4) == 0 {
					rc.proto[k] = Prop{v: vStr("P"), w: r.Intn(2) == 0, e: true, c: true}
				} else {
					rc.proto[k] = Prop{acc: &Getter{id: 90 + int(k), p: r.Intn(9)}}
				}
			}
			var ops []Op
			if r.Intn(4) > 0 {
				ops = append(ops, Op{kind: Pick(r, []byte{'e', 'e', 'l', 'f'})})
			}
			for i := 1 + r.Intn(2); i > 0; i-- {
				if r.Intn(4) == 0 {
					ops = append(ops, Op{kind: 's', k: kIdx(int64(r.Intn(n + 3))), v: g.val()})
					continue
				}
				m := Pick(r, []int{1, 2, 2, 3, 3, 4, 6, 6, 7, 7})
				op := g.call(rc, m)
				ops = append(ops, op)
			}
			g.runHist(rc, ops, "inherited-setter")
		case k == 50: // primitive receivers (ToObject(this)): the reading methods
			pv := Pick(r, []V{vStr("ab"), vStr("abc"), vStr("a"), vStr(""), vNum(7), vBool(false), vStr("1,2")})
			rc := Recv{prim: vp(pv), elems: make([]*V, len(pv.s))}
			var ops []Op
			for i := 1 + r.Intn(2); i > 0; i-- {
				m := Pick(r, []int{0, 5, 8, 9, 10, 11, 11, 12, 13, 14, 15, 16, 19})
				op := g.call(rc, m)
				if len(op.cbs) > 0 {
					op.cbs = g.cbScript(int64(len(pv.s)), 4)
				}
				ops = append(ops, op)
			}
			g.runHist(rc, ops, "primitive-receiver")
		case k == 51 || k == 52:
			g.locCase()
		case k >= 46:
			g.sortCase()
		case k >= 39 && k < 42: // getters that change ANOTHER object taking part in the same call
			n := 1 + r.Intn(4)
			rc := Recv{arr: true, elems: g.slots(n, Pick(r, []int{0, 0, 1}))}
			var ops []Op
			if r.Intn(3) > 0 { // concat: a getter in an earlier item grows / shrinks a later item (or the receiver passed again)
				na := 1 + r.Intn(3)
				op := Op{kind: 'c', m: 17}
				narr := 0
				for i := 0; i < na; i++ {
					switch r.Intn(6) {
					case 0:
						op.args = append(op.args, av(g.val()))
					case 1:
						op.args = append(op.args, Arg{kind: 'r'})
					default:
						op.args = append(op.args, Arg{kind: 'a', a: g.slots(r.Intn(4), Pick(r, []int{0, 0, 1})), g: map[int]Getter{}})
						narr++
					}
				}
				fx := func(from int) Getter { // from: -1 receiver, j = j-th array argument; the target is a LATER item
					gt := Getter{id: 10 + r.Intn(80), p: r.Intn(9)}
					later := narr - 1 - from
					switch {
					case later > 0 && r.Intn(4) > 0:
						gt.j = from + 1 + r.Intn(later)
						gt.fx, gt.n = 1+r.Intn(2), r.Intn(5)
					case r.Intn(2) == 0:
						gt.fx, gt.n = 3+r.Intn(2), r.Intn(5)
					}
					return gt
				}
				rc.getters = map[int]Getter{r.Intn(n): fx(-1)}
				j := 0
				for i := range op.args {
					if op.args[i].kind == 'a' {
						if len(op.args[i].a) > 0 && r.Intn(2) == 0 {
							op.args[i].g[r.Intn(len(op.args[i].a))] = fx(j)
						}
						j++
					}
				}
				ops = append(ops, op)
			} else { // any reading method: a getter of the receiver grows / shrinks the receiver while it is walked
				rc.getters = map[int]Getter{}
				for i := 1 + r.Intn(2); i > 0; i-- {
					rc.getters[r.Intn(n)] = Getter{id: 10 + r.Intn(80), p: r.Intn(9), fx: 3 + r.Intn(2), n: r.Intn(n + 2)}
				}
				for i := 1 + r.Intn(2); i > 0; i-- {
					ops = append(ops, g.call(rc, Pick(r, []int{0, 5, 8, 9, 10, 11, 12, 13, 14, 15, 16, 17, 19, 3, 4})))
				}
			}
			g.runHist(rc, ops, "getter-effects")
		case k >= 42 && k < 45: // read-only / accessor INDEX properties on the prototypes while a method builds its result array
			n := 1 + r.Intn(5)
			rc := Recv{arr: r.Intn(4) > 0, elems: g.slots(n, Pick(r, []int{0, 0, 1, 2}))}
			if !rc.arr {
				rc.length = vp(vNum(float64(n)))
			}
			rc.proto = map[int64]Prop{}
			rc.onAP = rc.arr && r.Intn(2) == 0
			allData := true
			for i := 1 + r.Intn(2); i > 0; i-- {
				k := int64(r.Intn(n + 1))
				if r.Intn(2) == 0 {
					rc.proto[k] = Prop{v: vStr("P"), w: false, e: true, c: true}
				} else {
					rc.proto[k] = Prop{acc: &Getter{id: 90 + int(k), p: r.Intn(9)}}
					allData = false
				}
			}
			if r.Intn(3) == 0 { // constructor / literal / apply under the same prototypes
				var args []V
				for i := r.Intn(n + 2); i > 0; i-- {
					args = append(args, g.val())
				}
				form := r.Intn(3)
				if form == 1 && len(args) == 1 {
					form = 2
				}
				if len(args) == 1 && args[0].k == 'd' {
					args[0] = vStr("x")
				}
				g.runCtorP(args, r.Intn(2) == 0, form, rc.JS()[:strings.Index(rc.JS(), "var ISARR")], "proto-result")
				continue
			}
			var ops []Op
			for i := 1 + r.Intn(2); i > 0; i-- {
				ms := []int{13, 13, 14, 14, 5, 5}
				if rc.arr && !rc.onAP || rc.arr {
					ms = append(ms, 17)
				}
				if allData {
					ms = append(ms, 6)
				}
				m := Pick(r, ms)
				op := g.call(rc, m)
				if m == 13 || m == 14 {
					op.args = []Arg{{kind: 'c'}}
					op.cbs = g.cbScript(int64(n), 4)
					for i := range op.cbs {
						op.cbs[i].ret = Pick(r, []V{vBool(true), vNum(1), vStr("x"), vNum(float64(r.Intn(9))), vBool(false)})
					}
				}
				ops = append(ops, op)
			}
			g.runHist(rc, ops, "proto-result")
		case k == 45: // step order of the seven callback methods: counted length getter, non-callable / missing / callable callback
			n := r.Intn(4)
			rc := Recv{elems: g.slots(n, Pick(r, []int{0, 1})), lenGet: true}
			rc.length = vp(Pick(r, []V{vNum(float64(n)), vNum(float64(n)), vNum(0), vNum(float64(n) + 1), vStr("1"), vUndef}))
			var ops []Op
			for i := 1 + r.Intn(3); i > 0; i-- {
				op := Op{kind: 'c', m: 10 + r.Intn(7)}
				switch r.Intn(4) {
				case 0:
				case 1:
					op.args = []Arg{{kind: 'c'}}
				default:
					op.args = []Arg{av(g.val())}
					if r.Intn(2) == 0 {
						op.args = append(op.args, av(g.val()))
					}
				}
				ops = append(ops, op)
			}
			g.runHist(rc, ops, "length-getter")
		case k == 38: // receivers whose length converts to 0: the methods still write length (15.4.4.6/9 step 4.a ...)
			var rc Recv
			var ops []Op
			if r.Intn(3) == 0 {
				rc = Recv{arr: true}
				ops = append(ops, Pick(r, []Op{{kind: 'p', k: kName("length"), d: Desc{w: bp(false)}}, {kind: 'f'}, {kind: 'l'}, {kind: 'e'}}))
			} else {
				rc = Recv{elems: g.slots(r.Intn(3), 0)}
				rc.length = Pick(r, []*V{nil, vp(vNum(math.NaN())), vp(vNum(0.5)), vp(vNum(-0.3)), vp(vNum(4294967296)), vp(vNull), vp(vUndef), vp(vBool(false)), vp(vStr("")), vp(vNum(math.Inf(1))), vp(vNum(math.Copysign(0, -1))), vp(vNum(8589934592))})
			}
			for i := 1 + r.Intn(2); i > 0; i-- {
				m := Pick(r, []int{1, 1, 1, 4, 4, 2, 7, 6, 3})
				op := Op{kind: 'c', m: m}
				if (m == 2 || m == 7) && r.Intn(2) == 0 {
					op.args = []Arg{av(g.val())}
				}
				ops = append(ops, op)
			}
			g.runHist(rc, ops, "zero-length")
		case k >= 33 && k < 36: // callbacks that overwrite / delete / redefine THE ELEMENT BEING VISITED
			rc := g.recv(false)
			for len(rc.elems) < 2 || rc.lenGuess() > 10 {
				rc = g.recv(false)
			}
			if r.Intn(4) == 0 {
				rc.getters = map[int]Getter{r.Intn(len(rc.elems)): {id: 1, p: r.Intn(9)}}
			}
			var ops []Op
			for i := 1 + r.Intn(2); i > 0; i-- {
				m := Pick(r, []int{10, 11, 12, 13, 14, 14, 14, 15, 16})
				op := Op{kind: 'c', m: m, args: []Arg{{kind: 'c'}}, cbs: g.cbScript(rc.lenGuess(), 3)}
				if m >= 15 && r.Intn(2) == 0 {
					op.args = append(op.args, av(g.val()))
				}
				ops = append(ops, op)
			}
			g.runHist(rc, ops, "visited-element")
		case k >= 36: // receivers some of whose elements are counting getters (no setter): every method
			n := 1 + r.Intn(6)
			rc := Recv{arr: r.Intn(10) < 7, elems: g.slots(n, Pick(r, []int{0, 0, 1, 2}))}
			if !rc.arr {
				rc.length = vp(vNum(float64(n)))
			}
			rc.getters = map[int]Getter{}
			for i := 1 + r.Intn(3); i > 0; i-- {
				j := r.Intn(n)
				rc.getters[j] = Getter{id: j + 1, p: r.Intn(9)}
			}
			if r.Intn(5) == 0 {
				rc.proto = map[int64]Prop{int64(r.Intn(n + 1)): {v: vStr("P"), w: true, e: true, c: true}}
			}
			var ops []Op
			for i := 1 + r.Intn(2); i > 0; i-- {
				m := g.anyMethod(rc)
				op := g.call(rc, m)
				if (m == 8 || m == 9) && len(op.args) > 0 && r.Intn(2) == 0 { // search for what a getter returns
					for _, gp := range rc.getters {
						op.args[0] = av(vNum(float64(gp.p)))
					}
				}
				ops = append(ops, op)
			}
			g.runHist(rc, ops, "element-getters")
		case k == 31: // push / pop / append where length + argCount crosses 2^32 (array-likes: n is a mathematical integer)
			rc := Recv{elems: g.slots(r.Intn(3), 0)}
			rc.length = vp(Pick(r, []V{vNum(4294967295), vNum(4294967294), vNum(4294967293), vNum(-1), vNum(-2), vNum(-3), vNum(8589934591), vNum(8589934590), vNum(4294967295.9), vStr("4294967295")}))
			var ops []Op
			for i := 1 + r.Intn(2); i > 0; i-- {
				op := Op{kind: 'c', m: Pick(r, []int{2, 2, 2, 1})}
				if op.m == 2 {
					for j := r.Intn(4); j > 0; j-- {
						op.args = append(op.args, av(g.val()))
					}
				}
				ops = append(ops, op)
			}
			g.runHist(rc, ops, "near-2^32")
		case k == 32: // one more share of mutation histories
			rc := g.recv(r.Intn(5) > 0)
			var ops []Op
			for i := 2 + r.Intn(5); i > 0; i-- {
				if r.Intn(4) == 0 {
					ops = append(ops, g.call(rc, Pick(r, []int{1, 2, 4, 7, 6, 3, g.anyMethod(rc)})))
				} else {
					ops = append(ops, g.mutation(rc))
				}
			}
			g.runHist(rc, ops, "histories")
		case k >= 22 && k < 25: // iteration methods whose callback grows / shrinks / edits the receiver during the walk
			rc := g.recv(false)
			for len(rc.elems) < 2 {
				rc = g.recv(false)
			}
			n := rc.lenGuess()
			var ops []Op
			for i := 1 + r.Intn(2); i > 0; i-- {
				m := 10 + r.Intn(7)
				op := Op{kind: 'c', m: m, args: []Arg{{kind: 'c'}}, cbs: g.cbScript(n, 1)}
				if m >= 15 && r.Intn(2) == 0 {
					op.args = append(op.args, av(g.val()))
				} else if m < 15 && r.Intn(3) == 0 {
					op.args = append(op.args, Arg{kind: 't'})
				}
				ops = append(ops, op)
			}
			g.runHist(rc, ops, "mutating-callbacks")
		case k >= 25 && k < 29: // mutators on hardened receivers: the state after the TypeError is compared
			rc := g.recv(r.Intn(6) > 0)
			if rc.lenGuess() < 2 || (!rc.arr && (rc.length == nil || rc.length.k != 'd' || rc.length.n > 20 || rc.length.n < 0)) {
				rc = Recv{arr: true, elems: g.slots(2+r.Intn(5), Pick(r, []int{1, 2, 2}))}
			}
			n := rc.lenGuess()
			if rc.proto == nil && r.Intn(3) == 0 {
				rc.proto = map[int64]Prop{int64(r.Intn(int(n) + 1)): {v: vStr("P"), w: r.Intn(4) > 0, e: true, c: true}}
				rc.onAP = rc.arr && r.Intn(2) == 0
			}
			var ops []Op
			for i := 1 + r.Intn(2); i > 0; i-- {
				idx := kIdx(r.Int63n(n + 1))
				switch r.Intn(9) {
				case 0, 1:
					ops = append(ops, Op{kind: 'e'})
				case 2:
					ops = append(ops, Op{kind: 'l'})
				case 3:
					ops = append(ops, Op{kind: Pick(r, []byte{'f', 'e'})})
				case 4, 5:
					ops = append(ops, Op{kind: 'p', k: idx, d: Desc{c: bp(false)}})
				case 6:
					ops = append(ops, Op{kind: 'p', k: idx, d: Desc{w: bp(false)}})
				case 7:
					ops = append(ops, Op{kind: 'p', k: idx, d: Desc{v: vp(g.val()), w: bp(r.Intn(2) == 0), e: bp(true), c: bp(r.Intn(2) == 0)}})
				default:
					ops = append(ops, Op{kind: 'p', k: kName("length"), d: Desc{w: bp(false)}})
				}
			}
			if rc.arr && r.Intn(3) == 0 { // truncation against the hardened elements (15.4.5.1 step 3.l)
				nl := vNum(float64(r.Intn(int(n) + 1)))
				switch r.Intn(3) {
				case 0:
					ops = append(ops, Op{kind: 's', k: kName("length"), v: nl})
				case 1:
					ops = append(ops, Op{kind: 'p', k: kName("length"), d: Desc{v: vp(nl), w: bp(false)}})
				default:
					ops = append(ops, Op{kind: 'p', k: kName("length"), d: Desc{v: vp(nl)}})
				}
				if r.Intn(2) == 0 {
					ops = append(ops, g.mutation(rc))
				}
			}
			for i := 1 + r.Intn(2); i > 0; i-- {
				m := Pick(r, []int{1, 2, 3, 3, 3, 4, 4, 6, 6, 7, 7, 7})
				op := g.call(rc, m)
				if (m == 2 || m == 7) && r.Intn(2) == 0 {
					op.args = nil
				}
				ops = append(ops, op)
			}
			g.runHist(rc, ops, "hardened")
		case k >= 29: // array-likes whose length is a getter that counts its reads
			n := r.Intn(6)
			rc := Recv{elems: g.slots(n, Pick(r, []int{0, 1, 2})), lenGet: true}
			fn := float64(n)
			rc.length = vp(Pick(r, []V{vNum(fn), vNum(fn), vNum(fn), vNum(fn + 1), vNum(math.Max(fn-1, 0)), vStr(fmt.Sprint(n)), vNum(fn + 0.5), vNum(0), vUndef, vNum(4294967296 + fn)}))
			if r.Intn(4) == 0 {
				rc.proto = map[int64]Prop{int64(r.Intn(n + 1)): {v: vStr("P"), w: true, e: true, c: true}}
			}
			var ops []Op
			for i := 1 + r.Intn(2); i > 0; i-- {
				m := Pick(r, []int{0, 5, 8, 9, 10, 11, 12, 12, 13, 14, 15, 16, 18, 19})
				op := g.call(rc, m)
				if m >= 10 && m <= 16 {
					if len(op.args) > 0 && op.args[0].kind == 'c' {
						op.cbs = g.cbScript(rc.lenGuess(), 2)
					}
					if r.Intn(4) == 0 {
						op.args, op.cbs = []Arg{av(g.val())}, nil
					}
				}
				ops = append(ops, op)
			}
			g.runHist(rc, ops, "length-getter")

		case k < 8: // method calls on a prepared receiver
			rc := g.recv(false)
			var ops []Op
			if r.Intn(10) < 3 {
				for i := 1 + r.Intn(2); i > 0; i-- {
					ops = append(ops, g.mutation(rc))
				}
			}
			for i := Pick(r, []int{1, 1, 2, 2, 3}); i > 0; i-- {
				ops = append(ops, g.call(rc, g.anyMethod(rc)))
			}
			g.runHist(rc, ops, "methods")
		case k < 12: // clamps: numeric arguments against dense arrays
			n := r.Intn(7)
			a := make([]*V, n)
			for i := range a {
				a[i] = vp(vNum(float64(i)))
			}
			rc := Recv{arr: r.Intn(4) > 0, elems: a}
			if !rc.arr {
				rc.length = vp(vNum(float64(n)))
			}
			m := Pick(r, []int{5, 5, 6, 6, 8, 9})
			g.runHist(rc, []Op{g.call(rc, m)}, "clamps")
		case k < 16: // length invariant: mutation histories
			rc := g.recv(r.Intn(5) > 0)
			var ops []Op
			for i := 2 + r.Intn(5); i > 0; i-- {
				if r.Intn(4) == 0 {
					ops = append(ops, g.call(rc, Pick(r, []int{1, 2, 4, 7, 6, 3, g.anyMethod(rc)})))
				} else {
					ops = append(ops, g.mutation(rc))
				}
			}
			g.runHist(rc, ops, "histories")
		case k < 18: // property names
			rc := g.recv(r.Intn(8) > 0)
			var ops []Op
			for i := 1 + r.Intn(3); i > 0; i-- {
				if r.Intn(4) == 0 {
					ops = append(ops, g.mutation(rc))
				} else {
					ops = append(ops, g.nameOp(rc))
				}
			}
			g.runHist(rc, ops, "names")
		case k < 19:
			g.sortCase()
		default:
			if r.Intn(3) == 0 {
				g.ctorCase()
			} else {
				g.strCase()
			}
		}
	}
}
