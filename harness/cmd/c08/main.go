// c08: correspondence cases for property C08 (arrays, ES5 15.4).
//
// A case is a receiver (array literal with holes, or an array-like object
// literal), optionally a few inherited index properties on Object.prototype /
// Array.prototype, and a history of operations (assignments, deletes,
// Object.defineProperty, freeze/seal/preventExtensions, Array.prototype method
// calls with scripted callbacks).  After every step the script records the
// result or error class, every own property of the receiver with its
// attributes, the extensible flag and the callback log.  The Coq side
// (Otto.C08.Corr) runs the same history on the ES5 algorithms and on the model
// of otto and judges the observation.
package main

import (
	"fmt"
	"math"
	"os"
	"math/rand"
	"sort"
	"strconv"
	"strings"
	"time"

	"github.com/robertkrimen/otto"
	. "ottoh/lib"
)

func main() {
	env := FromFlags("c08")
	runC08(env)
	env.Finish()
}

// ---------- values ----------

type V struct {
	k byte // 'u' undefined, 'n' null, 'b' bool (n), 'd' number (n), 's' string (s)
	n float64
	s string
}

var (
	vUndef = V{k: 'u'}
	vNull  = V{k: 'n'}
)

func vNum(f float64) V { return V{k: 'd', n: f} }
func vStr(s string) V  { return V{k: 's', s: s} }
func vBool(b bool) V {
	if b {
		return V{k: 'b', n: 1}
	}
	return V{k: 'b'}
}

func (v V) JS() string {
	switch v.k {
	case 'u':
		return "undefined"
	case 'n':
		return "null"
	case 'b':
		if v.n != 0 {
			return "true"
		}
		return "false"
	case 'd':
		return JSNum(v.n)
	}
	return JSStr(Units(v.s))
}

func (v V) Coq() string {
	switch v.k {
	case 'u':
		return "VUndef"
	case 'n':
		return "VNull"
	case 'b':
		return "(VBool " + Cbool(v.n != 0) + ")"
	case 'd':
		f := v.n
		if f == math.Trunc(f) && math.Abs(f) <= 9007199254740992 && !(f == 0 && math.Signbit(f)) {
			return "(VNum " + Cz(int64(f)) + ")"
		}
		return "(VDbl " + Cdouble(f) + ")"
	}
	return "(VStr " + Cstr(v.s) + ")"
}

// ---------- keys ----------

type Key struct {
	idx  int64  // >= 0: the integer name
	name string // used when idx < 0: a raw string name ("length" included)
}

func kIdx(i int64) Key  { return Key{idx: i} }
func kName(s string) Key { return Key{idx: -1, name: s} }

func (k Key) str() string {
	if k.idx >= 0 {
		return strconv.FormatInt(k.idx, 10)
	}
	return k.name
}
func (k Key) JS() string { return JSStr(Units(k.str())) }

// keys of operations: raw strings are classified inside Coq
func (k Key) Coq() string {
	if k.idx >= 0 {
		return "(KI " + Cz(k.idx) + ")"
	}
	if k.name == "length" {
		return "KLen"
	}
	return "(key_of_string " + Cstr(k.name) + ")"
}

// keys of observed own properties: classified here (canonical decimal => KI)
func obsKey(name string) string {
	if name == "length" {
		return "KLen"
	}
	if isCanonDec(name) {
		return "(KI " + name + ")"
	}
	return "(KS " + Cstr(name) + ")"
}

func isCanonDec(s string) bool {
	if s == "" || (len(s) > 1 && s[0] == '0') {
		return false
	}
	for _, c := range s {
		if c < '0' || c > '9' {
			return false
		}
	}
	return true
}

// ---------- case description ----------

type Prop struct {
	v       V
	w, e, c bool
	acc     *Getter // inherited accessor: this getter plus a setter that logs [7; id; value]
}

func (p Prop) Coq() string {
	if p.acc != nil {
		return fmt.Sprintf("(mkP %s false true true)", p.acc.Coq())
	}
	return fmt.Sprintf("(mkP %s %s %s %s)", p.v.Coq(), Cbool(p.w), Cbool(p.e), Cbool(p.c))
}

type Desc struct {
	v       *V
	w, e, c *bool
}

func (d Desc) JS() string {
	var f []string
	if d.v != nil {
		f = append(f, "value:"+d.v.JS())
	}
	if d.w != nil {
		f = append(f, "writable:"+Cbool(*d.w))
	}
	if d.e != nil {
		f = append(f, "enumerable:"+Cbool(*d.e))
	}
	if d.c != nil {
		f = append(f, "configurable:"+Cbool(*d.c))
	}
	return "{" + strings.Join(f, ",") + "}"
}
func ob(b *bool) string {
	if b == nil {
		return "None"
	}
	return "(Some " + Cbool(*b) + ")"
}
func (d Desc) Coq() string {
	v := "None"
	if d.v != nil {
		v = "(Some " + d.v.Coq() + ")"
	}
	return fmt.Sprintf("(mkD %s %s %s %s)", v, ob(d.w), ob(d.e), ob(d.c))
}

// a counting getter (no setter): logs its id, performs a side effect on another object of the same call
// (fx 0 none, 1 append n to argument array j, 2 set the length of argument array j to n, 3 append n to the
// receiver, 4 set the receiver's length to n), returns p
type Getter struct{ id, p, fx, j, n int }

func (g Getter) JS() string  { return fmt.Sprintf("mkg(%d,%d,%d,%d,%d)", g.id, g.p, g.fx, g.j, g.n) }
func (g Getter) Coq() string { return fmt.Sprintf("(VGet %d %d %d %d %d)", g.id, g.p, g.fx, g.j, g.n) }

type Arg struct {
	kind byte // 'v' value, 'a' array literal, 'c' callback, 't' marker object, 'r' the receiver itself, 'o' converting object
	oid, op int  // 'o': an object whose valueOf/toString logs [5; oid] and returns op ...
	othrow  bool // ... or throws
	v    V
	a    []*V
	g    map[int]Getter // 'a': elements that are counting getters
	j    int            // 'a': position among the array arguments of the call (AS[j])
}

func arrLit(a []*V) string {
	var b strings.Builder
	b.WriteByte('[')
	for i, e := range a {
		if i > 0 {
			b.WriteByte(',')
		}
		if e != nil {
			b.WriteString(e.JS())
		}
	}
	if len(a) > 0 && a[len(a)-1] == nil {
		b.WriteByte(',')
	}
	b.WriteByte(']')
	return b.String()
}
func slotsCoq(a []*V) string {
	s := make([]string, len(a))
	for i, e := range a {
		if e == nil {
			s[i] = "None"
		} else {
			s[i] = "(Some " + e.Coq() + ")"
		}
	}
	return Clist(s)
}

func (a Arg) JS() string {
	switch a.kind {
	case 'v':
		return a.v.JS()
	case 'a':
		return fmt.Sprintf("AS[%d]", a.j)
	case 'c':
		return "cb"
	case 'r':
		return "R"
	case 'o':
		return fmt.Sprintf("mko(%d,(%d),%s)", a.oid, a.op, Cbool(a.othrow))
	}
	return "T"
}
func (a Arg) Coq() string {
	switch a.kind {
	case 'v':
		return "(AV " + a.v.Coq() + ")"
	case 'a':
		el := make([]string, len(a.a))
		for i, e := range a.a {
			if gt, ok := a.g[i]; ok {
				el[i] = "(Some " + gt.Coq() + ")"
			} else if e == nil {
				el[i] = "None"
			} else {
				el[i] = "(Some " + e.Coq() + ")"
			}
		}
		return "(AA " + Clist(el) + ")"
	case 'c':
		return "ACb"
	case 'r':
		return "AR"
	case 'o':
		return fmt.Sprintf("(AO %d %s %s)", a.oid, Cz(int64(a.op)), Cbool(a.othrow))
	}
	return "AT"
}

type CbStep struct {
	mut   byte // 0 none, 'p' put, 'd' delete, 'a' append at length; on the element being visited: 'P' put, 'D' delete, 'G' redefine as counting getter
	gid   int
	gp    int
	k     Key
	v     V
	throw bool
	ret   V
}

func (c CbStep) JS() string {
	m := "null"
	switch c.mut {
	case 'p':
		m = fmt.Sprintf("function(){R[%s]=%s}", c.k.JS(), c.v.JS())
	case 'd':
		m = fmt.Sprintf("function(){delete R[%s]}", c.k.JS())
	case 'a':
		m = fmt.Sprintf("function(){var n=R.length>>>0;R[n]=%s;if(!ISARR)R.length=n+1}", c.v.JS())
	case 'P':
		m = fmt.Sprintf("function(i){R[i]=%s}", c.v.JS())
	case 'D':
		m = "function(i){delete R[i]}"
	case 'G':
		m = fmt.Sprintf("function(i){Object.defineProperty(R,i,{get:mkg(%d,%d,0,0,0),enumerable:true,configurable:true})}", c.gid, c.gp)
	}
	return fmt.Sprintf("{m:%s,t:%s,r:%s}", m, Cbool(c.throw), c.ret.JS())
}
func (c CbStep) Coq() string {
	m := "MNone"
	switch c.mut {
	case 'p':
		m = fmt.Sprintf("(MPut %s %s)", c.k.Coq(), c.v.Coq())
	case 'd':
		m = fmt.Sprintf("(MDel %s)", c.k.Coq())
	case 'a':
		m = fmt.Sprintf("(MAppend %s)", c.v.Coq())
	case 'P':
		m = fmt.Sprintf("(MPutCur %s)", c.v.Coq())
	case 'D':
		m = "MDelCur"
	case 'G':
		m = fmt.Sprintf("(MGetCur %d %d)", c.gid, c.gp)
	}
	return fmt.Sprintf("(mkCb %s %s %s)", m, Cbool(c.throw), c.ret.Coq())
}

type Op struct {
	kind byte // 's' set, 'x' delete, 'p' defineProperty, 'f' freeze, 'l' seal, 'e' preventExtensions, 'c' call
	k    Key
	v    V
	d    Desc
	m    int
	args []Arg
	cbs  []CbStep
	lg   bool // the receiver's length is a counting getter
}

var methods = []string{"join", "pop", "push", "reverse", "shift", "slice", "splice", "unshift", "indexOf", "lastIndexOf",
	"every", "some", "forEach", "map", "filter", "reduce", "reduceRight", "concat", "toString", "toLocaleString"}

// methods whose running time does not depend on the length
func constTime(m int) bool { return m == 1 || m == 2 }

func (o Op) JS() string { // an expression, guarded against 2^32-step loops by a leading condition
	switch o.kind {
	case 's':
		g := ""
		if o.k.name == "length" {
			g = fmt.Sprintf("ISARR && R.length-Number(%s)>5000 ? SKIP : ", o.v.JS())
		}
		return fmt.Sprintf("%sstep(function(){return R[%s]=%s})", g, o.k.JS(), o.v.JS())
	case 'x':
		return fmt.Sprintf("step(function(){return delete R[%s]})", o.k.JS())
	case 'p':
		g := ""
		if o.k.name == "length" && o.d.v != nil {
			g = fmt.Sprintf("ISARR && R.length-Number(%s)>5000 ? SKIP : ", o.d.v.JS())
		}
		return fmt.Sprintf("%sstep(function(){return Object.defineProperty(R,%s,%s)})", g, o.k.JS(), o.d.JS())
	case 'f':
		return "step(function(){return Object.freeze(R)})"
	case 'l':
		return "step(function(){return Object.seal(R)})"
	case 'e':
		return "step(function(){return Object.preventExtensions(R)})"
	}
	as := make([]string, len(o.args))
	var lits []string
	setup := ""
	for i := range o.args {
		if o.args[i].kind == 'a' {
			o.args[i].j = len(lits)
			lits = append(lits, arrLit(o.args[i].a))
			for k := 0; k < len(o.args[i].a); k++ {
				if gt, ok := o.args[i].g[k]; ok {
					setup += fmt.Sprintf("Object.defineProperty(AS[%d],\"%d\",{get:%s,enumerable:true,configurable:true}),", o.args[i].j, k, gt.JS())
				}
			}
		}
		as[i] = ", " + o.args[i].JS()
	}
	setup = "AS=[" + strings.Join(lits, ",") + "]," + setup
	cs := make([]string, len(o.cbs))
	for i, c := range o.cbs {
		cs[i] = c.JS()
	}
	g := ""
	if !constTime(o.m) {
		g = "(R.length>>>0)>200 ? SKIP : "
	}
	ci := 1
	if o.m == 15 || o.m == 16 {
		ci = 2
	}
	return fmt.Sprintf("%s(%sS=[%s],K=0,CI=%d,step(function(){return AP.%s.call(R%s)}))", g, setup, strings.Join(cs, ","), ci, methods[o.m], strings.Join(as, ""))
}

func (o Op) Coq() string {
	switch o.kind {
	case 's':
		return fmt.Sprintf("OSet %s %s", o.k.Coq(), o.v.Coq())
	case 'x':
		return fmt.Sprintf("ODel %s", o.k.Coq())
	case 'p':
		return fmt.Sprintf("ODef %s %s", o.k.Coq(), o.d.Coq())
	case 'f':
		return "OFreeze"
	case 'l':
		return "OSeal"
	case 'e':
		return "OPrevent"
	}
	as := make([]string, len(o.args))
	for i, a := range o.args {
		as[i] = a.Coq()
	}
	cs := make([]string, len(o.cbs))
	for i, c := range o.cbs {
		cs[i] = c.Coq()
	}
	if o.lg {
		return fmt.Sprintf("OCallG %d %s %s", o.m, Clist(as), Clist(cs))
	}
	return fmt.Sprintf("OCall %d %s %s", o.m, Clist(as), Clist(cs))
}

type Recv struct {
	arr    bool
	elems  []*V
	length *V // array-likes: the length property (nil = none)
	proto  map[int64]Prop
	onAP   bool // inherited properties live on Array.prototype (else Object.prototype)
	lenGet bool // array-like whose length is a getter that logs every read (returns *length)
	getters map[int]Getter // index -> the element is a counting getter without setter
	prim   *V             // the receiver is this PRIMITIVE (string, number or boolean); the methods work on ToObject(this)
}

func (r Recv) protoKeys() []int64 {
	ks := make([]int64, 0, len(r.proto))
	for k := range r.proto {
		ks = append(ks, k)
	}
	sort.Slice(ks, func(i, j int) bool { return ks[i] < ks[j] })
	return ks
}

func (r Recv) JS() string {
	var b strings.Builder
	where := "Object.prototype"
	if r.onAP {
		where = "Array.prototype"
	}
	for _, k := range r.protoKeys() {
		p := r.proto[k]
		if p.acc != nil {
			fmt.Fprintf(&b, "Object.defineProperty(%s,\"%d\",{get:%s,set:mks(%d),enumerable:true,configurable:true});", where, k, p.acc.JS(), p.acc.id)
			continue
		}
		fmt.Fprintf(&b, "Object.defineProperty(%s,\"%d\",{value:%s,writable:%s,enumerable:true,configurable:true});", where, k, p.v.JS(), Cbool(p.w))
	}
	if r.prim != nil {
		fmt.Fprintf(&b, "var ISARR=false, R=%s;PRIM=true;", r.prim.JS())
		return b.String()
	}
	if r.arr {
		fmt.Fprintf(&b, "var ISARR=true, R=%s;", arrLit(r.elems))
	} else {
		var f []string
		for i, e := range r.elems {
			if e != nil {
				f = append(f, fmt.Sprintf("\"%d\":%s", i, e.JS()))
			}
		}
		if r.length != nil && !r.lenGet {
			f = append(f, "length:"+r.length.JS())
		}
		fmt.Fprintf(&b, "var ISARR=false, R={%s};", strings.Join(f, ","))
		if r.lenGet {
			fmt.Fprintf(&b, "LG=true;NLV=%s;Object.defineProperty(R,\"length\",{get:function(){LOG+=\"9;\";return NLV},enumerable:true,configurable:true});", r.length.JS())
		}
	}
	for i := 0; i < len(r.elems)+2; i++ {
		if gp, ok := r.getters[i]; ok {
			fmt.Fprintf(&b, "Object.defineProperty(R,\"%d\",{get:%s,enumerable:true,configurable:true});", i, gp.JS())
		}
	}
	return b.String()
}

func (r Recv) Coq() string {
	var own []string
	if r.prim != nil { // ToObject: a String object has non-writable, non-configurable index properties and length (15.5.5)
		if r.prim.k == 's' {
			own = append(own, fmt.Sprintf("(KLen, mkP (VNum %d) false false false)", len(r.prim.s)))
			for i := 0; i < len(r.prim.s); i++ {
				own = append(own, fmt.Sprintf("(KI %d, mkP (VStr [%d]) false true false)", i, r.prim.s[i]))
			}
		}
		return fmt.Sprintf("(mkO false true %s [])", Clist(own))
	}
	if r.arr {
		own = append(own, fmt.Sprintf("(KLen, mkP (VNum %d) true false false)", len(r.elems)))
	} else if r.length != nil {
		own = append(own, fmt.Sprintf("(KLen, mkP %s true true true)", r.length.Coq()))
	}
	for i, e := range r.elems {
		if gp, ok := r.getters[i]; ok {
			own = append(own, fmt.Sprintf("(KI %d, mkP %s false true true)", i, gp.Coq()))
		} else if e != nil {
			own = append(own, fmt.Sprintf("(KI %d, mkP %s true true true)", i, e.Coq()))
		}
	}
	var pr []string
	for _, k := range r.protoKeys() {
		pr = append(pr, fmt.Sprintf("(%d, %s)", k, r.proto[k].Coq()))
	}
	return fmt.Sprintf("(mkO %s true %s %s)", Cbool(r.arr), Clist(own), Clist(pr))
}

// ---------- the script prelude (string-only helpers: inherited index properties must not disturb it) ----------

const prelude = `var G=this, T={}, AP=Array.prototype, LOG="", K=0, S=[], SKIP="SKIP\n", OUT="", LG=false, NLV, CI=1, PRIM=false, W0;
var AS=[];
function mkg(id,p,fx,j,n){ var g=function(){ LOG+="8,i"+id+";";
  if(fx===1){var A=AS[j];A[A.length]=n}else if(fx===2){AS[j].length=n}else if(fx===3){R[R.length]=n}else if(fx===4){R.length=n}
  return p };
 g.tok="G"+id+"_"+p+"_"+fx+"_"+j+"_"+n; return g; }
function mko(id,p,t){ var f=function(){ LOG+="5,i"+id+";"; if(t)throw new URIError("vo"); return p }; return {valueOf:f,toString:f}; }
function mks(id){ return function(v){ LOG+="7,i"+id+","+enc(v)+";" } }
var HOP=Object.prototype.hasOwnProperty;
function enc(v){
 if(v===undefined)return "u"; if(v===null)return "n"; if(v===true)return "t"; if(v===false)return "f";
 if(typeof v==="number"){ if(v!==v)return "dNaN"; if(v===Infinity)return "dInf"; if(v===-Infinity)return "d-Inf";
  if(v===0&&1/v<0)return "d-0"; if(Math.floor(v)===v&&Math.abs(v)<=9007199254740992)return "i"+v; return "g"+v; }
 if(typeof v==="string"){ var h="s"; for(var i=0;i<v.length;i++){h+=v.charCodeAt(i)+"."} return h; }
 if(v===R)return PRIM?"o":"R";
 if(PRIM&&typeof v==="object"&&Object.prototype.toString.call(v)===Object.prototype.toString.call(Object(R))&&v.valueOf()===R){ if(W0===undefined)W0=v; return v===W0?"R":"o"; }
 if(v===T)return "T"; if(v===G)return "W"; if(Array.isArray(v))return "A"; return "o";
}
function encarr(r){ var s="A"; for(var i=0;i<r.length;i++){ s+=(i?",":"")+(HOP.call(r,i)?enc(r[i]):"h"); } return s; }
function encrv(r){
 if(!PRIM&&r===R)return "R";
 if(Array.isArray(r))return encarr(r);
 return enc(r);
}
function dump(o){
 var n=Object.getOwnPropertyNames(o), s=Object.isExtensible(o)?"E":"N";
 for(var i=0;i<n.length;i++){ var d=Object.getOwnPropertyDescriptor(o,n[i]); var h="";
  for(var j=0;j<n[i].length;j++){h+=n[i].charCodeAt(j)+"."}
  var vs; if(HOP.call(d,"value")){vs=enc(d.value)+":"+(d.writable?1:0)}else if(LG&&n[i]==="length"){vs=enc(NLV)+":1"}else if(d.get&&HOP.call(d.get,"tok")){vs=d.get.tok+":0"}else{vs="ACC:0"}
  s+="|"+h+":"+vs+(d.enumerable?1:0)+(d.configurable?1:0); }
 return s;
}
function cb(){
 var n=K++, e=""+(this===G?0:(this===T?1:2));
 for(var i=0;i<arguments.length;i++){ e+=","+enc(arguments[i]); }
 LOG+=e+";";
 if(n<S.length){ var s=S[n]; if(s.m)s.m(arguments[CI]); if(s.t)throw new URIError("cb"); return s.r; }
}
function step(f){
 var s; LOG=""; W0=undefined;
 try{ s="ok "+encrv(f()); }catch(e){ s="ex "+(e instanceof RangeError?3:e instanceof TypeError?6:e instanceof URIError?7:8); }
 return s+"#"+dump(PRIM?Object(R):R)+"#"+LOG+"\n";
}
`

// ---------- decoding the observation ----------

func decVal(tok string) (string, bool) { // Coq val term
	if tok == "" {
		return "", false
	}
	switch tok[0] {
	case 'u':
		return "VUndef", true
	case 'n':
		return "VNull", true
	case 't':
		return "(VBool true)", true
	case 'f':
		return "(VBool false)", true
	case 'i':
		f, err := strconv.ParseFloat(tok[1:], 64)
		if err != nil {
			return "", false
		}
		return vNum(f).Coq(), true
	case 'd':
		switch tok[1:] {
		case "NaN":
			return vNum(math.NaN()).Coq(), true
		case "Inf":
			return vNum(math.Inf(1)).Coq(), true
		case "-Inf":
			return vNum(math.Inf(-1)).Coq(), true
		case "-0":
			return vNum(math.Copysign(0, -1)).Coq(), true
		}
		return "", false
	case 'g':
		f, err := strconv.ParseFloat(tok[1:], 64)
		if err != nil {
			return "", false
		}
		return vNum(f).Coq(), true
	case 's':
		return "(VStr " + decUnits(tok[1:]) + ")", true
	case 'G':
		var gt Getter
		if _, err := fmt.Sscanf(tok, "G%d_%d_%d_%d_%d", &gt.id, &gt.p, &gt.fx, &gt.j, &gt.n); err != nil {
			return "", false
		}
		return gt.Coq(), true
	case 'R':
		return "(VBool true)", true // "is the receiver"
	case 'T', 'W', 'A', 'o':
		return "(VBool false)", true
	}
	return "", false
}

func decUnits(s string) string {
	var u []string
	for _, p := range strings.Split(s, ".") {
		if p != "" {
			u = append(u, p)
		}
	}
	return Clist(u)
}
func decName(s string) string {
	var b []byte
	for _, p := range strings.Split(s, ".") {
		if p != "" {
			n, _ := strconv.Atoi(p)
			if n < 128 {
				b = append(b, byte(n))
			} else {
				b = append(b, '?')
			}
		}
	}
	return string(b)
}

const badObs = "(Thrown 9, ([], true), [])"

// "A<tok>,<tok>,..." -> Coq list (option val)
func decArr(r string) (string, bool) {
	var el []string
	if len(r) > 1 {
		for _, t := range strings.Split(r[1:], ",") {
			if t == "h" {
				el = append(el, "None")
			} else if c, ok := decVal(t); ok {
				el = append(el, "(Some "+c+")")
			} else {
				return "", false
			}
		}
	}
	return Clist(el), true
}

// one line "ok <rv>#<dump>#<log>" -> Coq obs
func decObs(line string) string {
	parts := strings.Split(line, "#")
	if len(parts) != 3 {
		return badObs
	}
	var out string
	switch {
	case strings.HasPrefix(parts[0], "ex "):
		out = "Thrown " + parts[0][3:]
	case strings.HasPrefix(parts[0], "ok "):
		r := parts[0][3:]
		switch {
		case r == "R":
			out = "Ret RThis"
		case strings.HasPrefix(r, "A"):
			el, ok := decArr(r)
			if !ok {
				return badObs
			}
			out = "Ret (RArr " + el + ")"
		default:
			c, ok := decVal(r)
			if !ok {
				return badObs
			}
			out = "Ret (RVal " + c + ")"
		}
	default:
		return badObs
	}
	// own properties
	ps := strings.Split(parts[1], "|")
	ext := ps[0] == "E"
	type kp struct {
		name string
		term string
	}
	var props []kp
	for _, p := range ps[1:] {
		f := strings.Split(p, ":")
		if len(f) != 3 || len(f[2]) != 3 {
			return badObs
		}
		name := decName(f[0])
		v, ok := decVal(f[1])
		if !ok {
			v = "(VStr [65;67;67])"
		}
		props = append(props, kp{name, fmt.Sprintf("(%s, mkP %s %s %s %s)", obsKey(name), v, Cbool(f[2][0] == '1'), Cbool(f[2][1] == '1'), Cbool(f[2][2] == '1'))})
	}
	sort.SliceStable(props, func(i, j int) bool { return keyLess(props[i].name, props[j].name) })
	pt := make([]string, len(props))
	for i, p := range props {
		pt[i] = p.term
	}
	// callback log
	var log []string
	for _, e := range strings.Split(parts[2], ";") {
		if e == "" {
			continue
		}
		var vs []string
		for i, t := range strings.Split(e, ",") {
			if i == 0 {
				vs = append(vs, "VNum "+t)
				continue
			}
			c, ok := decVal(t)
			if !ok {
				return badObs
			}
			vs = append(vs, c)
		}
		log = append(log, Clist(vs))
	}
	return fmt.Sprintf("(%s, (%s, %s), %s)", out, Clist(pt), Cbool(ext), Clist(log))
}

// the canonical order of Spec.key_ltb: length, integer names ascending, other names by code units
func keyLess(a, b string) bool {
	ra, rb := keyRank(a), keyRank(b)
	if ra != rb {
		return ra < rb
	}
	if ra == 1 {
		if len(a) != len(b) {
			return len(a) < len(b)
		}
		return a < b
	}
	return listLess(a, b)
}
func keyRank(s string) int {
	if s == "length" {
		return 0
	}
	if isCanonDec(s) {
		return 1
	}
	return 2
}
func listLess(a, b string) bool { // Spec.list_ltb on ASCII
	for i := 0; i < len(a) && i < len(b); i++ {
		if a[i] != b[i] {
			return a[i] < b[i]
		}
	}
	return len(a) < len(b)
}

// ---------- running a case ----------

type gen struct {
	env *Env
	r   *rand.Rand
}

func runScript(src string) Outcome {
	vm := otto.New()
	vm.Interrupt = make(chan func(), 1)
	timer := time.AfterFunc(20*time.Second, func() {
		vm.Interrupt <- func() { panic("c08: script did not terminate in 20 s") }
	})
	defer timer.Stop()
	t0 := time.Now()
	o := RunJS(vm, src)
	if el := time.Since(t0); el > 2*time.Second && os.Getenv("C08_SLOW") != "" {
		fmt.Fprintf(os.Stderr, "SLOW %v: %s\n", el, src[len(src)-min(len(src), 400):])
	}
	return o
}

func (g *gen) runHist(r Recv, ops []Op, bucket string) {
	for i := range ops {
		if ops[i].kind == 'c' {
			ops[i].lg = r.lenGet
		}
	}
	var src strings.Builder
	src.WriteString(prelude)
	src.WriteString(r.JS())
	src.WriteString("\n")
	for _, o := range ops {
		fmt.Fprintf(&src, "OUT+=(%s);\n", o.JS())
	}
	src.WriteString("OUT")
	o := runScript(src.String())
	var obs []string
	var kept []string
	text := r.JS()
	switch {
	case o.Panic != nil:
		obs = []string{badObs}
		for _, op := range ops {
			kept = append(kept, op.Coq())
			text += " ; " + op.JS()
		}
		text += fmt.Sprintf(" -> GO PANIC %v", o.Panic)
	case o.Err != nil:
		obs = []string{badObs}
		for _, op := range ops {
			kept = append(kept, op.Coq())
			text += " ; " + op.JS()
		}
		text += " -> SCRIPT ERROR " + o.Err.Error()
	default:
		lines := strings.Split(strings.TrimSuffix(o.Val.String(), "\n"), "\n")
		text += " -> "
		for i, op := range ops {
			if i >= len(lines) {
				break
			}
			if lines[i] == "SKIP" {
				continue
			}
			kept = append(kept, op.Coq())
			obs = append(obs, decObs(lines[i]))
			text += " ; " + op.JS() + " => " + lines[i]
		}
	}
	if len(kept) == 0 {
		return
	}
	g.env.Add(fmt.Sprintf("CHist %s %s %s", r.Coq(), Clist(kept), Clist(obs)), text, bucket, true)
}

