// c13: correspondence cases for property C13 (Math, isNaN/isFinite, URI coding, escape/unescape).
package main

import (
	"fmt"
	"math"
	"math/rand"
	"strings"

	"github.com/robertkrimen/otto"
	. "ottoh/lib"
)

func main() {
	env := FromFlags("c13")
	runC13(env)
	env.Finish()
}

type gen struct {
	env *Env
	vm  *otto.Otto
	r   *rand.Rand
	ctx []*otto.Otto // runtimes for the error identity cases, see makeContexts

	deferPow   bool
	pendingPow [][2]float64
}

// ---------- numbers ----------

func fb(u uint64) float64 { return math.Float64frombits(u) }

var two52 = math.Ldexp(1, 52)
var two53 = math.Ldexp(1, 53)

var numPool = []float64{
	math.NaN(), 0, math.Copysign(0, -1), math.Inf(1), math.Inf(-1),
	1, -1, 0.5, -0.5, 1.5, -1.5, 2.5, -2.5, 3.5, -3.5, 0.25, -0.25, 0.75, -0.75,
	fb(0x3FDFFFFFFFFFFFFF), -fb(0x3FDFFFFFFFFFFFFF), fb(0x3FE0000000000001), -fb(0x3FE0000000000001),
	fb(0x3FEFFFFFFFFFFFFF), fb(0x3FF0000000000001), -fb(0x3FEFFFFFFFFFFFFF), -fb(0x3FF0000000000001),
	2, -2, 3, -3, 4, -4, 5, -5, 7, 10, -10, 100, 1e15, -1e15,
	two52, -two52, two52 + 1, -(two52 + 1), two52 - 0.5, -(two52 - 0.5), two52 - 1, two52 / 2, two52/2 + 0.5, two52/2 - 0.5,
	two52 + 3, -(two52 + 3), two52 + 2, two53 - 1, -(two53 - 1), two53 - 3, two53, -two53, two53 + 2, -(two53 + 2), two53 * 4,
	2147483647, 2147483648, -2147483648, 4294967295, 4294967296,
	math.SmallestNonzeroFloat64, -math.SmallestNonzeroFloat64, fb(0x000FFFFFFFFFFFFF), fb(0x0010000000000000), -fb(0x0010000000000000),
	math.MaxFloat64, -math.MaxFloat64, 1e300, -1e300, 1e-300, -1e-300, 1e-10, -1e-10, 1e-17,
	math.Pi, -math.Pi, math.Pi / 2, -math.Pi / 2, math.Pi / 4, math.E, math.Ln2, 0.1, -0.1, 0.9, -0.9, 1.1, -1.1, 709, 710, -745, -746, 88.5,
}

func (g *gen) num() float64 {
	r := g.r
	switch k := r.Intn(20); {
	case k < 10:
		return Pick(r, numPool)
	case k < 13: // a neighbour of a boundary value
		v := Pick(r, numPool)
		if r.Intn(2) == 0 {
			return math.Nextafter(v, math.Inf(1))
		}
		return math.Nextafter(v, math.Inf(-1))
	case k < 15: // small integers and half-integers
		v := float64(r.Intn(41) - 20)
		if r.Intn(2) == 0 {
			v += 0.5
		}
		return v
	case k < 17: // anything at all
		return fb(r.Uint64())
	case k < 18: // integers in [2^51, 2^54)
		v := float64(uint64(1)<<51+uint64(r.Int63n(int64(7)<<51))) + float64(r.Intn(2))*0.5
		if r.Intn(2) == 0 {
			v = -v
		}
		return v
	case k < 19: // n + 0.5 -+ one ulp
		v := float64(r.Intn(2001)-1000) + 0.5
		switch r.Intn(3) {
		case 0:
			v = math.Nextafter(v, math.Inf(1))
		case 1:
			v = math.Nextafter(v, math.Inf(-1))
		}
		return v
	default:
		return (r.Float64()*2 - 1) * math.Pow(10, float64(r.Intn(40)-20))
	}
}

// an argument: (JS text, Coq jv term, is it "special")
type jarg struct {
	js, coq string
	special bool
}

func numArg(f float64) jarg {
	sp := math.IsNaN(f) || math.IsInf(f, 0) || f == 0 || math.Abs(f) >= two52 || (f != math.Trunc(f) && f*2 == math.Trunc(f*2)) || math.Abs(f) == 1
	return jarg{JSNum(f), "(JNum " + Cdouble(f) + ")", sp}
}

var numStrings = []string{"", " ", "12", "  12  ", "-7", "+7", "0", "-0", "Infinity", "-Infinity", "+Infinity", " Infinity\n", "abc", "12px", "1e3", "1E3", "1e+3", "2e-1",
	"1e400", "-1e400", "1e-400", "0x1F", "0X10", "0x", "-0x10", "1e", ".5", "5.", ".", "+.e1", "1.5", "2.5", "-2.5", "4503599627370497", "9007199254740993", "NaN", "Infinity1", "\t\n7\r", "1 2", "--1", "1.2.3", "0.0", "00012", "1e1000", "inf", "１"}

func (g *gen) anyArg(numOnly bool) jarg {
	r := g.r
	k := r.Intn(20)
	if numOnly || k < 12 {
		return numArg(g.num())
	}
	switch {
	case k < 14:
		s := Pick(r, numStrings)
		if s == "inf" || s == "１" { // otto's ToNumber on these is C05's business
			s = "12"
		}
		return jarg{JSStr(Units(s)), "(JStr " + Cstr(s) + ")", true}
	case k < 15:
		return jarg{"undefined", "JUndef", true}
	case k < 16:
		return jarg{"null", "JNull", true}
	case k < 17:
		b := r.Intn(2) == 0
		return jarg{Cbool(b), "(JBool " + Cbool(b) + ")", true}
	case k < 19:
		a := numArg(g.num())
		return jarg{"({valueOf:function(){return " + a.js + "}})", "(JObj " + a.coq + ")", true}
	default:
		a := numArg(g.num())
		return jarg{"new Number(" + a.js + ")", "(JObj " + a.coq + ")", true}
	}
}

var fnNames = map[int]string{0: "abs", 1: "acos", 2: "asin", 3: "atan", 4: "atan2", 5: "ceil", 6: "cos", 7: "exp", 8: "floor", 9: "log",
	10: "max", 11: "min", 12: "pow", 13: "round", 14: "sin", 15: "sqrt", 16: "tan", 17: "random",
	20: "acosh", 21: "asinh", 22: "atanh", 23: "cbrt", 24: "cosh", 25: "expm1", 26: "log10", 27: "log1p", 28: "log2", 29: "sinh", 30: "tanh", 31: "trunc"}

var unaryFns = []int{0, 1, 2, 3, 5, 6, 7, 8, 9, 13, 14, 15, 16, 13, 13, 5, 8, 0, 20, 21, 22, 23, 24, 25, 26, 27, 28, 29, 30, 31}

// run a JS expression expected to yield a number; returns its bits or a marker
func (g *gen) numResult(src string) (string, string) {
	o := RunJS(g.vm, src)
	if o.Panic != nil {
		return "(-9)", fmt.Sprintf("!panic %v", o.Panic)
	}
	if o.Err != nil {
		return fmt.Sprintf("(-%d)", 100+ErrClass(o)), "!err " + o.Err.Error()
	}
	if !o.Val.IsNumber() {
		return "(-8)", "!notnumber " + o.Val.String()
	}
	f, _ := o.Val.ToFloat()
	return Cdouble(f), fmt.Sprintf("%s [0x%016X]", JSNum(f), Dbits(f))
}

func joinJS(a []jarg) string {
	s := make([]string, len(a))
	for i := range a {
		s[i] = a[i].js
	}
	return strings.Join(s, ", ")
}
func joinCoq(a []jarg) string {
	s := make([]string, len(a))
	for i := range a {
		s[i] = a[i].coq
	}
	return Clist(s)
}

func (g *gen) mathCase(fn int, args []jarg) {
	src := "Math." + fnNames[fn] + "(" + joinJS(args) + ")"
	bits, txt := g.numResult(src)
	nt := len(args) != nominalArity(fn)
	for _, a := range args {
		nt = nt || a.special
	}
	g.env.Add(fmt.Sprintf("CMath %d %s %s", fn, joinCoq(args), bits), "math "+src+" -> "+txt, "math:"+fnNames[fn], nt)
}

func nominalArity(fn int) int {
	switch fn {
	case 4, 12:
		return 2
	case 10, 11:
		return 2
	case 17:
		return 0
	}
	return 1
}

func (g *gen) powArgs() []jarg {
	r := g.r
	switch r.Intn(6) {
	case 0, 1: // table cells
		return []jarg{numArg(Pick(r, powXs)), numArg(Pick(r, powYs))}
	case 2, 3: // exact rational powers
		x := float64(r.Intn(65)-32) / float64(int(1)<<uint(r.Intn(5)))
		if r.Intn(4) == 0 {
			x = g.num()
		}
		y := float64(r.Intn(41) - 20)
		if r.Intn(5) == 0 {
			y = float64(r.Intn(129) - 64)
		}
		return []jarg{numArg(x), numArg(y)}
	default:
		return []jarg{g.anyArg(false), g.anyArg(false)}
	}
}

func (g *gen) atan2Args() []jarg {
	r := g.r
	switch r.Intn(4) {
	case 0:
		return []jarg{numArg(Pick(r, atan2Vs)), numArg(Pick(r, atan2Vs))}
	case 1: // quotients near the underflow threshold 2^-1075
		ey := r.Intn(400) - 1074
		ex := ey + 1075 + r.Intn(7) - 3
		if ex > 1023 {
			ex = 1023
		}
		y := math.Ldexp(1+float64(r.Intn(3))*0.25, ey)
		x := math.Ldexp(1+float64(r.Intn(3))*0.25, ex)
		if r.Intn(2) == 0 {
			y = -y
		}
		if r.Intn(2) == 0 {
			x = -x
		}
		return []jarg{numArg(y), numArg(x)}
	default:
		return []jarg{g.anyArg(false), g.anyArg(false)}
	}
}

func (g *gen) maxminArgs() []jarg {
	r := g.r
	n := r.Intn(7)
	args := make([]jarg, n)
	zeroish := r.Intn(3) == 0
	for i := range args {
		if zeroish {
			args[i] = numArg(Pick(r, []float64{0, math.Copysign(0, -1), 0, math.Copysign(0, -1), math.NaN(), 5e-324, -5e-324, math.Inf(1), math.Inf(-1)}))
		} else {
			args[i] = g.anyArg(r.Intn(4) != 0)
		}
	}
	return args
}

// every argument wrapped in an object that logs its valueOf call
func (g *gen) convCase(fn int, vals []float64) {
	var b strings.Builder
	b.WriteString("var __log = []; function __W(i, v) { return {valueOf: function () { __log.push(i); return v; }}; } var __r = Math." + fnNames[fn] + "(")
	cq := make([]string, len(vals))
	for i, v := range vals {
		if i > 0 {
			b.WriteString(", ")
		}
		fmt.Fprintf(&b, "__W(%d, %s)", i, JSNum(v))
		cq[i] = "(JObj (JNum " + Cdouble(v) + "))"
	}
	b.WriteString("); [__log.join(''), __log.length]")
	src := b.String()
	o := RunJS(g.vm, src)
	bits, txt, nconv := "(-9)", "", "(-1)"
	if o.Panic != nil {
		txt = fmt.Sprintf("!panic %v", o.Panic)
	} else if o.Err != nil {
		txt = "!err " + o.Err.Error()
	} else {
		rv, _ := g.vm.Get("__r")
		f, _ := rv.ToFloat()
		if !rv.IsNumber() {
			bits, txt = "(-8)", "!notnumber "+rv.String()
		} else {
			bits = Cdouble(f)
			lg := o.Val.String()
			order := lg
			if i := strings.LastIndex(lg, ","); i >= 0 {
				order = lg[:i]
				nconv = lg[i+1:]
			}
			// the conversions must run left to right
			for i := 0; i < len(order); i++ {
				if int(order[i]-'0') != i {
					nconv = "(-2)"
				}
			}
			txt = fmt.Sprintf("%s [0x%016X] valueOf calls: %q", JSNum(f), Dbits(f), order)
		}
	}
	g.env.Add(fmt.Sprintf("CConv %d %s %s %s", fn, Clist(cq), bits, nconv), "conv "+src+" -> "+txt, "conv:"+fnNames[fn], true)
}

// ---------- relations ----------
type relDef struct {
	id   int
	expr string // over x (and y)
	lo   float64
	hi   float64
	neg  bool // also negative x
	two  bool
}

var rels = []relDef{
	{1, "Math.exp(Math.log(x))", 1e-3, 1e3, false, false},
	{2, "Math.log(Math.exp(x))", 0.1, 50, true, false},
	{3, "Math.sin(x)*Math.sin(x)+Math.cos(x)*Math.cos(x)", 0, 100, true, false},
	{4, "Math.tan(x)*Math.cos(x)/Math.sin(x)", 0.1, 1.4, true, false},
	{5, "Math.atan(Math.tan(x))", 0.1, 1.2, true, false},
	{6, "Math.asin(Math.sin(x))", 0.1, 1.2, true, false},
	{7, "Math.acos(Math.cos(x))", 0.3, 2.8, false, false},
	{9, "Math.pow(x,0.5)/Math.sqrt(x)", 1e-3, 1e6, false, false},
	{10, "Math.pow(x,y)/Math.exp(y*Math.log(x))", 0.5, 20, false, true},
	{11, "Math.atan2(y,x)/Math.atan(y/x)", 0.1, 20, false, true},
	{12, "4*Math.atan(1)", 0, 0, false, false},
	{13, "Math.exp(1)", 0, 0, false, false},
	{14, "Math.log(10)", 0, 0, false, false},
	{15, "Math.sin(Math.PI/6)", 0, 0, false, false},
	{16, "Math.cos(Math.PI/3)", 0, 0, false, false},
	{17, "Math.tan(Math.PI/4)", 0, 0, false, false},
	{18, "2*Math.asin(1)", 0, 0, false, false},
	{19, "Math.acos(-1)", 0, 0, false, false},
	{20, "Math.sinh(x)/((Math.exp(x)-Math.exp(-x))/2)", 0.5, 20, true, false},
	{21, "Math.cosh(x)/((Math.exp(x)+Math.exp(-x))/2)", 0.5, 20, true, false},
	{22, "Math.tanh(x)*Math.cosh(x)/Math.sinh(x)", 0.5, 20, true, false},
	{23, "Math.asinh(Math.sinh(x))", 0.5, 20, true, false},
	{24, "Math.acosh(Math.cosh(x))", 0.5, 20, true, false},
	{25, "Math.atanh(Math.tanh(x))", 0.1, 3, true, false},
	{26, "Math.expm1(x)/(Math.exp(x)-1)", 0.5, 20, false, false},
	{27, "Math.log1p(x)/Math.log(1+x)", 0.5, 100, false, false},
	{28, "Math.log2(x)*Math.LN2/Math.log(x)", 2, 1000, false, false},
	{29, "Math.log10(x)*Math.LN10/Math.log(x)", 2, 1000, false, false},
	{30, "Math.log(2)", 0, 0, false, false},
	{31, "Math.sqrt(2)", 0, 0, false, false},
	{32, "4*Math.acos(0)/Math.PI", 0, 0, false, false},
}

func (g *gen) relCase() {
	r := g.r
	d := Pick(r, rels)
	x := d.lo + r.Float64()*(d.hi-d.lo)
	if d.lo > 0 && d.hi/d.lo > 100 { // log-uniform on wide ranges
		x = d.lo * math.Pow(d.hi/d.lo, r.Float64())
	}
	if d.neg && r.Intn(2) == 0 {
		x = -x
	}
	args := []float64{x}
	src := ""
	if d.hi == 0 {
		src = d.expr
	} else {
		src = "var x = " + JSNum(x) + "; "
		if d.two {
			y := (r.Float64()*2 - 1) * 5
			if d.id == 11 && y == 0 {
				y = 1
			}
			args = append(args, y)
			src += "var y = " + JSNum(y) + "; "
		}
		src += d.expr
	}
	bits, txt := g.numResult(src)
	cq := make([]string, len(args))
	for i, a := range args {
		cq[i] = Cdouble(a)
	}
	g.env.Add(fmt.Sprintf("CRel %d %s %s", d.id, Clist(cq), bits), "rel "+src+" -> "+txt, "rel", d.hi != 0)
}

type monoDef struct {
	fn     int
	lo, hi float64
	neg    bool
}

var monos = []monoDef{{1, 0, 1, true}, {2, 0, 1, true}, {3, 0, 1e6, true}, {5, 0, 1e16, true}, {7, 0, 700, true}, {8, 0, 1e16, true}, {9, 1e-300, 1e300, false},
	{13, 0, 1e16, true}, {15, 0, 1e300, false}, {21, 0, 1e6, true}, {23, 0, 1e300, true}, {25, 0, 700, true}, {26, 1e-300, 1e300, false}, {27, 0, 1e6, false},
	{28, 1e-300, 1e300, false}, {29, 0, 700, true}, {30, 0, 20, true}, {31, 0, 1e16, true}}

func (g *gen) monoCase() {
	r := g.r
	d := Pick(r, monos)
	x1 := d.lo + r.Float64()*(d.hi-d.lo)
	if d.hi > 1e3 {
		lo := d.lo
		if lo == 0 {
			lo = 1e-3
		}
		x1 = lo * math.Pow(d.hi/lo, r.Float64())
	}
	if r.Intn(4) == 0 {
		x1 = math.Floor(x1) + 0.5
	}
	if x1 > d.hi {
		x1 = d.hi
	}
	x2 := x1 * (1 + math.Ldexp(1, -r.Intn(30)))
	if x2 > d.hi {
		x2 = d.hi
	}
	if d.neg && r.Intn(2) == 0 {
		x1, x2 = -x1, -x2
	}
	name := fnNames[d.fn]
	b1, t1 := g.numResult("Math." + name + "(" + JSNum(x1) + ")")
	b2, t2 := g.numResult("Math." + name + "(" + JSNum(x2) + ")")
	g.env.Add(fmt.Sprintf("CMono %d %s %s %s %s", d.fn, Cdouble(x1), Cdouble(x2), b1, b2),
		fmt.Sprintf("mono Math.%s(%s) -> %s ; Math.%s(%s) -> %s", name, JSNum(x1), t1, name, JSNum(x2), t2), "mono", true)
}

// ---------- strings ----------

func (g *gen) codePoint() int {
	r := g.r
	switch k := r.Intn(32); {
	case k < 6:
		return int(Pick(r, []byte("abcXYZ0189")))
	case k < 12:
		return int(Pick(r, []byte(";/?:@&=+$,#-_.!~*'()% %%++@@\"<>\\^`{|}[]")))
	case k < 13:
		return r.Intn(0x80)
	case k < 16:
		return Pick(r, []int{0x7F, 0x80, 0xA0, 0xE9, 0xFF, 0x100, 0x7FF, 0x800})
	case k < 18:
		return 0x80 + r.Intn(0x780)
	case k < 21:
		return Pick(r, []int{0x800, 0xFFF, 0x1000, 0x20AC, 0xD7FF, 0xE000, 0xFFFD, 0xFFFE, 0xFFFF, 0x2028, 0xFEFF})
	case k < 23:
		c := 0x800 + r.Intn(0xF800)
		if c >= 0xD800 && c <= 0xDFFF {
			c = 0x4E2D
		}
		return c
	case k < 27:
		return Pick(r, []int{0x10000, 0x10001, 0x1F600, 0xFFFFF, 0x100000, 0x10FFFF, 0x10FFFE, 0x103FF, 0x10400, 0x1FFFF, 0x20000})
	case k < 29:
		return 0x10000 + r.Intn(0x100000)
	default:
		return int(Pick(r, []byte("aZ5%")))
	}
}

func cpUnits(c int) []uint16 {
	if c < 0x10000 {
		return []uint16{uint16(c)}
	}
	c -= 0x10000
	return []uint16{uint16(0xD800 + c>>10), uint16(0xDC00 + c&0x3FF)}
}

// well-formed unit string
func (g *gen) wfString(maxLen int) []uint16 {
	n := g.r.Intn(maxLen + 1)
	var u []uint16
	for i := 0; i < n; i++ {
		u = append(u, cpUnits(g.codePoint())...)
	}
	return u
}

func wellFormed(u []uint16) bool {
	for i := 0; i < len(u); i++ {
		c := u[i]
		if c >= 0xD800 && c <= 0xDBFF {
			if i+1 >= len(u) || u[i+1] < 0xDC00 || u[i+1] > 0xDFFF {
				return false
			}
			i++
		} else if c >= 0xDC00 && c <= 0xDFFF {
			return false
		}
	}
	return true
}

func pctBytes(bs []byte, lower bool) []uint16 {
	var out []uint16
	for _, b := range bs {
		s := fmt.Sprintf("%%%02X", b)
		if lower {
			s = strings.ToLower(s)
		}
		out = append(out, Units(s)...)
	}
	return out
}

// a (mostly) valid percent-encoded text, then mutated
func (g *gen) pctString() ([]uint16, bool) {
	r := g.r
	var u []uint16
	n := r.Intn(6) + 1
	for i := 0; i < n; i++ {
		switch r.Intn(10) {
		case 0, 1, 2, 3:
			c := g.codePoint()
			u = append(u, pctBytes([]byte(string(rune(c))), r.Intn(3) == 0)...)
		case 4: // escapes of reserved characters, both cases
			c := Pick(r, []byte(";/?:@&=+$,#%"))
			u = append(u, pctBytes([]byte{c}, r.Intn(2) == 0)...)
		case 5:
			u = append(u, cpUnits(g.codePoint())...)
		case 6: // ill-formed octet sequences
			bad := Pick(r, [][]byte{{0xC0, 0x80}, {0xC1, 0xBF}, {0xE0, 0x80, 0x80}, {0xE0, 0x9F, 0xBF}, {0xED, 0xA0, 0x80}, {0xED, 0xBF, 0xBF}, {0xED, 0x9F, 0xBF}, {0xEE, 0x80, 0x80},
				{0xF0, 0x80, 0x80, 0x80}, {0xF0, 0x8F, 0xBF, 0xBF}, {0xF0, 0x90, 0x80, 0x80}, {0xF4, 0x8F, 0xBF, 0xBF}, {0xF4, 0x90, 0x80, 0x80}, {0xF5, 0x80, 0x80, 0x80}, {0xF8, 0x88, 0x80, 0x80, 0x80},
				{0xFF}, {0xFE}, {0x80}, {0xBF}, {0xC2}, {0xE2, 0x82}, {0xF0, 0x9F, 0x98}, {0xC2, 0x41}, {0xE2, 0x82, 0x41}, {0xE2, 0x41, 0xAC}, {0xC2, 0xC2, 0xA9}, {0xC2, 0xA9, 0xA9}, {0xDF, 0xBF}, {0xEF, 0xBF, 0xBF}})
			u = append(u, pctBytes(bad, r.Intn(4) == 0)...)
		case 7:
			u = append(u, Units(Pick(r, []string{"%", "%%", "%4", "%4g", "%g4", "%u0041", "%u00e9", "%U0041", "%uD83D%uDE00", "%ud800", "%uDC00", "%u12", "%u12G4", "%25", "%2525", "%253B", "+", "%2B", "%2b", "%20", "%00", "%7F", "%E2%82%AC", "%e2%82%ac", "%C3%A9", "%F0%9F%98%80", "%3B%2F%3F%3A%40%26%3D%2B%24%2C%23", "%E0%A4%23", "%C3%23", "%c3%3b"}))...)
		default:
			u = append(u, Units(Pick(r, []string{"a", "Z", "0", "-", "_", ".", "~", "!", "*", "'", "(", ")", ";", "/", "?", ":", "@", "&", "=", "$", ",", "#", " "}))...)
		}
	}
	mutated := false
	if len(u) > 0 && r.Intn(2) == 0 {
		mutated = true
		for k := r.Intn(2) + 1; k > 0 && len(u) > 0; k-- {
			i := r.Intn(len(u))
			switch r.Intn(6) {
			case 0: // delete a unit
				u = append(u[:i:i], u[i+1:]...)
			case 1: // change a unit to another hex digit / letter
				u[i] = uint16(Pick(r, []byte("0123456789abcdefABCDEFgGuU%")))
			case 2: // insert '%'
				u = append(u[:i:i], append([]uint16{'%'}, u[i:]...)...)
			case 3: // truncate
				u = u[:i]
			case 4: // duplicate a unit
				u = append(u[:i:i], append([]uint16{u[i]}, u[i:]...)...)
			default: // swap neighbours
				if i+1 < len(u) {
					u[i], u[i+1] = u[i+1], u[i]
				}
			}
		}
	}
	// keep the string free of lone surrogates unless that is what is being tested
	if !wellFormed(u) && r.Intn(4) != 0 {
		for i := range u {
			if u[i] >= 0xD800 && u[i] <= 0xDFFF {
				u[i] = 'x'
			}
		}
	}
	return u, mutated
}

var strFnNames = []string{"encodeURI", "encodeURIComponent", "decodeURI", "decodeURIComponent", "escape", "unescape"}

// JS expression producing the string: a literal for well-formed text (raw
// UTF-8 in the source), String.fromCharCode for everything else
func jsStringExpr(u []uint16, forceCharCode bool) string {
	if !forceCharCode && wellFormed(u) {
		var b strings.Builder
		b.WriteByte('"')
		for i := 0; i < len(u); i++ {
			c := rune(u[i])
			if c >= 0xD800 && c <= 0xDBFF {
				c = (c-0xD800)<<10 + (rune(u[i+1]) - 0xDC00) + 0x10000
				i++
			}
			switch {
			case c == '"' || c == '\\':
				b.WriteByte('\\')
				b.WriteRune(c)
			case c < 0x20 || c == 0x7F || c == 0x2028 || c == 0x2029 || c == 0xFEFF || c == 0xFFFE || c == 0xFFFF || c == 0xFFFD || (c >= 0x80 && c < 0xA1):
				fmt.Fprintf(&b, "\\u%04X", c)
			default:
				b.WriteRune(c)
			}
		}
		b.WriteByte('"')
		return b.String()
	}
	if len(u) == 0 {
		return "String.fromCharCode()"
	}
	s := make([]string, len(u))
	for i, c := range u {
		s[i] = fmt.Sprintf("%d", c)
	}
	return "String.fromCharCode(" + strings.Join(s, ",") + ")"
}

func (g *gen) strCase(fns []int, u []uint16, bucket string, nontrivial bool) {
	g.strArgCase(fns, jsStringExpr(u, g.r.Intn(3) == 0), u, bucket, nontrivial)
}

// fns applied to the JS expression arg whose ToString is the text u ("" as arg: no argument at all);
// the result must be a String primitive
func (g *gen) strArgCase(fns []int, arg string, u []uint16, bucket string, nontrivial bool) {
	expr := arg
	for _, f := range fns {
		expr = strFnNames[f] + "(" + expr + ")"
	}
	o := RunJS(g.vm, expr)
	var obs, txt string
	switch {
	case o.Panic != nil:
		obs, txt = "(9, [])", fmt.Sprintf("!panic %v", o.Panic)
	case o.Err != nil:
		obs, txt = fmt.Sprintf("(%d, [])", ErrClass(o)), "!err "+o.Err.Error()
	case !o.Val.IsString():
		obs, txt = "(8, [])", "!notstring "+o.Val.String()
	default:
		s := o.Val.String()
		obs, txt = "(0, "+Cstr(s)+")", fmt.Sprintf("%q %v", s, Units(s))
	}
	fl := make([]string, len(fns))
	for i, f := range fns {
		fl[i] = fmt.Sprintf("%d", f)
	}
	g.env.Add(fmt.Sprintf("CStr %s %s %s", Clist(fl), Cunits(u), obs), "str "+expr+" -> "+txt, bucket, nontrivial)
}

func hasNonASCII(u []uint16) bool {
	for _, c := range u {
		if c >= 0x80 || c == '%' {
			return true
		}
	}
	return false
}

var encChains = [][]int{{0}, {1}, {0, 2}, {1, 3}, {1, 2}, {0, 3}, {1, 3, 1, 3}, {0, 2, 0, 2}, {0, 1, 3, 2}, {4}, {4, 5}, {4, 5, 4, 5}, {1, 5}, {4, 3}, {0, 4, 5, 2}}
var decChains = [][]int{{2}, {3}, {5}, {2, 0}, {3, 1}, {5, 4}, {2, 3}, {5, 3}, {3, 5}, {2}, {3}, {5}}

func (g *gen) isNumCase() {
	r := g.r
	which := r.Intn(2)
	n := 1
	if r.Intn(10) == 0 {
		n = r.Intn(3)
	}
	args := make([]jarg, n)
	for i := range args {
		switch r.Intn(3) {
		case 0:
			s := Pick(r, numStrings)
			if s == "inf" || s == "１" {
				s = "1e"
			}
			args[i] = jarg{JSStr(Units(s)), "(JStr " + Cstr(s) + ")", true}
			if r.Intn(4) == 0 {
				args[i] = jarg{"({valueOf:function(){return " + JSStr(Units(s)) + "}})", "(JObj (JStr " + Cstr(s) + "))", true}
			}
		default:
			args[i] = g.anyArg(false)
		}
	}
	name := []string{"isNaN", "isFinite"}[which]
	src := name + "(" + joinJS(args) + ")"
	o := RunJS(g.vm, src)
	obs, txt := "(-9)", ""
	switch {
	case o.Panic != nil:
		txt = fmt.Sprintf("!panic %v", o.Panic)
	case o.Err != nil:
		obs, txt = fmt.Sprintf("(-%d)", 100+ErrClass(o)), "!err "+o.Err.Error()
	case !o.Val.IsBoolean():
		obs, txt = "(-8)", "!notboolean "+o.Val.String()
	default:
		b, _ := o.Val.ToBoolean()
		obs, txt = "0", "false"
		if b {
			obs, txt = "1", "true"
		}
	}
	g.env.Add(fmt.Sprintf("CIsNum %d %s %s", which, joinCoq(args), obs), "isnum "+src+" -> "+txt, name, true)
}

func (g *gen) pinned() {
	nan := math.NaN()
	// listed findings, first on every run
	g.mathCase(12, []jarg{numArg(1), numArg(nan)})
	g.mathCase(13, []jarg{numArg(fb(0x3FDFFFFFFFFFFFFF))})
	g.mathCase(13, []jarg{numArg(two52 + 1)})
	g.mathCase(13, []jarg{numArg(-(two52 + 1))})
	g.mathCase(4, []jarg{numArg(-5e-324), numArg(-1e300)})
	g.convCase(10, []float64{1, nan, 3})
	g.convCase(11, []float64{nan, 2})
	g.convCase(4, []float64{nan, 1})
	g.strCase([]int{4}, Units("@"), "escape", true)
	g.strCase([]int{4}, cpUnits(0x1F600), "escape", true)
	g.strCase([]int{5}, Units("é"), "unescape", true)
	g.strCase([]int{5}, Units("%uD83D%uDE00"), "unescape", true)
	g.strCase([]int{4}, []uint16{0xD800}, "escape", true)
	g.strCase([]int{5}, Units("%uD800"), "unescape", true)
	g.strCase([]int{5}, Units("a%uDC00%uD800b"), "unescape", true)
	g.strCase([]int{3}, []uint16{0x61, 0xDC00}, "decode", true)
	// fixed boundary cases that every run must contain
	for _, x := range []float64{-0.5, 0.5, 1.5, 2.5, -1.5, -2.5, math.Copysign(0, -1), -0.2, 0.2, two52 - 0.5, two52, two53 - 1, two53 + 2, -(two52 - 0.5), two52/2 + 0.5} {
		g.mathCase(13, []jarg{numArg(x)})
	}
	for _, fn := range []int{10, 11} {
		g.mathCase(fn, nil)
		g.mathCase(fn, []jarg{numArg(nan)})
		g.mathCase(fn, []jarg{numArg(0), numArg(math.Copysign(0, -1))})
		g.mathCase(fn, []jarg{numArg(math.Copysign(0, -1)), numArg(0)})
		g.mathCase(fn, []jarg{numArg(math.Copysign(0, -1)), numArg(math.Copysign(0, -1))})
		g.mathCase(fn, []jarg{numArg(1), numArg(2), numArg(nan)})
		g.mathCase(fn, []jarg{numArg(3), numArg(1), numArg(2)})
		g.mathCase(fn, []jarg{numArg(math.Inf(-1)), numArg(math.Inf(1))})
	}
	for id := 0; id < 8; id++ {
		name := []string{"E", "LN10", "LN2", "LOG2E", "LOG10E", "PI", "SQRT1_2", "SQRT2"}[id]
		bits, txt := g.numResult("Math." + name)
		g.env.Add(fmt.Sprintf("CConst %d %s", id, bits), "const Math."+name+" -> "+txt, "const", true)
	}
	for _, d := range rels {
		if d.hi == 0 {
			bits, txt := g.numResult(d.expr)
			g.env.Add(fmt.Sprintf("CRel %d [] %s", d.id, bits), "rel "+d.expr+" -> "+txt, "rel", true)
		}
	}
	for _, s := range []string{"", "a b", ";/?:@&=+$,#", "-_.!~*'()", "%", "é€😀", "߿ࠀ￿", "abcXYZ019"} {
		for _, ch := range [][]int{{0}, {1}, {0, 2}, {1, 3}, {4, 5}} {
			g.strCase(ch, Units(s), "fixed", true)
		}
	}
	for _, u := range [][]uint16{{0xD800}, {0xDC00}, {0xD800, 0x41}, {0x41, 0xDBFF}, {0xDC00, 0xD800}, {0xD800, 0xD800, 0xDC00}, {0xDBFF, 0xDFFF}, {0xD800, 0xDC00}} {
		g.strCase([]int{0}, u, "surrogates", true)
		g.strCase([]int{1}, u, "surrogates", true)
	}
}

var powXs = []float64{1, -1, 0, math.Copysign(0, -1), math.Inf(1), math.Inf(-1), math.NaN(), 0.5, -0.5, 2, -2, 1.5, -1.5, fb(0x3FEFFFFFFFFFFFFF), fb(0x3FF0000000000001), -fb(0x3FEFFFFFFFFFFFFF), -fb(0x3FF0000000000001), 1e300, -1e300, 5e-324, -5e-324, 3, -3}
var powYs = []float64{math.NaN(), 0, math.Copysign(0, -1), math.Inf(1), math.Inf(-1), 1, -1, 2, -2, 3, -3, 0.5, -0.5, 1.5, -1.5, two53 - 1, -(two53 - 1), two53, -two53, two53 + 2, 1e300, -1e300, 5e-324, -5e-324, two52 + 1, two52 + 0.5, 1e-300, 1075, -1075, 1074, -1074}
var atan2Vs = []float64{math.NaN(), 0, math.Copysign(0, -1), math.Inf(1), math.Inf(-1), 1, -1, 5e-324, -5e-324, 1e300, -1e300, 1e-300, -1e-300, math.MaxFloat64, -math.MaxFloat64}
var unaryVs = []float64{math.NaN(), 0, math.Copysign(0, -1), math.Inf(1), math.Inf(-1), 1, -1, fb(0x3FEFFFFFFFFFFFFF), fb(0x3FF0000000000001), -fb(0x3FEFFFFFFFFFFFFF), -fb(0x3FF0000000000001),
	0.5, -0.5, 2, -2, 0.25, -0.75, 5e-324, -5e-324, math.MaxFloat64, -math.MaxFloat64, 1e-300, 1e300, -1e300, 1.5, -1.5, 2.5, -2.5, 710, -746, math.Pi, -math.Pi / 2, 3, -3}
var roundVs = []float64{0.5, -0.5, 1.5, -1.5, 2.5, -2.5, 3.5, -3.5, 0.49999999999999994, -0.49999999999999994, 0.5000000000000001, -0.5000000000000001, 0.2, -0.2, 0.7, -0.7, 1.4999999999999998, -1.4999999999999998,
	two52 - 0.5, -(two52 - 0.5), two52 - 1.5, two52, -two52, two52 + 1, -(two52 + 1), two52 + 2, -(two52 + 2), two52 + 3, two53 - 1, -(two53 - 1), two53 - 2, two53, -two53, two53 + 2, -(two53 + 2),
	two52/2 + 0.5, -(two52/2 + 0.5), two52/2 + 0.25, two52/2 - 0.25, two52/4 + 0.5, two52/4 + 0.375, 1e15 + 0.5, -(1e15 + 0.5), 1e300, -1e300, 5e-324, -5e-324, 2147483647.5, -2147483648.5, 4294967295.5}
var zeroVs = []float64{0, math.Copysign(0, -1), math.NaN(), 5e-324, -5e-324, math.Inf(1), math.Inf(-1), 1, -1}

// deterministic sweeps of every special-value table cell, on every run
func (g *gen) sweeps() {
	for _, x := range powXs {
		for _, y := range powYs {
			g.mathCase(12, []jarg{numArg(x), numArg(y)})
		}
	}
	for _, y := range atan2Vs {
		for _, x := range atan2Vs {
			g.mathCase(4, []jarg{numArg(y), numArg(x)})
		}
	}
	for _, fn := range []int{0, 1, 2, 3, 5, 6, 7, 8, 9, 13, 14, 15, 16, 20, 21, 22, 23, 24, 25, 26, 27, 28, 29, 30, 31} {
		for _, x := range unaryVs {
			g.mathCase(fn, []jarg{numArg(x)})
		}
		g.mathCase(fn, nil)
	}
	for _, fn := range []int{13, 5, 8, 31} {
		for _, x := range roundVs {
			g.mathCase(fn, []jarg{numArg(x)})
		}
	}
	for _, fn := range []int{10, 11} {
		for _, a := range zeroVs {
			g.mathCase(fn, []jarg{numArg(a)})
			for _, b := range zeroVs {
				g.mathCase(fn, []jarg{numArg(a), numArg(b)})
				g.mathCase(fn, []jarg{numArg(a), numArg(b), numArg(math.Copysign(0, -1))})
				g.mathCase(fn, []jarg{numArg(2), numArg(a), numArg(b)})
			}
		}
	}
	for _, w := range []int{0, 1} {
		for _, a := range []jarg{numArg(math.NaN()), numArg(math.Inf(1)), numArg(math.Inf(-1)), numArg(0), numArg(math.MaxFloat64), {"undefined", "JUndef", true}, {"null", "JNull", true}, {"true", "(JBool true)", true}, {"\"\"", "(JStr [])", true}, {"\"Infinity\"", "(JStr " + Cstr("Infinity") + ")", true}, {"\"-Infinity\"", "(JStr " + Cstr("-Infinity") + ")", true}, {"\"x\"", "(JStr " + Cstr("x") + ")", true}, {"\" 1 \"", "(JStr " + Cstr(" 1 ") + ")", true}} {
			name := []string{"isNaN", "isFinite"}[w]
			src := name + "(" + a.js + ")"
			o := RunJS(g.vm, src)
			obs, txt := "(-9)", "!"
			if o.Panic == nil && o.Err == nil && o.Val.IsBoolean() {
				b, _ := o.Val.ToBoolean()
				obs, txt = "0", "false"
				if b {
					obs, txt = "1", "true"
				}
			}
			g.env.Add(fmt.Sprintf("CIsNum %d [%s] %s", w, a.coq, obs), "isnum "+src+" -> "+txt, name, true)
		}
	}
}

// deterministic sweeps over every ASCII character, every %XX octet and the code point boundaries
func (g *gen) strSweeps() {
	for c := 0; c < 128; c++ {
		u := []uint16{uint16(c)}
		for _, ch := range [][]int{{0}, {1}, {4}} {
			g.strCase(ch, u, "sweep:ascii", true)
		}
	}
	for b := 0; b < 256; b++ {
		up := Units(fmt.Sprintf("%%%02X", b))
		lo := Units(fmt.Sprintf("%%%02x", b))
		for _, f := range []int{2, 3, 5} {
			g.strCase([]int{f}, up, "sweep:octet", true)
			if b < 128 && string(utf16Str(lo)) != string(utf16Str(up)) {
				g.strCase([]int{f}, lo, "sweep:octet", true)
			}
		}
	}
	bounds := []int{0x7F, 0x80, 0xBF, 0xC0, 0xFF, 0x100, 0x7FF, 0x800, 0xFFF, 0x1000, 0xCFFF, 0xD000, 0xD7FF, 0xE000, 0xFFFD, 0xFFFF, 0x10000, 0x3FFFF, 0x40000, 0xFFFFF, 0x100000, 0x10FFFF}
	for _, c := range bounds {
		u := cpUnits(c)
		for _, ch := range [][]int{{0}, {1}, {4}, {0, 2}, {1, 3}, {4, 5}} {
			g.strCase(ch, u, "sweep:bounds", true)
		}
		// the UTF-8 octets of the code point as escapes, and with the last octet damaged
		bs := []byte(string(rune(c)))
		g.strCase([]int{3}, pctBytes(bs, false), "sweep:bounds", true)
		g.strCase([]int{2}, pctBytes(bs, true), "sweep:bounds", true)
		bad := append([]byte{}, bs...)
		bad[len(bad)-1] ^= 0x40
		g.strCase([]int{3}, pctBytes(bad, false), "sweep:bounds", true)
		g.strCase([]int{3}, pctBytes(bs[:len(bs)-1], false), "sweep:bounds", true)
		g.strCase([]int{3}, append(pctBytes(bs, false), pctBytes([]byte{0x80}, false)...), "sweep:bounds", true)
	}
	for _, v := range []int{0, 0x41, 0x7F, 0x80, 0xFF, 0x100, 0xABCD, 0xD7FF, 0xD800, 0xDBFF, 0xDC00, 0xDFFF, 0xE000, 0xFFFF} {
		g.strCase([]int{5}, Units(fmt.Sprintf("%%u%04X", v)), "sweep:pctu", true)
		g.strCase([]int{5}, Units(fmt.Sprintf("%%u%04x", v)), "sweep:pctu", true)
		g.strCase([]int{5}, Units(fmt.Sprintf("a%%u%04Xb", v)), "sweep:pctu", true)
		g.strCase([]int{5}, Units(fmt.Sprintf("%%u%04X", v))[:5], "sweep:pctu", true)
	}
	for _, t := range []string{"%", "%%", "a%", "%4", "%41", "a%41", "%41%", "%u", "%u0", "%u00", "%u004", "%u0041", "%u00411", "%%41", "%%u0041", "%u%41", "%4%41", "%zz%41", "+", "a+b", "%2B", "%2b", "%20", "a b", "%25", "%2541", "%25%34%31"} {
		for _, f := range []int{2, 3, 5} {
			g.strCase([]int{f}, Units(t), "sweep:edge", true)
		}
	}
}

func utf16Str(u []uint16) []byte {
	b := make([]byte, len(u))
	for i, c := range u {
		b[i] = byte(c)
	}
	return b
}

// ---------- payload representations ----------
// otto's Value keeps the Go payload it was built from (int, int8..int64,
// uint8..uint64, float32, float64; int32/uint32 from the bitwise operators,
// lengths, parseInt ...).  Every function must give the 15.8.2 answer for the
// NUMBER, whatever the payload: each boundary is passed in each representation.
type parg struct {
	js   string      // in-script expression, or "" when injected through vm.Set
	gov  interface{} // Go value injected through vm.Set / vm.Call
	desc string
	val  float64 // the Number it denotes
}

func goArgs() []parg {
	var out []parg
	add := func(v interface{}, f float64, d string) { out = append(out, parg{"", v, d, f}) }
	for _, v := range []int8{math.MinInt8, math.MaxInt8, -1, 0, 1} {
		add(v, float64(v), fmt.Sprintf("int8(%d)", v))
	}
	for _, v := range []int16{math.MinInt16, math.MaxInt16, -1, 0} {
		add(v, float64(v), fmt.Sprintf("int16(%d)", v))
	}
	for _, v := range []int32{math.MinInt32, math.MinInt32 + 1, math.MaxInt32, -1, 0, 1, 2, -3} {
		add(v, float64(v), fmt.Sprintf("int32(%d)", v))
	}
	for _, v := range []int64{math.MinInt64, math.MinInt64 + 1, math.MaxInt64, math.MinInt32, math.MaxInt32 + 1, -1, 0, 1, 1 << 53, 1<<53 + 1, -(1<<52 + 1)} {
		add(v, float64(v), fmt.Sprintf("int64(%d)", v))
	}
	for _, v := range []int{math.MinInt64, math.MaxInt64, math.MinInt32, -1, 0, 3} {
		add(v, float64(v), fmt.Sprintf("int(%d)", v))
	}
	for _, v := range []uint8{0, 1, math.MaxUint8} {
		add(v, float64(v), fmt.Sprintf("uint8(%d)", v))
	}
	for _, v := range []uint16{0, math.MaxUint16} {
		add(v, float64(v), fmt.Sprintf("uint16(%d)", v))
	}
	for _, v := range []uint32{0, 1, math.MaxInt32, math.MaxInt32 + 1, math.MaxUint32} {
		add(v, float64(v), fmt.Sprintf("uint32(%d)", v))
	}
	for _, v := range []uint64{0, 1, math.MaxInt64, math.MaxInt64 + 1, math.MaxUint64, 1<<53 + 1} {
		add(v, float64(v), fmt.Sprintf("uint64(%d)", v))
	}
	for _, v := range []uint{0, math.MaxUint64, math.MaxUint32} {
		add(v, float64(v), fmt.Sprintf("uint(%d)", v))
	}
	for _, v := range []float32{0, float32(math.Copysign(0, -1)), 1, -1, 0.5, -0.5, 2.5, -2.5, math.MaxFloat32, -math.MaxFloat32, math.SmallestNonzeroFloat32, float32(math.Inf(1)), float32(math.Inf(-1)), float32(math.NaN()), 0.1, 16777217} {
		add(v, float64(v), fmt.Sprintf("float32(%v)", v))
	}
	for _, v := range []float64{math.MinInt32, math.MaxInt32, -0.5, math.Copysign(0, -1)} {
		add(v, v, fmt.Sprintf("float64(%v)", v))
	}
	return out
}

func scriptArgs() []parg {
	mk := func(js string, v float64) parg { return parg{js, nil, "", v} }
	return []parg{
		mk("(1<<31)", math.MinInt32), mk("(-2147483648|0)", math.MinInt32), mk("(~2147483647)", math.MinInt32), mk("(2147483648|0)", math.MinInt32),
		mk("(-2147483647|0)", math.MinInt32+1), mk("(2147483647|0)", math.MaxInt32), mk("(~-2147483648)", math.MaxInt32), mk("(1<<30)", 1<<30),
		mk("(-1|0)", -1), mk("(~0)", -1), mk("(0|0)", 0), mk("(~-1)", 0), mk("(1|0)", 1), mk("(5&3)", 1), mk("(5^-1)", -6), mk("(-5>>1)", -3), mk("(-1>>0)", -1),
		mk("(2.5|0)", 2), mk("(-2.5|0)", -2), mk("(-0.5|0)", 0),
		mk("(-1>>>0)", math.MaxUint32), mk("(-2147483648>>>0)", 2147483648), mk("(2147483647>>>0)", math.MaxInt32), mk("(0>>>0)", 0), mk("(1>>>0)", 1), mk("(-1>>>1)", math.MaxInt32), mk("(-1>>>31)", 1),
		mk("\"\".length", 0), mk("\"a\".length", 1), mk("\"abc\".length", 3), mk("[].length", 0), mk("[1,2,3].length", 3), mk("[,,].length", 2),
		mk("(function(){return arguments.length})(1,2)", 2), mk("(function(a,b,c){}).length", 3),
		mk("parseInt(\"-2147483648\")", math.MinInt32), mk("parseInt(\"2147483647\")", math.MaxInt32), mk("parseInt(\"-1\")", -1), mk("parseInt(\"0\")", 0),
		mk("parseInt(\"9007199254740993\")", 9007199254740992), mk("parseInt(\"-9223372036854775807\")", math.MinInt64), mk("parseInt(\"9223372036854775807\")", math.MaxInt64), // inside int64: beyond it parseInt's own accuracy is C06's subject
		mk("-2147483648", math.MinInt32), mk("2147483648", 2147483648), mk("0x7fffffff", math.MaxInt32), mk("0x80000000", 2147483648), mk("0xffffffff", math.MaxUint32),
		mk("9223372036854775807", math.MaxInt64), mk("-9223372036854775808", math.MinInt64),
		mk("\"abc\".charCodeAt(1)", 98), mk("\"abc\".indexOf(\"z\")", -1), mk("[5].indexOf(5)", 0), mk("new Date(7).getTime()", 7), mk("Number(true)", 1), mk("(+\"3\")", 3),
	}
}

// Math.<fn>(payload arguments...): the call runs in script; Go values are bound
// to globals __p<i> first (viaCall: passed through Otto.Call instead)
func (g *gen) payloadCase(fn int, args []parg, viaCall bool) {
	js := make([]string, len(args))
	cq := make([]string, len(args))
	var pre []string
	allGo := len(args) > 0
	for i, a := range args {
		cq[i] = "(JNum " + Cdouble(a.val) + ")"
		if a.gov != nil {
			js[i] = fmt.Sprintf("__p%d", i)
			pre = append(pre, fmt.Sprintf("__p%d := %s", i, a.desc))
		} else {
			js[i] = a.js
			allGo = false
		}
	}
	src := "Math." + fnNames[fn] + "(" + strings.Join(js, ", ") + ")"
	var o Outcome
	how := "vm.Set"
	if viaCall && allGo {
		how = "vm.Call"
		vals := make([]interface{}, len(args))
		for i, a := range args {
			vals[i] = a.gov
		}
		o = Guard(func() (otto.Value, error) { return g.vm.Call("Math."+fnNames[fn], nil, vals...) })
	} else {
		for i, a := range args {
			if a.gov != nil {
				if err := g.vm.Set(fmt.Sprintf("__p%d", i), a.gov); err != nil {
					panic(err)
				}
			}
		}
		o = RunJS(g.vm, src)
	}
	bits, txt := "(-9)", ""
	switch {
	case o.Panic != nil:
		txt = fmt.Sprintf("!panic %v", o.Panic)
	case o.Err != nil:
		bits, txt = fmt.Sprintf("(-%d)", 100+ErrClass(o)), "!err "+o.Err.Error()
	case !o.Val.IsNumber():
		bits, txt = "(-8)", "!notnumber "+o.Val.String()
	default:
		f, _ := o.Val.ToFloat()
		bits, txt = Cdouble(f), fmt.Sprintf("%s [0x%016X]", JSNum(f), Dbits(f))
	}
	line := "payload " + src
	if len(pre) > 0 {
		line += " with " + strings.Join(pre, ", ") + " (" + how + ")"
	}
	g.env.Add(fmt.Sprintf("CMath %d %s %s", fn, Clist(cq), bits), line+" -> "+txt, "payload:"+fnNames[fn], true)
}

var allUnary = []int{0, 1, 2, 3, 5, 6, 7, 8, 9, 13, 14, 15, 16, 20, 21, 22, 23, 24, 25, 26, 27, 28, 29, 30, 31}

// every function x every boundary x every representation, on every run
func (g *gen) payloadSweeps() {
	goA, scA := goArgs(), scriptArgs()
	all := append(append([]parg{}, goA...), scA...)
	// the type minima / maxima and the int32 / uint32 producers: used where the full list would
	// only repeat the same conversion (Coq spends its time reading the case files)
	var bnd []parg
	for _, a := range all {
		v := math.Abs(a.val)
		if v >= 127 || a.val != math.Trunc(a.val) || math.IsNaN(a.val) || (a.gov == nil && strings.ContainsAny(a.js, "|~<>")) {
			bnd = append(bnd, a)
		}
	}
	exact := map[int]bool{0: true, 5: true, 8: true, 13: true, 31: true, 15: true, 7: true, 9: true}
	for _, fn := range allUnary {
		list := bnd
		if exact[fn] {
			list = all
		}
		for _, a := range list {
			g.payloadCase(fn, []parg{a}, false)
		}
	}
	// the exactly specified functions also through Otto.Call
	for _, fn := range []int{0, 5, 8, 13, 31, 15} {
		for _, a := range goA {
			g.payloadCase(fn, []parg{a}, true)
		}
	}
	two := parg{"2", nil, "", 2}
	nzero := parg{"(-0)", nil, "", math.Copysign(0, -1)}
	for _, a := range all {
		for _, fn := range []int{10, 11} {
			g.payloadCase(fn, []parg{a}, false)
			g.payloadCase(fn, []parg{nzero, a}, false)
			g.payloadCase(fn, []parg{two, a, a}, false)
		}
	}
	for _, a := range bnd {
		g.payloadCase(10, []parg{a, nzero}, false)
		g.payloadCase(11, []parg{a, nzero}, false)
		g.payloadCase(12, []parg{a, two}, false)
		g.payloadCase(12, []parg{two, a}, false)
		g.payloadCase(12, []parg{a, a}, false)
		g.payloadCase(4, []parg{a, two}, false)
		g.payloadCase(4, []parg{nzero, a}, false)
		g.payloadCase(4, []parg{a, a}, false)
	}
	for _, a := range goA {
		g.payloadCase(10, []parg{a, a}, true)
		g.payloadCase(11, []parg{a, a}, true)
		g.payloadCase(12, []parg{a, a}, true)
		g.payloadCase(4, []parg{a, a}, true)
	}
}

// a random int32 / uint32 / Go-typed payload for the random stream
func (g *gen) randPayload() parg {
	r := g.r
	switch r.Intn(6) {
	case 0:
		v := int32(r.Uint32())
		if r.Intn(3) == 0 {
			v = Pick(r, []int32{math.MinInt32, math.MinInt32 + 1, math.MaxInt32, -1, 0, 1})
		}
		return parg{fmt.Sprintf("(%d|0)", v), nil, "", float64(v)}
	case 1:
		v := r.Uint32()
		return parg{fmt.Sprintf("(%d>>>0)", v), nil, "", float64(v)}
	case 2:
		v := int32(r.Uint32())
		return parg{"", v, fmt.Sprintf("int32(%d)", v), float64(v)}
	case 3:
		v := int64(r.Uint64())
		return parg{"", v, fmt.Sprintf("int64(%d)", v), float64(v)}
	case 4:
		v := r.Uint64()
		return parg{"", v, fmt.Sprintf("uint64(%d)", v), float64(v)}
	default:
		v := math.Float32frombits(r.Uint32())
		return parg{"", v, fmt.Sprintf("float32(%v)", v), float64(v)}
	}
}

// ---------- abrupt completion of ToNumber / ToString ----------
var throwers = []string{
	"{toString: function () { throw new RangeError('c13') }}",
	"Object.create(null)",
	"{valueOf: function () { return {} }, toString: function () { throw new RangeError('c13') }}",
	"{valueOf: function () { return {} }, toString: function () { return {} }}",
	"{valueOf: function () { throw new RangeError('c13') }, toString: function () { throw new EvalError('c13') }}",
}

var globalFns = map[int]string{100: "isNaN", 101: "isFinite", 102: "parseInt", 103: "parseFloat", 104: "escape", 105: "unescape",
	106: "encodeURI", 107: "encodeURIComponent", 108: "decodeURI", 109: "decodeURIComponent"}

func fnText(fn int) string {
	if fn >= 100 {
		return globalFns[fn]
	}
	return "Math." + fnNames[fn]
}

// fn(args): argument k throws while converting (kind), the others log their conversion
func (g *gen) throwCase(fn int, vals []float64, k, kind int) {
	var b strings.Builder
	b.WriteString("var __log = []; function __L(i, v) { return {valueOf: function () { __log.push(i); return v }, toString: function () { __log.push(i); return '1' }} } ")
	b.WriteString(fnText(fn) + "(")
	cq := make([]string, len(vals))
	for i, v := range vals {
		if i > 0 {
			b.WriteString(", ")
		}
		if i == k {
			b.WriteString("(" + throwers[kind] + ")")
			cq[i] = Cdouble(1)
		} else {
			fmt.Fprintf(&b, "__L(%d, %s)", i, JSNum(v))
			cq[i] = Cdouble(v)
		}
	}
	b.WriteString(")")
	src := b.String()
	o := RunJS(g.vm, src)
	cls := ErrClass(o)
	nlog := "(-1)"
	lo := RunJS(g.vm, "__log.join('') + ':' + __log.length")
	order := "?"
	if lo.Panic == nil && lo.Err == nil {
		t := lo.Val.String()
		if i := strings.LastIndex(t, ":"); i >= 0 {
			order, nlog = t[:i], t[i+1:]
			idx := 0
			for _, ch := range order { // left to right, skipping the thrower
				if idx == k {
					idx++
				}
				if int(ch-'0') != idx {
					nlog = "(-2)"
				}
				idx++
			}
		}
	}
	txt := "no exception"
	if o.Panic != nil {
		txt = fmt.Sprintf("!panic %v", o.Panic)
	} else if o.Err != nil {
		txt = "threw " + o.Err.Error()
	} else {
		txt = "returned " + o.Val.String()
	}
	g.env.Add(fmt.Sprintf("CThrow %d %s %d %d (%d, %s)", fn, Clist(cq), k, kind, cls, nlog),
		fmt.Sprintf("throw %s -> %s ; conversions logged: %q", src, txt, order), "throw:"+fnText(fn), true)
}

func (g *gen) throwSweeps() {
	nan := math.NaN()
	fns := append([]int{}, allUnary...)
	fns = append(fns, 4, 12, 10, 11, 17, 100, 101, 102, 103, 104, 105, 106, 107, 108, 109)
	for _, fn := range fns {
		n := nominalArity(fn) + 1
		if fn >= 100 {
			n = 2
			if fn == 102 {
				n = 3
			}
		}
		if fn == 10 || fn == 11 {
			n = 3
		}
		for kind := range throwers {
			for k := 0; k < n; k++ {
				vals := make([]float64, n)
				for i := range vals {
					vals[i] = float64(i + 2)
				}
				g.throwCase(fn, vals, k, kind)
			}
			g.throwCase(fn, []float64{1}, 0, kind)
		}
	}
	for _, fn := range []int{10, 11, 4} { // a NaN before the thrower (finding C13-tonumber-skipped)
		for kind := range throwers {
			g.throwCase(fn, []float64{nan, 1}, 1, kind)
			g.throwCase(fn, []float64{1, nan, 1}, 2, kind)
		}
	}
}

// ---------- pow: subnormal results, the overflow boundary, x^n overflowing while x^-n is representable ----------
// the exact oracle of these cases is the most expensive thing Coq evaluates; the
// sweep is therefore spread over the run (one case every few random ones) instead
// of sitting in one shard
func (g *gen) powCase(x, y float64) {
	if g.deferPow {
		g.pendingPow = append(g.pendingPow, [2]float64{x, y})
		return
	}
	g.mathCase(12, []jarg{numArg(x), numArg(y)})
}

func (g *gen) powSweeps() {
	for _, y := range []float64{-1021, -1022, -1023, -1024, -1025, -1026, -1050, -1072, -1073, -1074, -1075, -1076, -1077, -1100, -2000, 1022, 1023, 1024, 1025, 2000,
		-1073.5, -1074.5, -1075.5, -1021.5, -1022.5, -1050.5, 1023.5, 1024.5, 1022.5, -0.5, 0.5, 1.5, -1.5} {
		g.powCase(2, y)
		g.powCase(0.5, -y)
		g.powCase(-2, y)
		g.powCase(4, y/2)
		g.powCase(0.25, -y/2)
	}
	for _, y := range []float64{-60, -63, -64, -65, -66, -67, -68, 63, 64, 65} {
		g.powCase(65536, y)
		g.powCase(1/65536.0, -y)
	}
	for y := 300.0; y <= 326; y++ {
		g.powCase(10, -y)
		g.powCase(10, y)
		g.powCase(0.1, y)
		g.powCase(0.1, -y)
		g.powCase(-10, -y)
		g.powCase(10, -y-0.5)
		g.powCase(10, y+0.5)
		g.powCase(100, -y/2)
	}
	for y := 640.0; y <= 682; y += 3 {
		g.powCase(3, -y)
		g.powCase(3, y)
		g.powCase(1/3.0, y)
		g.powCase(1.5, -y*2.7)
		g.powCase(3, -y-0.5)
	}
	for _, y := range []float64{31, 32, 33, 34, 35, -33, -34} { // 3^33 < 2^53 < 3^34
		g.powCase(3, y)
		g.powCase(-3, y)
		g.powCase(1.5, y)
		g.powCase(0.75, y)
	}
	for _, x := range []float64{5, 7, 1e10, 1e100, 1e-100, 1e300, 1e-300, math.MaxFloat64, 5e-324, 2.2250738585072014e-308, 1.0000000000000002, 0.9999999999999999} {
		for _, y := range []float64{1, -1, 2, -2, 3, -3, 0.5, -0.5, 1.5, -1.5, 2.5, -2.5} {
			g.powCase(x, y)
		}
		l := math.Log2(x)
		if math.Abs(l) > 0.001 {
			for _, t := range []float64{-1074, -1050, -1022, 1023.5, 1024} {
				y := math.Round(t / l)
				g.powCase(x, y)
				g.powCase(x, y+0.5)
				g.powCase(x, y-1)
			}
		}
	}
}

// random pow whose exact result aims at the subnormal range or the overflow boundary
func (g *gen) powBoundaryRandom() {
	r := g.r
	x := Pick(r, []float64{2, 3, 5, 7, 10, 0.5, 0.1, 0.2, 1.5, -2, -10, -0.5, 65536, 1024, 1e10, 1e-10, 6, 12, 0.75, 100, 1e5})
	if r.Intn(4) == 0 {
		x = float64(r.Intn(4095)+1) / float64(int(1)<<uint(r.Intn(12)))
		if x == 1 {
			x = 3
		}
	}
	l := math.Log2(math.Abs(x))
	t := Pick(r, []float64{-1074, -1075, -1060, -1040, -1022, -1023, 1023, 1024, 1000, -1000})
	y := math.Round(t/l) + float64(r.Intn(5)-2)
	if r.Intn(3) == 0 && x > 0 {
		y += 0.5
	}
	g.powCase(x, y)
}

// ---------- class identity of raised errors, also in copied runtimes ----------
const idProbe = `function __id(f) {
	try { f(); return "0,1"; } catch (e) {
		var C = [Error, EvalError, RangeError, ReferenceError, SyntaxError, TypeError, URIError];
		var N = ["Error", "EvalError", "RangeError", "ReferenceError", "SyntaxError", "TypeError", "URIError"];
		var id = 8, ok = 1;
		for (var i = 6; i >= 0; i--) {
			if (e instanceof C[i] && Object.getPrototypeOf(e) === C[i].prototype && e.constructor === C[i]) {
				id = i + 1;
				if (e.name !== N[i]) { ok = 0; }
				break;
			}
		}
		if (!(e instanceof Error)) { ok = 0; }
		if (e.c13t !== undefined) { ok = 0; }
		if (Object.prototype.toString.call(e) !== "[object Error]") { ok = 0; }
		return id + "," + ok;
	}
}`

const raiseSome = `(function () {
	var n = 0, fs = [function () { decodeURI("%") }, function () { decodeURIComponent("%E0%A4%A") }, function () { encodeURI(String.fromCharCode(0xDC00)) },
		function () { encodeURIComponent(String.fromCharCode(0xD800)) }, function () { isNaN(Object.create(null)) }, function () { Math.abs({valueOf: function () { return {} }, toString: function () { return {} }}) }];
	for (var i = 0; i < fs.length; i++) { try { fs[i]() } catch (e) { n++ } }
	return n;
})()`

const tamper = `(function () {
	var C = [Error, EvalError, RangeError, ReferenceError, SyntaxError, TypeError, URIError];
	for (var i = 0; i < C.length; i++) { C[i].prototype.name = "Tampered"; C[i].prototype.c13t = 1; }
})()`

var ctxNames = []string{"fresh runtime", "Copy() of a runtime that raised such errors", "copy of that copy", "Copy() whose original was tampered with afterwards"}

// 0 fresh; 1 copy of a runtime that already raised URIError/TypeError; 2 copy of the copy;
// 3 copy taken before the original's error prototypes were tampered with
func (g *gen) makeContexts() {
	must := func(vm *otto.Otto, src string) {
		if _, err := vm.Run(src); err != nil {
			panic(err)
		}
	}
	fresh := otto.New()
	must(fresh, idProbe)
	base := otto.New()
	must(base, idProbe)
	must(base, raiseSome)
	c1 := base.Copy()
	must(c1, raiseSome)
	c2 := c1.Copy()
	base2 := otto.New()
	must(base2, idProbe)
	must(base2, raiseSome)
	c3 := base2.Copy()
	must(base2, tamper)
	must(base2, raiseSome)
	g.ctx = []*otto.Otto{fresh, c1, c2, c3}
}

func parseID(o Outcome) (string, string) {
	switch {
	case o.Panic != nil:
		return "(9, 0)", fmt.Sprintf("!panic %v", o.Panic)
	case o.Err != nil:
		return "(9, 0)", "!probe failed " + o.Err.Error()
	}
	t := o.Val.String()
	parts := strings.Split(t, ",")
	if len(parts) != 2 {
		return "(9, 0)", "!probe said " + t
	}
	names := []string{"nothing thrown", "Error", "EvalError", "RangeError", "ReferenceError", "SyntaxError", "TypeError", "URIError", "an error that is an instance of NO constructor of this runtime"}
	id := int(parts[0][0] - '0')
	if id < 0 || id > 8 {
		return "(9, 0)", "!probe said " + t
	}
	return "(" + parts[0] + ", " + parts[1] + ")", names[id] + ", consistent=" + parts[1]
}

func (g *gen) strIdCase(fns []int, u []uint16, ctx int) {
	expr := jsStringExpr(u, g.r.Intn(3) == 0)
	for _, f := range fns {
		expr = strFnNames[f] + "(" + expr + ")"
	}
	src := "__id(function () { return " + expr + " })"
	obs, txt := parseID(RunJS(g.ctx[ctx], src))
	fl := make([]string, len(fns))
	for i, f := range fns {
		fl[i] = fmt.Sprintf("%d", f)
	}
	g.env.Add(fmt.Sprintf("CStrId %s %s %d %s", Clist(fl), Cunits(u), ctx, obs), fmt.Sprintf("errid [%s] %s -> %s", ctxNames[ctx], src, txt), "errid:str", true)
}

func (g *gen) throwIdCase(fn int, vals []float64, k, kind, ctx int) {
	var b strings.Builder
	b.WriteString("__id(function () { function __L(i, v) { return {valueOf: function () { return v }, toString: function () { return '1' }} } return " + fnText(fn) + "(")
	cq := make([]string, len(vals))
	for i, v := range vals {
		if i > 0 {
			b.WriteString(", ")
		}
		if i == k {
			b.WriteString("(" + throwers[kind] + ")")
			cq[i] = Cdouble(1)
		} else {
			fmt.Fprintf(&b, "__L(%d, %s)", i, JSNum(v))
			cq[i] = Cdouble(v)
		}
	}
	b.WriteString(") })")
	src := b.String()
	obs, txt := parseID(RunJS(g.ctx[ctx], src))
	g.env.Add(fmt.Sprintf("CThrowId %d %s %d %d %d %s", fn, Clist(cq), k, kind, ctx, obs), fmt.Sprintf("errid [%s] %s -> %s", ctxNames[ctx], src, txt), "errid:throw", true)
}

var malformedPct = []string{"%", "abc%4", "%4g", "%g4", "%C3%28", "%E0%A4%A", "%E0%A4", "%ED%A0%80", "%F4%90%80%80", "%80", "%BF", "%C0%80", "%FF", "%F8%88%80%80%80", "%E2%82%41",
	"a%20b", "%E2%82%AC", "%3B", "plain", ""}
var surrogateInputs = [][]uint16{{0xDC00}, {0xD800}, {0x41, 0xD800, 0x41}, {0xDBFF}, {0xDFFF, 0xD800}, {0xD800, 0xDC00}, {0x41}, {0xE9}}

func (g *gen) errIdSweeps() {
	for ctx := range g.ctx {
		for _, t := range malformedPct {
			g.strIdCase([]int{2}, Units(t), ctx)
			g.strIdCase([]int{3}, Units(t), ctx)
		}
		for _, u := range surrogateInputs {
			g.strIdCase([]int{0}, u, ctx)
			g.strIdCase([]int{1}, u, ctx)
		}
		g.strIdCase([]int{1, 3}, []uint16{0x41, 0xD83D}, ctx)
		g.strIdCase([]int{0, 2}, Units("é€"), ctx)
		for _, fn := range []int{100, 101, 102, 103, 104, 105, 106, 108, 0, 13, 12, 4} {
			for _, kind := range []int{0, 1, 3, 4} {
				g.throwIdCase(fn, []float64{2, 3}, 0, kind, ctx)
			}
		}
		for _, fn := range []int{10, 11, 12, 102} {
			for _, kind := range []int{1, 3} {
				g.throwIdCase(fn, []float64{2, 3, 4}, 1, kind, ctx)
			}
		}
	}
}

// ---------- every argument converted exactly once, in order ----------
func (g *gen) countCase(fn int, vals []float64) {
	var b strings.Builder
	b.WriteString("var __log = []; function __L(i, v) { return {valueOf: function () { __log.push(i); return v }, toString: function () { __log.push(i); return '1' }} } ")
	b.WriteString(fnText(fn) + "(")
	cq := make([]string, len(vals))
	for i, v := range vals {
		if i > 0 {
			b.WriteString(", ")
		}
		fmt.Fprintf(&b, "__L(%d, %s)", i, JSNum(v))
		cq[i] = Cdouble(v)
	}
	b.WriteString(")")
	src := b.String()
	o := RunJS(g.vm, src)
	obs, txt := "(-9)", ""
	switch {
	case o.Panic != nil:
		txt = fmt.Sprintf("!panic %v", o.Panic)
	case o.Err != nil:
		obs, txt = "(-3)", "!err "+o.Err.Error()
	default:
		lo := RunJS(g.vm, "__log.join('')")
		order := "?"
		if lo.Panic == nil && lo.Err == nil {
			order = lo.Val.String()
			obs = fmt.Sprintf("%d", len(order))
			for i := 0; i < len(order); i++ { // once each, left to right
				if int(order[i]-'0') != i {
					obs = "(-2)"
				}
			}
		}
		txt = fmt.Sprintf("returned %s ; conversions logged: %q", o.Val.String(), order)
	}
	g.env.Add(fmt.Sprintf("CCount %d %s %s", fn, Clist(cq), obs), "count "+src+" -> "+txt, "count:"+fnText(fn), true)
}

func (g *gen) countSweeps() {
	nan := math.NaN()
	fns := append([]int{}, allUnary...)
	fns = append(fns, 4, 12, 10, 11, 17, 100, 101, 102, 103, 104, 105, 106, 107, 108, 109)
	for _, fn := range fns {
		g.countCase(fn, []float64{1})
		g.countCase(fn, []float64{2, 3})
		g.countCase(fn, []float64{2, 3, 4})
		g.countCase(fn, []float64{math.Inf(1)})
		g.countCase(fn, []float64{math.Inf(-1), 1})
		g.countCase(fn, []float64{nan})
		g.countCase(fn, []float64{0.5, nan})
	}
	for _, fn := range []int{10, 11, 4, 12} {
		g.countCase(fn, []float64{nan, 1, 2})
		g.countCase(fn, []float64{1, nan, 2})
		g.countCase(fn, []float64{1, 2, nan})
		g.countCase(fn, []float64{1, 2, 3, 4, 5, 6})
	}
}

// ---------- re-entrant calls from an argument's conversion ----------
type reent struct {
	js  string
	val float64
}

var reentNum = []reent{
	{"Math.max(1, 2)", 2}, {"Math.min(7, 8, 9)", 7}, {"Math.max(-0, 0)", 0}, {"Math.min(0, -0)", math.Copysign(0, -1)}, {"Math.max()", math.Inf(-1)}, {"Math.min()", math.Inf(1)},
	{"Math.max(NaN, 1)", math.NaN()}, {"Math.max(Math.min(5, 6), 1)", 5}, {"Math.max.apply(null, [1, 2, 3, 4, 5, 6, 7, 8, 9])", 9}, {"Math.min.call(null, 4, 3)", 3},
	{"Math.max({valueOf: function () { return Math.min(8, 9) }}, 1)", 8}, {"Math.min(6, {valueOf: function () { return Math.max(-4, -5, -6) }})", -4},
	{"Math.pow(2, 3)", 8}, {"Math.abs(-3)", 3}, {"Math.round(2.5)", 3}, {"Math.floor(-0.5)", -1}, {"Math.atan2(0, 1)", 0}, {"Math.sqrt(16)", 4},
	{"(isNaN('x') ? 4 : 5)", 4}, {"(isFinite(1 / 0) ? 4 : 5)", 5}, {"encodeURIComponent('a b').length", 5}, {"unescape('%41').charCodeAt(0)", 65},
}

func reArg(r reent) jarg {
	return jarg{"({valueOf: function () { return " + r.js + " }})", "(JObj (JNum " + Cdouble(r.val) + "))", true}
}

var reentStr = []struct{ js, text string }{
	{"encodeURIComponent('a b')", "a%20b"}, {"decodeURIComponent('%C3%A9')", "é"}, {"escape('é')", "%E9"}, {"unescape('%u20AC')", "€"},
	{"encodeURI('é') + '/x'", "%C3%A9/x"}, {"String(Math.max(1, 2))", "2"}, {"decodeURI('%41%3B')", "A%3B"}, {"escape(unescape('%u0100@'))", "%u0100@"},
}

func (g *gen) reentrantSweeps() {
	plain := []float64{5, 0, math.Copysign(0, -1), 3}
	for _, r := range reentNum {
		a := reArg(r)
		for _, fn := range []int{10, 11} {
			for _, p := range plain {
				g.mathCase(fn, []jarg{numArg(p), a})
				g.mathCase(fn, []jarg{a, numArg(p)})
			}
			g.mathCase(fn, []jarg{numArg(1), a, numArg(9)})
			g.mathCase(fn, []jarg{numArg(9), numArg(1), a})
			g.mathCase(fn, []jarg{numArg(4), a, a})
			g.mathCase(fn, []jarg{a, a})
			g.mathCase(fn, []jarg{numArg(-7), numArg(8), numArg(1), a, numArg(2)})
			for _, r2 := range []reent{reentNum[0], reentNum[1], reentNum[8]} {
				g.mathCase(fn, []jarg{numArg(6), a, reArg(r2)})
				g.mathCase(fn, []jarg{reArg(r2), numArg(-6), a})
			}
		}
		for _, fn := range []int{0, 5, 8, 13, 31, 15, 7, 9, 14, 6, 3} {
			g.mathCase(fn, []jarg{a})
		}
		g.mathCase(12, []jarg{a, numArg(2)})
		g.mathCase(12, []jarg{numArg(2), a})
		g.mathCase(12, []jarg{a, a})
		g.mathCase(4, []jarg{a, numArg(1)})
		g.mathCase(4, []jarg{numArg(1), a})
		for w, name := range []string{"isNaN", "isFinite"} {
			src := name + "(" + a.js + ")"
			o := RunJS(g.vm, src)
			obs, txt := "(-9)", "!"
			if o.Panic == nil && o.Err == nil && o.Val.IsBoolean() {
				bv, _ := o.Val.ToBoolean()
				obs, txt = "0", "false"
				if bv {
					obs, txt = "1", "true"
				}
			}
			g.env.Add(fmt.Sprintf("CIsNum %d [%s] %s", w, a.coq, obs), "isnum "+src+" -> "+txt, "reentrant:"+name, true)
		}
	}
	for _, r := range reentStr {
		arg := "({toString: function () { return " + r.js + " }})"
		for f := 0; f < 6; f++ {
			g.strArgCase([]int{f}, arg, Units(r.text), "reentrant:str", true)
		}
		g.strArgCase([]int{1, 3}, arg, Units(r.text), "reentrant:str", true)
		g.strArgCase([]int{4, 5}, arg, Units(r.text), "reentrant:str", true)
	}
}

// ---------- non-string arguments of the string functions: the result is ToString-based and a String ----------
func (g *gen) strArgSweeps() {
	args := []struct{ js, text string }{
		{"", "undefined"}, {"undefined", "undefined"}, {"null", "null"}, {"true", "true"}, {"false", "false"},
		{"42", "42"}, {"0", "0"}, {"(-0)", "0"}, {"(-1)", "-1"}, {"7.5", "7.5"}, {"NaN", "NaN"}, {"Infinity", "Infinity"}, {"(-Infinity)", "-Infinity"}, {"1e21", "1e+21"}, {"2016", "2016"},
		{"(1<<31)", "-2147483648"}, {"(-1>>>0)", "4294967295"}, {"'abc'.length", "3"},
		{"new String('a b')", "a b"}, {"new String('user-17')", "user-17"}, {"new Number(5)", "5"}, {"new Boolean(false)", "false"},
		{"[1,2]", "1,2"}, {"['a','b']", "a,b"}, {"[]", ""}, {"['x']", "x"}, {"[[1],[2]]", "1,2"},
		{"({toString: function () { return 'user-17' }})", "user-17"}, {"({toString: function () { return 'é;' }})", "é;"}, {"({toString: function () { return 42 }})", "42"},
		{"({toString: function () { return {} }, valueOf: function () { return 'v1' }})", "v1"}, {"({valueOf: function () { return 'ignored' }})", "[object Object]"},
		{"({})", "[object Object]"}, {"(function(){ return arguments })()", "[object Arguments]"}, {"Math", "[object Math]"},
	}
	for _, a := range args {
		for f := 0; f < 6; f++ {
			g.strArgCase([]int{f}, a.js, Units(a.text), "strarg", true)
		}
		g.strArgCase([]int{1, 3}, a.js, Units(a.text), "strarg", true)
		g.strArgCase([]int{0, 2}, a.js, Units(a.text), "strarg", true)
		g.strArgCase([]int{4, 5}, a.js, Units(a.text), "strarg", true)
	}
	// Go values handed over through the API
	for _, v := range []struct {
		gov  interface{}
		desc string
		text string
	}{{int32(5), "int32(5)", "5"}, {int8(-7), "int8(-7)", "-7"}, {uint8(200), "uint8(200)", "200"}, {int64(1234567), "int64(1234567)", "1234567"}, {uint32(4000000000), "uint32(4000000000)", "4000000000"},
		{float32(2.5), "float32(2.5)", "2.5"}, {2016.0, "float64(2016)", "2016"}, {true, "bool(true)", "true"}, {"plain", "string(plain)", "plain"}, {"a b", "string(a b)", "a b"}} {
		if err := g.vm.Set("__s0", v.gov); err != nil {
			panic(err)
		}
		for f := 0; f < 6; f++ {
			g.strArgCase([]int{f}, "__s0 /* vm.Set "+v.desc+" */", Units(v.text), "strarg:go", true)
		}
	}
}

// ---------- every arrangement of surrogate halves ----------
func (g *gen) surrogateSweeps() {
	halves := []uint16{0xD800, 0xD83D, 0xDBFF, 0xDC00, 0xDE00, 0xDFFF}
	others := []uint16{'x', 0xD7FF, 0xE000}
	units := append(append([]uint16{}, halves...), others...)
	emit := func(u []uint16) {
		g.strCase([]int{0}, u, "surrogates", true)
		g.strCase([]int{1}, u, "surrogates", true)
	}
	for _, a := range units {
		for _, b := range units {
			emit([]uint16{a, b})
			emit([]uint16{'x', a, b, 'y'})
		}
	}
	for _, a := range halves {
		for _, b := range halves {
			for _, c := range halves {
				emit([]uint16{a, b, c})
			}
			g.strCase([]int{1, 3}, []uint16{a, b}, "surrogates", true)
			g.strCase([]int{0, 2}, []uint16{'x', a, b}, "surrogates", true)
			g.strCase([]int{4}, []uint16{a, b}, "surrogates", true)
			g.strCase([]int{4, 5}, []uint16{a, b, 'z'}, "surrogates", true)
		}
	}
	for ctx := range g.ctx { // the URIError of a lead + lead pair, by identity, in every runtime
		for _, u := range [][]uint16{{0xD800, 0xD800}, {0xD800, 0xDBFF}, {'x', 0xDBFF, 0xD83D, 'y'}, {0xD801, 0xD802}} {
			g.strIdCase([]int{0}, u, ctx)
			g.strIdCase([]int{1}, u, ctx)
		}
	}
	// the same halves written as consecutive %uXXXX escapes (B.2.2: each is the code unit XXXX)
	pu := func(v uint16, lower bool) string {
		t := fmt.Sprintf("%%u%04X", v)
		if lower {
			t = "%u" + strings.ToLower(t[2:])
		}
		return t
	}
	for _, a := range halves {
		for _, b := range halves {
			for _, lower := range []bool{false, true} {
				t := pu(a, lower) + pu(b, lower)
				g.strCase([]int{5}, Units(t), "sweep:pctu", true)
				g.strCase([]int{5}, Units("a"+t+"b"), "sweep:pctu", true)
				g.strCase([]int{5, 1}, Units(t), "sweep:pctu", true)
			}
			g.strCase([]int{5}, Units(pu(a, false)+"x"+pu(b, false)), "sweep:pctu", true)
			g.strCase([]int{5}, Units(pu(a, false)+pu(b, true)+pu(a, true)+pu(b, false)), "sweep:pctu", true)
			g.strCase([]int{5}, append(Units(pu(a, false)), b), "sweep:pctu", true)
			g.strCase([]int{5}, append([]uint16{a}, Units(pu(b, false))...), "sweep:pctu", true)
			g.strCase([]int{5, 4}, Units(pu(a, false)+pu(b, false)+"%E9"), "sweep:pctu", true)
		}
	}
	for _, t := range []string{"%uD83D%uDE00%uD83D%uDE01", "%uD83D%uDE00😀%uD83D%uDE00", "😀%uDE00", "%uD83D😀", "%uD800%uDC00%uDBFF%uDFFF", "%ud83d%UDE00", "%uD83D%u0041%uDE00", "%uD83D%DE%00", "%D8%3D%uDE00"} {
		g.strCase([]int{5}, Units(t), "sweep:pctu", true)
		g.strCase([]int{5, 1}, Units(t), "sweep:pctu", true)
	}
}

// ---------- not flat next to the arguments with an exact result ----------
func stepUlps(x float64, n int) float64 {
	b := int64(math.Float64bits(math.Abs(x)))
	if x < 0 {
		return -math.Float64frombits(uint64(b - int64(n)))
	}
	if x == 0 {
		return math.Float64frombits(uint64(int64(n)))
	}
	return math.Float64frombits(uint64(b + int64(n)))
}

func (g *gen) slopeCase(fn int, x1, x2 float64) {
	if !(x1 < x2) {
		return
	}
	name := fnNames[fn]
	b1, t1 := g.numResult("Math." + name + "(" + JSNum(x1) + ")")
	b2, t2 := g.numResult("Math." + name + "(" + JSNum(x2) + ")")
	g.env.Add(fmt.Sprintf("CSlope %d %s %s %s %s", fn, Cdouble(x1), Cdouble(x2), b1, b2),
		fmt.Sprintf("slope Math.%s(%s) -> %s ; Math.%s(%s) -> %s", name, JSNum(x1), t1, name, JSNum(x2), t2), "slope:"+name, true)
}

func (g *gen) slopeSweeps() {
	pow10 := []float64{1, 10, 100, 1000, 1e5, 1e10, 1e15, 1e22, 0.1, 0.01, 1e-5, 2, 0.5, 1024, math.E}
	anchors := map[int][]float64{
		9:  {1, math.E, 2, 10, 0.5, 100, 7.38905609893065, 1e10},
		26: pow10,
		28: {1, 2, 4, 8, 1024, 0.5, 0.25, 10, 1 << 30, 1e15},
		27: {0, 1, -0.5, 1e-10, 9, 99},
		7:  {0, 1, -1, 2, 10, -10, 0.6931471805599453, 20},
		25: {0, 1, -1, 1e-10, 0.6931471805599453, 5},
		15: {1, 4, 9, 16, 2, 1e10, 0.25, 1e-10},
		23: {1, 8, 27, 1000, 1e9, 0.125, 2},
		3:  {0, 1, -1, 0.5, 10},
	}
	for _, fn := range []int{9, 26, 28, 27, 7, 25, 15, 23, 3} {
		for _, a := range anchors[fn] {
			for _, j := range []int{1, 4, 64, 300, 1 << 14, 1 << 20} {
				if a == 0 {
					d := math.Ldexp(float64(j), -60)
					g.slopeCase(fn, 0, d)
					g.slopeCase(fn, -d, 0)
					continue
				}
				up, dn := stepUlps(a, j), stepUlps(a, -j)
				if a < 0 {
					up, dn = dn, up
				}
				g.slopeCase(fn, a, up)
				g.slopeCase(fn, dn, a)
			}
		}
	}
}

func runC13(env *Env) {
	env.Import = "Otto.C13.Corr"
	env.Rule = "Math: every function over a pool of IEEE specials (NaN, +-0, +-Infinity, +-1, +-0.5 and neighbours, 2^52..2^53 integers, half-integers, subnormals, extremes), their neighbours and random bit patterns, with 0..6 arguments, also as strings/booleans/null/undefined/objects; pow and atan2 table cells and exact rational powers; valueOf call logs; inverse/identity relations, anchors, monotone pairs; isNaN/isFinite over a ToNumber pool; strings over ASCII (reserved, marks, %), 2/3-byte boundaries, BMP, astral and lone surrogates through chains of encode/decode/escape/unescape; decode/unescape on percent-encodings with ill-formed octet sequences and 1-2 random mutations. every function x every boundary in every payload representation (results of |0 >>>0 << ~ >> & ^, lengths, parseInt, literals; Go int/int8..int64/uint..uint64/float32/float64 at their type minima and maxima through vm.Set and vm.Call); pow with integer and half-integer exponents whose exact result is subnormal, at the overflow boundary, or whose x^n overflows while x^-n is representable (exact oracle); every Math and global function with an argument whose ToNumber/ToString throws (5 kinds) at every position, conversions logged; class identity (instanceof / prototype identity / constructor link against the running runtime's own constructors, tamper isolation) of every URIError / TypeError / thrown error these functions raise, in a fresh runtime, in Copy(), in a copy of a copy and in a copy whose original was tampered with; every Math and global function with 1-3 logging arguments (each converted exactly once, left to right); arguments whose valueOf / toString re-enters Math.max/min/pow/..., isNaN, the URI coders (22 inner calls x every position x 2-5 arguments, nested); the six string functions on every non-string argument kind (missing, undefined, null, booleans, numbers, int32/uint32 results, wrapper objects, arrays, toString/valueOf objects, Go values through the API): ToString-based and a String primitive; every arrangement of two and three surrogate halves (lead+lead, trail+lead, ...) through the encoders, and the same halves as consecutive %uXXXX escapes through unescape; local slope of log/log10/log2/log1p/exp/expm1/sqrt/cbrt/atan between an argument with an exact result (1, 10^k, 2^k, e, squares, cubes, 0) and its neighbours 1 .. 2^20 ulps away; non-trivial = distinct case with a special/neighbour argument, an unusual argument count, or a string containing a non-ASCII unit or '%'"
	g := &gen{env: env, vm: otto.New(), r: env.Rng}
	r := env.Rng
	g.pinned()
	g.sweeps()
	g.strSweeps()
	g.payloadSweeps()
	g.deferPow = true
	g.powSweeps()
	g.deferPow = false
	g.throwSweeps()
	g.makeContexts()
	g.errIdSweeps()
	g.countSweeps()
	g.reentrantSweeps()
	g.strArgSweeps()
	g.surrogateSweeps()
	g.slopeSweeps()
	for it := 0; env.Count() < env.N || len(g.pendingPow) > 0; it++ {
		if len(g.pendingPow) > 0 && (it%8 == 0 || env.Count() >= env.N) {
			xy := g.pendingPow[0]
			g.pendingPow = g.pendingPow[1:]
			g.mathCase(12, []jarg{numArg(xy[0]), numArg(xy[1])})
			continue
		}
		switch k := r.Intn(100); {
		case k < 1 && r.Intn(2) == 0: // class identity of a raised error in a random runtime
			ctx := r.Intn(len(g.ctx))
			if r.Intn(3) == 0 {
				g.throwIdCase(Pick(r, []int{100, 101, 102, 103, 104, 105, 106, 107, 108, 109, 0, 7, 10, 11, 12, 4}), []float64{2, 3, 4}, r.Intn(3), r.Intn(len(throwers)), ctx)
			} else if r.Intn(2) == 0 {
				u, _ := g.pctString()
				g.strIdCase([]int{2 + r.Intn(2)}, u, ctx)
			} else {
				u := g.wfString(5)
				i := r.Intn(len(u) + 1)
				u = append(u[:i:i], append([]uint16{uint16(0xD800 + r.Intn(0x800))}, u[i:]...)...)
				g.strIdCase([]int{r.Intn(2)}, u, ctx)
			}

			fn := Pick(r, []int{10, 11, 10, 11, 4, 12, 100, 101, 102, 103, 104, 105, 106, 107, 108, 109, 0, 13, 7})
			n := r.Intn(4) + 1
			vals := make([]float64, n)
			for i := range vals {
				vals[i] = float64(r.Intn(9) + 1)
				if (fn == 10 || fn == 11 || fn == 4) && r.Intn(5) == 0 {
					vals[i] = math.NaN()
				}
			}
			g.throwCase(fn, vals, r.Intn(n), r.Intn(len(throwers)))
		case k < 2 && r.Intn(2) == 0: // local slope at a random argument
			fn := Pick(r, []int{9, 26, 28, 27, 7, 25, 15, 23, 3})
			x := math.Pow(10, float64(r.Intn(9)-4)) * (1 + r.Float64())
			if fn == 7 || fn == 25 || fn == 3 || fn == 27 {
				x = (r.Float64()*2 - 1) * 20
				if fn == 27 && x <= -1 {
					x = -x
				}
			}
			x2 := stepUlps(x, 1<<uint(r.Intn(21)))
			if x2 < x {
				x, x2 = x2, x
			}
			g.slopeCase(fn, x, x2)
		case k < 2:
			g.powBoundaryRandom()
		case k < 4: // payload representations
			fn := Pick(r, []int{0, 0, 13, 5, 8, 31, 10, 11, 12, 4, 15, 7, 9})
			n := nominalArity(fn)
			if fn == 10 || fn == 11 {
				n = r.Intn(4) + 1
			}
			args := make([]parg, n)
			for i := range args {
				args[i] = g.randPayload()
			}
			g.payloadCase(fn, args, r.Intn(3) == 0)
		case k < 14: // unary Math
			fn := Pick(r, unaryFns)
			n := 1
			if r.Intn(12) == 0 {
				n = r.Intn(3)
			}
			args := make([]jarg, n)
			for i := range args {
				args[i] = g.anyArg(r.Intn(5) != 0)
			}
			g.mathCase(fn, args)
		case k < 20:
			g.mathCase(13, []jarg{numArg(g.num())})
		case k < 28:
			args := g.powArgs()
			if r.Intn(15) == 0 {
				args = args[:r.Intn(2)]
			}
			g.mathCase(12, args)
		case k < 33:
			args := g.atan2Args()
			if r.Intn(15) == 0 {
				args = args[:r.Intn(2)]
			}
			g.mathCase(4, args)
		case k < 41:
			g.mathCase(10+r.Intn(2), g.maxminArgs())
		case k < 45:
			fn := Pick(r, []int{10, 11, 10, 11, 4, 12, 0, 13})
			n := r.Intn(5)
			vals := make([]float64, n)
			for i := range vals {
				vals[i] = g.num()
				if r.Intn(4) == 0 {
					vals[i] = math.NaN()
				}
			}
			g.convCase(fn, vals)
		case k < 52:
			g.relCase()
		case k < 56:
			g.monoCase()
		case k < 57:
			obs := make([]string, 8)
			txt := make([]string, 8)
			for i := range obs {
				obs[i], txt[i] = g.numResult("Math.random()")
			}
			env.Add("CRandom "+Clist(obs), "random 8 x Math.random() -> "+strings.Join(txt, " "), "random", env.Dist["random"] == 0)
		case k < 63:
			g.isNumCase()
		case k < 82: // encode / escape side
			u := g.wfString(8)
			if r.Intn(12) == 0 { // a lone surrogate somewhere
				i := r.Intn(len(u) + 1)
				u = append(u[:i:i], append([]uint16{uint16(0xD800 + r.Intn(0x800))}, u[i:]...)...)
			}
			ch := Pick(r, encChains)
			g.strCase(ch, u, "enc", hasNonASCII(u))
		default: // decode / unescape side
			u, mutated := g.pctString()
			ch := Pick(r, decChains)
			g.strCase(ch, u, "dec", mutated || hasNonASCII(u))
		}
	}
}
