// c03: correspondence cases for property C03 (the parser builds the tree the ES5 grammar dictates).
//
// The generator draws syntax trees, renders them to text (minimal parentheses plus
// seeded redundant ones, seeded white space / comments / line terminators where the
// grammar permits them, seeded spellings of the literals), parses the text with
// parser.ParseFile and serialises (a) the generating tree, (b) the tree otto
// returned and (c) the token list of the rendering as Coq terms.
package main

import (
	"fmt"
	"math"
	"math/big"
	"math/rand"
	"strconv"
	"strings"

	"github.com/robertkrimen/otto"
	"github.com/robertkrimen/otto/ast"
	"github.com/robertkrimen/otto/token"
	. "ottoh/lib"
)

func main() {
	env := FromFlags("c03")
	runC03(env)
	env.Finish()
}

// ---------------------------------------------------------------- trees

// tags shared with coq/C03/Tree.v
const (
	tId, tNum, tStr, tRegex, tNull, tBool, tThis = 1, 2, 3, 4, 5, 6, 7
	tParen                                       = 9 // only in decorated (rendering) trees
	tBin, tUn, tPost, tCond, tAsg, tDot, tIdx    = 10, 11, 12, 13, 14, 15, 16
	tCall, tNew                                  = 17, 18
	tNewNoArgs                                   = 19 // rendering only: "new f" without argument list
	tArr, tHole, tObj, tProp, tFun               = 20, 21, 22, 23, 24
	tBad                                         = 99
)

type N struct {
	Tag  int
	Vals []int64
	Kids []*N
	Text string // spelling of a literal / identifier in the rendering
}

func nd(tag int, vals []int64, kids ...*N) *N { return &N{Tag: tag, Vals: vals, Kids: kids} }

func (n *N) coq() string {
	var b strings.Builder
	n.writeCoq(&b)
	return b.String()
}

func (n *N) writeCoq(b *strings.Builder) {
	fmt.Fprintf(b, "N %d [", n.Tag)
	for i, v := range n.Vals {
		if i > 0 {
			b.WriteString(";")
		}
		b.WriteString(Cz(v))
	}
	b.WriteString("] [")
	for i, k := range n.Kids {
		if i > 0 {
			b.WriteString(";")
		}
		b.WriteString("(")
		k.writeCoq(b)
		b.WriteString(")")
	}
	b.WriteString("]")
}

// the tree the grammar assigns: redundant parentheses removed, "new f" = "new f()"
func strip(n *N) *N {
	if n.Tag == tParen {
		return strip(n.Kids[0])
	}
	out := &N{Tag: n.Tag, Vals: n.Vals}
	if n.Tag == tNewNoArgs {
		out.Tag = tNew
	}
	for _, k := range n.Kids {
		out.Kids = append(out.Kids, strip(k))
	}
	return out
}

func equalTree(a, b *N) bool {
	if a.Tag != b.Tag || len(a.Vals) != len(b.Vals) || len(a.Kids) != len(b.Kids) {
		return false
	}
	for i := range a.Vals {
		if a.Vals[i] != b.Vals[i] {
			return false
		}
	}
	for i := range a.Kids {
		if !equalTree(a.Kids[i], b.Kids[i]) {
			return false
		}
	}
	return true
}

// ---------------------------------------------------------------- operators

type binop struct {
	name, text string
	lvl        int
	tok        token.Token
}

var binops = []binop{
	{"Comma", ",", 0, token.COMMA},
	{"LOr", "||", 3, token.LOGICAL_OR}, {"LAnd", "&&", 4, token.LOGICAL_AND},
	{"BOr", "|", 5, token.OR}, {"BXor", "^", 6, token.EXCLUSIVE_OR}, {"BAnd", "&", 7, token.AND},
	{"Eq", "==", 8, token.EQUAL}, {"Ne", "!=", 8, token.NOT_EQUAL}, {"SEq", "===", 8, token.STRICT_EQUAL}, {"SNe", "!==", 8, token.STRICT_NOT_EQUAL},
	{"Lt", "<", 9, token.LESS}, {"Gt", ">", 9, token.GREATER}, {"Le", "<=", 9, token.LESS_OR_EQUAL}, {"Ge", ">=", 9, token.GREATER_OR_EQUAL},
	{"InstOf", "instanceof", 9, token.INSTANCEOF}, {"In", "in", 9, token.IN},
	{"Shl", "<<", 10, token.SHIFT_LEFT}, {"Shr", ">>", 10, token.SHIFT_RIGHT}, {"UShr", ">>>", 10, token.UNSIGNED_SHIFT_RIGHT},
	{"Add", "+", 11, token.PLUS}, {"Sub", "-", 11, token.MINUS},
	{"Mul", "*", 12, token.MULTIPLY}, {"Div", "/", 12, token.SLASH}, {"Mod", "%", 12, token.REMAINDER},
}

const opIn = 15

type unop struct {
	name, text, coqTok string
	tok                token.Token
}

var unops = []unop{
	{"UPlus", "+", "TOp Add", token.PLUS}, {"UMinus", "-", "TOp Sub", token.MINUS}, {"UNot", "!", "TNot", token.NOT},
	{"UBitNot", "~", "TBitNot", token.BITWISE_NOT}, {"UDelete", "delete", "TDelete", token.DELETE},
	{"UVoid", "void", "TVoid", token.VOID}, {"UTypeof", "typeof", "TTypeof", token.TYPEOF},
	{"UInc", "++", "TInc", token.INCREMENT}, {"UDec", "--", "TDec", token.DECREMENT},
}

type asgop struct {
	name, text string
	tok        token.Token // the operator otto stores in AssignExpression.Operator
}

var asgops = []asgop{
	{"AAssign", "=", token.ASSIGN}, {"AAdd", "+=", token.PLUS}, {"ASub", "-=", token.MINUS}, {"AMul", "*=", token.MULTIPLY},
	{"ADiv", "/=", token.SLASH}, {"AMod", "%=", token.REMAINDER}, {"AAnd", "&=", token.AND}, {"AOr", "|=", token.OR},
	{"AXor", "^=", token.EXCLUSIVE_OR}, {"AShl", "<<=", token.SHIFT_LEFT}, {"AShr", ">>=", token.SHIFT_RIGHT},
	{"AUShr", ">>>=", token.UNSIGNED_SHIFT_RIGHT},
}

func binIndex(t token.Token) int64 {
	for i, o := range binops {
		if o.tok == t {
			return int64(i)
		}
	}
	return -1
}

// ---------------------------------------------------------------- names

// identifiers usable as variables; index = position
var idents = []string{"a", "b", "c", "x", "y", "z", "$", "_", "a1", "$0", "_x", "ifx", "ins", "in1", "news", "typeofx",
	"instanceofs", "voids", "deletes", "NaN", "undefined", "get", "set", "of", "let1", "é", "ñu", "Ω", "thisx", "nulls", "trues", "do1", "vars", "returns", "f", "g", "r",
	// identifiers in non-strict code, reserved only in strict mode code (7.6.1.2)
	"implements", "interface", "let", "package", "private", "protected", "public", "static", "yield"}

// additional IdentifierNames that may follow a dot (reserved words included); index = 100 + position
var propNames = []string{"if", "in", "new", "typeof", "instanceof", "delete", "void", "this", "null", "true", "false", "var",
	"function", "return", "class", "enum", "for", "while", "do", "break", "continue", "default", "case", "with", "try",
	"catch", "finally", "throw", "switch", "else", "debugger", "length", "prototype"}

var nameIndex = map[string]int64{}

func init() {
	for i, s := range idents {
		nameIndex[s] = int64(i)
	}
	for i, s := range propNames {
		nameIndex[s] = int64(100 + i)
	}
}

func nameOf(ix int64) string {
	if ix >= 100 {
		return propNames[ix-100]
	}
	return idents[ix]
}

func lookupName(s string) int64 {
	if ix, ok := nameIndex[s]; ok {
		return ix
	}
	return -1
}

// ---------------------------------------------------------------- tokens of a rendering

type tok struct {
	coq  string // Coq term of type tok
	text string
	nl   bool // a line terminator precedes the token
	// restrictions on the separator BEFORE this token
	noNL   bool // restricted production: no line terminator here
	mustNL bool // a real line terminator is required here (it ends the previous statement)
}

func isIdentChar(r rune) bool {
	return r == '$' || r == '_' || r == '\\' || r >= 0x80 || (r >= '0' && r <= '9') || (r >= 'a' && r <= 'z') || (r >= 'A' && r <= 'Z')
}

func firstRune(s string) rune { return []rune(s)[0] }
func lastRune(s string) rune  { r := []rune(s); return r[len(r)-1] }

// must white space separate the two tokens so that they do not lex differently?
func needSpace(a, b tok) bool {
	la, fb := lastRune(a.text), firstRune(b.text)
	if isIdentChar(la) && isIdentChar(fb) {
		return true
	}
	if strings.HasPrefix(a.coq, "TAtom (ANum") && (fb == '.' || isIdentChar(fb)) {
		return true
	}
	if la == '.' && fb >= '0' && fb <= '9' {
		return true
	}
	if strings.HasPrefix(a.coq, "TAtom (ARegex") && isIdentChar(fb) {
		return true
	}
	if (la == '+' && fb == '+') || (la == '-' && fb == '-') {
		return true
	}
	if la == '/' && (fb == '/' || fb == '*') {
		return true
	}
	return false
}

var sepsPlain = []string{" ", "  ", "\t", "\v", "\f", "\u00a0", "\ufeff", "/**/", "/* c */", " /* a*b / c */ ", "/*'*/", "/*\"*/"}
var sepsNL = []string{"\n", "\r\n", "\r", "\u2028", "\u2029", " \n ", "// c\n", "//\n", " // x = 1; /* \n", "\n\n", "/* c */\n", "\n/* c */"}

// the caller appends its own ending: no random trailing white space / comment
var noTail bool

// render the tokens to text; sets nl flags. density: 0 = minimal, 1 = mixed, 2 = heavy
// when set, every gap between two tokens (and both ends of the text) gets exactly this separator; a line
// terminator is replaced by a space where the grammar forbids one, a required line terminator is kept
var uniformSep string

func renderUniform(toks []tok) string {
	isLT := strings.ContainsAny(uniformSep, "\n\r\u2028\u2029")
	var b strings.Builder
	b.WriteString(uniformSep)
	for i := range toks {
		if i > 0 {
			sep := uniformSep
			switch {
			case isLT && toks[i].noNL:
				sep = " "
			case !isLT && toks[i].mustNL:
				sep = uniformSep + "\n" + uniformSep
			}
			if strings.ContainsAny(sep, "\n\r\u2028\u2029") {
				toks[i].nl = true
			}
			b.WriteString(sep)
		}
		b.WriteString(toks[i].text)
	}
	b.WriteString(uniformSep)
	return b.String()
}

func renderTokens(r *rand.Rand, toks []tok, density int, allowNL bool) string {
	if uniformSep != "" {
		return renderUniform(toks)
	}
	var b strings.Builder
	for i := range toks {
		sep := ""
		if i > 0 {
			must := needSpace(toks[i-1], toks[i])
			roll := r.Intn(10)
			switch {
			case toks[i].mustNL:
				sep = Pick(r, sepsNL)
				if density == 0 {
					sep = "\n"
				}
			case density == 0 && !must:
			case density == 0:
				sep = " "
			case allowNL && !toks[i].noNL && roll < density*2:
				sep = Pick(r, sepsNL)
			case must || roll < 4+3*density:
				sep = Pick(r, sepsPlain)
				if !must && r.Intn(3) == 0 {
					sep = ""
				}
			}
			if must && sep == "" {
				sep = " "
			}
			if lastRune(toks[i-1].text) == '/' && strings.HasPrefix(sep, "/") {
				sep = " " + sep // "/" followed by a comment would read as "//"
			}
		} else if density > 0 && r.Intn(6) == 0 {
			sep = Pick(r, append(append([]string{}, sepsPlain...), "\n", "// lead\n"))
		}
		if i > 0 && strings.ContainsAny(sep, "\n\r\u2028\u2029") {
			toks[i].nl = true
		}
		b.WriteString(sep)
		b.WriteString(toks[i].text)
	}
	if density > 0 && !noTail && r.Intn(5) == 0 {
		b.WriteString(Pick(r, []string{" ", "\n", " // end", "/* end */", "\n\n"}))
	}
	return b.String()
}

func coqToks(toks []tok) string {
	s := make([]string, len(toks))
	for i, t := range toks {
		s[i] = "(" + Cbool(t.nl) + "," + t.coq + ")"
	}
	return Clist(s)
}

func P(coq, text string) tok { return tok{coq: coq, text: text} }

// ---------------------------------------------------------------- printer (mirror of Spec.print)

func prec(n *N) int {
	switch n.Tag {
	case tBin:
		return binops[n.Vals[0]].lvl
	case tUn:
		return 13
	case tPost:
		return 14
	case tCond:
		return 2
	case tAsg:
		return 1
	case tDot, tIdx:
		if prec(n.Kids[0]) == 15 {
			return 15
		}
		return 16
	case tCall:
		return 15
	case tNew:
		return 16
	case tNewNoArgs:
		return 14 // NewExpression without arguments: below call and member, operand of postfix/unary at most
	}
	return 17
}

func atomTok(n *N) tok {
	switch n.Tag {
	case tId:
		return P(fmt.Sprintf("TAtom (AId %d)", n.Vals[0]), n.Text)
	case tNum:
		return P(fmt.Sprintf("TAtom (ANum %d)", uint64(n.Vals[0])), n.Text)
	case tStr:
		return P("TAtom (AStr "+Czlist(n.Vals)+")", n.Text)
	case tRegex:
		l := n.Vals[0]
		return P("TAtom (ARegex "+Czlist(n.Vals[1:1+l])+" "+Czlist(n.Vals[1+l:])+")", n.Text)
	case tNull:
		return P("TAtom ANull", "null")
	case tBool:
		if n.Vals[0] == 1 {
			return P("TAtom (ABool true)", "true")
		}
		return P("TAtom (ABool false)", "false")
	case tThis:
		return P("TAtom AThis", "this")
	}
	panic("atomTok")
}

func printE(out []tok, p int, n *N) []tok { return printEWith(out, p, n, nil) }

func printEWith(out []tok, p int, n *N, extra func([]tok, *N) []tok) []tok {
	printE := func(out []tok, p int, n *N) []tok { return printEWith(out, p, n, extra) }
	printArgs := func(out []tok, args []*N) []tok {
		for i, a := range args {
			if i > 0 {
				out = append(out, P("TOp Comma", ","))
			}
			out = printE(out, 1, a)
		}
		return out
	}
	par := prec(n) < p
	if par {
		out = append(out, P("TLP", "("))
	}
	switch n.Tag {
	case tId, tNum, tStr, tRegex, tNull, tBool, tThis:
		out = append(out, atomTok(n))
	case tParen:
		out = append(out, P("TLP", "("))
		out = printE(out, 0, n.Kids[0])
		out = append(out, P("TRP", ")"))
	case tBin:
		o := binops[n.Vals[0]]
		out = printE(out, o.lvl, n.Kids[0])
		out = append(out, P("TOp "+o.name, o.text))
		out = printE(out, o.lvl+1, n.Kids[1])
	case tUn:
		o := unops[n.Vals[0]]
		out = append(out, P(o.coqTok, o.text))
		out = printE(out, 13, n.Kids[0])
	case tPost:
		out = printE(out, 15, n.Kids[0])
		t := P("TDec", "--")
		if n.Vals[0] == 1 {
			t = P("TInc", "++")
		}
		t.noNL = true
		out = append(out, t)
	case tCond:
		out = printE(out, 3, n.Kids[0])
		out = append(out, P("TQ", "?"))
		out = printE(out, 1, n.Kids[1])
		out = append(out, P("TColon", ":"))
		out = printE(out, 1, n.Kids[2])
	case tAsg:
		o := asgops[n.Vals[0]]
		out = printE(out, 15, n.Kids[0])
		out = append(out, P("TAsg "+o.name, o.text))
		out = printE(out, 1, n.Kids[1])
	case tDot:
		out = printE(out, 15, n.Kids[0])
		out = append(out, P("TDot", "."), P(fmt.Sprintf("TAtom (AId %d)", n.Vals[0]), nameOf(n.Vals[0])))
	case tIdx:
		out = printE(out, 15, n.Kids[0])
		out = append(out, P("TLB", "["))
		out = printE(out, 0, n.Kids[1])
		out = append(out, P("TRB", "]"))
	case tCall:
		out = printE(out, 15, n.Kids[0])
		out = append(out, P("TLP", "("))
		out = printArgs(out, n.Kids[1:])
		out = append(out, P("TRP", ")"))
	case tNew:
		out = append(out, P("TNew", "new"))
		out = printE(out, 16, n.Kids[0])
		out = append(out, P("TLP", "("))
		out = printArgs(out, n.Kids[1:])
		out = append(out, P("TRP", ")"))
	case tNewNoArgs:
		out = append(out, P("TNew", "new"))
		out = printE(out, 16, n.Kids[0])
	default:
		if extra == nil {
			panic(fmt.Sprintf("printE tag %d", n.Tag))
		}
		out = extra(out, n)
	}
	if par {
		out = append(out, P("TRP", ")"))
	}
	return out
}

// ---------------------------------------------------------------- literal spellings

type gen struct {
	env       *Env
	r         *rand.Rand
	cov       map[string]int
	full      bool // array / object / function literals allowed (statement cases)
	semiStyle int  // 0 random per statement, 1 always ";", 2 omit where possible, 3 line terminators
	pendingNL bool
	vm        *otto.Otto
}

func bitsOf(f float64) int64 { return int64(Dbits(f)) }

// a numeric literal of the ES5 grammar (7.8.3 + B.1.1) with its value; hex/octal stay below 2^63
func (g *gen) number() *N {
	r := g.r
	var text string
	var val float64
	digits := func(n int) string {
		b := make([]byte, n)
		for i := range b {
			b[i] = byte('0' + r.Intn(10))
		}
		return string(b)
	}
	nz := func(n int) string { // no leading zero
		s := digits(n)
		if s[0] == '0' {
			s = string(byte('1'+r.Intn(9))) + s[1:]
		}
		return s
	}
	switch r.Intn(12) {
	case 0, 1, 2:
		text = strconv.Itoa(r.Intn(20))
	case 3:
		text = nz(1 + r.Intn(19))
	case 4:
		text = Pick(r, []string{"0", "0.0", "0e0", "0.", ".0", "0E+5", "0x0", "00", "0e-0"})
	case 5:
		text = nz(1+r.Intn(5)) + "." + digits(r.Intn(6))
	case 6:
		text = "." + digits(1+r.Intn(6))
	case 7:
		m := Pick(r, []string{nz(1 + r.Intn(4)), nz(1+r.Intn(3)) + "." + digits(r.Intn(4)), "." + digits(1+r.Intn(3)), "0." + digits(1+r.Intn(3)), nz(1) + "."})
		text = m + Pick(r, []string{"e", "E"}) + Pick(r, []string{"", "+", "-"}) + strconv.Itoa(r.Intn(Pick(r, []int{3, 30, 330})))
	case 8, 9:
		n := r.Int63()
		if r.Intn(2) == 0 {
			n >>= uint(r.Intn(63))
		}
		h := strconv.FormatInt(n, 16)
		var b strings.Builder
		for _, c := range h {
			if r.Intn(2) == 0 {
				b.WriteString(strings.ToUpper(string(c)))
			} else {
				b.WriteRune(c)
			}
		}
		text = Pick(r, []string{"0x", "0X"}) + strings.Repeat("0", r.Intn(3)) + b.String()
	case 10:
		n := r.Int63()
		if r.Intn(3) > 0 {
			n >>= uint(r.Intn(63))
		}
		text = "0" + strconv.FormatInt(n, 8)
	default:
		text = Pick(r, []string{"9007199254740993", "9223372036854775807", "9223372036854775808", "18446744073709551616", "1e21", "1e-7",
			"4.9e-324", "2.4703282292062327e-324", "2.4703282292062328e-324", "1.7976931348623157e308", "1.7976931348623158e308", "1.7976931348623159e308", "2e308", "1e400", "1e-400",
			"0x7fffffffffffffff", "0x7FFFFFFFFFFFFBFF", "0x7ffffffffffffc00", "0777777777777777777777"[:21], "0x20000000000001", "0x1fffffffffffff", "9007199254740992", "9007199254740991",
			"12345678901234567890", "0.1", "0.30000000000000004", "5e-1", "1.5", "4294967295", "4294967296", "2147483648"})
	}
	val = numberValue(text)
	return &N{Tag: tNum, Vals: []int64{bitsOf(val)}, Text: text}
}

// value of a literal by the harness's own evaluator (exact big-number arithmetic, one rounding)
func numberValue(text string) float64 {
	if len(text) > 2 && (text[1] == 'x' || text[1] == 'X') {
		i, ok := new(big.Int).SetString(text[2:], 16)
		if !ok {
			panic(text)
		}
		f, _ := new(big.Float).SetInt(i).Float64()
		return f
	}
	if len(text) > 1 && text[0] == '0' && strings.IndexFunc(text, func(c rune) bool { return c < '0' || c > '7' }) < 0 {
		i, ok := new(big.Int).SetString(text[1:], 8)
		if !ok {
			panic(text)
		}
		f, _ := new(big.Float).SetInt(i).Float64()
		return f
	}
	f, err := strconv.ParseFloat(text, 64)
	if err != nil && !math.IsInf(f, 0) {
		panic(text + ": " + err.Error())
	}
	return f
}

var singleEsc = map[uint16]string{8: `\b`, 9: `\t`, 10: `\n`, 11: `\v`, 12: `\f`, 13: `\r`, '"': `\"`, '\'': `\'`, '\\': `\\`}

// a string literal with seeded escape forms; the value is the unit list
func (g *gen) stringLit() *N {
	r := g.r
	n := r.Intn(6)
	if r.Intn(8) == 0 {
		n = 0
	}
	var units []uint16
	for i := 0; i < n; i++ {
		switch r.Intn(12) {
		case 0:
			units = append(units, Pick(r, []uint16{0, 8, 9, 10, 11, 12, 13, '"', '\'', '\\', 0x7f, 0x80, 0xa0, 0xff, 0x100, 0x2028, 0x2029, 0xfeff, 0xffff, 0xd7ff, 0xe000}))
		case 1:
			units = append(units, uint16(r.Intn(0xd800)))
		case 2: // astral character, raw in the source: a surrogate pair in the value
			c := 0x10000 + r.Intn(0x100000)
			units = append(units, uint16(0xd800+((c-0x10000)>>10)), uint16(0xdc00+((c-0x10000)&0x3ff)))
		case 3:
			units = append(units, uint16('0'+r.Intn(10)))
		default:
			units = append(units, uint16(0x20+r.Intn(0x5f)))
		}
	}
	quote := Pick(r, []uint16{'"', '\''})
	var b strings.Builder
	b.WriteRune(rune(quote))
	for i := 0; i < len(units); i++ {
		u := units[i]
		if r.Intn(10) == 0 { // LineContinuation contributes nothing (7.8.4)
			b.WriteString(Pick(r, []string{"\\\n", "\\\r\n", "\\\r", "\\\u2028", "\\\u2029"}))
		}
		if u >= 0xd800 && u < 0xdc00 && i+1 < len(units) && units[i+1] >= 0xdc00 && units[i+1] < 0xe000 {
			c := 0x10000 + (rune(u)-0xd800)<<10 + (rune(units[i+1]) - 0xdc00)
			b.WriteRune(c)
			i++
			continue
		}
		nextDigit := i+1 < len(units) && units[i+1] >= '0' && units[i+1] <= '9'
		rawOK := u != quote && u != '\\' && u != 10 && u != 13 && u != 0x2028 && u != 0x2029 && !(u >= 0xd800 && u < 0xe000)
		var forms []string
		if rawOK {
			forms = append(forms, string(rune(u)), string(rune(u)), string(rune(u)))
		}
		if !(u >= 0xd800 && u < 0xe000) {
			forms = append(forms, fmt.Sprintf("\\u%04x", u), fmt.Sprintf("\\u%04X", u))
		}
		if u <= 0xff {
			forms = append(forms, fmt.Sprintf("\\x%02x", u), fmt.Sprintf("\\x%02X", u))
			forms = append(forms, fmt.Sprintf("\\%03o", u)) // B.1.2 octal escape, three digits
			// the shorter forms: the escape is the LONGEST match, three digits only after 0..3, two after 4..7
			nextOctal := i+1 < len(units) && units[i+1] >= '0' && units[i+1] <= '7'
			switch o := fmt.Sprintf("%o", u); {
			case len(o) == 1 && !nextDigit:
				forms = append(forms, "\\"+o)
			case len(o) == 2 && (o[0] >= '4' || !nextOctal):
				forms = append(forms, "\\"+o, "\\"+o)
			}
		}
		if s, ok := singleEsc[u]; ok {
			forms = append(forms, s, s, s)
		}
		if u == 0 && !nextDigit {
			forms = append(forms, `\0`, `\0`)
		}
		// NonEscapeCharacter: a backslash before a character that is not an escape character stands for it
		if rawOK && !strings.ContainsRune("bfnrtvxu0123456789", rune(u)) {
			forms = append(forms, "\\"+string(rune(u)))
		}
		if u == quote^('"'^'\'') { // the other quote needs no escape but may have one
			forms = append(forms, "\\"+string(rune(u)))
		}
		b.WriteString(Pick(r, forms))
	}
	b.WriteRune(rune(quote))
	vals := make([]int64, len(units))
	for i, u := range units {
		vals[i] = int64(u)
	}
	return &N{Tag: tStr, Vals: vals, Text: b.String()}
}

var regexBodies = []string{"a", "a+b", "[/]", `\/`, "=x", "[a-z]*", "^$", "a|b", `\d{2,3}`, "(?:x)", `[^\]]`, "x*?", `\\`, "[*/]+", "(a)(b)", `A`, ` `, `a\/b[/\]]c`, "é"}
var regexFlags = []string{"", "", "g", "i", "m", "gi", "gim", "mg"}

func (g *gen) regex() *N {
	p, f := Pick(g.r, regexBodies), Pick(g.r, regexFlags)
	pu, fu := Units(p), Units(f)
	vals := []int64{int64(len(pu))}
	for _, u := range pu {
		vals = append(vals, int64(u))
	}
	for _, u := range fu {
		vals = append(vals, int64(u))
	}
	return &N{Tag: tRegex, Vals: vals, Text: "/" + p + "/" + f}
}

func (g *gen) ident() *N {
	ix := g.r.Intn(len(idents))
	if g.r.Intn(3) > 0 {
		ix = g.r.Intn(8)
	}
	text := idents[ix]
	// an identifier may spell any of its characters as \uXXXX (7.6); the name is the same
	if g.r.Intn(12) == 0 {
		rs := []rune(text)
		k := g.r.Intn(len(rs))
		if rs[k] < 0x10000 {
			text = string(rs[:k]) + fmt.Sprintf("\\u%04x", rs[k]) + string(rs[k+1:])
		}
	}
	return &N{Tag: tId, Vals: []int64{int64(ix)}, Text: text}
}

func (g *gen) atom() *N {
	switch g.r.Intn(14) {
	case 0, 1:
		return g.number()
	case 2:
		return g.stringLit()
	case 3:
		return g.regex()
	case 4:
		return Pick(g.r, []*N{{Tag: tNull}, {Tag: tBool, Vals: []int64{1}}, {Tag: tBool, Vals: []int64{0}}, {Tag: tThis}})
	}
	return g.ident()
}

// ---------------------------------------------------------------- expression generator

func isRefTag(n *N) bool {
	s := n
	for s.Tag == tParen {
		s = s.Kids[0]
	}
	return s.Tag == tId || s.Tag == tDot || s.Tag == tIdx
}

func (g *gen) propName() int64 {
	if g.r.Intn(3) == 0 {
		return int64(100 + g.r.Intn(len(propNames)))
	}
	return int64(g.r.Intn(len(idents)))
}

// a Reference-shaped expression (operand of assignment, ++, --)
func (g *gen) ref(d int) *N {
	var n *N
	switch {
	case d <= 0 || g.r.Intn(3) == 0:
		n = g.ident()
	case g.r.Intn(2) == 0:
		n = nd(tDot, []int64{g.propName()}, g.expr(d-1, 15))
	default:
		n = nd(tIdx, nil, g.expr(d-1, 15), g.expr(d-1, 0))
	}
	for g.r.Intn(10) == 0 { // (a) = 1, ++(a.b): a parenthesised Reference is still one (11.1.6)
		n = nd(tParen, nil, n)
	}
	return n
}

// a random expression of depth <= d whose precedence is >= min when possible (lower ones get parentheses anyway)
func (g *gen) expr(d int, min int) *N {
	r := g.r
	var n *N
	if d <= 0 {
		n = g.atom()
	} else {
		switch k := r.Intn(100); {
		case k < 12:
			if g.full && r.Intn(3) == 0 {
				n = g.primaryExtra(d)
			} else {
				n = g.atom()
			}
		case k < 50:
			o := r.Intn(len(binops))
			if o == 0 && r.Intn(3) > 0 {
				o = 1 + r.Intn(len(binops)-1)
			}
			n = nd(tBin, []int64{int64(o)}, g.expr(d-1, 0), g.expr(d-1, 0))
		case k < 60:
			o := r.Intn(len(unops))
			if o >= 7 {
				n = nd(tUn, []int64{int64(o)}, g.ref(d-1))
			} else {
				n = nd(tUn, []int64{int64(o)}, g.expr(d-1, 13))
			}
		case k < 64:
			n = nd(tPost, []int64{int64(r.Intn(2))}, g.ref(d-1))
		case k < 70:
			n = nd(tCond, nil, g.expr(d-1, 3), g.expr(d-1, 1), g.expr(d-1, 1))
		case k < 78:
			n = nd(tAsg, []int64{int64(r.Intn(len(asgops)))}, g.ref(d-1), g.expr(d-1, 1))
		case k < 84:
			n = nd(tDot, []int64{g.propName()}, g.expr(d-1, 15))
		case k < 88:
			n = nd(tIdx, nil, g.expr(d-1, 15), g.expr(d-1, 0))
		case k < 94:
			kids := []*N{g.expr(d-1, 15)}
			for i := r.Intn(4); i > 0; i-- {
				kids = append(kids, g.expr(d-1, 1))
			}
			n = nd(tCall, nil, kids...)
		default:
			kids := []*N{g.expr(d-1, 16)}
			na := r.Intn(3)
			for i := na; i > 0; i-- {
				kids = append(kids, g.expr(d-1, 1))
			}
			if na == 0 && r.Intn(2) == 0 {
				n = nd(tNewNoArgs, nil, kids...)
			} else {
				n = nd(tNew, nil, kids...)
			}
		}
	}
	// redundant parentheses
	for r.Intn(9) == 0 {
		n = nd(tParen, nil, n)
	}
	return n
}

// does the rendering contain a relational operator whose left operand is an unparenthesised relational expression?
func relChain(n *N) bool {
	if n.Tag == tBin && binops[n.Vals[0]].lvl == 9 {
		l := n.Kids[0]
		if l.Tag == tBin && binops[l.Vals[0]].lvl == 9 {
			return true
		}
	}
	for _, k := range n.Kids {
		if relChain(k) {
			return true
		}
	}
	return false
}

func depth(n *N) int {
	d := 0
	for _, k := range n.Kids {
		if x := depth(k); x > d {
			d = x
		}
	}
	return d + 1
}

// ---------------------------------------------------------------- otto's tree -> N

func unitsVals(s string) []int64 {
	u := Units(s)
	v := make([]int64, len(u))
	for i, x := range u {
		v[i] = int64(x)
	}
	return v
}

func fromExpr(e ast.Expression) *N {
	switch x := e.(type) {
	case nil:
		return nd(tBad, []int64{0})
	case *ast.Identifier:
		return nd(tId, []int64{lookupName(x.Name)})
	case *ast.NumberLiteral:
		var f float64
		switch v := x.Value.(type) {
		case int64:
			f = float64(v)
		case float64:
			f = v
		default:
			return nd(tBad, []int64{1})
		}
		return nd(tNum, []int64{bitsOf(f)})
	case *ast.StringLiteral:
		return nd(tStr, unitsVals(x.Value))
	case *ast.RegExpLiteral:
		p := unitsVals(x.Pattern)
		return nd(tRegex, append(append([]int64{int64(len(p))}, p...), unitsVals(x.Flags)...))
	case *ast.NullLiteral:
		return nd(tNull, nil)
	case *ast.BooleanLiteral:
		if x.Value {
			return nd(tBool, []int64{1})
		}
		return nd(tBool, []int64{0})
	case *ast.ThisExpression:
		return nd(tThis, nil)
	case *ast.BinaryExpression:
		return nd(tBin, []int64{binIndex(x.Operator)}, fromExpr(x.Left), fromExpr(x.Right))
	case *ast.SequenceExpression:
		if len(x.Sequence) == 0 {
			return nd(tBad, []int64{2})
		}
		n := fromExpr(x.Sequence[0])
		for _, s := range x.Sequence[1:] {
			n = nd(tBin, []int64{0}, n, fromExpr(s))
		}
		return n
	case *ast.UnaryExpression:
		if x.Postfix {
			switch x.Operator {
			case token.INCREMENT:
				return nd(tPost, []int64{1}, fromExpr(x.Operand))
			case token.DECREMENT:
				return nd(tPost, []int64{0}, fromExpr(x.Operand))
			}
			return nd(tBad, []int64{3})
		}
		for i, o := range unops {
			if o.tok == x.Operator {
				return nd(tUn, []int64{int64(i)}, fromExpr(x.Operand))
			}
		}
		return nd(tBad, []int64{4})
	case *ast.ConditionalExpression:
		return nd(tCond, nil, fromExpr(x.Test), fromExpr(x.Consequent), fromExpr(x.Alternate))
	case *ast.AssignExpression:
		for i, o := range asgops {
			if o.tok == x.Operator {
				return nd(tAsg, []int64{int64(i)}, fromExpr(x.Left), fromExpr(x.Right))
			}
		}
		return nd(tBad, []int64{5})
	case *ast.DotExpression:
		return nd(tDot, []int64{lookupName(x.Identifier.Name)}, fromExpr(x.Left))
	case *ast.BracketExpression:
		return nd(tIdx, nil, fromExpr(x.Left), fromExpr(x.Member))
	case *ast.CallExpression:
		kids := []*N{fromExpr(x.Callee)}
		for _, a := range x.ArgumentList {
			kids = append(kids, fromExpr(a))
		}
		return nd(tCall, nil, kids...)
	case *ast.NewExpression:
		kids := []*N{fromExpr(x.Callee)}
		for _, a := range x.ArgumentList {
			kids = append(kids, fromExpr(a))
		}
		return nd(tNew, nil, kids...)
	}
	if x := fromExprExtra(e); x != nil {
		return x
	}
	return nd(tBad, []int64{9})
}

// parse a program that should consist of one expression statement
func parseExprText(src string) (n *N, errText string) {
	defer func() {
		if r := recover(); r != nil {
			n, errText = nil, fmt.Sprintf("PANIC %v", r)
		}
	}()
	prog, _, e, mismatch := parseWays(src)
	if mismatch != "" {
		return historyBad(mismatch), "PARSE HISTORY: " + mismatch
	}
	if prog == nil {
		return nil, e
	}
	if len(prog.Body) != 1 {
		return nd(tBad, []int64{int64(100 + len(prog.Body))}), ""
	}
	es, ok := prog.Body[0].(*ast.ExpressionStatement)
	if !ok {
		return nd(tBad, []int64{98}), ""
	}
	return fromExpr(es.Expression), ""
}

// ---------------------------------------------------------------- literal cases

func runesCoq(rs []rune) string {
	v := make([]int64, len(rs))
	for i, c := range rs {
		v[i] = int64(c)
	}
	return Czlist(v)
}

// parse a program that should be one expression statement holding one literal
func parseLiteral(src string) (ast.Expression, string) {
	var e ast.Expression
	errText := ""
	func() {
		defer func() {
			if r := recover(); r != nil {
				errText = fmt.Sprintf("PANIC %v", r)
			}
		}()
		prog, _, perr, mismatch := parseWays(src)
		if mismatch != "" {
			historyNote = mismatch
			errText = "PARSE HISTORY: " + mismatch
			return
		}
		if prog == nil {
			errText = perr
			return
		}
		if len(prog.Body) != 1 {
			errText = fmt.Sprintf("%d statements", len(prog.Body))
			return
		}
		es, ok := prog.Body[0].(*ast.ExpressionStatement)
		if !ok {
			errText = "not an expression statement"
			return
		}
		e = es.Expression
	}()
	return e, errText
}

func (g *gen) numCase(text, bucket string) {
	src := text
	if g.r.Intn(3) == 0 {
		src = Pick(g.r, []string{" ", "\n", "/**/"}) + text + Pick(g.r, []string{";", " ;", "\n", " // c"})
	}
	e, errText := parseLiteral(src)
	obs, shown := "None", "syntax error: "+errText
	if nl, ok := e.(*ast.NumberLiteral); ok {
		var f float64
		switch v := nl.Value.(type) {
		case int64:
			f = float64(v)
		case float64:
			f = v
		}
		obs = "(Some " + Cdouble(f) + ")"
		shown = fmt.Sprintf("%s (bits %d)", strconv.FormatFloat(f, 'g', -1, 64), Dbits(f))
	} else if e != nil {
		shown = fmt.Sprintf("not a number literal: %T", e)
	}
	g.add(fmt.Sprintf("CNum %s %s", runesCoq([]rune(text)), obs), fmt.Sprintf("number %q -> %s", src, shown), bucket, true)
}

func (g *gen) strCase(lit, bucket string) { // lit includes the quotes
	e, errText := parseLiteral("(" + lit + ")")
	obs, shown := "None", "syntax error: "+errText
	if sl, ok := e.(*ast.StringLiteral); ok {
		obs = "(Some " + Cstr(sl.Value) + ")"
		shown = fmt.Sprintf("units %s", Cstr(sl.Value))
	} else if e != nil {
		shown = fmt.Sprintf("not a string literal: %T", e)
	}
	body := []rune(lit)
	body = body[1 : len(body)-1]
	g.add(fmt.Sprintf("CStr %s %s", runesCoq(body), obs), fmt.Sprintf("string %q -> %s", lit, shown), bucket, true)
}

// boundary numerals: around 2^53, 2^63, 2^64, the double range ends, halfway cases
var numBoundary = []string{"0", "00", "07", "010", "0777", "0x0", "0xf", "0XF", "0xabcdef", "0XABCDEF", "0x10", "0x7fffffffffffffff", "0777777777777777777777"[:21],
	"9007199254740991", "9007199254740992", "9007199254740993", "9007199254740994", "9007199254740995", "0x20000000000001", "0x20000000000002", "0x20000000000003",
	"0400000000000000001", "0400000000000000002", "0400000000000000003", "9223372036854775807", "9223372036854775808", "9223372036854775809", "18446744073709551615",
	"18446744073709551616", "0x7ffffffffffffdff", "0x7ffffffffffffe00", "0x7ffffffffffffe01", "0x7ffffffffffffbff", "0x7ffffffffffffc00", "0x7ffffffffffffc01",
	"1e21", "1e22", "1e23", "1e-6", "1e-7", "123e-20", "5e-324", "4e-324", "3e-324", "2e-324", "2.4703282292062327e-324", "2.4703282292062328e-324", "2.2250738585072014e-308",
	"2.2250738585072011e-308", "1.7976931348623157e308", "1.7976931348623158e308", "1.797693134862315807e308", "1.797693134862315808e308", "1.7976931348623159e308", "1e308", "1e309", "2e308", "1e400", "1e-400", "0e400",
	".0", "0.", "0.0", ".5", "5.", "5.e1", ".5e1", "5e0", "5E0", "5e+0", "5e-0", "5e00", "5e01", "1.5", "0.1", "0.2", "0.3", "0.30000000000000004", "4.35", "1.005", "8.41",
	"1e1", "1E1", "1e+1", "1e-1", "10e-1", "0.000001", "0.0000001", "1234567890", "12345678901234567890", "4294967295", "4294967296", "2147483647", "2147483648", "100", "1000000000000000128", "1000000000000000129"}

// literals in the recorded deviation regions (pinned first on every run)
var numPinned = []string{"0x8000000000000401", "01000000000000000000000", "0xffffffffffffffff", "0x10000000000000000", "0x1fffffffffffffc01", "02000000000000000000000"}
var strPinned = []string{`"\uD83D\uDE00"`, `"\uD800"`, `'\udfffx'`, `"\400"`, `"\777"`, `'\477'`, "\"a\\\u2028b\"", "'\\\u2029'"}

func (g *gen) randomNumCase() {
	r := g.r
	switch r.Intn(10) {
	case 0, 1, 2:
		g.numCase(Pick(r, numBoundary), "num-boundary")
	case 3:
		// neighbours of a power of two in hex / octal / decimal, below 2^63
		k := uint(r.Intn(63))
		n := (int64(1) << k) + int64(r.Intn(5)-2)
		if n < 0 {
			n = 0
		}
		g.numCase(Pick(r, []string{"0x" + strconv.FormatInt(n, 16), "0" + strconv.FormatInt(n, 8), strconv.FormatInt(n, 10)}), "num-pow2")
	case 4:
		// integers of 54..63 bits: the conversion to a double rounds
		n := r.Int63() >> uint(r.Intn(10))
		g.numCase(Pick(r, []string{"0x" + strconv.FormatInt(n, 16), "0X" + strings.ToUpper(strconv.FormatInt(n, 16)), "0" + strconv.FormatInt(n, 8), strconv.FormatInt(n, 10)}), "num-wide-int")
	case 5:
		if r.Intn(4) == 0 { // the recorded region: hex / octal at or above 2^63
			n := new(big.Int).Lsh(big.NewInt(1), uint(63+r.Intn(6)))
			n.Add(n, big.NewInt(r.Int63n(1<<20)))
			if r.Intn(2) == 0 {
				g.numCase("0x"+n.Text(16), "num-hex-big")
			} else {
				g.numCase("0"+n.Text(8), "num-octal-big")
			}
			return
		}
		g.numCase(g.number().Text, "num-random")
	default:
		g.numCase(g.number().Text, "num-random")
	}
}

func (g *gen) randomStrCase() {
	r := g.r
	lit := g.stringLit().Text
	if r.Intn(8) == 0 { // splice one form of the recorded regions into the literal
		extra := Pick(r, []string{`\ud83d\ude00`, `\uD800`, `\uDC00`, `\udbff\udfff`, `\400`, `\477`, `\777`, `\567`, "\\\u2028", "\\\u2029"})
		lit = lit[:len(lit)-1] + extra + lit[len(lit)-1:]
		g.strCase(lit, "str-surrogate-or-repaired-region")
		return
	}
	g.strCase(lit, "str-random")
}

// ---------------------------------------------------------------- cases

func (g *gen) exprCase(n *N, bucket string, density int) {
	toks := printE(nil, 0, n)
	src := renderTokens(g.r, toks, density, true)
	want := strip(n)
	got, errText := parseExprText(src)
	obs, shown := "None", "syntax error: "+errText
	if got != nil {
		obs = "(Some (" + got.coq() + "))"
		shown = "tree " + got.coq()
		if equalTree(got, want) {
			shown = "the generating tree"
		}
	}
	if relChain(n) {
		bucket += "+relchain"
	}
	g.add(fmt.Sprintf("CExpr %s (%s) %s", coqToks(toks), want.coq(), obs),
		fmt.Sprintf("expr %q -> %s ; generating tree %s", src, shown, want.coq()), bucket, depth(want) >= 3)
}

func id(ix int) *N { return &N{Tag: tId, Vals: []int64{int64(ix)}, Text: idents[ix]} }

func runC03(env *Env) {
	env.Import = "Otto.C03.Corr"
	env.Rule = "pinned witnesses of every listed finding; every ordered pair of binary operators in both nestings, every unary x binary adjacency, every binary operator against ?: = postfix call new member, every pair of assignment operators; boundary numerals (2^53, 2^63, 2^64, range ends, halfway cases, every syntactic form) and random ones; every \\xHH and octal escape of every code unit below 256, every single-character escape, random strings with seeded escape forms and line continuations; every ordered pair of 41 statement forms under each way of ending a statement (semicolon, line terminator, nothing before } or end of input); every statement form as the last statement of a FunctionBody x 24 endings (// comment without line terminator, /* */, LS, PS, CR, CRLF, white space) through parser.ParseFunction, a function declaration in a program, new Function(...) and Function(...); a regular expression literal (patterns starting with = so that the scanner first reads /=, and others, with and without flags) ending each kind of statement x each statement end (; each line terminator, comment + line terminator, }, end of input) x 14 following statement forms incl. prefix ++/--; every sequence of up to four member / index / call / new(args) / new steps (780 chains, nested new included) alone and as operands; 36 expression slots of all statement forms x 32 classes of expression (comma, in, assignment, conditional with in in each operand, relational, function / object / array / regexp literals); label stacks of depth 1-3 on 15 statement forms with break / continue to each label from every nesting path of up to two of 16 wrappers (blocks, ifs, switch clauses, try/catch/finally, nested loops, nested labelled statements, with), also inside functions; object-literal property names drawn from every reserved word, future reserved word, literal keyword, get/set and string / numeric names, as data property, getter, setter and function-valued property, alone and mixed; token adjacency: every run [postfix] binary-operator [prefix [prefix]], assignment-operator prefix, ?: / call / index with prefixes and binary operator next to a regular expression literal, rendered with NO white space except where two tokens would fuse (a<!--b, a-->b, a+++b, a- -b, x/ /re/) and again with seeded white space; regular expression literals over 27 character-class shapes (unescaped [ / inside a class, escaped brackets, classes next to groups) x flags, followed by division, member access, call, inside arrays and argument lists; nests of depth 2-3 of switch / loops / function / labelled block / labelled loop / try / finally / if with every valid jump placed after each inner construct has closed, at every level, bare and guarded, at top level and inside a function; the strict-mode-only future reserved words (implements interface let package private protected public static yield) as ordinary identifiers in non-strict code - first token of a statement, label, variable, function and parameter name, catch parameter, for-in target, property name - right after, inside the sibling of, and around functions whose body opens with a use-strict directive (declaration, expression ended by ; / line terminator / nothing, accessor, nested), and after strings that only look like the directive; every white-space code point of ES5 7.2 (TAB VT FF SP NBSP BOM U+1680 U+2000..U+200A U+202F U+205F U+3000) and every line terminator (LF CR CRLF LS PS) as THE separator between every two tokens and at both ends of 60 programs and expressions that contain every pair of token kinds; every spelling of a numeric literal at a line end (each line terminator, end of input) before var / else / while / ++ / -- / a literal / } in seven statement contexts; EVERY source is parsed with a nil file.FileSet and as 1st, 2nd and a later file of a shared FileSet and must give the same tree and statement offsets without panic; then random function bodies through the same entry points, random expression trees of depth <= 6 and random programs (all ES5 statement forms, function/array/object literals with getters and setters, for-header no-in contexts) each rendered with seeded redundant parentheses, white space, comments, line terminators and literal spellings; non-trivial = distinct rendering whose tree has depth >= 3 (expressions), >= 2 statements or depth >= 4 (programs), every literal case"
	env.Extra["forced_coverage"] = map[string]int{"binary_operator_pairs": len(binops) * len(binops) * 2, "unary_binary": len(unops) * len(binops) * 2,
		"assignment_pairs": len(asgops) * len(asgops), "statement_forms": 41, "escape_sweep_units": 256, "function_body_endings": len(bodySuffixes)}
	g := &gen{env: env, r: env.Rng, cov: map[string]int{}}
	r := env.Rng

	// the witnesses of the repaired finding C03-relational-assoc first: they now expect the ES5 tree
	g.exprCase(nd(tBin, []int64{10}, nd(tBin, []int64{10}, numLit("1"), numLit("2")), numLit("3")), "pinned", 0)
	g.exprCase(nd(tBin, []int64{11}, nd(tBin, []int64{11}, numLit("3"), numLit("2")), numLit("1")), "pinned", 0)

	for _, t := range numPinned {
		g.numCase(t, "pinned")
	}
	for _, t := range strPinned {
		g.strCase(t, "pinned")
	}

	g.pinnedPrograms()
	g.pinFunctionCtor()

	// every ordered pair of binary operators, both nestings
	for i := range binops {
		for j := range binops {
			g.exprCase(nd(tBin, []int64{int64(i)}, nd(tBin, []int64{int64(j)}, id(0), id(1)), id(2)), "pair-left", r.Intn(2))
			g.exprCase(nd(tBin, []int64{int64(i)}, id(0), nd(tBin, []int64{int64(j)}, id(1), id(2))), "pair-right", r.Intn(2))
		}
	}
	// unary x binary
	for u := range unops {
		for j := range binops {
			var a, b *N
			if u >= 7 {
				a = nd(tBin, []int64{int64(j)}, nd(tUn, []int64{int64(u)}, id(0)), id(1))
				b = nd(tBin, []int64{int64(j)}, id(0), nd(tUn, []int64{int64(u)}, id(1)))
			} else {
				a = nd(tUn, []int64{int64(u)}, nd(tBin, []int64{int64(j)}, id(0), id(1)))
				b = nd(tBin, []int64{int64(j)}, nd(tUn, []int64{int64(u)}, id(0)), nd(tUn, []int64{int64(u)}, id(1)))
			}
			g.exprCase(a, "unary-binary", r.Intn(2))
			g.exprCase(b, "unary-binary", r.Intn(2))
		}
	}
	// binary operators against ?: = postfix member call new
	for j := range binops {
		o := []int64{int64(j)}
		g.exprCase(nd(tCond, nil, nd(tBin, o, id(0), id(1)), nd(tBin, o, id(2), id(3)), nd(tBin, o, id(4), id(5))), "cond-binary", 1)
		g.exprCase(nd(tBin, o, nd(tCond, nil, id(0), id(1), id(2)), nd(tCond, nil, id(3), id(4), id(5))), "cond-binary", 1)
		g.exprCase(nd(tAsg, []int64{int64(r.Intn(len(asgops)))}, id(0), nd(tBin, o, id(1), id(2))), "assign-binary", 1)
		g.exprCase(nd(tBin, o, nd(tAsg, []int64{int64(r.Intn(len(asgops)))}, id(0), id(1)), nd(tAsg, []int64{0}, id(2), id(3))), "assign-binary", 1)
		g.exprCase(nd(tBin, o, nd(tPost, []int64{1}, id(0)), nd(tPost, []int64{0}, id(1))), "postfix-binary", 1)
		g.exprCase(nd(tBin, o, nd(tCall, nil, id(0), id(1)), nd(tNew, nil, id(2), id(3))), "call-binary", 1)
		g.exprCase(nd(tCall, nil, nd(tBin, o, id(0), id(1)), nd(tBin, o, id(2), id(3))), "call-binary", 1)
		g.exprCase(nd(tNew, nil, nd(tBin, o, id(0), id(1)), nd(tBin, o, id(2), id(3))), "call-binary", 1)
		g.exprCase(nd(tDot, []int64{0}, nd(tBin, o, id(0), id(1))), "member-binary", 1)
		g.exprCase(nd(tIdx, nil, nd(tBin, o, id(0), id(1)), nd(tBin, o, id(2), id(3))), "member-binary", 1)
	}
	for i := range asgops {
		for j := range asgops {
			g.exprCase(nd(tAsg, []int64{int64(i)}, id(0), nd(tAsg, []int64{int64(j)}, id(1), id(2))), "assign-assign", r.Intn(2))
		}
		g.exprCase(nd(tAsg, []int64{int64(i)}, id(0), nd(tCond, nil, id(1), nd(tAsg, []int64{int64(i)}, id(2), id(3)), nd(tAsg, []int64{int64(i)}, id(4), id(5)))), "assign-cond", 1)
	}

	for _, t := range numBoundary {
		g.numCase(t, "num-boundary")
	}
	// every escape form of every small code unit, and the single-character escapes of all ASCII characters
	for u := 0; u < 0x100; u++ {
		g.strCase(fmt.Sprintf(`"\x%02x"`, u), "str-sweep")
		g.strCase(fmt.Sprintf(`'\%03o|'`, u), "str-sweep")
		if u >= 0x20 && u < 0x7f && !strings.ContainsRune("xu0123456789'", rune(u)) {
			g.strCase(`'\`+string(rune(u))+`'`, "str-sweep")
		}
	}
	// an octal escape starting with 4..7 ends after two digits whatever follows (repaired in /repo 96a7b64)
	for u := 040; u <= 077; u++ {
		for d := 0; d < 10; d++ {
			g.strCase(fmt.Sprintf(`"\%o%d"`, u, d), "str-sweep")
		}
	}
	for _, lt := range []string{"\u2028", "\u2029", "\n", "\r", "\r\n"} { // every LineContinuation, in every position
		g.strCase("'\\"+lt+"'", "str-sweep")
		g.strCase("'a\\"+lt+"b'", "str-sweep")
		g.strCase("\"\\"+lt+"\\"+lt+"\\101\\"+lt+"\"", "str-sweep")
	}
	for _, t := range []string{`'\0'`, `'\0a'`, `"\1"`, `"\7"`, `"\18"`, `"\79"`, `"\128"`, `"\1234"`, `"\377"`, `"\3777"`, `"\47"`, `"\4a7"`, "'\\\n'", "'a\\\r\nb'", "'a\\\rb'", `"\u0000"`, `"\uffff"`, `"\ud7ff\ue000"`, `"\u00e9\xe9é"`, `"'"`, `'"'`, `""`, `''`, `"\'\""`} {
		g.strCase(t, "str-boundary")
	}

	g.newChains()
	g.statementPairs()
	g.slotGrid()
	labelGrid(g)
	g.adjacencyGrid()
	g.regexClasses()
	g.contextFlags()
	g.strictWords()
	g.whiteSpaceGrid()
	g.numericLineEnds()
	propertyNames(g)
	g.functionBodies(sampleStatements)
	g.regexStatementEnds()

	for env.Count() < env.N {
		switch k := r.Intn(100); {
		case k < 10:
			g.randomNumCase()
		case k < 20:
			g.randomStrCase()
		case k < 27:
			g.randomFunBodyCase()
		case k < 55:
			d := 1 + r.Intn(3)
			g.progCase(g.stmtList(d, ctx{}, true, 1+r.Intn(4)), fmt.Sprintf("program-depth%d", d), r.Intn(3), r.Intn(4))
		default:
			d := 1 + r.Intn(5)
			n := g.expr(d, 0)
			g.exprCase(n, fmt.Sprintf("random-depth%d", depth(strip(n))), r.Intn(3))
		}
	}
}

func numLit(s string) *N { return &N{Tag: tNum, Vals: []int64{bitsOf(numberValue(s))}, Text: s} }

func asg(l, r *N) *N { return nd(tAsg, []int64{0}, l, r) }
func es(e *N) *N     { return nd(tExprS, nil, e) }

// recorded deviations whose model is the pinned observation (class, text, the tree ES5 assigns, what otto returns)
func (g *gen) pinnedPrograms() {
	one := numLit("1")
	two := numLit("2")
	// regression cases of repaired defects (fixed findings 6-10): the ES5 tree is expected, nothing else is accepted
	decl := func(ix int, init *N) *N {
		d := &N{Tag: tDecl, Vals: []int64{int64(ix)}}
		if init != nil {
			d.Kids = []*N{init}
		}
		return d
	}
	prog := func(st ...*N) *N { return &N{Tag: tProg, Kids: st} }
	fn := func(params []int64, st ...*N) *N {
		return &N{Tag: tFunDecl, Vals: append([]int64{34}, params...), Kids: st}
	}
	dot := func(o *N, name string) *N { return nd(tDot, []int64{lookupName(name)}, o) }
	a, b, c := id(0), id(1), id(2)
	// 6723237: CR is a line terminator whatever follows it
	g.regressCase("x =\r1\n", prog(es(asg(id(3), one))))
	g.regressCase("x = 5\ry = 2\nx", prog(es(asg(id(3), numLit("5"))), es(asg(id(4), two)), es(id(3))))
	g.regressCase("a\rb\n", prog(es(a), es(b)))
	g.regressCase("a\r++\rb\n", prog(es(a), es(nd(tUn, []int64{7}, b))))
	g.regressCase("x = a +\rb\n;", prog(es(asg(id(3), nd(tBin, []int64{19}, a, b)))))
	g.regressCase("function f(){return\ra\n}", prog(fn(nil, &N{Tag: tReturn}, es(a))))
	g.regressCase("// c\rx = 1\n", prog(es(asg(id(3), one))))
	// e2af360: semicolon insertion after a property named by a reserved word
	for _, k := range []string{"if", "in", "new", "typeof", "var", "function", "return", "do", "while", "delete", "else", "case", "instanceof", "void", "with"} {
		g.regressCase("x = a."+k+"\ny = 2", prog(es(asg(id(3), dot(a, k))), es(asg(id(4), two))))
		g.regressCase("var x = a."+k, prog(nd(tVar, nil, decl(3, dot(a, k)))))
		g.regressCase("a."+k+"\n++b", prog(es(dot(a, k)), es(nd(tUn, []int64{7}, b))))
		g.regressCase("function f(){return a."+k+"\n}", prog(fn(nil, nd(tReturn, nil, dot(a, k)))))
	}
	// 8854305: a semicolon on a later line is the statement's terminator
	g.regressCase("var a = 1\n;", prog(nd(tVar, nil, decl(0, one))))
	g.regressCase("var a\r\n;b", prog(nd(tVar, nil, decl(0, nil)), es(b)))
	g.regressCase("debugger\n;", prog(&N{Tag: tDebugger}))
	g.regressCase("throw a\n;", prog(nd(tThrow, nil, a)))
	g.regressCase("function f(a){ if (a) return\n; else return 2 }", prog(fn([]int64{0}, nd(tIf, nil, a, &N{Tag: tReturn}, nd(tReturn, nil, two)))))
	g.regressCase("function f(a){ if (a) return a\u2028; else return 2 }", prog(fn([]int64{0}, nd(tIf, nil, a, nd(tReturn, nil, a), nd(tReturn, nil, two)))))
	g.regressCase("if (a) var b = 1\n; else c", prog(nd(tIf, nil, a, nd(tVar, nil, decl(1, one)), es(c))))
	g.regressCase("z: while (a) { if (b) break z\n; else continue z\n; }", prog(&N{Tag: tLabel, Vals: []int64{5}, Kids: []*N{nd(tWhile, nil, a,
		&N{Tag: tBlock, Kids: []*N{nd(tIf, nil, b, &N{Tag: tBreak, Vals: []int64{5}}, &N{Tag: tContinue, Vals: []int64{5}})}})}}))
	g.regressCase("var a = 1\n;;", prog(nd(tVar, nil, decl(0, one)), &N{Tag: tEmpty}))
	// 18fccf6: the middle operand of ?: allows `in` inside a for initialiser; the last one does not
	in := func(l, r *N) *N { return nd(tBin, []int64{opIn}, l, r) }
	g.regressCase("for (x = a ? b in c : y;;) ;", prog(nd(tFor, nil, asg(id(3), nd(tCond, nil, a, in(b, c), id(4))), none, none, &N{Tag: tEmpty})))
	g.regressCase("for (var x = a ? b in c : y, z = 1;;) ;", prog(nd(tFor, nil, nd(tVar, nil, decl(3, nd(tCond, nil, a, in(b, c), id(4))), decl(5, one)), none, none, &N{Tag: tEmpty})))
	g.regressCase("for (var x = a ? b in c : y in z) ;", prog(nd(tForIn, nil, decl(3, nd(tCond, nil, a, in(b, c), id(4))), id(5), &N{Tag: tEmpty})))
	g.regressCase("for (x = a ? b ? c in y : z : (b in c);;) ;", prog(nd(tFor, nil, asg(id(3), nd(tCond, nil, a, nd(tCond, nil, b, in(c, id(4)), id(5)), in(b, c))), none, none, &N{Tag: tEmpty})))
	// 11: a multi-line comment containing a line terminator acts as one (7.4)
	g.pinCase(11, "x = 1 /*\n*/ y = 2", &N{Tag: tProg, Kids: []*N{es(asg(id(3), one)), es(asg(id(4), two))}}, nil)
	// 12: a numeric property name stands for ToString of its value (11.1.5)
	key := func(s string) *N {
		return es(nd(tParen, nil, &N{Tag: tObj, Kids: []*N{{Tag: tProp, Vals: append([]int64{0}, unitsVals(s)...), Kids: []*N{one}}}}))
	}
	// 24f7b9d: the right operand of a relational operator inherits the no-in restriction (11.8 ...NoIn)
	for oi, op := range []string{"<", ">", "<=", ">=", "instanceof"} {
		o := []int64{int64([]int{10, 11, 12, 13, 14}[oi])}
		g.regressCase("for (var x = a "+op+" b in c) ;", prog(nd(tForIn, nil, decl(3, nd(tBin, o, a, b)), c, &N{Tag: tEmpty})))
		g.regressCase("for (var x = y ? a : a "+op+" b in c) ;", prog(nd(tForIn, nil, decl(3, nd(tCond, nil, id(4), a, nd(tBin, o, a, b))), c, &N{Tag: tEmpty})))
		g.regressCase("for (var x = a "+op+" (b in c) in y) ;", prog(nd(tForIn, nil, decl(3, nd(tBin, o, a, in(b, c))), id(4), &N{Tag: tEmpty})))
		g.regressCase("for (x = a "+op+" [b in c][0];;) ;", prog(nd(tFor, nil, asg(id(3), nd(tBin, o, a, nd(tIdx, nil, &N{Tag: tArr, Kids: []*N{in(b, c)}}, numLit("0")))), none, none, &N{Tag: tEmpty})))
		g.rejectCase("for (x = a " + op + " b in c;;) ;")
		g.rejectCase("for (var x = a " + op + " b in c;;) ;")
	}
	// e62d085: relational operators are left-associative, in every slot
	rels := []int{10, 11, 12, 13, 14, 15}
	for i, o1 := range rels {
		for j, o2 := range rels {
			o3 := rels[(i+j)%6]
			chain := func() *N {
				return nd(tBin, []int64{int64(o3)}, nd(tBin, []int64{int64(o2)}, nd(tBin, []int64{int64(o1)}, id(0), id(1)), id(2)), id(3))
			}
			g.exprCase(chain(), "relational-chain", (i+j)%3)
			g.progCase([]*N{nd(tIf, nil, chain(), es(chain())), nd(tVar, nil, decl(4, chain())), nd(tWhile, nil, nd(tCond, nil, chain(), chain(), chain()), &N{Tag: tEmpty})}, "relational-chain", (i+j)%2, 1+j%3)
			if o1 != 15 && o2 != 15 && o3 != 15 {
				g.progCase([]*N{nd(tForIn, nil, decl(3, chain()), id(4), &N{Tag: tEmpty}), nd(tFor, nil, asg(id(3), chain()), chain(), none, &N{Tag: tEmpty})}, "relational-chain", 0, 1)
			}
		}
	}
	g.regressCase("for (x = a < b, y = a > b;;) ;", prog(nd(tFor, nil, nd(tBin, []int64{0}, asg(id(3), nd(tBin, []int64{10}, a, b)), asg(id(4), nd(tBin, []int64{11}, a, b))), none, none, &N{Tag: tEmpty})))
	// 14: the flags of a regular expression literal are part of the token; an identifier on the next line is not
	g.pinCase(14, "var r = /x/\ng = 1", &N{Tag: tProg, Kids: []*N{
		nd(tVar, nil, &N{Tag: tDecl, Vals: []int64{lookupName("r")}, Kids: []*N{{Tag: tRegex, Vals: []int64{1, 'x'}}}}), es(asg(id(35), one))}}, nil)
	g.pinCase(12, "({0x10: 1})", strip(&N{Tag: tProg, Kids: []*N{key("16")}}), strip(&N{Tag: tProg, Kids: []*N{key("0x10")}}))
}

// every ordered pair of statement kinds next to each other, under each way of ending a statement
func (g *gen) statementPairs() {
	c := id(2)
	samples := sampleStatements
	n := len(samples())
	for i := 0; i < n; i++ {
		for j := 0; j < n; j++ {
			for style := 1; style <= 3; style++ {
				if g.env.Tier != "thorough" && style != 1+(i+j+int(g.env.Seed%3))%3 {
					continue // quick tier: one style per pair, rotating with the seed
				}
				x, y := samples()[i], samples()[j]
				// context: function f(){ z: while (c) { X Y } }
				body := nd(tWhile, nil, c, &N{Tag: tBlock, Kids: []*N{x, y}})
				prog := []*N{{Tag: tFunDecl, Vals: []int64{34}, Kids: []*N{{Tag: tLabel, Vals: []int64{5}, Kids: []*N{body}}}}}
				g.progCase(prog, "statement-pair", g.r.Intn(2), style)
			}
		}
	}
	// function declarations and directive-like strings as source elements
	a := id(0)
	for style := 1; style <= 3; style++ {
		for _, x := range samples() {
			if x.Tag == tReturn || x.Tag == tBreak || x.Tag == tContinue {
				continue // only valid inside a function / loop
			}
			f := &N{Tag: tFunDecl, Vals: []int64{35, 0}, Kids: []*N{nd(tReturn, nil, a)}}
			g.progCase([]*N{x, f, samples()[0]}, "statement-pair", 1, style)
			g.progCase([]*N{f, x}, "statement-pair", 1, style)
		}
	}
}

// one specimen of every statement form (fresh nodes on every call)
func sampleStatements() []*N {
	a, b, c := id(0), id(1), id(2)
	{
		return []*N{
			es(asg(a, b)),
			es(nd(tCall, nil, id(34), a)),
			es(nd(tPost, []int64{1}, a)),
			es(nd(tUn, []int64{7}, b)),
			es(nd(tUn, []int64{8}, b)),
			es(nd(tParen, nil, nd(tBin, []int64{0}, a, b))),
			es(&N{Tag: tArr, Kids: []*N{a, b}}),
			es(nd(tUn, []int64{1}, a)),
			es(nd(tUn, []int64{0}, a)),
			es(nd(tCall, nil, nd(tDot, []int64{0}, &N{Tag: tRegex, Vals: []int64{1, 'x', 'g'}, Text: "/x/g"}), a)),
			es(&N{Tag: tStr, Vals: []int64{'s'}, Text: "'s'"}),
			es(nd(tUn, []int64{2}, a)),
			es(&N{Tag: tThis}),
			es(nd(tNewNoArgs, nil, a)),
			es(nd(tIdx, nil, a, b)),
			es(&N{Tag: tObj}),
			es(&N{Tag: tFun, Vals: []int64{-1}}),
			nd(tVar, nil, &N{Tag: tDecl, Vals: []int64{0}, Kids: []*N{b}}),
			nd(tVar, nil, &N{Tag: tDecl, Vals: []int64{0}}, &N{Tag: tDecl, Vals: []int64{1}}),
			{Tag: tBlock, Kids: []*N{es(a)}},
			{Tag: tBlock},
			{Tag: tEmpty},
			nd(tIf, nil, a, es(b)),
			nd(tIf, nil, a, es(b), es(c)),
			nd(tDo, nil, es(a), b),
			nd(tDo, nil, &N{Tag: tBlock}, b),
			nd(tWhile, nil, a, es(b)),
			nd(tFor, nil, none, none, none, &N{Tag: tEmpty}),
			nd(tForIn, nil, a, b, es(c)),
			{Tag: tReturn},
			nd(tReturn, nil, a),
			nd(tThrow, nil, a),
			{Tag: tBreak, Vals: []int64{-1}},
			{Tag: tContinue, Vals: []int64{-1}},
			{Tag: tBreak, Vals: []int64{5}},
			{Tag: tContinue, Vals: []int64{5}},
			{Tag: tDebugger},
			nd(tTry, nil, &N{Tag: tBlock}, none, &N{Tag: tBlock}),
			nd(tSwitch, nil, a, &N{Tag: tCase, Kids: []*N{b, es(c)}}, &N{Tag: tDefault, Kids: []*N{es(a)}}),
			{Tag: tLabel, Vals: []int64{6}, Kids: []*N{es(a)}},
			nd(tWith, nil, a, es(b)),
		}
	}
}
