// c03: the tree must not depend on parse history: every source is parsed with a nil file.FileSet and as the
// 1st, 2nd and a later file of one shared file.FileSet (bases > 1); all must give the same tree, the same
// statement positions relative to the file base, and none may panic.
package main

import (
	"fmt"

	"github.com/robertkrimen/otto/ast"
	"github.com/robertkrimen/otto/file"
	"github.com/robertkrimen/otto/parser"
)

type parsed struct {
	prog  *ast.Program
	class string // "ok", "error", "panic"
	err   string
	tree  *N
	pos   []int
}

func parseOne(fs *file.FileSet, name, src string, base int) (out parsed) {
	func() {
		defer func() {
			if r := recover(); r != nil {
				out.class, out.err = "panic", fmt.Sprintf("PANIC %v", r)
			}
		}()
		prog, err := parser.ParseFile(fs, name, src, 0)
		if err != nil {
			out.class, out.err = "error", err.Error()
			return
		}
		out.class, out.prog = "ok", prog
	}()
	if out.class != "ok" {
		return
	}
	func() {
		defer func() {
			if r := recover(); r != nil {
				out.class, out.err = "panic", fmt.Sprintf("PANIC while reading the tree: %v", r)
			}
		}()
		out.tree = &N{Tag: tProg, Kids: fromStmts(out.prog.Body)}
	}()
	for _, s := range out.prog.Body {
		func() {
			defer func() {
				if recover() != nil {
					out.pos = append(out.pos, -1) // Idx0 of this node is itself broken (property C04), not compared
				}
			}()
			out.pos = append(out.pos, int(s.Idx0())-base)
		}()
	}
	return
}

// the program parsed with a nil FileSet, its error text, and a description of any disagreement between the ways
func parseWays(src string) (prog *ast.Program, tree *N, errText, mismatch string) {
	ref := parseOne(nil, "", src, 1)
	fs := &file.FileSet{}
	for i := 1; i <= 3; i++ {
		if i == 3 {
			fs.AddFile("filler.js", "/* a file of another length */ var filler = 1;\n")
		}
		base := 1
		// the base ParseFile will give this file: 1 + sum(len(previous)+1); recomputed by adding a probe set in step
		probe := *fs
		base = (&probe).AddFile("probe", "")
		got := parseOne(fs, fmt.Sprintf("file%d.js", i), src, base)
		switch {
		case got.class != ref.class:
			mismatch = fmt.Sprintf("as file %d of a FileSet (base %d): %s %s, with a nil FileSet: %s %s", i, base, got.class, got.err, ref.class, ref.err)
		case ref.class == "ok" && !equalTree(got.tree, ref.tree):
			mismatch = fmt.Sprintf("as file %d of a FileSet (base %d) the tree is %s", i, base, got.tree.coq())
		case ref.class == "ok" && fmt.Sprint(got.pos) != fmt.Sprint(ref.pos):
			mismatch = fmt.Sprintf("as file %d of a FileSet (base %d) the statement offsets are %v, with a nil FileSet %v", i, base, got.pos, ref.pos)
		}
		if mismatch != "" {
			break
		}
	}
	return ref.prog, ref.tree, ref.err, mismatch
}

// the disagreement found by the last parse, shown in the case's replay line
var historyNote string

func historyBad(mismatch string) *N {
	historyNote = mismatch
	return nd(tBad, []int64{300})
}

func (g *gen) add(coq, txt, bucket string, nontrivial bool) {
	if historyNote != "" {
		txt += " ; PARSE HISTORY DEPENDENCE: " + historyNote
		historyNote = ""
	}
	g.env.Add(coq, txt, bucket, nontrivial)
}
