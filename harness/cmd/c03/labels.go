// c03: label stacks with break / continue from every nesting depth; object-literal property names.
package main

import "fmt"

// ---------------------------------------------------------------- labelled statements (12.12, 12.7, 12.8)

type labForm struct {
	name string
	loop bool
	mk   func(body *N) *N // the statement that carries the labels, with [body] somewhere inside it
}

type labWrap struct {
	name string
	mk   func(j *N) *N // a statement that contains the statement j
}

func labelGrid(g *gen) {
	c, o, x := id(2), id(3), id(4)
	blk := func(s ...*N) *N { return &N{Tag: tBlock, Kids: s} }
	empty := func() *N { return &N{Tag: tEmpty} }
	forms := []labForm{
		{"while", true, func(b *N) *N { return nd(tWhile, nil, c, b) }},
		{"do", true, func(b *N) *N { return nd(tDo, nil, b, c) }},
		{"for", true, func(b *N) *N { return nd(tFor, nil, none, none, none, b) }},
		{"for-var", true, func(b *N) *N {
			return nd(tFor, nil, nd(tVar, nil, &N{Tag: tDecl, Vals: []int64{3}}), c, nd(tPost, []int64{1}, x), b)
		}},
		{"for-in", true, func(b *N) *N { return nd(tForIn, nil, x, o, b) }},
		{"for-in-var", true, func(b *N) *N { return nd(tForIn, nil, &N{Tag: tDecl, Vals: []int64{4}}, o, b) }},
		{"block", false, func(b *N) *N { return blk(b) }},
		{"if", false, func(b *N) *N { return nd(tIf, nil, c, b) }},
		{"if-else", false, func(b *N) *N { return nd(tIf, nil, c, empty(), b) }},
		{"switch", false, func(b *N) *N { return nd(tSwitch, nil, c, &N{Tag: tCase, Kids: []*N{numLit("1"), b}}) }},
		{"try", false, func(b *N) *N { return nd(tTry, nil, blk(b), none, blk()) }},
		{"catch", false, func(b *N) *N {
			return nd(tTry, nil, blk(), &N{Tag: tCatch, Vals: []int64{3}, Kids: []*N{blk(b)}}, none)
		}},
		{"finally", false, func(b *N) *N { return nd(tTry, nil, blk(), none, blk(b)) }},
		{"with", false, func(b *N) *N { return nd(tWith, nil, o, b) }},
		{"labelled-block", false, func(b *N) *N { return &N{Tag: tLabel, Vals: []int64{6}, Kids: []*N{blk(b)}} }},
	}
	wraps := []labWrap{
		{"direct", func(j *N) *N { return j }},
		{"block", func(j *N) *N { return blk(es(x), j) }},
		{"if", func(j *N) *N { return nd(tIf, nil, c, j) }},
		{"else", func(j *N) *N { return nd(tIf, nil, c, es(x), j) }},
		{"case", func(j *N) *N { return nd(tSwitch, nil, x, &N{Tag: tCase, Kids: []*N{numLit("1"), j}}) }},
		{"default", func(j *N) *N {
			return nd(tSwitch, nil, x, &N{Tag: tCase, Kids: []*N{numLit("1")}}, &N{Tag: tDefault, Kids: []*N{es(x), j}})
		}},
		{"try", func(j *N) *N { return nd(tTry, nil, blk(j), none, blk()) }},
		{"catch", func(j *N) *N {
			return nd(tTry, nil, blk(), &N{Tag: tCatch, Vals: []int64{3}, Kids: []*N{blk(j)}}, none)
		}},
		{"finally", func(j *N) *N {
			return nd(tTry, nil, blk(), &N{Tag: tCatch, Vals: []int64{3}, Kids: []*N{blk()}}, blk(j))
		}},
		{"while", func(j *N) *N { return nd(tWhile, nil, x, j) }},
		{"for-block", func(j *N) *N { return nd(tFor, nil, none, none, none, blk(j)) }},
		{"do", func(j *N) *N { return nd(tDo, nil, j, x) }},
		{"for-in", func(j *N) *N { return nd(tForIn, nil, x, o, j) }},
		{"labelled-block", func(j *N) *N { return &N{Tag: tLabel, Vals: []int64{5}, Kids: []*N{blk(j)}} }},
		{"labelled-loop", func(j *N) *N { return &N{Tag: tLabel, Vals: []int64{8}, Kids: []*N{nd(tWhile, nil, x, j)}} }},
		{"with", func(j *N) *N { return nd(tWith, nil, o, j) }},
	}
	// nesting paths: nothing, every single wrapper, every ordered pair
	var paths [][]int
	paths = append(paths, nil)
	for i := range wraps {
		paths = append(paths, []int{i})
	}
	for i := range wraps {
		for j := range wraps {
			if i != 0 && j != 0 && i != j {
				paths = append(paths, []int{i, j})
			}
		}
	}
	labels := []int64{0, 1, 7} // a, b, _
	k := 0
	for fi, f := range forms {
		for depth := 1; depth <= 3; depth++ {
			for pi, path := range paths {
				for li := 0; li < depth; li++ {
					for kind := 0; kind < 2; kind++ {
						if kind == 1 && !f.loop {
							continue // continue L needs L to label an iteration statement (12.7)
						}
						k++
						if g.env.Tier != "thorough" {
							switch {
							case len(path) == 2 && (fi+depth+pi+li+kind+int(g.env.Seed%30))%30 != 0:
								continue // quick tier: a thirtieth of the two-level paths, rotating with the seed
							case len(path) == 1 && (fi+depth+pi+li+kind+int(g.env.Seed%2))%2 != 0:
								continue // and half of the one-level paths
							}
						}
						tag := tBreak
						if kind == 1 {
							tag = tContinue
						}
						j := &N{Tag: tag, Vals: []int64{labels[li]}}
						desc := ""
						for q := len(path) - 1; q >= 0; q-- {
							j = wraps[path[q]].mk(j)
							desc = wraps[path[q]].name + "/" + desc
						}
						s := f.mk(j)
						for q := depth - 1; q >= 0; q-- {
							s = &N{Tag: tLabel, Vals: []int64{labels[q]}, Kids: []*N{s}}
						}
						prog := []*N{s}
						if k%3 == 0 { // inside a function: labels do not cross it, the stack starts afresh
							prog = []*N{{Tag: tFunDecl, Vals: []int64{34}, Kids: []*N{s, nd(tReturn, nil, x)}}}
						}
						g.progCase(prog, "label-grid", k%2, 1+k%3)
					}
				}
			}
		}
	}
	// label stacks on statements without a body, and the same label reused in sequence and in a nested function
	for depth := 1; depth <= 3; depth++ {
		for _, mk := range []func() *N{empty, func() *N { return es(asg(x, c)) }, func() *N { return nd(tVar, nil, &N{Tag: tDecl, Vals: []int64{3}}) },
			func() *N { return &N{Tag: tDebugger} }, func() *N { return nd(tThrow, nil, x) }, func() *N { return blk() }} {
			s := mk()
			for q := depth - 1; q >= 0; q-- {
				s = &N{Tag: tLabel, Vals: []int64{labels[q]}, Kids: []*N{s}}
			}
			s2 := &N{Tag: tLabel, Vals: []int64{0}, Kids: []*N{nd(tWhile, nil, c, &N{Tag: tContinue, Vals: []int64{0}})}}
			inner := &N{Tag: tFun, Vals: []int64{-1}, Kids: []*N{{Tag: tLabel, Vals: []int64{0}, Kids: []*N{nd(tDo, nil, &N{Tag: tBreak, Vals: []int64{0}}, c)}}}}
			s3 := &N{Tag: tLabel, Vals: []int64{0}, Kids: []*N{nd(tWhile, nil, c, blk(es(inner), &N{Tag: tContinue, Vals: []int64{0}}))}}
			g.progCase([]*N{s, s2, s3}, "label-grid", depth%2, depth)
		}
	}
}

// ---------------------------------------------------------------- object-literal property names (11.1.5)

var reservedWords = []string{"break", "case", "catch", "continue", "debugger", "default", "delete", "do", "else", "finally", "for", "function", "if", "in",
	"instanceof", "new", "return", "switch", "this", "throw", "try", "typeof", "var", "void", "while", "with",
	"class", "const", "enum", "export", "extends", "import", "super",
	"implements", "interface", "let", "package", "private", "protected", "public", "static", "yield",
	"null", "true", "false",
	"get", "set", "of", "async", "await", "undefined", "NaN", "Infinity", "arguments", "eval", "constructor", "prototype", "__proto__", "a", "$", "_x", "é"}

type propKey struct {
	text  string // as written
	value string // the property name it denotes
}

func propertyNames(g *gen) {
	var keys []propKey
	for _, w := range reservedWords {
		keys = append(keys, propKey{w, w})
	}
	for _, w := range []string{"if", "get", "set", "", "a b", "0x10", "default"} {
		keys = append(keys, propKey{`"` + w + `"`, w}, propKey{`'` + w + `'`, w})
	}
	keys = append(keys, propKey{`"\x67et"`, "get"}, propKey{`'set'`, "set"}, propKey{"0", "0"}, propKey{"1", "1"}, propKey{"42", "42"}, propKey{"1000000", "1000000"})
	x, v := id(3), int64(1)
	prop := func(kind int64, k propKey, val *N) *N {
		return &N{Tag: tProp, Vals: append([]int64{kind}, unitsVals(k.value)...), Text: k.text, Kids: []*N{val}}
	}
	getter := func() *N { return &N{Tag: tFun, Vals: []int64{-1}, Kids: []*N{nd(tReturn, nil, numLit("1"))}} }
	setter := func() *N { return &N{Tag: tFun, Vals: []int64{-1, v}, Kids: []*N{es(asg(x, id(1)))}} }
	fexpr := func() *N { return &N{Tag: tFun, Vals: []int64{-1}} }
	obj := func(p ...*N) *N { return &N{Tag: tObj, Kids: p} }
	n := len(keys)
	for i, k := range keys {
		k2, k3 := keys[(i+1)%n], keys[(i+7)%n]
		style := 1 + i%3
		g.progCase([]*N{es(asg(x, obj(prop(0, k, numLit("1")))))}, "property-name", i%2, style)
		g.progCase([]*N{es(asg(x, obj(prop(1, k, getter()))))}, "property-name", i%2, style)
		g.progCase([]*N{es(asg(x, obj(prop(2, k, setter()))))}, "property-name", i%2, style)
		g.progCase([]*N{es(asg(x, obj(prop(0, k, fexpr()))))}, "property-name", i%2, style)
		// a data property, then an accessor pair with another name, then a data property again; statement-initial
		g.progCase([]*N{es(obj(prop(0, k, id(0)), prop(1, k2, getter()), prop(2, k2, setter()), prop(0, k3, obj(prop(1, k, getter())))))}, "property-name", 1, style)
		// the accessor keywords themselves as plain names next to accessors with that name
		for _, gs := range []propKey{{"get", "get"}, {"set", "set"}} {
			if i%6 == 0 {
				g.progCase([]*N{nd(tVar, nil, &N{Tag: tDecl, Vals: []int64{3}, Kids: []*N{obj(prop(0, gs, numLit("1")), prop(1, k, getter()), prop(0, k3, fexpr()))}})}, "property-name", 1, style)
				g.progCase([]*N{nd(tVar, nil, &N{Tag: tDecl, Vals: []int64{3}, Kids: []*N{obj(prop(1, gs, getter()), prop(2, gs, setter()), prop(0, k, numLit("2")))}})}, "property-name", 1, style)
			}
		}
	}
	_ = fmt.Sprint
}
