// c03: token adjacency without white space, regular-expression character classes, parser context flags.
package main

import (
	"fmt"

	. "ottoh/lib"
)

// ---------------------------------------------------------------- (a) token adjacency

// every legal run  [postfix] binary-operator [prefix [prefix]]  and  assignment-operator prefix, ?: with prefixes,
// binary operator before a regular expression: rendered with no white space except where two tokens would fuse
// (density 0), and once more with seeded white space
func (g *gen) adjacencyGrid() {
	a, b := func() *N { return id(0) }, func() *N { return id(1) }
	k := 0
	emit := func(n *N, bucket string) {
		k++
		g.exprCase(n, bucket, 0)
		if k%10 == 0 {
			g.exprCase(n, bucket, 2)
		}
	}
	operand := func(u1, u2 int) *N { // u = -1: none
		n := b()
		if u2 >= 0 {
			n = nd(tUn, []int64{int64(u2)}, n)
		}
		if u1 >= 0 {
			n = nd(tUn, []int64{int64(u1)}, n)
		}
		return n
	}
	for o := range binops {
		for p := -1; p < 2; p++ { // -1 none, 0 --, 1 ++
			left := a()
			if p >= 0 {
				left = nd(tPost, []int64{int64(p)}, left)
			}
			emit(nd(tBin, []int64{int64(o)}, left, b()), "adjacency")
			for u1 := range unops {
				left := a()
				if p >= 0 {
					left = nd(tPost, []int64{int64(p)}, left)
				}
				emit(nd(tBin, []int64{int64(o)}, left, operand(u1, -1)), "adjacency")
				if u1 >= 7 {
					continue // ++ / -- need a Reference operand
				}
				for u2 := range unops {
					// quick tier: every triple of tokens that could fuse (+ - ! before + - ++ --), with and without a
					// postfix operator in front; an eighth of the other triples, without postfix operator
					fusing := u1 <= 2 && (u2 <= 1 || u2 >= 7)
					if g.env.Tier != "thorough" && !fusing && (p >= 0 || (o+u1+u2+int(g.env.Seed%8))%8 != 0) {
						continue
					}
					left := a()
					if p >= 0 {
						left = nd(tPost, []int64{int64(p)}, left)
					}
					emit(nd(tBin, []int64{int64(o)}, left, operand(u1, u2)), "adjacency")
					if fusing && p < 0 && binops[o].lvl >= 9 && binops[o].lvl <= 11 { // < > << + - ...: the same run in other surroundings
						run := func() *N { return nd(tBin, []int64{int64(o)}, a(), operand(u1, u2)) }
						emit(asg(id(3), run()), "adjacency")
						emit(nd(tCall, nil, id(34), run(), run()), "adjacency")
						emit(nd(tCond, nil, run(), nd(tDot, []int64{2}, nd(tParen, nil, run())), nd(tIdx, nil, a(), run())), "adjacency")
					}
				}
			}
		}
		// a binary operator directly before a regular expression literal, and after one
		for _, re := range []string{"x", "=x", "[/]"} {
			lit := func() *N { return rxLit(re, "g") }
			emit(nd(tBin, []int64{int64(o)}, a(), lit()), "adjacency-regexp")
			emit(nd(tBin, []int64{int64(o)}, lit(), b()), "adjacency-regexp")
			emit(nd(tBin, []int64{int64(o)}, nd(tDot, []int64{0}, lit()), nd(tBin, []int64{22}, a(), lit())), "adjacency-regexp")
		}
	}
	for o := range asgops {
		for u1 := range unops {
			emit(nd(tAsg, []int64{int64(o)}, a(), operand(u1, -1)), "adjacency")
			if u1 < 7 {
				emit(nd(tAsg, []int64{int64(o)}, a(), operand(u1, 8)), "adjacency")
				emit(nd(tAsg, []int64{int64(o)}, a(), operand(u1, 1)), "adjacency")
			}
		}
		emit(nd(tAsg, []int64{int64(o)}, a(), rxLit("=", "")), "adjacency-regexp")
	}
	for u1 := range unops {
		for u2 := range unops {
			emit(nd(tCond, nil, operand(u1, -1), operand(u2, -1), operand(u1, -1)), "adjacency")
			emit(nd(tCall, nil, id(34), operand(u1, -1), operand(u2, -1)), "adjacency")
			emit(nd(tIdx, nil, nd(tPost, []int64{1}, a()), operand(u1, -1)), "adjacency")
			if u1 < 7 {
				emit(nd(tBin, []int64{0}, operand(u1, u2), nd(tPost, []int64{0}, a())), "adjacency")
			}
		}
	}
}

func rxLit(p, f string) *N {
	pu, fu := Units(p), Units(f)
	vals := []int64{int64(len(pu))}
	for _, u := range pu {
		vals = append(vals, int64(u))
	}
	for _, u := range fu {
		vals = append(vals, int64(u))
	}
	return &N{Tag: tRegex, Vals: vals, Text: "/" + p + "/" + f}
}

// ---------------------------------------------------------------- (b) character classes of regular expression literals

var classPatterns = []string{`[[]`, `[[/]`, `[/[]`, `[[][/]`, `[\]]`, `[\[]`, `[^\]/]`, `[^[]`, `[[]x`, `[[]+`, `[[/]*b`, `[-[\]{}()*+?.,\\^$|#\s]`,
	`[/[/]`, `[\/[]`, `(?:[[])`, `[[](a)[/]`, `[/]`, `[//]`, `a[/]b[[]c`, `[\\]`, `[\\\]]`, `[a-z[]`, `\[[/]`, `[[]\]`, `\/[/[]\/`, `[(]`, `[)/(]`}

func (g *gen) regexClasses() {
	a, b := func() *N { return id(0) }, func() *N { return id(1) }
	for i, p := range classPatterns {
		for _, f := range []string{"", "g", "gim"} {
			lit := func() *N { return rxLit(p, f) }
			d := (i + len(f)) % 3
			g.exprCase(asg(id(3), lit()), "regexp-class", d)
			g.exprCase(asg(id(3), nd(tBin, []int64{22}, lit(), numLit("2"))), "regexp-class", d)
			g.exprCase(asg(id(3), nd(tBin, []int64{22}, nd(tBin, []int64{22}, a(), lit()), b())), "regexp-class", 0)
			g.exprCase(asg(id(3), nd(tDot, []int64{lookupName("length")}, nd(tDot, []int64{0}, lit()))), "regexp-class", d)
			g.exprCase(nd(tBin, []int64{22}, nd(tCall, nil, nd(tDot, []int64{1}, lit()), a()), nd(tIdx, nil, lit(), lit())), "regexp-class", d)
			g.exprCase(nd(tCall, nil, id(34), lit(), nd(tBin, []int64{22}, a(), b()), lit()), "regexp-class", 0)
			g.progCase([]*N{es(asg(id(3), lit())), es(nd(tBin, []int64{22}, a(), b())), nd(tVar, nil, &N{Tag: tDecl, Vals: []int64{4}, Kids: []*N{&N{Tag: tArr, Kids: []*N{lit(), nd(tBin, []int64{22}, a(), b())}}}})},
				"regexp-class", d, 1+i%3)
		}
	}
}

// ---------------------------------------------------------------- (c) context flags: a jump after every inner construct has closed

type ctxKind struct {
	name string
	mk   func(level int, body []*N) *N
	in   func(level int, c ctx) ctx
}

func (g *gen) contextFlags() {
	c, x, o := id(2), id(3), id(4)
	blk := func(s []*N) *N { return &N{Tag: tBlock, Kids: s} }
	lab := func(level int) int64 { return []int64{0, 1, 7, 5}[level] }
	loopIn := func(_ int, k ctx) ctx { k.inLoop = true; return k }
	kinds := []ctxKind{
		{"switch", func(_ int, b []*N) *N {
			return nd(tSwitch, nil, x, &N{Tag: tCase, Kids: append([]*N{numLit("1")}, b...)})
		},
			func(_ int, k ctx) ctx { k.inSwitch = true; return k }},
		{"switch-default", func(_ int, b []*N) *N {
			return nd(tSwitch, nil, x, &N{Tag: tCase, Kids: []*N{numLit("1")}}, &N{Tag: tDefault, Kids: b})
		}, func(_ int, k ctx) ctx { k.inSwitch = true; return k }},
		{"while", func(_ int, b []*N) *N { return nd(tWhile, nil, c, blk(b)) }, loopIn},
		{"do", func(_ int, b []*N) *N { return nd(tDo, nil, blk(b), c) }, loopIn},
		{"for", func(_ int, b []*N) *N { return nd(tFor, nil, none, none, none, blk(b)) }, loopIn},
		{"for-in", func(_ int, b []*N) *N { return nd(tForIn, nil, x, o, blk(b)) }, loopIn},
		{"function", func(_ int, b []*N) *N { return es(asg(x, &N{Tag: tFun, Vals: []int64{-1}, Kids: b})) },
			func(_ int, _ ctx) ctx { return ctx{inFunction: true} }},
		{"labelled-block", func(l int, b []*N) *N { return &N{Tag: tLabel, Vals: []int64{lab(l)}, Kids: []*N{blk(b)}} },
			func(l int, k ctx) ctx { k.labels = append(append([]int64{}, k.labels...), lab(l)); return k }},
		{"labelled-loop", func(l int, b []*N) *N {
			return &N{Tag: tLabel, Vals: []int64{lab(l)}, Kids: []*N{nd(tWhile, nil, c, blk(b))}}
		},
			func(l int, k ctx) ctx {
				k.inLoop = true
				k.labels = append(append([]int64{}, k.labels...), lab(l))
				k.loopLabels = append(append([]int64{}, k.loopLabels...), lab(l))
				return k
			}},
		{"try", func(_ int, b []*N) *N { return nd(tTry, nil, blk(b), none, blk(nil)) }, func(_ int, k ctx) ctx { return k }},
		{"finally", func(_ int, b []*N) *N { return nd(tTry, nil, blk(nil), none, blk(b)) }, func(_ int, k ctx) ctx { return k }},
		{"if", func(_ int, b []*N) *N { return nd(tIf, nil, c, blk(b)) }, func(_ int, k ctx) ctx { return k }},
	}
	jumps := func(k ctx, guarded bool) []*N {
		var js []*N
		add := func(j *N) {
			if guarded {
				j = nd(tIf, nil, c, j)
			}
			js = append(js, j)
		}
		if k.inLoop || k.inSwitch {
			add(&N{Tag: tBreak, Vals: []int64{-1}})
		}
		if k.inLoop {
			add(&N{Tag: tContinue, Vals: []int64{-1}})
		}
		if k.inFunction {
			add(nd(tReturn, nil, x))
		}
		for _, l := range k.labels {
			add(&N{Tag: tBreak, Vals: []int64{l}})
		}
		for _, l := range k.loopLabels {
			add(&N{Tag: tContinue, Vals: []int64{l}})
		}
		return js
	}
	var build func(chain []int, level int, k ctx, guarded bool) *N
	build = func(chain []int, level int, k ctx, guarded bool) *N {
		kd := kinds[chain[level]]
		inner := kd.in(level, k)
		body := []*N{es(x)}
		if level+1 < len(chain) {
			body = append(body, build(chain, level+1, inner, guarded))
		}
		js := jumps(inner, guarded)
		if !guarded && len(js) > 0 {
			js = js[(len(chain)+level)%len(js):][:1] // a single bare jump ends the body
		}
		body = append(body, js...)
		return kd.mk(level, body)
	}
	n := len(kinds)
	k := 0
	var rec func(chain []int)
	rec = func(chain []int) {
		if len(chain) >= 2 {
			k++
			if len(chain) == 2 || g.env.Tier == "thorough" || (k+int(g.env.Seed%12))%12 == 0 {
				for _, guarded := range []bool{true, false} {
					stmts := []*N{build(chain, 0, ctx{}, guarded), es(x)}
					if k%4 == 0 { // the same nest inside a function and after a sibling switch / loop that has closed
						stmts = []*N{{Tag: tFunDecl, Vals: []int64{34}, Kids: []*N{nd(tSwitch, nil, x), nd(tWhile, nil, c, &N{Tag: tEmpty}), build(chain, 0, ctx{inFunction: true}, guarded), nd(tReturn, nil, x)}}}
					}
					g.progCase(stmts, fmt.Sprintf("context-flags-%d", len(chain)), k%2, 1+k%3)
				}
			}
		}
		if len(chain) == 3 {
			return
		}
		for i := 0; i < n; i++ {
			rec(append(append([]int{}, chain...), i))
		}
	}
	rec(nil)
	// allowIn is restored after a function / bracket inside a for initialiser has closed
	a, b := id(0), id(1)
	in := func(l, r *N) *N { return nd(tBin, []int64{opIn}, l, r) }
	fn := func() *N { return &N{Tag: tFun, Vals: []int64{-1}, Kids: []*N{nd(tReturn, nil, in(a, b))}} }
	dcl := func(ix int64, e *N) *N { return &N{Tag: tDecl, Vals: []int64{ix}, Kids: []*N{e}} }
	for d := 0; d < 2; d++ {
		g.progCase([]*N{nd(tForIn, nil, dcl(3, fn()), o, &N{Tag: tEmpty})}, "context-flags-in", d, 1)
		g.progCase([]*N{nd(tForIn, nil, dcl(3, nd(tBin, []int64{19}, fn(), nd(tIdx, nil, a, in(a, b)))), o, &N{Tag: tEmpty})}, "context-flags-in", d, 1)
		g.progCase([]*N{nd(tFor, nil, nd(tVar, nil, dcl(3, fn()), dcl(4, nd(tCall, nil, a, in(a, b)))), in(a, b), in(b, a), es(in(a, b)))}, "context-flags-in", d, 2)
		g.progCase([]*N{nd(tFor, nil, asg(x, nd(tBin, []int64{0}, &N{Tag: tArr, Kids: []*N{in(a, b)}}, &N{Tag: tObj, Kids: []*N{{Tag: tProp, Vals: append([]int64{0}, unitsVals("p")...), Text: "p", Kids: []*N{in(a, b)}}}})), none, none,
			nd(tForIn, nil, x, in(a, b), &N{Tag: tEmpty}))}, "context-flags-in", d, 3)
	}
}
