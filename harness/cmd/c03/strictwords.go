// c03: identifier classification does not depend on parser state that lags the scanner: the words that are
// reserved only in strict mode code (7.6.1.2) are ordinary identifiers in non-strict code, wherever a strict
// function ends.
package main

var strictOnlyWords = []string{"implements", "interface", "let", "package", "private", "protected", "public", "static", "yield"}

func (g *gen) strictWords() {
	a, x := id(0), id(3)
	one := numLit("1")
	str := func(text string, val string) *N { return &N{Tag: tStr, Vals: unitsVals(val), Text: text} }
	directive := func(k int) *N {
		return es(str([]string{`'use strict'`, `"use strict"`}[k%2], "use strict"))
	}
	blk := func(s ...*N) *N { return &N{Tag: tBlock, Kids: s} }
	// what precedes the word: constructs whose last token is the closing brace (or nearly) of a strict function
	type pre struct {
		name string
		mk   func(k int) []*N
	}
	pres := []pre{
		{"declaration", func(k int) []*N { return []*N{{Tag: tFunDecl, Vals: []int64{34}, Kids: []*N{directive(k)}}} }},
		{"declaration-with-body", func(k int) []*N {
			return []*N{{Tag: tFunDecl, Vals: []int64{34, 0, 1}, Kids: []*N{directive(k), nd(tReturn, nil, nd(tBin, []int64{21}, a, id(1)))}}}
		}},
		{"two-directives", func(k int) []*N {
			return []*N{{Tag: tFunDecl, Vals: []int64{34}, Kids: []*N{es(str(`'other'`, "other")), directive(k), es(x)}}}
		}},
		{"expression", func(k int) []*N { return []*N{es(asg(x, &N{Tag: tFun, Vals: []int64{-1}, Kids: []*N{directive(k)}}))} }},
		{"named-expression", func(k int) []*N {
			return []*N{nd(tVar, nil, &N{Tag: tDecl, Vals: []int64{3}, Kids: []*N{{Tag: tFun, Vals: []int64{35}, Kids: []*N{directive(k), nd(tReturn, nil, one)}}}})}
		}},
		{"accessor", func(k int) []*N {
			return []*N{es(asg(x, &N{Tag: tObj, Kids: []*N{{Tag: tProp, Vals: append([]int64{1}, unitsVals("p")...), Text: "p",
				Kids: []*N{{Tag: tFun, Vals: []int64{-1}, Kids: []*N{directive(k), nd(tReturn, nil, one)}}}}}}))}
		}},
		{"nested-last", func(k int) []*N { // the strict function is the last thing in a non-strict one
			return []*N{{Tag: tFunDecl, Vals: []int64{34}, Kids: []*N{{Tag: tFunDecl, Vals: []int64{35}, Kids: []*N{directive(k)}}}}}
		}},
		{"in-block", func(k int) []*N {
			return []*N{blk(es(asg(x, &N{Tag: tFun, Vals: []int64{-1}, Kids: []*N{directive(k)}})))}
		}},
		{"in-if", func(k int) []*N {
			return []*N{nd(tIf, nil, a, es(nd(tCall, nil, nd(tParen, nil, &N{Tag: tFun, Vals: []int64{-1}, Kids: []*N{directive(k)}}))))}
		}},
		{"not-a-directive", func(k int) []*N { // the string is not in the prologue / not the exact text: nothing is strict
			return []*N{{Tag: tFunDecl, Vals: []int64{34}, Kids: []*N{es(x), directive(k)}},
				{Tag: tFunDecl, Vals: []int64{35}, Kids: []*N{es(str(`'use\x20strict'`, "use strict")), es(str(`'use strict '`, "use strict "))}}}
		}},
		{"non-strict", func(k int) []*N { return []*N{{Tag: tFunDecl, Vals: []int64{34}, Kids: []*N{es(x)}}} }},
		{"nothing", func(k int) []*N { return nil }},
	}
	// how the word is used, by its name index w
	uses := []func(w int64) *N{
		func(w int64) *N { return es(asg(id(int(w)), one)) },
		func(w int64) *N {
			return &N{Tag: tLabel, Vals: []int64{w}, Kids: []*N{nd(tWhile, nil, a, &N{Tag: tBreak, Vals: []int64{w}})}}
		},
		func(w int64) *N { return es(nd(tCall, nil, id(int(w)), one)) },
		func(w int64) *N { return es(nd(tPost, []int64{1}, id(int(w)))) },
		func(w int64) *N { return es(nd(tDot, []int64{w}, id(int(w)))) },
		func(w int64) *N { return es(nd(tBin, []int64{0}, id(int(w)), nd(tIdx, nil, id(int(w)), id(int(w))))) },
		func(w int64) *N {
			return nd(tVar, nil, &N{Tag: tDecl, Vals: []int64{w}, Kids: []*N{id(int(w))}}, &N{Tag: tDecl, Vals: []int64{w}})
		},
		func(w int64) *N {
			return &N{Tag: tFunDecl, Vals: []int64{w, w}, Kids: []*N{nd(tReturn, nil, id(int(w)))}}
		},
		func(w int64) *N {
			return nd(tTry, nil, blk(), &N{Tag: tCatch, Vals: []int64{w}, Kids: []*N{blk(es(id(int(w))))}}, none)
		},
		func(w int64) *N { return nd(tForIn, nil, id(int(w)), id(int(w)), es(id(int(w)))) },
		func(w int64) *N { return nd(tForIn, nil, &N{Tag: tDecl, Vals: []int64{w}}, x, &N{Tag: tEmpty}) },
		func(w int64) *N {
			return es(asg(x, &N{Tag: tObj, Kids: []*N{{Tag: tProp, Vals: append([]int64{0}, unitsVals(idents[w])...), Text: idents[w], Kids: []*N{id(int(w))}},
				{Tag: tProp, Vals: append([]int64{2}, unitsVals(idents[w])...), Text: idents[w], Kids: []*N{{Tag: tFun, Vals: []int64{-1, w}}}}}}))
		},
		func(w int64) *N { return es(nd(tUn, []int64{6}, id(int(w)))) },
		func(w int64) *N { return nd(tIf, nil, id(int(w)), es(id(int(w))), es(id(int(w)))) },
	}
	k := 0
	for _, word := range strictOnlyWords {
		w := lookupName(word)
		for pi, p := range pres {
			for ui, u := range uses {
				k++
				if g.env.Tier != "thorough" && ui >= 6 && (pi+ui+int(g.env.Seed%3))%3 != 0 {
					continue // quick tier: every use that starts with the word, a third of the others
				}
				stmts := append(p.mk(k), u(w), es(x))
				g.progCase(stmts, "strict-only-words", k%3, 1+k%3)
			}
		}
	}
}
