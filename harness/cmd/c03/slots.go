// c03: every expression slot of every statement form x every class of expression; member/call/new chains.
package main

import "fmt"

// one specimen of every class of expression that matters for a slot's grammar level (fresh nodes on every call)
func exprClasses() []*N {
	a, b, c, d := id(0), id(1), id(2), id(3)
	in := func(l, r *N) *N { return nd(tBin, []int64{opIn}, l, r) }
	comma := func(l, r *N) *N { return nd(tBin, []int64{0}, l, r) }
	return []*N{
		a,
		comma(a, b),
		comma(comma(a, b), c),
		in(a, b),
		comma(a, in(b, c)),
		comma(in(a, b), c),
		asg(a, b),
		nd(tAsg, []int64{1}, a, comma(b, c)),
		asg(a, in(b, c)),
		nd(tCond, nil, a, b, c),
		nd(tCond, nil, a, in(b, c), d),
		nd(tCond, nil, a, b, in(c, d)),
		nd(tCond, nil, in(a, b), c, d),
		nd(tCond, nil, a, comma(b, c), asg(d, a)),
		nd(tBin, []int64{1}, a, b),
		nd(tBin, []int64{10}, a, b),
		nd(tBin, []int64{14}, a, b),
		nd(tBin, []int64{10}, a, in(b, c)),
		nd(tBin, []int64{19}, in(a, b), c),
		nd(tUn, []int64{2}, in(a, b)),
		nd(tUn, []int64{6}, a),
		nd(tPost, []int64{1}, a),
		nd(tCall, nil, a, comma(b, c), in(c, d)),
		nd(tNew, nil, a, in(b, c)),
		nd(tNewNoArgs, nil, a),
		nd(tIdx, nil, a, comma(b, in(c, d))),
		{Tag: tFun, Vals: []int64{-1}, Kids: []*N{es(in(a, b))}},
		{Tag: tObj, Kids: []*N{{Tag: tProp, Vals: append([]int64{0}, unitsVals("p")...), Text: "p", Kids: []*N{in(a, b)}}}},
		{Tag: tArr, Kids: []*N{in(a, b), comma(a, b)}},
		{Tag: tRegex, Vals: []int64{2, '=', 'x', 'g'}, Text: "/=x/g"},
		{Tag: tStr, Vals: []int64{'s', 10}, Text: `'s\n'`},
		nd(tParen, nil, comma(a, in(b, c))),
	}
}

// every slot of a statement (or of an expression form with its own grammar level) that holds an expression
func exprSlots() []func(e *N) []*N {
	x, y := id(3), id(4)
	one := func(s *N) []*N { return []*N{s} }
	inFn := func(s *N) []*N { return []*N{{Tag: tFunDecl, Vals: []int64{34}, Kids: []*N{s}}} }
	empty := func() *N { return &N{Tag: tEmpty} }
	decl := func(ix int64, init *N) *N {
		d := &N{Tag: tDecl, Vals: []int64{ix}}
		if init != nil {
			d.Kids = []*N{init}
		}
		return d
	}
	return []func(e *N) []*N{
		func(e *N) []*N { return one(es(e)) },
		func(e *N) []*N { return one(nd(tVar, nil, decl(3, e))) },
		func(e *N) []*N { return one(nd(tVar, nil, decl(3, e), decl(4, nil))) },
		func(e *N) []*N { return one(nd(tIf, nil, e, empty())) },
		func(e *N) []*N { return one(nd(tIf, nil, x, es(e), es(y))) },
		func(e *N) []*N { return one(nd(tWhile, nil, e, empty())) },
		func(e *N) []*N { return one(nd(tDo, nil, empty(), e)) },
		func(e *N) []*N { return one(nd(tDo, nil, es(e), x)) },
		func(e *N) []*N { return one(nd(tFor, nil, e, none, none, empty())) },
		func(e *N) []*N { return one(nd(tFor, nil, none, e, none, empty())) },
		func(e *N) []*N { return one(nd(tFor, nil, none, none, e, empty())) },
		func(e *N) []*N { return one(nd(tFor, nil, nd(tVar, nil, decl(3, e), decl(4, nil)), x, y, empty())) },
		func(e *N) []*N { return one(nd(tFor, nil, nd(tVar, nil, decl(3, nil)), none, none, es(e))) },
		func(e *N) []*N { return one(nd(tForIn, nil, x, e, empty())) },
		func(e *N) []*N { return one(nd(tForIn, nil, decl(3, nil), e, empty())) },
		func(e *N) []*N { return one(nd(tForIn, nil, decl(3, e), y, empty())) },
		func(e *N) []*N { return one(nd(tForIn, nil, nd(tIdx, nil, x, e), y, empty())) },
		func(e *N) []*N { return one(nd(tForIn, nil, x, y, es(e))) },
		func(e *N) []*N { return one(nd(tSwitch, nil, e)) },
		func(e *N) []*N { return one(nd(tSwitch, nil, x, &N{Tag: tCase, Kids: []*N{e, es(y)}})) },
		func(e *N) []*N {
			return one(nd(tSwitch, nil, x, &N{Tag: tCase, Kids: []*N{y, es(e)}}, &N{Tag: tDefault, Kids: []*N{es(e)}}))
		},
		func(e *N) []*N { return one(nd(tWith, nil, e, empty())) },
		func(e *N) []*N { return one(nd(tThrow, nil, e)) },
		func(e *N) []*N { return inFn(nd(tReturn, nil, e)) },
		func(e *N) []*N { return one(&N{Tag: tLabel, Vals: []int64{5}, Kids: []*N{es(e)}}) },
		func(e *N) []*N { return one(es(nd(tCall, nil, x, e, y))) },
		func(e *N) []*N { return one(es(nd(tNew, nil, x, y, e))) },
		func(e *N) []*N { return one(es(nd(tIdx, nil, x, e))) },
		func(e *N) []*N { return one(es(nd(tParen, nil, e))) },
		func(e *N) []*N { return one(es(&N{Tag: tArr, Kids: []*N{e, {Tag: tHole}, e}})) },
		func(e *N) []*N {
			return one(es(nd(tParen, nil, &N{Tag: tObj, Kids: []*N{{Tag: tProp, Vals: append([]int64{0}, unitsVals("k")...), Text: "k", Kids: []*N{e}}}})))
		},
		func(e *N) []*N { return one(es(nd(tCond, nil, x, e, y))) },
		func(e *N) []*N { return one(es(nd(tCond, nil, x, y, e))) },
		func(e *N) []*N { return one(es(nd(tCond, nil, e, x, y))) },
		func(e *N) []*N { return one(es(asg(x, e))) },
		func(e *N) []*N {
			return one(nd(tTry, nil, &N{Tag: tBlock, Kids: []*N{es(e)}}, none, &N{Tag: tBlock, Kids: []*N{nd(tThrow, nil, e)}}))
		},
	}
}

func (g *gen) slotGrid() {
	ns, nc := len(exprSlots()), len(exprClasses())
	for i := 0; i < ns; i++ {
		for j := 0; j < nc; j++ {
			// both sides fresh: printing decorates nodes
			stmts := exprSlots()[i](exprClasses()[j])
			g.progCase(stmts, "slot-grid", (i+j)%2, 1+(i+j)%3)
		}
	}
}

// member / call / new chains: every sequence of up to four of  .name  [e]  (args)  new ...(args)  new ...
func (g *gen) newChains() {
	ops := 5
	var build func(seq []int) *N
	build = func(seq []int) *N {
		n := id(0)
		for k, op := range seq {
			arg := id(1 + k%3)
			switch op {
			case 0:
				n = nd(tDot, []int64{int64(1 + k)}, n)
			case 1:
				n = nd(tIdx, nil, n, arg)
			case 2:
				if k%2 == 0 {
					n = nd(tCall, nil, n)
				} else {
					n = nd(tCall, nil, n, arg)
				}
			case 3:
				if k%2 == 1 {
					n = nd(tNew, nil, n)
				} else {
					n = nd(tNew, nil, n, arg)
				}
			case 4:
				n = nd(tNewNoArgs, nil, n)
			}
		}
		return n
	}
	var rec func(seq []int)
	rec = func(seq []int) {
		if len(seq) > 0 {
			g.exprCase(build(seq), fmt.Sprintf("new-chain-%d", len(seq)), len(seq)%2)
		}
		if len(seq) == 4 {
			return
		}
		for op := 0; op < ops; op++ {
			rec(append(append([]int{}, seq...), op))
		}
	}
	rec(nil)
	// the same chains as operands: typeof / postfix / assignment target / call argument
	for _, seq := range [][]int{{3, 0, 3}, {3, 1, 3}, {3, 3, 0, 2}, {4, 0, 2}, {3, 2, 2, 2}, {3, 0, 0, 3}, {4, 4}, {3, 3}, {2, 3, 0}, {0, 3, 2, 0}} {
		g.exprCase(nd(tUn, []int64{6}, build(seq)), "new-chain-operand", 1)
		g.exprCase(nd(tBin, []int64{19}, build(seq), build(seq)), "new-chain-operand", 1)
		g.exprCase(nd(tCall, nil, id(34), build(seq), build(seq)), "new-chain-operand", 1)
		g.exprCase(asg(nd(tDot, []int64{2}, build(seq)), build(seq)), "new-chain-operand", 1)
	}
}
