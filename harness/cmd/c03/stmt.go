// c03: statements, programs, automatic semicolon insertion, array/object/function literals.
package main

import (
	"fmt"
	"strings"

	"github.com/robertkrimen/otto/ast"
	"github.com/robertkrimen/otto/token"
	. "ottoh/lib"
)

// statement tags of the exchange tree (kids in brackets; tNone marks an absent optional part)
const (
	tProg     = 30 // [stmts...]
	tExprS    = 31 // [e]
	tVar      = 32 // [decls...]
	tDecl     = 33 // vals [name] kids [init]?
	tBlock    = 34 // [stmts...]
	tEmpty    = 35
	tIf       = 36 // [test cons alt?]
	tWhile    = 37 // [test body]
	tDo       = 38 // [body test]
	tFor      = 39 // [init test update body]
	tForIn    = 40 // [into source body]
	tReturn   = 41 // [arg]?
	tBreak    = 42 // vals [label or -1]
	tContinue = 43 // vals [label or -1]
	tThrow    = 44 // [arg]
	tTry      = 45 // [block catch|none finally|none]
	tCatch    = 46 // vals [param] kids [block]
	tSwitch   = 47 // [disc clauses...]
	tCase     = 48 // [test stmts...]
	tDefault  = 49 // [stmts...]
	tLabel    = 50 // vals [label] kids [stmt]
	tWith     = 51 // [obj body]
	tDebugger = 52
	tFunDecl  = 53 // vals [name params...] kids [body stmts...]
	tNone     = 60
)

func kw(text string) tok { return tok{coq: "TKw 0", text: text} }

var none = &N{Tag: tNone}

// ---------------------------------------------------------------- printing array / object / function literals

func (g *gen) printPrimaryExtra(out []tok, n *N) []tok {
	switch n.Tag {
	case tArr:
		out = append(out, P("TLB", "["))
		for i, el := range n.Kids {
			if el.Tag == tHole {
				out = append(out, P("TOp Comma", ","))
				continue
			}
			out = g.printX(out, 1, el)
			if i+1 < len(n.Kids) || g.r.Intn(5) == 0 { // a trailing comma after the last element adds nothing (11.1.4)
				out = append(out, P("TOp Comma", ","))
			}
		}
		out = append(out, P("TRB", "]"))
	case tObj:
		out = append(out, P("TLBrace", "{"))
		for i, p := range n.Kids {
			kind := p.Vals[0]
			key := tok{coq: "TKw 0", text: p.Text}
			switch kind {
			case 0:
				out = append(out, key, P("TColon", ":"))
				out = g.printX(out, 1, p.Kids[0])
			default:
				f := p.Kids[0]
				out = append(out, kw([]string{"", "get", "set"}[kind]), key, P("TLP", "("))
				for j, prm := range f.Vals[1:] {
					if j > 0 {
						out = append(out, P("TOp Comma", ","))
					}
					out = append(out, kw(idents[prm]))
				}
				out = append(out, P("TRP", ")"))
				out = g.printBody(out, f.Kids)
			}
			if i+1 < len(n.Kids) || g.r.Intn(5) == 0 { // ES5 allows a trailing comma (11.1.5)
				out = append(out, P("TOp Comma", ","))
			}
		}
		out = append(out, P("TRBrace", "}"))
	case tFun:
		out = g.printFunction(out, n)
	}
	return out
}

func (g *gen) printFunction(out []tok, f *N) []tok {
	out = append(out, kw("function"))
	if f.Vals[0] >= 0 {
		out = append(out, kw(idents[f.Vals[0]]))
	}
	out = append(out, P("TLP", "("))
	for j, prm := range f.Vals[1:] {
		if j > 0 {
			out = append(out, P("TOp Comma", ","))
		}
		out = append(out, kw(idents[prm]))
	}
	out = append(out, P("TRP", ")"))
	return g.printBody(out, f.Kids)
}

func (g *gen) printBody(out []tok, stmts []*N) []tok {
	out = append(out, P("TLBrace", "{"))
	out = g.printStmts(out, stmts, "}")
	return append(out, P("TRBrace", "}"))
}

// printX = printE extended with the literal forms that carry statements
func (g *gen) printX(out []tok, p int, n *N) []tok {
	return printEWith(out, p, n, g.printPrimaryExtra)
}

// first token of the rendering of an expression / statement
func (g *gen) firstOfExpr(n *N) string { return firstTokE(0, n) }

func firstTokE(p int, n *N) string {
	if prec(n) < p {
		return "("
	}
	switch n.Tag {
	case tParen:
		return "("
	case tBin:
		return firstTokE(binops[n.Vals[0]].lvl, n.Kids[0])
	case tUn:
		return unops[n.Vals[0]].text
	case tCond:
		return firstTokE(3, n.Kids[0])
	case tPost, tAsg, tDot, tIdx, tCall:
		return firstTokE(15, n.Kids[0])
	case tNew, tNewNoArgs:
		return "new"
	case tArr:
		return "["
	case tObj:
		return "{"
	case tFun:
		return "function"
	}
	return atomTok(n).text
}

func (g *gen) firstOfStmt(n *N) string {
	switch n.Tag {
	case tExprS:
		f := g.firstOfExpr(n.Kids[0])
		if f == "{" || f == "function" {
			return "("
		}
		return f
	case tVar:
		return "var"
	case tBlock:
		return "{"
	case tEmpty:
		return ";"
	case tIf:
		return "if"
	case tWhile:
		return "while"
	case tDo:
		return "do"
	case tFor, tForIn:
		return "for"
	case tReturn:
		return "return"
	case tBreak:
		return "break"
	case tContinue:
		return "continue"
	case tThrow:
		return "throw"
	case tTry:
		return "try"
	case tSwitch:
		return "switch"
	case tLabel:
		return idents[n.Vals[0]]
	case tWith:
		return "with"
	case tDebugger:
		return "debugger"
	case tFunDecl:
		return "function"
	}
	panic("firstOfStmt")
}

// ---------------------------------------------------------------- statement printer with semicolon choices

var realKeywords = map[string]bool{"if": true, "in": true, "new": true, "typeof": true, "instanceof": true, "delete": true, "void": true, "var": true,
	"function": true, "return": true, "class": true, "enum": true, "for": true, "while": true, "do": true, "break": true, "continue": true, "default": true,
	"case": true, "with": true, "try": true, "catch": true, "finally": true, "throw": true, "switch": true, "else": true, "debugger": true}

// may a line terminator alone end the statement when [next] follows?  (7.9.1: [next] must be a token the grammar does not allow here)
func asiSafeNext(next string) bool {
	switch next {
	case "(", "[", "+", "-", "/", ".", ",", "?", ":", "*", "%", "=", "in", "instanceof", ")", "]":
		return false
	}
	if strings.HasPrefix(next, "/") { // a regular expression literal would be read as a division
		return false
	}
	return true
}

// ends the statement whose tokens are the tail of out.  strict: otto's semicolon() path (var, return, throw, debugger, break/continue label);
// free: a restricted production already ended the statement, any next token is fine.
func (g *gen) terminate(out []tok, next string, strict, free bool) []tok {
	last := out[len(out)-1]
	semi := P("TSemi", ";") // may stand on a later line: it still ends the statement (7.9)
	_ = strict
	if strings.HasPrefix(last.coq, "TAtom (ARegex") && next != "}" && next != "" && isIdentChar(firstRune(next)) &&
		!realKeywords[next] && next != "this" && next != "null" && next != "true" && next != "false" {
		// otto takes an IDENTIFIER after white space as the flags of the literal (recorded finding C03-regexp-flags-detached)
		return append(out, semi)
	}
	style := g.semiStyle
	if style == 0 {
		style = 1 + g.r.Intn(3)
	}
	switch {
	case style == 2 && (next == "}" || next == ""):
		return out
	case style >= 2 && next != "}" && next != "" && next != ";" && (free || asiSafeNext(next)):
		g.pendingNL = true
		return out
	}
	return append(out, semi)
}

func (g *gen) emit(out []tok, t tok) []tok {
	if g.pendingNL {
		t.mustNL = true
		g.pendingNL = false
	}
	return append(out, t)
}

func (g *gen) emitAll(out []tok, ts []tok) []tok {
	for i, t := range ts {
		if i == 0 {
			out = g.emit(out, t)
		} else {
			out = append(out, t)
		}
	}
	return out
}

// tokens of a nested construct; a line terminator pending for the NEXT token of the enclosing
// statement list must not be consumed by statements inside it
func (g *gen) isolated(f func() []tok) []tok {
	pend := g.pendingNL
	g.pendingNL = false
	ts := f()
	if g.pendingNL {
		panic("pending line terminator at the end of a nested body")
	}
	g.pendingNL = pend
	return ts
}

func (g *gen) exprToks(p int, n *N) []tok {
	return g.isolated(func() []tok { return g.printX(nil, p, n) })
}

// expression in a for-header initialiser: every exposed `in` gets parentheses (ES5 NoIn productions)
func protectIn(n *N, exposed bool) *N { return protectNoIn(n, exposed, false) }

// rel: also every exposed relational operator gets parentheses (not used any more: the region of the
// repaired finding C03-noin-relational is entered)
func protectNoIn(n *N, exposed, rel bool) *N {
	switch n.Tag {
	case tParen, tArr, tObj, tFun:
		exposed = false
	}
	out := &N{Tag: n.Tag, Vals: n.Vals, Text: n.Text}
	for i, k := range n.Kids {
		e := exposed
		switch {
		case (n.Tag == tCall || n.Tag == tNew) && i > 0, n.Tag == tIdx && i == 1:
			e = false
		case n.Tag == tCond && i == 1 && prec(k) >= 1:
			e = false // 11.12: the middle operand of ?: is an AssignmentExpression WITH in
		}
		out.Kids = append(out.Kids, protectNoIn(k, e, rel))
	}
	if exposed && n.Tag == tBin && (n.Vals[0] == opIn || (rel && binops[n.Vals[0]].lvl == 9)) {
		return nd(tParen, nil, out)
	}
	return out
}

// statements of a list, each followed by its terminator; closer is what follows the list: "}", "" (end of input), "case"
func (g *gen) printStmts(out []tok, stmts []*N, closer string) []tok {
	for i, s := range stmts {
		next := closer
		if i+1 < len(stmts) {
			next = g.firstOfStmt(stmts[i+1])
		}
		out = g.printStmt(out, s, next)
	}
	return out
}

func (g *gen) parenExpr(out []tok, e *N) []tok {
	out = append(out, P("TLP", "("))
	out = append(out, g.exprToks(0, e)...)
	return append(out, P("TRP", ")"))
}

// one statement including its terminator, given the token that follows it
func (g *gen) printStmt(out []tok, n *N, next string) []tok {
	switch n.Tag {
	case tExprS:
		e := n.Kids[0]
		f := g.firstOfExpr(e)
		if f == "{" || f == "function" { // an ExpressionStatement cannot start with { or function (12.4)
			e = nd(tParen, nil, e)
		}
		out = g.emitAll(out, g.exprToks(0, e))
		return g.terminate(out, next, false, false)
	case tVar:
		out = g.emit(out, kw("var"))
		out = g.printDecls(out, n.Kids, false)
		return g.terminate(out, next, true, false)
	case tBlock:
		out = g.emit(out, P("TLBrace", "{"))
		out = g.printStmts(out, n.Kids, "}")
		return g.emit(out, P("TRBrace", "}"))
	case tEmpty:
		return g.emit(out, P("TSemi", ";"))
	case tIf:
		out = g.emit(out, kw("if"))
		out = g.parenExpr(out, n.Kids[0])
		if len(n.Kids) == 3 {
			out = g.printStmt(out, n.Kids[1], "else")
			out = g.emit(out, kw("else"))
			return g.printStmt(out, n.Kids[2], next)
		}
		return g.printStmt(out, n.Kids[1], next)
	case tWhile:
		out = g.emit(out, kw("while"))
		out = g.parenExpr(out, n.Kids[0])
		return g.printStmt(out, n.Kids[1], next)
	case tDo:
		out = g.emit(out, kw("do"))
		out = g.printStmt(out, n.Kids[0], "while")
		out = g.emit(out, kw("while"))
		out = g.parenExpr(out, n.Kids[1])
		// after do-while's ")" a semicolon is inserted before any token on a new line (7.9.1)
		return g.terminate(out, next, false, true)
	case tFor:
		out = g.emit(out, kw("for"))
		out = append(out, P("TLP", "("))
		switch init := n.Kids[0]; init.Tag {
		case tNone:
		case tVar:
			out = append(out, kw("var"))
			out = g.printDecls(out, init.Kids, true)
		default:
			out = append(out, g.exprToks(0, protectIn(init, true))...)
		}
		out = append(out, P("TSemi", ";"))
		if n.Kids[1].Tag != tNone {
			out = append(out, g.exprToks(0, n.Kids[1])...)
		}
		out = append(out, P("TSemi", ";"))
		if n.Kids[2].Tag != tNone {
			out = append(out, g.exprToks(0, n.Kids[2])...)
		}
		out = append(out, P("TRP", ")"))
		return g.printStmt(out, n.Kids[3], next)
	case tForIn:
		out = g.emit(out, kw("for"))
		out = append(out, P("TLP", "("))
		if into := n.Kids[0]; into.Tag == tDecl {
			out = append(out, kw("var"))
			out = g.printDecls(out, []*N{into}, true)
		} else {
			out = append(out, g.exprToks(15, into)...)
		}
		out = append(out, P("TOp In", "in"))
		out = append(out, g.exprToks(0, n.Kids[1])...)
		out = append(out, P("TRP", ")"))
		return g.printStmt(out, n.Kids[2], next)
	case tReturn, tThrow:
		out = g.emit(out, kw(map[int]string{tReturn: "return", tThrow: "throw"}[n.Tag]))
		if len(n.Kids) == 0 {
			return g.terminate(out, next, true, true)
		}
		ts := g.exprToks(0, n.Kids[0])
		ts[0].noNL = true // restricted production: no LineTerminator here
		out = append(out, ts...)
		return g.terminate(out, next, true, false)
	case tBreak, tContinue:
		out = g.emit(out, kw(map[int]string{tBreak: "break", tContinue: "continue"}[n.Tag]))
		if n.Vals[0] < 0 {
			return g.terminate(out, next, false, true)
		}
		l := kw(idents[n.Vals[0]])
		l.noNL = true
		out = append(out, l)
		return g.terminate(out, next, true, false)
	case tTry:
		out = g.emit(out, kw("try"))
		out = g.printBody(out, n.Kids[0].Kids)
		if c := n.Kids[1]; c.Tag == tCatch {
			out = append(out, kw("catch"), P("TLP", "("), kw(idents[c.Vals[0]]), P("TRP", ")"))
			out = g.printBody(out, c.Kids[0].Kids)
		}
		if f := n.Kids[2]; f.Tag != tNone {
			out = append(out, kw("finally"))
			out = g.printBody(out, f.Kids)
		}
		return out
	case tSwitch:
		out = g.emit(out, kw("switch"))
		out = g.parenExpr(out, n.Kids[0])
		out = append(out, P("TLBrace", "{"))
		for i, c := range n.Kids[1:] {
			closer := "}"
			if i+2 < len(n.Kids) {
				closer = "case"
			}
			if c.Tag == tCase {
				out = g.emit(out, kw("case"))
				out = append(out, g.exprToks(0, c.Kids[0])...)
				out = append(out, P("TColon", ":"))
				out = g.printStmts(out, c.Kids[1:], closer)
			} else {
				out = g.emit(out, kw("default"))
				out = append(out, P("TColon", ":"))
				out = g.printStmts(out, c.Kids, closer)
			}
		}
		return append(out, P("TRBrace", "}"))
	case tLabel:
		out = g.emit(out, kw(idents[n.Vals[0]]))
		out = append(out, P("TColon", ":"))
		return g.printStmt(out, n.Kids[0], next)
	case tWith:
		out = g.emit(out, kw("with"))
		out = g.parenExpr(out, n.Kids[0])
		return g.printStmt(out, n.Kids[1], next)
	case tDebugger:
		out = g.emit(out, kw("debugger"))
		return g.terminate(out, next, true, false)
	case tFunDecl:
		ts := g.isolated(func() []tok { return g.printFunction(nil, n) })
		return g.emitAll(out, ts)
	}
	panic(fmt.Sprintf("printStmt %d", n.Tag))
}

func (g *gen) printDecls(out []tok, decls []*N, noIn bool) []tok {
	for i, d := range decls {
		if i > 0 {
			out = append(out, P("TOp Comma", ","))
		}
		name := kw(idents[d.Vals[0]])
		if i == 0 {
			name.noNL = false
		}
		out = append(out, name)
		if len(d.Kids) == 1 {
			out = append(out, P("TAsg AAssign", "="))
			init := d.Kids[0]
			if noIn {
				init = protectIn(init, true)
			}
			out = append(out, g.exprToks(1, init)...)
		}
	}
	return out
}

// ---------------------------------------------------------------- statement generator

type ctx struct {
	inFunction, inLoop, inSwitch bool
	labels, loopLabels           []int64
}

func (c ctx) fn() ctx { return ctx{inFunction: true} }

func (g *gen) freshLabel(c ctx) int64 {
	for {
		l := int64(g.r.Intn(8))
		dup := false
		for _, x := range c.labels {
			dup = dup || x == l
		}
		if !dup {
			return l
		}
	}
}

func (g *gen) exprFull(d int) *N {
	g.full = true
	defer func() { g.full = false }()
	return g.expr(d, 0)
}

func (g *gen) funcLit(d int, name int64, nparams int) *N {
	vals := []int64{name}
	if nparams < 0 {
		nparams = g.r.Intn(4)
	}
	for i := 0; i < nparams; i++ {
		vals = append(vals, int64(g.r.Intn(8)))
	}
	return &N{Tag: tFun, Vals: vals, Kids: g.stmtList(d, ctx{}.fn(), true, g.r.Intn(4))}
}

// array / object / function literals (only in statement cases: the Coq expression model has no statements)
func (g *gen) primaryExtra(d int) *N {
	r := g.r
	switch r.Intn(3) {
	case 0:
		n := &N{Tag: tArr}
		for i := r.Intn(5); i > 0; i-- {
			if r.Intn(4) == 0 {
				n.Kids = append(n.Kids, &N{Tag: tHole})
			} else {
				n.Kids = append(n.Kids, g.expr(d-1, 1))
			}
		}
		return n
	case 1:
		n := &N{Tag: tObj}
		for i := r.Intn(4); i > 0; i-- {
			kind := int64(0)
			if r.Intn(3) == 0 {
				kind = int64(1 + r.Intn(2))
			}
			var keyText string
			var keyUnits []int64
			switch r.Intn(6) {
			case 0:
				s := g.stringLit()
				keyText, keyUnits = s.Text, s.Vals
			case 1:
				keyText = fmt.Sprint(r.Intn(1000)) // a NumericLiteral key names ToString(value) (11.1.5); canonical decimal integers only
				keyUnits = unitsVals(keyText)
			case 2:
				keyText = Pick(r, []string{"get", "set", "get", "set", "if", "in", "new", "function", "var", "null", "true", "this", "typeof", "default", "class"})
				keyUnits = unitsVals(keyText)
			default:
				keyText = Pick(r, idents)
				keyUnits = unitsVals(keyText)
			}
			p := &N{Tag: tProp, Vals: append([]int64{kind}, keyUnits...), Text: keyText}
			switch kind {
			case 0:
				p.Kids = []*N{g.expr(d-1, 1)}
			case 1:
				p.Kids = []*N{g.funcLit(d-1, -1, 0)}
			case 2:
				p.Kids = []*N{g.funcLit(d-1, -1, 1)}
			}
			n.Kids = append(n.Kids, p)
		}
		return n
	}
	name := int64(-1)
	if r.Intn(2) == 0 {
		name = int64(r.Intn(8))
	}
	return g.funcLit(d-1, name, -1)
}

func (g *gen) stmtList(d int, c ctx, sourceElements bool, n int) []*N {
	var out []*N
	for i := 0; i < n; i++ {
		if sourceElements && g.r.Intn(6) == 0 {
			f := g.funcLit(d-1, int64(g.r.Intn(8)), -1)
			f.Tag = tFunDecl
			out = append(out, f)
			continue
		}
		out = append(out, g.stmt(d, c))
	}
	return out
}

func (g *gen) block(d int, c ctx) *N {
	return &N{Tag: tBlock, Kids: g.stmtList(d-1, c, false, g.r.Intn(3))}
}

func (g *gen) simpleExprStmt(d int) *N {
	return nd(tExprS, nil, g.exprFull(1+g.r.Intn(imax(1, d))))
}

func imax(a, b int) int {
	if a > b {
		return a
	}
	return b
}

func (g *gen) stmt(d int, c ctx) *N {
	r := g.r
	if d <= 0 {
		switch r.Intn(6) {
		case 0:
			return &N{Tag: tEmpty}
		case 1:
			return &N{Tag: tDebugger}
		case 2:
			return nd(tVar, nil, g.decl(1))
		}
		return g.simpleExprStmt(1)
	}
	loop := c
	loop.inLoop = true
	for {
		switch k := r.Intn(40); {
		case k < 9:
			return g.simpleExprStmt(d)
		case k < 12:
			n := &N{Tag: tVar}
			for i := 1 + r.Intn(3); i > 0; i-- {
				n.Kids = append(n.Kids, g.decl(d))
			}
			return n
		case k < 14:
			return g.block(d, c)
		case k < 15:
			return &N{Tag: tEmpty}
		case k < 19:
			n := nd(tIf, nil, g.exprFull(d-1), g.stmt(d-1, c))
			if r.Intn(2) == 0 {
				if endsWithOpenIf(n.Kids[1]) {
					n.Kids[1] = nd(tBlock, nil, n.Kids[1])
				}
				n.Kids = append(n.Kids, g.stmt(d-1, c))
			}
			return n
		case k < 21:
			return nd(tWhile, nil, g.exprFull(d-1), g.stmt(d-1, loop))
		case k < 23:
			return nd(tDo, nil, g.stmt(d-1, loop), g.exprFull(d-1))
		case k < 26:
			init, test, upd := none, none, none
			switch r.Intn(4) {
			case 0:
			case 1:
				init = &N{Tag: tVar}
				for i := 1 + r.Intn(2); i > 0; i-- {
					init.Kids = append(init.Kids, g.decl(d-1))
				}
			default:
				init = g.exprFull(d - 1)
			}
			if r.Intn(3) > 0 {
				test = g.exprFull(d - 1)
			}
			if r.Intn(3) > 0 {
				upd = g.exprFull(d - 1)
			}
			return nd(tFor, nil, init, test, upd, g.stmt(d-1, loop))
		case k < 28:
			var into *N
			switch r.Intn(3) {
			case 0:
				into = g.decl(0)
				if r.Intn(4) == 0 {
					into = g.decl(d - 1)
				}
			default:
				g.full = true
				into = g.ref(d - 1)
				g.full = false
			}
			return nd(tForIn, nil, into, g.exprFull(d-1), g.stmt(d-1, loop))
		case k < 30:
			if !c.inFunction {
				continue
			}
			if r.Intn(3) == 0 {
				return &N{Tag: tReturn}
			}
			return nd(tReturn, nil, g.exprFull(d-1))
		case k < 32:
			if len(c.labels) > 0 && r.Intn(2) == 0 {
				return &N{Tag: tBreak, Vals: []int64{Pick(r, c.labels)}}
			}
			if !c.inLoop && !c.inSwitch {
				continue
			}
			return &N{Tag: tBreak, Vals: []int64{-1}}
		case k < 33:
			if !c.inLoop {
				continue
			}
			if len(c.loopLabels) > 0 && r.Intn(2) == 0 {
				return &N{Tag: tContinue, Vals: []int64{Pick(r, c.loopLabels)}}
			}
			return &N{Tag: tContinue, Vals: []int64{-1}}
		case k < 34:
			return nd(tThrow, nil, g.exprFull(d-1))
		case k < 36:
			n := nd(tTry, nil, g.block(d, c), none, none)
			if r.Intn(3) > 0 {
				n.Kids[1] = &N{Tag: tCatch, Vals: []int64{int64(r.Intn(8))}, Kids: []*N{g.block(d, c)}}
			}
			if n.Kids[1].Tag == tNone || r.Intn(2) == 0 {
				n.Kids[2] = g.block(d, c)
			}
			return n
		case k < 37:
			sw := c
			sw.inSwitch = true
			n := nd(tSwitch, nil, g.exprFull(d-1))
			hasDefault := false
			for i := r.Intn(4); i > 0; i-- {
				if !hasDefault && r.Intn(4) == 0 {
					hasDefault = true
					n.Kids = append(n.Kids, &N{Tag: tDefault, Kids: g.stmtList(d-1, sw, false, r.Intn(3))})
				} else {
					n.Kids = append(n.Kids, &N{Tag: tCase, Kids: append([]*N{g.exprFull(d - 1)}, g.stmtList(d-1, sw, false, r.Intn(3))...)})
				}
			}
			return n
		case k < 38:
			l := g.freshLabel(c)
			inner := c
			inner.labels = append(append([]int64{}, c.labels...), l)
			if r.Intn(2) == 0 { // a labelled loop: continue may name it
				il := inner
				il.inLoop = true
				il.loopLabels = append(append([]int64{}, c.loopLabels...), l)
				return &N{Tag: tLabel, Vals: []int64{l}, Kids: []*N{nd(tWhile, nil, g.exprFull(d-1), g.stmt(d-1, il))}}
			}
			return &N{Tag: tLabel, Vals: []int64{l}, Kids: []*N{g.stmt(d-1, inner)}}
		case k < 39:
			return nd(tWith, nil, g.exprFull(d-1), g.stmt(d-1, c))
		default:
			return &N{Tag: tDebugger}
		}
	}
}

func (g *gen) decl(d int) *N {
	n := &N{Tag: tDecl, Vals: []int64{int64(g.r.Intn(len(idents)))}}
	if d > 0 && g.r.Intn(3) > 0 {
		g.full = true
		n.Kids = []*N{g.expr(d, 1)}
		g.full = false
	}
	return n
}

// would an `else` after this statement attach to an if inside it?
func endsWithOpenIf(n *N) bool {
	switch n.Tag {
	case tIf:
		if len(n.Kids) == 2 {
			return true
		}
		return endsWithOpenIf(n.Kids[2])
	case tWhile, tWith:
		return endsWithOpenIf(n.Kids[1])
	case tFor:
		return endsWithOpenIf(n.Kids[3])
	case tForIn:
		return endsWithOpenIf(n.Kids[2])
	case tLabel:
		return endsWithOpenIf(n.Kids[0])
	}
	return false
}

// ---------------------------------------------------------------- otto's statements -> N

func fromFunction(f *ast.FunctionLiteral, tag int) *N {
	n := &N{Tag: tag, Vals: []int64{-1}}
	if f.Name != nil {
		n.Vals[0] = lookupName(f.Name.Name)
	}
	if f.ParameterList != nil {
		for _, p := range f.ParameterList.List {
			n.Vals = append(n.Vals, lookupName(p.Name))
		}
	}
	if b, ok := f.Body.(*ast.BlockStatement); ok {
		n.Kids = fromStmts(b.List)
	} else {
		n.Kids = []*N{nd(tBad, []int64{20})}
	}
	return n
}

func fromStmts(l []ast.Statement) []*N {
	var out []*N
	for _, s := range l {
		out = append(out, fromStmt(s))
	}
	return out
}

func fromDecl(e ast.Expression) *N {
	v, ok := e.(*ast.VariableExpression)
	if !ok {
		return nd(tBad, []int64{21})
	}
	n := &N{Tag: tDecl, Vals: []int64{lookupName(v.Name)}}
	if v.Initializer != nil {
		n.Kids = []*N{fromExpr(v.Initializer)}
	}
	return n
}

func optExpr(e ast.Expression) *N {
	if e == nil {
		return none
	}
	return fromExpr(e)
}

func fromStmt(s ast.Statement) *N {
	switch x := s.(type) {
	case *ast.ExpressionStatement:
		return nd(tExprS, nil, fromExpr(x.Expression))
	case *ast.VariableStatement:
		n := &N{Tag: tVar}
		for _, d := range x.List {
			n.Kids = append(n.Kids, fromDecl(d))
		}
		return n
	case *ast.BlockStatement:
		return &N{Tag: tBlock, Kids: fromStmts(x.List)}
	case *ast.EmptyStatement:
		return &N{Tag: tEmpty}
	case *ast.IfStatement:
		n := nd(tIf, nil, fromExpr(x.Test), fromStmt(x.Consequent))
		if x.Alternate != nil {
			n.Kids = append(n.Kids, fromStmt(x.Alternate))
		}
		return n
	case *ast.WhileStatement:
		return nd(tWhile, nil, fromExpr(x.Test), fromStmt(x.Body))
	case *ast.DoWhileStatement:
		return nd(tDo, nil, fromStmt(x.Body), fromExpr(x.Test))
	case *ast.ForStatement:
		init := none
		if seq, ok := x.Initializer.(*ast.SequenceExpression); ok && len(seq.Sequence) > 0 {
			if _, isVar := seq.Sequence[0].(*ast.VariableExpression); isVar {
				init = &N{Tag: tVar}
				for _, d := range seq.Sequence {
					init.Kids = append(init.Kids, fromDecl(d))
				}
			} else if len(seq.Sequence) == 1 {
				init = fromExpr(seq.Sequence[0])
			} else {
				init = nd(tBad, []int64{22})
			}
		} else if x.Initializer != nil && !ok {
			init = fromExpr(x.Initializer)
		}
		return nd(tFor, nil, init, optExpr(x.Test), optExpr(x.Update), fromStmt(x.Body))
	case *ast.ForInStatement:
		var into *N
		if _, isVar := x.Into.(*ast.VariableExpression); isVar {
			into = fromDecl(x.Into)
		} else {
			into = fromExpr(x.Into)
		}
		return nd(tForIn, nil, into, fromExpr(x.Source), fromStmt(x.Body))
	case *ast.ReturnStatement:
		if x.Argument == nil {
			return &N{Tag: tReturn}
		}
		return nd(tReturn, nil, fromExpr(x.Argument))
	case *ast.BranchStatement:
		tag := tBreak
		if x.Token == token.CONTINUE {
			tag = tContinue
		}
		l := int64(-1)
		if x.Label != nil {
			l = lookupName(x.Label.Name)
			if l < 0 {
				l = -2
			}
		}
		return &N{Tag: tag, Vals: []int64{l}}
	case *ast.ThrowStatement:
		return nd(tThrow, nil, fromExpr(x.Argument))
	case *ast.TryStatement:
		n := nd(tTry, nil, fromStmt(x.Body), none, none)
		if x.Catch != nil {
			n.Kids[1] = &N{Tag: tCatch, Vals: []int64{lookupName(x.Catch.Parameter.Name)}, Kids: []*N{fromStmt(x.Catch.Body)}}
		}
		if x.Finally != nil {
			n.Kids[2] = fromStmt(x.Finally)
		}
		return n
	case *ast.SwitchStatement:
		n := nd(tSwitch, nil, fromExpr(x.Discriminant))
		for _, c := range x.Body {
			if c.Test == nil {
				n.Kids = append(n.Kids, &N{Tag: tDefault, Kids: fromStmts(c.Consequent)})
			} else {
				n.Kids = append(n.Kids, &N{Tag: tCase, Kids: append([]*N{fromExpr(c.Test)}, fromStmts(c.Consequent)...)})
			}
		}
		return n
	case *ast.LabelledStatement:
		return &N{Tag: tLabel, Vals: []int64{lookupName(x.Label.Name)}, Kids: []*N{fromStmt(x.Statement)}}
	case *ast.WithStatement:
		return nd(tWith, nil, fromExpr(x.Object), fromStmt(x.Body))
	case *ast.DebuggerStatement:
		return &N{Tag: tDebugger}
	case *ast.FunctionStatement:
		return fromFunction(x.Function, tFunDecl)
	}
	return nd(tBad, []int64{29})
}

func fromExprExtra(e ast.Expression) *N {
	switch x := e.(type) {
	case *ast.ArrayLiteral:
		n := &N{Tag: tArr}
		for _, el := range x.Value {
			if _, hole := el.(*ast.EmptyExpression); hole || el == nil {
				n.Kids = append(n.Kids, &N{Tag: tHole})
			} else {
				n.Kids = append(n.Kids, fromExpr(el))
			}
		}
		return n
	case *ast.ObjectLiteral:
		n := &N{Tag: tObj}
		for _, p := range x.Value {
			kind := map[string]int64{"value": 0, "get": 1, "set": 2}[p.Kind]
			pn := &N{Tag: tProp, Vals: append([]int64{kind}, unitsVals(p.Key)...)}
			if f, ok := p.Value.(*ast.FunctionLiteral); ok && kind != 0 {
				pn.Kids = []*N{fromFunction(f, tFun)}
			} else {
				pn.Kids = []*N{fromExpr(p.Value)}
			}
			n.Kids = append(n.Kids, pn)
		}
		return n
	case *ast.FunctionLiteral:
		return fromFunction(x, tFun)
	}
	return nil
}

func parseProgram(src string) (n *N, errText string) {
	_, tree, e, mismatch := parseWays(src)
	if mismatch != "" {
		return historyBad(mismatch), "PARSE HISTORY: " + mismatch
	}
	if tree == nil {
		return nil, e
	}
	return tree, ""
}

// ---------------------------------------------------------------- program cases

func (g *gen) progCase(stmts []*N, bucket string, density, semiStyle int) {
	g.semiStyle = semiStyle
	g.pendingNL = false
	toks := g.printStmts(nil, stmts, "")
	src := renderTokens(g.r, toks, density, true)
	want := strip(&N{Tag: tProg, Kids: stmts})
	got, errText := parseProgram(src)
	obs, shown := "None", "syntax error: "+errText
	if got != nil {
		obs = "(Some (" + got.coq() + "))"
		shown = "tree " + got.coq()
		if equalTree(got, want) {
			shown = "the generating tree"
		}
	}
	g.add(fmt.Sprintf("CProg (%s) %s", want.coq(), obs),
		fmt.Sprintf("program %q -> %s ; generating tree %s", src, shown, want.coq()), bucket, len(stmts) >= 2 || depth(want) >= 4)
}

// a fixed text whose parse is a recorded deviation: class, text, generating tree
func (g *gen) pinCase(class int, src string, want, pinned *N) {
	pin := "None"
	if pinned != nil {
		pin = "(Some (" + pinned.coq() + "))"
	}
	got, errText := parseProgram(src)
	obs, shown := "None", "syntax error: "+errText
	if got != nil {
		obs = "(Some (" + got.coq() + "))"
		shown = "tree " + got.coq()
		if equalTree(got, want) {
			shown = "the tree ES5 assigns"
		}
	}
	g.add(fmt.Sprintf("CPin %d (%s) %s %s", class, want.coq(), pin, obs),
		fmt.Sprintf("pinned %q -> %s ; ES5 tree %s", src, shown, want.coq()), "pinned", true)
}

// a fixed text that a repaired defect used to mis-parse: only the tree ES5 assigns is accepted
func (g *gen) regressCase(src string, want *N) {
	want = strip(want)
	got, errText := parseProgram(src)
	obs, shown := "None", "syntax error: "+errText
	if got != nil {
		obs = "(Some (" + got.coq() + "))"
		shown = "tree " + got.coq()
		if equalTree(got, want) {
			shown = "the generating tree"
		}
	}
	g.add(fmt.Sprintf("CProg (%s) %s", want.coq(), obs),
		fmt.Sprintf("regression %q -> %s ; ES5 tree %s", src, shown, want.coq()), "regression-fixed", true)
}

// a fixed text that ES5 rejects and a repaired defect used to accept: only a syntax error is accepted
func (g *gen) rejectCase(src string) {
	got, errText := parseProgram(src)
	obs, shown := "None", "syntax error: "+errText
	if got != nil {
		obs = "(Some (" + got.coq() + "))"
		shown = "accepted, tree " + got.coq()
	}
	g.add(fmt.Sprintf("CReject %s", obs), fmt.Sprintf("regression (ES5 rejects) %q -> %s", src, shown), "regression-fixed", true)
}
