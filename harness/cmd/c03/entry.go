// c03: the other entry points of the parser (parser.ParseFunction, the Function constructor) and the
// regular-expression literal in statement-ending positions.
package main

import (
	"fmt"
	"strings"

	"github.com/robertkrimen/otto"
	"github.com/robertkrimen/otto/parser"
	. "ottoh/lib"
)

// what may follow the last token of a FunctionBody handed to parser.ParseFunction / new Function(...)
var bodySuffixes = []string{"", "// c", " //", "//", "// })", "/* c */", "/**/", "\u2028", "\u2029", "\r", "\n", "\r\n", " ", "\t", "\v", "\f", "\u00a0", "\ufeff",
	"// c\n", "/* a\n b */", "\n// last", "\r// last", "\u2028// last", " /* c */ // d"}

func (g *gen) paramText(params []int64) string {
	parts := make([]string, len(params))
	for i, p := range params {
		parts[i] = Pick(g.r, []string{"", " ", "\t"}) + idents[p] + Pick(g.r, []string{"", " "})
	}
	// after the last parameter: white space, comments of both kinds (a // comment without line terminator too:
	// the region of the repaired finding C03-function-ctor-param-comment), line terminators
	return strings.Join(parts, ",") + Pick(g.r, []string{"", "", " ", "/* c */", "\n", " /**/ ", "\u2028", "// c", " //", "//) {", "/* c */ // d", "\r"})
}

// regression cases of the repaired finding C03-function-ctor-param-comment (/repo 1ec2834): a parameter text
// ending in a single-line comment; and of e7d0cb4: a FormalParameterList has no trailing comma
func (g *gen) pinFunctionCtor() {
	for _, c := range []struct {
		ptext  string
		params []int64
	}{{"a // c", []int64{0}}, {"a//", []int64{0}}, {"a, b // c) {", []int64{0, 1}}, {"// none", nil}, {"a /* c */ // d", []int64{0}}} {
		g.funBodyCaseWith(c.ptext, c.params, []*N{nd(tReturn, nil, id(0))}, "", "regression-fixed", 0, 1)
		g.funBodyCaseWith(c.ptext, c.params, nil, "// c", "regression-fixed", 0, 1)
	}
	for _, src := range []string{"function f(a,){}", "(function(a,){})", "x = {set p(a,){}}", "function f(a,b,){return a}", "function f(,){}"} {
		g.rejectCase(src)
	}
}

func optTree(n *N) string {
	if n == nil {
		return "None"
	}
	return "(Some (" + n.coq() + "))"
}

// a FunctionBody through three entry points: inside a function declaration of a program (ParseFile),
// parser.ParseFunction(params, body), and the Function constructor called as a function and with new
func (g *gen) funBodyCase(params []int64, stmts []*N, suffix, bucket string, density, semiStyle int) {
	g.funBodyCaseWith(g.paramText(params), params, stmts, suffix, bucket, density, semiStyle)
}

func (g *gen) funBodyCaseWith(ptext string, params []int64, stmts []*N, suffix, bucket string, density, semiStyle int) {
	g.semiStyle = semiStyle
	g.pendingNL = false
	toks := g.printStmts(nil, stmts, "}")
	body := ""
	if len(toks) > 0 {
		noTail = true
		body = renderTokens(g.r, toks, density, true)
		noTail = false
	}
	body += suffix

	want := strip(&N{Tag: tFun, Vals: append([]int64{-1}, params...), Kids: stmts})
	wantDecl := strip(&N{Tag: tProg, Kids: []*N{{Tag: tFunDecl, Vals: append([]int64{34}, params...), Kids: stmts}}})

	decl, declErr := parseProgram("function f(" + ptext + "\n) {\n" + body + "\n}")
	var pf *N
	pfErr := ""
	func() {
		defer func() {
			if r := recover(); r != nil {
				pf, pfErr = nil, fmt.Sprintf("PANIC %v", r)
			}
		}()
		lit, err := parser.ParseFunction(ptext, body)
		if err != nil {
			pfErr = err.Error()
			return
		}
		pf = fromFunction(lit, tFun)
	}()
	if g.vm == nil {
		g.vm = otto.New()
	}
	_ = g.vm.Set("__p", ptext)
	_ = g.vm.Set("__b", body)
	ctor := func(src string) (bool, string) {
		o := RunJS(g.vm, src)
		switch {
		case o.Panic != nil:
			return false, fmt.Sprintf("PANIC %v", o.Panic)
		case o.Err != nil:
			return false, o.Err.Error()
		}
		return o.Val.String() == "function", o.Val.String()
	}
	c1, s1 := ctor("typeof new Function(__p, __b)")
	c2, s2 := ctor("typeof Function(__p, __b)")

	show := func(n *N, w *N, e string) string {
		switch {
		case n == nil:
			return "syntax error: " + e
		case equalTree(n, w):
			return "the generating tree"
		}
		return "tree " + n.coq()
	}
	g.add(fmt.Sprintf("CFun (%s) (%s) %s %s %s %s", want.coq(), wantDecl.coq(), optTree(pf), optTree(decl), Cbool(c1), Cbool(c2)),
		fmt.Sprintf("function body params %q body %q -> ParseFunction: %s ; as declaration: %s ; typeof new Function: %s ; typeof Function: %s ; generating tree %s",
			ptext, body, show(pf, want, pfErr), show(decl, wantDecl, declErr), s1, s2, want.coq()), bucket, true)
}

func (g *gen) randomFunBodyCase() {
	r := g.r
	d := 1 + r.Intn(3)
	var params []int64
	for i := r.Intn(4); i > 0; i-- {
		params = append(params, int64(r.Intn(8)))
	}
	g.funBodyCase(params, g.stmtList(d, ctx{}.fn(), true, r.Intn(4)), Pick(r, bodySuffixes), "function-body-random", r.Intn(3), r.Intn(4))
}

// every sample statement as the last statement of a body x everything that may follow it
func (g *gen) functionBodies(samples func() []*N) {
	n := len(samples())
	k := 0
	for i := 0; i < n; i++ {
		if t := samples()[i].Tag; t == tBreak || t == tContinue {
			continue // only valid inside a loop
		}
		for j, suf := range bodySuffixes {
			if g.env.Tier != "thorough" && (i+j+int(g.env.Seed%3))%3 != 0 {
				continue // quick tier: a third of the grid, rotating with the seed
			}
			k++
			stmts := []*N{samples()[i]}
			if k%2 == 0 {
				stmts = []*N{samples()[(i+j)%17], samples()[i]}
			}
			g.funBodyCase([]int64{0, 1}[:k%3], stmts, suf, "function-body", 0, 1+k%3)
		}
	}
	for _, suf := range bodySuffixes { // the empty body and the comment-only body
		g.funBodyCase(nil, nil, suf, "function-body", 0, 1)
		g.funBodyCase([]int64{0}, []*N{nd(tReturn, nil, nd(tBin, []int64{19}, id(0), numLit("1")))}, " "+suf, "function-body", 0, 2)
	}
}

// ---------------------------------------------------------------- regular expression literals ending a statement

type rxFollower struct {
	text  string
	tree  func() *N
	ident bool // starts with an identifier: after a line terminator that is the recorded region C03-regexp-flags-detached
}

// a regular expression literal as the last token of a statement x the way the statement ends x what follows.
// The scanner first reads "/" or "/=" and the parser re-scans the literal: both first tokens, with and without flags.
func (g *gen) regexStatementEnds() {
	a := id(0)
	patterns := []string{"=", "==", "=+", "=x", "[/]", `\/`, "a", "[=]", `\=`, "x="}
	flags := []string{"", "g", "im"}
	rx := func(p, f string) *N {
		pu, fu := Units(p), Units(f)
		vals := []int64{int64(len(pu))}
		for _, u := range pu {
			vals = append(vals, int64(u))
		}
		for _, u := range fu {
			vals = append(vals, int64(u))
		}
		return &N{Tag: tRegex, Vals: vals, Text: "/" + p + "/" + f}
	}
	type head struct {
		text   string
		tree   func(x *N) *N
		inFunc bool
	}
	heads := []head{
		{"x = ", func(x *N) *N { return es(asg(id(3), x)) }, false},
		{"var r = ", func(x *N) *N { return nd(tVar, nil, &N{Tag: tDecl, Vals: []int64{lookupName("r")}, Kids: []*N{x}}) }, false},
		{"x = a ? a : ", func(x *N) *N { return es(asg(id(3), nd(tCond, nil, a, a, x))) }, false},
		{"return ", func(x *N) *N { return nd(tReturn, nil, x) }, true},
		{"throw ", func(x *N) *N { return nd(tThrow, nil, x) }, false},
		{"", func(x *N) *N { return es(x) }, false},
		{"a / ", func(x *N) *N { return es(nd(tBin, []int64{22}, a, x)) }, false},
		{"do ; while (a)\n", func(x *N) *N { return es(x) }, false}, // the literal starts a statement after do-while
	}
	followers := []rxFollower{
		{"var m = 1", func() *N {
			return nd(tVar, nil, &N{Tag: tDecl, Vals: []int64{lookupName("m")}, Kids: []*N{numLit("1")}})
		}, false},
		{"++a", func() *N { return es(nd(tUn, []int64{7}, id(0))) }, false},
		{"--a", func() *N { return es(nd(tUn, []int64{8}, id(0))) }, false},
		{"if (a) b", func() *N { return nd(tIf, nil, id(0), es(id(1))) }, false},
		{"function g(){}", func() *N { return &N{Tag: tFunDecl, Vals: []int64{35}} }, false},
		{"{}", func() *N { return &N{Tag: tBlock} }, false},
		{"'s'", func() *N { return es(&N{Tag: tStr, Vals: []int64{'s'}}) }, false},
		{"this", func() *N { return es(&N{Tag: tThis}) }, false},
		{"!a", func() *N { return es(nd(tUn, []int64{2}, id(0))) }, false},
		{"1", func() *N { return es(numLit("1")) }, false},
		{"while (a) ;", func() *N { return nd(tWhile, nil, id(0), &N{Tag: tEmpty}) }, false},
		{"debugger", func() *N { return &N{Tag: tDebugger} }, false},
		{"y = 2", func() *N { return es(asg(id(4), numLit("2"))) }, true},
		{"z: ;", func() *N { return &N{Tag: tLabel, Vals: []int64{5}, Kids: []*N{{Tag: tEmpty}}} }, true},
	}
	terms := []string{";", " ;", "\n", "\r\n", "\r", "\u2028", "\u2029", "\n\n", " \n ", "// c\n", " /* c */\n", "", "}"} // "" = end of input, "}" = end of block
	k := 0
	for hi, h := range heads {
		for pi, p := range patterns {
			for fi, f := range flags {
				for ti, term := range terms {
					for wi, fo := range followers {
						k++
						if term != "" && term != "}" && fo.ident && !strings.HasPrefix(strings.TrimSpace(term), ";") {
							continue // recorded region C03-regexp-flags-detached (pinned)
						}
						if (term == "" || term == "}") && wi > 0 {
							continue // nothing follows inside the block / the input
						}
						if g.env.Tier != "thorough" && term != "" && term != "}" && (hi+pi+fi+ti+wi+int(g.env.Seed%30))%30 != 0 {
							continue // quick tier: a thirtieth of the grid, rotating with the seed
						}
						first := h.tree(rx(p, f))
						stmts := []*N{first}
						src := h.text + "/" + p + "/" + f
						switch term {
						case "":
						case "}":
						default:
							stmts = append(stmts, fo.tree())
							src += term + fo.text
						}
						if strings.HasPrefix(h.text, "do ;") {
							stmts = append([]*N{nd(tDo, nil, &N{Tag: tEmpty}, a)}, stmts...)
						}
						var want *N
						if h.inFunc || term == "}" {
							src = "function f(){" + src + "}"
							want = &N{Tag: tProg, Kids: []*N{{Tag: tFunDecl, Vals: []int64{34}, Kids: stmts}}}
						} else {
							want = &N{Tag: tProg, Kids: stmts}
						}
						got, errText := parseProgram(src)
						obs, shown := "None", "syntax error: "+errText
						if got != nil {
							obs = "(Some (" + got.coq() + "))"
							shown = "tree " + got.coq()
							if equalTree(got, want) {
								shown = "the generating tree"
							}
						}
						g.add(fmt.Sprintf("CProg (%s) %s", want.coq(), obs),
							fmt.Sprintf("program %q -> %s ; generating tree %s", src, shown, want.coq()), "regexp-statement-end", true)
					}
				}
			}
		}
	}
}
