// c03: every white-space code point and line terminator of ES5 7.2 / 7.3 between every pair of token kinds;
// numeric literals at a line end.
package main

import (
	"fmt"
	"strings"
)

// ES5 7.2: TAB VT FF SP NBSP BOM and every Zs (Unicode >= 6.3: U+180E is Cf, not Zs, and is left out)
var whiteSpaceChars = []rune{0x09, 0x0b, 0x0c, 0x20, 0xa0, 0xfeff, 0x1680, 0x2000, 0x2001, 0x2002, 0x2003, 0x2004, 0x2005, 0x2006, 0x2007,
	0x2008, 0x2009, 0x200a, 0x202f, 0x205f, 0x3000}
var lineTerminators = []string{"\n", "\r", "\r\n", "\u2028", "\u2029"}

func (g *gen) whiteSpaceGrid() {
	a, b, c := id(0), id(1), id(2)
	// programs that put every kind of token next to every other: identifier, keyword, number, string, regexp,
	// each punctuator class
	progs := func() [][]*N {
		var out [][]*N
		for _, s := range sampleStatements() {
			body := nd(tWhile, nil, c, &N{Tag: tBlock, Kids: []*N{s}})
			out = append(out, []*N{{Tag: tFunDecl, Vals: []int64{34}, Kids: []*N{{Tag: tLabel, Vals: []int64{5}, Kids: []*N{body}}}}})
		}
		lits := func() []*N {
			return []*N{numLit("1"), numLit(".5"), numLit("5."), numLit("0x1F"), numLit("1e3"), {Tag: tStr, Vals: []int64{'s'}, Text: "'s'"},
				{Tag: tStr, Vals: []int64{'"'}, Text: `"\""`}, rxLit("x", "g"), rxLit("=", ""), rxLit("[/]", "im"), {Tag: tNull}, {Tag: tBool, Vals: []int64{1}}, {Tag: tThis}}
		}
		for i := range lits() {
			l, m := lits()[i], lits()[(i+5)%len(lits())]
			out = append(out, []*N{
				es(asg(id(3), nd(tCond, nil, nd(tBin, []int64{10}, l, m), &N{Tag: tArr, Kids: []*N{l, {Tag: tHole}, m}}, nd(tCall, nil, nd(tDot, []int64{0}, nd(tParen, nil, l)), m, nd(tUn, []int64{1}, l))))),
				nd(tVar, nil, &N{Tag: tDecl, Vals: []int64{4}, Kids: []*N{nd(tBin, []int64{22}, nd(tIdx, nil, a, l), nd(tUn, []int64{6}, m))}}),
				es(&N{Tag: tObj, Kids: []*N{{Tag: tProp, Vals: append([]int64{0}, unitsVals("k")...), Text: "k", Kids: []*N{l}},
					{Tag: tProp, Vals: append([]int64{1}, unitsVals("g")...), Text: "g", Kids: []*N{{Tag: tFun, Vals: []int64{-1}, Kids: []*N{nd(tReturn, nil, m)}}}}}}),
				nd(tIf, nil, nd(tBin, []int64{15}, l, b), es(nd(tPost, []int64{1}, a)), es(nd(tUn, []int64{8}, b))),
			})
		}
		return out
	}
	n := len(progs())
	var seps []string
	for _, w := range whiteSpaceChars {
		seps = append(seps, string(w))
	}
	seps = append(seps, lineTerminators...)
	for si, sep := range seps {
		for i := 0; i < n; i++ {
			if g.env.Tier != "thorough" && (si+i+int(g.env.Seed%3))%3 != 0 && i >= 12 {
				continue // quick tier: the first twelve programs under every separator, a third of the others
			}
			uniformSep = sep
			g.progCase(progs()[i], fmt.Sprintf("white-space-U+%04X", []rune(sep)[0]), 1, 1)
			uniformSep = ""
		}
		// expressions (also judged by the Coq parser model, with the line-terminator flags)
		for _, e := range []*N{
			nd(tBin, []int64{19}, nd(tPost, []int64{1}, a), nd(tUn, []int64{7}, b)),
			asg(nd(tDot, []int64{1}, a), nd(tCond, nil, nd(tBin, []int64{15}, a, b), nd(tNew, nil, c, numLit("1")), nd(tUn, []int64{6}, rxLit("x", "g")))),
			nd(tCall, nil, nd(tIdx, nil, a, &N{Tag: tStr, Vals: []int64{'s'}, Text: "'s'"}), nd(tBin, []int64{0}, a, b), nd(tUn, []int64{4}, nd(tDot, []int64{100}, c))),
		} {
			uniformSep = sep
			g.exprCase(e, fmt.Sprintf("white-space-U+%04X", []rune(sep)[0]), 1)
			uniformSep = ""
		}
	}
}

// a numeric literal as the last token of a line: every spelling x every line terminator x what follows
func (g *gen) numericLineEnds() {
	a := id(0)
	spellings := []string{".5", "5.", "5", "0.5", "5e1", ".5e-1", "5.e+1", "0x1F", "0X0", "017", "0", "0.0", "1E3", ".0", "9007199254740993"}
	type ctxt struct {
		pre  string
		post []string // what may follow on the next line
		mk   func(lit *N, follower int) *N
	}
	x, y := id(3), id(4)
	followers := []struct {
		text string
		tree func() *N
	}{
		{"var y", func() *N { return nd(tVar, nil, &N{Tag: tDecl, Vals: []int64{4}}) }},
		{"++y", func() *N { return es(nd(tUn, []int64{7}, y)) }},
		{"--y", func() *N { return es(nd(tUn, []int64{8}, y)) }},
		{".5", func() *N { return es(numLit(".5")) }},
		{"y", func() *N { return es(y) }},
		{"if (a) y", func() *N { return nd(tIf, nil, a, es(y)) }},
		{"function g(){}", func() *N { return &N{Tag: tFunDecl, Vals: []int64{35}} }},
	}
	k := 0
	for _, sp := range spellings {
		for li, lt := range append(append([]string{}, lineTerminators...), " // c\n", "") {
			lit := func() *N { return numLit(sp) }
			emit := func(src string, want *N) {
				k++
				got, errText := parseProgram(src)
				obs, shown := "None", "syntax error: "+errText
				if got != nil {
					obs = "(Some (" + got.coq() + "))"
					shown = "tree " + got.coq()
					if equalTree(got, want) {
						shown = "the generating tree"
					}
				}
				g.add(fmt.Sprintf("CProg (%s) %s", want.coq(), obs), fmt.Sprintf("program %q -> %s ; generating tree %s", src, shown, want.coq()), "numeric-line-end", true)
			}
			prog := func(s ...*N) *N { return &N{Tag: tProg, Kids: s} }
			if lt == "" { // end of input
				emit("x = "+sp, prog(es(asg(x, lit()))))
				emit("var x = "+sp, prog(nd(tVar, nil, &N{Tag: tDecl, Vals: []int64{3}, Kids: []*N{lit()}})))
				emit("throw "+sp, prog(nd(tThrow, nil, lit())))
				emit(sp, prog(es(lit())))
				emit("function f(){return "+sp+"}", prog(&N{Tag: tFunDecl, Vals: []int64{34}, Kids: []*N{nd(tReturn, nil, lit())}}))
				continue
			}
			for fi, fo := range followers {
				if g.env.Tier != "thorough" && (li+fi+k)%2 != 0 && fi > 2 {
					continue // quick tier: var / ++ / -- always, half of the other followers
				}
				emit("x = "+sp+lt+fo.text, prog(es(asg(x, lit())), fo.tree()))
				if g.env.Tier != "thorough" && (fi > 2 || (li+fi+len(sp))%2 == 0) {
					continue // quick tier: the other three contexts for half of the var / ++ / -- followers
				}
				emit("var x = 1, z = "+sp+lt+fo.text, prog(nd(tVar, nil, &N{Tag: tDecl, Vals: []int64{3}, Kids: []*N{numLit("1")}}, &N{Tag: tDecl, Vals: []int64{5}, Kids: []*N{lit()}}), fo.tree()))
				emit("throw "+sp+lt+fo.text, prog(nd(tThrow, nil, lit()), fo.tree()))
				emit("x = a ? 1 : "+sp+lt+fo.text, prog(es(asg(x, nd(tCond, nil, a, numLit("1"), lit()))), fo.tree()))
			}
			emit("if (a) x = "+sp+lt+"else y", prog(nd(tIf, nil, a, es(asg(x, lit())), es(y))))
			emit("do x = "+sp+lt+"while (a)", prog(nd(tDo, nil, es(asg(x, lit())), a)))
			emit("function f(){return "+sp+lt+"}", prog(&N{Tag: tFunDecl, Vals: []int64{34}, Kids: []*N{nd(tReturn, nil, lit())}}))
			emit("function f(){return "+sp+lt+"y}", prog(&N{Tag: tFunDecl, Vals: []int64{34}, Kids: []*N{nd(tReturn, nil, lit()), es(y)}}))
			emit("switch (a) {case "+sp+":"+lt+"x = "+sp+lt+"break"+lt+"}", prog(nd(tSwitch, nil, a, &N{Tag: tCase, Kids: []*N{lit(), es(asg(x, lit())), {Tag: tBreak, Vals: []int64{-1}}}})))
		}
	}
	_ = strings.TrimSpace
}
