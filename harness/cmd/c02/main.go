// c02: inventory translator and correspondence cases for property C02
// (no script can crash or wedge the embedding Go program).
//
//	c02 -inventory FILE      walk the global object graph of a fresh runtime through the
//	                         public API and write every reachable function as coq/C02/Inventory.v
//	c02 -seed S -n N ...     the correspondence run (see runC02)
package main

import (
	"errors"
	"fmt"
	"math"
	"math/rand"
	"os"
	"os/exec"
	"regexp"
	"runtime/debug"
	"sort"
	"strconv"
	"strings"
	"sync"
	"time"

	"github.com/robertkrimen/otto"
	. "ottoh/lib"
)

func main() {
	if len(os.Args) >= 3 && os.Args[1] == "-inventory" {
		writeInventory(os.Args[2])
		return
	}
	if len(os.Args) >= 2 && os.Args[1] == "-matrix" {
		silenceStdout()
		dumpMatrix(os.Args[2:])
		return
	}
	if len(os.Args) >= 2 && os.Args[1] == "-explore" {
		silenceStdout()
		explore(os.Args[2:])
		os.Exit(0)
	}
	if len(os.Args) >= 3 && os.Args[1] == "-child" {
		childProbe(os.Args[2])
		return
	}
	env := FromFlags("c02")
	out := silenceStdout()
	runC02(env)
	env.Finish()
	fmt.Fprintf(out, "c02: %d cases\n", env.Count())
	// goroutines abandoned by the watchdog may still be spinning
	os.Exit(0)
}

// console.* of otto prints to os.Stdout; keep the harness output small.
func silenceStdout() *os.File {
	real := os.Stdout
	if null, err := os.OpenFile(os.DevNull, os.O_WRONLY, 0); err == nil {
		os.Stdout = null
	}
	return real
}

// ---------------------------------------------------------------------------
// inventory of reachable built-in functions

// The walk is breadth first over own properties (data properties, getters and
// setters) with names sorted, so that every function gets its shortest,
// alphabetically first path.  Besides the global object the roots are the
// values a script can make without naming a built-in: a function, a bound
// function, an arguments object.
const walkJS = `(function(){
  var seen = [], out = [];
  var fn = function(a, b){ return a; };
  var queue = [[this, 'this'], [fn, '%fn'], [fn.bind(null), '%bound'], [(function(){ return arguments; })(1, 2), '%arguments'], [new Error('e'), '%error'], [(function(){ try { null.x } catch (e) { return e } })(), '%thrown']];
  while (queue.length) {
    var it = queue.shift(), o = it[0], path = it[1];
    if (o === null || (typeof o !== 'object' && typeof o !== 'function')) continue;
    if (seen.indexOf(o) >= 0) continue;
    seen.push(o);
    if (typeof o === 'function' && path.charAt(0) !== '%') out.push(path);
    if (typeof o === 'function' && path.charAt(0) === '%' && path.indexOf('.') >= 0) out.push(path);
    var names = Object.getOwnPropertyNames(o).sort();
    for (var i = 0; i < names.length; i++) {
      var n = names[i];
      if (typeof __skipCaller !== 'undefined' && n === 'caller' && path.charAt(0) === '%') continue;
      var d = Object.getOwnPropertyDescriptor(o, n);
      if (!d) continue;
      var p = (path === 'this' ? n : path + '.' + n);
      if ('value' in d) queue.push([d.value, p]);
      else { if (d.get) queue.push([d.get, p + '<get>']); if (d.set) queue.push([d.set, p + '<set>']); }
    }
  }
  return out.join('\n');
})()`

func inventory() []string {
	vm := otto.New()
	o := RunJS(vm, walkJS)
	if o.Panic != nil {
		// a descriptor that cannot be read (the repaired C02-caller-descriptor coming back) must not stop
		// the run: walk without the 'caller' accessors; the regression cases then report the panic as a case
		vm = otto.New()
		Must(vm.Set("__skipCaller", true))
		o = RunJS(vm, walkJS)
		if o.Panic != nil {
			fmt.Fprintln(os.Stderr, "c02: inventory walk panicked:", o.Panic)
			os.Exit(1)
		}
	}
	v, err := o.Val, o.Err
	if err != nil {
		fmt.Fprintln(os.Stderr, "c02: inventory walk failed:", err)
		os.Exit(1)
	}
	paths := strings.Split(v.String(), "\n")
	sort.Strings(paths)
	return paths
}

// JS expression that evaluates to the function at an inventory path
func pathExpr(p string) string {
	root := ""
	switch {
	case strings.HasPrefix(p, "%fn"):
		root, p = "(function(a, b){ return a; })", strings.TrimPrefix(p, "%fn")
	case strings.HasPrefix(p, "%bound"):
		root, p = "(function(a, b){ return a; }).bind(null)", strings.TrimPrefix(p, "%bound")
	case strings.HasPrefix(p, "%error"):
		root, p = "new Error('e')", strings.TrimPrefix(p, "%error")
	case strings.HasPrefix(p, "%thrown"):
		root, p = "(function(){ try { null.x } catch (e) { return e } })()", strings.TrimPrefix(p, "%thrown")
	case strings.HasPrefix(p, "%arguments"):
		root, p = "(function(){ return arguments; })(1, 2)", strings.TrimPrefix(p, "%arguments")
	}
	p = strings.TrimPrefix(p, ".")
	expr := root
	for _, seg := range strings.Split(p, ".") {
		if seg == "" {
			continue
		}
		if i := strings.IndexByte(seg, '<'); i >= 0 { // name<get> / name<set>: through the descriptor
			owner := expr
			if owner == "" {
				owner = "this"
			}
			expr = fmt.Sprintf("Object.getOwnPropertyDescriptor(%s, %q).%s", owner, seg[:i], seg[i+1:i+4])
			continue
		}
		if expr == "" {
			expr = seg
		} else {
			expr += "." + seg
		}
	}
	return expr
}

func coqString(s string) string { return `"` + strings.ReplaceAll(s, `"`, `""`) + `"` }

func writeInventory(file string) {
	paths := inventory()
	var b strings.Builder
	b.WriteString("(* GENERATED by harness/cmd/c02 -inventory on every run of tools/check C02:\n" +
		"   every function reachable from the global object of a fresh otto runtime\n" +
		"   (own data properties, getters, setters; breadth first, shortest path),\n" +
		"   walked through the public API.  Do not edit. *)\n")
	b.WriteString("From Coq Require Import String List.\nImport ListNotations.\nOpen Scope string_scope.\n\n")
	b.WriteString("Definition inventory : list string := [\n")
	for i, p := range paths {
		b.WriteString("  " + coqString(p))
		if i+1 < len(paths) {
			b.WriteString(";")
		}
		b.WriteString("\n")
	}
	b.WriteString("].\n")
	old, _ := os.ReadFile(file)
	if string(old) == b.String() {
		return // keep the timestamp: nothing to rebuild
	}
	Must(os.WriteFile(file, []byte(b.String()), 0o644))
}

// ---------------------------------------------------------------------------
// receivers and arguments

type goStruct struct {
	A int
	B string
	C []int
	M map[string]int
}

// A receiver kind is what the discipline table of Coq speaks about; each kind
// has several instances so that the content (empty, sparse, non-ASCII, NaN...)
// varies too.  An instance is either JS source or a Go value to bridge.
type instance struct {
	js string
	gv func() interface{}
}

type kind struct {
	id        int
	name      string
	instances []instance
}

func js(srcs ...string) []instance {
	out := make([]instance, len(srcs))
	for i, s := range srcs {
		out[i] = instance{js: s}
	}
	return out
}

var recvKinds = []kind{
	{0, "undefined", js("undefined")},
	{1, "null", js("null")},
	{2, "boolean", js("true", "false")},
	{3, "number", js("5", "0", "-1", "NaN", "1.5", "9007199254740992", "-Infinity", "-0")},
	{4, "string", js(`"abc"`, `""`, `"a𐀀b"`, `"  x "`, `"12"`, `"éa"`, `"\ud800"`)},
	{5, "object", js("({})", "({length:2,0:'a',1:'b'})", "Object.create(null)", "({a:1,b:{c:2}})", "({length:'2',1:1})", "Object.freeze({x:1})")},
	{6, "array", js("[]", "[1,2,3]", "[,'a',,]", "[[1],[2]]", "['b','a',undefined,null]", "(function(){var a=[];a[40]=1;return a})()", "Object.freeze([1,2])")},
	{7, "function", js("(function(a,b){return a})", "Math.abs", "(function(){}).bind(null,1)", "Object")},
	{8, "Date", js("new Date(0)", "new Date(NaN)", "new Date(8640000000000000)", "new Date(-1)")},
	{9, "RegExp", js("/a/g", "/(?:)/", "/(a)|(b)/i", "new RegExp('^x$','m')")},
	{10, "Error", js("new Error('x')", "new TypeError()", "new RangeError(1)")},
	{11, "arguments", js("(function(){return arguments})(1,2)", "(function(){return arguments})()", "(function(a){return arguments})('x','y','z')")},
	{12, "GoSlice", []instance{{gv: func() interface{} { return []int{1, 2, 3} }}, {gv: func() interface{} { return []string{"a", "b"} }},
		{gv: func() interface{} { return []interface{}{1, "x", nil, 2.5} }}, {gv: func() interface{} { return []int8{} }}, {gv: func() interface{} { return []float64(nil) }}}},
	{13, "GoMap", []instance{{gv: func() interface{} { return map[string]int{"a": 1, "b": 2} }}, {gv: func() interface{} { return map[string]interface{}{"x": "y", "length": 2} }},
		{gv: func() interface{} { return map[string]string(nil) }}, {gv: func() interface{} { return map[int]string{1: "a"} }}}},
	{14, "GoStruct", []instance{{gv: func() interface{} { return goStruct{A: 1, B: "b"} }}, {gv: func() interface{} { return &goStruct{A: 2, C: []int{1}, M: map[string]int{"k": 1}} }}}},
	{15, "BooleanObject", js("new Boolean(false)", "new Boolean(true)")},
	{16, "NumberObject", js("new Number(3)", "new Number(NaN)", "new Number(-0.5)")},
	{17, "StringObject", js(`new String("xyz")`, `new String("")`, `new String("é𐀀")`)},
	{18, "global", js("this")},
	{19, "GoArray", []instance{{gv: func() interface{} { return [3]int{1, 2, 3} }}, {gv: func() interface{} { return &[2]string{"a", "b"} }}}},
	{20, "GoFunc", []instance{{gv: func() interface{} { return func(a int) int { return a + 1 } }}, {gv: func() interface{} { return func(call otto.FunctionCall) otto.Value { return call.Argument(0) } }}}},
	{21, "MathJSON", js("Math", "JSON")},
}

// argument kinds; objects with throwing conversions are what makes a built-in
// show where it coerces
var argKinds = []kind{
	{0, "undefined", js("undefined")},
	{1, "null", js("null")},
	{2, "boolean", js("true", "false")},
	{3, "smallint", js("0", "1", "2", "3", "7", "16", "36", "100")},
	{4, "negative", js("-1", "-2", "-0", "-1.5", "-2147483648", "-2147483649", "-9007199254740992")},
	{5, "NaN", js("NaN")},
	{6, "infinity", js("Infinity", "-Infinity")},
	{7, "bigint", js("9007199254740992", "2147483647", "2147483648", "4294967295", "4294967296", "1e21", "1.7976931348623157e308", "9223372036854775807", "18446744073709551616")},
	{8, "fraction", js("0.5", "1.5", "2.5", "1e-7", "5e-324", "20.9", "21", "100.5", "101")},
	{9, "string", js(`"abc"`, `""`, `"a"`, `","`, `"a𐀀b"`, `"\ud800"`, `"  12  "`, `"0x10"`, `"length"`, `"constructor"`, `"__proto__"`, `"%E0%A4%A"`, `"%"`, `"\\"`, `"("`, `"[a"`, `"a{1,"`, `"(?<n>a)"`, `"\\1"`, `"gim"`, `"gg"`, `"{"`, `"[1,2"`, `"{\"a\":1}"`, `"$1$&$'"`, `"$"`, `"1e1000"`, `"2000-01-01T00:00:00Z"`, `"return 1"`, `"a,b"`, `"a b"`, `"1"`, `"-1"`, `"4294967295"`, `"4294967296"`, `"caller"`)},
	{10, "longstring", js(`new Array(5001).join("a")`, `new Array(2001).join("é𐀀")`, `new Array(3001).join("(")`, `new Array(1001).join("[1,")`, `new Array(2001).join("%41")`)},
	{11, "object", js("({})", "({length:2,0:'a',1:'b'})", "({valueOf:function(){return 1}})", "({toString:function(){return 'x'}})", "({value:1,writable:true,enumerable:true,configurable:true})", "({get:function(){return 1}})", "({get:1})", "({a:{value:1}})", "Object.create(null)", "({toJSON:function(){return 1}})", "({length:-1})", "({length:1.5,0:1,1:2})")},
	{12, "throwing", js("({valueOf:function(){throw new RangeError('v')},toString:function(){throw new RangeError('s')}})", "({valueOf:function(){return {}},toString:function(){return {}}})", "({get length(){throw new RangeError('l')}})", "({toJSON:function(){throw new RangeError('j')}})", "({get value(){throw new RangeError('g')}})")},
	{13, "array", js("[]", "[1,2,3]", "[,'a',,]", "['b',undefined,'a']", "[[]]", "[NaN,-0,0]", "['length','x']", "[{valueOf:function(){throw new RangeError('e')}}]", "(function(){var a=[1,2,3];a.length=2;return a})()")},
	{14, "function", js("(function(a,b){return a})", "(function(){throw new RangeError('f')})", "(function(a,b){return b-a})", "(function(){return {}})", "Math.abs", "(function(){return 1})", "String.prototype.trim", "(function(k,v){return v})")},
	{15, "regexp", js("/a/g", "/(?:)/g", "/(a)(b)?/", "/$/", "/./gim")},
	{16, "date", js("new Date(0)", "new Date(NaN)")},
	{17, "bridged", []instance{{gv: func() interface{} { return []int{1, 2, 3} }}, {gv: func() interface{} { return map[string]int{"a": 1} }}, {gv: func() interface{} { return goStruct{A: 1} }},
		{gv: func() interface{} { return []interface{}(nil) }}, {gv: func() interface{} { return map[string]interface{}(nil) }}, {gv: func() interface{} { return &goStruct{} }},
		{gv: func() interface{} { return func(a, b int) int { return a - b } }}, {gv: func() interface{} { return [2]int{1, 2} }}}},
	// positions around the ends of the short receivers ("abc", "", [1,2,3], [])
	{18, "boundary", js("-5", "-4", "-3", "-2", "-1", "0", "1", "2", "3", "4", "5")},
}

func (in instance) make(vm *otto.Otto) (otto.Value, string) {
	if in.gv != nil {
		g := in.gv()
		v, err := vm.ToValue(g)
		if err != nil {
			panic(fmt.Sprintf("c02: cannot bridge %T: %v", g, err))
		}
		return v, fmt.Sprintf("go:%#v", g)
	}
	if in.js == "undefined" {
		return otto.UndefinedValue(), "undefined"
	}
	v, err := vm.Run("(" + in.js + ")")
	if err != nil {
		panic(fmt.Sprintf("c02: instance %s: %v", in.js, err))
	}
	return v, in.js
}

// ---------------------------------------------------------------------------
// guarded execution with a wall-clock watchdog

const classHang = 10

type observed struct {
	class int64
	info  string
}

// watch runs f on its own goroutine; if it does not come back within the
// limit the case is recorded as a hang (class 10) and the goroutine is
// abandoned together with its runtime.
func watch(limit time.Duration, f func() Outcome) observed {
	ch := make(chan Outcome, 1)
	go func() { ch <- f() }()
	select {
	case o := <-ch:
		ob := observed{class: ErrClass(o)}
		switch {
		case o.Panic != nil:
			if pp, ok := o.Panic.(postPanic); ok {
				ob.class = 13
				ob.info = fmt.Sprintf("returned, then GO PANIC in an accessor of the returned Value %T: %.160v", pp.payload, pp.payload)
			} else {
				ob.info = fmt.Sprintf("GO PANIC %T: %.200v", o.Panic, o.Panic)
			}
		case o.Err != nil:
			ob.info = fmt.Sprintf("error %.120s", o.Err.Error())
		default:
			ob.info = "returned"
		}
		return ob
	case <-time.After(limit):
		return observed{class: classHang, info: "NO RETURN within " + limit.String()}
	}
}

var errSetup = errors.New("setup")

// one call of a built-in through Value.Call / the `new` route of Otto.Call
type callSpec struct {
	path  string
	route int // 0 Value.Call (Go API), 1 JS f.call(recv, args...) inside Run, 2 construct via `new`
	recv  instance
	rk    int
	args  []instance
	aks   []int
}

func (c callSpec) run() (observed, string) {
	vm := otto.New()
	recv, rtxt := c.recv.make(vm)
	args := make([]interface{}, len(c.args))
	atxt := make([]string, len(c.args))
	for i, a := range c.args {
		args[i], atxt[i] = a.make(vm)
	}
	fnv, err := vm.Run(pathExpr(c.path))
	if err != nil || !fnv.IsFunction() {
		panic(fmt.Sprintf("c02: path %s (%s) does not evaluate to a function: %v", c.path, pathExpr(c.path), err))
	}
	var ob observed
	var txt string
	switch c.route {
	case 0:
		txt = fmt.Sprintf("Value.Call: (%s).call(%s%s)", pathExpr(c.path), rtxt, joinArgs(atxt))
		ob = watch(watchLimit, func() Outcome { return guardCall(func() (otto.Value, error) { return fnv.Call(recv, args...) }) })
	case 1:
		Must(vm.Set("__f", fnv))
		Must(vm.Set("__r", recv))
		names := make([]string, len(args))
		for i, a := range args {
			names[i] = fmt.Sprintf("__a%d", i)
			Must(vm.Set(names[i], a))
		}
		src := "__f.call(__r" + joinArgs(names) + ")"
		txt = fmt.Sprintf("Run: (%s).call(%s%s)", pathExpr(c.path), rtxt, joinArgs(atxt))
		ob = watch(watchLimit, func() Outcome { return guardCall(func() (otto.Value, error) { return vm.Run(src) }) })
	default:
		Must(vm.Set("__f", fnv))
		txt = fmt.Sprintf("Otto.Call: new (%s)(%s)", pathExpr(c.path), strings.TrimPrefix(joinArgs(atxt), ", "))
		ob = watch(watchLimit, func() Outcome {
			return guardCall(func() (otto.Value, error) { return vm.Call("new __f", nil, args...) })
		})
	}
	return ob, txt
}

var watchLimit = 4 * time.Second

// a call followed, when it returned a value, by the accessors a host would use on it
type postPanic struct{ payload interface{} }

func guardCall(f func() (otto.Value, error)) Outcome {
	var post interface{}
	o := Guard(func() (otto.Value, error) {
		v, err := f()
		if err == nil {
			func() {
				defer func() { post = recover() }()
				touch(v)
			}()
		}
		return v, err
	})
	if o.Panic == nil && post != nil {
		o.Panic = postPanic{post}
	}
	return o
}

func touch(v otto.Value) {
	_ = v.String()
	_, _ = v.ToString()
	_, _ = v.ToInteger()
	_, _ = v.ToFloat()
	_, _ = v.ToBoolean()
	_ = v.Class()
	_ = v.IsFunction()
	if !v.IsObject() {
		_, _ = v.Export()
		return
	}
	o := v.Object()
	_ = o.Class()
	_ = o.Keys()
	_ = o.KeysByParent()
	_, _ = o.Get("length")
	_, _ = o.Get("0")
	_, _ = o.Call("toString")
	_, _ = o.MarshalJSON()
}

func joinArgs(a []string) string {
	if len(a) == 0 {
		return ""
	}
	return ", " + strings.Join(a, ", ")
}

// ---------------------------------------------------------------------------
// exploration aid: outcome of every built-in x receiver kind with no arguments

func dumpMatrix(filter []string) {
	for _, p := range inventory() {
		if len(filter) > 0 && !strings.Contains(p, filter[0]) {
			continue
		}
		var row []string
		for _, rk := range recvKinds {
			ob, _ := callSpec{path: p, route: 0, recv: rk.instances[0], rk: rk.id}.run()
			row = append(row, fmt.Sprintf("%d", ob.class))
		}
		fmt.Fprintf(os.Stderr, "%-42s %s\n", p, strings.Join(row, " "))
	}
}

// exploration aid: every built-in x every receiver kind x a seeded sample of
// argument tuples; prints what escaped or hung
func explore(args []string) {
	n := 40
	seed := int64(1)
	if len(args) > 0 {
		fmt.Sscan(args[0], &n)
	}
	if len(args) > 1 {
		fmt.Sscan(args[1], &seed)
	}
	rng := rand.New(rand.NewSource(seed))
	type job struct {
		c callSpec
	}
	var specs []callSpec
	for _, p := range inventory() {
		if len(args) > 2 && !strings.Contains(p, args[2]) {
			continue
		}
		for _, rk := range recvKinds {
			for k := 0; k < n; k++ {
				c := callSpec{path: p, route: rng.Intn(3), rk: rk.id, recv: Pick(rng, rk.instances)}
				if c.route == 2 {
					c.route = 0
				}
				na := rng.Intn(4)
				for a := 0; a < na; a++ {
					ak := Pick(rng, argKinds)
					c.aks = append(c.aks, ak.id)
					c.args = append(c.args, Pick(rng, ak.instances))
				}
				specs = append(specs, c)
			}
		}
	}
	type res struct {
		ob  observed
		txt string
	}
	out := make([]res, len(specs))
	var wg sync.WaitGroup
	sem := make(chan struct{}, 12)
	for i := range specs {
		wg.Add(1)
		sem <- struct{}{}
		go func(i int) {
			defer wg.Done()
			defer func() { <-sem }()
			ob, txt := specs[i].run()
			out[i] = res{ob, txt}
		}(i)
	}
	wg.Wait()
	counts := map[string]int{}
	first := map[string]string{}
	for i, r := range out {
		if r.ob.class >= 9 {
			key := specs[i].path + " | " + r.ob.info
			if len(key) > 150 {
				key = key[:150]
			}
			counts[key]++
			if _, ok := first[key]; !ok {
				first[key] = r.txt
			}
		}
	}
	keys := make([]string, 0, len(counts))
	for k := range counts {
		keys = append(keys, k)
	}
	sort.Strings(keys)
	for _, k := range keys {
		fmt.Fprintf(os.Stderr, "%5d %s\n        e.g. %.300s\n", counts[k], k, first[k])
	}
	fmt.Fprintf(os.Stderr, "%d calls\n", len(specs))
}

// ---------------------------------------------------------------------------
// the correspondence run

func cpair(k, i int) string { return fmt.Sprintf("(%d, %d)", k, i) }

type pick struct {
	kind int
	inst int
}

func (c *callSpec) coq(obs int64, ri int, ais []int) string {
	as := make([]string, len(c.aks))
	for i := range c.aks {
		as[i] = cpair(c.aks[i], ais[i])
	}
	return fmt.Sprintf("CCall %s%%string %d %d %d %s %s", coqString(c.path), c.route, c.rk, ri, Clist(as), Cz(obs))
}

type callJob struct {
	spec   callSpec
	ri     int
	ais    []int
	bucket string
	ob     observed
	txt    string
}

func mkJob(path string, route int, rk, ri int, args []pick, bucket string) *callJob {
	j := &callJob{spec: callSpec{path: path, route: route, rk: rk, recv: recvKinds[rk].instances[ri]}, ri: ri, bucket: bucket}
	for _, a := range args {
		j.spec.aks = append(j.spec.aks, a.kind)
		j.spec.args = append(j.spec.args, argKinds[a.kind].instances[a.inst])
		j.ais = append(j.ais, a.inst)
	}
	return j
}

// mirror of Corr.v in_region (only to avoid spending calls where the model declines anyway):
// the one region left is C02-bridged-mutation
func inRegion(path string, rk int, args []pick) bool {
	switch path {
	case "Array.prototype.pop", "Array.prototype.push", "Array.prototype.shift", "Array.prototype.unshift", "Array.prototype.splice", "Array.prototype.reverse", "Array.prototype.sort":
		return rk == 12 || rk == 13 || rk == 14 || rk == 19
	case "Object.assign", "Object.defineProperty", "Object.defineProperties", "Object.freeze", "Object.seal", "Object.preventExtensions", "Object.create":
		for _, a := range args {
			if a.kind == 17 {
				return true
			}
		}
	}
	return false
}

var ctorPaths = map[string]bool{"Array": true, "Boolean": true, "Date": true, "Error": true, "EvalError": true, "Function": true, "Number": true,
	"Object": true, "RangeError": true, "ReferenceError": true, "RegExp": true, "String": true, "SyntaxError": true, "TypeError": true, "URIError": true}

// calls whose ES5 meaning is unbounded work are not made: an array-like
// length of 2^32-1 under a generic Array function walks four thousand million indices
func unbounded(path string, rk, ri int, args []pick) bool {
	hugeLen := func(k, i int) bool { return k == 11 && i == 10 } // ({length:-1})
	if strings.HasPrefix(path, "Array.prototype.") || path == "Function.prototype.apply" || path == "JSON.stringify" || path == "Object.assign" {
		for _, a := range args {
			if hugeLen(a.kind, a.inst) {
				return true
			}
		}
	}
	if path == "Array" || strings.HasPrefix(path, "Array.prototype.") {
		// new Array(4294967295).join() and friends: sparse, but every index is visited
		for _, a := range args {
			if a.kind == 7 || (a.kind == 9 && (a.inst == 33)) {
				return true
			}
		}
	}
	return false
}

func randArgs(r *rand.Rand, n int) []pick {
	out := make([]pick, n)
	for i := range out {
		k := r.Intn(len(argKinds))
		out[i] = pick{k, r.Intn(len(argKinds[k].instances))}
	}
	return out
}

// the pinned witnesses of the listed findings, first on every run
func pinnedJobs() []*callJob {
	P := func(path string, rk, ri int, args ...pick) *callJob { return mkJob(path, 0, rk, ri, args, "pinned") }
	return []*callJob{
		P("String.prototype.charAt", 3, 0, pick{3, 0}),
		P("String.prototype.charCodeAt", 2, 0, pick{3, 0}),
		P("String.prototype.charAt", 4, 0, pick{3, 1}),
		P("Number.prototype.toExponential", 3, 0, pick{7, 0}),
		P("Number.prototype.toPrecision", 3, 0, pick{7, 0}),
		P("Number.prototype.toExponential", 3, 0, pick{3, 7}),
		P("Number.prototype.toLocaleString", 3, 0, pick{9, 30}),
		P("String.prototype.lastIndexOf", 4, 0, pick{9, 2}, pick{7, 7}),
		P("String.prototype.substr", 4, 0, pick{3, 1}, pick{7, 7}),
		P("Object.assign", 0, 0, pick{3, 4}, pick{9, 0}),
		P("Array.prototype.pop", 12, 0),
		P("Array.prototype.push", 12, 0, pick{8, 0}),
		P("Array.prototype.push", 13, 2, pick{3, 1}),
		P("Object.getOwnPropertyDescriptor", 0, 0, pick{14, 0}, pick{9, 35}),
		P("Number.prototype.toFixed", 5, 0),
		P("Error.prototype.toString", 3, 0),
		P("RegExp.prototype.toString", 5, 0),
		mkJob("String.prototype.trim", 1, 0, 0, nil, "pinned"),
	}
}

func productJobs(env *Env, paths []string, budget int) []*callJob {
	r := env.Rng
	var jobs []*callJob
	add := func(path string, route, rk, ri int, args []pick, bucket string) {
		if unbounded(path, rk, ri, args) || inRegion(path, rk, args) {
			env.Dist["skipped:"+map[bool]string{true: "unbounded", false: "region"}[unbounded(path, rk, ri, args)]]++
			return
		}
		jobs = append(jobs, mkJob(path, route, rk, ri, args, bucket))
	}
	if env.Tier == "thorough" {
		// the full product built-in x receiver kind x argument kinds: no argument, every
		// single kind, every pair over one representative kind per coercion class
		// (instances seeded), the two routes alternating
		pairKinds := []int{0, 3, 4, 5, 6, 7, 9, 11, 12, 13, 14, 17, 18}
		inst := func(k int) pick { return pick{k, r.Intn(len(argKinds[k].instances))} }
		for _, p := range paths {
			for _, rk := range recvKinds {
				ri := func() int { return r.Intn(len(rk.instances)) }
				add(p, 0, rk.id, ri(), nil, "product0")
				for a := range argKinds {
					add(p, r.Intn(2), rk.id, ri(), []pick{inst(a)}, "product-1arg")
				}
				for _, a := range pairKinds {
					for _, b := range pairKinds {
						add(p, r.Intn(2), rk.id, ri(), []pick{inst(a), inst(b)}, "product-2args")
					}
				}
				for k := 0; k < 6; k++ {
					add(p, r.Intn(2), rk.id, ri(), randArgs(r, 3), "product-3args")
				}
				if ctorPaths[p] {
					for k := 0; k < 12; k++ {
						add(p, 2, rk.id, ri(), randArgs(r, r.Intn(4)), "product-new")
					}
				}
			}
		}
		return jobs
	}
	per := budget / (len(paths) * len(recvKinds))
	if per < 2 {
		per = 2
	}
	for _, p := range paths {
		for _, rk := range recvKinds {
			// every built-in x every receiver kind: once without arguments ...
			add(p, 0, rk.id, r.Intn(len(rk.instances)), nil, "product0")
			// ... and a seeded sample of argument tuples, on the Go route and the script route
			for k := 1; k < per; k++ {
				route := r.Intn(2)
				if ctorPaths[p] && r.Intn(3) == 0 {
					route = 2
				}
				add(p, route, rk.id, r.Intn(len(rk.instances)), randArgs(r, 1+r.Intn(3)), fmt.Sprintf("product%d", route))
			}
		}
	}
	return jobs
}

// positions -5..5 x -5..5 for every position-taking String and Array function on
// receivers of length 0 and 3: where off-by-one slicing would show
var boundaryPaths = []string{"String.prototype.indexOf", "String.prototype.lastIndexOf", "String.prototype.slice", "String.prototype.substring", "String.prototype.substr",
	"String.prototype.split", "String.prototype.charAt", "String.prototype.charCodeAt", "String.prototype.startsWith", "String.prototype.localeCompare",
	"Array.prototype.slice", "Array.prototype.splice", "Array.prototype.indexOf", "Array.prototype.lastIndexOf", "Array.prototype.concat", "Array.prototype.join",
	"String.fromCharCode", "Number.prototype.toFixed", "Number.prototype.toString", "Number.prototype.toPrecision", "Number.prototype.toExponential", "Array", "Date.UTC", "parseInt"}

func boundaryJobs(env *Env) []*callJob {
	r := env.Rng
	var jobs []*callJob
	recvs := [][2]int{{4, 0}, {4, 1}, {6, 1}, {6, 0}, {17, 0}, {17, 1}, {3, 0}, {16, 0}}
	nb := len(argKinds[18].instances)
	for _, p := range boundaryPaths {
		for _, rc := range recvs {
			for a := 0; a < nb; a++ {
				jobs = append(jobs, mkJob(p, 0, rc[0], rc[1], []pick{{18, a}}, "boundary"))
				for b := 0; b < nb; b++ {
					if env.Tier != "thorough" && r.Intn(4) != 0 {
						continue
					}
					args := []pick{{18, a}, {18, b}}
					if r.Intn(3) == 0 {
						args = []pick{{9, r.Intn(4)}, {18, a}, {18, b}} // a search string first: indexOf(s, pos), split(s, limit)
					}
					if !inRegion(p, rc[0], args) {
						jobs = append(jobs, mkJob(p, 0, rc[0], rc[1], args, "boundary"))
					}
				}
			}
		}
	}
	return jobs
}

func runJobs(jobs []*callJob) {
	var wg sync.WaitGroup
	sem := make(chan struct{}, 12)
	for _, j := range jobs {
		wg.Add(1)
		sem <- struct{}{}
		go func(j *callJob) {
			defer wg.Done()
			defer func() { <-sem }()
			j.ob, j.txt = j.spec.run()
		}(j)
	}
	wg.Wait()
	// a watchdog expiry under a loaded machine is not a hang: such calls are run
	// again, one at a time, with a limit that only a real hang exceeds
	retried := 0
	for _, j := range jobs {
		if j.ob.class == classHang && retried < 3 { // a handful is enough to tell load from a wedge
			retried++
			watchLimit = 90 * time.Second
			j.ob, j.txt = j.spec.run()
			watchLimit = 4 * time.Second
		}
	}
}

func runC02(env *Env) {
	env.Import = "Otto.C02.Corr"
	env.Rule = "calls: every inventoried built-in x every receiver kind (22 kinds, seeded instance) with no arguments and with seeded tuples of 1-3 arguments from 19 kinds (boundary numbers, odd strings, throwing objects, bridged Go values), through Value.Call, through f.call inside Run and (constructors) Otto.Call(\"new ...\"), plus (thorough: the full product with no argument, every argument kind, every pair over 13 representative kinds, plus sampled triples) and the grid of positions -5..5 x -5..5 for 24 position-taking functions on receivers of length 0 and 3; each on a fresh runtime under recover and a wall-clock watchdog, returned values read back through the Value/Object accessors; payloads: 14 panic payload kinds x 8 call/try shapes raised by a host function or the script; stack: every limit 1..8 x nesting 0..limit+2 x 4 shapes plus seeded histories of limit changes on one runtime; sources: truncations, token and byte mutations, invalid UTF-8 and deep nestings of a program corpus through Run, Eval, Compile, Call, Get, Set, Object and Value.To*.  Non-trivial = distinct case with at least one argument, a non-empty history, a wrapped payload or a mutated source"
	paths := inventory()

	budget := env.N
	jobs := pinnedJobs()
	jobs = append(jobs, boundaryJobs(env)...)
	jobs = append(jobs, productJobs(env, paths, budget*6/10)...)
	runJobs(jobs)
	escaped := 0
	for _, j := range jobs {
		if j.ob.class >= 9 {
			escaped++
		}
		env.Add(j.spec.coq(j.ob.class, j.ri, j.ais), j.txt+" -> "+j.ob.info, j.bucket, len(j.spec.args) > 0)
	}
	env.Extra["builtins"] = len(paths)
	env.Extra["receiver_kinds"] = len(recvKinds)
	env.Extra["argument_kinds"] = len(argKinds)
	env.Extra["calls_with_go_panic_or_hang"] = escaped

	accessorCases(env)
	childCases(env)
	payloadCases(env)
	stackCases(env)
	sourceCases(env, budget*2/10)
}

// ---------------------------------------------------------------------------
// panic payloads through the recover boundary

type hostHalt struct{ why string }

func payloadCases(env *Env) {
	for pk := 0; pk <= 13; pk++ {
		for w := 0; w <= 7; w++ {
			obs, txt := onePayload(pk, w)
			env.Add(fmt.Sprintf("CPayload %d %d %s", pk, w, Cz(obs)), txt, "payload", w > 0)
		}
	}
}

func onePayload(pk, w int) (int64, string) {
	vm := otto.New()
	var raised interface{}
	names := []string{"Value(TypeError object)", "Value(string)", "Value(object with throwing toString)", "*otto.Error", "runtime nil-map write",
		"runtime index out of range", "errors.New", "Go string", "host struct", "script: throw 1", "script: null.x", "script: throw new RangeError", "runtime type assertion", "runtime nil dereference"}
	var host func(call otto.FunctionCall) otto.Value
	switch pk {
	case 0:
		host = func(call otto.FunctionCall) otto.Value { v := call.Otto.MakeTypeError("t"); raised = v; panic(v) }
	case 1:
		host = func(call otto.FunctionCall) otto.Value { v, _ := otto.ToValue("boom"); raised = v; panic(v) }
	case 2:
		obj, err := vm.Run(`({toString: function(){ throw 1 }, valueOf: function(){ throw 2 }})`)
		Must(err)
		host = func(call otto.FunctionCall) otto.Value { raised = obj; panic(obj) }
	case 3:
		_, err := vm.Run("null.x")
		var oe *otto.Error
		if !errors.As(err, &oe) {
			panic("c02: no *otto.Error")
		}
		host = func(call otto.FunctionCall) otto.Value { raised = oe; panic(oe) }
	case 4:
		host = func(call otto.FunctionCall) otto.Value { var m map[string]int; m["a"] = 1; return otto.Value{} }
	case 5:
		host = func(call otto.FunctionCall) otto.Value {
			s := []int{}
			i := len(call.ArgumentList) + 3
			_ = s[i]
			return otto.Value{}
		}
	case 6:
		e := errors.New("foreign")
		host = func(call otto.FunctionCall) otto.Value { raised = e; panic(e) }
	case 7:
		host = func(call otto.FunctionCall) otto.Value { raised = "go string"; panic("go string") }
	case 8:
		h := &hostHalt{"stop"}
		host = func(call otto.FunctionCall) otto.Value { raised = h; panic(h) }
	case 9:
		Must(vm.Set("__q", 0))
		_, err := vm.Run("function __p(){ throw 1 }")
		Must(err)
	case 10:
		_, err := vm.Run("function __p(){ return null.x }")
		Must(err)
	case 11:
		_, err := vm.Run("function __p(){ throw new RangeError('r') }")
		Must(err)
	case 12:
		host = func(call otto.FunctionCall) otto.Value { var x interface{} = "s"; _ = x.(int); return otto.Value{} }
	default:
		host = func(call otto.FunctionCall) otto.Value { var p *hostHalt; _ = p.why; return otto.Value{} }
	}
	if host != nil {
		Must(vm.Set("__p", host))
	}
	srcs := []string{
		"__p()",
		"try { __p() } catch (e) { }",
		"try { __p() } catch (e) { throw e }",
		"function f(){ __p() } function g(){ f() } g()",
		"try { try { __p() } catch (e) { throw e } } catch (e2) { }",
		"function g(){ __p() } function f(){ try { g() } catch (e) { return 1 } } f()",
		"try { __p() } catch (e) { } __p()",
		"try { __p() } catch (e) { __p() }",
	}
	// shapes 3 and 5 have one more script frame than the model's Call nodes when __p is itself a script function: same outcome
	o := RunJS(vm, srcs[w])
	obs := ErrClass(o)
	info := "returned"
	if o.Err != nil {
		info = "error " + o.Err.Error()
	}
	if o.Panic != nil {
		info = fmt.Sprintf("GO PANIC %T %.80v", o.Panic, o.Panic)
		if raised != nil {
			same := false
			func() {
				defer func() { _ = recover() }()
				same = o.Panic == raised
			}()
			if rv, ok := raised.(otto.Value); ok {
				pv, ok2 := o.Panic.(otto.Value)
				same = ok2 && fmt.Sprint(pv.IsObject()) == fmt.Sprint(rv.IsObject())
			}
			if !same && pk != 2 {
				obs = 11
			}
		}
	}
	// the runtime must be usable afterwards, however the evaluation ended: no scope left behind
	// (deferred leaveScope), and the next script runs
	if rest, _ := vm.VerifScopeDepth(); rest != -1 {
		obs, info = 15, info+fmt.Sprintf("; scope depth at rest %d afterwards", rest)
	} else if after := RunJS(vm, "var __n = 0; function __h(n){ return n ? __h(n - 1) + 1 : 0 } __h(5) + 1"); after.Panic != nil || after.Err != nil || after.Val.String() != "6" {
		obs, info = 15, info+"; the runtime is not usable afterwards"
	}
	return obs, fmt.Sprintf("payload %s raised in: %s -> %s", names[pk], srcs[w], info)
}

// ---------------------------------------------------------------------------
// stack depth guard

func stackCases(env *Env) {
	r := env.Rng
	type op struct{ k, d int }
	runHist := func(ops []op, bucket string) {
		vm := otto.New()
		Must(vm.Set("__depth", func(call otto.FunctionCall) otto.Value {
			d, _ := call.Otto.VerifScopeDepth()
			v, _ := otto.ToValue(d)
			return v
		}))
		// a host function that re-enters the runtime from Go: Otto.Run while a script is running
		Must(vm.Set("__run", func(call otto.FunctionCall) otto.Value {
			v, err := call.Otto.Run(call.Argument(0).String())
			if err != nil {
				if strings.HasPrefix(err.Error(), "RangeError") {
					panic(call.Otto.MakeRangeError("re-entered run: " + err.Error()))
				}
				panic(call.Otto.MakeCustomError("Error", err.Error()))
			}
			return v
		}))
		_, err := vm.Run(`function rec(n){ if (n <= 1) return 0; return rec(n - 1); }
function recd(n){ if (n <= 1) return __depth(); return recd(n - 1); }
function s0(n, p){ if (n <= 1) return p ? __depth() : 0; return (0, eval)("s0(" + (n - 1) + "," + p + ")"); }
function s1(n, p){ if (n <= 1) return p ? __depth() : 0; return Function("return s1(" + (n - 1) + "," + p + ")")(); }
function s2(n, p){ if (n <= 1) return p ? __depth() : 0; return __run("s2(" + (n - 1) + "," + p + ")"); }
function s3(n, p){ if (n <= 1) return p ? __depth() : 0; return s3.call(null, n - 1, p); }
function m4(n, p){ return {get g(){ return n <= 1 ? (p ? __depth() : 0) : m4(n - 1, p).g; }}; }
function m5(n, p){ return {valueOf: function(){ return n <= 1 ? (p ? __depth() : 0) : +m5(n - 1, p); }}; }
function s6(n, p){ if (n <= 1) return p ? __depth() : 0; var r; [1].forEach(function(){ r = s6(n - 1, p); }); return r; }
function s7(n, p){ if (n <= 1) return p ? __depth() : 0; var r; "a".replace(/a/, function(){ r = s7(n - 1, p); return ""; }); return r; }`)
		Must(err)
		var obs []int64
		var cops, txt []string
		for _, o := range ops {
			cops = append(cops, cpair(o.k, o.d))
			var out Outcome
			var src string
			first := int64(0)
			switch o.k {
			case 0:
				vm.SetStackDepthLimit(o.d)
				src = fmt.Sprintf("SetStackDepthLimit(%d)", o.d)
			case 29:
				// the history goes on in a copy: the limit is a setting of the runtime and has to travel with it.
				// Recursions in the copy are bounded (at most a few hundred cycles), so a lost limit shows as a
				// script that runs to the bottom, not as an exhausted Go stack.
				cp := Guard(func() (otto.Value, error) { vm = vm.Copy(); return otto.Value{}, nil })
				first = ErrClass(cp)
				src = "Copy()"
			case 1:
				src = "0"
				if o.d > 0 {
					src = fmt.Sprintf("rec(%d)", o.d)
				}
				out = RunJS(vm, src)
				first = ErrClass(out)
			case 2:
				src = fmt.Sprintf("try { %s } catch (e) { if (!(e instanceof RangeError)) throw 'not a RangeError' }", map[bool]string{true: fmt.Sprintf("rec(%d)", o.d), false: "0"}[o.d > 0])
				out = RunJS(vm, src)
				first = ErrClass(out)
			case 3:
				src = fmt.Sprintf("[1].forEach(function(){ %s })", map[bool]string{true: fmt.Sprintf("rec(%d)", o.d), false: "0"}[o.d > 0])
				out = RunJS(vm, src)
				first = ErrClass(out)
			case 4:
				src = "__depth()"
				if o.d > 0 {
					src = fmt.Sprintf("recd(%d)", o.d)
				}
				out = RunJS(vm, src)
				first = -ErrClass(out)
				if out.Panic == nil && out.Err == nil {
					n, _ := out.Val.ToInteger()
					first = n
				}
			default:
				// k = 5 + 3*shape + mode: recursions whose every cycle goes through indirect eval,
				// Function(), a host re-entry of Run, call, a getter, valueOf, a native callback
				sh, mode := (o.k-5)/3, (o.k-5)%3
				// shapes 4 and 5 make their objects with a transient call at the depth of the next
				// frame, so d = 0 means "no recursion" for them as for the others
				pflag := map[bool]int{true: 1, false: 0}[mode == 2]
				call := fmt.Sprintf("s%d(%d, %d)", sh, o.d, pflag)
				switch {
				case o.d <= 0:
					call = map[bool]string{true: "__depth()", false: "0"}[mode == 2]
				case sh == 4:
					call = fmt.Sprintf("m4(%d, %d).g", o.d, pflag)
				case sh == 5:
					call = fmt.Sprintf("+m5(%d, %d)", o.d, pflag)
				}
				switch mode {
				case 0:
					src = call
					out = RunJS(vm, src)
					first = ErrClass(out)
				case 1:
					src = fmt.Sprintf("try { %s } catch (e) { if (!(e instanceof RangeError)) throw 'not a RangeError' }", call)
					out = RunJS(vm, src)
					first = ErrClass(out)
				default:
					src = call
					out = RunJS(vm, src)
					first = -ErrClass(out)
					if out.Panic == nil && out.Err == nil {
						n, _ := out.Val.ToInteger()
						first = n
					}
				}
			}
			rest, _ := vm.VerifScopeDepth()
			obs = append(obs, first, int64(rest))
			txt = append(txt, fmt.Sprintf("%s => %d (depth at rest %d)", src, first, rest))
		}
		env.Add(fmt.Sprintf("CStack %s %s", Clist(cops), Czlist(obs)), "stack: "+strings.Join(txt, "; "), bucket, len(ops) > 1)
	}
	for L := 1; L <= 8; L++ {
		for d := 0; d <= L+2; d++ {
			for k := 1; k <= 4; k++ {
				runHist([]op{{0, L}, {k, d}}, "stack-grid")
			}
		}
	}
	// re-entrant shapes: every limit 0..9 (0 = off) x cycles 0..5, all shapes and modes; and with a
	// realistic limit, recursions far deeper than it
	for sh := 0; sh < 8; sh++ {
		for mode := 0; mode < 3; mode++ {
			k := 5 + 3*sh + mode
			var ops []op
			for L := 0; L <= 9; L++ {
				ops = append(ops, op{0, L})
				for d := 0; d <= 5; d++ {
					ops = append(ops, op{k, d})
				}
				if len(ops) >= 14 {
					runHist(ops, "stack-reentry")
					ops = nil
				}
			}
			runHist(append(ops, op{0, 50}, op{k, 10}, op{k, 60}, op{k, 200}, op{0, 7}, op{k, 40}), "stack-reentry")
		}
	}
	// the limit under Copy() and copy-of-copy: every shape and mode in the copy, limit changed in the copy
	for _, L := range []int{1, 2, 3, 5, 8, 50} {
		for sh := -1; sh < 8; sh++ {
			ks := []int{1, 2, 4}
			if sh >= 0 {
				ks = []int{5 + 3*sh, 6 + 3*sh, 7 + 3*sh}
			}
			ops := []op{{0, L}, {29, 0}}
			for _, k := range ks {
				ops = append(ops, op{k, L - 1}, op{k, L}, op{k, L + 1}, op{k, 120})
			}
			ops = append(ops, op{29, 0}, op{ks[0], L + 3}, op{ks[2], 1}, op{0, L + 4}, op{ks[0], L + 3}, op{29, 0}, op{ks[0], 150}, op{0, 0}, op{29, 0}, op{ks[0], 30})
			runHist(ops, "stack-copy")
		}
	}
	for i := 0; i < 150; i++ {
		n := 3 + r.Intn(8)
		ops := make([]op, n)
		L := 0
		for j := range ops {
			if j == 0 || r.Intn(4) == 0 {
				L = r.Intn(10)
				ops[j] = op{0, L}
			} else {
				d := r.Intn(12)
				if L > 0 && r.Intn(2) == 0 {
					d = L - 2 + r.Intn(4)
					if d < 0 {
						d = 0
					}
				}
				ops[j] = op{1 + r.Intn(28), d}
				if ops[j].k > 4 && d > 8 {
					ops[j].d = d % 8
				}
				if r.Intn(6) == 0 {
					ops[j] = op{29, 0}
				}
			}
		}
		runHist(ops, "stack-history")
	}
}

// ---------------------------------------------------------------------------
// source text stream

var corpus = []string{
	`var a = 1, b = "two", c = [1, 2, 3]; function add(x, y) { return x + y; } add(a, c.length) + b;`,
	`var o = {a: 1, "b": [1, 2, {c: null}], get g() { return 7; }, set g(v) {}}; for (var k in o) { o[k] = typeof o[k]; } JSON.stringify(o);`,
	`function fact(n) { return n <= 1 ? 1 : n * fact(n - 1); } var r = []; for (var i = 0; i < 8; i++) { r.push(fact(i)); } r.join(",");`,
	`try { null.x; } catch (e) { var m = e instanceof TypeError; } finally { var f = 1; } m && f;`,
	`var s = "héllo wörld é \x41 \n"; s.toUpperCase().split(" ").map(function (w) { return w.length; }).reduce(function (p, q) { return p + q; }, 0);`,
	`var re = /a(b+)c/gi, t = "xabbbcabc"; var out = []; var m; while ((m = re.exec(t)) !== null) { out.push(m[1], m.index); } out.length;`,
	`switch (3) { case 1: x = 1; break; case 3: x = 3; default: x = 4; } do { x--; } while (x > 0); x;`,
	`var d = new Date(0); [d.getTime(), d.toISOString(), Math.max(1, 2, 3), parseInt("42px", 10), isNaN(NaN), 0x1F, 1e3, .5, 010].length;`,
	`(function () { "use strict"; var args = arguments; return function inner(a, b) { return args.length + (a | 0) + (b >>> 1) - -a * +b / 2 % 3; }; })()(4, 5);`,
	`var x = 0; x += 1; x -= 2; x *= 3; x /= 4; x %= 5; x <<= 1; x >>= 1; x >>>= 0; x &= 7; x |= 8; x ^= 2; x++; --x; !x; ~x; void x; delete x; typeof x;`,
	`if (1 < 2 && 2 <= 3 || 3 > 4) { y = 1 } else if (null == undefined) { y = 2 } else { y = 3 } y === 1 ? "a" : "b";`,
	`var arr = [3, 1, 2]; arr.sort(function (a, b) { return a - b; }); arr.concat([4], 5).slice(1, -1).indexOf(2) in arr, arr instanceof Array;`,
	`function C(v) { this.v = v; } C.prototype.get = function () { return this.v; }; var c1 = new C(5); c1.get() + Object.keys(c1).length + (c1.constructor === C);`,
	`with ({p: 1}) { var q = p + 1; } var e1 = eval("q + 1"); throw new Error("stop " + e1);`,
	`var big = ""; for (var j = 0; j < 50; j++) { big += String.fromCharCode(65 + j % 26); } encodeURIComponent(big) + escape("é") + big.replace(/[AEIOU]/g, function (m) { return m.toLowerCase(); });`,
	`outer: for (var i1 = 0; i1 < 3; i1++) { for (var j1 = 0; j1 < 3; j1++) { if (j1 == 1) continue; if (i1 == 2) break; } } i1;`,
	`var u; var n = null; [u == n, u === n, typeof u, typeof n, 1 / 0, -1 / 0, 0 / 0, "5" * "2", "5" + 2, [] + {}, +[], +"", !!""].join();`,
	`Object.defineProperty(this, "ro", {value: 1, writable: false}); ro = 2; var desc = Object.getOwnPropertyDescriptor(this, "ro"); desc.value + Object.getOwnPropertyNames(desc).length;`,
}

func tokens(s string) []string {
	var out []string
	cur := ""
	class := func(b byte) int {
		switch {
		case b == ' ' || b == '\n' || b == '\t':
			return 0
		case b >= '0' && b <= '9' || b >= 'a' && b <= 'z' || b >= 'A' && b <= 'Z' || b == '_' || b == '$' || b >= 0x80:
			return 1
		}
		return 2
	}
	for i := 0; i < len(s); i++ {
		c := class(s[i])
		if cur != "" && (c == 2 || class(cur[len(cur)-1]) != c) {
			out = append(out, cur)
			cur = ""
		}
		cur += string(s[i])
	}
	if cur != "" {
		out = append(out, cur)
	}
	return out
}

var fragments = []string{"(", ")", "{", "}", "[", "]", ";", ",", ".", "=", "==", "===", "+", "-", "*", "/", "/=", "%", "<", ">", "<<", ">>>", "&", "|", "^", "!", "~", "?", ":", "&&", "||",
	"function", "var", "return", "if", "else", "for", "while", "do", "switch", "case", "default", "try", "catch", "finally", "throw", "new", "delete", "typeof", "instanceof", "in", "void", "this", "null", "true", "false", "with", "debugger", "break", "continue",
	"0", "1", "0x", "1e", "1e400", ".e1", "08", "\"", "'", "\\", "\\u", "\\u00", "\\x4", "/*", "*/", "//", "<!--", "/[/", "/a/gg", "/(?=a)/", "/\\1(a)/", "/a{2,1}/", "\\\n", "\\\r", "\\\r\n", "\\\u2028", "\\\u2029", "\r", "\u2028", "\"\\\r\"", "'\\\r'", "get", "set", "let", "const", "class", "=>", "`", " ", "\ufeff", "\x00", "é", "𐀀", "\xff", "\xc3", "\xed\xa0\x80"}

func mutate(r *rand.Rand, src string) (string, string) {
	switch r.Intn(12) {
	case 0: // truncation at a byte
		return src[:r.Intn(len(src)+1)], "truncate"
	case 1, 2: // token deletion
		t := tokens(src)
		n := 1 + r.Intn(3)
		for k := 0; k < n && len(t) > 1; k++ {
			i := r.Intn(len(t))
			t = append(t[:i:i], t[i+1:]...)
		}
		return strings.Join(t, ""), "token-delete"
	case 3: // token duplication
		t := tokens(src)
		i := r.Intn(len(t))
		t = append(t[:i+1:i+1], t[i:]...)
		return strings.Join(t, ""), "token-duplicate"
	case 4: // token swap
		t := tokens(src)
		i, j := r.Intn(len(t)), r.Intn(len(t))
		t[i], t[j] = t[j], t[i]
		return strings.Join(t, ""), "token-swap"
	case 5, 6: // token replacement / insertion by a fragment
		t := tokens(src)
		n := 1 + r.Intn(2)
		for k := 0; k < n; k++ {
			i := r.Intn(len(t))
			if r.Intn(2) == 0 {
				t[i] = Pick(r, fragments)
			} else {
				t = append(t[:i+1:i+1], t[i:]...)
				t[i] = Pick(r, fragments)
			}
		}
		return strings.Join(t, ""), "token-replace"
	case 7: // byte flips
		b := []byte(src)
		for k := 0; k < 1+r.Intn(4) && len(b) > 0; k++ {
			b[r.Intn(len(b))] = byte(r.Intn(256))
		}
		return string(b), "byte-flip"
	case 8: // random bytes
		b := make([]byte, r.Intn(40))
		for i := range b {
			b[i] = byte(r.Intn(256))
		}
		return string(b), "random-bytes"
	case 9: // invalid UTF-8 inserted
		i := r.Intn(len(src) + 1)
		return src[:i] + Pick(r, []string{"\xff", "\xc3", "\xed\xa0\x80", "\xf4\x90\x80\x80", "\xe2\x82", "\x80"}) + src[i:], "invalid-utf8"
	case 10: // deep nesting
		depth := 50 + r.Intn(1500)
		pair := Pick(r, [][2]string{{"(", ")"}, {"[", "]"}, {"{", "}"}, {"({a:", "})"}, {"!", ""}, {"-", ""}, {"function f(){", "}"}, {"if(1)", ""}, {"a?b:", ""}, {"x=", ""},
			{"new ", ""}, {"typeof ", ""}, {"try{", "}catch(e){}"}, {"a.b(", ")"}, {"[1,", "]"}, {"\"a\"+", ""}})
		if r.Intn(4) == 0 {
			pair[1] = "" // unbalanced
		}
		return strings.Repeat(pair[0], depth) + Pick(r, []string{"1", "", "a", "x"}) + strings.Repeat(pair[1], depth), "deep-nesting"
	default: // splice of two corpus programs at token boundaries
		a, b := tokens(src), tokens(Pick(r, corpus))
		return strings.Join(a[:r.Intn(len(a)+1)], "") + strings.Join(b[r.Intn(len(b)):], ""), "splice"
	}
}

var halt = &hostHalt{"watchdog"}

var srcLimit = 8 * time.Second

// runs f with an interrupt watchdog: after the soft limit the host interrupt
// function panics with `halt` (allowed by the property) at the next statement
func watchSrc(vm *otto.Otto, f func() (otto.Value, error)) observed {
	vm.Interrupt = make(chan func(), 1)
	done := make(chan struct{})
	go func() {
		t := time.NewTimer(1500 * time.Millisecond)
		defer t.Stop()
		for {
			select {
			case <-done:
				return
			case <-t.C:
				select {
				case vm.Interrupt <- func() { panic(halt) }:
				default:
				}
				t.Reset(100 * time.Millisecond)
			}
		}
	}()
	ob := watch(srcLimit, func() Outcome { return guardCall(f) })
	close(done)
	if ob.class == 9 && strings.Contains(ob.info, "*main.hostHalt") {
		ob.class, ob.info = 12, "stopped by the host interrupt"
	}
	return ob
}

func bytesList(s string) string {
	b := make([]string, len(s))
	for i := 0; i < len(s); i++ {
		b[i] = fmt.Sprintf("%d", s[i])
	}
	return Clist(b)
}

func oneSource(entry int, src string) observed {
	vm := otto.New()
	switch entry {
	case 0:
		return watchSrc(vm, func() (otto.Value, error) { return vm.Run(src) })
	case 1:
		return watchSrc(vm, func() (otto.Value, error) { return vm.Eval(src) })
	case 2:
		return watchSrc(vm, func() (otto.Value, error) {
			sc, err := vm.Compile("", src)
			if err != nil {
				return otto.Value{}, err
			}
			_ = sc.String()
			return vm.Run(sc)
		})
	case 3:
		return watchSrc(vm, func() (otto.Value, error) { return vm.Call(src, nil, 1, "a") })
	case 4:
		return watchSrc(vm, func() (otto.Value, error) { return vm.Get(src) })
	case 5:
		return watchSrc(vm, func() (otto.Value, error) {
			if err := vm.Set(src, 1); err != nil {
				return otto.Value{}, err
			}
			return vm.Get(src)
		})
	case 6:
		return watchSrc(vm, func() (otto.Value, error) {
			o, err := vm.Object(src)
			if err != nil {
				return otto.Value{}, err
			}
			if err := o.Set(src, "v"); err != nil {
				return otto.Value{}, err
			}
			_, _ = o.Get(src)
			_, _ = o.Call(src, 1)
			return o.Value(), nil
		})
	default:
		return watchSrc(vm, func() (otto.Value, error) {
			v, err := vm.Run(src)
			s, _ := v.ToString()
			_, _ = vm.Run(s)
			return v, err
		})
	}
}

var pinnedSources = []string{
	`RegExp.prototype.exec("a")`,
	`"abc".replace(RegExp.prototype, "x")`,
	`Object.isFrozen(Object.preventExtensions(new String("\ufffd")))`,
	`Object.keys(Object.assign({}, new String("a\ufffdb")))`,
	`function f(){ a: { for(;;) { continue a; } } } typeof f()`,
	`new Function("}),(function(){")`,
	`new Function("a", "}),(function(){")`,
	"new (Math.max.bind(null))(1)",
	"+String.fromCharCode(49)",
	"throw {toString: function(){ throw 1 }}",
	"function f(){a: if(1) break a; return 7} typeof f()",
	"var o={}; Object.defineProperty(o,'x',{get:function(){return 1},configurable:true}); Object.defineProperty(o,'x',{writable:true}); Object.getOwnPropertyDescriptor(o,'x')",
	"Object.getOwnPropertyDescriptor(function(){}, 'caller')",
	"String.prototype.charAt.call(5,0)",
}

func sourceCases(env *Env, n int) {
	r := env.Rng
	type sj struct {
		entry  int
		src    string
		steps  []string
		bucket string
		ob     observed
	}
	var jobs []*sj
	for _, p := range pinnedSources {
		jobs = append(jobs, &sj{entry: 0, src: p, bucket: "src-pinned"})
	}
	jobs = append(jobs, &sj{entry: 3, src: "//x", bucket: "src-pinned"})
	for _, c := range corpus {
		for e := 0; e <= 7; e++ {
			jobs = append(jobs, &sj{entry: e, src: c, bucket: "src-corpus"})
		}
	}
	for _, ls := range labelSources() {
		jobs = append(jobs, &sj{entry: ls.entry, src: ls.src, bucket: "src-labels"})
	}
	for _, lc := range lineContinuationSources() {
		jobs = append(jobs, &sj{entry: lc.entry, src: lc.src, bucket: "src-line-continuation"})
	}
	for _, steps := range evalDeleteHistories() {
		jobs = append(jobs, &sj{entry: 9, src: strings.Join(steps, " ;; "), steps: steps, bucket: "history-evaldelete"})
	}
	for _, steps := range templateHistories() {
		jobs = append(jobs, &sj{entry: 9, src: strings.Join(steps, " ;; "), steps: steps, bucket: "history-template"})
	}
	for _, steps := range declarationHistories() {
		jobs = append(jobs, &sj{entry: 9, src: strings.Join(steps, " ;; "), steps: steps, bucket: "history-declaration"})
	}
	for _, steps := range rollbackHistories() {
		jobs = append(jobs, &sj{entry: 9, src: strings.Join(steps, " ;; "), steps: steps, bucket: "history-rollback"})
	}
	for _, ps := range positionSources() {
		jobs = append(jobs, &sj{entry: 0, src: ps, bucket: "src-positions"})
	}
	for _, ps := range protoAsInstanceSources(inventory()) {
		jobs = append(jobs, &sj{entry: 0, src: ps, bucket: "src-proto-instance"})
	}
	for _, steps := range reentrantAccessorHistories() {
		jobs = append(jobs, &sj{entry: 9, src: strings.Join(steps, " ;; "), steps: steps, bucket: "history-reentrant-accessor"})
	}
	for _, steps := range inheritedAccessorHistories() {
		jobs = append(jobs, &sj{entry: 9, src: strings.Join(steps, " ;; "), steps: steps, bucket: "history-inherited-accessor"})
	}
	for _, steps := range atRestHistories() {
		jobs = append(jobs, &sj{entry: 9, src: strings.Join(steps, " ;; "), steps: steps, bucket: "history-atrest"})
	}
	for _, steps := range wrapperHistories() {
		jobs = append(jobs, &sj{entry: 9, src: strings.Join(steps, " ;; "), steps: steps, bucket: "history-wrapper"})
	}
	for _, steps := range walkerHistories() {
		jobs = append(jobs, &sj{entry: 9, src: strings.Join(steps, " ;; "), steps: steps, bucket: "history-walker"})
	}
	for _, steps := range thrownHistories() {
		jobs = append(jobs, &sj{entry: 9, src: strings.Join(steps, " ;; "), steps: steps, bucket: "history-thrown"})
	}
	for _, steps := range settingsHistories() {
		jobs = append(jobs, &sj{entry: 9, src: strings.Join(steps, " ;; "), steps: steps, bucket: "history-settings"})
	}
	for _, steps := range accessorHistories(r) {
		jobs = append(jobs, &sj{entry: 9, src: strings.Join(steps, " ;; "), steps: steps, bucket: "history-accessor"})
	}
	nh := n / 3
	if nh < 900 {
		nh = 900
	}
	for i := 0; i < nh; i++ {
		steps := historyProgram(r)
		jobs = append(jobs, &sj{entry: 9, src: strings.Join(steps, " ;; "), steps: steps, bucket: "history-" + steps[0][:strings.IndexByte(steps[0], ':')]})
	}
	for i := 0; i < nh/3; i++ {
		ops := regexpAPIHistory(r)
		jobs = append(jobs, &sj{entry: 10, src: strings.Join(ops, " ;; "), steps: ops, bucket: "history-goapi-regexp"})
	}
	skipped := 0
	for target := len(jobs) + n - 3000; len(jobs) < target; {
		src, how := mutate(r, Pick(r, corpus))
		if r.Intn(3) == 0 {
			src, _ = mutate(r, src+" ")
			how += "+"
		}
		if len(src) == 0 {
			src = " "
		}
		entry := r.Intn(8)
		jobs = append(jobs, &sj{entry: entry, src: src, bucket: "src-" + strings.TrimSuffix(how, "+")})
	}
	var wg sync.WaitGroup
	sem := make(chan struct{}, 12)
	for _, j := range jobs {
		wg.Add(1)
		sem <- struct{}{}
		go func(j *sj) {
			defer wg.Done()
			defer func() { <-sem }()
			j.ob = runSourceJob(j.entry, j.src, j.steps)
		}(j)
	}
	wg.Wait()
	retried := 0
	for _, j := range jobs {
		if j.ob.class == classHang && retried < 3 { // see runJobs
			retried++
			srcLimit = 60 * time.Second
			j.ob = runSourceJob(j.entry, j.src, j.steps)
			srcLimit = 8 * time.Second
		}
	}
	entries := []string{"Run", "Eval", "Compile+Run", "Call", "Get", "Set+Get", "Object+Get/Set/Call", "Run+Value.To*", "", "history of Runs on one runtime", "history of Go API calls on one RegExp"}
	for _, j := range jobs {
		carried := "[]"
		if len(j.src) <= 256 {
			carried = bytesList(j.src)
		}
		env.Add(fmt.Sprintf("CSrc %d %d %s %s", j.entry, len(j.src), carried, Cz(j.ob.class)),
			fmt.Sprintf("source via %s: %q -> %s", entries[j.entry], j.src, j.ob.info), j.bucket, j.bucket != "src-corpus")
		_ = entries[8]
	}
	env.Extra["sources_skipped_in_finding_regions"] = skipped
}

// ---------------------------------------------------------------------------
// Value / Object accessors on every kind of value

var accValues = []instance{
	{js: "undefined"}, {js: "null"}, {js: "true"}, {js: "1.5"}, {js: "NaN"}, {js: `"abc"`}, {js: `"12"`}, {js: "String.fromCharCode(49)"},
	{js: "({})"}, {js: "[1,2]"}, {js: "(function(a){return a})"},
	{js: "({valueOf:function(){throw new RangeError('v')},toString:function(){throw new RangeError('s')}})"},
	{js: "({valueOf:function(){return {}},toString:function(){return {}}})"},
	{js: "new Date(0)"}, {js: "/a/g"}, {js: "new Error('x')"},
	{gv: func() interface{} { return map[string]int(nil) }}, {gv: func() interface{} { return []int{1, 2} }}, {gv: func() interface{} { return goStruct{A: 1} }},
	{js: "Object.create(null)"}, {js: "(function(){return arguments})(1)"}, {js: `new String("x")`},
	{js: "String.fromCharCode(0xD800, 0x61)"}, {js: "Math.abs"}, {gv: func() interface{} { return map[string]int{"a": 1} }},
	{js: "({get x() { throw new RangeError('g') }})"},
	{js: "Object.defineProperty([1, 2, 3], '1', {get: function () { throw 1 }, enumerable: true})"},
	{js: "Object.defineProperty(new Error('e'), 'message', {get: function () { throw new RangeError('em') }})"},
	{js: "({get x() { return 42 }, set x(v) {}, y: [1, {z: null}]})"},
}

var accNames = []string{"String", "ToString", "ToInteger", "ToFloat", "ToBoolean", "Class", "IsNaN", "Export", "Object.Keys", "Object.KeysByParent", "Object.Get", "Object.Set", "Object.Call", "Object.MarshalJSON", "Is*", "Call"}

func accessorCases(env *Env) {
	for vk, in := range accValues {
		for acc := range accNames {
			vm := otto.New()
			v, vtxt := in.make(vm)
			if acc >= 8 && acc <= 13 && !v.IsObject() {
				continue
			}
			o := Guard(func() (otto.Value, error) {
				switch acc {
				case 0:
					_ = v.String()
				case 1:
					_, _ = v.ToString()
				case 2:
					_, _ = v.ToInteger()
				case 3:
					_, _ = v.ToFloat()
				case 4:
					_, _ = v.ToBoolean()
				case 5:
					_ = v.Class()
				case 6:
					_ = v.IsNaN()
				case 7:
					_, _ = v.Export()
				case 8:
					_ = v.Object().Keys()
				case 9:
					_ = v.Object().KeysByParent()
				case 10:
					_, _ = v.Object().Get("length")
				case 11:
					_ = v.Object().Set("__t", 1)
				case 12:
					_, _ = v.Object().Call("toString")
				case 13:
					_, _ = v.Object().MarshalJSON()
				case 14:
					_, _, _, _, _, _, _ = v.IsFunction(), v.IsDefined(), v.IsPrimitive(), v.IsBoolean(), v.IsNumber(), v.IsString(), v.IsNull()
				default:
					_, _ = v.Call(v, 1)
				}
				return otto.Value{}, nil
			})
			obs, info := int64(0), "came back"
			if o.Panic != nil {
				obs, info = 9, fmt.Sprintf("GO PANIC %T: %.120v", o.Panic, o.Panic)
			}
			env.Add(fmt.Sprintf("CAcc %d %d %d", vk, acc, obs), fmt.Sprintf("accessor %s on %s -> %s", accNames[acc], vtxt, info), "accessor", true)
		}
	}
}

// ---------------------------------------------------------------------------
// line continuations (ES5 7.8.4) at every position of a string literal

type entrySrc struct {
	entry int
	src   string
}

func lineContinuationSources() []entrySrc {
	var out []entrySrc
	terms := []string{"\n", "\r", "\r\n", "\u2028", "\u2029"}
	for _, q := range []string{`"`, `'`} {
		for _, t := range terms {
			for _, body := range []string{"abc", ""} {
				for pos := 0; pos <= len(body); pos++ {
					lit := q + body[:pos] + "\\" + t + body[pos:] + q
					for e := 0; e <= 2; e++ {
						out = append(out, entrySrc{e, lit})
					}
					out = append(out,
						entrySrc{0, "var s = " + lit + "; s.length"},
						entrySrc{2, lit + " + 1; [" + lit + ", " + lit + "]"},
						entrySrc{0, "({" + lit + ": 1})[" + lit + "]"},
						entrySrc{0, "eval(" + JSStr(Units(lit)) + ")"},
						entrySrc{0, "(0, eval)(" + JSStr(Units("var t = "+lit+"; t")) + ")"},
						entrySrc{0, "new Function(" + JSStr(Units("return "+lit)) + ")()"},
						entrySrc{0, "Function(" + JSStr(Units("a")) + ", " + JSStr(Units("return a + "+lit)) + ")(1)"},
						entrySrc{0, "JSON.parse(" + JSStr(Units(`"`+body[:pos]+"\\"+t+body[pos:]+`"`)) + ")"},
						// the literal cut off right after the continuation, and a bare terminator inside it
						entrySrc{0, q + body[:pos] + "\\" + t},
						entrySrc{2, q + body[:pos] + "\\" + t},
						entrySrc{0, q + body[:pos] + t + body[pos:] + q},
					)
				}
			}
			// a backslash or a continuation as the very last bytes of the input, in other token kinds too
			for _, pre := range []string{q + "abc", q, "/a", "/[a", "// c", "/* c", "x = 1 ", "a."} {
				out = append(out, entrySrc{0, pre + "\\"}, entrySrc{2, pre + "\\" + t}, entrySrc{1, pre + "\\" + t + q})
			}
		}
	}
	return out
}

// ---------------------------------------------------------------------------
// multi-step histories: state left behind by one step is what the next one meets.
// Every step is its own Run on the same runtime (an error in one step does not
// end the history; a try statement is not used, because tryCatchEvaluate would
// turn a Go runtime panic into a catchable value and hide it).

func pickS(r *rand.Rand, xs ...string) string { return xs[r.Intn(len(xs))] }

func historyProgram(r *rand.Rand) []string {
	n := 3 + r.Intn(7)
	var steps []string
	idx := func() string {
		return pickS(r, "0", "1", "2", "3", "5", "-1", "-2", "10", "a.length", "a.length-1", "a.length+1", "1.5", "'1'", "NaN", "undefined")
	}
	switch r.Intn(8) {
	case 0: // a shared RegExp: lastIndex left by a longer subject, or assigned
		re := pickS(r, "/a/g", `/(\d+)/g`, "/a|b/gi", "/$/g", "/(?:)/g", "/x*/g", "/a/", "/^a/gm", `/(a)(b)?/g`, `/\s+/g`, "/[^]/g", "new RegExp('a+','g')")
		subj := func() string {
			return pickS(r, `""`, `"a"`, `"aaaa"`, `"xxxxxxa"`, `"12 345 6"`, `"é𐀀a"`, `"ab\nab"`, `"aXbXa"`, `new Array(40).join("ab")`, "undefined", "null", "12345")
		}
		li := func() string {
			return pickS(r, "0", "1", "2", "3", "4", "5", "7", "8", "100", "-1", "NaN", "2147483648", "9007199254740992", "1.5", "'2'", "Infinity", "-Infinity", "undefined", "null",
				"({valueOf:function(){return 50}})", "s.length", "s.length+1", "s.length-1", "4294967296", "1e21")
		}
		steps = append(steps, "regexp: var r = "+re+", s = "+subj()+", out = []; r.lastIndex")
		for i := 0; i < n; i++ {
			switch r.Intn(14) {
			case 0, 1, 2:
				steps = append(steps, "s = "+subj()+"; out.push(r.exec(s)); r.lastIndex")
			case 3, 4:
				steps = append(steps, "s = "+subj()+"; out.push(r.test(s)); r.lastIndex")
			case 5, 6, 7:
				steps = append(steps, "r.lastIndex = "+li()+"; r.lastIndex")
			case 8:
				steps = append(steps, "String(s).replace(r, "+pickS(r, `"-"`, `"$1$&"`, "function(m){ r.lastIndex = 100; return m }", "function(){ return r.exec('a') }")+")")
			case 9:
				steps = append(steps, pickS(r, "String(s).match(r)", "String(s).search(r)", "String(s).split(r)", "String(s).split(r, 2)"))
			case 10:
				steps = append(steps, "while (r.test(s) && out.length < 50) out.push(r.lastIndex); out.length")
			case 11:
				steps = append(steps, pickS(r, "Object.freeze(r); r.lastIndex", "Object.defineProperty(r, 'lastIndex', {writable: false}); r.lastIndex", "Object.defineProperty(r, 'lastIndex', {value: 7}); r.lastIndex", "r.compile && r.compile('b', 'g'); r.lastIndex", "delete r.lastIndex; r.lastIndex"))
			case 12:
				steps = append(steps, "RegExp.prototype.exec.call(r, s) ; RegExp.prototype.test.call(r, "+subj()+")")
			default:
				steps = append(steps, "var r2 = new RegExp(r); r2.lastIndex = r.lastIndex; r2.exec("+subj()+")")
			}
		}
	case 1: // an array whose length and holes change under the mutators and under callbacks
		steps = append(steps, "array: var a = "+pickS(r, "[]", "[1,2,3]", "[,'a',,]", "[3,1,2,1]", "new Array(5)", "[[1],[2]]", "['b',undefined,'a',null]")+", out = []; a.length")
		for i := 0; i < n; i++ {
			switch r.Intn(20) {
			case 0:
				steps = append(steps, "a.length = "+pickS(r, "0", "1", "2", "5", "10", "'2'", "1.5", "-1", "NaN", "a.length-1", "a.length+3", "undefined"))
			case 1:
				steps = append(steps, pickS(r, "a.push(1, 2)", "a.pop()", "a.shift()", "a.unshift(0)", "a.reverse()", "a.sort()", "a.push()"))
			case 2:
				steps = append(steps, "a.splice("+idx()+", "+idx()+pickS(r, "", ", 'x'", ", 'x', 'y', 'z'")+")")
			case 3:
				steps = append(steps, pickS(r, "a.slice(", "a.indexOf(1, ", "a.lastIndexOf(1, ")+idx()+pickS(r, "", ", "+idx())+")")
			case 4:
				steps = append(steps, "a.sort(function(x, y){ "+pickS(r, "a.length = 0;", "a.push(1);", "a.pop();", "delete a[0];", "a.reverse();")+" return "+pickS(r, "0", "1", "-1", "x - y", "NaN", "undefined")+" })")
			case 5:
				steps = append(steps, "a."+pickS(r, "forEach", "map", "filter", "some", "every")+"(function(v, i){ "+pickS(r, "a.pop();", "a.length = 0;", "if (a.length < 20) a.push(i);", "delete a[i + 1];", "a.shift();", "a.splice(0, 1);", "a[i + 1] = undefined;")+" return v })")
			case 6:
				steps = append(steps, "a."+pickS(r, "reduce", "reduceRight")+"(function(p, c, i){ "+pickS(r, "a.length = i;", "a.pop();", "if (a.length < 20) a.unshift(0);", "")+" return p })")
			case 7:
				steps = append(steps, "delete a["+idx()+"]; a.length")
			case 8:
				steps = append(steps, "a["+idx()+"] = a.length")
			case 9:
				steps = append(steps, pickS(r, "Object.freeze(a)", "Object.seal(a)", "Object.preventExtensions(a)", "Object.defineProperty(a, 'length', {writable: false})", "Object.defineProperty(a, 'length', {value: 1})", "Object.defineProperty(a, 1, {get: function(){ return a.length }, configurable: true})", "Object.defineProperty(a, 0, {value: 1, configurable: false})"))
			case 10:
				steps = append(steps, pickS(r, "a.join()", "a.toString()", "String(a.concat(a))", "JSON.stringify(a)", "a.concat([1], 2).length", "Object.keys(a)", "a.toLocaleString()"))
			case 11:
				steps = append(steps, "a[20] = 1; a.length = "+pickS(r, "3", "0", "21", "25"))
			case 12:
				steps = append(steps, "Array.prototype."+pickS(r, "push", "pop", "shift", "unshift", "reverse", "splice", "sort", "join", "slice", "concat")+".call("+pickS(r, "{length: 2, 0: 'a'}", "{length: '3', 2: 1}", "{length: 1.5}", "{length: NaN}", "'abc'", "arguments", "{length: -0}", "function(a, b){}")+", "+idx()+")")
			case 13:
				steps = append(steps, "a = a.concat([a.length]); a.length")
			case 14:
				steps = append(steps, "__run('a.length = "+pickS(r, "0", "2", "7")+"'); a.length")
			case 15:
				steps = append(steps, "a.forEach(function(){ __run('a.pop()') }); a.length")
			default:
				steps = append(steps, pickS(r, "a.indexOf(undefined)", "a.lastIndexOf(1)", "a.slice().length", "a.splice(0).length", "a.splice().length", "a.splice(1).length", "[].concat(a, a).length", "a.push.apply(a, a)"))
			}
		}
	case 2: // a Date driven through invalid and extreme time values
		v := func() string {
			return pickS(r, "NaN", "Infinity", "-Infinity", "0", "-1", "1e21", "8.64e15", "8.64e15+1", "-8.64e15", "9007199254740992", "275760", "-271821", "1.5", "'12'", "undefined", "null", "2147483648", "-62198755200000")
		}
		steps = append(steps, "date: var d = new Date("+pickS(r, "0", "NaN", "8.64e15", "-8.64e15", "2000, 0, 1", "'2000-01-01T00:00:00Z'", "1e21")+"); d.getTime()")
		for i := 0; i < n; i++ {
			switch r.Intn(6) {
			case 0, 1:
				steps = append(steps, "d."+pickS(r, "setTime", "setMilliseconds", "setUTCSeconds", "setMinutes", "setUTCHours", "setDate", "setUTCMonth", "setFullYear", "setUTCFullYear", "setYear", "setMonth", "setHours")+"("+v()+pickS(r, "", ", "+v(), ", "+v()+", "+v())+")")
			case 2:
				steps = append(steps, "d."+pickS(r, "toISOString", "toJSON", "toString", "toUTCString", "toDateString", "toTimeString", "toLocaleString", "toLocaleDateString", "toLocaleTimeString", "toGMTString", "valueOf")+"()")
			case 3:
				steps = append(steps, "[d.getDay(), d.getUTCDay(), d.getFullYear(), d.getYear(), d.getMonth(), d.getUTCDate(), d.getHours(), d.getTimezoneOffset(), d.getUTCMilliseconds()].join()")
			case 4:
				steps = append(steps, pickS(r, "JSON.stringify(d)", "JSON.stringify({d: d})", "String(d)", "d + 1", "d - 1", "+d", "new Date(d)", "new Date(d.getTime() + 1).getTime()", "Date.parse(String(d))", "Date.UTC(d.getFullYear(), d.getMonth())"))
			default:
				steps = append(steps, "d = new Date("+v()+pickS(r, "", ", "+v(), ", "+v()+", "+v(), ", "+v()+", "+v()+", "+v()+", "+v()+", "+v()+", "+v())+"); d.getTime()")
			}
		}
	case 3: // property attributes of one object changed step by step
		key := func() string {
			return pickS(r, "'x'", "'y'", "'0'", "'length'", "'constructor'", "'__proto__'", "'toString'", "1")
		}
		steps = append(steps, "object: var o = "+pickS(r, "{}", "{x: 1, y: 2}", "[1, 2]", "function f(a){}", "Object.create({x: 1})", "Object.create(null)", "new String('ab')", "new Number(1)", "/a/g", "new Error('e')", "Math", "JSON", "(function(){ return arguments })(1, 2)")+"; typeof o")
		for i := 0; i < n; i++ {
			switch r.Intn(12) {
			case 0:
				steps = append(steps, "Object.defineProperty(o, "+key()+", {value: "+pickS(r, "1", "{}", "undefined", "function(){}")+pickS(r, "", ", enumerable: true", ", configurable: true", ", writable: false", ", enumerable: false, configurable: false")+"})")
			case 1:
				steps = append(steps, "Object.defineProperty(o, "+key()+", {"+pickS(r, "get: function(){ return 1 }", "set: function(v){ this._v = v }", "get: function(){ return this._v }, set: function(v){ this._v = v }", "get: undefined", "get: function(){ throw new RangeError('g') }")+pickS(r, "", ", configurable: true", ", enumerable: true, configurable: true")+"})")
			case 2:
				steps = append(steps, "delete o["+key()+"]")
			case 3:
				steps = append(steps, "o["+key()+"] = "+pickS(r, "1", "[o.length]", "undefined", "'s'")) // never o itself: a cyclic array under join is unbounded recursion in ES5 too
			case 4:
				steps = append(steps, pickS(r, "Object.freeze(o)", "Object.seal(o)", "Object.preventExtensions(o)", "Object.isFrozen(o)", "Object.isSealed(o)", "Object.isExtensible(o)"))
			case 5:
				steps = append(steps, "JSON.stringify(Object.getOwnPropertyDescriptor(o, "+pickS(r, "'x'", "'y'", "'0'", "'length'", "1", "'toString'", "'nothing'")+"))")
			case 6:
				steps = append(steps, pickS(r, "Object.keys(o)", "Object.getOwnPropertyNames(o).length", "var ks = []; for (var k in o) ks.push(k); ks.length", "JSON.stringify(o)", "String(o)", "Object.getPrototypeOf(o) === null", "Object.values(o).length"))
			case 7:
				steps = append(steps, "Object.defineProperties(o, {"+pickS(r, "p: {value: 1}", "p: {get: function(){ return 2 }, configurable: true}, q: {value: 3, enumerable: true}", "x: {enumerable: false}", "y: {configurable: false}")+"})")
			case 8:
				steps = append(steps, "o.hasOwnProperty("+key()+") + '' + o.propertyIsEnumerable("+key()+") + ("+key()+" in o)")
			case 9:
				steps = append(steps, "var c = Object.create(o, {z: {value: 1}}); c.x = 5; c.x")
			case 10:
				steps = append(steps, "__set('o2', o); o2 === o")
			default:
				steps = append(steps, "for (var k in o) { delete o[k]; o[k + k] = 1; if (Object.keys(o).length > 20) break; } Object.keys(o).length")
			}
		}
	case 4: // functions: bind chains, arguments objects, apply with odd argument lists, constructors
		f0 := pickS(r, "function(a, b){ return [this === undefined, a, b, arguments.length] }", "function(){ return arguments }", "function g(n){ return n > 0 ? g(n - 1) : 0 }", "Math.max", "Array", "String.prototype.concat", "Function.prototype", "Object.prototype.toString")
		steps = append(steps, "function: var f = "+f0+"; typeof f")
		for i := 0; i < n; i++ {
			switch r.Intn(10) {
			case 0:
				steps = append(steps, "f = f.bind("+pickS(r, "null", "undefined", "1", "{}", "f")+pickS(r, "", ", 1", ", 1, 2, 3")+"); f.length")
			case 1:
				steps = append(steps, "f.apply("+pickS(r, "null", "1", "f")+", "+pickS(r, "[]", "[1, 2]", "{length: 2}", "{length: 3, 0: 1}", "arguments", "null", "undefined", "{length: '2'}", "{length: 1.5}", "{length: NaN}", "{length: -0}", "new Array(30)", "'ab'", "1", "function(a, b){}")+")")
			case 2:
				steps = append(steps, "f.call("+pickS(r, "", "null", "1, 2, 3", "f, f", "undefined, undefined")+")")
			case 3:
				steps = append(steps, "new f("+pickS(r, "", "1", "-1", "'a', 'b'", "{}")+")")
			case 4:
				steps = append(steps, "(function(a, b){ arguments.length = "+pickS(r, "0", "1", "5", "'2'", "1.5")+"; "+pickS(r, "arguments[0] = 9;", "delete arguments[0];", "a = 7;", "arguments[3] = 1;", "Object.freeze(arguments);", "")+" return Array.prototype.slice.call(arguments, "+pickS(r, "0", "1", "-1", "5")+").concat(a, b) })(1, 2, 3)")
			case 5:
				steps = append(steps, pickS(r, "f.length", "f.name", "String(f)", "f.prototype", "Object.getOwnPropertyNames(f).length", "f.hasOwnProperty('prototype')", "f instanceof Function", "Function.prototype.toString.call(f).length", "({}) instanceof f"))
			case 6:
				steps = append(steps, pickS(r, "f.prototype = 1", "f.prototype = null", "f.prototype = {constructor: f}", "delete f.prototype", "f.length = 10", "f.name = 'z'", "Object.freeze(f)"))
			case 7:
				steps = append(steps, "__call('f'"+pickS(r, "", ", 1", ", 1, 'a', null")+")")
			case 8:
				steps = append(steps, "Function("+pickS(r, "'return 1'", "'a', 'b', 'return a + b'", "'a, b', 'return b'", "''", "'a', ''", "'return this'", "'return arguments.length'")+")(1, 2)")
			default:
				steps = append(steps, "[1, 2, 3].map(f).length + [3, 1].sort(f).length")
			}
		}
	case 5: // JSON with revivers, replacers and toJSON that change what is being walked
		steps = append(steps, "json: var t = "+pickS(r, `'{"a":[1,2,{"b":null}],"c":"x"}'`, `'[1,[2,[3,[4]]]]'`, `'{"a":{"a":{"a":1}}}'`, `'"s"'`, `'[]'`, `'{"__proto__":1,"constructor":2}'`)+", v = JSON.parse(t); typeof v")
		for i := 0; i < n; i++ {
			switch r.Intn(8) {
			case 0:
				steps = append(steps, "v = JSON.parse(t, function(k, x){ "+pickS(r, "return x", "return undefined", "delete this[k]; return x", "this.extra = 1; return x", "return typeof x === 'number' ? [x] : x", "if (k === 'a') this.c = {z: 1}; return x", "return k === '' ? x : k")+" }); typeof v")
			case 1:
				steps = append(steps, "JSON.stringify(v, "+pickS(r, "null", "undefined", "['a', 'b', 1]", "function(k, x){ return x }", "function(k, x){ return typeof x === 'number' ? undefined : x }", "function(k, x){ if (k === 'a') return 'r'; return x }", "[]", "{}", "1")+", "+pickS(r, "undefined", "2", "'--'", "20", "-1", "'long-indent-string'", "{}", "NaN")+")")
			case 2:
				steps = append(steps, "v = {toJSON: function(k){ "+pickS(r, "return 1", "return this", "return {k: k}", "return undefined", "return [k, k]", "throw new RangeError('j')")+" }, w: v}; JSON.stringify(v)")
			case 3:
				steps = append(steps, "JSON.stringify("+pickS(r, "undefined", "function(){}", "NaN", "-0", "new Date(NaN)", "new String('s')", "new Number(1)", "new Boolean(false)", "[undefined, function(){}]", "{a: undefined}", "Object.create({inherited: 1})", "'\\u2028\\ud800'", "[new Date(0)]", "{get g(){ return 1 }}")+")")
			case 4:
				steps = append(steps, "JSON.parse("+pickS(r, "'{'", "''", "'[1,]'", "'{\"a\":1,}'", "'01'", "'1e999'", "'\"\\\\u12\"'", "'\"\\\\ud800\"'", "'nul'", "' [ 1 , 2 ] '", "'\\t1'", "'{\"a\":1}x'", "'[' + new Array(300).join('[') ", "'-'", "'1.'", "'\"\\n\"'", "1", "null", "undefined", "{}", "'true'")+")")
			case 5:
				steps = append(steps, "var cyc = {}; cyc."+pickS(r, "self = cyc", "a = [cyc]", "a = {b: {c: cyc}}")+"; JSON.stringify(cyc)")
			case 6:
				steps = append(steps, "t = JSON.stringify(v); typeof t")
			default:
				steps = append(steps, "v = JSON.parse(JSON.stringify(v) || 'null'); typeof v")
			}
		}
	case 6: // re-entrancy: the host calls back into the runtime while a script is running
		steps = append(steps, "reentry: var g = 1, a = [1, 2, 3], o = {n: 0}; function h(x){ g++; return x } g")
		for i := 0; i < n; i++ {
			switch r.Intn(10) {
			case 0:
				steps = append(steps, "__run("+pickS(r, "'g = g + 1'", "'var a2 = a.slice(); a2.length'", "'h(1)'", "'throw new TypeError(\"inner\")'", "'('", "''", "'a.length = 0'", "'function h(x){ return 0 }'", "'this.g'")+")")
			case 1:
				steps = append(steps, "__eval("+pickS(r, "'g'", "'var loc = 1; loc'", "'this === undefined'", "'a.push(1)'", "'('", "'h'", "'arguments'")+")")
			case 2:
				steps = append(steps, "(function(){ var local = 5; return __eval("+pickS(r, "'local'", "'local = 6; local'", "'var leak = 1; leak'", "'arguments.length'", "'this'")+") })(1, 2)")
			case 3:
				steps = append(steps, "__call("+pickS(r, "'h', 1", "'a.push', 4", "'Math.max', 1, 2", "'o.nothing'", "'h'", "'new h', 1", "'new Array', 3", "'[1,2].concat', 3", "''", "'('", "'g'", "'new g'")+")")
			case 4:
				steps = append(steps, "a."+pickS(r, "forEach", "map", "filter")+"(function(v){ return __run("+pickS(r, "'a.pop()'", "'g++'", "'a.length'", "'h(g)'", "'a = [9]'")+") })")
			case 5:
				steps = append(steps, "__set("+pickS(r, "'g', 5", "'a', [1]", "'h', 1", "'o', null", "'newname', {x: 1}", "'', 1", "'a.b', 1", "'undefined', 1", "'NaN', 2")+"); typeof g + typeof a + typeof h")
			case 6:
				steps = append(steps, "__get("+pickS(r, "'g'", "'a'", "'nothing'", "''", "'h'", "'o'", "'undefined'")+")")
			case 7:
				steps = append(steps, "o.valueOf = function(){ return __run('++o.n') }; o + 1")
			case 8:
				steps = append(steps, "Object.defineProperty(o, 'p', {get: function(){ return __eval('o.n') }, configurable: true}); o.p")
			default:
				steps = append(steps, "__run('__run(\"__run(\\'g\\')\")')")
			}
		}
	default: // strings and numbers met again after a conversion left its result in a variable
		steps = append(steps, "string: var s = "+pickS(r, `"abc"`, `""`, `"a𐀀b"`, `"  x "`, `"éa"`, `new Array(30).join("ab")`, `"a,b,,c"`, `"%E4%F6"`, `"\ud800"`)+", n = "+pickS(r, "0", "-0", "1.5", "NaN", "1e21", "-1e-7", "255", "2147483648", "0.000001", "123.456")+"; s.length")
		for i := 0; i < n; i++ {
			switch r.Intn(9) {
			case 0:
				steps = append(steps, "s = s."+pickS(r, "slice", "substring")+"("+pickS(r, "0", "1", "-1", "2", "s.length", "s.length+1", "-s.length-1", "NaN", "undefined")+pickS(r, "", ", 1", ", -1", ", s.length+1", ", 0", ", undefined")+"); s.length")
			case 1:
				steps = append(steps, "s = s."+pickS(r, "toUpperCase()", "toLowerCase()", "trim()", "concat(s)", "split('').reverse().join('')", "replace(/a/g, 'aa')", "replace('a', '$&$&')", "split(',').join(';')", "replace(/(?:)/g, '-')")+"; s.length")
			case 2:
				steps = append(steps, "s."+pickS(r, "indexOf", "lastIndexOf")+"("+pickS(r, "''", "'a'", "s", "'b'", "undefined")+pickS(r, "", ", 0", ", 1", ", -1", ", s.length", ", s.length+1", ", NaN", ", 2")+")")
			case 3:
				steps = append(steps, "s.split("+pickS(r, "''", "'a'", "/a/", "/(a)/", "undefined", "/(?:)/", "','", "/,/", "s")+pickS(r, "", ", 0", ", 1", ", 2", ", -1", ", 4294967295", ", undefined", ", NaN")+").length")
			case 4:
				steps = append(steps, "n = "+pickS(r, "n * 10", "n / 3", "-n", "n % 7", "n << 1", "n >>> 0", "parseFloat(String(n))", "Number(n.toFixed(2))", "n + 0.1", "Math.round(n)", "n | 0", "~n")+"; String(n)")
			case 5:
				steps = append(steps, "n."+pickS(r, "toFixed(0)", "toFixed(2)", "toFixed(20)", "toFixed(21)", "toFixed(-1)", "toString(2)", "toString(36)", "toString(1)", "toString(37)", "toString(16)", "toPrecision(1)", "toPrecision(21)", "toPrecision(0)", "toExponential(0)", "toExponential(20)", "toExponential(-1)", "toString()", "valueOf()"))
			case 6:
				steps = append(steps, pickS(r, "parseInt(s, ", "parseInt(String(n), ")+pickS(r, "10", "16", "2", "36", "37", "1", "0", "-1", "NaN", "undefined", "4294967298")+")")
			case 7:
				steps = append(steps, pickS(r, "encodeURIComponent(s)", "decodeURIComponent(s)", "encodeURI(s)", "decodeURI(s)", "escape(s)", "unescape(s)", "decodeURIComponent(encodeURIComponent(s)) === s", "unescape(escape(s)) === s", "decodeURIComponent('%' + s)", "unescape('%u' + s + '%u00')"))
			default:
				steps = append(steps, pickS(r, "s.localeCompare(s.toUpperCase())", "s.match(/./g)", "s.search(/b/)", "s < s + 'a'", "s == n", "s + n", "s * 1", "[s, n].join()", "String(s).startsWith(s)", "s.trimStart().length", "new String(s).length", "Object.keys(new String(s)).length", "isNaN(s)", "isFinite(n)", "Number(s)"))
			}
		}
	}
	return steps
}

// a RegExp value held by the host and driven through the Go API
func regexpAPIHistory(r *rand.Rand) []string {
	ops := []string{"new " + pickS(r, "/a/g", `/(\d+)/g`, "/x*/g", "/a/", "/$/gm", "/a|b/gi")}
	n := 3 + r.Intn(7)
	for i := 0; i < n; i++ {
		switch r.Intn(8) {
		case 0, 1:
			ops = append(ops, "exec "+pickS(r, "", "a", "aaaa", "xxxxxxa", "12 345 6", "ab\nab"))
		case 2, 3:
			ops = append(ops, "test "+pickS(r, "", "a", "aaaa", "xxxxxxa", "12 345 6"))
		case 4, 5:
			ops = append(ops, "lastIndex "+pickS(r, "0", "1", "2", "5", "8", "100", "-1", "NaN", "2147483648", "9007199254740992", "1.5", "Infinity", "str", "nil"))
		case 6:
			ops = append(ops, "replace "+pickS(r, "a", "aaaa", "xxxxxxa", ""))
		default:
			ops = append(ops, "get")
		}
	}
	return ops
}

func runRegexpAPIHistory(vm *otto.Otto, ops []string) (otto.Value, error) {
	v, err := vm.Run(strings.TrimPrefix(ops[0], "new "))
	if err != nil {
		return v, err
	}
	o := v.Object()
	replace, _ := vm.Run("String.prototype.replace")
	for _, op := range ops[1:] {
		kind, arg, _ := strings.Cut(op, " ")
		switch kind {
		case "exec", "test":
			res, _ := o.Call(kind, arg)
			touch(res)
		case "lastIndex":
			var val interface{}
			switch arg {
			case "NaN":
				val = math.NaN()
			case "Infinity":
				val = math.Inf(1)
			case "str":
				val = "3"
			case "nil":
				val = nil
			default:
				f, _ := strconv.ParseFloat(arg, 64)
				val = f
			}
			_ = o.Set("lastIndex", val)
		case "replace":
			sv, _ := vm.ToValue(arg)
			res, _ := replace.Call(sv, v, "-")
			touch(res)
		default:
			li, _ := o.Get("lastIndex")
			touch(li)
		}
	}
	return v, nil
}

func installHost(vm *otto.Otto) {
	rethrow := func(call otto.FunctionCall, err error) {
		name := "Error"
		for _, n := range []string{"RangeError", "TypeError", "SyntaxError", "ReferenceError", "URIError", "EvalError"} {
			if strings.HasPrefix(err.Error(), n) {
				name = n
			}
		}
		panic(call.Otto.MakeCustomError(name, err.Error()))
	}
	Must(vm.Set("__run", func(call otto.FunctionCall) otto.Value {
		v, err := call.Otto.Run(call.Argument(0).String())
		if err != nil {
			rethrow(call, err)
		}
		return v
	}))
	Must(vm.Set("__eval", func(call otto.FunctionCall) otto.Value {
		v, err := call.Otto.Eval(call.Argument(0).String())
		if err != nil {
			rethrow(call, err)
		}
		return v
	}))
	Must(vm.Set("__call", func(call otto.FunctionCall) otto.Value {
		args := make([]interface{}, 0, len(call.ArgumentList))
		for _, a := range call.ArgumentList[1:] {
			args = append(args, a)
		}
		v, err := call.Otto.Call(call.Argument(0).String(), nil, args...)
		if err != nil {
			rethrow(call, err)
		}
		return v
	}))
	Must(vm.Set("__get", func(call otto.FunctionCall) otto.Value {
		v, err := call.Otto.Get(call.Argument(0).String())
		if err != nil {
			rethrow(call, err)
		}
		return v
	}))
	Must(vm.Set("__set", func(call otto.FunctionCall) otto.Value {
		if err := call.Otto.Set(call.Argument(0).String(), call.Argument(1)); err != nil {
			rethrow(call, err)
		}
		return otto.Value{}
	}))
}

// steps of a history that the host takes through the Go API, on the state the script steps left
func goStep(vm *otto.Otto, what string) *otto.Otto {
	kind, arg, _ := strings.Cut(what, " ")
	switch kind {
	case "copyswitch": // the history goes on in a copy of the runtime
		return vm.Copy()
	case "settings": // what a host configures on a runtime
		vm.SetStackDepthLimit(40)
		vm.SetStackTraceLimit(3)
		vm.SetRandomSource(func() float64 { return 0.25 })
		vm.SetDebuggerHandler(func(o *otto.Otto) { _, _ = o.Eval("typeof this") })
	case "call": // Otto.Call of a global function
		if v, err := vm.Call(arg, nil, 1, "a"); err == nil {
			touch(v)
		}
	case "valuecall": // Value.Call of a global function value
		if f, err := vm.Get(arg); err == nil {
			if v, err := f.Call(otto.UndefinedValue(), 1); err == nil {
				touch(v)
			}
		}
	case "objectcall": // Object.Call of a method
		owner, method, _ := strings.Cut(arg, " ")
		if o, err := vm.Object(owner); err == nil {
			if v, err := o.Call(method, 1); err == nil {
				touch(v)
			}
		}
	case "copy": // Otto.Copy() and use of the copy
		cp := vm.Copy()
		if v, err := cp.Run(arg); err == nil {
			touch(v)
		}
		if v, err := cp.Run("1 + 1"); err != nil || v.String() != "2" {
			panic("the copy is not usable")
		}
	case "object": // Object.Get / Set / Keys / Call / MarshalJSON / Value().Export() from Go
		o, err := vm.Object(arg)
		if err != nil {
			return vm
		}
		for _, k := range append(o.Keys(), "x", "0", "seen", "nothing") {
			if v, err := o.Get(k); err == nil {
				touch(v)
			}
		}
		_ = o.KeysByParent()
		_ = o.Set("x", 5)
		_ = o.Set("0", "s")
		_ = o.Set("fresh", 1)
		if v, err := o.Get("x"); err == nil {
			touch(v)
			_, _ = v.Export()
		}
		_, _ = o.Call("hasOwnProperty", "x")
		_, _ = o.MarshalJSON()
		_, _ = o.Value().Export()
	case "export": // Run an expression over small acyclic state and export the result
		v, err := vm.Run(arg)
		if err != nil {
			return vm
		}
		touch(v)
		_, _ = v.Export()
		if v.IsObject() {
			for _, k := range []string{"get", "set", "value", "x", "0"} {
				if f, err := v.Object().Get(k); err == nil {
					touch(f)
					_, _ = f.Export()
					if f.IsFunction() {
						_, _ = f.Call(v, 1)
					}
				}
			}
		}
	case "callsrc": // Otto.Call with any spelling of the source, no this
		if v, err := vm.Call(arg, nil, 1, "a"); err == nil {
			touch(v)
		}
	case "callsrcthis": // Otto.Call with a this value
		if v, err := vm.Call(arg, 1, 2); err == nil {
			touch(v)
		}
	case "objectget": // Object.Get of a property (an accessor runs its getter with the runtime at rest)
		owner, key, _ := strings.Cut(arg, " ")
		if o, err := vm.Object(owner); err == nil {
			if v, err := o.Get(key); err == nil {
				touch(v)
				_, _ = v.Export()
			}
			_ = o.Set(key, 1)
		}
	case "valuecallthis": // Value.Call with an object this
		if f, err := vm.Get(arg); err == nil {
			if h, err := vm.Get("holder"); err == nil {
				if v, err := f.Call(h, 1, 2); err == nil {
					touch(v)
					_, _ = v.Export()
				}
			}
		}
	case "noleak": // nothing outside a constructed function may have run
		if v, err := vm.Get("__leak"); err == nil && v.IsDefined() {
			panic("code outside the constructed function was run")
		}
	case "eval": // Otto.Eval of a source text (global scope entered by the API when none is active)
		if v, err := vm.Eval(arg); err == nil {
			touch(v)
		}
	case "compile": // Otto.Compile then Run of the script
		if sc, err := vm.Compile("", arg); err == nil {
			if v, err := vm.Run(sc); err == nil {
				touch(v)
			}
		}
	case "getset": // Otto.Get / Otto.Set of a global
		if v, err := vm.Get(arg); err == nil {
			touch(v)
			_ = vm.Set(arg+"2", v)
		}
	}
	return vm
}

func runSourceJob(entry int, src string, steps []string) observed {
	switch entry {
	case 9:
		vm := otto.New()
		installHost(vm)
		return watchSrc(vm, func() (otto.Value, error) {
			var last otto.Value
			for i, st := range steps {
				if i == 0 {
					st = st[strings.IndexByte(st, ':')+1:]
				}
				if strings.HasPrefix(st, "go:") {
					vm = goStep(vm, strings.TrimPrefix(st, "go:"))
					continue
				}
				v, err := vm.Run(st)
				if err == nil {
					touch(v)
					last = v
				}
			}
			// the runtime is still usable and no scope was left behind
			if d, _ := vm.VerifScopeDepth(); d != -1 {
				panic(fmt.Sprintf("scope depth at rest %d after the history", d))
			}
			if v, err := vm.Run("1 + 1"); err != nil || v.String() != "2" {
				panic("the runtime is not usable after the history")
			}
			return last, nil
		})
	case 10:
		vm := otto.New()
		return watchSrc(vm, func() (otto.Value, error) { return runRegexpAPIHistory(vm, steps) })
	}
	return oneSource(entry, src)
}

// ---------------------------------------------------------------------------
// names declared by eval code, deleted while a reference to them is pending

func evalDeleteHistories() [][]string {
	decls := []string{
		`eval("var K = function () { this.ok = 1; return 7 }")`,
		`eval("function K() { this.ok = 1; return 7 }")`,
		`eval("var K = 1")`,
		`eval("var K; K = {n: 1}")`,
		`eval("eval('var K = function () { return 2 }')")`,
		`eval("var L = 2, K = function () { return L }")`,
		`var K = function () { return 3 }`, // not eval-declared: the control
		`eval("var K = 1"); eval("var K = function () { return 4 }")`,
	}
	// every expression form that makes a reference to K, deletes K, and then uses the reference
	uses := []string{
		`typeof new K(delete K)`,
		`typeof K(delete K)`,
		`K += (delete K, 1); typeof K`,
		`K = (delete K, 5); typeof K`,
		`K -= delete K; typeof K`,
		`K++ + (delete K) + typeof K`,
		`[K, delete K, typeof K].length`,
		`var c = function () { return K }; delete K; typeof c`,
		`var c = function () { return typeof K }; delete K; c()`,
		`var c = function () { K = 9; return delete K }; c(); typeof K`,
		`K.p = (delete K, 1); typeof K`,
		`K[delete K] = 1; typeof K`,
		`delete K; typeof K`,
		`delete K; delete K; (function () { return typeof K })()`,
		`for (K in {a: 1, b: 2}) { delete K } typeof K`,
		`typeof (K, delete K, K)`,
		`typeof (delete K ? K : 0)`,
		`typeof (delete K && new K)`,
		`K.call(null, delete K)`,
		`K.apply(delete K, [])`,
		`new K(delete K, delete K).ok`,
		`with ({}) { typeof K(delete K) }`,
		`eval("delete K"); typeof K`,
		`eval("typeof K(delete K)")`,
		`(0, eval)("typeof K"); delete K; typeof K`,
		`var r = typeof K; eval("var K = 5"); delete K; r + typeof K`,
		`(function () { return typeof new K(delete K) })()`,
		`(function (a) { return typeof a })(K, delete K)`,
		`typeof K === "function" && K(delete K) + K(delete K)`,
		`switch (typeof K) { case (delete K, "x"): break; default: typeof K }`,
		`do { delete K } while (typeof K === "nope"); typeof K`,
		`try { K(delete K) } finally { delete K }`,
	}
	ctxs := []struct{ pre, post string }{
		{"(function () { ", " })()"},
		{"", ""}, // global code
		{"(function () { return (function () { ", " })() })()"},
		{"(function (K0) { with ({}) { ", " } })(1)"},
		{"(function () { try { throw 1 } catch (e) { ", " } })()"},
		{"(function () { 'use strict'; ", " })()"},
		{"new function () { ", " }"},
	}
	var out [][]string
	for di, d := range decls {
		for ui, u := range uses {
			c := ctxs[(di+ui)%len(ctxs)]
			body := d + "; " + u
			if c.pre != "" && !strings.Contains(u, ";") && !strings.HasPrefix(u, "for") && !strings.HasPrefix(u, "with") && !strings.HasPrefix(u, "switch") && !strings.HasPrefix(u, "do") && !strings.HasPrefix(u, "try") {
				body = d + "; return " + u
			}
			out = append(out, []string{"evaldelete: " + c.pre + body + c.post, "typeof K", "(function () { return typeof K })()", "var K = 1; delete K; typeof K"})
			// the same in the function context for every form (the seeded shape), alternating with the rotating one
			if c.pre != ctxs[0].pre {
				c0 := ctxs[0]
				b0 := d + "; " + u
				if !strings.Contains(u, ";") && !strings.HasPrefix(u, "for") && !strings.HasPrefix(u, "with") && !strings.HasPrefix(u, "switch") && !strings.HasPrefix(u, "do") && !strings.HasPrefix(u, "try") {
					b0 = d + "; return " + u
				}
				out = append(out, []string{"evaldelete: " + c0.pre + b0 + c0.post, "typeof K"})
			}
		}
	}
	return out
}

// ---------------------------------------------------------------------------
// one property taken data -> accessor -> data with every present / absent /
// undefined combination of get and set, then every observer

func accessorHistories(r *rand.Rand) [][]string {
	halves := []string{"", "undefined", "FN"}
	getFn, setFn := "function () { return 42 }", "function (v) { this.seen = v }"
	var accs []string
	for _, g := range halves {
		for _, st := range halves {
			var parts []string
			if g != "" {
				parts = append(parts, "get: "+strings.Replace(g, "FN", getFn, 1))
			}
			if st != "" {
				parts = append(parts, "set: "+strings.Replace(st, "FN", setFn, 1))
			}
			if len(parts) == 0 {
				continue // {} is the generic descriptor, below
			}
			accs = append(accs, "{"+strings.Join(parts, ", ")+"}")
		}
	}
	datas := []string{"{value: 1}", "{value: undefined}", "{value: 2, writable: true}", "{value: 3, writable: false}", "{value: 4, writable: true, enumerable: true, configurable: true}"}
	generics := []string{"{}", "{enumerable: false}", "{enumerable: true}", "{configurable: true}"}
	objs := []string{"{x: 1, y: 2}", "[1, 2]", "(function () { var f = function (a) {}; f.x = 1; return f })()", "Object.create({x: 0}, {x: {value: 1, writable: true, enumerable: true, configurable: true}})",
		"(function () { return arguments })(1, 2)", "new String('ab')", "new Date(0)", "/a/g"}
	observers := func(k string) []string {
		q := `"` + k + `"`
		return []string{
			`var d = Object.getOwnPropertyDescriptor(o, ` + q + `); [String(d.get), String(d.set), String(d.value), d.writable, d.enumerable, d.configurable, "get" in d, "set" in d, "value" in d].join("|")`,
			`var d = Object.getOwnPropertyDescriptor(o, ` + q + `); typeof d.get === "function" ? d.get.call(o) : typeof d.get`,
			`var d = Object.getOwnPropertyDescriptor(o, ` + q + `); typeof d.set === "function" ? d.set.call(o, 5) : typeof d.set`,
			`o[` + q + `]`,
			`o[` + q + `] = 7; o[` + q + `]`,
			`(function () { "use strict"; o[` + q + `] = 8; return o[` + q + `] })()`,
			`var ks = []; for (var k in o) ks.push(k, o[k]); ks.length`,
			`JSON.stringify(o)`,
			`Object.keys(o).join() + "/" + Object.getOwnPropertyNames(o).join()`,
			`go:export Object.getOwnPropertyDescriptor(o, ` + q + `)`,
			`go:object o`,
			`go:copy o[` + q + `] = 3; [o[` + q + `], String(Object.getOwnPropertyDescriptor(o, ` + q + `).set), String(Object.getOwnPropertyDescriptor(o, ` + q + `).get), o.seen].join("|")`,
			`var p = {}; Object.defineProperty(p, "x", Object.getOwnPropertyDescriptor(o, ` + q + `)); p.x = 1; p.x + "|" + ("set" in Object.getOwnPropertyDescriptor(p, "x"))`,
			`var c = Object.create(o); c[` + q + `] = 2; [c[` + q + `], c.hasOwnProperty(` + q + `), o.seen].join()`,
			`o.hasOwnProperty(` + q + `) + "|" + o.propertyIsEnumerable(` + q + `) + "|" + (` + q + ` in o)`,
			`Object.isFrozen(o) + "|" + Object.isSealed(o) + "|" + Object.isExtensible(o)`,
			`go:export o`,
			`go:getset o`,
			`String(o) + Object.prototype.toString.call(o)`,
			`Object.defineProperties({}, {z: Object.getOwnPropertyDescriptor(o, ` + q + `)}).z`,
			`Object.seal(o); String(Object.getOwnPropertyDescriptor(o, ` + q + `).set) + o[` + q + `]`,
			`Object.freeze(o); o[` + q + `] = 9; String(Object.getOwnPropertyDescriptor(o, ` + q + `).get) + o[` + q + `]`,
			`go:copy Object.keys(o).length + JSON.stringify(Object.getOwnPropertyDescriptor(o, ` + q + `))`,
			`delete o[` + q + `]; typeof o[` + q + `]`,
		}
	}
	var out [][]string
	add := func(obj, k string, defs []string) {
		steps := []string{"accessor: var o = " + obj + "; typeof o"}
		for _, d := range defs {
			steps = append(steps, `Object.defineProperty(o, "`+k+`", `+d+`); typeof o`)
		}
		out = append(out, append(steps, observers(k)...))
	}
	// data -> accessor, every combination, on every kind of object
	for i, a := range accs {
		for j, obj := range objs {
			k := "x"
			if j == 1 || j == 4 || (j == 5 && i%2 == 0) {
				k = "0"
			}
			add(obj, k, []string{a})
			if (i+j)%3 == 0 {
				add(obj, k, []string{a, datas[(i+j)%len(datas)]})                        // ... and back to data
				add(obj, k, []string{accs[(i+3)%len(accs)], a})                          // accessor -> accessor
				add(obj, k, []string{datas[i%len(datas)], a, generics[j%len(generics)]}) // data redefined first, generic last
			}
		}
	}
	// seeded longer walks
	for i := 0; i < 60; i++ {
		n := 2 + r.Intn(5)
		defs := make([]string, n)
		for j := range defs {
			switch r.Intn(5) {
			case 0, 1, 2:
				defs[j] = Pick(r, accs)
				if r.Intn(3) == 0 {
					defs[j] = strings.TrimSuffix(defs[j], "}") + Pick(r, []string{", configurable: true}", ", enumerable: true}", ", enumerable: false, configurable: true}"})
				}
			case 3:
				defs[j] = Pick(r, datas)
			default:
				defs[j] = Pick(r, generics)
			}
		}
		add(Pick(r, objs), Pick(r, []string{"x", "x", "0", "y", "length"}), defs)
	}
	return out
}

// ---------------------------------------------------------------------------
// capture groups that did not take part in the match, met by every $-pattern of
// a replacement template, by function replacers, match, split and exec

func templateHistories() [][]string {
	regexps := []string{`/(x)?b/`, `/(x)?b/g`, `/(a)|(b)/g`, `/(x)?(y)?c/`, `/(?:(x)|b)+/g`, `/(a)(b)?(c)?(d)?(e)?(f)?(g)?(h)?(i)?/`, `/(a)(b)?(c)?(d)?(e)?(f)?(g)?(h)?(i)?(j)?(k)?/g`,
		`/(z)*b/g`, `/b/g`, `/((x)|(b))(q)?/`, `/(?:)/g`, `/(^)?a|(c$)/g`}
	subjects := []string{`"abc"`, `"b"`, `""`, `"xbc"`, `"abcabc"`, `"aébé"`}
	templates := []string{"$0", "$00", "$$", "$&", "$`", "$'", "$", "$a", "$1$2$3", "[$2]", "$10$11", "$1a", "$+", "$_", "$100", "$010", "$001", "$$1", "$$$1", "$&$&", "$`$'", "$1$", "\\$1", "$ 1"}
	for i := 1; i <= 9; i++ {
		templates = append(templates, fmt.Sprintf("$%d", i), fmt.Sprintf("$0%d", i), fmt.Sprintf("$%d0", i), fmt.Sprintf("$%d%d", i, i), fmt.Sprintf("$%d1", i), fmt.Sprintf("<$%d9>", i))
	}
	templates = append(templates, "$12", "$13", "$20", "$21", "$50", "$98", "$99", "$012", "$1$10$11$12$2$20")
	var out [][]string
	for ri, re := range regexps {
		for si, sub := range subjects {
			steps := []string{"template: var r = " + re + ", s = " + sub + "; typeof r"}
			for ti, t := range templates {
				// every template on a slice of the (regexp, subject) pairs, so that each pair meets a third of them
				if (ri+si+ti)%3 != 0 {
					continue
				}
				steps = append(steps, "s.replace(r, "+JSStr(Units(t))+")")
			}
			steps = append(steps,
				`s.replace(r, function () { var a = []; for (var i = 0; i < arguments.length; i++) a.push(typeof arguments[i]); return a.join() })`,
				`s.replace(r, function (m, a, b) { return String(a) + String(b) + (a === undefined) })`,
				`s.replace(r, function () { return "$1$10" })`,
				`s.replace("b", "$1$10$&")`,
				`var m = s.match(r); m && [m.length, m.index, String(m[1]), String(m[10])].join()`,
				`r.lastIndex = 0; var e = r.exec(s); e && [e.length, e.index, typeof e[1], typeof e[9], e.input].join()`,
				`s.split(r).length + "/" + s.split(r, 2).join("|")`,
				`s.search(r)`,
				`go:export s.match(r)`,
				`go:export r.exec(s)`,
				`go:export s.split(r)`,
				`JSON.stringify(s.match(r)) + JSON.stringify(s.split(r))`,
			)
			out = append(out, steps)
		}
	}
	return out
}

// ---------------------------------------------------------------------------
// declarations whose name collides with a property reachable from the global
// object: own built-ins, members inherited from Object.prototype, names an
// earlier step planted, non-configurable and accessor globals

func declarationHistories() [][]string {
	vm := otto.New()
	v, err := vm.Run(`Object.getOwnPropertyNames(this).concat(Object.getOwnPropertyNames(Object.prototype)).join(",")`)
	Must(err)
	names := strings.Split(v.String(), ",")
	names = append(names, "planted", "plantedFn", "plantedAcc", "plantedFixed", "fixed", "fixedAcc", "fixedRO", "arguments", "fresh")
	const plant = `Object.prototype.planted = 1; Object.prototype.plantedFn = function () { return 2 }; ` +
		`Object.defineProperty(Object.prototype, "plantedAcc", {get: function () { return 3 }, set: function (v) {}, configurable: true}); ` +
		`Object.defineProperty(Object.prototype, "plantedFixed", {value: 4}); ` +
		`Object.defineProperty(this, "fixed", {value: 5, writable: true, enumerable: true}); ` +
		`Object.defineProperty(this, "fixedAcc", {get: function () { return 6 }}); ` +
		`Object.defineProperty(this, "fixedRO", {value: 7}); typeof planted`
	ident := regexp.MustCompile(`^[A-Za-z_$][A-Za-z0-9_$]*$`)
	var out [][]string
	k := 0
	for _, name := range names {
		if !ident.MatchString(name) {
			continue
		}
		decls := []string{
			"function " + name + "() { return 1 }",
			"var " + name,
			"var " + name + " = 1",
			"function " + name + "() { return 1 } var " + name + "; typeof " + name,
			"var " + name + " = 2; function " + name + "() {}",
		}
		for di, d := range decls {
			// function declarations in every context for every name; the var forms rotate through the contexts
			for ci := 0; ci < 8; ci++ {
				if di > 0 && (k+ci)%4 != 0 {
					continue
				}
				var step string
				switch ci {
				case 0:
					step = d
				case 1:
					step = "eval(" + JSStr(Units(d)) + ")"
				case 2:
					step = "(0, eval)(" + JSStr(Units(d)) + ")"
				case 3:
					step = "go:eval " + d
				case 4:
					step = "go:compile " + d
				case 5:
					step = "(function () { return eval(" + JSStr(Units(d+"; typeof "+name)) + ") })()"
				case 6:
					step = "Function(" + JSStr(Units(d+"; return typeof "+name)) + ")()"
				default:
					step = "__run(" + JSStr(Units(d)) + ")"
				}
				out = append(out, []string{"declaration: " + plant, step,
					"typeof " + name + " + '|' + (typeof this." + name + ") + '|' + Object.prototype.hasOwnProperty.call(this, " + JSStr(Units(name)) + ")",
					"JSON.stringify(Object.getOwnPropertyDescriptor(this, " + JSStr(Units(name)) + ") || null)",
					"delete this." + name + "; typeof " + name,
					d,
					"String(({})." + name + ").length + [1, 2].join().length + String({}).length"})
			}
			k++
		}
	}
	return out
}

// ---------------------------------------------------------------------------
// an operation that fails or is rolled back, and the object used on afterwards

func rollbackHistories() [][]string {
	subjects := []string{"[1, 2, 3]", "[1, 2, 3, 4, 5, 6]", "[, 'a', , 'b']", "(function () { return arguments })(1, 2, 3)", "({0: 'a', 1: 'b', length: 2, x: 1})"}
	guards := []string{
		"Object.seal(a)", "Object.freeze(a)", "Object.preventExtensions(a)",
		"Object.defineProperty(a, 1, {configurable: false})",
		"Object.defineProperty(a, 0, {writable: false})",
		"Object.defineProperty(a, 'length', {writable: false})",
		"Object.defineProperty(a, 2, {get: function () { return 9 }})",
		"Object.defineProperty(a, 1, {value: 'v', writable: false, configurable: false}); Object.preventExtensions(a)",
		"Object.seal(a); Object.defineProperty(a, 'length', {writable: false})",
	}
	fails := []string{
		"a.length = 0; a.length", "a.length = 1; a.length", "a.length = 2; a.length",
		"(function () { 'use strict'; a.length = 0 })()",
		"delete a[1]", "(function () { 'use strict'; delete a[1] })()",
		"Array.prototype.splice.call(a, 0, 2)", "Array.prototype.pop.call(a)", "Array.prototype.shift.call(a)", "Array.prototype.unshift.call(a, 0)",
		"Object.defineProperty(a, 'length', {value: 0})", "Object.defineProperty(a, 'length', {value: 1, writable: false})",
		"a.length = -1", "a.length = 4294967296", "Array.prototype.reverse.call(a)", "Array.prototype.sort.call(a, function (x, y) { return y - x })",
		"a[1] = 'w'; a[10] = 'z'; a.length", "Object.defineProperty(a, 1, {get: function () { return 1 }})", "Array.prototype.push.call(a, 7, 8)",
	}
	after := []string{
		"a.length", "a.length = a.length", "a.length = a.length + 1; a.length", "a[a.length] = 'n'; a.length", "a[0] = 'm'; String(a[0])",
		"Array.prototype.push.call(a, 'p')", "Array.prototype.pop.call(a)", "Array.prototype.splice.call(a, 1, 1, 'q', 'r')", "Array.prototype.unshift.call(a, 'u')",
		"Array.prototype.slice.call(a, 1).length", "Array.prototype.concat.call(a, a).length", "Array.prototype.join.call(a)", "Array.prototype.indexOf.call(a, 2)",
		"Array.prototype.map.call(a, function (v) { return v }).length", "JSON.stringify(a)", "Object.keys(a).join() + '/' + Object.getOwnPropertyNames(a).join()",
		"JSON.stringify(Object.getOwnPropertyDescriptor(a, 'length'))", "a.length = 0; a.length", "go:object a", "go:export a", "go:copy a.length = 1; Array.prototype.push.call(a, 1); a.length",
		"go:getset a", "Array.isArray(a) + String(a)",
	}
	var out [][]string
	for si, sub := range subjects {
		for gi, g := range guards {
			for fi, f := range fails {
				// arrays meet every guard x failure; the array-likes a rotating third
				if si >= 3 && (gi+fi)%3 != 0 {
					continue
				}
				steps := []string{"rollback: var a = " + sub + "; " + g + "; typeof a", f}
				out = append(out, append(steps, after...))
			}
		}
	}
	return out
}

// ---------------------------------------------------------------------------
// every built-in (and Go accessor) that walks an array, an array-like, an
// arguments object or an object, fed with one whose index or named properties
// are accessors, read-only, inherited or missing

func walkerHistories() [][]string {
	// how the subject `a` is made
	bases := []string{
		"[1, 2, 3]", "[, , ,]", "(function () { return arguments })(1, 2, 3)", "({length: 3, 0: 1, 1: 2, 2: 3})", "({x: 1, y: 2})",
	}
	// what is done to one of its properties (K is "1" for the indexed subjects, "x" for the plain object)
	twists := []string{
		`Object.defineProperty(a, K, {get: function () { return 7 }, enumerable: true, configurable: true})`,
		`Object.defineProperty(a, K, {set: function (v) { this.seen = v }, enumerable: true, configurable: true})`,
		`Object.defineProperty(a, K, {get: function () { throw new RangeError("g") }, enumerable: true, configurable: true})`,
		`Object.defineProperty(a, K, {get: function () { return {valueOf: function () { return 65 }, toString: function () { return "o" }} }, enumerable: true})`,
		`Object.defineProperty(a, K, {get: function () { return [a.length, [1]] }, enumerable: true})`, // never a itself: a cycle under join or Export is unbounded recursion
		`Object.defineProperty(a, K, {get: function () { a.length = 0; return 1 }, set: function () {}, enumerable: true, configurable: true})`,
		`Object.defineProperty(a, K, {get: function () { return __run("a.length") }, enumerable: true})`,
		`Object.defineProperty(a, K, {value: 9, writable: false, enumerable: true, configurable: false})`,
		`Object.defineProperty(a, K, {value: 9, enumerable: false})`,
		`delete a[K]; Object.getPrototypeOf(a)[K] = "inherited"`,
		`delete a[K]; Object.defineProperty(Object.getPrototypeOf(a), K, {get: function () { return "proto" }, set: function (v) {}, configurable: true})`,
		`delete a[K]`,
		`Object.defineProperty(a, "length", {writable: false}); Object.defineProperty(a, K, {get: function () { return 5 }})`,
		`Object.defineProperty(a, 0, {get: function () { return 0 }}); Object.defineProperty(a, K, {get: undefined, set: undefined})`,
	}
	walkers := []string{
		`(function () { return arguments.length }).apply(null, a)`,
		`Math.max.apply(null, a)`,
		`String.fromCharCode.apply(null, a)`,
		`(function (p, q, r) { return [p, q, r].length }).apply(a, a)`,
		`Array.apply(null, a).length`,
		`Function.prototype.bind.apply(function (p, q) { return q }, a)()`,
		`new (Function.prototype.bind.apply(function (p, q) { this.q = q }, a))().q`,
		`Function.prototype.call.apply(function (p) { return p }, a)`,
		`[].concat(a).length`,
		`Array.prototype.concat.call(a, a, [a]).length`,
		`Array.prototype.join.call(a, "-")`,
		`Array.prototype.toString.call(a) + Array.prototype.toLocaleString.call(a)`,
		`Array.prototype.slice.call(a, 0, 3).length`,
		`Array.prototype.indexOf.call(a, 7) + Array.prototype.lastIndexOf.call(a, 7)`,
		`Array.prototype.map.call(a, function (v) { return typeof v }).join()`,
		`Array.prototype.filter.call(a, function () { return true }).length + Array.prototype.some.call(a, function (v) { return v === 7 }) + Array.prototype.every.call(a, function () { return true })`,
		`Array.prototype.reduce.call(a, function (p, c) { return p + String(c) }, "") + Array.prototype.reduceRight.call(a, function (p, c) { return p + String(c) }, "")`,
		`var n = 0; Array.prototype.forEach.call(a, function () { n++ }); n`,
		`JSON.stringify(a)`,
		`JSON.stringify({w: a}, null, 1).length`,
		`JSON.stringify(a, ["0", "1", "x", "length"])`,
		`Object.keys(a).join() + "/" + Object.getOwnPropertyNames(a).join()`,
		`Object.values ? Object.values(a).length : 0`,
		`var ks = []; for (var k in a) ks.push(k); ks.join()`,
		`Object.defineProperties({}, a) && 1`,
		`Object.create({}, a) && 1`,
		`Object.assign ? Object.keys(Object.assign({}, a)).length : 0`,
		`Object.isFrozen(a) + "" + Object.isSealed(a)`,
		`String(a) + (a + "")`,
		`Array.prototype.sort.call(a, function (x, y) { return 0 }) && 1`,
		`Array.prototype.reverse.call(a) && 1`,
		`Array.prototype.push.call(a, 4) + Array.prototype.unshift.call(a, 0)`,
		`Array.prototype.splice.call(a, 0, 1, "s").length`,
		`Array.prototype.pop.call(a); Array.prototype.shift.call(a); a.length`,
		`Object.freeze(a) && Object.isFrozen(a)`,
		`go:export a`,
		`go:object a`,
		`go:export [a, {k: a}]`,
		`go:copy JSON.stringify(a) + Array.prototype.join.call(a)`,
		`go:getset a`,
		`go:valuecall String`,
	}
	var out [][]string
	for bi, base := range bases {
		k := `"1"`
		if bi == 4 {
			k = `"x"`
		}
		for ti, tw := range twists {
			setup := "walker: var a = " + base + "; " + strings.ReplaceAll(tw, "K", k) + "; typeof a"
			// the reading walkers on the fresh subject, then the mutating ones; a second history starts with
			// the Go accessors so that an early script failure cannot mask them
			ws := walkers
			first := []string{setup, `go:export a`, `go:object a`}
			out = append(out, append([]string{setup}, ws...))
			if (bi+ti)%2 == 0 {
				out = append(out, append(first, `go:copy Array.prototype.slice.call(a).length`, `(function () { return arguments.length }).apply(null, a)`, `Object.keys(a).length`, `JSON.stringify(a)`))
			}
		}
	}
	return out
}

// ---------------------------------------------------------------------------
// uncaught thrown values of every shape reaching every host boundary

func thrownHistories() [][]string {
	thrower := `function () { throw new RangeError("inner") }`
	shapes := []string{
		`{name: "ValidationError", message: "bad input"}`,
		`{message: "only message"}`,
		`{name: "N"}`,
		`{name: {toString: ` + thrower + `}, message: "m"}`,
		`{name: "N", message: {toString: ` + thrower + `, valueOf: ` + thrower + `}}`,
		`{get name() { throw new TypeError("name getter") }, message: "m"}`,
		`{name: "N", get message() { throw new TypeError("message getter") }}`,
		`{get message() { return {} }, get name() { return {} }}`,
		`{get message() { return __run("1 + 1") }, get name() { return __run("'re' + 'entered'") }}`,
		`{get message() { return __run("throw 5") }}`,
		`{get message() { throw this }}`,
		`{toString: ` + thrower + `}`,
		`{toString: function () { return {} }, valueOf: function () { return {} }}`,
		`{toString: function () { return __run("'re' + 1") }}`,
		`{valueOf: ` + thrower + `, toString: undefined}`,
		`Object.create({get message() { throw 1 }, name: "P"})`,
		`Object.create(Object.create({message: "deep", get name() { throw 2 }}))`,
		`Object.create(null)`,
		`Object.create(new Error("proto error"))`,
		`Object.defineProperty(new Error("e"), "message", {get: function () { throw new RangeError("em") }})`,
		`Object.defineProperty(new TypeError("e"), "name", {get: function () { throw 3 }})`,
		`Object.defineProperty(new Error("e"), "toString", {get: function () { throw 4 }})`,
		`Object.defineProperty(new Error("e"), "stack", {get: function () { throw 6 }})`,
		`Object.freeze(new RangeError("frozen"))`,
		`Object.freeze({name: "F", message: "frozen plain"})`,
		`(function () { var e = new Error("x"); e.message = {toString: ` + thrower + `}; e.name = {toString: ` + thrower + `}; return e })()`,
		`(function () { var e = new Error("x"); delete e.message; Error.prototype.message = {toString: ` + thrower + `}; return e })()`,
		`(function () { function MyError() { this.message = "mine" } MyError.prototype = Object.create(Error.prototype, {name: {get: function () { throw 7 }}}); return new MyError() })()`,
		`[1, {toString: ` + thrower + `}]`,
		`(function () { var a = [1]; a.join = ` + thrower + `; return a })()`,
		`(function () { return arguments })({toString: ` + thrower + `})`,
		`function () { }`, `Object.defineProperty(function f() { }, "toString", {value: ` + thrower + `})`,
		`new Date(NaN)`, `/re/g`, `Math`, `JSON`,
		`undefined`, `null`, `0`, `-0`, `NaN`, `""`, `"text"`, `true`, `String.fromCharCode(0xD800)`, `new String("boxed")`, `new Number(1)`, `new Boolean(false)`,
	}
	routes := []string{
		`throw X`,
		`thrower()`,
		`(function () { try { throw X } finally { } })()`,
		`[1].forEach(thrower)`,
		`new thrower()`,
		`+{valueOf: thrower}`,
		`JSON.stringify({toJSON: thrower})`,
		`"a".replace(/a/, thrower)`,
		`[2, 1].sort(thrower)`,
		`({get g() { throw X }}).g`,
		`eval("throw X")`,
		`(0, eval)("throw X")`,
		`Function("throw X")()`,
		`thrower.call(null)`,
		`thrower.apply(null, [])`,
		`thrower.bind(null)()`,
		`try { throw X } catch (e) { throw e }`,
		`try { throw 1 } catch (e) { throw X }`,
		`try { throw 1 } finally { throw X }`,
		`go:eval throw X`,
		`go:eval thrower()`,
		`go:compile throw X`,
		`go:call thrower`,
		`go:call holder.thrower`,
		`go:call new thrower`,
		`go:valuecall thrower`,
		`go:objectcall holder thrower`,
		`go:copy throw X`,
		`go:export X`,
		`go:getset X`,
		`__run("throw X")`,
		`__call("thrower")`,
		`__eval("throw X")`,
	}
	var out [][]string
	for _, sh := range shapes {
		rs := routes
		setup := "thrown: var X = " + sh + "; function thrower() { throw X } var holder = {thrower: thrower}; typeof X"
		out = append(out, append([]string{setup}, rs...))
		// error-like shapes: every boundary on its own runtime as well, so that one failing route does not hide the others
		if strings.Contains(sh, "message") || strings.Contains(sh, "name") {
			for _, rt := range rs {
				out = append(out, []string{setup, rt, "typeof X"})
			}
		}
	}
	return out
}

// ---------------------------------------------------------------------------
// what the host configured (stack depth limit, trace limit, debugger handler,
// random source) under Copy() and copy-of-copy; the exact limit semantics of a
// copy are in the stack cases (op 29), here nothing may panic or hang

func settingsHistories() [][]string {
	use := []string{
		`function rec(n) { return n <= 1 ? 0 : rec(n - 1) } typeof rec`,
		`rec(10)`, `rec(39)`, `rec(40)`, `rec(300)`,
		`try { rec(300) } catch (e) { e instanceof RangeError }`,
		`debugger; Math.random()`,
		`(function f(n) { debugger; return n ? f(n - 1) : new Error("trace").stack })(6)`,
		`try { null.x } catch (e) { String(e.stack).length }`,
		`[1, 2, 3].map(function () { return Math.random() }).join()`,
		`(0, eval)("rec(45)")`,
		`__run("rec(20)")`,
	}
	var out [][]string
	for _, order := range [][]string{
		{"go:settings", "go:copyswitch"},
		{"go:settings", "go:copyswitch", "go:copyswitch"},
		{"go:copyswitch", "go:settings", "go:copyswitch"},
		{"go:settings", "go:copy rec(300)", "go:copyswitch", "go:settings"},
	} {
		steps := []string{"settings: var made = 1; typeof made", use[0]}
		steps = append(steps, order...)
		steps = append(steps, use...)
		steps = append(steps, "go:copyswitch")
		steps = append(steps, use...)
		out = append(out, steps)
	}
	return out
}

// ---------------------------------------------------------------------------
// every host entry point invoked while the runtime is at rest, on callees that
// touch services which depend on the frame below them

func atRestHistories() [][]string {
	const setup = `atrest: ` +
		`function f1() { return f1.caller } function f2() { return arguments.callee.caller } ` +
		`function f3() { return String(new Error("x").stack) } function f4() { return eval("typeof this") } function f5() { return this } ` +
		`function f6() { return (0, eval)("typeof f1") } function f7() { return f1() === f7 } ` +
		`function f8() { return [1].map(function () { return arguments.callee.caller })[0] } ` +
		`function f9() { return f9.caller && f9.caller.caller } function f10() { return f10.arguments } ` +
		`function f11() { throw new RangeError("at rest") } function f12() { return __run("f1()") } function f13() { return __run.caller } ` +
		`function f14() { return f1.call(null) } function f15() { return f2.apply(this, arguments) } function f16() { try { null.x } catch (e) { return String(e.stack) } } ` +
		`function f17() { return Function("return arguments.callee.caller")() } function f18() { return typeof arguments.callee.caller + typeof f18.caller } ` +
		`var f19 = f1.bind(null), f20 = f2.bind({}), f21 = new Function("return arguments.callee.caller"); ` +
		`var holder = {get g() { return arguments.callee.caller }, get c() { return f1() }, set s(v) { this.v = f2() }, toString: f2, valueOf: f1, toJSON: f2}; ` +
		`for (var i = 1; i <= 21; i++) holder["f" + i] = this["f" + i]; typeof holder`
	var out [][]string
	for i := 1; i <= 21; i++ {
		f := fmt.Sprintf("f%d", i)
		// every entry point on its own runtime, so that one panic cannot hide the next
		for _, step := range []string{
			"go:valuecall " + f, "go:valuecallthis " + f, "go:objectcall holder " + f, "go:call " + f, "go:call holder." + f, "go:call new " + f,
			"go:callsrcthis " + f, "go:copy " + f + "()", "go:getset " + f, "go:export " + f, f + "()", "go:eval " + f + "()",
		} {
			out = append(out, []string{setup, step, "go:valuecall " + f, "go:objectcall holder " + f})
		}
	}
	for _, step := range []string{"go:objectget holder g", "go:objectget holder c", "go:objectget holder s", "go:object holder", "go:export holder", "go:objectcall holder toString",
		"go:objectcall holder valueOf", "go:getset holder", "go:copy String(holder) + JSON.stringify(holder)", "go:valuecall holder", "go:objectcall holder nothing"} {
		out = append(out, []string{setup, step, "go:objectget holder g", "go:export holder"})
	}
	// Otto.Call with every spelling of its source, at rest
	for _, src := range []string{"", " ", "\n", "\t \r\n", "//", "// Math.abs", "/* c */ // d", "//\t", "// new f1", "//*/", "/**/ //", "<!-- x", " // ", "\n//", "/* */\n// c", "// //", "/* // */ //", "//f1", "\ufeff//", "\t// (", "//)", "// }", "/* \n */ // \\", "/* c */", "/**/", "/*", "*/", "<!--", "-->", "<!-- f1", "f1 //", "f1 // x", "f1 /* c */", "f1 /*",
		"new ", "new", "new  f1", "new f1 //", "new //", "new /* c */ f1", "new\nf1", "new new f1", "new f1()", "new holder.f1", "new 1", "new ''", "new (f1)", "new f1.bind(null)",
		"f1 ", " f1", "f1\n", "f1;", "f1()", "f1)", "(f1", "(f1)", "f1,f2", "f1 ", "f1.call", "f1.bind(null)", "holder.f1", "holder['f1']", "holder[\"f\" + 1]", "this.f1", "this", "holder.g", "holder.nothing",
		"1", "null", "undefined", "'s'", "a b", "f1 f2", "function(){ return f1.caller }", "(function(){ return arguments.callee.caller })", "function", "function(", "}", "{", "})", "//\nf1", "f1//\n", "\\", "\"", "'", "`", "#", "@",
		"eval", "Function", "Math.max", "String.prototype.trim", "[].concat", "({}).toString", "/a/.exec", "Object.prototype.hasOwnProperty"} {
		out = append(out, []string{setup, "go:callsrc " + src, "go:callsrcthis " + src, "go:callsrc " + src})
	}
	return out
}

// ---------------------------------------------------------------------------
// Function / new Function / eval / Otto.Call sources built from fragments that
// try to close and reopen the text the source is wrapped in: the outcome is a
// SyntaxError or a function, never a panic and never code run outside it.
// The constructed functions are not called here.

func wrapperHistories() [][]string {
	bodies := []string{"})", "}", "{", "*/", "/*", "//", "\n", "\r", " ", "}{", "})(", "}); __leak = 1; (function(){", "}); __leak = 1; //", "} __leak = 1; {", "*/ __leak = 1 /*",
		"\n}); __leak = 1; (function(){\n", "return 1 }); __leak = 1; (function(){", "}; __leak = 1; (function(){", "})\n__leak = 1\n(function(){", "(", ")", "[", "]", "}}", "{{",
		"return 1 //", "return /*", "return '", "return \"\\", "return /[/", "return 1 }", "{ return 1", "<!--", "-->", "\\u007d)", "}\\u0029", "/* */ }) /* */", "// })\n", "'})'", "/})/", "", " ",
		// bodies that close the wrapper and continue the expression: the former crash region of
		// C02-function-ctor-body-injection (2cabc07), SyntaxError now
		"}),(function(){", "}).x; (function(){", "}) + (function(){", "}), __leak = 1, (function(){ //", "}) ? __leak = 1 : (function(){", "}).call(__leak = 1); (function(){",
		"}) || (function(){", "})[__leak = 1]; (function(){", "}); throw 1; (function(){", "}) = 1; (function(){", "}) in (function(){", "\n}),\n(function(){\n", "return 1 }),(function(){ return 2",
	}
	params := []string{"a){ __leak = 1 }); (function(b", "a){}),(function(b", "a){ return 1 }).x; (function(b", "a) { __leak = 1 }), __leak = 2, (function(b", "a){}) + (function(", ") {}),(function(", "a\n){}),(function(b", "a, b){ return 1 } /*", "a /*", "*/ b", "a //", "a\n", "a,,b", "a,", ",a", "1", "'s'", "this", "a.b", "a){", "a}", "a = 1", "...a", "(a)", "[a]", "{a}", "a b", "a b", "", " ", "a, a", "arguments", "eval"}
	var out [][]string
	for _, b := range bodies {
		q := JSStr(Units(b))
		out = append(out, []string{"wrapper: typeof __leak",
			"var f = Function(" + q + "); typeof f", "go:noleak",
			"var f = new Function(" + q + "); typeof f", "go:noleak",
			"var f = new Function('a', 'b', " + q + "); typeof f + f.length", "go:noleak",
			"var f = Function(" + q + ", 'return 1'); typeof f", "go:noleak",
			"String(Function(" + q + ")).length", "go:noleak",
			"go:callsrc new Function(" + q + ")", "go:noleak",
			"go:callsrc Function(" + q + ")", "go:noleak",
			"__run('Function(' + " + JSStr(Units(q)) + " + ')'); 2", "go:noleak",
		})
		// the same text as a function expression given to eval, Otto.Eval, Compile, Otto.Call: whatever follows the
		// closed wrapper there is simply the rest of the program that was asked for (no leak to look for)
		out = append(out, []string{"wrapper: typeof __leak",
			"eval('(function(){' + " + q + " + '})')",
			"(0, eval)('(function(){\\n' + " + q + " + '\\n})'); 1",
			"go:eval (function(){" + b + "})",
			"go:compile (function(){" + b + "})",
			"go:callsrc (function(){" + b + "})",
			"go:callsrcthis (function(){" + b + "})",
			"__run('(function(){' + " + q + " + '})'); 2",
		})
	}
	for _, pm := range params {
		q := JSStr(Units(pm))
		out = append(out, []string{"wrapper: typeof __leak",
			"var f = Function(" + q + ", 'return 1'); typeof f", "go:noleak",
			"var f = new Function('x', " + q + ", 'return 2'); typeof f + f.length", "go:noleak",
			"var f = new Function(" + q + ", " + q + ", ''); typeof f", "go:noleak",
			"var f = new Function(" + q + ", '*/ ) { return 3'); typeof f", "go:noleak",
			"var f = new Function(" + q + ", '}); __leak = 1; (function(){'); typeof f", "go:noleak",
		})
		out = append(out, []string{"wrapper: typeof __leak",
			"eval('(function(' + " + q + " + '){})'); 1",
			"go:eval (function(" + pm + "){})",
			"go:callsrc (function(" + pm + "){ return 1 })",
		})
	}
	return out
}

// ---------------------------------------------------------------------------
// labelled statements left by break / continue to their own or an outer label,
// in every kind of body, and the value of the function call used afterwards
// (the former region of C02-label-leak, aa97b99)

func labelSources() []entrySrc {
	bodies := []string{
		"if (1) break a;", "if (0) ; else break a;", "{ break a; }", "{ { break a; } }", "try { break a; } finally { x = 1 }", "try { throw 1 } catch (e) { break a; }",
		"try { } finally { break a; }", "with ({}) break a;", "switch (1) { case 1: break a; }", "switch (1) { default: if (1) break a; }", "b: { break a; }", "b: if (1) break a;",
		"b: { break b; } ", "for (;;) { break a; }", "for (var i = 0; i < 3; i++) { continue a; }", "while (1) { if (1) break a; }", "do { break a; } while (0)", "for (var k in {p: 1}) { break a; }",
		"for (var k in {p: 1}) { continue a; }", "b: for (;;) { a2: for (;;) { break a; } }", "for (;;) b: { break a; }", "if (1) b: for (;;) break a;", "x = 1;", ";", "break a;",
		"{ x = (function () { c: { break c; } return 2 })(); break a; }", "if (1) { eval('1'); break a; }", "switch (0) { case 0: b: { break a; } }", "try { try { break a; } finally { } } finally { }",
	}
	uses := []string{"typeof f()", "f() + 1", "String(f())", "[f()].length", "new f() && 1", "f.call(null)", "(function () { return f() })()", "var r = f(); r === 7", "f(), f()", "JSON.stringify({v: f()})"}
	var out []entrySrc
	for bi, b := range bodies {
		for ui, u := range uses {
			if (bi+ui)%2 != 0 {
				continue
			}
			out = append(out,
				entrySrc{(bi + ui) % 3, "function f(){ a: " + b + " return 7 } " + u},
				entrySrc{0, "var f = function(){ var x; a: " + b + " }; " + u},
				entrySrc{0, "var f = new Function(" + JSStr(Units("a: "+b+" return 7")) + "); " + u})
		}
		out = append(out,
			entrySrc{0, "a: " + b + " 5"},
			entrySrc{1, "a: " + b},
			entrySrc{0, "eval(" + JSStr(Units("a: "+b+" 5")) + ")"},
			entrySrc{0, "function g(){ return eval(" + JSStr(Units("a: "+b+" 5")) + ") } typeof g()"},
			entrySrc{0, "var o = {get v(){ a: " + b + " return 7 }}; typeof o.v"},
			entrySrc{0, "[1, 2].map(function(){ a: " + b + " return 7 }).join()"})
	}
	return out
}

// ---------------------------------------------------------------------------
// probes whose failure mode is fatal for the process (a Go stack overflow cannot
// be recovered): run in a child process, the exit is the observation

var childProbes = []string{"export-cycle-object", "export-cycle-array", "export-deep-acyclic", "export-global", "export-cycle-three"}

func childProbe(which string) {
	debug.SetMaxStack(64 << 20) // die early instead of eating a gigabyte
	vm := otto.New()
	src := map[string]string{
		"export-cycle-object": `var a = {}; a.a = a; a`,
		"export-cycle-array":  `var a = [1]; a[1] = [a]; a`,
		"export-deep-acyclic": `var a = {}, b = a; for (var i = 0; i < 200; i++) { b.n = {}; b = b.n } a`,
		"export-global":       `var self = this, list = [this, {g: this}]; this`,
		"export-cycle-three":  `var a = {}, b = {a: a}, c = [b]; a.c = c; a.get = {get g() { return a }}; c`,
	}[which]
	v, err := vm.Run(src)
	if err != nil {
		os.Exit(3)
	}
	o := Guard(func() (otto.Value, error) { _, e := v.Export(); return otto.Value{}, e })
	switch {
	case o.Panic != nil:
		os.Exit(9)
	case o.Err != nil:
		os.Exit(6)
	}
	os.Exit(0)
}

func childCases(env *Env) {
	for id, which := range childProbes {
		cmd := exec.Command(os.Args[0], "-child", which)
		done := make(chan error, 1)
		go func() { done <- cmd.Run() }()
		obs, info := int64(0), "returned a value"
		select {
		case err := <-done:
			if err != nil {
				code := -1
				var ee *exec.ExitError
				if errors.As(err, &ee) {
					code = ee.ExitCode()
				}
				switch code {
				case 6:
					obs, info = 6, "returned an error"
				case 9:
					obs, info = 9, "GO PANIC escaped Export"
				default:
					obs, info = 14, fmt.Sprintf("THE PROCESS DIED (exit %d: fatal error, not recoverable)", code)
				}
			}
		case <-time.After(120 * time.Second):
			_ = cmd.Process.Kill()
			obs, info = 10, "no return within 120s"
		}
		env.Add(fmt.Sprintf("CChild %d %d", id, obs), fmt.Sprintf("child process: Value.Export in probe %s -> %s", which, info), "child", true)
	}
}

// ---------------------------------------------------------------------------
// non-ASCII receivers and positions between their length in UTF-16 units, in
// runes and in UTF-8 bytes, for every String (and RegExp) function that takes one

func positionSources() []string {
	recvs := []string{`"é"`, `"uñiçode"`, `"a𐀀b"`, `"日本語"`, `"éé"`, `"\ufffd€x"`, `new String("ñandú")`, `"𐀀𐀁"`}
	calls := []string{
		`s.indexOf(T, p)`, `s.lastIndexOf(T, p)`, `s.slice(p)`, `s.slice(p, p + 1)`, `s.slice(-p)`, `s.substring(p)`, `s.substring(p, q)`, `s.substr(p)`, `s.substr(p, 2)`, `s.substr(-p, q)`,
		`s.charAt(p)`, `s.charCodeAt(p)`, `s.split(T, p)`, `s.split("", p)`, `s[p]`, `s.concat(s).indexOf(T, p + s.length)`,
		`r.lastIndex = p; r.exec(s)`, `r.lastIndex = p; r.test(s)`, `r.lastIndex = p; s.replace(r, "-")`, `r.lastIndex = p; s.match(r)`, `Array.prototype.slice.call(s, p).length`, `Array.prototype.indexOf.call(s, T, p)`,
		`Array.prototype.lastIndexOf.call(s, T, p)`, `s.localeCompare(s.slice(p))`, `s.toUpperCase().indexOf(T.toUpperCase(), p)`, `s.trim().lastIndexOf(T, p)`,
	}
	var out []string
	for _, rc := range recvs {
		for _, c := range calls {
			// T runs over a character of the receiver, the empty string and a stranger; p and q over every
			// position from -2 to two past the UTF-8 byte length (which is the largest of the three lengths)
			out = append(out, `var s = `+rc+`, S = String(s), n = unescape(encodeURIComponent(S)).length + 2, out = 0; `+
				`for (var ti = 0; ti < 3; ti++) { var T = [S.charAt(S.length - 1), "", "z"][ti], r = new RegExp(T || "(?:)", "g"); `+
				`for (var p = -2; p <= n; p++) for (var q = p; q <= p + 1; q++) { var x = `+c+`; out += x === undefined ? 0 : 1 } } out`)
		}
	}
	return out
}

// every prototype object used as an instance of its own class
func protoAsInstanceSources(paths []string) []string {
	var out []string
	for _, p := range paths {
		i := strings.Index(p, ".prototype.")
		if i < 0 || strings.HasPrefix(p, "%") || strings.Contains(p, "<") {
			continue
		}
		proto := p[:i+len(".prototype")]
		out = append(out, p+"()", p+`("a", 1)`, proto+"."+p[i+len(".prototype."):]+".call("+proto+", 0, 1)",
			"Object.create("+proto+")."+p[i+len(".prototype."):]+"(1)")
	}
	// a prototype object handed to the functions that take an instance of its class as an argument
	// (the former region of C02-regexp-prototype-instance, b602a64)
	for _, s := range []string{`"abc"`, `""`, `"a\ufffdb"`, `new String("x\ufffd")`} {
		for _, c := range []string{`.replace(RegExp.prototype, "x")`, `.replace(RegExp.prototype, function (m) { return "[" + m + "]" })`, `.match(RegExp.prototype)`, `.split(RegExp.prototype)`,
			`.split(RegExp.prototype, 2)`, `.search(RegExp.prototype)`, `.concat(String.prototype)`, `.indexOf(String.prototype)`, `.localeCompare(String.prototype)`} {
			out = append(out, s+c)
		}
	}
	out = append(out, `RegExp.prototype.lastIndex = 5; RegExp.prototype.exec("abc")`, `RegExp.prototype.test(RegExp.prototype)`, `new RegExp(RegExp.prototype).exec("a")`, `RegExp(RegExp.prototype) === RegExp.prototype`,
		`Date.prototype.setTime.call(Date.prototype, 5)`, `new Date(Date.prototype).getTime()`, `[].concat(Array.prototype).length`, `Array.prototype.concat.call(Array.prototype, Array.prototype).length`,
		`Function.prototype.apply(Function.prototype, Array.prototype)`, `Function.prototype.bind.call(Function.prototype)()`, `new Function.prototype()`, `Object.keys(String.prototype).length + Object.keys(Boolean.prototype).length`,
		`JSON.stringify([RegExp.prototype, Date.prototype, String.prototype, Number.prototype, Boolean.prototype, Error.prototype, Array.prototype, Function.prototype])`,
		`Object.isFrozen(Object.preventExtensions(new String("a\ufffd\ufffdb"))) + "" + Object.isSealed(Object.seal(new String("\ufffd")))`, `Object.getOwnPropertyDescriptor(new String("\ufffd"), "0").value.length`,
		`var o = Object.assign({}, new String("\ufffda")); o[0] + o[1]`, `Object.freeze(new String("a\ufffd"))[1]`, `for (var k in new String("\ufffd\ufffd")) k`)
	return out
}

// ---------------------------------------------------------------------------
// global accessors (own, inherited, on the copy) whose getter / setter goes back
// into the host API, reached through every host entry point: nothing may wedge

func reentrantAccessorHistories() [][]string {
	inner := []string{`__get("plain")`, `__set("plain", 2)`, `__run("plain + 1")`, `__eval("plain")`, `__call("helper", 1)`, `__get("acc2")`, `__set("acc2", 3)`, `__get("nothing")`}
	var out [][]string
	for ii, in := range inner {
		setup := `reentrant: var plain = 1; function helper(x) { return x } ` +
			`Object.defineProperty(this, "acc", {get: function () { return ` + in + ` }, set: function (v) { ` + in + ` }, configurable: true}); ` +
			`Object.defineProperty(this, "acc2", {get: function () { return 5 }, set: function (v) { }, configurable: true}); ` +
			`Object.defineProperty(Object.prototype, "inh", {get: function () { return ` + in + ` }, set: function (v) { ` + in + ` }, configurable: true}); typeof acc`
		for _, outer := range []string{"go:getset acc", "go:getset inh", "acc", "acc = 1", "inh", "this.inh = 2", "go:objectget this acc", "go:objectget this inh", "go:call helper", "go:callsrc acc", "go:eval acc + inh",
			"go:copy acc + inh", "go:export this.acc", "__get('acc')", "__set('acc', 1)", "__get('inh')", "go:valuecall helper", "go:settings", "go:copyswitch"} {
			steps := []string{setup, outer, "go:getset acc", "go:getset plain", "acc"}
			if ii%2 == 0 {
				steps = append(steps, "go:copyswitch", "go:getset acc", "go:getset inh", "inh = 1")
			}
			out = append(out, steps)
		}
	}
	return out
}

// ---------------------------------------------------------------------------
// built-in accessors (Error stack, function caller) read through objects that
// only inherit them, or with the getter detached and given another receiver

func inheritedAccessorHistories() [][]string {
	makers := []string{
		`new Error("e")`, `new TypeError("t")`, `(function () { try { null.x } catch (e) { return e } })()`, `(function () { try { undefinedName } catch (e) { return e } })()`,
		`(function () { try { new Array(-1) } catch (e) { return e } })()`, `(function () { try { eval("(") } catch (e) { return e } })()`, `Error("called")`,
	}
	reads := []string{
		`Object.create(E).stack`, `function Sub() {} Sub.prototype = E; new Sub().stack`, `function Sub2() {} Sub2.prototype = Object.create(E); String(new Sub2().stack).length`,
		`var g = Object.getOwnPropertyDescriptor(E, "stack").get; typeof g.call(E)`, `g.call(5)`, `g.call(undefined)`, `g.call(null)`, `g.call({})`, `g.call("s")`, `g.call(new Error("other"))`, `g.call(Object.create(E))`, `g()`,
		`g.apply([], [])`, `g.bind(1)()`, `var o = {}; Object.defineProperty(o, "stack", Object.getOwnPropertyDescriptor(E, "stack")); o.stack`, `Object.create(Object.create(E)).stack`,
		`var arr = []; arr.__proto__ = E; arr.stack`, `E.stack = 1; E.stack`, `Object.create(E).stack = 2`, `JSON.stringify(Object.create(E))`, `String(Object.create(E))`, `Object.create(E).toString()`,
		`go:export Object.create(E)`, `go:objectget E stack`, `go:copy Object.create(E).stack`, `go:copyswitch`, `Object.create(E).stack`, `g.call(E)`,
		`var c = Object.getOwnPropertyDescriptor(function () {}, "caller").get; typeof c.call(function () {})`, `c.call(5)`, `c.call(undefined)`, `c.call({})`, `c()`, `c.call(Math.abs)`, `Object.create(function () {}).caller`,
		`function Fn() {} Fn.prototype = function () {}; new Fn().caller`, `(function () { return Object.create(arguments.callee).caller })()`, `Object.create((function () { return arguments })()).callee`,
	}
	var out [][]string
	for _, m := range makers {
		out = append(out, append([]string{"inherited: var E = " + m + "; typeof E"}, reads...))
		// and each read on its own runtime
		for _, r := range reads[:22] {
			pre := "typeof E"
			if strings.HasPrefix(r, "g") || strings.Contains(r, "g.call") {
				pre = `var g = Object.getOwnPropertyDescriptor(E, "stack").get; typeof g`
			}
			out = append(out, []string{"inherited: var E = " + m + "; typeof E", pre, r})
		}
	}
	return out
}
