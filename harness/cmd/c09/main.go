// c09: correspondence cases for property C09 (String methods over UTF-16 code units).
package main

import (
	"fmt"
	"math"
	"strings"
	"unicode/utf16"
	"unicode/utf8"

	"github.com/robertkrimen/otto"
	. "ottoh/lib"
)

func main() {
	env := FromFlags("c09")
	runC09(env)
	env.Finish()
}

type c09gen struct {
	env *Env
	vm  *otto.Otto
	cur *otto.Otto // runtime in which the expressions built by strExpr will be evaluated (for vm.Set)
	gs  int
}

// ---------- strings ----------

var (
	alphaASCII  = []uint16{'a', 'b', 'c', 'a', 'b', 'A', 'Z', 'z', ' ', ',', '0', '1', 'x', '\t', '\n'}
	alphaLatin1 = []uint16{0xE9, 0xDF, 0xFF, 0xB5, 0xA0, 0xC0, 0xD7, 0xF7, 0x80, 0xE9}
	alphaBMP    = []uint16{0x65E5, 0x672C, 0x8A9E, 0x0800, 0x07FF, 0xFFFF, 0xE000, 0xD7FF, 0x2028, 0x2029, 0xFEFF, 0x3000, 0x1680, 0x180E, 0x2003, 0x200B, 0x0085, 0x0391, 0x03C9, 0x03A3, 0x03C2, 0x0410, 0x044F, 0x0451, 0x0130, 0x01C5, 0x65E5}
	astralRunes = []rune{0x10000, 0x1F600, 0x10FFFF, 0x10400, 0x1D11E}
	loneUnits   = []uint16{0xD800, 0xDC00, 0xDBFF, 0xDFFF}
	trimUnits   = []uint16{0x9, 0xA, 0xB, 0xC, 0xD, 0x20, 0xA0, 0x1680, 0x180E, 0x2000, 0x2001, 0x2005, 0x200A, 0x2028, 0x2029, 0x202F, 0x205F, 0x3000, 0xFEFF, 0x200B, 0x85, 0x1F, 0x2060}
	caseUnits   = []uint16{'a', 'Z', 'm', '5', 0xE9, 0xC9, 0xFF, 0xB5, 0xD7, 0xF7, 0xDE, 0xFE, 0x391, 0x3A9, 0x3B1, 0x3C9, 0x3C2, 0x3C3, 0x3A1, 0x400, 0x40F, 0x410, 0x42F, 0x430, 0x44F, 0x450, 0x45F, 0xC0, 0xE0, 0x100, 0x101, 0x12E, 0x12F, 0x1C4, 0x1C5, 0x1C6, 0x1C8, 0x1C9, 0x1CB, 0x1CC, 0x1F1, 0x1F2, 0x1F3, 0x1C5}
)

// flavour: 0 ascii, 1 latin1, 2 bmp, 3 astral, 4 with lone surrogates
func (g *c09gen) units(flavour, maxLen int) []uint16 {
	r := g.env.Rng
	if maxLen >= 5 && r.Intn(3) == 0 {
		return g.longUnits(flavour)
	}
	n := r.Intn(maxLen + 1)
	if r.Intn(12) == 0 {
		n = 0
	}
	var u []uint16
	for len(u) < n {
		k := r.Intn(10)
		switch {
		case flavour >= 4 && k == 0:
			u = append(u, Pick(r, loneUnits))
		case flavour >= 3 && k <= 2:
			a, b := utf16.EncodeRune(Pick(r, astralRunes))
			u = append(u, uint16(a), uint16(b))
		case flavour >= 2 && k <= 5:
			u = append(u, Pick(r, alphaBMP))
		case flavour >= 1 && k <= 7:
			u = append(u, Pick(r, alphaLatin1))
		default:
			u = append(u, Pick(r, alphaASCII))
		}
	}
	return u
}

// one "special" (non-ASCII) character of the flavour, as units
func (g *c09gen) special(flavour int) []uint16 {
	r := g.env.Rng
	switch k := r.Intn(10); {
	case flavour >= 4 && k == 0:
		return []uint16{Pick(r, loneUnits)}
	case flavour >= 3 && k <= 4:
		a, b := utf16.EncodeRune(Pick(r, astralRunes))
		return []uint16{uint16(a), uint16(b)}
	case flavour >= 2 && k <= 7:
		return []uint16{Pick(r, alphaBMP)}
	default:
		return []uint16{Pick(r, alphaLatin1)}
	}
}

func (g *c09gen) asciiRun(n int) []uint16 {
	u := make([]uint16, n)
	for i := range u {
		u[i] = Pick(g.env.Rng, []uint16{'a', 'b', 'c', 'a', 'b', 'x', 'y', 'z', '0', ',', ' '})
	}
	return u
}

// strings of 0..40 units whose non-ASCII characters sit at chosen position classes: first, last,
// only after an ASCII prefix of 8k-1 / 8k / 8k+1 bytes followed by a tail of 0..6 ASCII bytes, or spread
func (g *c09gen) longUnits(flavour int) []uint16 {
	r := g.env.Rng
	p := Pick(r, []int{0, 1, 2, 3, 5, 6, 7, 8, 9, 10, 14, 15, 16, 17, 18, 22, 23, 24, 25, 26, 30, 31, 32, 33, 34})
	if r.Intn(4) == 0 {
		p = r.Intn(35)
	}
	t := r.Intn(7)
	if flavour == 0 {
		return g.asciiRun(p + t)
	}
	sp := g.special(flavour)
	if r.Intn(3) == 0 {
		sp = append(sp, g.special(flavour)...)
	}
	var u []uint16
	switch r.Intn(8) {
	case 0: // first
		u = append(append(u, sp...), g.asciiRun(p+t)...)
	case 1: // first and last
		u = append(append(append(u, g.special(flavour)...), g.asciiRun(p)...), sp...)
	case 2: // spread
		u = g.asciiRun(p + t)
		for k := 1 + r.Intn(3); k > 0; k-- {
			i := r.Intn(len(u) + 1)
			if i > 0 && i < len(u) && u[i] >= 0xDC00 && u[i] < 0xE000 {
				i--
			}
			u = append(u[:i:i], append(g.special(flavour), u[i:]...)...)
		}
	default: // only after the ASCII prefix, then a short ASCII tail
		u = append(append(g.asciiRun(p), sp...), g.asciiRun(t)...)
	}
	return u
}

func (g *c09gen) flavour() int {
	// ascii 20%, latin1 20%, bmp 25%, astral 25%, lone 10%
	k := g.env.Rng.Intn(20)
	switch {
	case k < 4:
		return 0
	case k < 8:
		return 1
	case k < 13:
		return 2
	case k < 18:
		return 3
	}
	return 4
}

func wellFormed(u []uint16) bool {
	for i := 0; i < len(u); i++ {
		switch {
		case u[i] >= 0xD800 && u[i] < 0xDC00:
			if i+1 < len(u) && u[i+1] >= 0xDC00 && u[i+1] < 0xE000 {
				i++
			} else {
				return false
			}
		case u[i] >= 0xDC00 && u[i] < 0xE000:
			return false
		}
	}
	return true
}

func flavourOf(u []uint16) string {
	f := "ascii"
	for _, c := range u {
		switch {
		case c >= 0xD800 && c < 0xE000:
			if !wellFormed(u) {
				return "lone"
			}
			f = "astral"
		case c >= 0x100 && f != "astral":
			f = "bmp"
		case c >= 0x80 && f == "ascii":
			f = "latin1"
		}
	}
	return f
}

// a JS expression whose value is the string with exactly these units
func (g *c09gen) strExpr(u []uint16) string {
	r := g.env.Rng
	form := r.Intn(6)
	if !wellFormed(u) {
		form = 0
	}
	switch form {
	case 4: // ToString of an object
		return "String({toString:function(){return " + g.rawLit(u) + "}})"
	case 5: // a Go string handed over with Otto.Set
		if g.cur == nil {
			g.cur = g.vm
		}
		g.gs = (g.gs + 1) % 64
		name := fmt.Sprintf("__gs%d", g.gs)
		Must(g.cur.Set(name, string(utf16.Decode(u))))
		return name + "/*Go string " + g.rawLit(u) + " via Otto.Set*/"
	case 0: // String.fromCharCode(...): a []uint16 value inside otto
		if len(u) == 0 {
			return `""`
		}
		parts := make([]string, len(u))
		for i, c := range u {
			if r.Intn(2) == 0 {
				parts[i] = fmt.Sprintf("0x%X", c)
			} else {
				parts[i] = fmt.Sprintf("%d", c)
			}
		}
		return "String.fromCharCode(" + strings.Join(parts, ",") + ")"
	case 1: // every non-ASCII BMP unit escaped, astral raw
		var b strings.Builder
		b.WriteByte('"')
		for _, c := range utf16.Decode(u) {
			switch {
			case c >= 0x20 && c < 0x7f && c != '"' && c != '\\':
				b.WriteByte(byte(c))
			case c < 0x10000:
				fmt.Fprintf(&b, "\\u%04X", c)
			default:
				b.WriteRune(c)
			}
		}
		b.WriteByte('"')
		return b.String()
	case 2: // concatenation of two halves cut at a code point boundary
		cut := r.Intn(len(u) + 1)
		if cut > 0 && cut < len(u) && u[cut] >= 0xDC00 && u[cut] < 0xE000 {
			cut--
		}
		return "(" + g.rawLit(u[:cut]) + "+" + g.rawLit(u[cut:]) + ")"
	default: // raw UTF-8 in the source text
		return g.rawLit(u)
	}
}

func (g *c09gen) rawLit(u []uint16) string {
	var b strings.Builder
	b.WriteByte('\'')
	for _, c := range utf16.Decode(u) {
		switch {
		case c == '\'' || c == '\\':
			b.WriteByte('\\')
			b.WriteRune(c)
		case c < 0x20 || c == 0x7f || c == 0x2028 || c == 0x2029 || c == 0xFEFF || c == 0x85:
			fmt.Fprintf(&b, "\\u%04X", c)
		default:
			b.WriteRune(c)
		}
	}
	b.WriteByte('\'')
	return b.String()
}

// ---------- arguments ----------

type jarg struct{ js, coq string }

func numArg(f float64) jarg {
	return jarg{JSNum(f), "ANum " + Cdouble(f)}
}
// the Number handed over from Go in a given integer / float kind (Otto.Set); its Number value is float64(v)
func (g *c09gen) goTyped(kind string, f float64) (jarg, bool) {
	var v interface{}
	fits := func(lo, hi float64) bool { return f == math.Trunc(f) && f >= lo && f <= hi }
	switch kind {
	case "uint64":
		if !fits(0, 18446744073709549568) {
			return jarg{}, false
		}
		v = uint64(f)
	case "uint":
		if !fits(0, 18446744073709549568) {
			return jarg{}, false
		}
		v = uint(f)
	case "int64":
		if !fits(-9223372036854775808, 9223372036854774784) {
			return jarg{}, false
		}
		v = int64(f)
	case "int":
		if !fits(-9223372036854775808, 9223372036854774784) {
			return jarg{}, false
		}
		v = int(f)
	case "int32":
		if !fits(-2147483648, 2147483647) {
			return jarg{}, false
		}
		v = int32(f)
	case "uint32":
		if !fits(0, 4294967295) {
			return jarg{}, false
		}
		v = uint32(f)
	case "int16":
		if !fits(-32768, 32767) {
			return jarg{}, false
		}
		v = int16(f)
	case "uint16":
		if !fits(0, 65535) {
			return jarg{}, false
		}
		v = uint16(f)
	case "int8":
		if !fits(-128, 127) {
			return jarg{}, false
		}
		v = int8(f)
	case "uint8":
		if !fits(0, 255) {
			return jarg{}, false
		}
		v = uint8(f)
	case "float32":
		if float64(float32(f)) != f && !math.IsNaN(f) {
			return jarg{}, false
		}
		v = float32(f)
	default:
		v = f
	}
	if g.cur == nil {
		g.cur = g.vm
	}
	g.gs = (g.gs + 1) % 64
	name := fmt.Sprintf("__gp%d", g.gs)
	Must(g.cur.Set(name, v))
	return jarg{fmt.Sprintf("%s/*Go %s(%v) via Otto.Set*/", name, kind, v), "ANum " + Cdouble(f)}, true
}

var goKinds = []string{"uint64", "uint", "int64", "int", "int32", "uint32", "int16", "uint16", "int8", "uint8", "float32", "float64"}

// extreme values per kind (as their float64 Number value)
var goExtremes = []struct {
	kind string
	f    float64
}{
	{"uint64", 9223372036854775808}, {"uint64", 18446744073709549568}, {"uint64", 9223372036854777856}, {"uint", 9223372036854775808},
	{"uint", 18446744073709549568}, {"int64", 9223372036854774784}, {"int64", -9223372036854775808}, {"int", -9223372036854775808},
	{"int32", -2147483648}, {"int32", 2147483647}, {"uint32", 4294967295}, {"int16", -32768}, {"uint16", 65535}, {"int8", -128}, {"int8", -1}, {"uint8", 255},
	{"float32", 1.5}, {"float32", -0.5}, {"float32", math.Inf(1)}, {"float32", math.NaN()},
}

func strArg(g *c09gen, u []uint16) jarg {
	return jarg{g.strExpr(u), "AStr " + Cunits(u)}
}

var (
	argUndef = jarg{"undefined", "AUndef"}
	argNull  = jarg{"null", "ANull"}
	argTrue  = jarg{"true", "ABool true"}
	argFalse = jarg{"false", "ABool false"}
)

var hugePositions = []float64{2147483647, 2147483648, 4294967295, 4294967296, 4294967297, -2147483648, -2147483649,
	9007199254740992, 9223372036854774784, -9223372036854774784, 9223372036854775808, -9223372036854775808, 1e19, -1e19,
	1.7976931348623157e308, -1.7976931348623157e308, 5e-324, -5e-324}

// a position argument around the interesting lengths of the strings involved
func (g *c09gen) position(lens []int) jarg {
	r := g.env.Rng
	if r.Intn(8) == 0 { // the same position handed in from Go in some numeric kind
		if r.Intn(3) == 0 {
			e := Pick(r, goExtremes)
			if a, ok := g.goTyped(e.kind, e.f); ok {
				return a
			}
		}
		a := g.position(lens)
		var bits uint64
		if _, err := fmt.Sscanf(a.coq, "ANum %d", &bits); err == nil {
			if t, ok := g.goTyped(Pick(r, goKinds), math.Float64frombits(bits)); ok {
				return t
			}
		}
		return a
	}
	base := Pick(r, lens)
	switch k := r.Intn(40); {
	case k < 16: // around a boundary
		return numArg(float64(base + r.Intn(5) - 2))
	case k < 20: // negative, counted from the end
		return numArg(float64(-base + r.Intn(5) - 2))
	case k < 24: // small
		return numArg(float64(r.Intn(4)))
	case k < 28: // fractional
		return numArg(float64(base+r.Intn(3)-1) + Pick(r, []float64{0.5, -0.5, 0.9, -0.9, 0.1, 0.999999}))
	case k < 29:
		return numArg(math.NaN())
	case k < 30:
		return numArg(math.Inf(1))
	case k < 31:
		return numArg(math.Inf(-1))
	case k < 32:
		return numArg(math.Copysign(0, -1))
	case k < 34:
		return argUndef
	case k < 35:
		return Pick(r, []jarg{argNull, argTrue, argFalse})
	case k < 38:
		return numArg(Pick(r, hugePositions))
	default:
		return numArg(float64(r.Intn(40) - 20))
	}
}

func lensOf(us ...[]uint16) []int {
	out := []int{0, 1}
	for _, u := range us {
		s := string(utf16.Decode(u))
		out = append(out, len(u), len(s), utf8.RuneCountInString(s))
		for i, c := range u {
			if c >= 0x80 { // where the first non-ASCII character sits, and the multiple of 8 below it
				out = append(out, i, i+1, i/8*8)
				break
			}
		}
	}
	return out
}

// a search string: mostly a piece of the receiver
func (g *c09gen) needle(u []uint16, fl int) []uint16 {
	r := g.env.Rng
	switch k := r.Intn(10); {
	case k < 6 && len(u) > 0:
		a := r.Intn(len(u))
		b := a + 1 + r.Intn(min(3, len(u)-a))
		if r.Intn(6) != 0 { // keep to code point boundaries most of the time
			if u[a] >= 0xDC00 && u[a] < 0xE000 && a > 0 {
				a--
			}
			if b < len(u) && u[b] >= 0xDC00 && u[b] < 0xE000 {
				b++
			}
		}
		return append([]uint16{}, u[a:b]...)
	case k < 7:
		return nil
	default:
		return g.units(fl, 2)
	}
}

// ---------- receivers ----------

type jrecv struct {
	coq   string
	build func(m string, args []string) string // the complete call expression
}

func callOn(this string) func(string, []string) string {
	return func(m string, args []string) string {
		return "String.prototype." + m + ".call(" + strings.Join(append([]string{this}, args...), ",") + ")"
	}
}

func (g *c09gen) receiver(u []uint16, member bool) jrecv {
	r := g.env.Rng
	e := g.strExpr(u)
	cu := Cunits(u)
	k := r.Intn(20)
	if member {
		k = r.Intn(8)
	}
	switch {
	case k < 6:
		return jrecv{"RLit " + cu, func(m string, a []string) string { return "(" + e + ")." + m + "(" + strings.Join(a, ",") + ")" }}
	case k < 8:
		if r.Intn(2) == 0 {
			return jrecv{"RStrObj " + cu, func(m string, a []string) string { return "new String(" + e + ")." + m + "(" + strings.Join(a, ",") + ")" }}
		}
		return jrecv{"RStrObj " + cu, callOn("Object(" + e + ")")}
	case k < 11:
		return jrecv{"RCallStr " + cu, callOn(e)}
	case k < 13:
		n := Pick(r, []int64{0, 5, -7, 123, 1000000, 42, -1, 9007199254740991})
		return jrecv{"RNumR " + Cz(n), callOn(fmt.Sprintf("%d", n))}
	case k < 14:
		b := r.Intn(2) == 0
		return jrecv{"RBoolR " + Cbool(b), callOn(Cbool(b))}
	case k < 17:
		return jrecv{"RObj " + cu, callOn("{toString:function(){return " + e + "}}")}
	case k < 19:
		if r.Intn(3) == 0 {
			return jrecv{"RUndef", func(m string, a []string) string {
				return "String.prototype." + m + ".apply(undefined,[" + strings.Join(a, ",") + "])"
			}}
		}
		return jrecv{"RUndef", callOn("undefined")}
	default:
		return jrecv{"RNull", callOn("null")}
	}
}

// ---------- observation ----------

func cres(o Outcome) string {
	if o.Panic != nil || o.Err != nil {
		return fmt.Sprintf("VErr %d", ErrClass(o))
	}
	return cval(o.Val)
}

func cval(v otto.Value) string {
	switch {
	case v.IsString():
		return "VStr " + Cstr(v.String())
	case v.IsNumber():
		f, _ := v.ToFloat()
		if math.IsNaN(f) {
			return "VNaN"
		}
		if f != math.Trunc(f) || math.Abs(f) > 1e18 {
			return "VInt 999999999999999999999" // never the value of a model
		}
		return "VInt " + Cz(int64(f))
	case v.IsUndefined():
		return "VUndef"
	case v.IsObject() && v.Object().Class() == "Array":
		obj := v.Object()
		lv, _ := obj.Get("length")
		n, _ := lv.ToInteger()
		items := make([]string, 0, n)
		for i := int64(0); i < n; i++ {
			e, _ := obj.Get(fmt.Sprintf("%d", i))
			if !e.IsString() {
				return "VErr 98" // an array with a non-string element: never the value of a model
			}
			items = append(items, Cstr(e.String()))
		}
		return "VList " + Clist(items)
	}
	return "VErr 97"
}

func obsText(o Outcome) string {
	switch {
	case o.Panic != nil:
		return fmt.Sprintf("GO PANIC %v", o.Panic)
	case o.Err != nil:
		return "throws " + o.Err.Error()
	}
	v := o.Val
	if v.IsObject() && v.Object().Class() == "Array" {
		j, _ := v.Object().Call("join", "|")
		return fmt.Sprintf("array [%q]", j.String())
	}
	if v.IsString() {
		return fmt.Sprintf("string %q %v", v.String(), Units(v.String()))
	}
	return v.String()
}

// ---------- methods ----------

type methSpec struct {
	coq, js string
	weight  int
}

var methods = []methSpec{
	{"MCharAt", "charAt", 8}, {"MCharCodeAt", "charCodeAt", 8}, {"MIndexOf", "indexOf", 14},
	{"MLastIndexOf", "lastIndexOf", 14}, {"MSlice", "slice", 10}, {"MSubstring", "substring", 9},
	{"MSubstr", "substr", 10}, {"MSplit", "split", 10}, {"MConcat", "concat", 4}, {"MTrim", "trim", 5},
	{"MToLower", "toLowerCase", 3}, {"MToUpper", "toUpperCase", 3}, {"MLocaleCompare", "localeCompare", 7},
}

func (g *c09gen) pickMethod() methSpec {
	r := g.env.Rng
	tot := 0
	for _, m := range methods {
		tot += m.weight
	}
	k := r.Intn(tot)
	for _, m := range methods {
		if k < m.weight {
			return m
		}
		k -= m.weight
	}
	return methods[0]
}

// receiver string and arguments for one call of method m
func (g *c09gen) callArgs(m methSpec, u []uint16, fl int) []jarg {
	r := g.env.Rng
	var args []jarg
	switch m.coq {
	case "MCharAt", "MCharCodeAt":
		if r.Intn(10) > 0 {
			args = append(args, g.position(lensOf(u)))
		}
	case "MIndexOf", "MLastIndexOf":
		nd := g.needle(u, fl)
		if r.Intn(12) == 0 { // no arguments at all: the search string is "undefined"
			break
		}
		if r.Intn(12) == 0 {
			args = append(args, Pick(r, []jarg{argUndef, argNull, argTrue, argFalse, numArg(1), numArg(0), numArg(10), numArg(math.NaN()), numArg(-3)}))
		} else {
			args = append(args, strArg(g, nd))
		}
		if r.Intn(5) > 0 {
			args = append(args, g.position(lensOf(u, nd)))
		}
	case "MSlice", "MSubstring", "MSubstr":
		switch r.Intn(8) {
		case 0:
		case 1, 2:
			args = append(args, g.position(lensOf(u)))
		default:
			args = append(args, g.position(lensOf(u)), g.position(lensOf(u)))
		}
	case "MSplit":
		switch k := r.Intn(12); {
		case k == 0:
		case k == 1:
			args = append(args, argUndef)
		case k < 5:
			args = append(args, strArg(g, nil))
		default:
			args = append(args, strArg(g, g.needle(u, fl)))
		}
		if len(args) > 0 && r.Intn(2) == 0 {
			lim := []float64{0, 1, 2, 3, 4, 5, 1.9, -1, 4294967295, 4294967296, 4294967297, 4294967298, -4294967295, math.NaN(), math.Inf(1), 0.5, 9223372036854775808 + 2048 + 1<<32, 18446744073709551616 + 3*4096, -9223372036854775808 - 2048}
			if r.Intn(6) == 0 {
				args = append(args, argUndef)
			} else {
				args = append(args, numArg(Pick(r, lim)))
			}
		}
	case "MLocaleCompare":
		switch k := r.Intn(12); {
		case k == 0: // omitted: compared with "undefined"
		case k < 4: // a non-string argument goes through ToString
			args = append(args, Pick(r, []jarg{argUndef, argNull, argTrue, argFalse, numArg(10), numArg(9), numArg(1), numArg(0), numArg(-3), numArg(math.NaN()), numArg(math.Inf(1)), numArg(123)}))
		case k < 6:
			args = append(args, strArg(g, append([]uint16{}, u...)))
		case k < 8:
			args = append(args, strArg(g, append(append([]uint16{}, u...), g.units(fl, 2)...)))
		case k < 10 && len(u) > 0:
			v := append([]uint16{}, u...)
			i := r.Intn(len(v))
			if v[i] < 0xD800 || v[i] >= 0xE000 {
				v[i] = Pick(r, []uint16{'a', 'b', '0', 0xE9, 0xFFFF, 0xE000, 0xD7FF, 0x7F, 0x80})
			}
			args = append(args, strArg(g, v))
		default:
			args = append(args, strArg(g, g.units(fl, 5)))
		}
	case "MConcat":
		for k := r.Intn(4); k > 0; k-- {
			if r.Intn(4) == 0 {
				args = append(args, Pick(r, []jarg{argUndef, argNull, argTrue, argFalse, numArg(12), numArg(-3), numArg(math.NaN()), numArg(0), numArg(math.Inf(-1))}))
			} else {
				afl := fl
				if r.Intn(2) == 0 {
					afl = g.flavour()
				}
				args = append(args, strArg(g, g.units(afl, 3)))
			}
		}
	}
	return args
}

func jsOf(a []jarg) []string {
	out := make([]string, len(a))
	for i, x := range a {
		out[i] = x.js
	}
	return out
}
func coqOf(a []jarg) string {
	out := make([]string, len(a))
	for i, x := range a {
		out[i] = x.coq
	}
	return Clist(out)
}

func (g *c09gen) receiverUnits(m methSpec) ([]uint16, int) {
	r := g.env.Rng
	fl := g.flavour()
	switch m.coq {
	case "MTrim":
		var u []uint16
		for k := r.Intn(3); k > 0; k-- {
			u = append(u, Pick(r, trimUnits))
		}
		u = append(u, g.units(fl, 3)...)
		if r.Intn(3) == 0 {
			u = append(u, Pick(r, trimUnits))
			u = append(u, g.units(fl, 2)...)
		}
		for k := r.Intn(3); k > 0; k-- {
			u = append(u, Pick(r, trimUnits))
		}
		return u, fl
	case "MToLower", "MToUpper":
		if r.Intn(5) > 0 {
			n := r.Intn(6)
			u := make([]uint16, n)
			for i := range u {
				u[i] = Pick(r, caseUnits)
			}
			return u, 2
		}
	}
	switch m.coq {
	case "MIndexOf", "MLastIndexOf", "MSplit", "MLocaleCompare", "MConcat":
		if r.Intn(7) == 0 { // the text that a missing / non-string argument converts to, somewhere inside
			w := Units(Pick(r, []string{"undefined", "undefined", "undefined", "null", "true", "false", "NaN", "1", "0", "10", "-3"}))
			u := append(append(g.units(fl, 3), w...), g.units(fl, 3)...)
			if r.Intn(3) == 0 {
				u = append(u, w...)
			}
			return u, fl
		}
	}
	if m.coq == "MLocaleCompare" && r.Intn(4) == 0 {
		return Units(Pick(r, []string{"10", "9", "1e1", "1", "undefined", "null", "true", "NaN", "b", "", "123", "Infinity", "-3"})), 0
	}
	return g.units(fl, 7), fl
}

func canonicalKey(k string) bool {
	if k == "" || len(k) > 15 || (len(k) > 1 && k[0] == '0') {
		return false
	}
	for _, c := range k {
		if c < '0' || c > '9' {
			return false
		}
	}
	return true
}

func (g *c09gen) oneCall() {
	m := g.pickMethod()
	u, fl := g.receiverUnits(m)
	rc := g.receiver(u, false)
	args := g.callArgs(m, u, fl)
	src := rc.build(m.js, jsOf(args))
	o := RunJS(g.vm, src)
	g.env.Add(fmt.Sprintf("CCall %s (%s) %s (%s)", m.coq, rc.coq, coqOf(args), cres(o)),
		fmt.Sprintf("call %s -> %s", src, obsText(o)), m.js+"/"+flavourOf(u), true)
}

func (g *c09gen) pinnedCall(m, recv, args, src string) {
	o := RunJS(g.vm, src)
	g.env.Add(fmt.Sprintf("CCall %s (%s) %s (%s)", m, recv, args, cres(o)), fmt.Sprintf("pinned %s -> %s", src, obsText(o)), "pinned", true)
}

// s.length and s[key]
func (g *c09gen) lengthOrIndex() {
	r := g.env.Rng
	u := g.units(g.flavour(), 6)
	e := g.strExpr(u)
	rcoq, base := "RLit "+Cunits(u), "("+e+")"
	if r.Intn(3) == 0 {
		rcoq, base = "RStrObj "+Cunits(u), "new String("+e+")"
	}
	if r.Intn(4) == 0 {
		src := base + ".length"
		o := RunJS(g.vm, src)
		g.env.Add(fmt.Sprintf("CCall MLength (%s) [] (%s)", rcoq, cres(o)), fmt.Sprintf("call %s -> %s", src, obsText(o)), "length/"+flavourOf(u), true)
		return
	}
	var key string
	switch k := r.Intn(12); {
	case k < 7:
		key = fmt.Sprintf("%d", Pick(r, lensOf(u))+r.Intn(3)-1)
	case k < 10:
		key = Pick(r, []string{"01", "+1", "-0", "00", "+0", "1.0", "1e0", " 1", "1 ", "", "+", "-", "0x1", "-1", "4294967294", "4294967295", "4294967296", "9223372036854775808", "007", "１"})
	default:
		key = fmt.Sprintf("%d", r.Intn(8))
	}
	src := base + "[" + JSStr(Units(key)) + "]"
	if canonicalKey(key) && r.Intn(2) == 0 {
		src = base + "[" + key + "]" // numeric key: ToString gives the same canonical text
	}
	o := RunJS(g.vm, src)
	g.env.Add(fmt.Sprintf("CCall MIndex (%s) [AStr %s] (%s)", rcoq, Cstr(key), cres(o)), fmt.Sprintf("call %s -> %s", src, obsText(o)), "index/"+flavourOf(u), true)
}

func (g *c09gen) fromCharCode() {
	r := g.env.Rng
	n := r.Intn(6)
	args := make([]jarg, n)
	for i := 0; i < n; i++ {
		switch k := r.Intn(14); {
		case k < 5:
			args[i] = numArg(float64(Pick(r, alphaBMP)))
		case k < 7:
			args[i] = numArg(float64(Pick(r, alphaASCII)))
		case k < 9:
			a, b := utf16.EncodeRune(Pick(r, astralRunes))
			args[i] = numArg(float64(a))
			if i+1 < n {
				i++
				args[i] = numArg(float64(b))
			}
		case k < 10:
			args[i] = numArg(float64(Pick(r, loneUnits)))
		case k < 12:
			args[i] = numArg(Pick(r, []float64{65536 + 66, -1, -65, 65.9, -65.9, 65535, 65536, 4294967296 + 97, -4294967296 + 98, 0.5, -0.5, math.NaN(), math.Inf(1), math.Inf(-1), 9007199254740991, -9007199254740991, 1e15 + 0.5, 9223372036854777856, -9223372036854777856, 18446744073709555712, 1e19, 1.7976931348623157e308}))
		default:
			args[i] = Pick(r, []jarg{argUndef, argNull, argTrue, argFalse})
		}
	}
	src := "String.fromCharCode(" + strings.Join(jsOf(args), ",") + ")"
	o := RunJS(g.vm, src)
	g.env.Add(fmt.Sprintf("CFrom %s (%s)", coqOf(args), cres(o)), fmt.Sprintf("from %s -> %s", src, obsText(o)), "fromCharCode", true)
}

func (g *c09gen) compare() {
	r := g.env.Rng
	fl := g.flavour()
	if fl == 4 {
		fl = 3
	}
	a := g.units(fl, 5)
	var b []uint16
	switch r.Intn(5) {
	case 0:
		b = append([]uint16{}, a...)
	case 1:
		b = append(append([]uint16{}, a...), g.units(fl, 2)...)
	case 2:
		b = append([]uint16{}, a...)
		if len(b) > 0 && wellFormed(b) {
			rs := utf16.Decode(b)
			rs[r.Intn(len(rs))] = Pick(r, []rune{'a', 0xE9, 0xFFFF, 0xE000, 0x10000, 0x1F600, 0xD7FF, 0x7F, 0x80})
			b = utf16.Encode(rs)
		}
	default:
		b = g.units(fl, 5)
	}
	ea, eb := g.strExpr(a), g.strExpr(b)
	src := fmt.Sprintf("var a = %s, b = %s; [a.localeCompare(b), b.localeCompare(a), a.localeCompare(a)].join(',')", ea, eb)
	o := RunJS(g.vm, src)
	var x, y, z int64 = 99, 99, 99
	if o.Panic == nil && o.Err == nil {
		fmt.Sscanf(o.Val.String(), "%d,%d,%d", &x, &y, &z)
	}
	g.env.Add(fmt.Sprintf("CCmp %s %s %s %s %s", Cunits(a), Cunits(b), Cz(x), Cz(y), Cz(z)), fmt.Sprintf("cmp %s -> %s", src, obsText(o)), "localeCompare/"+flavourOf(a), true)
}

// a history on one variable: s = s.m(args) whenever the result is a string
func (g *c09gen) chain() {
	r := g.env.Rng
	fl := g.flavour()
	u := g.units(fl, 8)
	for len(u) < 3 {
		u = append(u, g.units(fl, 4)...)
	}
	vm := otto.New()
	g.cur = vm
	defer func() { g.cur = g.vm }()
	init := "var s = " + g.strExpr(u) + ";"
	if o := RunJS(vm, init); o.Err != nil || o.Panic != nil {
		panic(fmt.Sprintf("c09: cannot set up chain: %s: %v %v", init, o.Err, o.Panic))
	}
	cur := u
	n := 2 + r.Intn(4)
	var ops, obs, txt []string
	txt = append(txt, init)
	for k := 0; k < n; k++ {
		m := g.pickMethod()
		if m.coq == "MToLower" || m.coq == "MToUpper" { // keep histories inside the case-mapping table
			m = methods[4+r.Intn(3)]
		}
		args := g.callArgs(m, cur, fl)
		step := "var r = s." + m.js + "(" + strings.Join(jsOf(args), ",") + "); if (typeof r === 'string') s = r; r"
		o := RunJS(vm, step)
		ops = append(ops, fmt.Sprintf("(%s, %s)", m.coq, coqOf(args)))
		obs = append(obs, cres(o))
		txt = append(txt, step+" -> "+obsText(o))
		if o.Panic == nil && o.Err == nil && o.Val.IsString() {
			cur = Units(o.Val.String())
		}
	}
	g.env.Add(fmt.Sprintf("CChain %s %s %s", Cunits(u), Clist(ops), Clist(obs)), "chain "+strings.Join(txt, " ;; "), "chain/"+flavourOf(u), true)
}


// ---------- effectful conversions: order, failures, re-entrancy ----------

const effectPrelude = `var log = []; function E(id, s, n, ts, tn, re) { return {
  toString: function(){ log.push(2*id); if (ts) throw "boom"; return re ? re() + s : s },
  valueOf: function(){ log.push(2*id+1); if (tn) throw "boom"; if (re) re(); return n } } }`

// String methods called from inside an argument's toString / valueOf, with their ES5 results
var reenter = []struct{ js, out string }{
	{`function(){return "ab".concat("c","d")}`, "abcd"},
	{`function(){return "xabcx".slice(1,4)}`, "abc"},
	{`function(){return "a-b".split("-").join("+")}`, "a+b"},
	{`function(){return "q".concat()}`, "q"},
	{`function(){return "hello".substr(1,3)}`, "ell"},
	{`function(){return String("abcabc".lastIndexOf("c"))}`, "5"},
	{`function(){return "p".concat("q").concat("r")}`, "pqr"},
	{`function(){return "ab".concat("c","d").toUpperCase()}`, "ABCD"},
}

type earg struct{ js, coq string }

func (g *c09gen) smallPosition(lens []int) float64 {
	r := g.env.Rng
	base := Pick(r, lens)
	switch k := r.Intn(12); {
	case k < 5:
		return float64(base + r.Intn(5) - 2)
	case k < 7:
		return float64(-base + r.Intn(3) - 1)
	case k < 9:
		return float64(r.Intn(4))
	case k < 10:
		return float64(base) + Pick(r, []float64{0.5, -0.5, 0.9})
	case k < 11:
		return math.NaN()
	default:
		return math.Inf(-1)
	}
}

// an object argument carrying both a string and a number
func (g *c09gen) effectObj(id int, sv []uint16, nv float64) earg {
	r := g.env.Rng
	ts, tn := r.Intn(8) == 0, r.Intn(8) == 0
	re := "null"
	full := sv
	if r.Intn(5) == 0 {
		k := Pick(r, reenter)
		re = k.js
		full = append(Units(k.out), sv...)
	}
	return earg{
		fmt.Sprintf("E(%d,%s,%s,%v,%v,%s)", id, g.strExpr(sv), JSNum(nv), ts, tn, re),
		fmt.Sprintf("EObj %d %s %s %s %s", id, Cunits(full), Cdouble(nv), Cbool(ts), Cbool(tn)),
	}
}

func logOf(vm *otto.Otto) string {
	o := RunJS(vm, "log")
	if o.Err != nil || o.Panic != nil || !o.Val.IsObject() {
		return "[999]"
	}
	obj := o.Val.Object()
	lv, _ := obj.Get("length")
	n, _ := lv.ToInteger()
	items := make([]int64, 0, n)
	for i := int64(0); i < n; i++ {
		e, _ := obj.Get(fmt.Sprintf("%d", i))
		v, _ := e.ToInteger()
		items = append(items, v)
	}
	return Czlist(items)
}

func (g *c09gen) effectHistory() {
	r := g.env.Rng
	vm := otto.New()
	g.cur = vm
	defer func() { g.cur = g.vm }()
	if o := RunJS(vm, effectPrelude); o.Err != nil || o.Panic != nil {
		panic(fmt.Sprintf("c09: effect prelude: %v %v", o.Err, o.Panic))
	}
	n := 2 + r.Intn(4)
	var steps, obs, txt []string
	for k := 0; k < n; k++ {
		fl := g.flavour()
		var m methSpec
		from := false
		switch q := r.Intn(20); {
		case q < 7:
			m = methods[8] // concat
		case q < 8:
			from = true
		default:
			m = g.pickMethod()
		}
		var call, stepCoq string
		if from {
			na := r.Intn(4)
			ea := make([]earg, na)
			for i := range ea {
				nv := float64(Pick(r, []uint16{65, 97, 0xE9, 0x65E5, 48, 0x3A3}))
				if r.Intn(2) == 0 {
					ea[i] = g.effectObj(i+1, g.units(0, 2), nv)
				} else {
					ea[i] = earg{JSNum(nv), "EPlain (ANum " + Cdouble(nv) + ")"}
				}
			}
			js, cq := make([]string, na), make([]string, na)
			for i, e := range ea {
				js[i], cq[i] = e.js, e.coq
			}
			call = "String.fromCharCode(" + strings.Join(js, ",") + ")"
			stepCoq = fmt.Sprintf("(None, ERLit [], %s)", Clist(cq))
		} else {
			u, _ := g.receiverUnits(m)
			if len(u) == 0 && r.Intn(3) > 0 {
				u = g.units(fl, 5)
			}
			args := g.callArgs(m, u, fl)
			if m.coq == "MConcat" && len(args) == 0 {
				args = append(args, strArg(g, g.units(fl, 3)))
			}
			js, cq := make([]string, len(args)), make([]string, len(args))
			for i, a := range args {
				js[i], cq[i] = a.js, "EPlain ("+a.coq+")"
				if r.Intn(5) < 3 && (strings.HasPrefix(a.coq, "AStr") || strings.HasPrefix(a.coq, "ANum")) {
					sv := g.needle(u, fl)
					nv := g.smallPosition(lensOf(u))
					if strings.HasPrefix(a.coq, "AStr") && r.Intn(6) > 0 {
						var uu []uint16
						for _, f := range strings.Fields(strings.Trim(strings.TrimPrefix(a.coq, "AStr "), "[]")) {
							var x uint16
							fmt.Sscanf(strings.TrimSuffix(f, ";"), "%d", &x)
							uu = append(uu, x)
						}
						sv = uu
					}
					if strings.HasPrefix(a.coq, "ANum") && r.Intn(6) > 0 {
						var bits uint64
						fmt.Sscanf(a.coq, "ANum %d", &bits)
						nv = math.Float64frombits(bits)
					}
					e := g.effectObj(i+1, sv, nv)
					js[i], cq[i] = e.js, e.coq
				}
			}
			if r.Intn(10) < 3 {
				ts := r.Intn(8) == 0
				call = "String.prototype." + m.js + ".call(" + strings.Join(append([]string{fmt.Sprintf("E(0,%s,0,%v,false,null)", g.strExpr(u), ts)}, js...), ",") + ")"
				stepCoq = fmt.Sprintf("(Some %s, ERObj 0 %s %s, %s)", m.coq, Cunits(u), Cbool(ts), Clist(cq))
			} else {
				call = "(" + g.strExpr(u) + ")." + m.js + "(" + strings.Join(js, ",") + ")"
				stepCoq = fmt.Sprintf("(Some %s, ERLit %s, %s)", m.coq, Cunits(u), Clist(cq))
			}
		}
		var res, shown string
		if r.Intn(10) < 7 { // the script catches a failing conversion and carries on
			src := `log = []; (function(){ try { return [0, ` + call + `] } catch (e) { return [1, e === "boom" ? 8 : (e instanceof TypeError ? (/runtime error/.test(e.message) ? 9 : 6) : 1)] } })()`
			// (a Go runtime panic raised under a JS try block reaches the script as a TypeError whose message
			// carries the Go text "runtime error"; it is recorded as what it is, class 9)
			o := RunJS(vm, src)
			shown = src
			if o.Err != nil || o.Panic != nil || !o.Val.IsObject() {
				res = cres(o)
				if o.Err != nil && strings.Contains(o.Err.Error(), "runtime error") {
					res = "VErr 9" // a Go panic raised under a JS try block comes back from Run as this TypeError
				}
				shown += " -> " + obsText(o)
			} else {
				obj := o.Val.Object()
				flag, _ := obj.Get("0")
				val, _ := obj.Get("1")
				if f, _ := flag.ToInteger(); f == 1 {
					c, _ := val.ToInteger()
					res = fmt.Sprintf("VErr %d", c)
					shown += fmt.Sprintf(" -> caught, class %d", c)
				} else {
					res = cval(val)
					shown += " -> " + obsText(Outcome{Val: val})
				}
			}
		} else {
			src := "log = []; " + call
			o := RunJS(vm, src)
			res = cres(o)
			shown = src + " -> " + obsText(o)
		}
		lg := logOf(vm)
		steps = append(steps, stepCoq)
		obs = append(obs, fmt.Sprintf("(%s, %s)", res, lg))
		txt = append(txt, shown+" log="+lg)
	}
	g.env.Add(fmt.Sprintf("CEffect %s %s", Clist(steps), Clist(obs)), "effects "+effectPrelude+" ;; "+strings.Join(txt, " ;; "), "effects", true)
}

func (g *c09gen) pinnedEffect(stepCoq, src string) {
	vm := otto.New()
	RunJS(vm, effectPrelude)
	o := RunJS(vm, "log = []; "+src)
	lg := logOf(vm)
	g.env.Add(fmt.Sprintf("CEffect [%s] [(%s, %s)]", stepCoq, cres(o), lg), fmt.Sprintf("pinned effects %s ;; %s -> %s log=%s", effectPrelude, src, obsText(o), lg), "pinned", true)
}

// String.prototype.toString replaced, then a call on a primitive / String object receiver
func (g *c09gen) patched() {
	r := g.env.Rng
	vm := otto.New()
	g.cur = vm
	defer func() { g.cur = g.vm }()
	x := g.units(r.Intn(3), 5)
	m := g.pickMethod()
	fl := g.flavour()
	u := g.units(fl, 6)
	args := g.callArgs(m, u, fl)
	e := g.strExpr(u)
	var rcoq, call string
	a := strings.Join(jsOf(args), ",")
	switch k := r.Intn(10); {
	case k < 6:
		rcoq, call = "RLit "+Cunits(u), "("+e+")."+m.js+"("+a+")"
	case k < 8:
		rcoq, call = "RStrObj "+Cunits(u), "new String("+e+")."+m.js+"("+a+")"
	default:
		rcoq, call = "RCallStr "+Cunits(u), callOn(e)(m.js, jsOf(args))
	}
	src := "String.prototype.toString = function(){ return " + g.strExpr(x) + " }; " + call
	o := RunJS(vm, src)
	g.env.Add(fmt.Sprintf("CPatched %s %s (%s) %s (%s)", Cunits(x), m.coq, rcoq, coqOf(args), cres(o)),
		fmt.Sprintf("patched %s -> %s", src, obsText(o)), "patched/"+m.js, true)
}

// ---------- index properties of String objects (15.5.5.2 and the ordinary object methods) ----------

const propsPrelude = `function D(o,k){var d=Object.getOwnPropertyDescriptor(o,k); if(d===undefined) return "U";
  if ("get" in d || "set" in d) return "A|"+(typeof d.get==="function"?1:0)+"|"+(typeof d.set==="function"?1:0)+"|"+(d.enumerable?1:0)+"|"+(d.configurable?1:0);
  return "D|"+(d.writable?1:0)+"|"+(d.enumerable?1:0)+"|"+(d.configurable?1:0)+"|"+(typeof d.value==="number"?"n"+d.value:(typeof d.value==="string"?"s"+d.value:"u"))}
function K(a){var t=""; for(var i=0;i<a.length;i++) t += (i?",":"") + a[i]; return t}`
// (K builds a string, not an array: index properties planted on Object.prototype also intercept [[Put]] on arrays)

type pval struct{ js, coq string }

func (g *c09gen) propValue() pval {
	r := g.env.Rng
	if r.Intn(3) == 0 {
		c := Pick(r, []uint16{'q', 'x', 'a', 0xE9})
		return pval{JSStr([]uint16{c}), fmt.Sprintf("(PStr [%d])", c)}
	}
	n := int64(r.Intn(90) + 1)
	return pval{fmt.Sprintf("%d", n), fmt.Sprintf("(PNum %d)", n)}
}

func optBool(r interface{ Intn(int) int }, name string) (string, string) {
	switch r.Intn(3) {
	case 0:
		return "", "None"
	case 1:
		return name + ":true", "(Some true)"
	default:
		return name + ":false", "(Some false)"
	}
}

// parse the D(...) text into the Coq res of SpecObj.res_of_desc
func descRes(t string) string {
	if t == "U" {
		return "VUndef"
	}
	f := strings.SplitN(t, "|", 5)
	if f[0] == "A" && len(f) == 5 {
		return fmt.Sprintf("VList [[1; %s; %s; %s; %s]]", f[1], f[2], f[3], f[4])
	}
	if f[0] == "D" && len(f) == 5 {
		v := "[2]"
		switch {
		case strings.HasPrefix(f[4], "n"):
			var n int64
			if _, err := fmt.Sscanf(f[4][1:], "%d", &n); err != nil {
				return "VErr 97"
			}
			v = "[0; " + Cz(n) + "]"
		case strings.HasPrefix(f[4], "s"):
			items := []string{"1"}
			for _, c := range Units(f[4][1:]) {
				items = append(items, fmt.Sprintf("%d", c))
			}
			v = Clist(items)
		}
		return fmt.Sprintf("VList [[0; %s; %s; %s]; %s]", f[1], f[2], f[3], v)
	}
	return "VErr 97"
}

// "0,1,2,length,5" -> the numeric names, sorted
func keysRes(t string) string {
	var ks []int64
	for _, f := range strings.Split(t, ",") {
		var n int64
		if f != "" && strings.Trim(f, "0123456789") == "" {
			fmt.Sscanf(f, "%d", &n)
			ks = append(ks, n)
		}
	}
	for i := 1; i < len(ks); i++ {
		for j := i; j > 0 && ks[j-1] > ks[j]; j-- {
			ks[j-1], ks[j] = ks[j], ks[j-1]
		}
	}
	return "VList [" + Czlist(ks) + "]"
}

func cvalB(o Outcome) string {
	if o.Panic == nil && o.Err == nil && o.Val.IsBoolean() {
		b, _ := o.Val.ToBoolean()
		if b {
			return "VInt 1"
		}
		return "VInt 0"
	}
	return cres(o)
}

func (g *c09gen) propsHistory() {
	r := g.env.Rng
	vm := otto.New()
	g.cur = vm
	defer func() { g.cur = g.vm }()
	if o := RunJS(vm, propsPrelude); o.Err != nil || o.Panic != nil {
		panic(fmt.Sprintf("c09: props prelude: %v %v", o.Err, o.Panic))
	}
	var u []uint16
	for { // the text of the String object: no surrogates (class 2); U+FFFD is allowed since 66edf49
		u = g.units(r.Intn(3), 6)
		if r.Intn(6) == 0 && len(u) > 0 {
			u[r.Intn(len(u))] = 0xFFFD
		}
		ok := true
		for _, c := range u {
			if c >= 0xD800 && c < 0xE000 {
				ok = false
			}
		}
		if ok {
			break
		}
	}
	ue := g.strExpr(u)
	init := "var p = " + ue + "; var s = new String(" + ue + ");"
	if r.Intn(4) == 0 {
		init = "var p = " + ue + "; var s = Object(" + ue + ");"
	}
	prim := func() string { // the primitive: the variable, or an equal string built again
		if r.Intn(3) == 0 {
			return "(" + ue + ")"
		}
		return "p"
	}
	if o := RunJS(vm, init); o.Err != nil || o.Panic != nil {
		panic(fmt.Sprintf("c09: props init %s: %v %v", init, o.Err, o.Panic))
	}
	n := int64(len(u))
	key := func() int64 {
		switch k := r.Intn(12); {
		case k < 3 && n > 0:
			return r.Int63n(n)
		case k < 4 && n > 0:
			return n - 1
		case k < 7:
			return n
		case k < 9:
			return n + 1 + r.Int63n(2)
		case k < 10:
			return n + 5
		case k < 11:
			return Pick(r, []int64{4294967294, 4294967295, 4294967296})
		default:
			return r.Int63n(n + 4)
		}
	}
	lvls := []struct{ js, coq string }{{"s", "LS"}, {"s", "LS"}, {"s", "LS"}, {"String.prototype", "LSP"}, {"Object.prototype", "LOP"}}
	touched := map[string]bool{}
	var last int64 = n
	nops := 4 + r.Intn(7)
	var ops, obs, txt []string
	txt = append(txt, propsPrelude, init)
	for i := 0; i < nops; i++ {
		k := key()
		if r.Intn(2) == 0 {
			k = last // come back to the key just worked on
		}
		last = k
		var src, op string
		conv := cvalB
		switch q := r.Intn(22); {
		case q < 4:
			l := Pick(r, lvls)
			v := g.propValue()
			src, op = fmt.Sprintf("%s[%d] = %s; undefined", l.js, k, v.js), fmt.Sprintf("OSet %s %s %s", l.coq, Cz(k), v.coq)
			touched[fmt.Sprintf("%s/%d", l.coq, k)] = true
		case q < 7:
			l := Pick(r, lvls)
			if touched[fmt.Sprintf("%s/%d", l.coq, k)] {
				i--
				last = key()
				continue
			}
			touched[fmt.Sprintf("%s/%d", l.coq, k)] = true
			var fields []string
			var d string
			ejs, ecq := optBool(r, "enumerable")
			cjs, ccq := optBool(r, "configurable")
			if r.Intn(3) == 0 { // accessor
				gv, gc := "", "None"
				hs := r.Intn(2) == 0
				if r.Intn(4) > 0 || !hs {
					v := g.propValue()
					gv, gc = "get:function(){return "+v.js+"}", "(Some "+v.coq+")"
				}
				if gv != "" {
					fields = append(fields, gv)
				}
				if hs {
					fields = append(fields, "set:function(v){}")
				}
				d = fmt.Sprintf("DA %s %s %s %s", gc, Cbool(hs), ecq, ccq)
			} else {
				vj, vc := "", "None"
				if r.Intn(4) > 0 {
					v := g.propValue()
					if k < n && r.Intn(3) == 0 { // the very character that is there: ES5 accepts it
						v = pval{JSStr(u[k : k+1]), fmt.Sprintf("(PStr [%d])", u[k])}
					}
					vj, vc = "value:"+v.js, "(Some "+v.coq+")"
				}
				wjs, wcq := optBool(r, "writable")
				if vj != "" {
					fields = append(fields, vj)
				}
				if wjs != "" {
					fields = append(fields, wjs)
				}
				d = fmt.Sprintf("DD %s %s %s %s", vc, wcq, ecq, ccq)
			}
			if ejs != "" {
				fields = append(fields, ejs)
			}
			if cjs != "" {
				fields = append(fields, cjs)
			}
			src = fmt.Sprintf("Object.defineProperty(%s, \"%d\", {%s}); 1", l.js, k, strings.Join(fields, ","))
			op = fmt.Sprintf("ODefine %s %s (%s)", l.coq, Cz(k), d)
		case q < 9:
			l := Pick(r, lvls)
			src, op = fmt.Sprintf("delete %s[%d]", l.js, k), fmt.Sprintf("ODelete %s %s", l.coq, Cz(k))
		case q < 11:
			src, op = fmt.Sprintf("s[%d]", k), "OGet "+Cz(k)
		case q < 12:
			src, op = fmt.Sprintf("%s[%d]", prim(), k), "OGetPrim "+Cz(k)
		case q < 13:
			src, op = fmt.Sprintf("%d in s", k), "OIn "+Cz(k)
		case q < 14:
			src, op = fmt.Sprintf("s.hasOwnProperty(%d)", k), "OHasOwn "+Cz(k)
			if r.Intn(2) == 0 {
				src = fmt.Sprintf("Object.prototype.hasOwnProperty.call(s, \"%d\")", k)
			}
		case q < 16:
			src, op = fmt.Sprintf("D(s, \"%d\")", k), "ODesc "+Cz(k)
			conv = func(o Outcome) string {
				if o.Err != nil || o.Panic != nil || !o.Val.IsString() {
					return cres(o)
				}
				return descRes(o.Val.String())
			}
		case q < 18:
			src, op = "K(Object.keys(s))", "OKeys"
			if r.Intn(2) == 0 {
				src, op = "K(Object.getOwnPropertyNames(s))", "ONames"
			}
			conv = func(o Outcome) string {
				if o.Err != nil || o.Panic != nil || !o.Val.IsString() {
					return cres(o)
				}
				return keysRes(o.Val.String())
			}
		case q >= 18 && r.Intn(2) == 0: // through the primitive: writes vanish with the temporary wrapper
			switch w := r.Intn(12); {
			case w < 3:
				v := g.propValue()
				src, op = fmt.Sprintf("%s[%d] = %s; undefined", prim(), k, v.js), fmt.Sprintf("OSetPrim %s %s", Cz(k), v.coq)
			case w < 5:
				m := methods[r.Intn(8)]
				src, op = fmt.Sprintf("%s.%s = function(){ return \"?\" }; undefined", prim(), m.js), "OSetPrimMethod "+m.coq
			case w < 6:
				nl := r.Int63n(n + 3)
				src, op = fmt.Sprintf("%s.length = %d; undefined", prim(), nl), "OSetLenPrim "+Cz(nl)
			case w < 8:
				m := methods[r.Intn(8)]
				args := g.callArgs(m, u, 2)
				src, op = prim()+"."+m.js+"("+strings.Join(jsOf(args), ",")+")", fmt.Sprintf("OCallPrim %s %s", m.coq, coqOf(args))
				conv = cres
			case w < 9:
				src, op = fmt.Sprintf("%s.hasOwnProperty(%d)", prim(), k), "OHasOwnPrim "+Cz(k)
			case w < 10:
				src, op = fmt.Sprintf("delete %s[%d]", prim(), k), "ODeletePrim "+Cz(k)
			case w < 11:
				src, op = prim()+".length", "OLenPrim"
			default:
				src, op = fmt.Sprintf("%s[%d]", prim(), k), "OGetPrim "+Cz(k)
			}
		default:
			m := methods[r.Intn(8)] // charAt .. split on the String object itself
			args := g.callArgs(m, u, 2)
			src, op = "s."+m.js+"("+strings.Join(jsOf(args), ",")+")", fmt.Sprintf("OCall %s %s", m.coq, coqOf(args))
			conv = cres
		}
		o := RunJS(vm, src)
		ops = append(ops, op)
		obs = append(obs, conv(o))
		txt = append(txt, src+" -> "+obsText(o))
	}
	g.env.Add(fmt.Sprintf("CProps %s %s %s", Cunits(u), Clist(ops), Clist(obs)), "props "+strings.Join(txt, " ;; "), "props", true)
}

func (g *c09gen) pinnedProps(u, opsCoq string, srcs []string) {
	vm := otto.New()
	RunJS(vm, propsPrelude)
	var obs, txt []string
	for _, src := range srcs {
		o := RunJS(vm, src)
		if strings.HasPrefix(src, "K(") && o.Err == nil && o.Panic == nil && o.Val.IsString() {
			obs = append(obs, keysRes(o.Val.String()))
		} else {
			obs = append(obs, cvalB(o))
		}
		txt = append(txt, src+" -> "+obsText(o))
	}
	g.env.Add(fmt.Sprintf("CProps %s %s %s", u, opsCoq, Clist(obs)), "pinned props "+strings.Join(txt, " ;; "), "pinned", true)
}

// deterministic families that run first on every seed
func (g *c09gen) pinnedFamilies() {
	// (a) empty argument lists: every method, receivers that contain the text a missing argument converts to
	for _, text := range []string{"xundefined", "undefined", "é中 is undefined here", "a,undefined"} {
		u := Units(text)
		lit := JSStr(u)
		for _, m := range methods {
			forms := []struct{ coq, src string }{
				{"RLit " + Cunits(u), "(" + lit + ")." + m.js + "()"},
				{"RCallStr " + Cunits(u), "String.prototype." + m.js + ".call(" + lit + ")"},
				{"RCallStr " + Cunits(u), "String.prototype." + m.js + ".apply(" + lit + ", [])"},
				{"RObj " + Cunits(u), "String.prototype." + m.js + ".call({toString:function(){return " + lit + "}})"},
				{"RStrObj " + Cunits(u), "new String(" + lit + ")." + m.js + "()"},
			}
			for _, f := range forms {
				g.pinnedCall(m.coq, f.coq, "[]", f.src)
			}
		}
	}
	// (b) positions handed in from Go in every numeric kind, at the extremes of the kind and small
	type tv struct {
		kind string
		f    float64
	}
	vals := []tv{}
	for _, e := range goExtremes {
		vals = append(vals, tv{e.kind, e.f})
	}
	for _, k := range goKinds {
		vals = append(vals, tv{k, 2})
	}
	for _, rc := range []struct{ text, needle string }{{"abcdefabc", "c"}, {"é中üxé", "é"}} {
		u := Units(rc.text)
		lit, nd := JSStr(u), JSStr(Units(rc.needle))
		ndc := "AStr " + Cunits(Units(rc.needle))
		one, two := "ANum "+Cdouble(1), "ANum "+Cdouble(2)
		for _, v := range vals {
			a, ok := g.goTyped(v.kind, v.f)
			if !ok {
				continue
			}
			rcq := "RLit " + Cunits(u)
			g.pinnedCall("MCharAt", rcq, "["+a.coq+"]", lit+".charAt("+a.js+")")
			g.pinnedCall("MCharCodeAt", rcq, "["+a.coq+"]", lit+".charCodeAt("+a.js+")")
			g.pinnedCall("MIndexOf", rcq, "["+ndc+"; "+a.coq+"]", lit+".indexOf("+nd+","+a.js+")")
			g.pinnedCall("MLastIndexOf", rcq, "["+ndc+"; "+a.coq+"]", lit+".lastIndexOf("+nd+","+a.js+")")
			g.pinnedCall("MSlice", rcq, "["+one+"; "+a.coq+"]", lit+".slice(1,"+a.js+")")
			g.pinnedCall("MSlice", rcq, "["+a.coq+"]", lit+".slice("+a.js+")")
			g.pinnedCall("MSubstring", rcq, "["+two+"; "+a.coq+"]", lit+".substring(2,"+a.js+")")
			g.pinnedCall("MSubstr", rcq, "["+two+"; "+a.coq+"]", lit+".substr(2,"+a.js+")")
			g.pinnedCall("MSubstr", rcq, "["+a.coq+"]", lit+".substr("+a.js+")")
			g.pinnedCall("MSplit", rcq, "[AStr []; "+a.coq+"]", lit+".split(\"\","+a.js+")")
		}
	}
	for _, v := range vals {
		if a, ok := g.goTyped(v.kind, v.f); ok {
			src := "String.fromCharCode(" + a.js + ", 97)"
			o := RunJS(g.vm, src)
			g.env.Add(fmt.Sprintf("CFrom [%s; ANum %s] (%s)", a.coq, Cdouble(97), cres(o)), fmt.Sprintf("pinned from %s -> %s", src, obsText(o)), "pinned", true)
		}
	}
	// (c) writes through a primitive string vanish with the temporary wrapper (8.7.2), later reads and calls see nothing
	hello := "[104;233;108;108;111]"
	g.pinnedProps(hello, "[OSetPrim 7 (PStr [120]); OGetPrim 7; OHasOwnPrim 7; OSetPrimMethod MCharAt; OCallPrim MCharAt [ANum "+Cdouble(1)+"]; OSetPrimMethod MSlice; OCallPrim MSlice [ANum "+Cdouble(1)+"; ANum "+Cdouble(3)+"]; OSetLenPrim 2; OLenPrim; OGetPrim 1; OGetPrim 7; OCallPrim MCharAt [ANum "+Cdouble(1)+"]; OSetPrim 1 (PStr [120]); OGetPrim 1; ODeletePrim 1; ODeletePrim 7]",
		[]string{`var p = "héllo"; p[7] = "x"; undefined`, `p[7]`, `p.hasOwnProperty("7")`, `p.charAt = function(){return "?"}; undefined`, `p.charAt(1)`,
			`p.slice = function(){return "sliced"}; undefined`, `p.slice(1,3)`, `p.length = 2; undefined`, `p.length`, `p[1]`,
			`"héllo"[7]`, `"héllo".charAt(1)`, `"héllo"[1] = "x"; undefined`, `"héllo"[1]`, `delete p[1]`, `delete p[7]`})
}

func runC09(env *Env) {
	env.Import = "Otto.C09.Corr"
	env.Rule = "receiver strings of 0-8 code points, and of 0-40 units with the non-ASCII characters first / last / spread / only after an ASCII prefix of 8k-1, 8k, 8k+1 bytes with a 0-6 byte ASCII tail, over ASCII / Latin-1 / BMP (2- and 3-byte UTF-8, U+FFFD, whitespace set) / astral pairs / lone surrogates, written as literals, escapes, concatenations, String.fromCharCode, String(object) or Go strings handed over with Otto.Set; deterministic families on every seed (every method with an empty argument list on receivers containing \"undefined\"; every position slot fed from Go in each numeric kind at the extremes of the kind; writes through a primitive); position arguments, also handed in from Go as uint64/uint/int64/.../float32 values, around 0 and the byte, rune and unit lengths of receiver and needle, negative, fractional, NaN, +-Infinity, -0, undefined/null/boolean, omitted, 2^31, 2^32, 2^53, 2^63 neighbourhood, 1e19; receivers string / String object / .call on string, number, boolean, object with toString, undefined, null; histories of 2-5 calls on one variable; histories of 2-5 calls on one runtime whose receiver and arguments are objects with logging, throwing (caught by the script or not) and re-entrant toString/valueOf, compared on result and conversion log; calls under a replaced String.prototype.toString; histories of 4-10 index-property operations (assignment, defineProperty data/accessor, delete, s[k], u[k], in, hasOwnProperty, getOwnPropertyDescriptor, keys, getOwnPropertyNames, method calls) on a String object, String.prototype and Object.prototype with keys below, at and beyond the length; every generated case counts as non-trivial when distinct"
	g := &c09gen{env: env, vm: otto.New()}
	r := env.Rng

	// pinned witnesses of the listed findings, first on every run
	g.pinnedCall("MIndexOf", "RLit [233;97]", "[AStr [97]; ANum "+Cdouble(1)+"]", `"éa".indexOf("a",1)`)
	g.pinnedCall("MCharAt", "RLit [97;55296;56320;98]", "[ANum "+Cdouble(1)+"]", "'a\U00010000b'.charAt(1)")
	g.pinnedCall("MCharCodeAt", "RLit [65533;97]", "[ANum "+Cdouble(0)+"]", `"�a".charCodeAt(0)`)
	g.pinnedCall("MIndex", "RLit [65533;97]", "[AStr [48]]", "'\uFFFDa'[0]")
	g.pinnedCall("MIndex", "RStrObj [97;65533;98]", "[AStr [49]]", "new String('a\uFFFDb')[1]")
	g.pinnedProps("[97;65533;98]", "[OHasOwn 1; OGet 1; OIn 1; OKeys; ODelete LS 1; OSet LS 1 (PNum 5); OGet 1; OGetPrim 1]",
		[]string{"var s = new String('a\uFFFDb'); s.hasOwnProperty(1)", "s[1]", "1 in s", "K(Object.keys(s))", "delete s[1]", "s[1] = 5; undefined", "s[1]", "'a\uFFFDb'[1]"})
	g.pinnedCall("MCharAt", "RNumR 5", "[ANum "+Cdouble(0)+"]", `String.prototype.charAt.call(5,0)`)
	g.pinnedCall("MTrim", "RUndef", "[]", `String.prototype.trim.call(undefined)`)
	g.pinnedCall("MSubstr", "RNull", "[ANum "+Cdouble(1)+"]", `String.prototype.substr.call(null,1)`)
	g.pinnedCall("MLastIndexOf", "RLit [97;98;99;97;98;99]", "[AStr [99]; ANum "+Cdouble(math.NaN())+"]", `"abcabc".lastIndexOf("c",NaN)`)
	g.pinnedCall("MLastIndexOf", "RLit [97;98;97]", "[AStr [97]; ANum "+Cdouble(math.Inf(-1))+"]", `"aba".lastIndexOf("a",-Infinity)`)
	g.pinnedCall("MSubstr", "RLit [97;98;99]", "[ANum "+Cdouble(1)+"; ANum "+Cdouble(math.Inf(1))+"]", `"abc".substr(1,Infinity)`)
	g.pinnedCall("MLastIndexOf", "RLit [97;98;99]", "[AStr [99]; ANum "+Cdouble(1e19)+"]", `"abc".lastIndexOf("c",1e19)`)
	g.pinnedCall("MIndex", "RLit [97;98;99]", "[AStr [48;49]]", `"abc"["01"]`)
	g.pinnedCall("MSlice", "RLit [97;55296;56320;98]", "[ANum "+Cdouble(1)+"; ANum "+Cdouble(2)+"]", "'a\U00010000b'.slice(1,2)")
	g.pinnedCall("MSplit", "RLit [97;55296;56320;98]", "[AStr []]", "'a\U00010000b'.split('')")
	// representation boundary: non-ASCII only after an ASCII prefix of exactly 8 bytes
	g.pinnedCall("MLength", "RLit [97;98;99;100;101;102;103;104;233]", "[]", `"abcdefgh\u00e9".length`)
	g.pinnedCall("MCharCodeAt", "RLit [97;98;99;100;101;102;103;104;233]", "[ANum "+Cdouble(8)+"]", "'abcdefgh\u00e9'.charCodeAt(8)")
	g.pinnedCall("MIndex", "RStrObj [97;98;99;100;101;102;103;104;233;122]", "[AStr [57]]", "new String('abcdefgh\u00e9z')[9]")
	// an expando index beyond the length is an ordinary property (15.5.5.2 step 2); defineProperty below the length
	g.pinnedProps("[97;98;99]", "[OSet LS 5 (PStr [120]); OGet 5; OIn 5; OHasOwn 5; OSet LSP 7 (PStr [122]); OGetPrim 7; OGet 7]",
		[]string{`var s = new String("abc"); s[5] = "x"; undefined`, `s[5]`, `5 in s`, `s.hasOwnProperty(5)`, `String.prototype[7] = "z"; undefined`, `"abc"[7]`, `s[7]`})
	g.pinnedProps("[97;98;99]", "[ODefine LS 1 (DD (Some (PStr [120])) None None None); OGet 1]",
		[]string{`var s = new String("abc"); Object.defineProperty(s, "1", {value:"x"}); 1`, `s[1]`})
	g.pinnedEffect("(Some MSplit, ERLit [97;44;98], [EObj 1 [44] 0 false false; EPlain (ANum 0)])", `"a,b".split(E(1,",",0,false,false,null), 0)`)
	g.pinnedEffect("(Some MLastIndexOf, ERLit [], [EPlain (AStr [99]); EObj 2 [120] "+Cdouble(3)+" false false])", `"".lastIndexOf("c", E(2,"x",3,false,false,null))`)
	{
		vm := otto.New()
		src := `String.prototype.toString = function(){ return "zzz" }; "aaa".indexOf("a")`
		o := RunJS(vm, src)
		env.Add(fmt.Sprintf("CPatched [122;122;122] MIndexOf (RLit [97;97;97]) [AStr [97]] (%s)", cres(o)), fmt.Sprintf("pinned patched %s -> %s", src, obsText(o)), "pinned", true)
	}

	g.pinnedFamilies()

	for env.Count() < env.N {
		switch k := r.Intn(100); {
		case k < 50:
			g.oneCall()
		case k < 58:
			g.lengthOrIndex()
		case k < 63:
			g.fromCharCode()
		case k < 68:
			g.compare()
		case k < 80:
			g.chain()
		case k < 90:
			g.effectHistory()
		case k < 95:
			g.propsHistory()
		default:
			g.patched()
		}
	}
}
