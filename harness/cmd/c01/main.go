// c01: correspondence cases for property C01 (programs evaluate as ES5
// prescribes).  MiniJS programs are generated, run on otto by all five
// submission routes, and written with the observed host-call log and outcome
// for the in-Coq comparison with OttoSem (exec_o) and SpecSem (exec_s).
package main

import (
	"fmt"
	"math"
	"strconv"
	"strings"
	"sync"
	"time"

	"github.com/robertkrimen/otto"
	"github.com/robertkrimen/otto/parser"
	"ottoh/fulljs"
	. "ottoh/lib"
	"ottoh/minijs"
)

const watchdog = 3 * time.Second
const maxLog = 4000

type obs struct {
	log     []string // Coq val terms
	kind    int      // 0 normal, 1 returned, 2 threw, 3 weird (Go panic or unclassifiable)
	val     string   // Coq val term for kinds 1, 2
	note    string
	doneSet bool
}

func valTerm(v otto.Value) string {
	switch {
	case v.IsUndefined():
		return "VUndef"
	case v.IsBoolean():
		b, _ := v.ToBoolean()
		return "(VBool " + Cbool(b) + ")"
	case v.IsNumber():
		f, _ := v.ToFloat()
		if math.IsNaN(f) {
			return "VNaN"
		}
		if f == math.Trunc(f) && math.Abs(f) < 9007199254740992 {
			return "(VNum " + Cz(int64(f)) + ")"
		}
		return "VBig"
	case v.IsObject():
		if v.Class() == "Error" {
			if n, err := v.Object().Get("name"); err == nil && n.String() == "ReferenceError" {
				return "VRefErr"
			}
		}
	}
	return "VOther"
}

// text of an uncaught primitive as Run reports it
func errTerm(err error) string {
	if oe, ok := err.(*otto.Error); ok {
		if strings.HasPrefix(oe.Error(), "ReferenceError") {
			return "VRefErr"
		}
		return "VOther"
	}
	s := err.Error()
	switch s {
	case "undefined":
		return "VUndef"
	case "true":
		return "(VBool true)"
	case "false":
		return "(VBool false)"
	case "NaN":
		return "VNaN"
	}
	if n, e := strconv.ParseInt(s, 10, 64); e == nil {
		return "(VNum " + Cz(n) + ")"
	}
	return "VOther"
}

func newVM(o *obs) *otto.Otto {
	vm := otto.New()
	vm.SetStackDepthLimit(400)
	_ = vm.Set("log", func(call otto.FunctionCall) otto.Value {
		if len(o.log) > maxLog {
			panic(WatchdogHalt)
		}
		o.log = append(o.log, valTerm(call.Argument(0)))
		return otto.UndefinedValue()
	})
	_ = vm.Set("__done", func(call otto.FunctionCall) otto.Value {
		k, _ := call.Argument(0).ToInteger()
		o.kind = int(k)
		o.val = valTerm(call.Argument(1))
		o.doneSet = true
		return otto.UndefinedValue()
	})
	return vm
}

func finish(o *obs, out Outcome, inFunc bool) {
	if out.Timeout {
		o.kind, o.note = 3, "watchdog: the program did not terminate"
		return
	}
	if out.Panic != nil {
		o.kind, o.note = 3, fmt.Sprintf("Go panic escaped: %v", out.Panic)
		return
	}
	if inFunc {
		if out.Err != nil || !o.doneSet {
			o.kind, o.note = 3, fmt.Sprintf("wrapper did not complete: %v", out.Err)
		}
		return
	}
	if out.Err != nil {
		o.kind, o.val = 2, errTerm(out.Err)
	} else {
		o.kind = 0
	}
}

func (o *obs) String() string {
	return fmt.Sprintf("log=[%s] outcome=%d %s %s", strings.Join(o.log, ","), o.kind, o.val, o.note)
}

func (o *obs) coq() string {
	oc := "ONormal"
	switch o.kind {
	case 1:
		oc = "(OReturned " + o.val + ")"
	case 2:
		oc = "(OThrew " + o.val + ")"
	case 3:
		oc = "OLeak"
	}
	return Clist(o.log) + " " + oc
}

// ---- MiniJS+ (coq/C01/Full.v) ----
func fvalTerm(v otto.Value) string {
	switch {
	case v.IsUndefined():
		return "WUndef"
	case v.IsNull():
		return "WNull"
	case v.IsBoolean():
		b, _ := v.ToBoolean()
		return "(WBool " + Cbool(b) + ")"
	case v.IsNumber():
		f, _ := v.ToFloat()
		if math.IsNaN(f) {
			return "WNaN"
		}
		if f == math.Trunc(f) && math.Abs(f) < 9007199254740992 {
			return "(WNum " + Cz(int64(f)) + ")"
		}
		return "WBig"
	case v.IsString():
		return "(WStr " + Cstr(v.String()) + ")"
	case v.IsObject():
		if v.Class() == "Error" {
			if n, err := v.Object().Get("name"); err == nil {
				switch n.String() {
				case "TypeError":
					return "(WErr 1)"
				case "ReferenceError":
					return "(WErr 2)"
				}
			}
			return "(WErr 0)"
		}
		return "(WRef 0)"
	}
	return "(WErr 0)"
}

func ferrTerm(err error) string {
	if oe, ok := err.(*otto.Error); ok {
		m := oe.Error()
		switch {
		case strings.HasPrefix(m, "TypeError"):
			return "(WErr 1)"
		case strings.HasPrefix(m, "ReferenceError"):
			return "(WErr 2)"
		}
		return "(WErr 0)"
	}
	s := err.Error()
	switch s {
	case "undefined":
		return "WUndef"
	case "null":
		return "WNull"
	case "true":
		return "(WBool true)"
	case "false":
		return "(WBool false)"
	case "NaN":
		return "WNaN"
	}
	if n, e := strconv.ParseInt(s, 10, 64); e == nil {
		return "(WNum " + Cz(n) + ")"
	}
	return "(WErr 0)"
}

type fobs struct {
	log  []string
	out  string
	cv   string // completion value of the program (the value Run/Eval returns)
	note string
}

func (o *fobs) String() string {
	return "log=[" + strings.Join(o.log, ",") + "] outcome=" + o.out + " completion=" + o.cv + " " + o.note
}

func runFullRoutes(src string) ([]*fobs, string) {
	res := make([]*fobs, 5)
	var shared *otto.Script
	for route := 0; route < 5; route++ {
		o := &fobs{}
		vm := otto.New()
		vm.SetStackDepthLimit(400) // a runaway recursion must not overflow the Go stack of the harness
		_ = vm.Set("log", func(call otto.FunctionCall) otto.Value {
			if len(o.log) > maxLog {
				panic(WatchdogHalt)
			}
			o.log = append(o.log, fvalTerm(call.Argument(0)))
			return otto.UndefinedValue()
		})
		var out Outcome
		switch route {
		case 0:
			out = Watch(vm, watchdog, func() (otto.Value, error) { return vm.Run(src) })
		case 1:
			out = Watch(vm, watchdog, func() (otto.Value, error) {
				s, err := vm.Compile("", src)
				if err != nil {
					return otto.Value{}, err
				}
				shared = s
				return vm.Run(s)
			})
		case 2:
			out = Watch(vm, watchdog, func() (otto.Value, error) {
				p, err := parser.ParseFile(nil, "", src, 0)
				if err != nil {
					return otto.Value{}, err
				}
				return vm.Run(p)
			})
		case 3:
			out = Watch(vm, watchdog, func() (otto.Value, error) { return vm.Eval(src) })
		case 4:
			// the Script compiled on another runtime, after it has ALSO been run on a runtime whose globals
			// differ (names the program leaves unresolved exist there, the with subjects are richer): nothing
			// learnt during that run may stick to the compiled program
			if shared != nil {
				pol := otto.New()
				pol.SetStackDepthLimit(400)
				_ = pol.Set("log", func(call otto.FunctionCall) otto.Value { return otto.UndefinedValue() })
				_, _ = pol.Run(`var nowhere = function () { return 1; }; var ex = 5; Object.prototype.g0 = 77; Object.prototype.g1 = 78;`)
				Watch(pol, watchdog, func() (otto.Value, error) { return pol.Run(shared) })
			}
			out = Watch(vm, watchdog, func() (otto.Value, error) {
				if shared == nil {
					return otto.Value{}, fmt.Errorf("no script")
				}
				return vm.Run(shared)
			})
		}
		switch {
		case out.Timeout:
			o.out, o.note = "FOutOfFuel", "watchdog: the program did not terminate"
		case out.Panic != nil:
			o.out, o.note = "FDeclined", fmt.Sprintf("Go panic escaped: %v", out.Panic)
		case out.Err != nil:
			o.out = "(FThrew " + ferrTerm(out.Err) + ")"
		default:
			o.out = "FNormal"
		}
		o.cv = "WUndef"
		if o.out == "FNormal" {
			o.cv = fvalTerm(out.Val)
		}
		res[route] = o
	}
	diff := ""
	for route := 1; route < 5; route++ {
		if res[route].String() != res[0].String() {
			diff += fmt.Sprintf(" route%d{%s}", route, res[route].String())
		}
	}
	return res, diff
}

// the five submission routes of the property
func runRoutes(src string, inFunc bool) ([]*obs, string) {
	res := make([]*obs, 5)
	var shared *otto.Script
	for route := 0; route < 5; route++ {
		o := &obs{}
		vm := newVM(o)
		var out Outcome
		switch route {
		case 0:
			out = Watch(vm, watchdog, func() (otto.Value, error) { return vm.Run(src) })
		case 1:
			out = Watch(vm, watchdog, func() (otto.Value, error) {
				s, err := vm.Compile("", src)
				if err != nil {
					return otto.Value{}, err
				}
				shared = s
				return vm.Run(s)
			})
		case 2:
			out = Watch(vm, watchdog, func() (otto.Value, error) {
				p, err := parser.ParseFile(nil, "", src, 0)
				if err != nil {
					return otto.Value{}, err
				}
				return vm.Run(p)
			})
		case 3:
			out = Watch(vm, watchdog, func() (otto.Value, error) { return vm.Eval(src) })
		case 4:
			out = Watch(vm, watchdog, func() (otto.Value, error) {
				if shared == nil {
					return otto.Value{}, fmt.Errorf("no script")
				}
				return vm.Run(shared) // the Script compiled on another runtime
			})
		}
		finish(o, out, inFunc)
		res[route] = o
	}
	diff := ""
	for route := 1; route < 5; route++ {
		if res[route].String() != res[0].String() {
			diff += fmt.Sprintf(" route%d{%s}", route, res[route].String())
		}
	}
	return res, diff
}

func main() {
	env := FromFlags("c01")
	env.Import = "Otto.C01.Corr"
	env.Rule = "(a) MiniJS+ programs (coq/C01/Full.v: hoisted var/function declarations, closures, this, arguments, call/apply/bind, constructors with prototype methods, instanceof/typeof/in/delete, while/do-while/for/for-in, switch with fall-through, labelled jumps, try/catch binding/finally) compared with the ES5 reference semantics, preceded on every seed by the deterministic families of fulljs.Pinned (operator x operand-kind pairs converted through user valueOf/toString, repeated parameter names x argument count x call route, every route to an indirect eval x this value x calling context, string operands of + and +=, the value-producing operators ?: && || , around a Reference in callee / eval / typeof / delete / new position, primitive this boxing, non-callable callees); (b) MiniJS programs from a weighted grammar (blocks, if, counter-bounded while, labelled statements, break/continue with and without labels, return, throw, try/catch/finally; expressions with assignment, ++, && || ?:, host call log) in function mode and global mode, each submitted by all five routes; non-trivial = distinct program containing at least one jump (break/continue/return/throw) inside a labelled statement, loop or try"
	// pinned witnesses of the listed findings come first
	pinned := []minijs.Program{
		{InFunc: false, Body: []minijs.Stmt{minijs.SLabelled{L: 1, S: minijs.SIf{E: minijs.Lit{Kind: 2}, A: minijs.SBreak{L: 1}}}, minijs.SExpr{E: minijs.Log{E: minijs.Lit{Kind: 1, N: 5}}}}},
		{InFunc: true, Body: []minijs.Stmt{minijs.SLabelled{L: 1, S: minijs.SIf{E: minijs.Lit{Kind: 2}, A: minijs.SBreak{L: 1}}}, minijs.SReturn{E: minijs.Lit{Kind: 1, N: 7}}}},
	}
	{
		// pinned witness of finding class 2 (completion value lost at break)
		src := "L1: {\n  1;\n  break L1;\n}\n"
		res, diff := runFullRoutes(src)
		env.Add(fmt.Sprintf("FCase [JLabelled 1%%nat (JBlock [JExpr (XLit (WNum 1)); JBreak 1%%nat])] %s %s %s %s", Clist(res[0].log), res[0].out, res[0].cv, Cbool(diff == "")),
			fmt.Sprintf("%s => %s", src, res[0].String()), "miniJS+", true)
	}
	// pinned probes of `delete <identifier>` (finding class 3: eval-declared bindings are not deletable in otto)
	for i, src := range []string{
		`eval("var q1 = 1"); var r = delete q1; [r, typeof q1].join()`,
		`function f(){ eval("var q2 = 1"); var r = delete q2; return [r, typeof q2].join(); } f()`,
		`eval("function q3(){}"); var r = delete q3; [r, typeof q3].join()`,
		`var q4 = 1; var r = delete q4; [r, typeof q4].join()`,
		`q5 = 1; var r = delete q5; [r, typeof q5].join()`,
		`function g(){ eval("function q6(){}"); var r = delete q6; return [r, typeof q6].join(); } g()`,
		`(0,eval)("var q7 = 1"); var r = delete q7; [r, typeof q7].join()`,
		`function q8(){}; var r = delete q8; [r, typeof q8].join()`,
		`var q9 = 1; function t9(){ return delete q9; } [t9(), typeof q9].join()`,
		`function t10(p10){ var r = delete p10; return [r, typeof p10].join(); } t10(1)`,
	} {
		for route := 0; route < 3; route++ {
			vmP := otto.New()
			var o Outcome
			switch route {
			case 0:
				o = RunJS(vmP, src)
			case 1:
				o = Guard(func() (otto.Value, error) {
					sc, err := vmP.Compile("", src)
					if err != nil {
						return otto.Value{}, err
					}
					return vmP.Run(sc)
				})
			default:
				o = Guard(func() (otto.Value, error) { return vmP.Eval(src) })
			}
			obs := "[]"
			if o.Err == nil && o.Panic == nil {
				parts := strings.Split(o.Val.String(), ",")
				if len(parts) == 2 {
					b := map[string]string{"true": "1", "false": "0"}[parts[0]]
					t := map[string]string{"undefined": "0", "number": "1", "function": "2"}[parts[1]]
					if b != "" && t != "" {
						obs = "[" + b + "; " + t + "]"
					}
				}
			}
			env.Add(fmt.Sprintf("PinCase %d %s", i+1, obs), fmt.Sprintf("[route %d: Run / Compile+Run / Otto.Eval] %s => %v", route, src, o.Val), "pinned-delete-identifier", true)
		}
	}
	// pinned probes of accessor properties reached through the prototype chain: `this` is the original receiver
	for i, src := range []string{
		`function A(b){ this.b = b; } A.prototype.b = -1; Object.defineProperty(A.prototype, "dbl", { get: function () { return this.b * 2; } }); [new A(21).dbl].join()`,
		`function A(b){ this.b = b; } Object.defineProperty(A.prototype, "sc", { set: function (v) { this.c = v; } }); var a = new A(1); a.sc = 5; [a.c, A.prototype.hasOwnProperty("c") ? 1 : 0].join()`,
		`var p = { get g() { return this.v; }, v: 1 }; var m = Object.create(p); m.v = 3; var c = Object.create(m); c.v = 7; [c.g, m.g].join()`,
		`var p = { get g() { return this.v * 2; }, v: -1 }; var o = Object.create(p); o.v = 21; var r; with (o) { r = g; } [r].join()`,
		`function A(b){ this.b = b; } A.prototype.b = -1; Object.defineProperty(A.prototype, "dbl", { get: function () { return this.b * 2; } }); A.prototype.m = function () { return this.dbl; }; var a = new A(21); [a["dbl"], a.m()].join()`,
		`var log = []; var p = {}; Object.defineProperty(p, "x", { get: function () { return this.y; }, set: function (v) { this.y = v; } }); var o = Object.create(p); o.x = 9; [o.y, p.hasOwnProperty("y") ? 1 : 0, o.x].join()`,
		`function A(b){ this.b = b; } A.prototype.b = -1; Object.defineProperty(A.prototype, "dbl", { get: function () { return this.b * 2; } }); var d = Object.getOwnPropertyDescriptor(A.prototype, "dbl"); [d.get.call(new A(21)), (typeof d.get === "function") ? 1 : 0].join()`,
	} {
		for route := 0; route < 2; route++ {
			vmP := otto.New()
			var o Outcome
			if route == 0 {
				o = RunJS(vmP, src)
			} else {
				o = Guard(func() (otto.Value, error) { return vmP.Eval(src) })
			}
			obs := "[]"
			if o.Err == nil && o.Panic == nil {
				var zs []string
				ok := true
				for _, part := range strings.Split(o.Val.String(), ",") {
					n, err := strconv.ParseInt(strings.TrimSpace(part), 10, 64)
					if err != nil {
						ok = false
						break
					}
					zs = append(zs, Cz(n))
				}
				if ok {
					obs = "[" + strings.Join(zs, "; ") + "]"
				}
			}
			env.Add(fmt.Sprintf("PinCase %d %s", 20+i, obs), fmt.Sprintf("[route %d] %s => %v", route, src, o.Val), "pinned-accessor-receiver", true)
		}
	}
	// pinned probes of the arguments object of a function whose parameter list repeats a name (regression cases of the
	// fixed finding C01-arguments-dup-param, bf94f2a: 10.6 step 11.c maps each name once, to its last occurrence that
	// received an argument, an earlier occurrence is a plain property); 33 and 34 are controls
	for i, src := range []string{
		`function pick(a, b, a) { return arguments[0]; } [pick(1, 2, 3)].join()`,
		`function pick(a, a) { return arguments[0]; } [pick(1, 2)].join()`,
		`function pick(a, b, a) { a = 9; return arguments[0]; } [pick(1, 2, 3)].join()`,
		`function pick(a, b, a) { a = 9; return arguments[2]; } [pick(1, 2, 3)].join()`,
		`function pick(a, b, a) { return typeof arguments[0] === "undefined" ? 0 : 1; } [pick(1, 2)].join()`,
		`function pick(a, b, a) { arguments[0] = 9; return a; } [pick(1, 2, 3)].join()`,
	} {
		for route := 0; route < 2; route++ {
			vmP := otto.New()
			var o Outcome
			if route == 0 {
				o = RunJS(vmP, src)
			} else {
				o = Guard(func() (otto.Value, error) { return vmP.Eval(src) })
			}
			obs := "[]"
			if o.Err == nil && o.Panic == nil {
				if n, err := strconv.ParseInt(strings.TrimSpace(o.Val.String()), 10, 64); err == nil {
					obs = "[" + Cz(n) + "]"
				}
			}
			env.Add(fmt.Sprintf("PinCase %d %s", 30+i, obs), fmt.Sprintf("[route %d] %s => %v", route, src, o.Val), "pinned-arguments-dup-param", true)
		}
	}
	// pinned probes of the value of a block / try / if-branch block / with that produces no value (finding class 5,
	// C01-valueless-block-undefined: otto gives undefined, ES5 12.1 the empty completion, so the 7 survives); 44, 45 controls
	for i, src := range []string{`7; { }`, `7; try { } finally { }`, `7; if (true) { }`, `7; with ({}) { }`, `7; if (false) 5;`, `7; { 8; }`} {
		for route := 0; route < 2; route++ {
			vmP := otto.New()
			var o Outcome
			if route == 0 {
				o = RunJS(vmP, src)
			} else {
				o = Guard(func() (otto.Value, error) { return vmP.Eval(src) })
			}
			obs := "[]"
			if o.Err == nil && o.Panic == nil {
				if n, err := strconv.ParseInt(strings.TrimSpace(o.Val.String()), 10, 64); err == nil {
					obs = "[" + Cz(n) + "]"
				}
			}
			env.Add(fmt.Sprintf("PinCase %d %s", 40+i, obs), fmt.Sprintf("[route %d] %s => %v", route, src, o.Val), "pinned-valueless-block", true)
		}
	}
	// generate every program first (one PRNG, deterministic), run them on otto in parallel, record them in order
	type job struct {
		full   *fulljs.Program
		pinned bool
		mini   *minijs.Program
		fres   []*fobs
		fdiff  string
		res    []*obs
		diff   string
	}
	var jobs []*job
	// the deterministic MiniJS+ families (operand conversion order, repeated parameter names, this in indirect eval code)
	for _, fp := range fulljs.Pinned() {
		fp := fp
		jobs = append(jobs, &job{full: &fp, pinned: true})
	}
	for i := 0; env.Count()+len(jobs) < env.N; i++ {
		if i >= len(pinned) && i%2 == 1 {
			// a MiniJS+ program (functions, closures, this, arguments, call/apply/bind, constructors, all loops, switch, for-in)
			budget := 10 + env.Rng.Intn(30)
			if env.Tier == "thorough" {
				budget = 10 + env.Rng.Intn(80)
			}
			fp := fulljs.Generate(env.Rng, budget)
			jobs = append(jobs, &job{full: &fp})
			continue
		}
		var p minijs.Program
		if i < len(pinned) {
			p = pinned[i]
			p.Stats = map[string]int{"labelled-nonwf-shape": 1}
		} else {
			budget := 8 + env.Rng.Intn(40)
			if env.Tier == "thorough" {
				budget = 8 + env.Rng.Intn(110)
			}
			p = minijs.Generate(env.Rng, budget, env.Rng.Intn(2) == 0, 6)
		}
		jobs = append(jobs, &job{mini: &p})
	}
	work := make(chan *job)
	var wg sync.WaitGroup
	for w := 0; w < 12; w++ {
		wg.Add(1)
		go func() {
			defer wg.Done()
			for jb := range work {
				if jb.full != nil {
					jb.fres, jb.fdiff = runFullRoutes(jb.full.JS)
				} else {
					jb.res, jb.diff = runRoutes(jb.mini.JS(), jb.mini.InFunc)
				}
			}
		}()
	}
	for _, jb := range jobs {
		work <- jb
	}
	close(work)
	wg.Wait()
	for _, jb := range jobs {
		if jb.full != nil {
			fp, res, diff := jb.full, jb.fres, jb.fdiff
			txt := fmt.Sprintf("%s => %s", fp.JS, res[0].String())
			if diff != "" {
				txt += " ROUTES DISAGREE:" + diff
			}
			for k, v := range fp.Stats {
				env.Dist["full:"+k] += v
			}
			bucket := "miniJS+"
			if jb.pinned {
				bucket = "miniJS+pinned"
			}
			env.Add(fmt.Sprintf("FCase %s %s %s %s %s", fp.Coq, Clist(res[0].log), res[0].out, res[0].cv, Cbool(diff == "")), txt, bucket, true)
			continue
		}
		p, res, diff := jb.mini, jb.res, jb.diff
		src := p.JS()
		agree := diff == ""
		mode := "0"
		if p.InFunc {
			mode = "1"
		}
		coq := fmt.Sprintf("Case %s %s %s %s", mode, p.Coq(), res[0].coq(), Cbool(agree))
		txt := fmt.Sprintf("%s => %s", src, res[0].String())
		if !agree {
			txt += " ROUTES DISAGREE:" + diff
		}
		for k, v := range p.Stats {
			env.Dist["stmt:"+k] += v
		}
		nontriv := (p.Stats["jump"]+p.Stats["return"]+p.Stats["throw"] > 0) && (p.Stats["labelled"]+p.Stats["while"]+p.Stats["try"] > 0)
		bucket := "global"
		if p.InFunc {
			bucket = "function"
		}
		env.Add(coq, txt, bucket, nontriv)
	}
	env.Finish()
}
