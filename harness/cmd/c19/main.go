// c19: correspondence cases for property C19 (error class, message, position, stack trace).
//
// Every generated program is written by a generator that tracks, independently
// of otto, the (line, column) at which it puts each call site and the raising
// construct; the Coq side gets the source bytes, the frames with their events
// (file.Idx values) and that ground truth, and judges what otto printed.
package main

import (
	"fmt"
	"math"
	"math/rand"
	"regexp"
	"strconv"
	"strings"

	"github.com/robertkrimen/otto"
	"github.com/robertkrimen/otto/file"
	"github.com/robertkrimen/otto/parser"
	. "ottoh/lib"
)

func main() {
	env := FromFlags("c19")
	runC19(env)
	env.Finish()
}

// ---------------------------------------------------------------------------
// text buffers that know where they are (ES5 7.3 line terminators, columns in characters)

type pos struct{ idx, line, col int } // idx = file.Idx = 1 + byte offset

type fileBuf struct {
	table  int // index in the case's file table
	nameID int
	name   string
	b      []byte
	line   int
	col    int
	prevCR bool
	noFile bool // text compiled by Function(): functions defined in it carry no file
}

func newBuf(table, nameID int, name string) *fileBuf {
	return &fileBuf{table: table, nameID: nameID, name: name, line: 1, col: 1}
}

func (f *fileBuf) w(s string) {
	for _, r := range s {
		switch r {
		case '\n':
			if !f.prevCR {
				f.line++
			}
			f.col = 1
			f.prevCR = false
		case '\r':
			f.line++
			f.col = 1
			f.prevCR = true
		case '\u2028', '\u2029':
			f.line++
			f.col = 1
			f.prevCR = false
		default:
			f.col++
			f.prevCR = false
		}
	}
	f.b = append(f.b, s...)
}

func (f *fileBuf) here() pos { return pos{1 + len(f.b), f.line, f.col} }

func cbytes(b []byte) string {
	var sb strings.Builder
	sb.WriteByte('[')
	for i, c := range b {
		if i > 0 {
			sb.WriteByte(';')
		}
		sb.WriteString(strconv.Itoa(int(c)))
	}
	sb.WriteByte(']')
	return sb.String()
}

// JS string literal whose value is s (raw non-ASCII is kept, terminators and quotes escaped)
func jsQuote(s string) string {
	var sb strings.Builder
	sb.WriteByte('"')
	for _, r := range s {
		switch r {
		case '"':
			sb.WriteString(`\"`)
		case '\\':
			sb.WriteString(`\\`)
		case '\n':
			sb.WriteString(`\n`)
		case '\r':
			sb.WriteString(`\r`)
		case '\u2028':
			sb.WriteString("\\u2028")
		case '\u2029':
			sb.WriteString("\\u2029")
		default:
			sb.WriteRune(r)
		}
	}
	sb.WriteByte('"')
	return sb.String()
}

// ---------------------------------------------------------------------------
// names

var nativeNames = []string{"", "forEach", "map", "filter", "some", "every", "reduce", "reduceRight", "sort",
	"replace", "stringify", "parse", "call", "apply", "eval", "toFixed", "toString", "toExponential",
	"toPrecision", "Function", "RegExp", "Array", "decodeURIComponent", "decodeURI", "defineProperty",
	"create", "keys", "getPrototypeOf", "bind", "getTime", "valueOf", "exec", "hasOwnProperty",
	"Error", "EvalError", "RangeError", "ReferenceError", "SyntaxError", "TypeError", "URIError", "defineProperties"}

var errNames = []string{"Error", "EvalError", "RangeError", "ReferenceError", "SyntaxError", "TypeError", "URIError"}

var nameIDs = func() map[string]int {
	m := map[string]int{}
	for i, n := range nativeNames {
		m[n] = i
	}
	return m
}()

// user functions are called f<N>, g<N>, cb<N>, C<N>; id = 1000 + 10*N + letter
func userName(prefix string, n int) (string, int) {
	k := map[string]int{"f": 0, "g": 1, "cb": 2, "C": 3, "it": 4}[prefix]
	return fmt.Sprintf("%s%d", prefix, n), 1000 + 10*n + k
}

var userRe = regexp.MustCompile(`^(f|g|cb|C|it)(\d+)$`)

func nameID(s string) int {
	if id, ok := nameIDs[s]; ok {
		return id
	}
	if m := userRe.FindStringSubmatch(s); m != nil {
		n, _ := strconv.Atoi(m[2])
		_, id := userName(m[1], n)
		return id
	}
	return -2
}

var fileNames = []string{"", "lib.js", "src/main.js", "m-1.js", "app.min.js"}

func fileNameID(s string) int {
	if s == "<anonymous>" {
		return 0
	}
	for i, n := range fileNames {
		if i > 0 && n == s {
			return i
		}
	}
	return -2
}

// ---------------------------------------------------------------------------
// program generator

type quirks struct {
	site, evalStale, noAt, noFile, term, char, implicit bool
}

type lvl struct {
	kind   string
	events []string
}

type step struct {
	what      string // decl | callback | iife | ieval | fctor
	def       string // decl: decl | varanon | varnamed | methanon | methnamed
	call      string // decl: plain | new | call | apply | other | bind | bindvar
	member    string // decl via method: dot | bracket
	n         int
	file      *fileBuf
	native    string // callback: which built-in
	named     bool
	viaThis   bool // the callee is reached as this.fN (the function is also put on Object.prototype)
	nativeLvl int // index of the native level, -1 if none
	fnLvl     int
}

type prog struct {
	r         *rand.Rand
	q         quirks
	files     []*fileBuf
	lib, main *fileBuf
	levels    []*lvl
	steps     []*step
	limit     int
	raise     string
	kind      int
	evalDepth int
	wrapStart int
	wrapEnd   int
	counter   int
	viaScript bool // anonymous sources go through Compile("", src) and a Script too
	depthLimit int // Otto.SetStackDepthLimit; 0 = none (then nothing in the program recurses)
	restFrames int
	history   int // 0: fresh runtime; otherwise the trace limit of the warm-up runs
}

const prelude = `function ok(){ return 1 } function ok2(){ return ok } var H = {ok: ok, h: {ok: ok}};
var U; var NUL = null; var O = {k: 1}; var NUM = 1.5; var ARR = []; var CYC = {}; CYC.c = CYC;
var GS = { get x() { return zz }, set y(v) { zz }, get z() { return ok() }, set w(v) { ok() } };
function evThrow() { try { eval("zz") } catch (e) { return 1 } } function evFin() { try { eval("null.x") } finally { return 1 } }
function evCatch() { try { eval("U()") } catch (e) {} return ok() } function evLeak() { eval("\n zz") } function w0() { zz }
function rec(n) { return rec(n + 1) } function rc(n) { [1].forEach(function () { rc(n + 1) }) } function re(n) { eval("re(n + 1)") }
var RG = { get x() { return RG.x } }; function ra(n) { return ok(ra(n + 1), 2) } function rf(n) { try { zz } finally { rf(n + 1) } }
function RC(n) { this.c = new RC(n + 1) } function rs(n) { [2, 1].sort(function (a, b) { return rs(n + 1) }) }
Object.defineProperty(Object.prototype, "okp", {value: ok, writable: true, configurable: true});
function K() {} K.prototype.m = function () { return 1 }; K.prototype.self = function () { return this }; var NS = {K: K};
var OE = {e: eval}; var FA = Object.freeze([1, 2, 3]); var FL = [1, 2, 3]; Object.defineProperty(FL, "length", {writable: false});
var EV = eval; var BAD = {toString: 1, valueOf: 1}; var FROZEN = Object.freeze({a: 1}); var __r;
var __facts = (function () {
  // the built-ins as they were before any script could rebind them
  var names = ["Error","EvalError","RangeError","ReferenceError","SyntaxError","TypeError","URIError"];
  var ctors = [Error, EvalError, RangeError, ReferenceError, SyntaxError, TypeError, URIError];
  var protos = [Error.prototype, EvalError.prototype, RangeError.prototype, ReferenceError.prototype, SyntaxError.prototype, TypeError.prototype, URIError.prototype];
  var gpo = Object.getPrototypeOf, ots = Object.prototype.toString, ets = Error.prototype.toString, S = String;
  return function (e) {
    if (e === null || typeof e !== "object") { return "0,0,0,0,0,0" + "\u0001" + S(e) + "\u0001\u0001\u0001"; }
    var k = names.indexOf(e.name), C = ctors[k];
    return [k + 1, (C && e instanceof C) ? 1 : 0, (e instanceof ctors[0]) ? 1 : 0,
            (C && gpo(e) === protos[k] && C.prototype === protos[k] && e.constructor === C && gpo(protos[k]) === (k ? protos[0] : Object.prototype)) ? 1 : 0,
            (ots.call(e) === "[object Error]") ? 1 : 0,
            (typeof e.message === "string" && e.message.length > 0) ? 1 : 0].join(",") +
           "\u0001" + ets.call(e) + "\u0001" + e.name + "\u0001" + e.message + "\u0001" + e.stack;
  };
})();
`

// host functions that re-enter the runtime (and swallow what happens there)
func setHost(vm *otto.Otto) {
	Must(vm.Set("hostRun", func(call otto.FunctionCall) otto.Value {
		src, _ := call.Argument(0).ToString()
		_, _ = call.Otto.Run(src)
		return otto.UndefinedValue()
	}))
	Must(vm.Set("hostEval", func(call otto.FunctionCall) otto.Value {
		src, _ := call.Argument(0).ToString()
		_, _ = call.Otto.Eval(src)
		return otto.UndefinedValue()
	}))
	Must(vm.Set("hostCall", func(call otto.FunctionCall) otto.Value {
		_, _ = call.Otto.Call("w0", nil)
		return otto.UndefinedValue()
	}))
}

func (p *prog) newFile(nameID int, name string) *fileBuf {
	f := newBuf(len(p.files), nameID, name)
	p.files = append(p.files, f)
	return f
}

func (p *prog) chance(n int) bool { return p.r.Intn(n) == 0 }

// statement separator: terminator + indentation, or just a space
func (p *prog) sep(w *fileBuf) {
	r := p.r
	switch r.Intn(6) {
	case 0:
		w.w(" ")
		return
	case 1:
		w.w("\n\n")
	case 2:
		w.w("\r\n")
	default:
		if p.q.term && r.Intn(2) == 0 {
			w.w(Pick(r, []string{"\r", "\u2028", "\u2029", "\r\r", "\n\r", "\u2028\n"}))
		} else {
			w.w("\n")
		}
	}
	w.w(strings.Repeat(" ", r.Intn(7)))
	if p.q.char && r.Intn(2) == 0 {
		w.w(Pick(r, []string{"/* é */ ", "\"üß\"; ", "/*日本*/", "'€'; ", "/* ñ — ñ */ "}))
	} else if r.Intn(5) == 0 {
		w.w(Pick(r, []string{"/* c */ ", "/**/", "1; ", "// note\n", "; "}))
	}
}

func fnKind(id int, w *fileBuf) string {
	if w.noFile {
		return fmt.Sprintf("LvFuncNoFile %d %d", id, w.table)
	}
	return fmt.Sprintf("LvFunc %d %d", id, w.table)
}

func ev(k string, at pos) string { return fmt.Sprintf("EvCall %s %d %d %d", k, at.idx, at.line, at.col) }

// a completed statement that leaves something behind in the frame
func (p *prog) prior(w *fileBuf, lv *lvl) {
	r := p.r
	n := 18
	for {
		switch r.Intn(n) {
		case 0:
			lv.events = append(lv.events, ev("KIdent", w.here()))
			w.w("ok();")
		case 1:
			lv.events = append(lv.events, ev("KDot", w.here()))
			if r.Intn(4) == 0 { // the receiver is a new expression: the call site is the `new` keyword
				a := w.here()
				switch r.Intn(4) {
				case 0:
					w.w("new ")
					lv.events = append(lv.events[:len(lv.events)-1], ev("KIdent", w.here()), ev("KDot", a))
					w.w("K().m();")
				case 1:
					w.w("new ")
					lv.events = append(lv.events[:len(lv.events)-1], ev("KIdent", w.here()), ev("KBracket", a))
					w.w("K()[\"m\"](1);")
				case 2:
					w.w("new ")
					lv.events = append(lv.events[:len(lv.events)-1], ev("KDot", w.here()), ev("KDot", a))
					w.w("NS.K().m();")
				default:
					w.w("new ")
					lv.events = append(lv.events[:len(lv.events)-1], ev("KIdent", w.here()), ev("KDot", a), ev("KDot", a))
					w.w("K().self().m();")
				}
				return
			}
			w.w(Pick(r, []string{"H.ok();", "H.h.ok();", "H . ok ( );", "this.okp();", "this.okp(1, 2);", "this.okp.call(null);"}))
		case 2:
			lv.events = append(lv.events, ev("KBracket", w.here()))
			w.w(Pick(r, []string{"H[\"ok\"]();", "H['h']['ok']();"}))
		case 3:
			w.w("new ")
			lv.events = append(lv.events, ev("KIdent", w.here()))
			w.w("ok();")
		case 4:
			w.w("new ")
			lv.events = append(lv.events, ev("KDot", w.here()))
			w.w("H.ok;")
		case 5: // nested call: the argument's call is recorded first, the outer call last
			a := w.here()
			w.w("ok(")
			b := w.here()
			w.w("ok());")
			lv.events = append(lv.events, ev("KIdent", b), ev("KIdent", a))
		case 6: // a caught error leaves no mark; `new Error` is a call site of this frame
			switch r.Intn(3) {
			case 0:
				w.w("try { zz } catch (e1) {}")
			case 1:
				w.w("try { U.x } catch (e1) {}")
			default:
				w.w("try { throw new ")
				lv.events = append(lv.events, ev("KIdent", w.here()))
				w.w("Error('x') } catch (e1) {}")
			}
		case 7:
			lv.events = append(lv.events, ev("KDot", w.here()))
			w.w("[1, 2].forEach(function(){ ok() });")
		case 8:
			w.w("var t" + strconv.Itoa(r.Intn(9)) + " = 1 + 2;")
		case 9:
			if !p.q.site {
				continue
			}
			switch r.Intn(3) {
			case 0:
				lv.events = append(lv.events, ev("KOther", w.here()))
				w.w("(0, ok)();")
			case 1:
				lv.events = append(lv.events, ev("KOther", w.here()))
				w.w("(function(){})();")
			default:
				a := w.here()
				w.w("ok2()();")
				lv.events = append(lv.events, ev("KIdent", a), ev("KOther", a))
			}
		case 10, 11: // a completed direct eval (normal completion): the frame runs the eval's text and gets its own back
			if p.evalDepth > 0 {
				continue
			}
			lv.events = append(lv.events, ev("KIdent", w.here()))
			ef := p.newFile(0, "")
			lv.events = append(lv.events, fmt.Sprintf("EvEvalEnter %d", ef.table))
			switch r.Intn(3) {
			case 0:
				ef.w("1")
			case 1:
				lv.events = append(lv.events, ev("KIdent", ef.here()))
				ef.w("ok()")
			default: // long enough for offsets of the outer file to land inside it
				for k := r.Intn(30) + 5; k > 0; k-- {
					ef.w(Pick(r, []string{"/* pad pad pad */", "\n", "  ", "1;", "\n\n", "// x\n"}))
				}
				ef.w("\n")
				lv.events = append(lv.events, ev("KDot", ef.here()))
				ef.w("H.ok()")
			}
			lv.events = append(lv.events, "EvEvalLeave")
			w.w("eval(" + jsQuote(string(ef.b)) + ");")
		case 12, 13, 14: // a direct eval left by a throw that this activation catches
			if p.evalDepth > 0 {
				continue
			}
			form := r.Intn(4)
			pre := []string{"try { ", "try { try { ", "try { if (1) { ", "try { var q = "}[form]
			w.w(pre)
			lv.events = append(lv.events, ev("KIdent", w.here()))
			ef := p.newFile(0, "")
			lv.events = append(lv.events, fmt.Sprintf("EvEvalEnter %d", ef.table))
			for k := r.Intn(3); k > 0; k-- {
				ef.w(Pick(r, []string{"/* pad */ ", "\n", "1;\n", "  "}))
			}
			if r.Intn(2) == 0 {
				lv.events = append(lv.events, ev("KIdent", ef.here()))
				ef.w("ok(); ")
			}
			ef.w(Pick(r, []string{"zz", "null.x", "throw 1", "U()", "throw new Error('q')", "[1].forEach(function(){ zz })", "(function(){ zz })()", "1 in 2"}))
			src := string(ef.b)
			switch {
			case strings.HasSuffix(src, "new Error('q')"):
				at := ef.here()
				lv.events = append(lv.events, fmt.Sprintf("EvCall KIdent %d %d %d", at.idx-10, at.line, at.col-10))
			case strings.HasSuffix(src, "[1].forEach(function(){ zz })"):
				at := ef.here()
				lv.events = append(lv.events, fmt.Sprintf("EvCall KDot %d %d %d", at.idx-29, at.line, at.col-29))
			case strings.HasSuffix(src, "(function(){ zz })()"):
				at := ef.here()
				lv.events = append(lv.events, fmt.Sprintf("EvCall KOther %d %d %d", at.idx-20, at.line, at.col-20))
			}
			lv.events = append(lv.events, "EvEvalLeave")
			w.w("eval(" + jsQuote(src) + ")")
			switch form {
			case 0, 3:
				w.w(" } catch (e1) {}")
			case 1:
				w.w(" } finally { ")
				lv.events = append(lv.events, ev("KIdent", w.here()))
				w.w("ok() } } catch (e1) {}")
			default:
				w.w(" } } catch (e1) { ")
				lv.events = append(lv.events, ev("KDot", w.here()))
				w.w("H.ok() }")
			}
		case 16, 17: // a stack overflow raised and caught in this activation (only under a depth limit)
			if p.depthLimit == 0 {
				continue
			}
			switch r.Intn(10) {
			case 0, 1:
				w.w("try { ")
				lv.events = append(lv.events, ev("KIdent", w.here()))
				w.w("rec(0) } catch (e1) {}")
			case 2:
				w.w("try { ")
				lv.events = append(lv.events, ev("KIdent", w.here()))
				w.w(Pick(r, []string{"rc(0)", "rs(0)", "re(0)", "ra(0)", "rf(0)"}) + " } catch (e1) {}")
			case 3:
				w.w("try { RG.x } catch (e1) {}")
			case 4:
				w.w("try { new ")
				lv.events = append(lv.events, ev("KIdent", w.here()))
				w.w("RC(0) } catch (e1) {}")
			case 5: // during argument evaluation: the outer call is never made
				w.w("try { ok(1, ")
				lv.events = append(lv.events, ev("KIdent", w.here()))
				w.w("rec(0)) } catch (e1) {}")
			case 6: // in a finally block
				w.w("try { try { U.x } finally { try { ")
				lv.events = append(lv.events, ev("KIdent", w.here()))
				w.w("rec(0) } catch (e1) {} } } catch (e0) {}")
			case 7:
				w.w("try { try { ")
				lv.events = append(lv.events, ev("KIdent", w.here()))
				w.w("rec(0) } finally { ")
				lv.events = append(lv.events, ev("KIdent", w.here()))
				w.w("ok() } } catch (e1) {}")
			case 8:
				w.w("try { ")
				lv.events = append(lv.events, ev("KDot", w.here()))
				w.w("rec.call(null, 0) } catch (e1) {}")
			default:
				w.w("try { ")
				lv.events = append(lv.events, ev("KDot", w.here()))
				w.w("[1].forEach(function () { rec(0) }) } catch (e1) {}")
			}
		case 15: // other constructs that swap frame state, left by a throw caught here or further in
			switch r.Intn(8) {
			case 0:
				w.w("try { ")
				lv.events = append(lv.events, ev("KIdent", w.here()))
				w.w("EV(\"zz\") } catch (e1) {}")
			case 1:
				w.w("try { ")
				lv.events = append(lv.events, ev("KDot", w.here()))
				w.w("[1].forEach(function(){ zz }) } catch (e1) {}")
			case 2:
				w.w("try { ")
				a := w.here()
				lv.events = append(lv.events, ev("KIdent", a), ev("KDot", a))
				w.w("Function(\"zz\").call(null) } catch (e1) {}")
			case 3:
				w.w(Pick(r, []string{"try { GS.x } catch (e1) {}", "try { GS.y = 1 } catch (e1) {}", "GS.z;", "GS.w = 2;"}))
			case 4:
				lv.events = append(lv.events, ev("KIdent", w.here()))
				w.w(Pick(r, []string{"evThrow();", "evFin();", "evCatch();"}))
			case 5:
				lv.events = append(lv.events, ev("KIdent", w.here()))
				w.w(Pick(r, []string{"hostRun(\"zz\");", "hostRun(\"ok()\");", "hostEval(\"null.x\");", "hostEval(\"1\");", "hostCall();", "hostRun(\"eval('zz')\");"}))
			case 6:
				w.w("try { ")
				lv.events = append(lv.events, ev("KIdent", w.here()))
				w.w("evLeak() } catch (e1) {}")
			default:
				w.w("try { ")
				lv.events = append(lv.events, ev("KDot", w.here()))
				w.w("JSON.stringify({toJSON: function(){ zz }}) } catch (e1) {}")
			}
		}
		return
	}
}

var callbackForms = map[string][2]string{
	"forEach":     {"[1].forEach(", ")"},
	"map":         {"[1, 2].map(", ")"},
	"filter":      {"[0].filter(", ")"},
	"some":        {"[1].some(", ")"},
	"every":       {"[1].every(", ")"},
	"reduce":      {"[1, 2].reduce(", ")"},
	"reduceRight": {"[1, 2].reduceRight(", ", 0)"},
	"sort":        {"[3, 1].sort(", ")"},
	"replace":     {"\"a\".replace(/a/, ", ")"},
	"stringify":   {"JSON.stringify([1], ", ")"},
	"parse":       {"JSON.parse(\"[1]\", ", ")"},
}
var callbackNames = []string{"forEach", "map", "filter", "some", "every", "reduce", "reduceRight", "sort", "replace", "stringify", "parse"}

func (p *prog) plan(scopes int) {
	r := p.r
	nlv := 1 // level 0: global code of the main file
	for nlv < scopes {
		p.counter++
		s := &step{n: p.counter, nativeLvl: -1}
		k := r.Intn(20)
		switch {
		case p.q.implicit && r.Intn(3) == 0:
			// a function entered without a call expression of its caller
			s.what = "implicit"
			s.def = Pick(r, []string{"getlit", "setlit", "getdef", "setdef", "valueof", "tostring"})
			if p.lib != nil && r.Intn(2) == 0 {
				s.file = p.lib
			} else {
				s.file = p.main
			}
		case k < 9:
			s.what = "decl"
			s.def = Pick(r, []string{"decl", "decl", "varanon", "varnamed", "methanon", "methnamed"})
			s.member = Pick(r, []string{"dot", "bracket"})
			calls := []string{"plain", "plain", "plain", "new", "call", "apply", "bindvar"}
			if p.q.site {
				calls = append(calls, "other", "other", "bind")
			}
			s.call = Pick(r, calls)
			s.viaThis = !strings.HasPrefix(s.def, "meth") && r.Intn(3) == 0 &&
				(s.call == "plain" || s.call == "new" || s.call == "call" || s.call == "apply")
			if p.lib != nil && r.Intn(2) == 0 {
				s.file = p.lib
			} else {
				s.file = p.main
			}
		case k < 14:
			s.what = "callback"
			s.native = Pick(r, callbackNames)
			s.named = r.Intn(2) == 0
		case k < 16:
			if !p.q.site {
				continue
			}
			s.what = "iife"
			s.named = r.Intn(2) == 0
		case k < 18:
			if p.evalDepth > 0 {
				continue
			}
			s.what = "ieval"
		default:
			if !p.q.noFile {
				continue
			}
			s.what = "fctor"
		}
		switch {
		case s.what == "callback" || s.what == "ieval" || s.what == "fctor" || (s.what == "decl" && (s.call == "call" || s.call == "apply")):
			s.nativeLvl = nlv
			s.fnLvl = nlv + 1
			nlv += 2
		default:
			s.fnLvl = nlv
			nlv++
		}
		p.steps = append(p.steps, s)
	}
	p.levels = make([]*lvl, nlv)
	for i := range p.levels {
		p.levels[i] = &lvl{}
	}
}

func (p *prog) fnName(s *step) (string, int) {
	switch s.def {
	case "decl":
		return userName("f", s.n)
	case "varnamed", "methnamed":
		return userName("g", s.n)
	}
	return "", 0
}

// top-level definition of a separately defined function
func (p *prog) define(si int) {
	s := p.steps[si]
	w := s.file
	nm, id := p.fnName(s)
	p.levels[s.fnLvl].kind = fnKind(id, w)
	switch s.def {
	case "decl":
		w.w("function " + nm + "(a, b) {")
	case "varanon":
		w.w(fmt.Sprintf("var f%d = function (a) {", s.n))
	case "varnamed":
		w.w(fmt.Sprintf("var f%d = function %s() {", s.n, nm))
	case "methanon":
		w.w(fmt.Sprintf("var M%d = { z: 1, m: function () {", s.n))
	case "methnamed":
		w.w(fmt.Sprintf("var M%d = { m: function %s(x) {", s.n, nm))
	}
	p.sep(w)
	p.body(w, s.fnLvl, si+1, true, false)
	p.sep(w)
	if strings.HasPrefix(s.def, "meth") {
		w.w("} };")
	} else if s.def == "decl" {
		w.w("}")
	} else {
		w.w("};")
	}
	w.w("\n")
	if s.viaThis { // every object can now call it as this.fN(...)
		w.w(fmt.Sprintf("Object.prototype.f%d = f%d;\n", s.n, s.n))
	}
	p.sep(w)
}

// top-level definition of an object whose accessor / conversion method is the next frame
func (p *prog) defineImplicit(si int) {
	s := p.steps[si]
	w := s.file
	nm, id := "", 0
	tail := "} };"
	switch s.def {
	case "getlit":
		w.w(fmt.Sprintf("var G%d = { k: 1, get x() {", s.n))
	case "setlit":
		w.w(fmt.Sprintf("var G%d = { set x(v) {", s.n))
	case "getdef", "setdef":
		nm, id = userName("g", s.n)
		w.w(fmt.Sprintf("var G%d = {}; ", s.n))
		if w == p.main { // a call made by the global code of the main file, before its last statement
			p.levels[0].events = append(p.levels[0].events, ev("KDot", w.here()))
		}
		w.w(fmt.Sprintf("Object.defineProperty(G%d, \"x\", { %s: function %s(v) {", s.n, s.def[:3], nm))
		tail = "} });"
	case "valueof":
		nm, id = userName("g", s.n)
		w.w(fmt.Sprintf("var G%d = { valueOf: function %s() {", s.n, nm))
	default:
		nm, id = userName("g", s.n)
		w.w(fmt.Sprintf("var G%d = { toString: function %s() {", s.n, nm))
	}
	p.levels[s.fnLvl].kind = fnKind(id, w)
	p.sep(w)
	p.body(w, s.fnLvl, si+1, true, false)
	p.sep(w)
	w.w(tail + "\n")
	p.sep(w)
}

// the statements of the frame p.levels[li]; its last statement calls step si (or raises)
func (p *prog) body(w *fileBuf, li, si int, inFunc, top bool) {
	r := p.r
	lv := p.levels[li]
	for k := r.Intn(4); k > 0; k-- {
		p.prior(w, lv)
		p.sep(w)
	}
	if top {
		p.wrapStart = len(w.b)
		w.w("/*--*/ ")
	}
	if p.evalDepth < 2 && r.Intn(8) == 0 {
		// the rest of this frame's code runs inside a direct eval
		lv.events = append(lv.events, ev("KIdent", w.here()))
		ef := p.newFile(0, "")
		lv.events = append(lv.events, fmt.Sprintf("EvEvalEnter %d", ef.table))
		p.evalDepth++
		if r.Intn(2) == 0 {
			p.sep(ef)
		}
		p.body(ef, li, si, false, false)
		p.evalDepth--
		w.w("eval(" + jsQuote(string(ef.b)) + ")")
	} else {
		p.final(w, li, si, inFunc)
	}
	if top {
		p.wrapEnd = len(w.b)
	}
	w.w(";")
}

func (p *prog) final(w *fileBuf, li, si int, inFunc bool) {
	r := p.r
	pre, post := "", ""
	stmtOnly := si == len(p.steps) && p.kind >= 41 // throw is a statement
	switch r.Intn(9) {
	case 0:
		if !stmtOnly {
			pre = "var v = "
		}
	case 1:
		if inFunc && !stmtOnly {
			pre = "return "
		}
	case 2:
		pre, post = "try { ", " } catch (e2) { throw e2 }"
	case 3:
		pre, post = "try { ", " } finally { ok() }"
	case 4:
		pre, post = "if (1) { ", " }"
	}
	w.w(pre)
	if si == len(p.steps) {
		p.emitRaise(w, li)
	} else {
		p.emitCall(w, li, si)
	}
	w.w(post)
}

// writes an argument list; calls inside it are call sites of the frame that come BEFORE the call itself
func (p *prog) args(w *fileBuf, lv *lvl) {
	r := p.r
	switch r.Intn(9) {
	case 0:
		w.w("()")
	case 1:
		w.w("(1)")
	case 2:
		w.w("(1, 2)")
	case 3:
		w.w("(")
		lv.events = append(lv.events, ev("KIdent", w.here()))
		w.w("ok())")
	case 4:
		w.w("(1, ")
		lv.events = append(lv.events, ev("KDot", w.here()))
		w.w("H.ok())")
	case 5:
		w.w("(")
		a := w.here()
		w.w("ok(")
		lv.events = append(lv.events, ev("KIdent", w.here()), ev("KIdent", a))
		w.w("ok()), 2)")
	case 6:
		w.w("(new ")
		lv.events = append(lv.events, ev("KIdent", w.here()))
		w.w("ok(), ")
		lv.events = append(lv.events, ev("KBracket", w.here()))
		w.w("H[\"ok\"]())")
	case 7:
		w.w("(")
		lv.events = append(lv.events, ev("KDot", w.here()))
		w.w("[1, 2].map(function (x) { return ok() }))")
	default:
		w.w(" (")
		lv.events = append(lv.events, ev("KDot", w.here()))
		w.w("H.h.ok(1), ")
		lv.events = append(lv.events, ev("KIdent", w.here()))
		w.w("ok())")
	}
}

func (p *prog) emitCall(w *fileBuf, li, si int) {
	r := p.r
	lv := p.levels[li]
	s := p.steps[si]
	native := func(name string) {
		p.levels[s.nativeLvl].kind = fmt.Sprintf("LvNative %d", nameIDs[name])
	}
	switch s.what {
	case "implicit":
		g := fmt.Sprintf("G%d", s.n)
		var form string
		switch s.def {
		case "getlit", "getdef":
			form = Pick(r, []string{"¤.x", "¤[\"x\"]", "1 + ¤.x", "[¤.x]"})
		case "setlit", "setdef":
			form = Pick(r, []string{"¤.x = 1", "¤[\"x\"] = 2", "¤.x += 1"})
			if s.def == "setlit" || strings.Contains(form, "+=") && s.def == "setdef" {
				form = Pick(r, []string{"¤.x = 1", "¤[\"x\"] = 2"})
			}
		case "valueof":
			form = Pick(r, []string{"¤ + 1", "-¤", "¤ < 1", "¤ * 2", "+¤", "¤ == 1", "1 - ¤", "¤ >> 1", "[1, 2][¤ - 0]"})
		default:
			form = Pick(r, []string{"\"\" + ¤", "¤ + \"s\"", "O[¤]", "¤ in O", "¤ == \"s\""})
		}
		i := strings.Index(form, "¤")
		w.w(form[:i])
		at := w.here()
		lv.events = append(lv.events, fmt.Sprintf("EvImplicit %d %d %d", at.idx, at.line, at.col))
		w.w(g + form[i+len("¤"):])
	case "decl":
		ref, form := fmt.Sprintf("f%d", s.n), "KIdent"
		if strings.HasPrefix(s.def, "meth") {
			if s.member == "dot" {
				ref, form = fmt.Sprintf("M%d.m", s.n), "KDot"
			} else {
				ref, form = fmt.Sprintf("M%d[\"m\"]", s.n), "KBracket"
			}
		}
		newRecv := false
		if s.viaThis {
			ref, form = fmt.Sprintf("this.f%d", s.n), "KDot"
			switch r.Intn(6) {
			case 0:
				ref, form = fmt.Sprintf("this[\"f%d\"]", s.n), "KBracket"
			case 1, 2: // receiver is a new expression (every object inherits fN): the site is the `new` keyword
				if s.call != "new" {
					newRecv = true
					ref, form = fmt.Sprintf("new K().f%d", s.n), "KDot"
					if r.Intn(3) == 0 {
						ref, form = fmt.Sprintf("new K()[\"f%d\"]", s.n), "KBracket"
					}
				}
			}
		}
		if newRecv { // `new K()` is evaluated (and recorded) first
			at := w.here()
			lv.events = append(lv.events, fmt.Sprintf("EvCall KIdent %d %d %d", at.idx+4, at.line, at.col+4))
		}
		switch s.call {
		case "plain":
			at := w.here()
			w.w(ref)
			p.args(w, lv)
			lv.events = append(lv.events, ev(form, at))
		case "new":
			w.w("new ")
			at := w.here()
			w.w(ref)
			if r.Intn(4) > 0 {
				p.args(w, lv)
			}
			lv.events = append(lv.events, ev(form, at))
		case "call":
			at := w.here()
			w.w(ref + ".call")
			p.args(w, lv)
			lv.events = append(lv.events, ev("KDot", at))
			native("call")
		case "apply":
			lv.events = append(lv.events, ev("KDot", w.here()))
			w.w(ref + ".apply(null, [1])")
			native("apply")
		case "other":
			lv.events = append(lv.events, ev("KOther", w.here()))
			w.w("(0, " + ref + ")()")
		case "bind": // callee is a call expression
			a := w.here()
			lv.events = append(lv.events, ev("KDot", a), ev("KOther", a))
			w.w(ref + ".bind(null)()")
		case "bindvar":
			w.w(fmt.Sprintf("(B%d = ", s.n))
			lv.events = append(lv.events, ev("KDot", w.here()))
			w.w(ref + ".bind(null), ")
			lv.events = append(lv.events, ev("KIdent", w.here()))
			w.w(fmt.Sprintf("B%d())", s.n))
		}
	case "callback":
		f := callbackForms[s.native]
		lv.events = append(lv.events, ev("KDot", w.here()))
		w.w(f[0])
		native(s.native)
		nm, id := "", 0
		if s.named {
			nm, id = userName("cb", s.n)
		}
		p.levels[s.fnLvl].kind = fnKind(id, w)
		w.w("function " + nm + "(x, y) {")
		p.sep(w)
		p.body(w, s.fnLvl, si+1, true, false)
		p.sep(w)
		w.w("}" + f[1])
	case "iife":
		lv.events = append(lv.events, ev("KOther", w.here()))
		nm, id := "", 0
		if s.named {
			nm, id = userName("it", s.n)
		}
		p.levels[s.fnLvl].kind = fnKind(id, w)
		tail := Pick(r, []string{"})()", "}())"})
		w.w("(function " + nm + "() {")
		p.sep(w)
		p.body(w, s.fnLvl, si+1, true, false)
		p.sep(w)
		w.w(tail)
	case "ieval":
		lv.events = append(lv.events, ev("KIdent", w.here()))
		native("eval")
		ef := p.newFile(0, "")
		p.levels[s.fnLvl].kind = fmt.Sprintf("LvGlobal %d", ef.table)
		p.evalDepth++
		if r.Intn(2) == 0 {
			p.sep(ef)
		}
		p.body(ef, s.fnLvl, si+1, false, false)
		p.evalDepth--
		w.w("EV(" + jsQuote(string(ef.b)) + ")")
	case "fctor":
		a := w.here()
		lv.events = append(lv.events, ev("KIdent", a), ev("KDot", a))
		native("call")
		ef := p.newFile(0, "")
		ef.noFile = true
		p.levels[s.fnLvl].kind = fmt.Sprintf("LvFuncNoFile 0 %d", ef.table)
		params := Pick(r, [][]string{{}, {"a"}, {"a", "b"}})
		ef.w("(function(" + strings.Join(params, ",") + "\n) {\n") // parser.ParseFunction's wrapper text
		start := len(ef.b)
		p.evalDepth++
		p.body(ef, s.fnLvl, si+1, true, false)
		p.evalDepth--
		bodyText := string(ef.b[start:])
		ef.w("\n})")
		args := ""
		for _, q := range params {
			args += jsQuote(q) + ", "
		}
		w.w("Function(" + args + jsQuote(bodyText) + ").call(null)")
	}
}

type raiseKind struct {
	id     int
	weight int
	needs  string // "", "site", "noat"
}

var raiseKinds = []raiseKind{
	{1, 3, ""}, {2, 3, ""}, {3, 2, ""}, {4, 2, "site"}, {5, 3, ""}, {6, 1, ""}, {7, 4, ""}, {8, 2, ""}, {9, 2, ""},
	{10, 6, ""}, {11, 2, ""}, {12, 2, ""}, {13, 2, "noat"}, {14, 2, ""}, {15, 1, ""}, {16, 1, ""}, {17, 1, ""},
	{18, 2, ""}, {19, 2, ""}, {20, 1, ""}, {21, 2, "noat"}, {22, 1, "noat"}, {23, 2, "noat"}, {24, 2, ""}, {25, 1, ""},
	{26, 1, ""}, {27, 1, ""}, {28, 1, ""}, {29, 1, ""}, {30, 1, ""}, {31, 1, ""}, {32, 1, ""}, {33, 1, "noat"},
	{34, 1, ""}, {35, 1, ""}, {36, 1, ""}, {37, 1, ""}, {38, 3, ""},
	{41, 1, ""}, {42, 1, ""}, {43, 1, ""}, {44, 1, ""}, {45, 1, ""}, {46, 1, ""}, {47, 1, ""},
	{51, 1, ""}, {52, 1, ""}, {53, 1, ""}, {54, 1, ""}, {55, 1, ""}, {56, 1, ""}, {57, 1, ""},
}

func (p *prog) pickKind() int {
	var pool []int
	for _, k := range raiseKinds {
		if (k.needs == "site" && !p.q.site) || (k.needs == "noat" && !p.q.noAt) {
			continue
		}
		w := k.weight
		if k.needs == "noat" && p.q.noAt {
			w *= 6
		}
		for i := 0; i < w; i++ {
			pool = append(pool, k.id)
		}
	}
	return Pick(p.r, pool)
}

// appends the native level(s) of a raise made inside built-ins
func (p *prog) nativeTop(names ...string) {
	for _, n := range names {
		p.levels = append(p.levels, &lvl{kind: fmt.Sprintf("LvNative %d", nameIDs[n])})
	}
	p.raise = "RNative"
}

func (p *prog) emitRaise(w *fileBuf, li int) {
	r := p.r
	lv := p.levels[li]
	kind := p.kind
	rat := func(form string, at pos) {
		p.raise = fmt.Sprintf("RAt %s %d %d %d", form, at.idx, at.line, at.col)
	}
	noat := func(at pos) { p.raise = fmt.Sprintf("RNoAt %d %d %d", at.idx, at.line, at.col) }
	call := func(form string, at pos) { lv.events = append(lv.events, ev(form, at)) }
	// text with one marked token: "pre¤tok rest"
	mark := func(s string) pos {
		i := strings.Index(s, "¤")
		w.w(s[:i])
		at := w.here()
		w.w(s[i+len("¤"):])
		return at
	}
	switch kind {
	case 1:
		rat("KIdent", mark(Pick(r, []string{"¤U()", "¤U(1, 2)", "1 + ¤U()", "[¤U()]"})))
	case 2:
		rat("KDot", mark(Pick(r, []string{"¤O.nope()", "¤O.k()", "¤H.h.nope(1)", "¤NUM.x()", "¤this.nope()", "¤this.nope9(1, 2)", "¤this.okp.nope()", "¤new K().nope()", "¤new K().self().nope(1)"})))
	case 3:
		rat("KBracket", mark(Pick(r, []string{"¤O[\"k\"]()", "¤O['no' + 'pe']()", "¤H[\"h\"][\"k\"]()"})))
	case 4:
		switch r.Intn(3) {
		case 0:
			rat("KOther", mark("¤(0, U)()"))
		case 1: // the inner call is made first (recorded), its result is not callable
			at := mark("¤ok()()")
			call("KIdent", at)
			rat("KOther", at)
		default:
			at := mark("¤(function(){})()()")
			call("KOther", at)
			rat("KOther", at)
		}
	case 5:
		switch r.Intn(3) {
		case 0:
			rat("KIdent", mark(Pick(r, []string{"new ¤U", "new ¤U()", "new ¤NUM(1)"})))
		case 1:
			rat("KDot", mark(Pick(r, []string{"new ¤O.k()", "new ¤O.k", "new ¤H.h.k(2)", "new ¤this.nope()", "new ¤this.nope9"})))
		default:
			rat("KBracket", mark("new ¤O[\"k\"]()"))
		}
	case 6:
		if r.Intn(2) == 0 {
			at := mark(Pick(r, []string{"new ¤Math.max()", "new ¤Math.max", "new ¤JSON.parse(\"1\")"}))
			call("KDot", at)
			noat(at)
		} else {
			at := mark(Pick(r, []string{"new ¤parseInt(\"1\")", "new ¤isNaN"}))
			call("KIdent", at)
			noat(at)
		}
	case 7:
		rat("KDot", mark(Pick(r, []string{"¤U.x", "¤NUL.x", "¤null.x", "¤undefined.y", "1 + ¤U.x", "¤O.q.z", "ok(¤U.x)", "¤this.nope9.x", "¤this.nope9.x.y", "¤new K().a.b"})))
	case 8:
		rat("KBracket", mark(Pick(r, []string{"¤U[\"x\"]", "¤NUL[0]", "¤null['x']", "¤O[\"q\"][1]"})))
	case 9:
		if r.Intn(2) == 0 {
			rat("KDot", mark(Pick(r, []string{"¤U.x = 1", "¤NUL.x = 2", "¤O.q.z = 3", "¤this.nope9.z = 3"})))
		} else {
			rat("KBracket", mark(Pick(r, []string{"¤U[\"x\"] = 1", "¤NUL[0] = 2"})))
		}
	case 10:
		rat("KIdent", mark(Pick(r, []string{"¤zz", "1 + ¤zz", "¤zz.x", "ok(¤zz)", "-¤zz", "¤zz++", "[1, ¤zz]", "O.k + ¤zq9", "(¤zz)", "¤zz ? 1 : 2"})))
	case 11:
		rat("KIdent", mark(Pick(r, []string{"¤zz()", "¤zz(1)", "new ¤zz"})))
	case 12:
		at := mark(Pick(r, []string{"new ¤Array(-1)", "new ¤Array(1.5)", "new ¤Array(4294967296)", "new ¤Array(" + p.badArg(5) + ")", "new ¤Array(" + p.badArg(5) + ")"}))
		call("KIdent", at)
		noat(at)
	case 13:
		noat(mark(Pick(r, []string{"¤ARR.length = -1", "¤ARR.length = 1.5", "¤ARR.length = 4294967296", "¤ARR.length = " + p.badArg(6), "¤ARR.length = " + p.badArg(6)})))
	case 14:
		call("KDot", mark(Pick(r, []string{"¤NUM.toString(1)", "¤NUM.toString(37)", "¤NUM.toString(0)", "¤NUM.toString(-5)", "¤NUM.toString(100)",
			"¤NUM.toString(" + p.badArg(1) + ")", "¤NUM.toString(" + p.badArg(1) + ")", "¤NUM.toString(" + p.badArg(1) + ")", "¤NUM.toString(" + p.badArg(1) + ")"})))
		p.nativeTop("toString")
	case 15:
		call("KDot", mark(Pick(r, []string{"¤NUM.toFixed(-1)", "¤NUM.toFixed(21)", "¤NUM.toFixed(101)", "¤NUM.toFixed(" + p.badArg(2) + ")", "¤NUM.toFixed(" + p.badArg(2) + ")", "¤NUM.toFixed(" + p.badArg(2) + ")"})))
		p.nativeTop("toFixed")
	case 16:
		call("KDot", mark(Pick(r, []string{"¤NUM.toExponential(-1)", "¤NUM.toExponential(-7)", "¤NUM.toExponential(" + p.badArg(3) + ")", "¤NUM.toExponential(" + p.badArg(3) + ")"})))
		p.nativeTop("toExponential")
	case 17:
		call("KDot", mark(Pick(r, []string{"¤NUM.toPrecision(0)", "¤NUM.toPrecision(-3)", "¤NUM.toPrecision(" + p.badArg(4) + ")", "¤NUM.toPrecision(" + p.badArg(4) + ")"})))
		p.nativeTop("toPrecision")
	case 18:
		bad := jsQuote(Pick(r, []string{"var x = ;", "a b", "1 +* 2", "if (", "}", "x = 1;\n y = @", "for (;;", "f(,)"}))
		switch r.Intn(7) {
		case 0, 1, 2:
			at := mark("¤eval(" + bad + ")")
			call("KIdent", at)
			noat(at)
		case 3: // indirect: the built-in's frame is entered, the text is parsed before any scope of its own
			call("KIdent", mark("¤EV("+bad+")"))
			p.nativeTop("eval")
		case 4:
			call("KDot", mark("¤OE.e("+bad+")"))
			p.nativeTop("eval")
		case 5:
			call("KDot", mark("¤eval.call(null, "+bad+")"))
			p.nativeTop("call", "eval")
		default:
			call("KDot", mark("¤["+bad+"].map(eval)"))
			p.nativeTop("map", "eval")
		}
	case 19:
		if r.Intn(2) == 0 {
			at := mark("new ¤Function(" + Pick(r, []string{"\"a\", \"return +;\"", "\"return (\"", "\"a b\", \"\"", "\"var = 1\""}) + ")")
			call("KIdent", at)
			noat(at)
		} else {
			call("KIdent", mark("¤Function("+Pick(r, []string{"\"(\", \"\"", "\"return +;\"", "\"}\""})+")"))
			p.nativeTop("Function")
		}
	case 20:
		at := mark("¤eval(" + jsQuote(Pick(r, []string{"1 = 2", "\"s\" = 2", "1.5 = O", " 7 = 1"})) + ")")
		call("KIdent", at)
		noat(at)
	case 21:
		noat(mark(Pick(r, []string{"¤1 instanceof 2", "¤O instanceof NUL", "¤O instanceof \"s\"", "¤O instanceof U", "¤NUM instanceof NUM"})))
	case 22:
		noat(mark(Pick(r, []string{"¤O instanceof O", "¤1 instanceof H", "¤O instanceof ARR"})))
	case 23:
		noat(mark(Pick(r, []string{"¤\"a\" in 1", "¤\"a\" in \"str\"", "¤1 in NUL", "¤\"k\" in U", "¤'k' in NUM"})))
	case 24:
		call("KDot", mark(Pick(r, []string{"¤JSON.stringify(CYC)", "¤JSON.stringify([CYC])", "¤JSON.stringify({a: {b: CYC}})"})))
		p.nativeTop("stringify")
	case 25:
		call("KDot", mark(Pick(r, []string{"¤JSON.parse(\"{\")", "¤JSON.parse(\"[1,\")", "¤JSON.parse(\"\")", "¤JSON.parse(\"{a:1}\")", "¤JSON.parse(\"01\")"})))
		p.nativeTop("parse")
	case 26:
		if r.Intn(2) == 0 {
			at := mark("new ¤RegExp(" + Pick(r, []string{"\"(\"", "\"[a\"", "\")\"", "\"a(b\""}) + ")")
			call("KIdent", at)
			noat(at)
		} else {
			call("KIdent", mark("¤RegExp("+Pick(r, []string{"\"(\"", "\"[a\"", "\")\""})+")"))
			p.nativeTop("RegExp")
		}
	case 38:
		arr := Pick(r, []string{"Object.freeze([1, 2, 3])", "FA", "FL", "[1, 2]", "Object.seal([1])", "ARR"})
		if r.Intn(4) == 0 {
			call("KDot", mark("¤Object.defineProperties("+arr+", {length: {value: "+p.badArg(6)+"}})"))
			p.nativeTop("defineProperties")
		} else {
			call("KDot", mark("¤Object.defineProperty("+arr+", \"length\", {value: "+p.badArg(6)+"})"))
			p.nativeTop("defineProperty")
		}
	case 37:
		at := mark("new ¤RegExp(" + Pick(r, []string{"\"\\\\\"", "\"a{2,1}\"", "\"*\"", "\"a**\""}) + ")")
		call("KIdent", at)
		noat(at)
	case 27:
		if r.Intn(2) == 0 {
			at := mark("new ¤RegExp(\"a\", " + Pick(r, []string{"\"gg\"", "\"mm\"", "\"ii\"", "\"gig\"", "\"x\"", "\"gx\"", "\"y\"", "\"G\""}) + ")")
			call("KIdent", at)
			noat(at)
		} else {
			call("KIdent", mark("¤RegExp(\"a\", "+Pick(r, []string{"\"gg\"", "\"u\"", "\"im \""})+")"))
			p.nativeTop("RegExp")
		}
	case 28:
		if r.Intn(2) == 0 {
			call("KIdent", mark(Pick(r, []string{"¤decodeURIComponent(\"%\")", "¤decodeURIComponent(\"%E0%A4%A\")", "¤decodeURIComponent(\"%zz\")"})))
			p.nativeTop("decodeURIComponent")
		} else {
			call("KIdent", mark(Pick(r, []string{"¤decodeURI(\"%\")", "¤decodeURI(\"%E0%A4%A\")"})))
			p.nativeTop("decodeURI")
		}
	case 29:
		n := Pick(r, []string{"defineProperty", "create", "keys", "getPrototypeOf"})
		arg := Pick(r, []string{"1", "\"s\"", "true"})
		if n == "defineProperty" {
			arg += ", \"x\", {}"
		}
		call("KDot", mark("¤Object."+n+"("+arg+")"))
		p.nativeTop(n)
	case 30:
		switch r.Intn(3) {
		case 0:
			call("KDot", mark("¤Function.prototype.call.call(1)"))
			p.nativeTop("call", "call")
		case 1:
			call("KDot", mark("¤Function.prototype.apply.call(NUM)"))
			p.nativeTop("call", "apply")
		default:
			call("KDot", mark("¤Function.prototype.bind.call(O)"))
			p.nativeTop("call", "bind")
		}
	case 31:
		switch r.Intn(4) {
		case 0:
			call("KDot", mark("¤Date.prototype.getTime.call({})"))
			p.nativeTop("call", "getTime")
		case 1:
			call("KDot", mark("¤Number.prototype.toString.call(\"x\")"))
			p.nativeTop("call", "toString")
		case 2:
			call("KDot", mark("¤Boolean.prototype.valueOf.call(1)"))
			p.nativeTop("call", "valueOf")
		default:
			call("KDot", mark("¤RegExp.prototype.exec.call(1)"))
			p.nativeTop("call", "exec")
		}
	case 32:
		call("KDot", mark(Pick(r, []string{"¤Object.defineProperty({}, \"x\", {get: function(){}, value: 1})", "¤Object.defineProperty({}, \"x\", {get: 1})", "¤Object.defineProperty({}, \"x\", {set: \"s\"})"})))
		p.nativeTop("defineProperty")
	case 33:
		noat(mark(Pick(r, []string{"¤BAD + \"\"", "¤BAD * 2", "¤BAD < 1"})))
	case 34:
		call("KDot", mark(Pick(r, []string{"¤Object.prototype.hasOwnProperty.call(null, \"x\")", "¤Object.prototype.hasOwnProperty.call(NUL, \"k\")"})))
		p.nativeTop("call", "hasOwnProperty")
	case 35:
		n := Pick(r, []string{"forEach", "map", "filter", "some", "every"})
		call("KDot", mark("¤[1]."+n+"("+Pick(r, []string{"1", "", "null", "O"})+")"))
		p.nativeTop(n)
	case 36:
		call("KDot", mark("¤Object.defineProperty(FROZEN, \"a\", {value: 2})"))
		p.nativeTop("defineProperty")
	default:
		cls := errNames[kind%10-1]
		msg := Pick(r, []string{"m", "boom: x", "a b c", "é!", "1"})
		if kind < 50 {
			w.w("throw ")
			at := mark("new ¤" + cls + "(" + jsQuote(msg) + ")")
			call("KIdent", at)
			noat(at)
		} else {
			w.w("throw ")
			at := mark("¤" + cls + "(" + jsQuote(msg) + ")")
			call("KIdent", at)
			p.levels = append(p.levels, &lvl{kind: fmt.Sprintf("LvNative %d", nameIDs[cls])})
			if cls == "Error" {
				p.raise = fmt.Sprintf("RPop %d %d", at.line, at.col)
			} else {
				p.raise = "RNative"
			}
		}
	}
}

var frameRe = regexp.MustCompile(`^    at (?:(\S+) \((.*)\)|(.*))$`)
var locRe = regexp.MustCompile(`^(.*):(\d+):(\d+)$`)

func parseFrames(s string) (string, []string, bool) {
	lines := strings.Split(s, "\n")
	// the header may itself contain newlines; frames are the trailing "    at " lines
	n := len(lines)
	if n == 0 || lines[n-1] != "" {
		return s, nil, false
	}
	lines = lines[:n-1]
	k := len(lines)
	for k > 0 && strings.HasPrefix(lines[k-1], "    at ") {
		k--
	}
	hdr := strings.Join(lines[:k], "\n")
	var out []string
	ok := true
	for _, l := range lines[k:] {
		m := frameRe.FindStringSubmatch(l)
		if m == nil {
			ok = false
			continue
		}
		name, loc := m[1], m[2]
		if m[1] == "" && m[2] == "" {
			name, loc = "", m[3]
		}
		var sl string
		switch {
		case loc == "<native code>":
			sl = "SNative"
		case loc == "<unknown>":
			sl = "SUnknown"
		default:
			lm := locRe.FindStringSubmatch(loc)
			if lm == nil {
				ok = false
				sl = "SUnknown"
			} else {
				sl = fmt.Sprintf("SPos %s %s %s", Cz(int64(fileNameID(lm[1]))), lm[2], lm[3])
			}
		}
		out = append(out, fmt.Sprintf("(%s, %s)", Cz(int64(nameID(name))), sl))
	}
	return hdr, out, ok
}

func pickQuirks(r *rand.Rand) (quirks, string) {
	switch k := r.Intn(20); {
	case k < 8:
		return quirks{}, "plain"
	case k < 10:
		return quirks{site: true}, "site"
	case k < 12:
		return quirks{evalStale: true}, "evalstale"
	case k < 14:
		return quirks{noAt: true}, "noat"
	case k < 15:
		return quirks{noFile: true}, "nofile"
	case k < 16:
		if r.Intn(2) == 0 {
			return quirks{implicit: true}, "implicit"
		}
		return quirks{term: true}, "term"
	case k < 17:
		return quirks{char: true}, "char"
	default:
		return quirks{site: r.Intn(2) == 0, evalStale: r.Intn(2) == 0, noAt: r.Intn(2) == 0, noFile: r.Intn(3) == 0, term: r.Intn(3) == 0, char: r.Intn(3) == 0, implicit: r.Intn(2) == 0}, "mixed"
	}
}

type runResult struct {
	errText string
	str     string
	isOtto  bool
	panicked interface{}
	restBad  bool // frames left on the runtime at rest (Context().Stacktrace longer than on a fresh runtime)
	facts   string
}

// runs the program's files on vm; catchText is what the try/catch put around the last top-level
// statement does with the exception ("" = no try/catch: the error comes back from Run)
func (p *prog) exec(vm *otto.Otto, catchText string) (otto.Value, error) {
	exec := func(f *fileBuf, src string) (otto.Value, error) {
		if f.name == "" && !p.viaScript {
			return vm.Run(src)
		}
		sc, err := vm.Compile(f.name, src)
		if err != nil {
			return otto.Value{}, err
		}
		return vm.Run(sc)
	}
	if p.lib != nil {
		if _, err := exec(p.lib, string(p.lib.b)); err != nil {
			return otto.Value{}, fmt.Errorf("lib: %w", err)
		}
	}
	src := string(p.main.b)
	if catchText != "" {
		src = src[:p.wrapStart] + "try  { " + src[p.wrapStart+7:p.wrapEnd] + " } catch (e) { " + catchText + " }" + src[p.wrapEnd:]
	}
	return exec(p.main, src)
}

func resultOf(o Outcome) runResult {
	var res runResult
	res.panicked = o.Panic
	if o.Err != nil {
		res.errText = o.Err.Error()
		if oe, ok := o.Err.(*otto.Error); ok {
			res.isOtto = true
			res.str = oe.String()
		}
	}
	return res
}

func (p *prog) run(wrapped bool, viaCopy bool) runResult {
	facts := ""
	rest := 1
	o := Guard(func() (otto.Value, error) {
		vm := otto.New()
		if p.history > 0 {
			// earlier runs on the same runtime, under another limit, ending in caught and uncaught
			// errors at various depths: nothing of them may show in the trace of the program
			vm.SetStackTraceLimit(p.history)
			_, _ = vm.Run("function w1(){ w2() } function w2(){ zz } try { w1() } catch (e) {}")
			_, _ = vm.Run("(function(){ [1].forEach(function(){ null.x }) })()")
			_, _ = vm.Run("w1()")
			_, _ = vm.Run("eval('w1()')")
			_, _ = vm.Run("var = ;")
		}
		vm.SetStackTraceLimit(p.limit)
		if _, err := vm.Run(prelude); err != nil {
			panic("prelude: " + err.Error())
		}
		if viaCopy {
			vm = vm.Copy()
		}
		setHost(vm)
		vm.SetStackDepthLimit(p.depthLimit)
		if p.depthLimit > 0 && p.history > 0 {
			overflowHistory(vm, p.r)
		}
		catchText := ""
		if wrapped {
			catchText = "__r = __facts(e)"
		}
		v, err := p.exec(vm, catchText)
		if wrapped {
			if fv, e2 := vm.Get("__r"); e2 == nil && fv.IsString() {
				facts = fv.String()
			}
		}
		rest = len(vm.Context().Stacktrace)
		return v, err
	})
	res := resultOf(o)
	res.facts = facts
	res.restBad = o.Panic == nil && rest != 1
	return res
}

// earlier Runs on a runtime with a depth limit that hit it: caught in the script, or ending the Run
func overflowHistory(vm *otto.Otto, r *rand.Rand) {
	srcs := []string{"try { rec(0) } catch (e) {}", "rec(0)", "try { rc(0) } catch (e) {}", "rc(0)", "re(0)", "try { RG.x } catch (e) {}",
		"RG.x", "ra(0)", "try { rf(0) } catch (e) {}", "new RC(0)", "rs(0)", "(function probe() { try { rec(0) } catch (e) {} })()",
		"function p2() { try { rec(0) } finally { return 1 } } p2()", "eval(\"rec(0)\")", "hostRun(\"rec(0)\")"}
	for k := 1 + r.Intn(3); k > 0; k-- {
		_, _ = vm.Run(Pick(r, srcs))
	}
}

// hand-built witnesses of the listed findings (deterministic, run first on every run)
func pinnedProgram(r *rand.Rand, k int) *prog {
	p := &prog{r: r, limit: 10}
	p.main = p.newFile(0, "")
	w := p.main
	g := &lvl{kind: "LvGlobal 0"}
	p.levels = []*lvl{g}
	mark := func(f *fileBuf, s string) pos {
		i := strings.Index(s, "¤")
		f.w(s[:i])
		at := f.here()
		f.w(s[i+len("¤"):])
		return at
	}
	wrap := func(stmt string) pos {
		p.wrapStart = len(w.b)
		w.w("/*--*/ ")
		at := mark(w, stmt)
		p.wrapEnd = len(w.b)
		w.w(";\n")
		return at
	}
	rnoat := func(at pos) string { return fmt.Sprintf("RNoAt %d %d %d", at.idx, at.line, at.col) }
	rat := func(at pos) string { return fmt.Sprintf("RAt KIdent %d %d %d", at.idx, at.line, at.col) }
	f1 := &lvl{kind: "LvFunc 1010 0"} // f1 in file 0
	switch k {
	case 1:
		p.kind = 20
		at := wrap("¤eval(\"1 = 2\")")
		g.events = append(g.events, ev("KIdent", at))
		p.raise = rnoat(at)
	case 2:
		p.kind = 12
		at := wrap("new ¤Array(-1)")
		g.events = append(g.events, ev("KIdent", at))
		p.raise = rnoat(at)
	case 3:
		p.kind = 26
		at := wrap("new ¤RegExp(\"(\")")
		g.events = append(g.events, ev("KIdent", at))
		p.raise = rnoat(at)
	case 4:
		p.kind = 23
		w.w("function f1(a, b) {\n  ")
		f1.events = append(f1.events, ev("KIdent", w.here()))
		w.w("ok(); ")
		p.raise = rnoat(mark(w, "¤\"a\" in 1;\n}\n"))
		g.events = append(g.events, ev("KIdent", wrap("¤f1()")))
		p.levels = append(p.levels, f1)
	case 5:
		p.kind = 10
		w.w("function f1(a, b) {\n  ")
		f1.events = append(f1.events, ev("KOther", w.here()))
		w.w("(function () { ")
		p.raise = rat(mark(w, "¤zz; })();\n}\n"))
		g.events = append(g.events, ev("KIdent", wrap("¤f1()")))
		p.levels = append(p.levels, f1, &lvl{kind: "LvFunc 0 0"})
	case 6:
		p.kind = 10
		ef := p.newFile(0, "")
		ef.w("1")
		w.w("function f1(a, b) {\n  ")
		f1.events = append(f1.events, ev("KIdent", w.here()), fmt.Sprintf("EvEvalEnter %d", ef.table), "EvEvalLeave")
		w.w("eval(\"1\"); ")
		f1.events = append(f1.events, ev("KIdent", w.here()))
		w.w("f2();\n}\nfunction f2(a, b) { ")
		p.raise = rat(mark(w, "¤zz; }\n"))
		g.events = append(g.events, ev("KIdent", wrap("¤f1()")))
		p.levels = append(p.levels, f1, &lvl{kind: "LvFunc 1020 0"})
	case 7:
		p.kind = 10
		ef := p.newFile(0, "")
		ef.w("(function(\n) {\n")
		p.raise = rat(mark(ef, "¤zz\n})"))
		at := wrap("¤Function(\"zz\").call(null)")
		g.events = append(g.events, ev("KIdent", at), ev("KDot", at))
		p.levels = append(p.levels, &lvl{kind: fmt.Sprintf("LvNative %d", nameIDs["call"])}, &lvl{kind: fmt.Sprintf("LvFuncNoFile 0 %d", ef.table)})
	case 13, 14, 15, 16, 17: // the routes through the Function constructor (text parsed: "(function(" + params + "\n) {\n" + body + "\n})")
		nat := func(n string) *lvl { return &lvl{kind: fmt.Sprintf("LvNative %d", nameIDs[n])} }
		ef := p.newFile(0, "")
		ef.noFile = true
		fn := &lvl{kind: fmt.Sprintf("LvFuncNoFile 0 %d", ef.table)}
		switch k {
		case 13: // parameters and a body of several lines
			p.kind = 10
			ef.w("(function(a,b\n) {\n")
			p.raise = rat(mark(ef, "\n  var t = 1;\n  ¤zz\n})"))
			at := wrap("¤Function(\"a\", \"b\", \"\\n  var t = 1;\\n  zz\").call(null)")
			g.events = append(g.events, ev("KIdent", at), ev("KDot", at))
			p.levels = append(p.levels, nat("call"), fn)
		case 14: // a direct eval inside it, raising without a position of its own
			p.kind = 21
			ef.w("(function(\n) {\n")
			fn.events = append(fn.events, ev("KIdent", ef.here()))
			ef.w("eval(\"/* pad pad pad */ 1 instanceof 2\");\n})")
			e2 := p.newFile(0, "")
			fn.events = append(fn.events, fmt.Sprintf("EvEvalEnter %d", e2.table))
			e2.w("/* pad pad pad */ ")
			a2 := e2.here()
			e2.w("1 instanceof 2")
			p.raise = rnoat(a2)
			at := wrap("¤Function(\"eval(\\\"/* pad pad pad */ 1 instanceof 2\\\");\").call(null)")
			g.events = append(g.events, ev("KIdent", at), ev("KDot", at))
			p.levels = append(p.levels, nat("call"), fn)
		case 15: // in the middle of the chain: it calls a declared function
			p.kind = 10
			w.w("function f2(a, b) { ")
			p.raise = rat(mark(w, "¤zz; }\n"))
			ef.w("(function(\n) {\nreturn ")
			fn.events = append(fn.events, ev("KIdent", ef.here()))
			ef.w("f2(1)\n})")
			at := wrap("¤Function(\"return f2(1)\").call(null)")
			g.events = append(g.events, ev("KIdent", at), ev("KDot", at))
			p.levels = append(p.levels, nat("call"), fn, &lvl{kind: "LvFunc 1020 0"})
		case 16: // made with new, kept in a variable, called by name
			p.kind = 10
			ef.w("(function(a,b\n) {\n")
			p.raise = rat(mark(ef, "¤zz\n})"))
			g.events = append(g.events, ev("KIdent", mark(w, "var F = new ¤Function(\"a\", \"b\", \"zz\");\n")))
			g.events = append(g.events, ev("KIdent", wrap("¤F(1)")))
			p.levels = append(p.levels, fn)
		default: // a callback defined inside it carries no file either
			p.kind = 10
			ef.w("(function(\n) {\n")
			fn.events = append(fn.events, ev("KDot", ef.here()))
			ef.w("[1].forEach(function cb1() { ")
			p.raise = rat(mark(ef, "¤zz })\n})"))
			at := wrap("¤Function(\"[1].forEach(function cb1() { zz })\").call(null)")
			g.events = append(g.events, ev("KIdent", at), ev("KDot", at))
			_, id := userName("cb", 1)
			p.levels = append(p.levels, nat("call"), fn, nat("forEach"), &lvl{kind: fmt.Sprintf("LvFuncNoFile %d %d", id, ef.table)})
		}
	case 18: // the receiver of a method call is a new expression: the call site is the `new` keyword
		p.kind = 10
		w.w("Object.prototype.f2 = f2;\nfunction f1(a, b) {\n   ")
		a := w.here()
		f1.events = append(f1.events, ev("KIdent", mark(w, "new ¤K().f2(1);\n}\nfunction f2(a, b) { ")), ev("KDot", a))
		f2 := &lvl{kind: "LvFunc 1020 0"}
		b := w.here()
		f2.events = append(f2.events, ev("KDot", mark(w, "new ¤NS.K()[\"f3\"](); }\nfunction f3() { ")), ev("KBracket", b))
		p.raise = rat(mark(w, "¤zz; }\nObject.prototype.f3 = f3;\n"))
		g.events = append(g.events, ev("KIdent", wrap("¤f1()")))
		p.levels = append(p.levels, f1, f2, &lvl{kind: "LvFunc 1030 0"})
	case 19: // errors on a chain that starts with new
		p.kind = 7
		w.w("function f1(a, b) {\n     ")
		at := mark(w, "¤new K().a.b;\n}\n")
		p.raise = fmt.Sprintf("RAt KDot %d %d %d", at.idx, at.line, at.col)
		g.events = append(g.events, ev("KIdent", wrap("¤f1()")))
		p.levels = append(p.levels, f1)
	case 20, 21, 22, 23: // indirect eval of malformed text: the innermost frame is the built-in, and the limit cuts real frames only
		p.kind = 18
		p.limit = 3
		w.w("function f1(a, b) {\n  ")
		nat := func(n string) *lvl { return &lvl{kind: fmt.Sprintf("LvNative %d", nameIDs[n])} }
		p.levels = append(p.levels, f1)
		switch k {
		case 20:
			f1.events = append(f1.events, ev("KIdent", mark(w, "¤EV(\"var = 1\");\n}\n")))
			p.levels = append(p.levels, nat("eval"))
		case 21:
			f1.events = append(f1.events, ev("KDot", mark(w, "¤OE.e(\"a b\");\n}\n")))
			p.levels = append(p.levels, nat("eval"))
		case 22:
			f1.events = append(f1.events, ev("KDot", mark(w, "¤eval.call(null, \"if (\");\n}\n")))
			p.levels = append(p.levels, nat("call"), nat("eval"))
		default:
			f1.events = append(f1.events, ev("KDot", mark(w, "¤[\"1 +* 2\"].map(eval);\n}\n")))
			p.levels = append(p.levels, nat("map"), nat("eval"))
		}
		p.raise = "RNative"
		g.events = append(g.events, ev("KIdent", wrap("¤f1()")))
	case 24, 25: // an invalid length stored through [[DefineOwnProperty]], length not writable
		p.kind = 38
		at := wrap(map[int]string{24: "¤Object.defineProperty(Object.freeze([1, 2, 3]), \"length\", {value: -1})", 25: "¤Object.defineProperties(FL, {length: {value: 1.5}})"}[k])
		g.events = append(g.events, ev("KDot", at))
		p.levels = append(p.levels, &lvl{kind: fmt.Sprintf("LvNative %d", nameIDs[map[int]string{24: "defineProperty", 25: "defineProperties"}[k]])})
		p.raise = "RNative"
	case 11: // this.f2(): f1 is an active call with a call site
		p.kind = 10
		w.w("function f1(a, b) {\n  return ")
		f1.events = append(f1.events, ev("KDot", w.here()))
		w.w("this.f2(1);\n}\nfunction f2(a, b) { ")
		f2 := &lvl{kind: "LvFunc 1020 0"}
		f2.events = append(f2.events, ev("KDot", mark(w, "new ¤this.f3(); }\nfunction f3() { ")))
		p.raise = rat(mark(w, "¤zz; }\n"))
		g.events = append(g.events, ev("KIdent", wrap("¤f1()")))
		p.levels = append(p.levels, f1, f2, &lvl{kind: "LvFunc 1030 0"})
	case 12: // this.nope(): the TypeError is positioned at the callee
		p.kind = 2
		w.w("function f1(a, b) {\n  ")
		at := mark(w, "¤this.nope();\n}\n")
		p.raise = fmt.Sprintf("RAt KDot %d %d %d", at.idx, at.line, at.col)
		g.events = append(g.events, ev("KIdent", wrap("¤f1()")))
		p.levels = append(p.levels, f1)
	case 10: // getter entered from f1: f1 is an active call and has to show in the trace
		p.kind = 10
		w.w("var G1 = { get x() { ")
		p.raise = rat(mark(w, "¤zz; } };\nfunction f1(a, b) {\n  return "))
		at := w.here()
		f1.events = append(f1.events, fmt.Sprintf("EvImplicit %d %d %d", at.idx, at.line, at.col))
		w.w("G1.x;\n}\n")
		g.events = append(g.events, ev("KIdent", wrap("¤f1()")))
		p.levels = append(p.levels, f1, &lvl{kind: "LvFunc 0 0"})
	case 8:
		p.kind = 10
		w.w("1;\r2; ")
		p.raise = rat(wrap("¤zz"))
	case 9:
		p.kind = 10
		w.w("/* \u00e9 */ ")
		p.raise = rat(wrap("¤zz"))
	}
	return p
}

func randomProgram(r *rand.Rand) (*prog, string) {
	q, qname := pickQuirks(r)
	p := &prog{r: r, q: q}
	if r.Intn(3) == 0 {
		id := 1 + r.Intn(len(fileNames)-1)
		p.lib = p.newFile(id, fileNames[id])
	}
	mid := 0
	if r.Intn(3) == 0 {
		mid = 1 + r.Intn(len(fileNames)-1)
		if p.lib != nil && mid == p.lib.nameID {
			mid = 0
		}
	}
	p.main = p.newFile(mid, fileNames[mid])
	// limit and depth, correlated so that the cut is exercised on both sides
	scopes := 1 + r.Intn(5)
	switch r.Intn(8) {
	case 0, 1:
		scopes = 1 + r.Intn(14)
	case 2:
		scopes = 9 + r.Intn(8) // around the default limit of 10 and beyond
	}
	switch r.Intn(8) {
	case 0:
		p.limit = 10
	case 1:
		p.limit = 0
	case 2:
		p.limit = -1 - r.Intn(3)
	case 3:
		p.limit = 1 + r.Intn(15)
	default:
		p.limit = scopes + r.Intn(5) - 2
	}
	p.kind = p.pickKind()
	if r.Intn(3) == 0 {
		p.depthLimit = 60 + r.Intn(60)
	}
	p.viaScript = r.Intn(3) == 0
	p.plan(scopes)
	for i := len(p.steps) - 1; i >= 0; i-- {
		if p.steps[i].what == "decl" {
			p.define(i)
		} else if p.steps[i].what == "implicit" {
			p.defineImplicit(i)
		}
	}
	p.levels[0].kind = fmt.Sprintf("LvGlobal %d", p.main.table)
	if r.Intn(2) == 0 {
		p.sep(p.main)
	}
	p.body(p.main, 0, 0, false, true)
	p.main.w("\n")
	return p, qname
}

func genProgram(env *Env, pinned int) {
	r := env.Rng
	var p *prog
	var qname string
	if pinned > 0 {
		p, qname = pinnedProgram(r, pinned), "pinned"
	} else {
		p, qname = randomProgram(r)
	}
	viaCopy := pinned == 0 && r.Intn(7) == 0
	if pinned == 0 && r.Intn(4) == 0 {
		p.history = 1 + r.Intn(12)
	}
	r1 := p.run(false, viaCopy)
	r2 := p.run(true, viaCopy)
	p.emit(env, qname, fmt.Sprintf("copy=%v history=%d", viaCopy, p.history), r1, r2)
}

// a history on one runtime: 2-4 programs, each ending in an error that is retained (the *otto.Error
// returned by Run on one runtime; the caught JS error object on a second one); ALL retained errors are
// inspected only after the last one was raised, and each is judged as if it were alone
func genSession(env *Env) {
	r := env.Rng
	n := 2 + r.Intn(3)
	progs := make([]*prog, n)
	sameText := r.Intn(2) == 0
	for i := range progs {
		if i > 0 && sameText && r.Intn(4) > 0 {
			// the same source texts again, compiled under other file names (or none) on the same runtime
			progs[i] = progs[r.Intn(i)].renamed(r)
			continue
		}
		progs[i], _ = randomProgram(r)
		if r.Intn(2) == 0 { // a later, shallower error is what overwrites shared state
			for len(progs[i].levels) > 3 {
				progs[i], _ = randomProgram(r)
			}
		}
	}
	kept := make([]error, n)
	panics := make([]interface{}, n)
	vm1 := otto.New()
	_ = RunJS(vm1, prelude)
	setHost(vm1)
	for i, p := range progs {
		p := p
		vm1.SetStackTraceLimit(p.limit)
		vm1.SetStackDepthLimit(p.depthLimit)
		if p.depthLimit > 0 && r.Intn(2) == 0 {
			_ = Guard(func() (otto.Value, error) { overflowHistory(vm1, r); return otto.Value{}, nil })
		}
		o := Guard(func() (otto.Value, error) { return p.exec(vm1, "") })
		kept[i], panics[i] = o.Err, o.Panic
	}
	rest1 := 1
	_ = Guard(func() (otto.Value, error) { rest1 = len(vm1.Context().Stacktrace); return otto.Value{}, nil })
	vm2 := otto.New()
	_ = RunJS(vm2, prelude+"\nvar __keep = [];")
	setHost(vm2)
	for i, p := range progs {
		p := p
		vm2.SetStackTraceLimit(p.limit)
		vm2.SetStackDepthLimit(p.depthLimit)
		if p.depthLimit > 0 && r.Intn(2) == 0 {
			_ = Guard(func() (otto.Value, error) { overflowHistory(vm2, r); return otto.Value{}, nil })
		}
		_ = Guard(func() (otto.Value, error) { return p.exec(vm2, fmt.Sprintf("__keep[%d] = e", i)) })
	}
	rest2 := 1
	_ = Guard(func() (otto.Value, error) { rest2 = len(vm2.Context().Stacktrace); return otto.Value{}, nil })
	// only now look at them
	for i, p := range progs {
		r1 := resultOf(Outcome{Err: kept[i], Panic: panics[i]})
		r1.restBad = rest1 != 1
		var r2 runResult
		r2.restBad = rest2 != 1
		if o := RunJS(vm2, fmt.Sprintf("__facts(__keep[%d])", i)); o.Err == nil && o.Panic == nil && o.Val.IsString() {
			r2.facts = o.Val.String()
		}
		p.emit(env, "session", fmt.Sprintf("session step %d of %d (inspected after the last)", i+1, n), r1, r2)
	}
}

// the same program with its lib and main files under other names (the texts are byte-identical)
func (p *prog) renamed(r *rand.Rand) *prog {
	q := *p
	q.files = make([]*fileBuf, len(p.files))
	for i, f := range p.files {
		c := *f
		q.files[i] = &c
		if f == p.lib {
			q.lib = &c
		}
		if f == p.main {
			q.main = &c
		}
	}
	other := func(old int) int {
		for {
			if id := r.Intn(len(fileNames)); id != old {
				return id
			}
		}
	}
	q.main.nameID = other(p.main.nameID)
	q.main.name = fileNames[q.main.nameID]
	if q.lib != nil && r.Intn(2) == 0 {
		q.lib.nameID = 1 + (p.lib.nameID % (len(fileNames) - 1))
		q.lib.name = fileNames[q.lib.nameID]
	}
	q.viaScript = r.Intn(2) == 0
	return &q
}

func (p *prog) emit(env *Env, qname, how string, r1, r2 runResult) {
	// ---- trace case ----
	files := make([]string, len(p.files))
	for i, f := range p.files {
		files[i] = fmt.Sprintf("(%d, %s)", f.nameID, cbytes(f.b))
	}
	levels := make([]string, len(p.levels))
	for i, l := range p.levels {
		levels[i] = fmt.Sprintf("(%s, %s)", l.kind, Clist(l.events))
	}
	hdr, frames, ok := parseFrames(r1.str)
	hdrOK := ok && r1.isOtto && r1.panicked == nil && hdr == r1.errText && !r1.restBad && !r2.restBad
	var srcs []string
	for _, f := range p.files {
		srcs = append(srcs, fmt.Sprintf("file %d %q: %q", f.table, f.name, string(f.b)))
	}
	txt := fmt.Sprintf("trace limit=%d depthlimit=%d restbad=%v/%v %s kind=%d %s -> Error()=%q String()=%q panic=%v", p.limit, p.depthLimit, r1.restBad, r2.restBad, how, p.kind,
		strings.Join(srcs, " ; "), r1.errText, r1.str, r1.panicked)
	env.Add(fmt.Sprintf("CTrace %s %s %s (%s) %s %s", Clist(files), Cz(int64(p.limit)), Clist(levels), p.raise, Cbool(hdrOK), Clist(frames)),
		txt, "trace/"+qname, len(p.levels) >= 2)

	// ---- class facts case: [class of Run's error; class by e.name; instanceof own constructor; instanceof Error;
	//      prototype and constructor; [[Class]]; message is a non-empty string; String(e) = name: message = Error(); e.stack = String()]
	obs := []int64{ErrClass(Outcome{Err: errOf(r1), Panic: r1.panicked}), 0, 0, 0, 0, 0, 0, 0, 0}
	parts := strings.Split(r2.facts, "\u0001")
	if len(parts) == 5 {
		fs := strings.Split(parts[0], ",")
		for i := 0; i < 6 && i < len(fs); i++ {
			v, _ := strconv.Atoi(fs[i])
			obs[1+i] = int64(v)
		}
		str, name, msg, stack := parts[1], parts[2], parts[3], parts[4]
		want := name + ": " + msg
		if obs[6] == 0 { // no message
			want = name
		}
		if str == want && str == r1.errText {
			obs[7] = 1
		}
		if stack == r1.str && r1.isOtto {
			obs[8] = 1
		}
	}
	env.Add(fmt.Sprintf("CFacts %d %s", p.kind, Czlist(obs)),
		fmt.Sprintf("facts %s kind=%d main=%q -> Error()=%q in-script=%q", how, p.kind, string(p.main.b), r1.errText, r2.facts), "facts", true)
}

func errOf(r runResult) error {
	if r.errText == "" && !r.isOtto {
		return nil
	}
	return fmt.Errorf("%s", r.errText)
}


// ---------------------------------------------------------------------------
// argument-dependent raises: toString(radix), toFixed/toExponential/toPrecision(digits),
// new Array(len), array.length = len over boundary values of the argument

type argFn struct {
	id     int
	lo, hi float64 // legal range of ToInteger(argument) (for arrays: of the value itself)
	open   bool    // ES5 lets an implementation extend the range above hi: not generated
	expr   string  // %s = the argument
}

var argFns = []argFn{
	{1, 2, 36, false, "(255).toString(%s)"},
	{2, 0, 20, false, "(1.5).toFixed(%s)"},
	{3, 0, 20, true, "(1.5).toExponential(%s)"},
	{4, 1, 21, true, "(1.5).toPrecision(%s)"},
	{5, 0, 4294967295, false, "new Array(%s)"},
	{6, 0, 4294967295, false, "ARR.length = %s"},
	{7, 0, 4294967295, false, "Object.defineProperty(Object.freeze([1, 2, 3]), \"length\", {value: %s})"},
}

// a finite value of the pool: legal range ends and their neighbours, fractions around them, residues of
// the legal range modulo 2^31, 2^32, 2^53, 2^63, 2^64 (a check on a wrapped or narrowed value lets these
// through), their negatives, very large and very small magnitudes
func argValue(r *rand.Rand, f argFn) float64 {
	legal := f.lo + float64(r.Intn(int(math.Min(f.hi-f.lo, 40))+1))
	if f.hi > 100 && r.Intn(2) == 0 {
		legal = f.hi - float64(r.Intn(40))
	}
	var v float64
	switch r.Intn(12) {
	case 0:
		v = Pick(r, []float64{f.lo - 1, f.lo, f.lo + 1, f.hi - 1, f.hi, f.hi + 1})
	case 1:
		v = Pick(r, []float64{f.lo - 1, f.lo, f.hi, f.hi + 1}) + Pick(r, []float64{0.5, -0.5, 0.25, 0.999, -0.001, 1e-9})
	case 2:
		v = legal
	case 3, 4: // legal residue modulo 2^32
		v = legal + Pick(r, []float64{1, 2, 3, -1, -2, 1 << 10, 1 << 20, -(1 << 20)})*4294967296
	case 5:
		v = legal + Pick(r, []float64{2147483648, -2147483648, 65536, 256, -256, -65536})
	case 6: // 2^53, 2^63, 2^64 and neighbours (even residues stay exact at 2^53)
		base := Pick(r, []float64{9007199254740992, 9223372036854775808, 18446744073709551616, 4503599627370496})
		v = base + 2*math.Floor(legal/2)
		if r.Intn(3) == 0 {
			v = math.Nextafter(base, Pick(r, []float64{0, math.Inf(1)}))
		}
	case 7:
		v = Pick(r, []float64{2147483647, 2147483648, 2147483649, 4294967295, 4294967296, 4294967297, 4294967294.5, 4294967295.5})
	case 8:
		v = Pick(r, []float64{1e21, 1e300, math.MaxFloat64, 5e-324, 1e-7, 0.1, 0.9, 1.5, 2.5})
	case 9:
		v = Pick(r, []float64{0, math.Copysign(0, -1), 1, -1, 10, 16, 21, 22, 37, 100, 255})
	default:
		v = legal + Pick(r, []float64{0, 0.5, 0.75}) + Pick(r, []float64{4294967296, 8589934592, -4294967296})
	}
	if r.Intn(4) == 0 {
		v = -v
	}
	return v
}

// harness-side oracle, used only to choose arguments (the judge is Spec.spec_throws)
func argThrows(f argFn, v float64, undef bool) (throws, decided bool) {
	if undef {
		return f.id >= 6, true
	}
	if f.id == 7 && v == math.Trunc(v) && v >= 0 && v <= 4294967295 && v != 3 {
		return false, false // a valid other length of a frozen array is the TypeError of step 3.g: not this case type
	}
	if f.id >= 5 {
		return !(v == math.Trunc(v) && v >= 0 && v <= 4294967295), true
	}
	i := math.Trunc(v)
	if math.IsNaN(v) {
		i = 0
	}
	if i < f.lo {
		return true, true
	}
	if i > f.hi {
		return true, !f.open
	}
	return false, true
}

func coqArg(v float64) string {
	switch {
	case math.IsNaN(v):
		return "ANaN"
	case math.IsInf(v, 1):
		return "(AInf false)"
	case math.IsInf(v, -1):
		return "(AInf true)"
	case v == 0:
		return "(AFin 0 0)"
	}
	frac, exp := math.Frexp(v)
	m := int64(frac * 9007199254740992) // exact: frac has at most 53 significant bits
	return fmt.Sprintf("(AFin %s %s)", Cz(m), Cz(int64(exp-53)))
}

// JS text of an argument whose ToNumber is v, and whether it is of type Number
// callFree: no call or new expression in the text (it would be a call site of the frame)
func argText(r *rand.Rand, v float64, numberOnly, callFree bool) string {
	lit := JSNum(v)
	if v == math.Trunc(v) && math.Abs(v) < 1e15 && !(v == 0 && math.Signbit(v)) {
		lit = strconv.FormatFloat(v, 'f', -1, 64)
		if v < 0 {
			lit = "(" + lit + ")"
		}
	}
	forms := []string{lit, lit, "(" + lit + " + 0)"}
	if !callFree {
		forms = append(forms, "Number(\""+strings.Trim(lit, "()")+"\")")
	}
	if v == math.Trunc(v) && math.Abs(v) >= 4294967296 && math.Abs(v) < 9007199254740992 {
		k := math.Floor(v / 4294967296)
		forms = append(forms, fmt.Sprintf("(%s * 4294967296 + %s)", strconv.FormatFloat(k, 'f', -1, 64), strconv.FormatFloat(v-k*4294967296, 'f', -1, 64)))
		if !callFree {
			forms = append(forms, fmt.Sprintf("(Math.pow(2, 32) * %s + %s)", strconv.FormatFloat(k, 'f', -1, 64), strconv.FormatFloat(v-k*4294967296, 'f', -1, 64)))
		}
	}
	if !numberOnly && !(v == 0 && math.Signbit(v)) {
		str := strings.Trim(lit, "()")
		forms = append(forms, "\""+str+"\"", "\" "+str+" \"", "({valueOf: function () { return "+lit+" }})",
			"({toString: function () { return \""+str+"\" }})", "["+lit+"]")
		if !callFree {
			forms = append(forms, "new Number("+lit+")")
		}
	}
	return Pick(r, forms)
}

func genArg(env *Env, pinned int) {
	r := env.Rng
	f := Pick(r, argFns)
	var v float64
	var arg, coq string
	for {
		undef := false
		switch k := r.Intn(24); {
		case pinned == 1:
			f, v = argFns[0], 4294967312
			arg, coq = "4294967312", coqArg(v)
		case pinned >= 2: // invalid lengths on an array whose length is not writable
			f, v = argFns[6], []float64{-1, 1.5, 4294967296}[pinned-2]
			arg, coq = JSNum(v), coqArg(v)
		case k == 0:
			undef = true
			arg, coq = Pick(r, []string{"undefined", "", "void 0"}), "AUndef"
			if f.id >= 5 && arg == "" {
				arg = "undefined"
			}
		case k == 1:
			v = math.NaN()
			arg, coq = Pick(r, []string{"NaN", "\"abc\"", "({})", "0 / 0"}), "ANaN"
			if f.id == 5 {
				arg = Pick(r, []string{"NaN", "0 / 0"})
			}
		case k == 2:
			v = math.Inf(1 - 2*r.Intn(2))
			arg, coq = JSNum(v), coqArg(v)
			if r.Intn(2) == 0 && f.id != 5 {
				arg = "\"" + strings.Trim(arg, "()") + "\""
			}
		case k == 3 && f.id != 5:
			v = float64(r.Intn(2))
			arg, coq = Pick(r, [][]string{{"false", "null", "\"\"", "[]"}, {"true", "[1]"}}[int(v)]), coqArg(v)
		default:
			v = argValue(r, f)
			arg, coq = argText(r, v, f.id == 5, false), coqArg(v)
		}
		if _, decided := argThrows(f, v, undef); decided {
			break
		}
	}
	expr := fmt.Sprintf(f.expr, arg)
	// caught: in-script facts; uncaught: what Run returns
	vm := otto.New()
	if o := RunJS(vm, prelude); o.Err != nil || o.Panic != nil {
		panic("prelude")
	}
	o1 := RunJS(vm, "__r = \"none\"; try { "+expr+" } catch (e) { __r = __facts(e) }")
	facts := "!"
	if fv, err := vm.Get("__r"); err == nil && fv.IsString() {
		facts = fv.String()
	}
	vm2 := otto.New()
	_ = RunJS(vm2, prelude)
	o2 := RunJS(vm2, expr)
	obs := []int64{0, 0, 0, 0, 0}
	switch {
	case o1.Panic != nil || o2.Panic != nil || o1.Err != nil:
		obs = []int64{9, 9, 9, 9, 9}
	case facts == "none" && o2.Err == nil:
		// nothing thrown, both ways
	case facts == "none" || o2.Err == nil:
		obs = []int64{8, 8, 8, 8, 8} // the two runs disagree
	default:
		obs[0] = 1
		obs[1] = ErrClass(o2)
		parts := strings.Split(facts, "\u0001")
		if len(parts) == 5 {
			fs := strings.Split(parts[0], ",")
			if len(fs) == 6 && fs[0] == "3" && fs[1] == "1" && fs[2] == "1" && fs[3] == "1" && fs[4] == "1" {
				obs[2] = 1
			}
			if len(fs) == 6 && fs[5] == "1" {
				obs[3] = 1
			}
			want := parts[2] + ": " + parts[3]
			if obs[3] == 0 {
				want = parts[2]
			}
			if _, ok := o2.Err.(*otto.Error); ok && parts[1] == want && o2.Err.Error() == want {
				obs[4] = 1
			}
		}
	}
	errText := ""
	if o2.Err != nil {
		errText = o2.Err.Error()
	}
	env.Add(fmt.Sprintf("CArg %d %s %s", f.id, coq, Czlist(obs)),
		fmt.Sprintf("arg %s -> Error()=%q in-script=%q", expr, errText, facts), fmt.Sprintf("arg/%d", f.id), true)
}

// an argument for which the built-in must throw, for the program kinds 12-17
func (p *prog) badArg(fid int) string {
	f := argFns[fid-1]
	for {
		v := argValue(p.r, f)
		if t, decided := argThrows(f, v, false); t && decided {
			return argText(p.r, v, fid == 5, true)
		}
	}
}


var evalScenarios = []struct {
	id   int
	expr string
}{
	{1, "new ¤NF(¤zz)"},
	{2, "new ¤NF(se(1), ¤zz)"},
	{3, "new ¤NF(se(1), se(2))"},
	{4, "new ¤zz1(se(1))"},
	{5, "new ¤NF(¤U.x)"},
	{6, "¤NF(¤zz)"},
	{7, "¤NF(se(1), se(2))"},
	{8, "¤zz1(se(1))"},
	{9, "¤O.nf(se(1), ¤zz)"},
	{10, "¤O.nf(se(1))"},
	{11, "¤U.m(se(1))"},
	{12, "¤O[se(1)](se(2))"},
	{13, "¤zz1 in ¤zz2"},
	{14, "se(1) in ¤zz2"},
	{15, "¤zz1 instanceof ¤zz2"},
	{16, "se(1) instanceof NF"},
	{17, "delete ¤zz1[se(1)]"},
	{18, "delete ¤U[se(1)]"},
	{19, "¤U[¤zz]"},
	{20, "¤U[se(1)]"},
	{21, "¤zz1 += se(1)"},
	{22, "¤U.x += se(1)"},
	{23, "¤U.x = se(1)"},
	{24, "¤zz1.x = se(1)"},
	{25, "¤O.k.z.w = se(1)"},
	{26, "¤U[se(1)] = se(2)"},
	{27, "¤NF(¤U.x, se(1))"},
	{28, "se(1) + ¤zz1 + se(2)"},
	{29, "[se(1), ¤zz1, se(2)]"},
	{30, "({a: se(1), b: ¤zz1, c: se(2)})"},
	{31, "¤U[TS]"},
	{32, "¤U[TS] = se(1)"},
	{33, "delete ¤U[TS]"},
	{34, "¤NF[TS]()"},
	{35, "se(1) in NF"},
	{36, "¤O.nf.x.y(se(1))"},
	{37, "new ¤O.nf(se(1), ¤zz)"},
	{38, "¤zz1[se(1)]"},
	{39, "¤zz1(¤zz2)"},
	{40, "¤zz1 = ¤zz2"},
	{41, "¤O.k.z[se(1)] = se(2)"},
	{42, "¤zz1 -= ¤zz2"},
	{43, "O[se(1)] += ¤zz2"},
	{44, "¤U[TT]"},
	{45, "new ¤zz1(¤zz2)"},
	{46, "¤NF(se(1), TT + 1)"},
	{47, "new ¤U.C(se(1))"},
	{48, "¤zz1.m(se(1))"},
	{49, "(se(1), ¤zz1, se(2))"},
	{50, "new ¤NF(se(1), TT + 1)"},
}

// ---------------------------------------------------------------------------
// early error against late error: which one wins, where, after which side effects

const evalPrelude = `var log = []; function se(n) { log.push(n); return n } var U; var NF = 5; var O = {k: 1, nf: 1};
var TS = {toString: function () { log.push(9); return "t" }};
var TT = {toString: function () { log.push(9); var e = new RangeError("user"); e.user = true; throw e }};
`

func genEval(env *Env, pinned int) {
	r := env.Rng
	sc := Pick(r, evalScenarios)
	if pinned > 0 {
		for _, s := range evalScenarios {
			if s.id == pinned {
				sc = s
			}
		}
	}
	w := newBuf(0, 0, "")
	inFn := r.Intn(2) == 0 && pinned == 0
	if inFn {
		w.w("function f1(a) {")
	}
	if pinned == 0 {
		for k := r.Intn(4); k > 0; k-- {
			w.w(Pick(r, []string{"\n", "  ", "/* c */ ", "1;\n", "\n   ", "var t = 2; "}))
		}
		w.w(Pick(r, []string{"", "var v = ", "if (1) ", "; "}))
	}
	var marks []pos
	e := sc.expr
	for {
		i := strings.Index(e, "¤")
		if i < 0 {
			break
		}
		w.w(e[:i])
		marks = append(marks, w.here())
		e = e[i+len("¤"):]
	}
	w.w(e + ";")
	if inFn {
		w.w("\n}\nf1();")
	}
	src := string(w.b)
	vm := otto.New()
	_ = RunJS(vm, prelude)
	_ = RunJS(vm, evalPrelude)
	o1 := RunJS(vm, src)
	lg1 := ""
	if v, err := vm.Get("log"); err == nil {
		lg1, _ = v.ToString()
	}
	// second runtime: the same under try/catch, class facts of the caught value
	vm2 := otto.New()
	_ = RunJS(vm2, prelude)
	_ = RunJS(vm2, evalPrelude)
	o2 := RunJS(vm2, "var out = 0; try { "+src+" } catch (e) { out = (e && e.user) ? 90 : __facts(e).split(\"\\u0001\")[0] } [out, log.join(\",\")].join(\"|\")")
	class, tok := int64(8), int64(0)
	switch {
	case o1.Panic != nil || o2.Panic != nil:
		class = 9
	case o1.Err == nil:
		class = 0
	default:
		text := o1.Err.Error()
		caught := ""
		if o2.Err == nil && o2.Val.IsString() {
			caught = o2.Val.String()
		}
		oe, isOtto := o1.Err.(*otto.Error)
		switch {
		case text == "RangeError: user" && caught == "90|"+lg1:
			class = 90
		case isOtto && strings.HasPrefix(text, "ReferenceError: ") && caught == "4,1,1,1,1,1|"+lg1:
			class = 4
		case isOtto && strings.HasPrefix(text, "TypeError: ") && caught == "6,1,1,1,1,1|"+lg1:
			class = 6
		}
		if isOtto && class != 90 {
			_, frames, ok := parseFrames(oe.String())
			if ok && len(frames) > 0 {
				for i, m := range marks {
					nm := "0"
					if inFn {
						nm = "1010"
					}
					if frames[0] == fmt.Sprintf("(%s, SPos 0 %d %d)", nm, m.line, m.col) {
						tok = int64(i + 1)
					}
				}
			}
		}
	}
	var lg []int64
	for _, p := range strings.Split(lg1, ",") {
		if p == "" {
			continue
		}
		v, err := strconv.Atoi(p)
		if err != nil {
			v = -1
		}
		lg = append(lg, int64(v))
	}
	errText := ""
	if oe, ok := o1.Err.(*otto.Error); ok {
		errText = oe.String()
	} else if o1.Err != nil {
		errText = o1.Err.Error()
	}
	env.Add(fmt.Sprintf("CEval %d (%d, %d, %s)", sc.id, class, tok, Czlist(lg)),
		fmt.Sprintf("evalorder #%d %q -> %q log=[%s] caught=%v", sc.id, src, errText, lg1, o2.Val), "evalorder", true)
}


// ---------------------------------------------------------------------------
// interpreter-raised errors in runtimes whose error constructors were rebound, deleted or shadowed

var shadowRaises = []struct {
	kind int
	js   string
}{
	{1, "U()"}, {2, "O.nope()"}, {5, "new U"}, {6, "new Math.max()"}, {7, "null.x"}, {7, "U.x"}, {8, "NUL[\"x\"]"}, {9, "U.x = 1"},
	{10, "zz"}, {10, "1 + zq9"}, {11, "zz()"}, {12, "new Array(-1)"}, {13, "ARR.length = 1.5"}, {14, "NUM.toString(1)"},
	{15, "NUM.toFixed(-1)"}, {17, "NUM.toPrecision(0)"}, {18, "eval(\"var x = ;\")"}, {19, "new Function(\"return +;\")"},
	{21, "1 instanceof 2"}, {22, "O instanceof O"}, {23, "\"a\" in 1"}, {24, "JSON.stringify(CYC)"}, {25, "JSON.parse(\"{\")"},
	{26, "new RegExp(\"(\")"}, {27, "new RegExp(\"a\", \"gg\")"}, {28, "decodeURIComponent(\"%\")"}, {29, "Object.keys(1)"},
	{30, "Function.prototype.call.call(1)"}, {31, "Date.prototype.getTime.call({})"}, {32, "Object.defineProperty({}, \"x\", {get: 1})"},
	{33, "BAD + \"\""}, {34, "Object.prototype.hasOwnProperty.call(null, \"x\")"}, {35, "[1].forEach(1)"},
	{36, "Object.defineProperty(FROZEN, \"a\", {value: 2})"},
}

func genShadow(env *Env, pinned int) {
	r := env.Rng
	rs := Pick(r, shadowRaises)
	names := []string{"Error", "EvalError", "RangeError", "ReferenceError", "SyntaxError", "TypeError", "URIError"}
	// 1-3 tamperings of the global bindings, run before the raise
	var tamper []string
	for k := 1 + r.Intn(3); k > 0; k-- {
		n := Pick(r, names)
		if r.Intn(2) == 0 {
			n = Pick(r, []string{"TypeError", "ReferenceError", "RangeError", "SyntaxError"})
		}
		tamper = append(tamper, Pick(r, []string{
			n + " = function Shim(m) { this.message = m };",
			n + " = 1;",
			n + " = undefined;",
			"delete this." + n + ";",
			n + " = {prototype: {name: \"Fake\"}};",
			"var " + n + " = Object;",
			n + " = function () {}; " + n + ".prototype = new Array();",
			"this[\"" + n + "\"] = Date;",
		}))
	}
	if r.Intn(4) == 0 {
		tamper = append([]string{"Error.prototype.toString = function () { return \"hacked\" };"}, tamper...)
	}
	if r.Intn(4) == 0 {
		tamper = append([]string{Pick(r, []string{"TypeError.prototype.constructor.prototype;", "Error.captureStackTrace = 1;", "Error.stackTraceLimit = 0;"})}, tamper...)
	}
	if pinned == 1 {
		rs = shadowRaises[4]
		tamper = []string{"TypeError = function Shim(m) { this.message = m };"}
	}
	// where the raise sits: global code, or under a local shadow of the names
	n1, n2 := Pick(r, names[1:]), Pick(r, names)
	shells := [][2]string{
		{"", ""},
		{"sh(); function sh() { var " + n1 + " = 5, " + n2 + "; ", " }"}, // the call comes first: same position in both variants
		{"with ({" + n1 + ": 1, " + n2 + ": function () {}}) { ", " }"},
		{"try { throw 1 } catch (" + n1 + ") { ", " }"},
		{"(function (" + n1 + ", " + n2 + ") { ", " })(1, 2);"},
	}
	sh := Pick(r, shells)
	if pinned == 1 {
		sh = shells[0]
	}
	if n1 == n2 {
		sh = shells[0]
	}
	head := strings.Join(tamper, "\n") + "\n" + sh[0]
	uncaught := head + "/*--*/ " + rs.js + ";" + sh[1]
	caught := head + "try  { " + rs.js + " } catch (e) { __r = __facts(e) }" + sh[1]
	run := func(src string) (Outcome, string) {
		vm := otto.New()
		_ = RunJS(vm, prelude)
		o := RunJS(vm, src)
		facts := ""
		if fv, err := vm.Get("__r"); err == nil && fv.IsString() {
			facts = fv.String()
		}
		return o, facts
	}
	o1, _ := run(uncaught)
	o2, facts := run(caught)
	r1 := resultOf(o1)
	obs := []int64{ErrClass(o1), 0, 0, 0, 0, 0, 0, 0, 0}
	if o2.Err != nil || o2.Panic != nil {
		obs[1] = 9
	}
	parts := strings.Split(facts, "\u0001")
	if len(parts) == 5 && obs[1] == 0 {
		fs := strings.Split(parts[0], ",")
		for i := 0; i < 6 && i < len(fs); i++ {
			v, _ := strconv.Atoi(fs[i])
			obs[1+i] = int64(v)
		}
		want := parts[2] + ": " + parts[3]
		if obs[6] == 0 {
			want = parts[2]
		}
		if parts[1] == want && parts[1] == r1.errText {
			obs[7] = 1
		}
		if parts[4] == r1.str && r1.isOtto {
			obs[8] = 1
		}
	}
	env.Add(fmt.Sprintf("CFacts %d %s", rs.kind, Czlist(obs)),
		fmt.Sprintf("shadow kind=%d %q -> Error()=%q in-script=%q", rs.kind, caught, r1.errText, facts), "facts/shadow", true)
}

// ---------------------------------------------------------------------------
// in / instanceof with operands whose conversion methods log and throw

func genOrder(env *Env, pinned int) {
	r := env.Rng
	op := r.Intn(2)
	l := r.Intn(5)
	rk := r.Intn(4)
	if pinned == 1 {
		op, l, rk = 0, 2, 0
	}
	setup := `var log = []; function mk() { var e = new RangeError("user"); e.user = true; return e }
function F() {} F.toString = function () { log.push(3); throw mk() }; F.valueOf = function () { log.push(4); throw mk() };
function G() {} G.toString = F.toString; G.valueOf = F.valueOf; G.prototype = ` + Pick(r, []string{"5", "null", "undefined", "\"s\"", "true"}) + `;
var RO = {k: 1, "1": 1, "true": 1, "null": 1, "undefined": 1, "1.5": 1, toString: F.toString, valueOf: F.valueOf};
var L = Object.create(F.prototype);
`
	lnames := []string{"LPrim", "LStr", "LThrow", "LVal", "LValThrow"}
	left := "L"
	switch l {
	case 0:
		left = Pick(r, []string{"\"k\"", "1", "true", "null", "undefined", "1.5"})
	case 1:
		setup += `L.toString = function () { log.push(1); return "k" }; L.valueOf = function () { log.push(2); throw mk() };`
	case 2:
		setup += `L.toString = function () { log.push(1); throw mk() }; L.valueOf = function () { log.push(2); return "k" };`
	case 3:
		setup += `L.toString = function () { log.push(1); return {} }; L.valueOf = function () { log.push(2); return "k" };`
	default:
		setup += `L.toString = function () { log.push(1); return [] }; L.valueOf = function () { log.push(2); throw mk() };`
	}
	rnames := []string{"RPrim", "RObj", "RFun", "RFunBadProto"}
	right := []string{Pick(r, []string{"1", "\"str\"", "null", "undefined", "true", "0", "NaN", "\"\""}), "RO", "F", "G"}[rk]
	if pinned == 1 {
		right = "1"
	}
	expr := left + []string{" in ", " instanceof "}[op] + right
	if r.Intn(3) == 0 {
		expr = "(function () { return " + expr + " })()"
	}
	vm := otto.New()
	_ = RunJS(vm, prelude)
	o1 := RunJS(vm, setup+"\nvar out; try { out = ("+expr+") ? 1 : 0 } catch (e) { out = (e && e.user) ? 90 : (__facts(e).split(\"\\u0001\")[0] === \"6,1,1,1,1,1\" ? 6 : 8) } [out, log.join(\"\")].join(\"|\")")
	vm2 := otto.New()
	_ = RunJS(vm2, prelude)
	o2 := RunJS(vm2, setup+"\n"+expr)
	out, logs := int64(8), "?"
	if o1.Err == nil && o1.Panic == nil && o1.Val.IsString() {
		parts := strings.SplitN(o1.Val.String(), "|", 2)
		if v, err := strconv.Atoi(parts[0]); err == nil && len(parts) == 2 {
			out, logs = int64(v), parts[1]
		}
	}
	// the uncaught run must tell the same story
	switch {
	case o2.Panic != nil:
		out = 9
	case out == 0 || out == 1:
		if o2.Err != nil {
			out = 8
		}
	case out == 6:
		if _, ok := o2.Err.(*otto.Error); !ok || !strings.HasPrefix(o2.Err.Error(), "TypeError: ") {
			out = 8
		}
	case out == 90:
		if o2.Err == nil || o2.Err.Error() != "RangeError: user" {
			out = 8
		}
	}
	var lg []int64
	for _, c := range logs {
		if c < '0' || c > '9' {
			lg = append(lg, -1)
		} else {
			lg = append(lg, int64(c-'0'))
		}
	}
	errText := ""
	if o2.Err != nil {
		errText = o2.Err.Error()
	}
	env.Add(fmt.Sprintf("COrder %d %s %s (%d, %s)", op, lnames[l], rnames[rk], out, Czlist(lg)),
		fmt.Sprintf("order %s   [%s] -> outcome %d conversions %q uncaught=%q", expr, strings.ReplaceAll(setup, "\n", " "), out, logs, errText), "order", true)
}

// ---------------------------------------------------------------------------
// file.Position on arbitrary texts

func randText(r *rand.Rand, special bool) string {
	var sb strings.Builder
	for n := r.Intn(12); n >= 0; n-- {
		for k := r.Intn(9); k > 0; k-- {
			if special && r.Intn(6) == 0 {
				sb.WriteString(Pick(r, []string{"é", "€", "日", "ß", "\u2028x"}))
			} else {
				sb.WriteByte(byte('a' + r.Intn(26)))
			}
		}
		if n > 0 {
			if special && r.Intn(3) == 0 {
				sb.WriteString(Pick(r, []string{"\r", "\r\n", "\u2028", "\u2029", "\n\r"}))
			} else if r.Intn(5) == 0 {
				sb.WriteString("\r\n")
			} else {
				sb.WriteString("\n")
			}
		}
	}
	return sb.String()
}

// an offset that is a character boundary (so that the ES5 reading is defined) or outside the text
func randOffset(r *rand.Rand, s string) int {
	switch r.Intn(10) {
	case 0:
		return Pick(r, []int{-1, -2, len(s), len(s) + 1, len(s) + 7})
	case 1:
		return 0
	case 2:
		return len(s) - 1
	case 3, 4: // at or right after a line feed
		var c []int
		for i := 0; i < len(s); i++ {
			if s[i] == '\n' {
				c = append(c, i, i+1)
			}
		}
		if len(c) > 0 {
			return Pick(r, c)
		}
	}
	if len(s) == 0 {
		return 0
	}
	return r.Intn(len(s))
}

func isBoundary(s string, off int) bool {
	if off <= 0 || off >= len(s) {
		return true
	}
	if s[off]&0xC0 == 0x80 {
		return false
	}
	// not between CR and LF
	return !(s[off] == '\n' && s[off-1] == '\r')
}

func genPos(env *Env, pinned int) {
	r := env.Rng
	special := r.Intn(4) == 0
	s := randText(r, special)
	off := randOffset(r, s)
	switch pinned {
	case 1:
		s, off = "a\r\rzz", 3
	case 2:
		s, off = "\"é\"; zz", 6
	}
	for !isBoundary(s, off) {
		off++
	}
	base := 1
	if r.Intn(3) == 0 {
		base = r.Intn(50)
	}
	var obs string
	var ptxt string
	func() {
		defer func() {
			if rec := recover(); rec != nil {
				obs, ptxt = "(Some (-9, -9))", fmt.Sprintf("panic %v", rec)
			}
		}()
		ps := file.NewFile("t.js", s, base).Position(file.Idx(base + off))
		if ps == nil {
			obs, ptxt = "None", "nil"
		} else {
			obs, ptxt = fmt.Sprintf("(Some (%d, %d))", ps.Line, ps.Column), fmt.Sprintf("%d:%d offset=%d", ps.Line, ps.Column, ps.Offset)
			if ps.Offset != off || ps.Filename != "t.js" {
				obs = "(Some (-8, -8))"
			}
		}
	}()
	bucket := "pos/lf"
	if special {
		bucket = "pos/special"
	}
	env.Add(fmt.Sprintf("CPos %s %s %s", cbytes([]byte(s)), Cz(int64(off)), obs),
		fmt.Sprintf("pos file.NewFile(%q, base %d).Position(base+%d) -> %s", s, base, off, ptxt), bucket, strings.Contains(s, "\n"))
}

// ---------------------------------------------------------------------------
// parser positions of an offending token

var badStmts = []string{"x = ¤;", "a ¤b", "y = ¤@;", "f(¤,)", "1 +¤* 2", "var ¤if", "{ a: ¤}", "if (x ¤{", "¤}",
	"for (var i in 1 ¤2)", "¤1 = 2", "x = ¤\"abc", "x = 1 ¤2", "x = 1 ¤\"s\"", "x = [1 ¤2]", "x = (1 + 2¤",
	"¤return 1", "¤break", "¤continue", "do x++; while ¤x", "x = 1 ¤true", "switch (x) { ¤x }", "¤)", "x =¤> 1"}

func genSyntax(env *Env, pinned int) {
	r := env.Rng
	special := r.Intn(3) == 0
	var sb strings.Builder
	for n := r.Intn(6); n > 0; n-- {
		sb.WriteString(Pick(r, []string{"var a = 1;", "x = y + 2;", "function f(a){ return a }", "/* c */", "if (x) { y() }", "// line\n", "s = \"str\";", ";"}))
		if special && r.Intn(2) == 0 {
			sb.WriteString(Pick(r, []string{"\r", "\r\n", "\u2028", "\u2029", " /* é€ */ ", "t = \"日本\";"}))
		} else {
			sb.WriteString(Pick(r, []string{"\n", "\n", " ", "\n   ", "\r\n", "\n\n"}))
		}
	}
	bad := Pick(r, badStmts)
	if pinned == 1 {
		sb.Reset()
		sb.WriteString("/* é */ ")
		bad = "x = ¤;"
	}
	i := strings.Index(bad, "¤")
	sb.WriteString(bad[:i])
	off := sb.Len()
	sb.WriteString(bad[i+len("¤"):])
	atEnd := strings.HasSuffix(bad, "¤") // the offending token is the end of input
	if !atEnd && !strings.Contains(bad, "\"abc") && r.Intn(2) == 0 {
		sb.WriteString(Pick(r, []string{"\n", "\nvar z = 1;\n", " "}))
	}
	src := sb.String()
	if atEnd {
		off = len(src)
	}
	how := r.Intn(3)
	var err error
	o := Guard(func() (otto.Value, error) {
		switch how {
		case 0:
			_, err = otto.New().Run(src)
		case 1:
			_, err = parser.ParseFile(nil, "p.js", src, 0)
		default:
			_, err = otto.New().Compile("c.js", src)
		}
		return otto.Value{}, err
	})
	obs, otxt := "None", "no error"
	if o.Panic != nil {
		obs, otxt = "(Some (-9, -9))", fmt.Sprintf("panic %v", o.Panic)
	} else if el, ok := err.(*parser.ErrorList); ok && len(*el) > 0 {
		e0 := (*el)[0]
		obs, otxt = fmt.Sprintf("(Some (%d, %d))", e0.Position.Line, e0.Position.Column), el.Error()
		want := "(anonymous)"
		if how == 1 {
			want = "p.js"
		} else if how == 2 {
			want = "c.js"
		}
		if !strings.HasPrefix(el.Error(), fmt.Sprintf("%s: Line %d:%d ", want, e0.Position.Line, e0.Position.Column)) {
			obs = "(Some (-8, -8))"
		}
	} else if err != nil {
		otxt = "other error " + err.Error()
	}
	env.Add(fmt.Sprintf("CSyntax %s %d %s", cbytes([]byte(src)), off, obs),
		fmt.Sprintf("syntax how=%d %q offending token at offset %d -> %s", how, src, off, otxt), "syntax", strings.ContainsAny(src, "\n\r"))
}

// ---------------------------------------------------------------------------
// text of uncaught values

func genText(env *Env, pinned int) {
	r := env.Rng
	strs := []string{"", "m", "boom", "a: b", "é€", "x y z", "Error", " ", "0"}
	var src strings.Builder
	var coq string
	src.WriteString("var __s; ")
	if pinned == 1 {
		src.WriteString("var e = new TypeError(\"x\"); e.message = \"y\"; ")
		coq = fmt.Sprintf("ThError %s %s (Some %s) (Some %s)", Cstr("TypeError"), Cstr("x"), Cstr("TypeError"), Cstr("y"))
	} else if pinned >= 2 || r.Intn(3) == 0 {
		// user error types: the thrown object is not an error itself, an Error object sits on its prototype chain
		type dv struct{ setup, pname, pmsg, name, msg string }
		forms := []dv{
			{"function V(m) { this.message = m } V.prototype = new Error(); V.prototype.name = \"ValidationError\"; var e = new V(\"field 'age' is required\");", "Error", "", "ValidationError", "field 'age' is required"},
			{"function V(m) {} V.prototype = new Error(\"proto msg\"); var e = new V();", "Error", "proto msg", "Error", "proto msg"},
			{"function V(m) { this.message = m } V.prototype = new TypeError(\"tm\"); V.prototype.name = \"MyType\"; var e = new V(\"im\");", "TypeError", "tm", "MyType", "im"},
			{"function A() {} A.prototype = new Error(\"a\"); function B(m) { this.message = m } B.prototype = new A(); B.prototype.name = \"B\"; var e = new B(\"b\");", "Error", "a", "B", "b"},
			{"var e = Object.create(new RangeError(\"r\")); e.name = \"Own\";", "RangeError", "r", "Own", "r"},
			{"function V(m) { this.message = m } V.prototype = new Error(\"pm\"); V.prototype.name = \"N\"; var e = new V(\"\");", "Error", "pm", "N", ""},
			{"function V(m) { this.message = m; this.name = \"\" } V.prototype = new SyntaxError(\"pm\"); var e = new V(\"only message\");", "SyntaxError", "pm", "", "only message"},
			{"function V() {} V.prototype = new URIError(\"u\"); var e = new V();", "URIError", "u", "URIError", "u"},
			{"function V(m) { this.message = m } V.prototype = Object.create(new EvalError(\"deep\")); V.prototype.name = \"Deep\"; var e = new V(\"d\");", "EvalError", "deep", "Deep", "d"},
			{"var P; try { null.x } catch (x) { P = x } function V(m) { this.message = m } V.prototype = P; var e = new V(\"over caught\");", "TypeError", "?", "TypeError", "over caught"},
		}
		f := forms[r.Intn(len(forms))]
		if pinned >= 2 {
			f = forms[(pinned-2)%len(forms)]
		}
		src.WriteString(f.setup + " ")
		coq = fmt.Sprintf("ThDerived %s %s (Some %s) (Some %s)", Cstr(f.pname), Cstr(f.pmsg), Cstr(f.name), Cstr(f.msg))
	} else if r.Intn(4) > 0 {
		cls := Pick(r, errNames)
		m := Pick(r, strs)
		curName, curMsg := "(Some "+Cstr(cls)+")", "(Some "+Cstr(m)+")"
		switch r.Intn(4) {
		case 0:
			src.WriteString("var e = new " + cls + "(" + jsQuote(m) + "); ")
		case 1:
			src.WriteString("var e = " + cls + "(" + jsQuote(m) + "); ")
		case 2:
			m = ""
			curMsg = "(Some [])"
			src.WriteString("var e = new " + cls + "(); ")
		default:
			src.WriteString("var e; try { throw new " + cls + "(" + jsQuote(m) + ") } catch (x) { e = x } ")
		}
		nmut := r.Intn(4)
		if r.Intn(2) == 0 {
			nmut = 0
		}
		for k := 0; k < nmut; k++ {
			v := Pick(r, strs)
			switch r.Intn(5) {
			case 0, 1:
				src.WriteString("e.message = " + jsQuote(v) + "; ")
				curMsg = "(Some " + Cstr(v) + ")"
			case 2:
				src.WriteString("e.name = " + jsQuote(v) + "; ")
				curName = "(Some " + Cstr(v) + ")"
			case 3:
				src.WriteString("delete e.message; ")
				curMsg = "(Some [])"
			default:
				src.WriteString("e.name = undefined; ")
				curName = "None"
			}
		}
		coq = fmt.Sprintf("ThError %s %s %s %s", Cstr(cls), Cstr(m), curName, curMsg)
	} else {
		vals := [][2]string{{"5", "5"}, {"\"str\"", "str"}, {"null", "null"}, {"undefined", "undefined"}, {"true", "true"}, {"-12", "-12"},
			{"({toString: function(){ return \"custom\" }})", "custom"}, {"({})", "[object Object]"}, {"[1, 2]", "1,2"}, {"\"é\"", "é"},
			{"({name: \"N\", message: \"M\"})", "[object Object]"}}
		v := Pick(r, vals)
		src.WriteString("var e = " + v[0] + "; ")
		coq = "ThOther " + Cstr(v[1])
	}
	src.WriteString("__s = String(e); ")
	if r.Intn(2) == 0 || pinned > 0 {
		src.WriteString("throw e;")
	} else {
		src.WriteString("(function f(){ throw e })();")
	}
	vm := otto.New()
	o := RunJS(vm, src.String())
	goText, jsText := "!none", "!none"
	if o.Panic != nil {
		goText = fmt.Sprintf("!panic %v", o.Panic)
	} else if o.Err != nil {
		goText = o.Err.Error()
	}
	if v, err := vm.Get("__s"); err == nil && v.IsString() {
		jsText = v.String()
	}
	env.Add(fmt.Sprintf("CText (%s) %s %s", coq, Cstr(goText), Cstr(jsText)),
		fmt.Sprintf("text %s -> Error()=%q String(e)=%q", src.String(), goText, jsText), "text", true)
}

// ---------------------------------------------------------------------------
// file.FileSet.Position

func genFileSet(env *Env, pinned int) {
	r := env.Rng
	n := 1 + r.Intn(3)
	if pinned == 1 {
		n = 1
	}
	var texts []string
	fs := &file.FileSet{}
	total := 1
	for i := 0; i < n; i++ {
		s := strings.ReplaceAll(randText(r, false), "\r", "") // no offsets inside a CR LF pair
		if len(s) > 30 {
			s = s[:30]
		}
		if pinned == 1 {
			s = "ab"
		}
		texts = append(texts, s)
		fs.AddFile(fmt.Sprintf("f%d.js", i), s)
		total += len(s) + 1
	}
	idx := r.Intn(total+4) - 1
	if pinned == 1 {
		idx = 1
	}
	obs, otxt := "None", "nil"
	func() {
		defer func() {
			if rec := recover(); rec != nil {
				obs, otxt = "(Some (-9, -9, -9))", fmt.Sprintf("panic %v", rec)
			}
		}()
		if ps := fs.Position(file.Idx(idx)); ps != nil {
			k := -1
			fmt.Sscanf(ps.Filename, "f%d.js", &k)
			obs, otxt = fmt.Sprintf("(Some (%d, %d, %d))", k, ps.Line, ps.Column), ps.String()
		}
	}()
	cs := make([]string, len(texts))
	for i, s := range texts {
		cs[i] = cbytes([]byte(s))
	}
	env.Add(fmt.Sprintf("CFileSet %s %s %s", Clist(cs), Cz(int64(idx)), obs),
		fmt.Sprintf("fileset %q Position(%d) -> %s", texts, idx, otxt), "fileset", true)
}

func runC19(env *Env) {
	env.Import = "Otto.C19.Corr"
	env.Rule = "programs: an error-raising construct of one of 51 kinds placed by a position-tracking generator inside 0-14 nested frames (declared/anonymous/named function expressions, methods, functions reached as this.f() / new this.f() / this[f](), constructors, call/apply/bind, callbacks of 11 built-ins, IIFEs, direct and indirect eval, Function()), 0-3 earlier statements per frame (calls of every callee form, completed evals, caught errors), up to two named files plus eval texts, trace limits -3..15 correlated with the depth, optionally through Otto.Copy; plus the argument-dependent raises (toString radix, toFixed/toExponential/toPrecision digits, new Array(len), length = len) over boundary arguments (range ends, fractions, residues of the legal range modulo 2^31/2^32/2^53/2^63/2^64, negatives, NaN, infinities, numeric strings, objects with valueOf/toString) in both directions; `in`/`instanceof` with operands whose conversion methods log and throw (5 left x 4 right operand kinds, both operators: outcome, class facts and the conversion log); frames entered implicitly (getter/setter of object literals and defineProperty, valueOf/toString of converting operators) in any position of the chain; interpreter-raised errors of 34 forms caught in runtimes whose global error constructors were rebound, deleted or shadowed (local var, with-object, catch variable, parameters) and whose Error.prototype.toString was replaced, judged against the built-ins saved beforehand; 50 scenarios in which both an early and a late error are possible (new, call, member call, in, instanceof, delete, subscripts, assignment, compound assignment, literals: which error wins by class and position, and the log of side effects); earlier statements of every frame include direct evals left normally and by throws caught in the same activation (also through finally), indirect eval, Function(), callbacks, getters/setters and host functions that re-enter Run/Eval/Call; uncaught instances of user error types (Sub.prototype = new Error() and eight sibling ways of putting an error object on the prototype chain, pinned on every run); runtimes with a stack depth limit on which overflows (plain recursion, through forEach/sort callbacks, eval, a getter, argument evaluation, a finally block, a constructor, call) were raised and caught in the same activation, in earlier statements, or ended earlier Runs, the frames left at rest counted through Context(); sessions of 2-4 programs on one runtime (also the same texts under other file names, through Run, Compile and Script objects) whose retained errors (Go *otto.Error and caught JS error objects) are all inspected only after the last one was raised; file.Position on random texts/offsets, parser positions of an offending token, uncaught text after name/message mutations, FileSet.Position; non-trivial = distinct case with at least one call frame (traces) or a line break (positions); all text/fileset/facts cases"
	pins := []func(){}
	for k := 1; k <= 9; k++ {
		k := k
		pins = append(pins, func() { genProgram(env, k) })
	}
	for k := 2; k <= 11; k++ {
		k := k
		pins = append(pins, func() { genText(env, k) })
	}
	for k := 13; k <= 25; k++ {
		k := k
		pins = append(pins, func() { genProgram(env, k) })
	}
	pins = append(pins, func() { genArg(env, 2) }, func() { genArg(env, 3) }, func() { genArg(env, 4) })
	pins = append(pins, func() { genProgram(env, 11) }, func() { genProgram(env, 12) }, func() { genShadow(env, 1) }, func() { genProgram(env, 10) }, func() { genEval(env, 4) }, func() { genEval(env, 44) }, func() { genOrder(env, 1) }, func() { genArg(env, 1) }, func() { genPos(env, 1) }, func() { genPos(env, 2) }, func() { genSyntax(env, 1) },
		func() { genText(env, 1) }, func() { genFileSet(env, 1) })
	for _, f := range pins {
		f()
	}
	r := env.Rng
	for env.Count() < env.N {
		switch k := r.Intn(34); {
		case k >= 31:
			genShadow(env, 0)
		case k >= 28:
			genEval(env, 0)
		case k < 9:
			genProgram(env, 0)
		case k >= 26:
			genOrder(env, 0)
		case k >= 24:
			genSession(env)
		case k < 14:
			genPos(env, 0)
		case k < 17:
			genSyntax(env, 0)
		case k < 19:
			genText(env, 0)
		case k < 20:
			genFileSet(env, 0)
		default:
			genArg(env, 0)
		}
	}
}
