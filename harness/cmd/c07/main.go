// c07: correspondence cases for property C07 (the ES5 property model).
//
// A case is a history of object-model operations over three variables
// (V[0..2]) and four property names (a b c d).  Every operation is run as its
// own script on one fresh interpreter, followed by a snapshot script that
// reads every observable the property statement lists.  The history and the
// observations are written as one Coq term `CHist ops obs`.
package main

import (
	"fmt"
	"regexp"
	"strings"

	"github.com/robertkrimen/otto"
	. "ottoh/lib"
)

func main() {
	env := FromFlags("c07")
	runC07(env)
	env.Finish()
}

const prelude = `
var N = ["a","b","c","d"];
var LOG = [];
var A = [Object.prototype, {}, {}, {}];
var V = [A[1], A[2], A[3], A[0]];
var BUILTIN = Object.getOwnPropertyNames(Object.prototype);
var HOP = Object.prototype.hasOwnProperty, PIE = Object.prototype.propertyIsEnumerable;
function enc(v) {
  if (v === undefined) return 0;
  if (v === null) return 1;
  if (v === false) return 2;
  if (v === true) return 3;
  if (typeof v === "number") {
    if (v !== v) return 4;
    if (v === 0 && 1 / v < 0) return 5;
    return 16 * (v >= 0 ? 2 * v : -2 * v - 1) + 8;
  }
  if (typeof v === "string") return 16 * Number(v.substring(1)) + 9;
  if (typeof v === "function") { var k = F.indexOf(v); return k < 0 ? 11 : 16 * k + 10; }
  return 12;
}
function mkF(k) {
  return function (v) {
    if (arguments.length > 0) { LOG.push(k + 1, A.indexOf(this), enc(v)); return; }
    return 1000 + 100 * k + A.indexOf(this);
  };
}
var F = [mkF(0), mkF(1), mkF(2), mkF(3)];
function fid(f) { if (f === undefined) return 0; var k = F.indexOf(f); return k < 0 ? 99 : k + 1; }
function pack(l) {
  var s = "";
  for (var i = 0; i < l.length; i++) {
    var k = N.indexOf(l[i]);
    if (k < 0 && BUILTIN.indexOf(l[i]) >= 0) continue; // the built-in members of Object.prototype are not modelled
    s += (k < 0 ? "9" : String(k + 1));
  }
  return s === "" ? "0" : s;
}
function B(x) { return x === true ? 1 : 0; }
function SNAP() {
  var out = [];
  for (var i = 0; i < 4; i++) {
    var o = V[i];
    for (var n = 0; n < 4; n++) {
      var nm = N[n];
      var d = Object.getOwnPropertyDescriptor(o, nm);
      if (d === undefined) out.push(0, 0, 0, 0, 0);
      else {
        var hv = HOP.call(d, "value"), hw = HOP.call(d, "writable"), hg = HOP.call(d, "get"), hs = HOP.call(d, "set");
        var he = HOP.call(d, "enumerable"), hc = HOP.call(d, "configurable");
        var ec = 2 * B(d.enumerable) + 4 * B(d.configurable);
        var boolsOk = typeof d.enumerable === "boolean" && typeof d.configurable === "boolean";
        if (hv && hw && !hg && !hs && he && hc && boolsOk && typeof d.writable === "boolean") out.push(1, enc(d.value), B(d.writable) + ec, 0, 0);
        else if (!hv && !hw && hg && hs && he && hc && boolsOk) out.push(2, 0, ec, fid(d.get), fid(d.set));
        else if (!hv && !hw && !hg && !hs && he && hc && boolsOk) out.push(3, 0, ec, 0, 0);
        else out.push(40 + (hv?1:0) + (hw?2:0) + (hg?4:0) + (hs?8:0), 0, 0, 0, 0);
      }
      out.push(((nm in o) ? 1 : 0) + 2 * B(HOP.call(o, nm)) + 4 * B(PIE.call(o, nm)));
      out.push(enc(o[nm]));
    }
    out.push(B(Object.isExtensible(o)) + 2 * B(Object.isSealed(o)) + 4 * B(Object.isFrozen(o)));
    out.push(pack(Object.keys(o)));
    out.push(pack(Object.getOwnPropertyNames(o)));
    var ks = [];
    for (var k in o) ks.push(k);
    out.push(pack(ks));
  }
  return out.join(",");
}
`

var names = []string{"a", "b", "c", "d"}

// ---- values ----

type val struct {
	kind int // 0 undefined 1 null 2 false 3 true 4 num 5 NaN 6 -0 7 str 8 fun
	z    int
}

func (v val) js() string {
	switch v.kind {
	case 0:
		return "undefined"
	case 1:
		return "null"
	case 2:
		return "false"
	case 3:
		return "true"
	case 4:
		if v.z < 0 {
			return fmt.Sprintf("(%d)", v.z)
		}
		return fmt.Sprintf("%d", v.z)
	case 5:
		return "NaN"
	case 6:
		return "(-0)"
	case 7:
		return fmt.Sprintf("\"s%d\"", v.z)
	default:
		return fmt.Sprintf("F[%d]", v.z)
	}
}

func (v val) coq() string {
	switch v.kind {
	case 0:
		return "VUndef"
	case 1:
		return "VNull"
	case 2:
		return "(VBool false)"
	case 3:
		return "(VBool true)"
	case 4:
		return "(VNum " + Cz(int64(v.z)) + ")"
	case 5:
		return "VNaN"
	case 6:
		return "VNegZero"
	case 7:
		return fmt.Sprintf("(VStr %d)", v.z)
	default:
		return fmt.Sprintf("(VFun %d)", v.z)
	}
}

// ---- descriptors ----

// tri: 0 absent, 1 true, 2 false.  gs: 0 absent, 1 undefined, 2 bad, 3+k function F[k]
type desc struct {
	hasValue bool
	value    val
	w, e, c  int
	get, set int
	// how the script spells it (no effect on the ES5 meaning)
	truthy  int  // spelling of booleans
	inherit bool // fields e/c live on the descriptor object's prototype
	notObj  bool // the descriptor argument is not an object at all (8.10.5 step 1: TypeError)
}

var notObjSpell = []string{"5", "undefined", "null", "\"get\"", "true", "NaN", "0"}

var trueSpell = []string{"true", "1", "\"x\"", "{}", "[]", "-1", "F[0]"}
var falseSpell = []string{"false", "0", "\"\"", "null", "undefined", "NaN", "(-0)"}

func (d desc) boolJS(t int) string {
	if t == 1 {
		return trueSpell[d.truthy%len(trueSpell)]
	}
	return falseSpell[d.truthy%len(falseSpell)]
}

var badSpell = []string{"5", "\"f\"", "{}", "null", "true", "[]"}

func (d desc) gsJS(g int) string {
	switch {
	case g == 1:
		return "undefined"
	case g == 2:
		return badSpell[d.truthy%len(badSpell)]
	default:
		return fmt.Sprintf("F[%d]", g-3)
	}
}

func (d desc) js() string {
	if d.notObj {
		return notObjSpell[d.truthy%len(notObjSpell)]
	}
	var own, inh []string
	if d.hasValue {
		own = append(own, "value: "+d.value.js())
	}
	if d.w != 0 {
		own = append(own, "writable: "+d.boolJS(d.w))
	}
	if d.get != 0 {
		own = append(own, "get: "+d.gsJS(d.get))
	}
	if d.set != 0 {
		own = append(own, "set: "+d.gsJS(d.set))
	}
	tgt := &own
	if d.inherit {
		tgt = &inh
	}
	if d.e != 0 {
		*tgt = append(*tgt, "enumerable: "+d.boolJS(d.e))
	}
	if d.c != 0 {
		*tgt = append(*tgt, "configurable: "+d.boolJS(d.c))
	}
	if d.inherit {
		// ToPropertyDescriptor uses [[HasProperty]]/[[Get]]: inherited fields count
		props := make([]string, len(own))
		for i, f := range own {
			kv := strings.SplitN(f, ": ", 2)
			props[i] = fmt.Sprintf("%s: {value: %s, enumerable: %s}", kv[0], kv[1], Cbool(d.truthy%2 == 0))
		}
		return "Object.create({" + strings.Join(inh, ", ") + "}, {" + strings.Join(props, ", ") + "})"
	}
	return "{" + strings.Join(own, ", ") + "}"
}

func triCoq(t int) string {
	switch t {
	case 1:
		return "(Some true)"
	case 2:
		return "(Some false)"
	}
	return "None"
}

func gsCoq(g int) string {
	switch g {
	case 0:
		return "GAbsent"
	case 1:
		return "GUndef"
	case 2:
		return "GBad"
	}
	return fmt.Sprintf("(GFn %d)", g-3)
}

func (d desc) coq() string {
	if d.notObj {
		return "(mkR None None GBad GAbsent None None)" // any descriptor that makes ToPropertyDescriptor throw
	}
	v := "None"
	if d.hasValue {
		v = "(Some " + d.value.coq() + ")"
	}
	return fmt.Sprintf("(mkR %s %s %s %s %s %s)", v, triCoq(d.w), gsCoq(d.get), gsCoq(d.set), triCoq(d.e), triCoq(d.c))
}

// ---- operations ----

type entry struct {
	n int
	d desc
}

type op struct {
	kind    string
	o, n    int
	p       int // OCreate: -1 = null
	hasL    bool
	l       []entry
	v       val
	d       desc
	atN, o2 int
	delN    int
	with    bool // put/delete spelled through a with statement (object environment record)
	hidden  int  // defines/create: the properties object also carries entries that 15.2.3.7 must ignore
}

func entriesJS(l []entry, hidden int) string {
	parts := make([]string, len(l))
	for i, e := range l {
		parts[i] = names[e.n] + ": " + e.d.js()
	}
	lit := "{" + strings.Join(parts, ", ") + "}"
	if hidden == 0 {
		return lit
	}
	// inherited and non-enumerable entries of the properties object are not "own enumerable": ignored
	used := map[int]bool{}
	for _, e := range l {
		used[e.n] = true
	}
	var free []int
	for n := 0; n < 4; n++ {
		if !used[n] {
			free = append(free, n)
		}
	}
	if len(free) == 0 {
		return lit
	}
	inh := fmt.Sprintf("{%s: {value: 77, enumerable: true}}", names[free[0]])
	src := fmt.Sprintf("(function () { var P = Object.create(%s); var L = %s; Object.keys(L).forEach(function (k) { Object.defineProperty(P, k, {value: L[k], writable: true, enumerable: true, configurable: true}); }); ", inh, lit)
	if len(free) > 1 && hidden > 1 {
		src += fmt.Sprintf("Object.defineProperty(P, %q, {value: {value: 78, enumerable: true}, enumerable: false}); ", names[free[1]])
	}
	return src + "return P; })()"
}

func entriesCoq(l []entry) string {
	parts := make([]string, len(l))
	for i, e := range l {
		parts[i] = fmt.Sprintf("(%d, %s)", e.n, e.d.coq())
	}
	return Clist(parts)
}

func (o op) js() string {
	switch o.kind {
	case "define":
		return fmt.Sprintf("Object.defineProperty(V[%d], %q, %s)", o.o, names[o.n], o.d.js())
	case "defines":
		return fmt.Sprintf("Object.defineProperties(V[%d], %s)", o.o, entriesJS(o.l, o.hidden))
	case "create":
		p := "null"
		if o.p >= 0 {
			p = fmt.Sprintf("V[%d]", o.p)
		}
		if o.hasL {
			return fmt.Sprintf("var T = Object.create(%s, %s); A.push(T); V[%d] = T", p, entriesJS(o.l, o.hidden), o.o)
		}
		return fmt.Sprintf("var T = Object.create(%s); A.push(T); V[%d] = T", p, o.o)
	case "put":
		if o.with {
			// same [[Put]] when the name resolves in the object environment record (10.2.1.2)
			return fmt.Sprintf("if (%q in V[%d]) { with (V[%d]) { %s = %s; } } else { V[%d].%s = %s; }", names[o.n], o.o, o.o, names[o.n], o.v.js(), o.o, names[o.n], o.v.js())
		}
		return fmt.Sprintf("V[%d].%s = %s", o.o, names[o.n], o.v.js())
	case "delete":
		if o.with {
			return fmt.Sprintf("var T; if (%q in V[%d]) { with (V[%d]) { T = delete %s; } } else { T = delete V[%d].%s; } LOG.push(T === true ? 1 : T === false ? 0 : 7)", names[o.n], o.o, o.o, names[o.n], o.o, names[o.n])
		}
		return fmt.Sprintf("var T = delete V[%d].%s; LOG.push(T === true ? 1 : T === false ? 0 : 7)", o.o, names[o.n])
	case "freeze":
		return fmt.Sprintf("Object.freeze(V[%d])", o.o)
	case "seal":
		return fmt.Sprintf("Object.seal(V[%d])", o.o)
	case "prevent":
		return fmt.Sprintf("Object.preventExtensions(V[%d])", o.o)
	case "forindel":
		return fmt.Sprintf("var T = []; for (var K in V[%d]) { T.push(K); if (K === %q) delete V[%d].%s; } LOG.push(pack(T))", o.o, names[o.atN], o.o2, names[o.delN])
	}
	panic("op kind")
}

func (o op) coq() string {
	switch o.kind {
	case "define":
		return fmt.Sprintf("ODefine %d %d %s", o.o, o.n, o.d.coq())
	case "defines":
		return fmt.Sprintf("ODefines %d %s", o.o, entriesCoq(o.l))
	case "create":
		p := "None"
		if o.p >= 0 {
			p = fmt.Sprintf("(Some %d%%nat)", o.p)
		}
		l := "None"
		if o.hasL {
			l = "(Some " + entriesCoq(o.l) + ")"
		}
		return fmt.Sprintf("OCreate %d %s %s", o.o, p, l)
	case "put":
		return fmt.Sprintf("OPut %d %d %s", o.o, o.n, o.v.coq())
	case "delete":
		return fmt.Sprintf("ODelete %d %d", o.o, o.n)
	case "freeze":
		return fmt.Sprintf("OFreeze %d", o.o)
	case "seal":
		return fmt.Sprintf("OSeal %d", o.o)
	case "prevent":
		return fmt.Sprintf("OPrevent %d", o.o)
	case "forindel":
		return fmt.Sprintf("OForInDel %d %d %d %d", o.o, o.atN, o.o2, o.delN)
	}
	panic("op kind")
}

// ---- running a history ----

var numTok = regexp.MustCompile(`^-?[0-9]+$`)

func zlistOf(s string) []string {
	if s == "" {
		return nil
	}
	parts := strings.Split(s, ",")
	out := make([]string, len(parts))
	for i, p := range parts {
		p = strings.TrimSpace(p)
		switch {
		case !numTok.MatchString(p):
			out[i] = "777777"
		case p[0] == '-':
			out[i] = "(" + p + ")"
		default:
			out[i] = p
		}
	}
	return out
}

type forkOp struct {
	side bool // false: the original runtime, true: the copy made by Otto.Copy()
	o    op
}

// one operation on one runtime: its result list, or a Go panic
func runOp(vm *otto.Otto, src string) (res []string, panicTxt string) {
	o := RunJS(vm, "LOG = []; "+src+"; LOG.join(',')")
	switch cls := ErrClass(o); cls {
	case 0:
		return append([]string{"0"}, zlistOf(o.Val.String())...), ""
	case 6:
		return []string{"1"}, ""
	case 9:
		return nil, "Go panic: " + fmt.Sprint(o.Panic)
	default:
		return []string{fmt.Sprintf("%d", 20+cls)}, ""
	}
}

// the snapshot of one runtime: numbers, readable text, whether a Go panic escaped
func runSnap(vm *otto.Otto) (nums []string, txt string, panicked bool) {
	s := RunJS(vm, "SNAP()")
	switch cls := ErrClass(s); cls {
	case 0:
		return zlistOf(s.Val.String()), s.Val.String(), false
	case 9:
		return []string{"9"}, fmt.Sprintf("snapshot Go panic: %v", s.Panic), true
	default:
		return []string{fmt.Sprintf("%d", 30+cls)}, fmt.Sprintf("snapshot threw %v", s.Err), false
	}
}

// runs the history (and, after vm.Copy(), its continuation on both runtimes); returns the Coq
// observation list and a readable transcript
func runHistory(ops []op, fork []forkOp) (string, string) {
	vm := otto.New()
	if o := RunJS(vm, prelude); o.Err != nil || o.Panic != nil {
		panic(fmt.Sprintf("prelude: %v %v", o.Err, o.Panic))
	}
	var obs, txt, script []string
	done := func() (string, string) {
		return Clist(obs), strings.Join(script, "; ") + " => " + strings.Join(txt, " | ")
	}
	for _, op := range ops {
		src := op.js()
		script = append(script, src)
		res, ptxt := runOp(vm, src)
		if ptxt != "" {
			obs = append(obs, "[9]")
			txt = append(txt, ptxt)
			return done()
		}
		nums, stxt, panicked := runSnap(vm)
		obs = append(obs, Clist(append(res, nums...)))
		txt = append(txt, strings.Join(res, ",")+":"+stxt)
		if panicked {
			return done()
		}
	}
	if fork == nil {
		return done()
	}
	var vm2 *otto.Otto
	if c := Guard(func() (otto.Value, error) { vm2 = vm.Copy(); return otto.Value{}, nil }); c.Panic != nil || vm2 == nil {
		obs = append(obs, "[9]")
		script = append(script, "/* vm2 := vm.Copy() */")
		txt = append(txt, fmt.Sprintf("Copy() Go panic: %v", c.Panic))
		return done()
	}
	vms := []*otto.Otto{vm, vm2}
	script = append(script, "/* vm2 := vm.Copy() */")
	for _, f := range fork {
		k, who := 0, "/* vm */ "
		if f.side {
			k, who = 1, "/* vm2 */ "
		}
		src := f.o.js()
		script = append(script, who+src)
		res, ptxt := runOp(vms[k], src)
		if ptxt != "" {
			obs = append(obs, "[9]")
			txt = append(txt, ptxt)
			return done()
		}
		na, ta, pa := runSnap(vm)
		if pa {
			obs = append(obs, Clist(append(res, na...)))
			txt = append(txt, strings.Join(res, ",")+":vm "+ta)
			return done()
		}
		nb, tb, pb := runSnap(vm2)
		obs = append(obs, Clist(append(append(res, na...), nb...)))
		txt = append(txt, strings.Join(res, ",")+":vm "+ta+" vm2 "+tb)
		if pb {
			return done()
		}
	}
	return done()
}

// ---- generators ----

type gen struct{ env *Env }

func (g *gen) intn(n int) int { return g.env.Rng.Intn(n) }

var valuePool = []val{{4, 1}, {4, 2}, {0, 0}, {4, 0}, {6, 0}, {5, 0}, {1, 0}, {2, 0}, {3, 0}, {7, 0}, {7, 1}, {8, 0}, {8, 1}, {4, -1}, {4, 7}}

func (g *gen) value() val {
	// mostly from a handful of values so that SameValue coincidences are frequent
	if g.intn(3) > 0 {
		return valuePool[g.intn(6)]
	}
	return valuePool[g.intn(len(valuePool))]
}

func (g *gen) tri() int {
	return g.intn(3)
}

func (g *gen) gs() int {
	switch g.intn(12) {
	case 0:
		return 2 // not callable
	case 1, 2, 3:
		return 1 // undefined
	default:
		return 3 + g.intn(3)
	}
}

func (g *gen) descriptor() desc {
	d := desc{truthy: 0}
	if g.intn(4) == 0 {
		d.truthy = g.intn(7)
	}
	if g.intn(10) == 0 {
		d.inherit = true
	}
	if g.intn(60) == 0 {
		return desc{notObj: true, truthy: g.intn(7)}
	}
	d.e, d.c = g.tri(), g.tri()
	switch k := g.intn(20); {
	case k < 4: // generic
	case k < 12: // data
		switch g.intn(4) {
		case 0:
			d.w = 1 + g.intn(2)
		case 1:
			d.hasValue, d.value = true, g.value()
		default:
			d.hasValue, d.value = true, g.value()
			d.w = g.tri()
		}
	case k < 19: // accessor
		switch g.intn(4) {
		case 0:
			d.get = g.gs()
		case 1:
			d.set = g.gs()
		default:
			d.get, d.set = g.gs(), g.gs()
		}
	default: // contradictory
		d.get = g.gs()
		if g.intn(2) == 0 {
			d.hasValue, d.value = true, g.value()
		} else {
			d.w = 1 + g.intn(2)
		}
	}
	return d
}

func (g *gen) entries() []entry {
	k := g.intn(4)
	perm := g.env.Rng.Perm(4)
	l := make([]entry, k)
	for i := 0; i < k; i++ {
		l[i] = entry{perm[i], g.descriptor()}
	}
	return l
}

// names are drawn with a bias to one or two "hot" names so that histories revisit a property
func (g *gen) name(hot int) int {
	if g.intn(10) < 6 {
		return hot
	}
	return g.intn(4)
}

func (g *gen) randomOp(hotO, hotN int) op {
	o := hotO
	if g.intn(3) == 0 {
		o = g.intn(3)
	}
	n := g.name(hotN)
	k := g.intn(100)
	if g.intn(9) == 0 && (k < 45 || (k >= 53 && k < 83) || k >= 95) {
		o = 3 // Object.prototype itself: define / assign / delete / enumerate (it is never frozen or re-bound)
	}
	switch {
	case k < 38:
		return op{kind: "define", o: o, n: n, d: g.descriptor()}
	case k < 45:
		return op{kind: "defines", o: o, l: g.entries(), hidden: g.hiddenKind()}
	case k < 53:
		p := g.intn(5) - 1
		c := op{kind: "create", o: g.intn(3), p: p}
		if g.intn(3) == 0 {
			c.hasL, c.l, c.hidden = true, g.entries(), g.hiddenKind()
		}
		return c
	case k < 73:
		return op{kind: "put", o: o, n: n, v: g.value(), with: g.intn(6) == 0}
	case k < 83:
		return op{kind: "delete", o: o, n: n, with: g.intn(6) == 0}
	case k < 87:
		return op{kind: "freeze", o: o}
	case k < 91:
		return op{kind: "seal", o: o}
	case k < 95:
		return op{kind: "prevent", o: o}
	default:
		f := op{kind: "forindel", o: o, atN: n, o2: o, delN: g.intn(4)}
		if g.intn(4) == 0 {
			f.o2 = g.intn(4)
		}
		return f
	}
}

func (g *gen) hiddenKind() int {
	if g.intn(4) == 0 {
		return 1 + g.intn(2)
	}
	return 0
}

// SameValue boundaries of 8.12.9 step 10.a.ii: a frozen-valued property redefined with every other value
func (g *gen) sameValue() []op {
	v1, v2 := valuePool[g.intn(len(valuePool))], valuePool[g.intn(len(valuePool))]
	if g.intn(5) < 3 {
		// +0, -0, NaN and 1 against each other
		edge := []val{{4, 0}, {6, 0}, {5, 0}, {4, 1}}
		v1, v2 = edge[g.intn(4)], edge[g.intn(4)]
	} else if g.intn(3) == 0 {
		v2 = v1
	}
	first := desc{hasValue: true, value: v1, e: g.tri(), c: 2 * g.intn(2)}
	ops := []op{{kind: "define", o: 0, n: 0, d: first}}
	ops = append(ops, op{kind: "define", o: 0, n: 0, d: desc{hasValue: true, value: v2, w: g.tri() * g.intn(2), e: first.e}})
	switch g.intn(3) {
	case 0:
		ops = append(ops, op{kind: "put", o: 0, n: 0, v: v2})
	case 1:
		ops = append(ops, op{kind: "define", o: 0, n: 0, d: desc{hasValue: true, value: v1}})
	}
	return ops
}

// insertion order: several names on one object, then deletions, re-insertions and redefinitions
func (g *gen) order() []op {
	var ops []op
	o := g.intn(2)
	if o == 1 || g.intn(2) == 0 {
		ops = append(ops, op{kind: "create", o: 1, p: 0})
	}
	perm := g.env.Rng.Perm(4)
	k := 3 + g.intn(2)
	for i := 0; i < k; i++ {
		if g.intn(3) == 0 {
			ops = append(ops, op{kind: "define", o: o, n: perm[i], d: desc{hasValue: true, value: g.value(), w: 1, e: 1 + g.intn(2), c: 1}})
		} else {
			ops = append(ops, op{kind: "put", o: o, n: perm[i], v: g.value()})
		}
	}
	m := 2 + g.intn(5)
	for i := 0; i < m; i++ {
		n := g.intn(4)
		switch g.intn(8) {
		case 0, 1, 2:
			ops = append(ops, op{kind: "delete", o: o, n: n, with: g.intn(6) == 0})
		case 3, 4:
			ops = append(ops, op{kind: "put", o: o, n: n, v: g.value()})
		case 5:
			ops = append(ops, op{kind: "define", o: o, n: n, d: g.descriptor()})
		case 6:
			ops = append(ops, op{kind: "forindel", o: o, atN: g.intn(4), o2: o, delN: n})
		default:
			ops = append(ops, op{kind: "put", o: 0, n: n, v: g.value()})
		}
	}
	return ops
}

func (g *gen) history(maxLen int) []op {
	var ops []op
	// most histories start by linking the three variables into a prototype chain
	switch g.intn(10) {
	case 0, 1:
	case 2, 3:
		ops = append(ops, op{kind: "create", o: 1, p: 0})
	case 4:
		ops = append(ops, op{kind: "create", o: 1, p: 0}, op{kind: "create", o: 2, p: 0})
	default:
		ops = append(ops, op{kind: "create", o: 1, p: 0}, op{kind: "create", o: 2, p: 1})
	}
	n := 1 + g.intn(maxLen)
	hotO, hotN := g.intn(3), g.intn(4)
	for i := 0; i < n; i++ {
		if g.intn(6) == 0 {
			hotO = g.intn(3)
		}
		ops = append(ops, g.randomOp(hotO, hotN))
	}
	return ops
}

// the two-step product of DESIGN.md: every stored shape, then every descriptor
func shapes() []desc {
	var out []desc
	for _, e := range []int{1, 2} {
		for _, c := range []int{1, 2} {
			for _, w := range []int{1, 2} {
				out = append(out, desc{hasValue: true, value: val{4, 1}, w: w, e: e, c: c})
			}
			for _, gs := range [][2]int{{3, 0}, {0, 4}, {3, 4}, {1, 0}} {
				out = append(out, desc{get: gs[0], set: gs[1], e: e, c: c})
			}
		}
	}
	return out
}

func seconds() []desc {
	var out []desc
	for e := 0; e < 3; e++ {
		for c := 0; c < 3; c++ {
			for vk := 0; vk < 3; vk++ { // value absent / same / different
				for w := 0; w < 3; w++ {
					d := desc{w: w, e: e, c: c}
					if vk == 1 {
						d.hasValue, d.value = true, val{4, 1}
					} else if vk == 2 {
						d.hasValue, d.value = true, val{4, 2}
					}
					out = append(out, d)
				}
			}
			for _, get := range []int{0, 1, 3, 5} {
				for _, set := range []int{0, 1, 4, 5} {
					if get == 0 && set == 0 {
						continue
					}
					out = append(out, desc{get: get, set: set, e: e, c: c})
				}
			}
		}
	}
	return out
}

func (g *gen) product(i int, sh, se []desc) []op {
	s := sh[(i/len(se))%len(sh)]
	d := se[i%len(se)]
	ops := []op{{kind: "define", o: 0, n: 0, d: s}}
	switch (i / (len(se) * len(sh))) % 3 {
	case 1:
		ops = append(ops, op{kind: "prevent", o: 0})
	case 2:
		ops = append([]op{{kind: "create", o: 1, p: 0}}, ops...)
	}
	ops = append(ops, op{kind: "define", o: 0, n: 0, d: d})
	// and what assignment / deletion / freezing make of the result
	switch g.intn(5) {
	case 0:
		ops = append(ops, op{kind: "put", o: g.intn(2), n: 0, v: val{4, 2}})
	case 1:
		ops = append(ops, op{kind: "delete", o: 0, n: 0})
	case 2:
		ops = append(ops, op{kind: "freeze", o: 0})
	case 3:
		ops = append(ops, op{kind: "define", o: 0, n: 0, d: g.descriptor()})
	}
	return ops
}

func pinned() [][]op {
	num := func(z int) val { return val{4, z} }
	return [][]op{
		// C07-writable-lost (fixed b253246: kept as a regression case, ES5 result expected)
		{{kind: "put", o: 0, n: 0, v: num(1)}, {kind: "define", o: 0, n: 0, d: desc{e: 2}}},
		// C07-forin-shadow
		{{kind: "put", o: 0, n: 0, v: num(1)}, {kind: "create", o: 1, p: 0}, {kind: "put", o: 1, n: 0, v: num(2)}},
		{{kind: "put", o: 0, n: 0, v: num(1)}, {kind: "create", o: 1, p: 0}, {kind: "define", o: 1, n: 0, d: desc{hasValue: true, value: num(2), e: 2}}},
		// C07-acc-to-data (fixed 11c8465: regression case)
		{{kind: "define", o: 0, n: 0, d: desc{get: 3, c: 1}}, {kind: "define", o: 0, n: 0, d: desc{w: 1}}},
		// C07-get-undefined (fixed cbc8127: regression cases)
		{{kind: "define", o: 0, n: 0, d: desc{get: 1}}},
		{{kind: "put", o: 0, n: 0, v: num(1)}, {kind: "define", o: 0, n: 0, d: desc{get: 1}}},
		// C07-defineproperties-partial
		{{kind: "defines", o: 0, l: []entry{{0, desc{hasValue: true, value: num(1)}}, {1, desc{get: 2}}}}},
		// C07-forin-delete (fixed 7f33b5d: regression case)
		{{kind: "put", o: 0, n: 0, v: num(1)}, {kind: "put", o: 0, n: 1, v: num(2)}, {kind: "put", o: 0, n: 2, v: num(3)},
			{kind: "forindel", o: 0, atN: 0, o2: 0, delN: 0}},
	}
}

// Object.prototype as the last member of (nearly) every chain: an enumerable or non-enumerable data or
// accessor property installed on it, before or after the chain is built, seen through a plain {},
// through two Object.create links, directly below it, and not at all through Object.create(null);
// then shadowed, removed again, enumerated with a deleting body.  Deterministic: every seed runs all.
func objectPrototypeFamily() [][]op {
	num := func(z int) val { return val{4, z} }
	installs := [][]op{
		{{kind: "put", o: 3, n: 0, v: num(1)}},
		{{kind: "define", o: 3, n: 0, d: desc{hasValue: true, value: num(1), w: 1, e: 1, c: 1}}},
		{{kind: "define", o: 3, n: 0, d: desc{get: 3, set: 4, e: 1, c: 1}}},
		{{kind: "define", o: 3, n: 0, d: desc{hasValue: true, value: num(1), w: 1, e: 2, c: 1}}},
		{{kind: "defines", o: 3, l: []entry{{0, desc{hasValue: true, value: num(1), e: 1, c: 1}}, {1, desc{get: 3, e: 1, c: 1}}}}},
		{{kind: "put", o: 3, n: 0, v: num(1), with: true}, {kind: "put", o: 3, n: 3, v: num(4)}},
	}
	shapes := [][]op{
		{},
		{{kind: "create", o: 1, p: 0}, {kind: "create", o: 2, p: 1}},
		{{kind: "create", o: 1, p: -1}, {kind: "create", o: 2, p: 1}},
		{{kind: "create", o: 1, p: 3}, {kind: "put", o: 1, n: 2, v: num(3)}},
	}
	tails := [][]op{
		{{kind: "put", o: 0, n: 1, v: num(2)}, {kind: "put", o: 0, n: 0, v: num(5)}, {kind: "delete", o: 3, n: 0}},
		{{kind: "put", o: 2, n: 2, v: num(3)}, {kind: "forindel", o: 2, atN: 2, o2: 3, delN: 0}, {kind: "delete", o: 0, n: 0}},
		{{kind: "define", o: 0, n: 0, d: desc{hasValue: true, value: num(9), e: 2}}, {kind: "delete", o: 3, n: 0}, {kind: "put", o: 1, n: 0, v: num(6)}},
	}
	var out [][]op
	for i, in := range installs {
		for j, sh := range shapes {
			for order := 0; order < 2; order++ {
				var h []op
				if order == 0 {
					h = append(append(h, in...), sh...)
				} else {
					h = append(append(h, sh...), in...)
				}
				h = append(h, tails[(i+j+order)%len(tails)]...)
				out = append(out, h)
			}
		}
	}
	return out
}

func bucketOf(ops []op) string {
	seen := map[string]bool{}
	for _, o := range ops {
		seen[o.kind] = true
	}
	switch {
	case seen["forindel"]:
		return "forin-delete"
	case seen["freeze"] || seen["seal"] || seen["prevent"]:
		return "extensibility"
	case seen["defines"]:
		return "defineProperties"
	default:
		return "define/put/delete"
	}
}

// a history, a copy of the runtime, then different continuations on the two runtimes
func (g *gen) emitFork(prefix []op, fork []forkOp, bucket string) {
	obs, txt := runHistory(prefix, fork)
	cq := make([]string, len(prefix))
	for i, o := range prefix {
		cq[i] = o.coq()
	}
	fq := make([]string, len(fork))
	for i, f := range fork {
		fq[i] = fmt.Sprintf("(%s, %s)", Cbool(f.side), f.o.coq())
	}
	g.env.Add(fmt.Sprintf("CFork %s %s %s", Clist(cq), Clist(fq), obs), txt, bucket, true)
}

// prefix: several names on the objects; continuation: deletions, additions, redefinitions,
// freezes on either runtime (what one does must never show in the other)
func (g *gen) forked() ([]op, []forkOp) {
	var prefix []op
	if g.intn(3) > 0 {
		prefix = g.order()
		if len(prefix) > 7 {
			prefix = prefix[:7]
		}
	} else {
		prefix = g.history(5)
	}
	n := 2 + g.intn(6)
	hotO, hotN := g.intn(2), g.intn(4)
	fork := make([]forkOp, n)
	for i := range fork {
		side := g.intn(2) == 0
		var o op
		switch g.intn(10) {
		case 0, 1, 2:
			o = op{kind: "delete", o: hotO, n: g.intn(4)}
		case 3, 4:
			o = op{kind: "put", o: hotO, n: g.intn(4), v: g.value()}
		default:
			o = g.randomOp(hotO, hotN)
		}
		fork[i] = forkOp{side, o}
	}
	return prefix, fork
}

func (g *gen) emit(ops []op, bucket string) {
	obs, txt := runHistory(ops, nil)
	cq := make([]string, len(ops))
	for i, o := range ops {
		cq[i] = o.coq()
	}
	g.env.Add(fmt.Sprintf("CHist %s %s", Clist(cq), obs), txt, bucket, len(ops) >= 2)
}

func runC07(env *Env) {
	env.Import = "Otto.C07.Corr"
	env.Rule = "histories of defineProperty/defineProperties/create/put/delete/freeze/seal/preventExtensions/for-in-with-delete over 3 variables plus Object.prototype itself (properties installed on it, seen through every chain that ends in it; a pinned family of 48 such histories on every seed), 4 names and re-wired prototype links, descriptors from the full product (absent/true/false attributes, value, get/set absent/undefined/function/not callable, contradictory ones, truthy/falsy spellings, inherited fields); after every operation its result and a snapshot of every own descriptor, in, hasOwnProperty, propertyIsEnumerable, [[Get]], keys, getOwnPropertyNames, for-in, isExtensible/isSealed/isFrozen of the three variables; plus the two-step product stored shape x descriptor (sampled in quick, exhaustive in thorough), SameValue boundary pairs (NaN, +0, -0, ...) on non-writable properties, insertion-order histories (3-4 names, deletions, re-insertions), and histories continued after Otto.Copy() with different operations on the original and on the copy, both observed after every operation; assignments/deletions also spelled through a with statement, descriptors that are not objects, properties objects carrying inherited and non-enumerable entries; non-trivial = distinct history with at least two operations"
	g := &gen{env: env}
	for _, h := range pinned() {
		g.emit(h, "pinned")
	}
	{
		num := func(z int) val { return val{4, z} }
		pre := []op{{kind: "put", o: 0, n: 0, v: num(1)}, {kind: "put", o: 0, n: 1, v: num(2)}, {kind: "put", o: 0, n: 2, v: num(3)}}
		g.emitFork(pre, []forkOp{{true, op{kind: "delete", o: 0, n: 0}}, {true, op{kind: "put", o: 0, n: 3, v: num(5)}},
			{false, op{kind: "delete", o: 0, n: 1}}, {false, op{kind: "put", o: 0, n: 0, v: num(7)}}}, "runtime-copy")
	}
	for _, h := range objectPrototypeFamily() {
		g.emit(h, "object-prototype")
	}
	{
		// Object.prototype is per runtime: what the copy adds to it must not show in the original
		num := func(z int) val { return val{4, z} }
		pre := []op{{kind: "put", o: 3, n: 0, v: num(1)}, {kind: "create", o: 1, p: 0}}
		g.emitFork(pre, []forkOp{{true, op{kind: "put", o: 3, n: 1, v: num(2)}}, {false, op{kind: "delete", o: 3, n: 0}},
			{true, op{kind: "define", o: 3, n: 2, d: desc{get: 3, e: 1, c: 1}}}, {false, op{kind: "put", o: 1, n: 0, v: num(7)}}}, "object-prototype")
	}
	sh, se := shapes(), seconds()
	total := len(sh) * len(se) * 3
	env.Extra["two_step_product_size"] = total
	maxLen := 10
	if env.Tier == "thorough" {
		maxLen = 36
		for i := 0; i < total && env.Count() < env.N; i++ {
			g.emit(g.product(i, sh, se), "two-step-product")
		}
	}
	for env.Count() < env.N {
		switch k := g.intn(20); {
		case k < 5:
			g.emit(g.product(g.intn(total), sh, se), "two-step-product")
			continue
		case k < 7:
			g.emit(g.sameValue(), "same-value")
			continue
		case k < 10:
			g.emit(g.order(), "insertion-order")
			continue
		case k < 13:
			p, f := g.forked()
			g.emitFork(p, f, "runtime-copy")
			continue
		}
		h := g.history(maxLen)
		g.emit(h, bucketOf(h))
	}
}
