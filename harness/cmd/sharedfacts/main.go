// sharedfacts: the C20 translator.  It type-checks the packages otto, parser,
// ast, file, token and registry of the tree given by -repo (go/parser +
// go/types, build tag verif, no test files) and writes the fact table
// coq/C20/Shared.v on which Theorem C20_no_runtime_writes is re-checked:
//
//	pkg_vars      every package-level variable with every site that writes it,
//	              takes its address, calls a method on it or lets a reference
//	              to it escape (assignment, ++/--, op=, element/field stores,
//	              delete/copy/append, &v, pointer-receiver calls, v passed or
//	              stored as a value), with the enclosing function and whether
//	              the site executes at package initialisation;
//	struct_fields every field of every named struct type of those packages with
//	              every site that stores to it (or into it) or takes its address,
//	              outside composite literals (construction);
//
// With -diagnose it evaluates the audit of coq/C20/Audit.v over the table that
// is on disk and prints one `FAIL <file:line subject>` line per failing site.
package main

import (
	"bytes"
	"flag"
	"fmt"
	"go/ast"
	"go/build"
	"go/importer"
	"go/parser"
	"go/token"
	"go/types"
	"os"
	"os/exec"
	"path/filepath"
	"regexp"
	"sort"
	"strings"
)

const modPath = "github.com/robertkrimen/otto"

var subPkgs = []string{"", "parser", "ast", "file", "token", "registry"}

type pkgInfo struct {
	path  string
	rel   string
	files []*ast.File
	names []string
	pkg   *types.Package
	info  *types.Info
}

type loader struct {
	fset     *token.FileSet
	repo     string
	pkgs     map[string]*pkgInfo
	std      types.ImporterFrom
	fake     map[string]*types.Package
	typeErrs int
	warn     []string
}

func (l *loader) Import(path string) (*types.Package, error) { return l.ImportFrom(path, l.repo, 0) }

func (l *loader) ImportFrom(path, dir string, mode types.ImportMode) (*types.Package, error) {
	if path == modPath || strings.HasPrefix(path, modPath+"/") {
		p, err := l.load(path)
		if err != nil {
			return nil, err
		}
		return p.pkg, nil
	}
	if path == "unsafe" {
		return types.Unsafe, nil
	}
	if p, ok := l.fake[path]; ok {
		return p, nil
	}
	p, err := l.std.ImportFrom(path, l.repo, 0)
	if err == nil {
		return p, nil
	}
	// a dependency that cannot be loaded offline: an empty package; expressions
	// that use it get invalid types, which the analysis treats as opaque values
	l.warn = append(l.warn, fmt.Sprintf("import %s: %v", path, err))
	name := path[strings.LastIndex(path, "/")+1:]
	if i := strings.Index(name, "."); i >= 0 {
		name = name[:i]
	}
	fp := types.NewPackage(path, name)
	fp.MarkComplete()
	l.fake[path] = fp
	return fp, nil
}

func (l *loader) load(path string) (*pkgInfo, error) {
	if p, ok := l.pkgs[path]; ok {
		if p.pkg == nil {
			return nil, fmt.Errorf("import cycle through %s", path)
		}
		return p, nil
	}
	rel := strings.TrimPrefix(strings.TrimPrefix(path, modPath), "/")
	dir := filepath.Join(l.repo, rel)
	p := &pkgInfo{path: path, rel: rel}
	l.pkgs[path] = p
	ctx := build.Default
	ctx.BuildTags = append([]string{"verif"}, ctx.BuildTags...)
	ents, err := os.ReadDir(dir)
	if err != nil {
		return nil, err
	}
	for _, e := range ents {
		n := e.Name()
		if e.IsDir() || !strings.HasSuffix(n, ".go") || strings.HasSuffix(n, "_test.go") {
			continue
		}
		ok, err := ctx.MatchFile(dir, n)
		if err != nil || !ok {
			continue
		}
		f, err := parser.ParseFile(l.fset, filepath.Join(dir, n), nil, parser.SkipObjectResolution)
		if err != nil {
			return nil, err
		}
		p.files = append(p.files, f)
		p.names = append(p.names, filepath.Join(rel, n))
	}
	if len(p.files) == 0 {
		return nil, fmt.Errorf("no Go files in %s", dir)
	}
	p.info = &types.Info{
		Types:      map[ast.Expr]types.TypeAndValue{},
		Defs:       map[*ast.Ident]types.Object{},
		Uses:       map[*ast.Ident]types.Object{},
		Selections: map[*ast.SelectorExpr]*types.Selection{},
		Implicits:  map[ast.Node]types.Object{},
	}
	cfg := types.Config{Importer: l, Error: func(err error) { l.typeErrs++; l.warn = append(l.warn, err.Error()) }}
	pkg, _ := cfg.Check(path, l.fset, p.files, p.info)
	if pkg == nil {
		return nil, fmt.Errorf("type-check of %s produced nothing", path)
	}
	p.pkg = pkg
	return p, nil
}

// ---- the fact table ----

type site struct {
	kind   string // KAssign KIncDec KElem KDelete KCopy KAppend KAddr KMethodPtr KMethodCall KEscape KRangeVar
	fn     string
	file   string
	line   int
	init   bool
	detail string
}

type varEntry struct {
	name  string
	typ   string
	ref   bool // values of the type carry references (pointer, map, slice, chan, or struct/array containing one)
	file  string
	line  int
	sites []site
}

type fieldEntry struct {
	typ   string // pkg.Type
	field string
	ftyp  string
	file  string
	line  int
	sites []site
}

type analysis struct {
	l        *loader
	tracked  map[*types.Package]bool
	vars     map[*types.Var]*varEntry
	fields   map[*types.Var]*fieldEntry
	vorder   []*types.Var
	forder   []*types.Var
	calls    []callEdge
	copies   []copySite
	cfields  []cloneField
	closures []nativeClosure
}

// a native function body (func literal taking an otto.FunctionCall) that refers to a variable of
// its creator holding an *object, *runtime or *Otto: clone copies native function payloads as they
// are, so in a copy the closure still works on the TEMPLATE's object/runtime
type nativeClosure struct {
	fn, file   string
	line       int
	name, vtyp string
	usage      string // strongest use inside the literal: read < escape < call < store
}

// how a copying function ((*runtime).clone, (*Otto).Copy, (*Otto).clone) fills one field of the
// struct it returns: "cloned" (the value goes through the cloner or a clone method), "verbatim"
// (the value is read from the receiver as it is), "fresh" (anything else: literals, locals, new
// allocations) or "zero" (the field is not mentioned)
type cloneField struct {
	typ, field, ftyp string
	ref              bool // the field holds a pointer, map, slice, channel or interface (not a func)
	how, fn, file    string
	line             int
}

// a stored copy of a struct value whose type carries references (`out := *o`,
// `x := o` for a struct-valued o, `&o` of a by-value parameter or receiver):
// the copy aliases everything the original's reference-typed fields point to
type copySite struct {
	typ, fn, file string
	line          int
	detail        string
}

// a call of a function that contains a store/alias site on shared structure
type callEdge struct {
	callee, caller, file string
	line                 int
	init                 bool
}

// name of a function object in the format of funcName
func funcObjName(fn *types.Func) string {
	sig, _ := fn.Type().(*types.Signature)
	if sig != nil && sig.Recv() != nil {
		t := sig.Recv().Type()
		star := ""
		if p, ok := t.(*types.Pointer); ok {
			star = "*"
			t = p.Elem()
		}
		if n, ok := t.(*types.Named); ok {
			return fmt.Sprintf("%s.(%s%s).%s", short(fn.Pkg()), star, n.Obj().Name(), fn.Name())
		}
	}
	return short(fn.Pkg()) + "." + fn.Name()
}

// mutators: functions of the packages file, registry, token and of the root
// package that contain a store/alias site on a package-level variable or on a
// field of a type that is shared between runtimes (types outside the root
// package, otto.Script, otto.objectClass, otto.node*).  Every call of a
// mutator is reported so that the audit can bound who calls it.
func (a *analysis) mutators() map[string]bool {
	m := map[string]bool{}
	add := func(fn string) {
		if strings.HasPrefix(fn, "parser.") || strings.HasPrefix(fn, "ast.") || strings.Contains(fn, "<decl") || strings.HasSuffix(fn, ".init") {
			return
		}
		m[fn] = true
	}
	for _, e := range a.vars {
		for _, s := range e.sites {
			if s.kind != "KEscape" && s.kind != "KMethodCall" && s.kind != "KAddr" {
				add(s.fn)
			}
		}
	}
	for _, e := range a.fields {
		if strings.HasPrefix(e.typ, "otto.") && e.typ != "otto.Script" && e.typ != "otto.objectClass" && !strings.HasPrefix(e.typ, "otto.node") {
			continue
		}
		for _, s := range e.sites {
			add(s.fn)
		}
	}
	return m
}

func (a *analysis) nativeClosures() {
	p := a.l.pkgs[modPath]
	rank := map[string]int{"read": 0, "escape": 1, "call": 2, "store": 3}
	heapType := func(t types.Type) string {
		pt, ok := t.(*types.Pointer)
		if !ok {
			return ""
		}
		n, ok := pt.Elem().(*types.Named)
		if !ok || n.Obj().Pkg() != p.pkg {
			return ""
		}
		switch n.Obj().Name() {
		case "object", "runtime", "Otto", "scope", "objectStash", "dclStash", "fnStash":
			return "*otto." + n.Obj().Name()
		}
		return ""
	}
	for _, f := range p.files {
		for _, d := range f.Decls {
			fd, ok := d.(*ast.FuncDecl)
			var root ast.Node
			name := ""
			if ok && fd.Body != nil {
				root, name = fd.Body, funcName(p.pkg, fd)
			} else if gd, ok := d.(*ast.GenDecl); ok && gd.Tok == token.VAR {
				root, name = gd, "otto.<decl>"
			} else {
				continue
			}
			ast.Inspect(root, func(n ast.Node) bool {
				fl, ok := n.(*ast.FuncLit)
				if !ok {
					return true
				}
				sig, _ := p.info.Types[fl].Type.(*types.Signature)
				native := false
				if sig != nil {
					for i := 0; i < sig.Params().Len(); i++ {
						if nt, ok := sig.Params().At(i).Type().(*types.Named); ok && nt.Obj().Pkg() == p.pkg && nt.Obj().Name() == "FunctionCall" {
							native = true
						}
					}
				}
				if !native {
					return true
				}
				found := map[*types.Var]string{}
				var order []*types.Var
				var stack []ast.Node
				ast.Inspect(fl.Body, func(c ast.Node) bool {
					if c == nil {
						stack = stack[:len(stack)-1]
						return true
					}
					defer func() { stack = append(stack, c) }()
					id, ok := c.(*ast.Ident)
					if !ok {
						return true
					}
					v, ok := p.info.Uses[id].(*types.Var)
					if !ok || v.IsField() || v.Parent() == nil || v.Parent() == p.pkg.Scope() {
						return true
					}
					if v.Pos() >= fl.Pos() && v.Pos() < fl.End() {
						return true
					}
					if heapType(v.Type()) == "" {
						return true
					}
					use := "escape"
					if len(stack) > 0 {
						if sel, ok := stack[len(stack)-1].(*ast.SelectorExpr); ok && sel.X == id {
							if s, ok := p.info.Selections[sel]; ok {
								if s.Kind() == types.FieldVal {
									use = "read"
									// a field of the captured object on the left of an assignment / ++ / &
									for k := len(stack) - 1; k >= 0; k-- {
										switch st := stack[k].(type) {
										case *ast.AssignStmt:
											for _, l := range st.Lhs {
												if l.Pos() <= sel.Pos() && sel.End() <= l.End() {
													use = "store"
												}
											}
										case *ast.IncDecStmt:
											use = "store"
										case *ast.UnaryExpr:
											if st.Op == token.AND {
												use = "store"
											}
										}
										if _, isStmt := stack[k].(ast.Stmt); isStmt {
											break
										}
									}
								} else {
									use = "call"
								}
							}
						}
					}
					if old, ok := found[v]; !ok {
						found[v] = use
						order = append(order, v)
					} else if rank[use] > rank[old] {
						found[v] = use
					}
					return true
				})
				pos := a.l.fset.Position(fl.Pos())
				for _, v := range order {
					a.closures = append(a.closures, nativeClosure{fn: name, file: a.relFile(pos.Filename), line: pos.Line,
						name: v.Name(), vtyp: heapType(v.Type()), usage: found[v]})
				}
				return true
			})
		}
	}
}

func refField(t types.Type) bool {
	switch t.Underlying().(type) {
	case *types.Pointer, *types.Map, *types.Slice, *types.Chan, *types.Interface:
		return true
	}
	return false
}

// cloneFields: the composite literal (and the later `out.f = ...` stores) by which the copying
// functions of the root package build a runtime / Otto value
func (a *analysis) cloneFields() {
	p := a.l.pkgs[modPath]
	for _, f := range p.files {
		for _, d := range f.Decls {
			fd, ok := d.(*ast.FuncDecl)
			if !ok || fd.Body == nil {
				continue
			}
			name := funcName(p.pkg, fd)
			// the copying functions: runtime.clone, Otto.Copy/clone, and every function that is handed the
			// cloner (the clone methods of stashes and payloads, objectClone, the cloner's own methods)
			handle := name == "otto.(*runtime).clone" || name == "otto.(*Otto).Copy" || name == "otto.(*Otto).clone"
			takesCloner := false
			roots := map[types.Object]bool{}
			addFields := func(fl *ast.FieldList) {
				if fl == nil {
					return
				}
				for _, f := range fl.List {
					isCloner := strings.Contains(types.ExprString(f.Type), "cloner")
					if isCloner {
						takesCloner = true
					}
					for _, nm := range f.Names {
						if o := p.info.Defs[nm]; o != nil && !isCloner {
							roots[o] = true
						}
					}
				}
			}
			addFields(fd.Recv)
			addFields(fd.Type.Params)
			if !handle && !takesCloner {
				continue
			}
			// `switch v := root.x.(type)`: v stands for (part of) the source in every clause
			ast.Inspect(fd.Body, func(n ast.Node) bool {
				ts, ok := n.(*ast.TypeSwitchStmt)
				if !ok {
					return true
				}
				as, ok := ts.Assign.(*ast.AssignStmt)
				if !ok || len(as.Rhs) != 1 {
					return true
				}
				rooted := false
				ast.Inspect(as.Rhs[0], func(m ast.Node) bool {
					if id, ok := m.(*ast.Ident); ok && roots[p.info.Uses[id]] {
						rooted = true
					}
					return true
				})
				if rooted {
					for _, cc := range ts.Body.List {
						if o := p.info.Implicits[cc]; o != nil {
							roots[o] = true
						}
					}
				}
				return true
			})
			var recvObj types.Object
			classify := func(e ast.Expr) string {
				cloned, fromRecv := false, false
				ast.Inspect(e, func(n ast.Node) bool {
					switch x := n.(type) {
					case *ast.CallExpr:
						if sel, ok := x.Fun.(*ast.SelectorExpr); ok {
							if s, ok := p.info.Selections[sel]; ok && s.Kind() == types.MethodVal {
								rt := types.TypeString(s.Recv(), qual)
								if strings.Contains(rt, "cloner") || sel.Sel.Name == "clone" || sel.Sel.Name == "Copy" {
									cloned = true
								}
							}
						}
					case *ast.Ident:
						if roots[p.info.Uses[x]] {
							fromRecv = true
						}
					}
					return true
				})
				switch {
				case cloned:
					return "cloned"
				case fromRecv:
					return "verbatim"
				}
				return "fresh"
			}
			seen := map[string]map[string]bool{}
			record := func(st *types.Named, field string, val ast.Expr, at ast.Node) {
				str, ok := st.Underlying().(*types.Struct)
				if !ok {
					return
				}
				tn := short(st.Obj().Pkg()) + "." + st.Obj().Name()
				for i := 0; i < str.NumFields(); i++ {
					fv := str.Field(i)
					if fv.Name() != field {
						continue
					}
					pos := a.l.fset.Position(at.Pos())
					if seen[tn] == nil {
						seen[tn] = map[string]bool{}
					}
					seen[tn][field] = true
					a.cfields = append(a.cfields, cloneField{typ: tn, field: field, ftyp: typeStr(fv.Type()), ref: refField(fv.Type()),
						how: classify(val), fn: name, file: a.relFile(pos.Filename), line: pos.Line})
				}
			}
			var built []*types.Named
			ast.Inspect(fd.Body, func(n ast.Node) bool {
				switch x := n.(type) {
				case *ast.CompositeLit:
					tv, ok := p.info.Types[x]
					if !ok {
						return true
					}
					nt, ok := tv.Type.(*types.Named)
					if !ok || nt.Obj().Pkg() != p.pkg {
						return true
					}
					str, ok := nt.Underlying().(*types.Struct)
					if !ok {
						return true
					}
					if nt.Obj().Name() == "runtime" || nt.Obj().Name() == "Otto" {
						built = append(built, nt)
					}
					for i, el := range x.Elts {
						if kv, ok := el.(*ast.KeyValueExpr); ok {
							if k, ok := kv.Key.(*ast.Ident); ok {
								record(nt, k.Name, kv.Value, kv)
							}
						} else if i < str.NumFields() {
							record(nt, str.Field(i).Name(), el, el) // positional literal
						}
					}
				case *ast.AssignStmt:
					for i, lhs := range x.Lhs {
						sel, ok := lhs.(*ast.SelectorExpr)
						if !ok || i >= len(x.Rhs) && len(x.Rhs) != 1 {
							continue
						}
						s, ok := p.info.Selections[sel]
						if !ok || s.Kind() != types.FieldVal {
							continue
						}
						rt := s.Recv()
						if pt, ok := rt.(*types.Pointer); ok {
							rt = pt.Elem()
						}
						nt, ok := rt.(*types.Named)
						if !ok || nt.Obj().Pkg() != p.pkg || (nt.Obj().Name() != "runtime" && nt.Obj().Name() != "Otto") {
							continue
						}
						// stores into the source itself are not part of building the copy
						if id, ok := sel.X.(*ast.Ident); ok && (roots[p.info.Uses[id]] || p.info.Uses[id] == recvObj) {
							continue
						}
						rhs := x.Rhs[0]
						if i < len(x.Rhs) {
							rhs = x.Rhs[i]
						}
						record(nt, sel.Sel.Name, rhs, x)
					}
				}
				return true
			})
			for _, nt := range built {
				str := nt.Underlying().(*types.Struct)
				tn := short(nt.Obj().Pkg()) + "." + nt.Obj().Name()
				pos := a.l.fset.Position(fd.Pos())
				for i := 0; i < str.NumFields(); i++ {
					fv := str.Field(i)
					if seen[tn][fv.Name()] {
						continue
					}
					a.cfields = append(a.cfields, cloneField{typ: tn, field: fv.Name(), ftyp: typeStr(fv.Type()), ref: refField(fv.Type()),
						how: "zero", fn: name, file: a.relFile(pos.Filename), line: pos.Line})
				}
			}
		}
	}
}

func (a *analysis) callEdges() {
	m := a.mutators()
	for _, sp := range subPkgs {
		path := modPath
		if sp != "" {
			path += "/" + sp
		}
		p := a.l.pkgs[path]
		for _, f := range p.files {
			for _, d := range f.Decls {
				var body ast.Node
				caller := ""
				isInit := false
				switch d := d.(type) {
				case *ast.FuncDecl:
					if d.Body == nil {
						continue
					}
					body, caller = d.Body, funcName(p.pkg, d)
					isInit = d.Recv == nil && d.Name.Name == "init"
				case *ast.GenDecl:
					if d.Tok != token.VAR {
						continue
					}
					body, caller, isInit = d, short(p.pkg)+".<decl>", true
				default:
					continue
				}
				inLit := 0
				var stack []ast.Node
				ast.Inspect(body, func(c ast.Node) bool {
					if c == nil {
						if _, ok := stack[len(stack)-1].(*ast.FuncLit); ok {
							inLit--
						}
						stack = stack[:len(stack)-1]
						return true
					}
					stack = append(stack, c)
					if _, ok := c.(*ast.FuncLit); ok {
						inLit++
					}
					var id *ast.Ident
					switch x := c.(type) {
					case *ast.Ident:
						id = x
					default:
						return true
					}
					fn, ok := p.info.Uses[id].(*types.Func)
					if !ok || fn.Pkg() == nil || !a.tracked[fn.Pkg()] {
						return true
					}
					name := funcObjName(fn)
					if !m[name] || m[caller] {
						return true // not a mutator, or a mutator calling its like (constructor recursion)
					}
					// any mention (call or method value) counts
					pos := a.l.fset.Position(id.Pos())
					a.calls = append(a.calls, callEdge{callee: name, caller: caller, file: a.relFile(pos.Filename), line: pos.Line, init: isInit && inLit == 0})
					return true
				})
			}
		}
	}
	sort.SliceStable(a.calls, func(i, j int) bool {
		x, y := a.calls[i], a.calls[j]
		if x.callee != y.callee {
			return x.callee < y.callee
		}
		if x.file != y.file {
			return x.file < y.file
		}
		return x.line < y.line
	})
}

func short(p *types.Package) string {
	if p == nil {
		return ""
	}
	if p.Path() == modPath {
		return "otto"
	}
	return strings.TrimPrefix(p.Path(), modPath+"/")
}

func qual(p *types.Package) string { return short(p) }

func typeStr(t types.Type) string {
	if t == nil {
		return "?"
	}
	s := types.TypeString(t, qual)
	s = strings.ReplaceAll(s, "\"", "'")
	if len(s) > 120 {
		s = s[:117] + "..."
	}
	return s
}

func carriesRef(t types.Type, depth int) bool {
	if t == nil || depth > 6 {
		return true
	}
	switch u := t.Underlying().(type) {
	case *types.Pointer, *types.Map, *types.Slice, *types.Chan:
		return true
	case *types.Struct:
		for i := 0; i < u.NumFields(); i++ {
			if carriesRef(u.Field(i).Type(), depth+1) {
				return true
			}
		}
		return false
	case *types.Array:
		return carriesRef(u.Elem(), depth+1)
	case *types.Interface, *types.Signature, *types.Basic:
		return false
	}
	return true
}

// top-level reference kinds whose plain use as a value creates an alias
func aliasKind(t types.Type) bool {
	if t == nil {
		return false
	}
	switch t.Underlying().(type) {
	case *types.Pointer, *types.Map, *types.Slice, *types.Chan:
		return true
	}
	return false
}

func (a *analysis) collect() {
	for _, sp := range subPkgs {
		path := modPath
		if sp != "" {
			path += "/" + sp
		}
		p := a.l.pkgs[path]
		a.tracked[p.pkg] = true
		scope := p.pkg.Scope()
		names := scope.Names()
		sort.Strings(names)
		for _, n := range names {
			switch o := scope.Lookup(n).(type) {
			case *types.Var:
				pos := a.l.fset.Position(o.Pos())
				a.vars[o] = &varEntry{name: short(p.pkg) + "." + n, typ: typeStr(o.Type()), ref: carriesRef(o.Type(), 0),
					file: a.relFile(pos.Filename), line: pos.Line}
				a.vorder = append(a.vorder, o)
			case *types.TypeName:
				if o.IsAlias() {
					continue
				}
				st, ok := o.Type().Underlying().(*types.Struct)
				if !ok {
					continue
				}
				for i := 0; i < st.NumFields(); i++ {
					f := st.Field(i)
					pos := a.l.fset.Position(f.Pos())
					a.fields[f] = &fieldEntry{typ: short(p.pkg) + "." + n, field: f.Name(), ftyp: typeStr(f.Type()),
						file: a.relFile(pos.Filename), line: pos.Line}
					a.forder = append(a.forder, f)
				}
			}
		}
		// blank package-level variables (var _ = ...) are not in the scope and hold nothing
	}
}

func (a *analysis) relFile(f string) string {
	r, err := filepath.Rel(a.l.repo, f)
	if err != nil {
		return f
	}
	return r
}

type walker struct {
	a        *analysis
	p        *pkgInfo
	fn       string // enclosing function for reporting
	init     bool   // executes during package initialisation
	fromInit bool   // the code is, or is a function literal created by, initialisation code
	lits     []*ast.FuncLit
	stack    []ast.Node
}

// capturedVar: inside a function literal that initialisation code created (the
// value of a package-level func variable, a callback stored in a table, an
// immediately-invoked builder), a local variable declared outside the innermost
// literal lives as long as the process does and is shared by all runtimes.
func (w *walker) capturedVar(id *ast.Ident) *types.Var {
	if !w.fromInit || len(w.lits) == 0 {
		return nil
	}
	o, ok := w.p.info.Uses[id].(*types.Var)
	if !ok || o.IsField() || o.Pkg() == nil || o.Parent() == nil || o.Parent() == o.Pkg().Scope() {
		return nil
	}
	in := w.lits[len(w.lits)-1]
	if o.Pos() >= in.Pos() && o.Pos() < in.End() {
		return nil
	}
	if _, ok := w.a.vars[o]; !ok {
		pos := w.a.l.fset.Position(o.Pos())
		w.a.vars[o] = &varEntry{name: fmt.Sprintf("%s.<captured %s in %s>", short(o.Pkg()), o.Name(), strings.TrimSuffix(strings.TrimPrefix(w.fn, short(o.Pkg())+"."), ".func")),
			typ: typeStr(o.Type()), ref: carriesRef(o.Type(), 0), file: w.a.relFile(pos.Filename), line: pos.Line}
		w.a.vorder = append(w.a.vorder, o)
	}
	return o
}

func (w *walker) at(n ast.Node) (string, int) {
	pos := w.a.l.fset.Position(n.Pos())
	return w.a.relFile(pos.Filename), pos.Line
}

func (w *walker) mk(kind string, n ast.Node, detail string) site {
	f, l := w.at(n)
	return site{kind: kind, fn: w.fn, file: f, line: l, init: w.init, detail: detail}
}

func (w *walker) pkgVar(id *ast.Ident) *types.Var {
	if o, ok := w.p.info.Uses[id].(*types.Var); ok {
		if _, ok := w.a.vars[o]; ok {
			return o
		}
	}
	return nil
}

func (w *walker) fieldOf(sel *ast.SelectorExpr) *types.Var {
	if s, ok := w.p.info.Selections[sel]; ok && s.Kind() == types.FieldVal {
		if f, ok := s.Obj().(*types.Var); ok {
			if _, ok := w.a.fields[f]; ok {
				return f
			}
		}
	}
	return nil
}

func (w *walker) typeOf(e ast.Expr) types.Type {
	if tv, ok := w.p.info.Types[e]; ok {
		return tv.Type
	}
	if id, ok := e.(*ast.Ident); ok {
		if o := w.p.info.Uses[id]; o != nil {
			return o.Type()
		}
	}
	return nil
}

// storeTo records a store through the lvalue e: kind for the outermost
// variable/field, KElem for everything the path goes through.
func (w *walker) storeTo(e ast.Expr, kind, detail string, n ast.Node) {
	outer := true
	through := "" // how we got below the current node
	for {
		switch x := e.(type) {
		case *ast.ParenExpr:
			e = x.X
			continue
		case *ast.Ident:
			v := w.pkgVar(x)
			if v == nil {
				v = w.capturedVar(x)
			}
			if v != nil {
				k := kind
				if !outer {
					k = "KElem"
				}
				ent := w.a.vars[v]
				ent.sites = append(ent.sites, w.mk(k, n, detail+through))
			}
			return
		case *ast.SelectorExpr:
			if f := w.fieldOf(x); f != nil {
				if outer && (kind == "KAssign" || kind == "KIncDec") {
					// (append(v.f, ..), copy(v.f, ..), delete(v.f, ..), &v.f and pointer-receiver method calls on
					// v.f can reach memory the copy shares with its original and are still recorded)
					// v.f = e where v is a local variable (or by-value parameter, or the variable bound by a
					// type switch) of struct type, not captured by a closure: the store changes the local copy
					// only, no other goroutine or runtime can see it.  Stores below the field (v.f[i], *v.f,
					// v.f.g through a pointer) have outer == false and are still recorded.
					if id, ok := unparen(x.X).(*ast.Ident); ok && w.pkgVar(id) == nil {
						if v, ok := w.p.info.Uses[id].(*types.Var); ok && !v.IsField() && v.Parent() != nil && v.Pkg() != nil && v.Parent() != v.Pkg().Scope() {
							captured := false
							if len(w.lits) > 0 {
								in := w.lits[len(w.lits)-1]
								captured = !(v.Pos() >= in.Pos() && v.Pos() < in.End())
							}
							if _, isStruct := v.Type().Underlying().(*types.Struct); isStruct && !captured {
								return
							}
						}
					}
				}
				k := kind
				if !outer {
					k = "KElem"
				}
				ent := w.a.fields[f]
				ent.sites = append(ent.sites, w.mk(k, n, detail+through))
				// embedded promotions: the implicit path fields are stored into as well
				outer = false
				through = " via ." + f.Name()
				e = x.X
				continue
			}
			if id, ok := x.X.(*ast.Ident); ok {
				if _, isPkg := w.p.info.Uses[id].(*types.PkgName); isPkg {
					// qualified identifier of another package
					if o, ok := w.p.info.Uses[x.Sel].(*types.Var); ok {
						if ent, ok := w.a.vars[o]; ok {
							k := kind
							if !outer {
								k = "KElem"
							}
							ent.sites = append(ent.sites, w.mk(k, n, detail+through))
						}
					}
					return
				}
			}
			outer = false
			e = x.X
			continue
		case *ast.IndexExpr:
			outer = false
			through = " via [i]"
			e = x.X
			continue
		case *ast.SliceExpr:
			outer = false
			through = " via [i:j]"
			e = x.X
			continue
		case *ast.StarExpr:
			outer = false
			through = " via *"
			e = x.X
			continue
		case *ast.TypeAssertExpr:
			outer = false
			e = x.X
			continue
		case *ast.CallExpr:
			// store through the result of a call: cannot be attributed statically
			return
		default:
			return
		}
	}
}

func (w *walker) parent(k int) ast.Node {
	if len(w.stack) > k {
		return w.stack[len(w.stack)-1-k]
	}
	return nil
}

// the qualified identifier pkg.Var as an expression
func (w *walker) qualifiedVar(e ast.Expr) *types.Var {
	switch x := e.(type) {
	case *ast.ParenExpr:
		return w.qualifiedVar(x.X)
	case *ast.Ident:
		return w.pkgVar(x)
	case *ast.SelectorExpr:
		if id, ok := x.X.(*ast.Ident); ok {
			if _, isPkg := w.p.info.Uses[id].(*types.PkgName); isPkg {
				if o, ok := w.p.info.Uses[x.Sel].(*types.Var); ok {
					if _, ok := w.a.vars[o]; ok {
						return o
					}
				}
			}
		}
	}
	return nil
}

func calleeName(w *walker, c *ast.CallExpr) string {
	switch f := c.Fun.(type) {
	case *ast.Ident:
		return f.Name
	case *ast.SelectorExpr:
		if s, ok := w.p.info.Selections[f]; ok {
			if fn, ok := s.Obj().(*types.Func); ok {
				return strings.ReplaceAll(strings.ReplaceAll(fn.FullName(), modPath+"/", ""), modPath, "otto")
			}
		}
		if id, ok := f.X.(*ast.Ident); ok {
			return id.Name + "." + f.Sel.Name
		}
		return f.Sel.Name
	}
	return "call"
}

func (w *walker) visit(n ast.Node) bool {
	w.structCopies(n)
	switch x := n.(type) {
	case *ast.AssignStmt:
		if x.Tok != token.DEFINE {
			kind := "KAssign"
			for _, lhs := range x.Lhs {
				w.storeTo(lhs, kind, x.Tok.String(), x)
			}
		}
	case *ast.IncDecStmt:
		w.storeTo(x.X, "KIncDec", x.Tok.String(), x)
	case *ast.RangeStmt:
		if x.Tok == token.ASSIGN {
			if x.Key != nil {
				w.storeTo(x.Key, "KAssign", "range", x)
			}
			if x.Value != nil {
				w.storeTo(x.Value, "KAssign", "range", x)
			}
		}
	case *ast.UnaryExpr:
		if x.Op == token.AND {
			if _, isLit := unparen(x.X).(*ast.CompositeLit); !isLit {
				w.storeTo(x.X, "KAddr", "&", x)
			}
		}
	case *ast.CallExpr:
		if id, ok := x.Fun.(*ast.Ident); ok {
			if _, isBuiltin := w.p.info.Uses[id].(*types.Builtin); isBuiltin && len(x.Args) > 0 {
				switch id.Name {
				case "delete", "clear":
					w.storeTo(x.Args[0], "KElem", id.Name+"()", x)
				case "copy":
					w.storeTo(x.Args[0], "KElem", "copy()", x)
				case "append":
					w.storeTo(x.Args[0], "KAppend", "append()", x)
				}
			}
		}
		w.externalArgs(x)
		if sel, ok := x.Fun.(*ast.SelectorExpr); ok {
			if s, ok := w.p.info.Selections[sel]; ok && s.Kind() == types.MethodVal {
				fn, _ := s.Obj().(*types.Func)
				recvPtr := false
				if fn != nil {
					if sig, ok := fn.Type().(*types.Signature); ok && sig.Recv() != nil {
						_, recvPtr = sig.Recv().Type().(*types.Pointer)
					}
				}
				name := calleeName(w, x)
				rt := w.typeOf(sel.X)
				_, xIsPtr := derefNamed(rt)
				if recvPtr && !xIsPtr {
					// implicit &X: the method may write X's memory
					w.storeTo(sel.X, "KMethodPtr", name, x)
				} else if v := w.qualifiedVar(sel.X); v != nil {
					// method call on a package-level reference: may mutate the referent
					if rt != nil {
						switch rt.Underlying().(type) {
						case *types.Pointer, *types.Map, *types.Slice, *types.Chan, *types.Interface:
							ent := w.a.vars[v]
							ent.sites = append(ent.sites, w.mk("KMethodCall", x, name))
						}
					}
				}
			}
		}
	case *ast.Ident:
		w.escape(x, x)
	case *ast.SelectorExpr:
		if v := w.qualifiedVar(x); v != nil {
			if _, isId := x.X.(*ast.Ident); isId {
				w.escapeVar(v, x)
				return false
			}
		}
	}
	return true
}

// externalArgs: a slice/map/pointer held in a struct field and handed to a
// function outside the six packages (sort.Strings(node.varList), ...) may be
// modified in place by it; the store is invisible in the source text of the
// tree, so the hand-over itself is reported as an escape of the field.
func (w *walker) externalArgs(c *ast.CallExpr) {
	var callee types.Object
	switch f := c.Fun.(type) {
	case *ast.SelectorExpr:
		if s, ok := w.p.info.Selections[f]; ok {
			callee = s.Obj()
		} else {
			callee = w.p.info.Uses[f.Sel]
		}
	case *ast.Ident:
		callee = w.p.info.Uses[f]
	}
	fn, ok := callee.(*types.Func)
	if !ok || fn.Pkg() == nil || w.a.tracked[fn.Pkg()] {
		return
	}
	name := calleeName(w, c)
	if name == "call" || !strings.Contains(name, ".") {
		name = fn.Pkg().Name() + "." + fn.Name()
	}
	for _, arg := range c.Args {
		e := unparen(arg)
		if sl, ok := e.(*ast.SliceExpr); ok {
			e = unparen(sl.X)
		}
		sel, ok := e.(*ast.SelectorExpr)
		if !ok {
			continue
		}
		f := w.fieldOf(sel)
		if f == nil || !aliasKind(f.Type()) {
			continue
		}
		ent := w.a.fields[f]
		ent.sites = append(ent.sites, w.mk("KEscape", c, "argument of "+name))
	}
}

// trackedStruct: the named struct type (of the six packages, carrying references) of a value expression
func (w *walker) trackedStruct(e ast.Expr) string {
	tv, ok := w.p.info.Types[e]
	if !ok || !tv.IsValue() || tv.Type == nil {
		return ""
	}
	n, ok := tv.Type.(*types.Named)
	if !ok || n.Obj().Pkg() == nil || !w.a.tracked[n.Obj().Pkg()] {
		return ""
	}
	if _, ok := n.Underlying().(*types.Struct); !ok || !carriesRef(n, 0) {
		return ""
	}
	return short(n.Obj().Pkg()) + "." + n.Obj().Name()
}

// copyOf: e is stored somewhere (assigned, returned, put in a literal, passed); if it denotes an
// existing struct value (not a fresh literal or a call result) the store makes a shallow copy
func (w *walker) copyOf(e ast.Expr, ctx string, at ast.Node) {
	e = unparen(e)
	switch x := e.(type) {
	case *ast.StarExpr, *ast.Ident, *ast.SelectorExpr, *ast.IndexExpr:
		if id, ok := x.(*ast.Ident); ok {
			if _, isVar := w.p.info.Uses[id].(*types.Var); !isVar {
				return
			}
		}
		if t := w.trackedStruct(e); t != "" {
			f, l := w.at(at)
			form := "value"
			if _, ok := x.(*ast.StarExpr); ok {
				form = "*p"
			}
			w.a.copies = append(w.a.copies, copySite{typ: t, fn: w.fn, file: f, line: l, detail: form + " " + ctx})
		}
	}
}

func (w *walker) structCopies(n ast.Node) {
	switch x := n.(type) {
	case *ast.AssignStmt:
		for _, r := range x.Rhs {
			w.copyOf(r, "assigned", x)
		}
	case *ast.ValueSpec:
		for _, r := range x.Values {
			w.copyOf(r, "assigned", x)
		}
	case *ast.ReturnStmt:
		for _, r := range x.Results {
			w.copyOf(r, "returned", x)
		}
	case *ast.CompositeLit:
		for _, el := range x.Elts {
			if kv, ok := el.(*ast.KeyValueExpr); ok {
				el = kv.Value
			}
			w.copyOf(el, "stored in composite literal", x)
		}
	case *ast.UnaryExpr:
		if x.Op == token.AND {
			if id, ok := unparen(x.X).(*ast.Ident); ok {
				if v, ok := w.p.info.Uses[id].(*types.Var); ok && !v.IsField() && w.isParam(v) {
					if t := w.trackedStruct(id); t != "" {
						f, l := w.at(x)
						w.a.copies = append(w.a.copies, copySite{typ: t, fn: w.fn, file: f, line: l, detail: "&param (address of the by-value copy)"})
					}
				}
			}
		}
	}
}

// isParam: v is a parameter or receiver of the enclosing function declaration or literal
func (w *walker) isParam(v *types.Var) bool {
	check := func(ft *ast.FuncType, recv *ast.FieldList) bool {
		lists := []*ast.FieldList{ft.Params, recv}
		for _, fl := range lists {
			if fl == nil {
				continue
			}
			for _, f := range fl.List {
				for _, nm := range f.Names {
					if w.p.info.Defs[nm] == v {
						return true
					}
				}
			}
		}
		return false
	}
	for _, n := range w.stack {
		switch d := n.(type) {
		case *ast.FuncDecl:
			if check(d.Type, d.Recv) {
				return true
			}
		case *ast.FuncLit:
			if check(d.Type, nil) {
				return true
			}
		}
	}
	return false
}

func unparen(e ast.Expr) ast.Expr {
	for {
		p, ok := e.(*ast.ParenExpr)
		if !ok {
			return e
		}
		e = p.X
	}
}

func derefNamed(t types.Type) (types.Type, bool) {
	if t == nil {
		return nil, false
	}
	if p, ok := t.Underlying().(*types.Pointer); ok {
		return p.Elem(), true
	}
	return t, false
}

func (w *walker) escape(id *ast.Ident, n ast.Expr) {
	v := w.pkgVar(id)
	if v == nil {
		return
	}
	// pkg.Var seen from another package is handled at the SelectorExpr
	if sel, ok := w.parent(0).(*ast.SelectorExpr); ok && sel.Sel == id {
		return
	}
	w.escapeVar(v, n)
}

// escapeVar: a use of the package-level reference v as a plain value makes an
// alias through which later stores cannot be attributed to v.
func (w *walker) escapeVar(v *types.Var, n ast.Expr) {
	if !aliasKind(v.Type()) {
		return
	}
	// climb through parentheses
	k := 0
	var par ast.Node
	child := ast.Node(n)
	for {
		par = w.parent(k)
		if p, ok := par.(*ast.ParenExpr); ok {
			child = p
			k++
			continue
		}
		break
	}
	ctx := ""
	switch p := par.(type) {
	case *ast.SelectorExpr:
		if p.X == child {
			return // field read or method call (recorded separately)
		}
	case *ast.IndexExpr:
		if p.X == child {
			return // element read, or element store (recorded by storeTo)
		}
		ctx = "index value"
	case *ast.StarExpr:
		return
	case *ast.RangeStmt:
		if p.X == child {
			return
		}
	case *ast.BinaryExpr:
		if p.Op == token.EQL || p.Op == token.NEQ {
			return
		}
	case *ast.CallExpr:
		if p.Fun == child {
			return
		}
		if id, ok := p.Fun.(*ast.Ident); ok {
			if _, isBuiltin := w.p.info.Uses[id].(*types.Builtin); isBuiltin {
				switch id.Name {
				case "len", "cap", "delete", "copy", "clear":
					return
				case "append":
					if len(p.Args) > 0 && p.Args[0] == child {
						return // recorded as KAppend
					}
				}
			}
		}
		ctx = "argument of " + calleeName(w, p)
	case *ast.AssignStmt:
		for _, l := range p.Lhs {
			if l == child {
				return // plain store, recorded by storeTo
			}
		}
		ctx = "assigned"
	case *ast.ValueSpec:
		ctx = "assigned"
	case *ast.ReturnStmt:
		ctx = "returned"
	case *ast.CompositeLit, *ast.KeyValueExpr:
		ctx = "stored in composite literal"
	case *ast.SliceExpr:
		if p.X == child {
			ctx = "resliced"
		}
	case *ast.SendStmt:
		ctx = "sent"
	case *ast.UnaryExpr:
		if p.Op == token.AND {
			return // recorded as KAddr
		}
	case *ast.IncDecStmt:
		return
	case *ast.TypeAssertExpr, *ast.SwitchStmt, *ast.TypeSwitchStmt, *ast.IfStmt, *ast.CaseClause:
		if ctx == "" {
			ctx = "value use"
		}
	}
	if ctx == "" {
		ctx = fmt.Sprintf("value use in %T", par)
	}
	ent := w.a.vars[v]
	ent.sites = append(ent.sites, w.mk("KEscape", n, ctx))
}

func (w *walker) walk(n ast.Node) {
	ast.Inspect(n, func(c ast.Node) bool {
		if c == nil {
			if fl, ok := w.stack[len(w.stack)-1].(*ast.FuncLit); ok && len(w.lits) > 0 && w.lits[len(w.lits)-1] == fl {
				w.lits = w.lits[:len(w.lits)-1]
			}
			w.stack = w.stack[:len(w.stack)-1]
			return true
		}
		if fl, ok := c.(*ast.FuncLit); ok && w.init {
			// a function literal created during initialisation runs whenever it is called
			w2 := &walker{a: w.a, p: w.p, fn: w.fn + ".func", init: false, fromInit: true, lits: []*ast.FuncLit{fl}, stack: append([]ast.Node{}, w.stack...)}
			w2.stack = append(w2.stack, fl)
			w2.walk(fl.Body)
			return false
		}
		if fl, ok := c.(*ast.FuncLit); ok {
			w.lits = append(w.lits, fl)
		}
		cont := w.visit(c)
		if !cont {
			return false
		}
		w.stack = append(w.stack, c)
		return true
	})
}

func funcName(p *types.Package, d *ast.FuncDecl) string {
	name := d.Name.Name
	if d.Recv != nil && len(d.Recv.List) > 0 {
		t := d.Recv.List[0].Type
		star := ""
		if s, ok := t.(*ast.StarExpr); ok {
			star = "*"
			t = s.X
		}
		if ix, ok := t.(*ast.IndexExpr); ok {
			t = ix.X
		}
		if id, ok := t.(*ast.Ident); ok {
			return fmt.Sprintf("%s.(%s%s).%s", short(p), star, id.Name, name)
		}
	}
	return short(p) + "." + name
}

func (a *analysis) run() {
	for _, sp := range subPkgs {
		path := modPath
		if sp != "" {
			path += "/" + sp
		}
		p := a.l.pkgs[path]
		for _, f := range p.files {
			for _, d := range f.Decls {
				switch d := d.(type) {
				case *ast.FuncDecl:
					if d.Body == nil {
						continue
					}
					isInit := d.Recv == nil && d.Name.Name == "init"
					w := &walker{a: a, p: p, fn: funcName(p.pkg, d), init: isInit, fromInit: isInit}
					w.stack = []ast.Node{d}
					w.walk(d.Body)
				case *ast.GenDecl:
					if d.Tok != token.VAR {
						continue
					}
					for _, s := range d.Specs {
						vs := s.(*ast.ValueSpec)
						names := []string{}
						for _, n := range vs.Names {
							names = append(names, n.Name)
						}
						w := &walker{a: a, p: p, fn: short(p.pkg) + ".<decl " + strings.Join(names, ",") + ">", init: true, fromInit: true}
						for _, v := range vs.Values {
							w.stack = []ast.Node{vs}
							w.walk(v)
						}
					}
				}
			}
		}
	}
}

// ---- output ----

func coqStr(s string) string {
	s = strings.ReplaceAll(s, "\"", "'")
	var b strings.Builder
	for _, r := range s {
		if r < 0x20 || r > 0x7e {
			b.WriteByte('?')
		} else {
			b.WriteRune(r)
		}
	}
	return "\"" + b.String() + "\""
}

func coqBool(b bool) string {
	if b {
		return "true"
	}
	return "false"
}

func sortSites(s []site) {
	sort.SliceStable(s, func(i, j int) bool {
		if s[i].file != s[j].file {
			return s[i].file < s[j].file
		}
		if s[i].line != s[j].line {
			return s[i].line < s[j].line
		}
		return s[i].kind < s[j].kind
	})
}

func dedup(s []site) []site {
	out := s[:0]
	for i, x := range s {
		if i > 0 && x == s[i-1] {
			continue
		}
		out = append(out, x)
	}
	return out
}

func writeSites(b *bytes.Buffer, sites []site) {
	sortSites(sites)
	sites = dedup(sites)
	b.WriteString("[")
	for i, s := range sites {
		if i > 0 {
			b.WriteString(";")
		}
		fmt.Fprintf(b, "\n      mkSite %s %s %s %d %s %s", s.kind, coqStr(s.fn), coqStr(s.file), s.line, coqBool(s.init), coqStr(s.detail))
	}
	b.WriteString("]")
}

func (a *analysis) emit(out string) error {
	var b bytes.Buffer
	b.WriteString("(* GENERATED by /verif/harness/cmd/sharedfacts from the Go sources of the tree under check.\n   Do not edit: regenerated on every run of tools/check C20. *)\n")
	b.WriteString("From Coq Require Import String List ZArith Bool.\nFrom Otto Require Import C20.Facts.\nImport ListNotations.\nOpen Scope string_scope.\nOpen Scope Z_scope.\n\n")
	nsites := 0
	b.WriteString("Definition pkg_vars : list var_entry := [")
	for i, v := range a.vorder {
		e := a.vars[v]
		if i > 0 {
			b.WriteString(";")
		}
		fmt.Fprintf(&b, "\n  mkVar %s %s %s %s %d ", coqStr(e.name), coqStr(e.typ), coqBool(e.ref), coqStr(e.file), e.line)
		writeSites(&b, e.sites)
		nsites += len(e.sites)
	}
	b.WriteString("\n].\n\n")
	b.WriteString("Definition struct_fields : list field_entry := [")
	for i, f := range a.forder {
		e := a.fields[f]
		if i > 0 {
			b.WriteString(";")
		}
		fmt.Fprintf(&b, "\n  mkField %s %s %s %s %d ", coqStr(e.typ), coqStr(e.field), coqStr(e.ftyp), coqStr(e.file), e.line)
		writeSites(&b, e.sites)
		nsites += len(e.sites)
	}
	b.WriteString("\n].\n\n")
	b.WriteString("Definition call_edges : list call_edge := [")
	for i, c := range a.calls {
		if i > 0 {
			b.WriteString(";")
		}
		fmt.Fprintf(&b, "\n  mkCall %s %s %s %d %s", coqStr(c.callee), coqStr(c.caller), coqStr(c.file), c.line, coqBool(c.init))
	}
	b.WriteString("\n].\n\n")
	b.WriteString("Definition native_closures : list native_closure := [")
	for i, c := range a.closures {
		if i > 0 {
			b.WriteString(";")
		}
		fmt.Fprintf(&b, "\n  mkClosure %s %s %d %s %s %s", coqStr(c.fn), coqStr(c.file), c.line, coqStr(c.name), coqStr(c.vtyp), coqStr(c.usage))
	}
	b.WriteString("\n].\n\n")
	b.WriteString("Definition clone_fields : list clone_field := [")
	for i, c := range a.cfields {
		if i > 0 {
			b.WriteString(";")
		}
		fmt.Fprintf(&b, "\n  mkCloneField %s %s %s %s %s %s %s %d", coqStr(c.typ), coqStr(c.field), coqStr(c.ftyp), coqBool(c.ref), coqStr(c.how), coqStr(c.fn), coqStr(c.file), c.line)
	}
	b.WriteString("\n].\n\n")
	b.WriteString("Definition struct_copies : list copy_site := [")
	for i, c := range a.copies {
		if i > 0 {
			b.WriteString(";")
		}
		fmt.Fprintf(&b, "\n  mkCopy %s %s %s %d %s", coqStr(c.typ), coqStr(c.fn), coqStr(c.file), c.line, coqStr(c.detail))
	}
	b.WriteString("\n].\n\n")
	fmt.Fprintf(&b, "Definition table_counts : Z * Z * Z := (%d, %d, %d).\n", len(a.vorder), len(a.forder), nsites)
	fmt.Fprintf(&b, "Definition translator_type_errors : Z := %d.\n", a.l.typeErrs)
	old, err := os.ReadFile(out)
	if err == nil && bytes.Equal(old, b.Bytes()) {
		return nil // unchanged: keep the timestamp so that make does not rebuild
	}
	return os.WriteFile(out, b.Bytes(), 0o644)
}

// ---- diagnose ----

func diagnose(verif, run string) int {
	coq := filepath.Join(verif, "coq")
	if run == "" {
		run = filepath.Join(verif, "run", "C20")
	}
	dir := filepath.Join(run, "diag")
	_ = os.MkdirAll(dir, 0o755)
	// make sure the audit and the table are compiled (they are prerequisites of the broken proof)
	mk := exec.Command("timeout", "600", "make", "-C", coq, "C20/Audit.vo", "C20/Shared.vo")
	if out, err := mk.CombinedOutput(); err != nil {
		fmt.Printf("diagnose: cannot build the audit: %v\n%s\n", err, tail(string(out), 1500))
		return 1
	}
	src := "From Coq Require Import String List.\nFrom Otto Require Import C20.Facts C20.Audit C20.Shared.\n" +
		"Definition F := Eval vm_compute in (failing_report pkg_vars struct_fields call_edges struct_copies clone_fields native_closures).\nPrint F.\n"
	f := filepath.Join(dir, "Diag.v")
	if err := os.WriteFile(f, []byte(src), 0o644); err != nil {
		fmt.Println("diagnose:", err)
		return 1
	}
	cmd := exec.Command("timeout", "600", "coqc", "-R", coq, "Otto", f)
	cmd.Dir = dir
	out, err := cmd.CombinedOutput()
	if err != nil {
		fmt.Printf("diagnose: coqc failed: %v\n%s\n", err, tail(string(out), 1500))
		return 1
	}
	re := regexp.MustCompile(`"((?:[^"]|"")*)"`)
	n := 0
	for _, m := range re.FindAllStringSubmatch(string(out), -1) {
		fmt.Println("FAIL " + strings.Join(strings.Fields(m[1]), " "))
		n++
	}
	if n == 0 {
		fmt.Println("diagnose: the audit finds no failing site (the breakage is elsewhere)")
	}
	return 0
}

func tail(s string, n int) string {
	if len(s) > n {
		return s[len(s)-n:]
	}
	return s
}

func main() {
	repo := flag.String("repo", "/repo", "tree to analyse")
	out := flag.String("out", "", "Shared.v to write")
	diag := flag.Bool("diagnose", false, "print FAIL lines for the failing sites of the table on disk")
	verif := flag.String("verif", "/verif", "framework root (for -diagnose)")
	run := flag.String("run", "", "scratch directory (for -diagnose)")
	verbose := flag.Bool("v", false, "print loader warnings")
	flag.Parse()
	if *diag {
		os.Exit(diagnose(*verif, *run))
	}
	if *out == "" {
		fmt.Fprintln(os.Stderr, "sharedfacts: missing -out")
		os.Exit(2)
	}
	abs, err := filepath.Abs(*repo)
	if err != nil {
		fmt.Fprintln(os.Stderr, err)
		os.Exit(2)
	}
	fset := token.NewFileSet()
	build.Default.Dir = abs // the source importer resolves module dependencies of the tree from here
	l := &loader{fset: fset, repo: abs, pkgs: map[string]*pkgInfo{}, fake: map[string]*types.Package{}}
	l.std = importer.ForCompiler(fset, "source", nil).(types.ImporterFrom)
	for _, sp := range subPkgs {
		path := modPath
		if sp != "" {
			path += "/" + sp
		}
		if _, err := l.load(path); err != nil {
			fmt.Fprintf(os.Stderr, "sharedfacts: cannot load %s: %v\n", path, err)
			os.Exit(1)
		}
	}
	a := &analysis{l: l, tracked: map[*types.Package]bool{}, vars: map[*types.Var]*varEntry{}, fields: map[*types.Var]*fieldEntry{}}
	a.collect()
	a.run()
	a.callEdges()
	a.cloneFields()
	a.nativeClosures()
	if *verbose {
		for _, w := range l.warn {
			fmt.Fprintln(os.Stderr, "warning:", w)
		}
	}
	if err := a.emit(*out); err != nil {
		fmt.Fprintln(os.Stderr, "sharedfacts:", err)
		os.Exit(1)
	}
	ns := 0
	for _, e := range a.vars {
		ns += len(e.sites)
	}
	nf := 0
	for _, e := range a.fields {
		nf += len(e.sites)
	}
	fmt.Printf("sharedfacts: %d package-level variables (%d sites), %d struct fields (%d sites), %d type errors tolerated\n",
		len(a.vars), ns, len(a.fields), nf, l.typeErrs)
}
