// c15: correspondence cases for property C15 (Go -> JavaScript -> Go round trip).
package main

import (
	"fmt"
	"math"
	"reflect"
	"strings"
	"unicode/utf8"

	"github.com/robertkrimen/otto"
	. "ottoh/lib"
)

func main() {
	env := FromFlags("c15")
	runC15(env)
	env.Finish()
}

// ---------- named scalar types: they take the reflect branch of toValue ----------
type (
	NBool    bool
	NInt     int
	NInt8    int8
	NInt16   int16
	NInt32   int32
	NInt64   int64
	NUint    uint
	NUint8   uint8
	NUint16  uint16
	NUint32  uint32
	NUint64  uint64
	NFloat32 float32
	NFloat64 float64
	NString  string
)

// ---------- a Go scalar as the model sees it ----------
type gscalar struct {
	kind string // "nil","bool","int",...,"uint64","float32","float64","string"
	b    bool
	i    int64  // signed kinds
	u    uint64 // unsigned kinds
	f32  float32
	f64  float64
	s    string
}

var intKinds = []string{"int", "int8", "int16", "int32", "int64", "uint", "uint8", "uint16", "uint32", "uint64"}
var coqKind = map[string]string{"int": "KInt", "int8": "KInt8", "int16": "KInt16", "int32": "KInt32", "int64": "KInt64",
	"uint": "KUint", "uint8": "KUint8", "uint16": "KUint16", "uint32": "KUint32", "uint64": "KUint64"}

func isSigned(k string) bool { return k[0] == 'i' }
func isIntKind(k string) bool {
	_, ok := coqKind[k]
	return ok
}
func widthOf(k string) uint {
	switch k {
	case "int8", "uint8":
		return 8
	case "int16", "uint16":
		return 16
	case "int32", "uint32":
		return 32
	}
	return 64
}

func bits32(f float32) uint32 {
	if f != f {
		return 0x7FC00000
	}
	return math.Float32bits(f)
}

func (g gscalar) coq() string {
	switch g.kind {
	case "nil":
		return "GNil"
	case "bool":
		return "(GBool " + Cbool(g.b) + ")"
	case "float32":
		return fmt.Sprintf("(GF32 %d)", bits32(g.f32))
	case "float64":
		return "(GF64 " + Cdouble(g.f64) + ")"
	case "string":
		return "(GStr " + cbytes(g.s) + ")"
	}
	if isSigned(g.kind) {
		return fmt.Sprintf("(GInt %s %s)", coqKind[g.kind], Cz(g.i))
	}
	return fmt.Sprintf("(GInt %s %s)", coqKind[g.kind], Czu(g.u))
}

func (g gscalar) text() string {
	switch g.kind {
	case "nil":
		return "nil"
	case "bool":
		return fmt.Sprintf("bool(%v)", g.b)
	case "float32":
		return fmt.Sprintf("float32(bits 0x%08X = %v)", bits32(g.f32), g.f32)
	case "float64":
		return fmt.Sprintf("float64(bits 0x%016X = %v)", Dbits(g.f64), g.f64)
	case "string":
		return fmt.Sprintf("string(%q)", g.s)
	}
	if isSigned(g.kind) {
		return fmt.Sprintf("%s(%d)", g.kind, g.i)
	}
	return fmt.Sprintf("%s(%d)", g.kind, g.u)
}

func cbytes(s string) string {
	items := make([]string, len(s))
	for i := 0; i < len(s); i++ {
		items[i] = fmt.Sprintf("%d", s[i])
	}
	return Clist(items)
}

// the built-in typed Go value
func (g gscalar) plain() interface{} {
	switch g.kind {
	case "nil":
		return nil
	case "bool":
		return g.b
	case "int":
		return int(g.i)
	case "int8":
		return int8(g.i)
	case "int16":
		return int16(g.i)
	case "int32":
		return int32(g.i)
	case "int64":
		return g.i
	case "uint":
		return uint(g.u)
	case "uint8":
		return uint8(g.u)
	case "uint16":
		return uint16(g.u)
	case "uint32":
		return uint32(g.u)
	case "uint64":
		return g.u
	case "float32":
		return g.f32
	case "float64":
		return g.f64
	case "string":
		return g.s
	}
	panic("kind " + g.kind)
}

func (g gscalar) named() interface{} {
	switch g.kind {
	case "bool":
		return NBool(g.b)
	case "int":
		return NInt(g.i)
	case "int8":
		return NInt8(g.i)
	case "int16":
		return NInt16(g.i)
	case "int32":
		return NInt32(g.i)
	case "int64":
		return NInt64(g.i)
	case "uint":
		return NUint(g.u)
	case "uint8":
		return NUint8(g.u)
	case "uint16":
		return NUint16(g.u)
	case "uint32":
		return NUint32(g.u)
	case "uint64":
		return NUint64(g.u)
	case "float32":
		return NFloat32(g.f32)
	case "float64":
		return NFloat64(g.f64)
	case "string":
		return NString(g.s)
	}
	panic("named kind " + g.kind)
}

func (g gscalar) pointer() interface{} {
	if g.kind == "nil" {
		return (*int)(nil)
	}
	v := reflect.ValueOf(g.plain())
	p := reflect.New(v.Type())
	p.Elem().Set(v)
	if g.kind != "nil" && g.kind != "string" && g.kind != "bool" && g.kind != "float64" && g.kind != "float32" && g.i%2 == 0 && g.u%2 == 0 {
		// a pointer to a pointer: toValue drills through every level
		pp := reflect.New(p.Type())
		pp.Elem().Set(p)
		return pp.Interface()
	}
	return p.Interface()
}

// the double nearest to the scalar (Go's own conversion) and the JS literal of the counterpart
func (g gscalar) literal() string {
	switch g.kind {
	case "nil":
		return "undefined"
	case "bool":
		if g.b {
			return "true"
		}
		return "false"
	case "float32":
		return JSNum(float64(g.f32))
	case "float64":
		return JSNum(g.f64)
	case "string":
		return jsStrLit(g.s)
	}
	if isSigned(g.kind) {
		return JSNum(float64(g.i))
	}
	return JSNum(float64(g.u))
}

// JS string literal of valid UTF-8 text: BMP characters escaped, astral characters raw
// (an escaped surrogate pair is not combined by otto's parser: that is C03's finding, not ours)
func jsStrLit(s string) string {
	var b strings.Builder
	b.WriteByte('"')
	for _, c := range s {
		switch {
		case c >= 0x20 && c < 0x7f && c != '"' && c != '\\':
			b.WriteRune(c)
		case c >= 0x10000:
			b.WriteRune(c)
		default:
			fmt.Fprintf(&b, "\\u%04X", c)
		}
	}
	b.WriteByte('"')
	return b.String()
}

func (g gscalar) isNumber() bool {
	return g.kind != "nil" && g.kind != "bool" && g.kind != "string"
}

// ---------- generators ----------
type gen struct {
	env *Env
	vm  *otto.Otto
	idf otto.Value
}

func (g *gen) intValue(kind string) gscalar {
	r := g.env.Rng
	w := widthOf(kind)
	if isSigned(kind) {
		lo := int64(-1) << (w - 1)
		hi := -(lo + 1)
		var v int64
		switch r.Intn(8) {
		case 0:
			v = Pick(r, []int64{lo, lo + 1, hi, hi - 1, 0, 1, -1, 2, -2})
		case 1:
			if w == 64 {
				v = Pick(r, []int64{1 << 53, 1<<53 + 1, 1<<53 - 1, 1<<53 + 2, 1<<53 + 3, -(1 << 53), -(1<<53 + 1), -(1<<53 + 3),
					1<<63 - 512, 1<<63 - 513, 1<<63 - 1024, 1<<63 - 1025, 1<<63 - 511, -(1<<63 - 512), -(1<<63 - 513), -(1<<63 - 511),
					1<<62 + 1, 1 << 62, 999999999999999999, 1<<54 + 2, 1<<54 + 6, 1<<31 - 1, 1 << 31, -(1 << 31) - 1, 1 << 32, 1<<32 - 1})
			} else {
				v = Pick(r, []int64{lo, hi, lo / 2, hi / 2, hi/2 + 1, -(hi/2 + 1) - 1})
			}
		case 2: // around a power of two inside the type
			p := uint(r.Intn(int(w) - 1))
			v = (int64(1) << p) + int64(r.Intn(5)-2)
			if r.Intn(2) == 0 {
				v = -v
			}
		case 3: // wide random
			v = int64(r.Uint64())
		case 4: // wide random with few low bits set (exactly representable) or many
			v = int64(r.Uint64()) &^ (int64(1)<<uint(r.Intn(14)) - 1)
		default:
			v = int64(r.Intn(2001) - 1000)
		}
		// bring into range by Go's own conversion
		switch w {
		case 8:
			v = int64(int8(v))
		case 16:
			v = int64(int16(v))
		case 32:
			v = int64(int32(v))
		}
		return gscalar{kind: kind, i: v}
	}
	var hi uint64 = math.MaxUint64
	if w < 64 {
		hi = uint64(1)<<w - 1
	}
	var v uint64
	switch r.Intn(8) {
	case 0:
		v = Pick(r, []uint64{0, 1, 2, hi, hi - 1, hi / 2, hi/2 + 1, hi/2 + 2})
	case 1:
		if w == 64 {
			v = Pick(r, []uint64{1 << 53, 1<<53 + 1, 1<<53 - 1, 1<<53 + 2, 1<<53 + 3, 1<<63 - 1, 1 << 63, 1<<63 + 1, 1<<63 - 512, 1<<63 - 513,
				1<<63 - 511, 1<<63 + 1024, 1<<63 + 1025, 1<<63 + 3072, math.MaxUint64, math.MaxUint64 - 1023, math.MaxUint64 - 1024, math.MaxUint64 - 2047,
				1<<54 + 2, 1<<54 + 6, 1 << 62, 1<<32 - 1, 1 << 32, 1 << 31, 9999999999999999999, 10000000000000000000})
		} else {
			v = Pick(r, []uint64{hi, hi - 1, hi/2 + 1, hi / 2})
		}
	case 2:
		p := uint(r.Intn(int(w)))
		v = (uint64(1) << p) + uint64(r.Intn(5)) - 2
	case 3:
		v = r.Uint64()
	case 4:
		v = r.Uint64() &^ (uint64(1)<<uint(r.Intn(14)) - 1)
	default:
		v = uint64(r.Intn(1001))
	}
	if w < 64 {
		v &= hi
	}
	return gscalar{kind: kind, u: v}
}

func (g *gen) float64Value() float64 {
	r := g.env.Rng
	switch r.Intn(12) {
	case 0:
		return Pick(r, []float64{0, math.Copysign(0, -1), math.NaN(), math.Inf(1), math.Inf(-1), 1, -1, 0.5, -0.5, 1.5, 0.1, -0.1,
			math.MaxFloat64, -math.MaxFloat64, math.SmallestNonzeroFloat64, -math.SmallestNonzeroFloat64, 2.2250738585072014e-308})
	case 1: // around the int64 / uint64 / int32 edges
		base := Pick(r, []float64{1 << 31, 1 << 32, 1 << 53, 1 << 62, 1 << 63, 1 << 64, 1e21, 1e20, 1e15})
		f := base
		for k := r.Intn(4); k > 0; k-- {
			if r.Intn(2) == 0 {
				f = math.Nextafter(f, math.Inf(1))
			} else {
				f = math.Nextafter(f, 0)
			}
		}
		if r.Intn(3) == 0 {
			f += Pick(r, []float64{0.5, -0.5, 1, -1, 0.25})
		}
		if r.Intn(2) == 0 {
			f = -f
		}
		return f
	case 2: // integers with a fraction
		return float64(r.Intn(2001)-1000) + Pick(r, []float64{0.5, 0.25, 0.75, 0.125, 0.9999999999, 0.0000001})
	case 3: // wide integers
		return math.Trunc(math.Ldexp(r.Float64()*2-1, r.Intn(80)))
	case 4: // random bit pattern
		return math.Float64frombits(r.Uint64())
	case 5: // tiny
		return math.Ldexp(r.Float64()*2-1, -r.Intn(1080))
	case 6: // decimal-looking
		return float64(r.Intn(2000001)-1000000) / Pick(r, []float64{10, 100, 1000, 1e6})
	case 7: // huge
		return math.Ldexp(r.Float64()*2-1, 900+r.Intn(124))
	default:
		return float64(r.Intn(2001) - 1000)
	}
}

// float32 values whose shortest float32 digits are also the shortest digits of the widened double
func (g *gen) simpleFloat32() float32 {
	r := g.env.Rng
	switch r.Intn(6) {
	case 0:
		return Pick(r, []float32{0, float32(math.Copysign(0, -1)), float32(math.NaN()), float32(math.Inf(1)), float32(math.Inf(-1)), 1, -1})
	case 1:
		return float32(r.Intn(2001)-1000) + Pick(r, []float32{0.5, 0.25, 0.75, 0.125})
	case 2:
		return float32(int32(1) << uint(r.Intn(24)))
	default:
		return float32(r.Intn(2001) - 1000)
	}
}

func (g *gen) float32Value() (float32, bool) { // value, simple
	r := g.env.Rng
	switch r.Intn(8) {
	case 0, 1, 2:
		return g.simpleFloat32(), true
	case 3:
		return Pick(r, []float32{math.MaxFloat32, -math.MaxFloat32, math.SmallestNonzeroFloat32, -math.SmallestNonzeroFloat32, 1.17549435e-38, 1.1754942e-38, 0.1, -0.1, 16777216, 16777217, 3.4e38}), false
	case 4:
		return math.Float32frombits(r.Uint32()), false
	case 5: // subnormal float32
		return math.Float32frombits(uint32(r.Intn(1<<23)) | uint32(r.Intn(2))<<31), false
	default:
		return float32(r.Float64()*2000 - 1000), false
	}
}

var numericTexts = []string{"", " ", "0", "-0", "+0", "1", "-1", "42", " 42 ", "\t7\n", "007", "010", "0x10", "0X1f", "0xFF", " 0x7fffffffffffffff ", "+0x10", "-0x10", "0x", "+", "-",
	"Infinity", "-Infinity", "+Infinity", " Infinity ", "9007199254740993", "9007199254740992", "18446744073709551615", "18446744073709551616", "-9223372036854775808",
	"-9223372036854775809", "123456789012345678901234567890", "abc", "true", "x1", "Zz", "hello world", "1.5", ".5", "5.", "1e3", "1E-3", "-1.5e+3", "12abc", "1 2", "--1"}

func (g *gen) stringValue() string {
	r := g.env.Rng
	switch r.Intn(10) {
	case 0, 1:
		return Pick(r, numericTexts)
	case 2: // digits
		n := r.Intn(25) + 1
		var b strings.Builder
		if r.Intn(3) == 0 {
			b.WriteByte(Pick(r, []byte{'-', '+'}))
		}
		for i := 0; i < n; i++ {
			b.WriteByte(byte('0' + r.Intn(10)))
		}
		return b.String()
	case 3: // hex below 2^63
		return fmt.Sprintf("0x%x", r.Uint64()>>uint(1+r.Intn(60)))
	case 4: // multi-byte UTF-8
		n := r.Intn(6) + 1
		var b strings.Builder
		for i := 0; i < n; i++ {
			b.WriteRune(Pick(r, []rune{'a', 'Z', '0', ' ', 0xE9, 0x3B1, 0x20AC, 0xFFFD, 0xFFFF, 0x10000, 0x1F600, 0x10FFFF, 0x7FF, 0x800, 0xD7FF, 0xE000, '"', '\\', '\n', 0, '<', '&', 0x2028}))
		}
		return b.String()
	case 5: // invalid UTF-8
		n := r.Intn(5) + 1
		b := make([]byte, n)
		for i := range b {
			b[i] = Pick(r, []byte{0xff, 0xc0, 0x80, 0xed, 0xa0, 'a', 0xf8, 0xe2, 0x82})
		}
		return string(b)
	default:
		n := r.Intn(12)
		b := make([]byte, n)
		for i := range b {
			b[i] = byte(32 + r.Intn(95))
		}
		return string(b)
	}
}

func (g *gen) scalar() (gscalar, bool) { // value, "simple" (text of a float32 payload is comparable)
	r := g.env.Rng
	switch k := r.Intn(20); {
	case k == 0:
		return gscalar{kind: "nil"}, true
	case k == 1:
		return gscalar{kind: "bool", b: r.Intn(2) == 0}, true
	case k <= 10:
		return g.intValue(Pick(r, intKinds)), true
	case k <= 13:
		return gscalar{kind: "float64", f64: g.float64Value()}, true
	case k <= 16:
		f, simple := g.float32Value()
		return gscalar{kind: "float32", f32: f}, simple
	default:
		return gscalar{kind: "string", s: g.stringValue()}, true
	}
}

// ---------- observation helpers ----------
func guard(f func()) (panicked bool) {
	defer func() {
		if r := recover(); r != nil {
			panicked = true
		}
	}()
	f()
	return false
}

func errClassOf(err error) int64 {
	return ErrClass(Outcome{Err: err})
}

func obOf(panicked bool, err error, val string) string {
	if panicked {
		return "OPanic"
	}
	if err != nil {
		return fmt.Sprintf("(OErr %d)", errClassOf(err))
	}
	return "(OVal " + val + ")"
}

// Coq term of an exported Go scalar; ok=false if it is not a scalar of a known kind
func exportedScalar(x interface{}) (string, bool) {
	if x == nil {
		return "GNil", true
	}
	v := reflect.ValueOf(x)
	switch v.Kind() {
	case reflect.Bool:
		return "(GBool " + Cbool(v.Bool()) + ")", true
	case reflect.Int, reflect.Int8, reflect.Int16, reflect.Int32, reflect.Int64:
		return fmt.Sprintf("(GInt %s %s)", coqKind[v.Kind().String()], Cz(v.Int())), true
	case reflect.Uint, reflect.Uint8, reflect.Uint16, reflect.Uint32, reflect.Uint64:
		return fmt.Sprintf("(GInt %s %s)", coqKind[v.Kind().String()], Czu(v.Uint())), true
	case reflect.Float32:
		return fmt.Sprintf("(GF32 %d)", bits32(float32(v.Float()))), true
	case reflect.Float64:
		return "(GF64 " + Cdouble(v.Float()) + ")", true
	case reflect.String:
		return "(GStr " + cbytes(v.String()) + ")", true
	}
	return "", false
}

// run a script and return the observed value as an `ob` of the given projection
func (g *gen) jsOb(src string, proj func(v otto.Value) string) string {
	o := RunJS(g.vm, src)
	if o.Panic != nil {
		return "OPanic"
	}
	if o.Err != nil {
		return fmt.Sprintf("(OErr %d)", ErrClass(o))
	}
	return "(OVal " + proj(o.Val) + ")"
}

func projBool(v otto.Value) string {
	b, _ := v.ToBoolean()
	return Cbool(b)
}

func projStr(v otto.Value) string { return Cstr(v.String()) }

var typeofEnum = map[string]int{"undefined": 0, "boolean": 2, "number": 3, "string": 4, "object": 5, "function": 6}

func projTypeof(v otto.Value) string {
	n, ok := typeofEnum[v.String()]
	if !ok {
		n = 99
	}
	return fmt.Sprintf("%d", n)
}

// in-language text of an expression (oracle for text of doubles); "" on failure
func (g *gen) jsText(src string) string {
	o := RunJS(g.vm, src)
	if o.Panic != nil || o.Err != nil {
		return "\x00!fail"
	}
	return o.Val.String()
}

func (g *gen) jsNumBits(src string) uint64 {
	o := RunJS(g.vm, src)
	if o.Panic != nil || o.Err != nil {
		return 0x7FF8000000000001 // never a collapsed NaN: cannot agree
	}
	f, _ := o.Val.ToFloat()
	return Dbits(f)
}

var pathNames = []string{"Otto.Set", "named type", "pointer", "Otto.ToValue", "package ToValue", "Object.Set/Get", "Value.Call identity", "struct field", "slice element", "map value"}

// bring the Go scalar into the runtime along the path; the resulting Value is also bound to the global x
func (g *gen) inject(path int, s gscalar) (v otto.Value, ok bool, how string) {
	vm := g.vm
	panicked := guard(func() {
		switch path {
		case 0, 1, 2:
			var gv interface{}
			switch path {
			case 0:
				gv = s.plain()
			case 1:
				gv = s.named()
			default:
				gv = s.pointer()
			}
			if err := vm.Set("x", gv); err != nil {
				how = "Set error " + err.Error()
				return
			}
			var err error
			v, err = vm.Get("x")
			if err != nil {
				how = "Get error " + err.Error()
				return
			}
			ok = true
			return
		case 3:
			var err error
			v, err = vm.ToValue(s.plain())
			ok = err == nil
		case 4:
			var err error
			v, err = otto.ToValue(s.plain())
			ok = err == nil
		case 5:
			obj, err := vm.Object(`({})`)
			if err != nil {
				return
			}
			if err = obj.Set("p", s.plain()); err != nil {
				return
			}
			v, err = obj.Get("p")
			ok = err == nil
		case 6:
			var err error
			v, err = g.idf.Call(otto.UndefinedValue(), s.plain())
			ok = err == nil
		case 7:
			t := reflect.TypeOf(s.plain())
			st := reflect.New(reflect.StructOf([]reflect.StructField{{Name: "F", Type: t}, {Name: "G", Type: t}})).Elem()
			st.Field(1).Set(reflect.ValueOf(s.plain()))
			if err := vm.Set("c", st.Interface()); err != nil {
				return
			}
			var err error
			v, err = vm.Run("c.G")
			ok = err == nil
		case 8:
			t := reflect.TypeOf(s.plain())
			sl := reflect.MakeSlice(reflect.SliceOf(t), 3, 3)
			sl.Index(1).Set(reflect.ValueOf(s.plain()))
			if err := vm.Set("c", sl.Interface()); err != nil {
				return
			}
			var err error
			v, err = vm.Run("c[1]")
			ok = err == nil
		case 9:
			t := reflect.TypeOf(s.plain())
			m := reflect.MakeMap(reflect.MapOf(reflect.TypeOf(""), t))
			m.SetMapIndex(reflect.ValueOf("k"), reflect.ValueOf(s.plain()))
			if err := vm.Set("c", m.Interface()); err != nil {
				return
			}
			var err error
			v, err = vm.Run("c.k")
			ok = err == nil
		}
		if ok {
			if err := vm.Set("x", v); err != nil {
				ok = false
			}
		}
	})
	if panicked {
		return v, false, "panic"
	}
	return v, ok, how
}

func smallPlain(s gscalar) bool {
	switch s.kind {
	case "nil", "bool":
		return true
	case "float64":
		return s.f64 == math.Trunc(s.f64) && math.Abs(s.f64) <= 1000 && !(s.f64 == 0 && math.Signbit(s.f64))
	case "float32":
		return false
	case "string":
		for i := 0; i < len(s.s); i++ {
			if s.s[i] < 'a' || s.s[i] > 'z' {
				return false
			}
		}
		return len(s.s) > 0
	}
	if isSigned(s.kind) {
		return s.i >= -1000 && s.i <= 1000
	}
	return s.u <= 1000
}

// all observations of one Go scalar along one path
func (g *gen) scalarCases(path int, s gscalar, simple bool) {
	env := g.env
	v, ok, how := g.inject(path, s)
	head := fmt.Sprintf("%s via %s", s.text(), pathNames[path])
	nontriv := path != 0 || !smallPlain(s)
	if !ok {
		env.Add(fmt.Sprintf("CExport %d %s (OErr 8)", path, s.coq()), head+" -> could not be injected: "+how, "inject-failed", true)
		return
	}
	lit := s.literal()
	validText := s.kind != "string" || utf8.ValidString(s.s)
	refl32 := s.kind == "float32" && (path == 1 || path == 2)

	// Export
	{
		var x interface{}
		p := guard(func() { x, _ = v.Export() })
		term, known := exportedScalar(x)
		ob := "OPanic"
		if !p {
			if known {
				ob = "(OVal " + term + ")"
			} else {
				ob = "(OErr 8)"
			}
		}
		env.Add(fmt.Sprintf("CExport %d %s %s", path, s.coq(), ob), fmt.Sprintf("%s: Export() -> %#v", head, x), "export", nontriv)
	}
	// oracle for strings: in-language Number(LIT)
	onum := uint64(0)
	if s.kind == "string" && validText {
		onum = g.jsNumBits("Number(" + lit + ")")
	}
	if validText {
		{
			var f float64
			var err error
			p := guard(func() { f, err = v.ToFloat() })
			env.Add(fmt.Sprintf("CToFloat %d %s %d %s", path, s.coq(), onum, obOf(p, err, Cdouble(f))),
				fmt.Sprintf("%s: ToFloat() -> %v (bits %016X) err=%v panic=%v; Number(%s) bits %016X", head, f, Dbits(f), err, p, lit, onum), "tofloat", nontriv)
		}
		{
			var i int64
			var err error
			p := guard(func() { i, err = v.ToInteger() })
			env.Add(fmt.Sprintf("CToInt %d %s %d %s", path, s.coq(), onum, obOf(p, err, Cz(i))),
				fmt.Sprintf("%s: ToInteger() -> %d err=%v panic=%v", head, i, err, p), "tointeger", nontriv)
		}
		{
			preds := make([]string, 0, 11)
			p := guard(func() {
				for _, b := range []bool{v.IsDefined(), v.IsUndefined(), v.IsNull(), v.IsPrimitive(), v.IsBoolean(), v.IsNumber(), v.IsNaN(), v.IsString(), v.IsObject(), v.IsFunction(), v.Class() == ""} {
					preds = append(preds, Cbool(b))
				}
			})
			if p {
				preds = []string{}
			}
			env.Add(fmt.Sprintf("CPred %d %s %d %s", path, s.coq(), onum, Clist(preds)),
				fmt.Sprintf("%s: IsDefined,IsUndefined,IsNull,IsPrimitive,IsBoolean,IsNumber,IsNaN,IsString,IsObject,IsFunction,Class()==\"\" -> %v panic=%v", head, preds, p), "predicates", nontriv)
		}
	}
	{
		var b bool
		var err error
		p := guard(func() { b, err = v.ToBoolean() })
		env.Add(fmt.Sprintf("CToBool %d %s %s", path, s.coq(), obOf(p, err, Cbool(b))),
			fmt.Sprintf("%s: ToBoolean() -> %v err=%v panic=%v", head, b, err, p), "toboolean", nontriv)
	}
	// text: Go-side ToString against the in-language String(LIT)
	if !refl32 || simple {
		ostr := ""
		if s.isNumber() {
			ostr = g.jsText("String(" + lit + ")")
		}
		var t string
		var err error
		p := guard(func() { t, err = v.ToString() })
		ob := obOf(p, err, cbytes(t))
		env.Add(fmt.Sprintf("CToStr %d %s %s %s", path, s.coq(), cbytes(ostr), ob),
			fmt.Sprintf("%s: ToString() -> %q err=%v panic=%v; String(%s) = %q", head, t, err, p, lit, ostr), "tostring", nontriv)
	}
	// MarshalJSON against the in-language JSON.stringify(LIT); strings: the text must parse back to the string
	if validText && !refl32 {
		ojson := ""
		if s.isNumber() {
			// 15.12.3: a finite number is serialised as ToString(number)
			ojson = g.jsText("isFinite(" + lit + ") ? String(" + lit + ") : JSON.stringify(" + lit + ")")
		}
		var bs []byte
		var err error
		p := guard(func() { bs, err = v.MarshalJSON() })
		obtxt := string(bs)
		if s.kind == "string" && !p && err == nil {
			ojson = "1"
			back := g.jsText("JSON.parse(" + jsStrLit(string(bs)) + ") === " + lit)
			if utf8.Valid(bs) && back == "true" {
				obtxt = "1"
			} else {
				obtxt = "0"
			}
		}
		env.Add(fmt.Sprintf("CJson %d %s %s %s", path, s.coq(), cbytes(ojson), obOf(p, err, cbytes(obtxt))),
			fmt.Sprintf("%s: MarshalJSON() -> %q err=%v panic=%v; in-language JSON text of %s = %q (strings: 1 = text parses back to the string)", head, bs, err, p, lit, ojson), "marshaljson", nontriv)
	}
	// the script's view of x
	if validText {
		ostr := g.jsText("String(" + lit + ")")
		ty := g.jsOb("typeof x", projTypeof)
		eq := g.jsOb("x === "+lit, projBool)
		sign := "(OVal true)"
		if s.isNumber() {
			sign = g.jsOb("(1/x === 1/"+lit+") || (1/x !== 1/x && 1/"+lit+" !== 1/"+lit+")", projBool)
		}
		bo := g.jsOb("Boolean(x) === !!x && (x ? true : false)", projBool)
		sx := "None"
		if !refl32 || simple {
			sx = "(Some " + g.jsOb("String(x)", projStr) + ")"
		}
		env.Add(fmt.Sprintf("CScript %d %s %s %s %s %s %s %s", path, s.coq(), Cstr(ostr), ty, eq, sign, bo, sx),
			fmt.Sprintf("%s: script sees typeof x = %s, x === %s -> %s, sign of zero agrees -> %s, Boolean(x) -> %s, String(x) -> %s; String(%s) = %q", head, ty, lit, eq, sign, bo, sx, lit, ostr), "script-view", nontriv)
	}
}

func runC15(env *Env) {
	env.Import = "Otto.C15.Corr"
	env.Rule = "Go scalars of every kind and width (boundary integers per width, around 2^53/2^63/2^64, all float classes as bit patterns, float32 incl. subnormals, numeric/UTF-8/invalid strings, nil) injected along 10 paths (Set, named type, pointer, ToValue, Object.Set, call argument, struct field, slice element, map value) and read back by Export/ToFloat/ToInteger/ToBoolean/ToString/MarshalJSON/predicates and by scripts; non-trivial = distinct case whose path is not plain Otto.Set or whose value is not a small integer, bool, nil or lower-case word"
	g := &gen{env: env, vm: otto.New()}
	idf, err := g.vm.Run(`(function(a){ return a })`)
	Must(err)
	g.idf = idf
	r := env.Rng

	// pinned witnesses of the listed findings run first
	g.scalarCases(1, gscalar{kind: "float32", f32: 0.5}, true)
	g.scalarCases(2, gscalar{kind: "float32", f32: float32(math.NaN())}, true)
	g.scalarCases(0, gscalar{kind: "uint64", u: 1<<53 + 1}, true)
	g.scalarCases(0, gscalar{kind: "int64", i: 1<<53 + 1}, true)
	g.scalarCases(0, gscalar{kind: "float64", f64: math.NaN()}, true)
	g.scalarCases(0, gscalar{kind: "float64", f64: math.Inf(-1)}, true)

	for env.Count() < env.N {
		s, simple := g.scalar()
		path := 0
		switch k := r.Intn(10); {
		case k < 3:
			path = 0
		case k < 5:
			path = 1 + r.Intn(2)
		default:
			path = 3 + r.Intn(7)
		}
		if s.kind == "nil" && (path == 1 || path >= 7) {
			path = Pick(r, []int{0, 2, 3, 4, 5, 6})
		}
		g.scalarCases(path, s, simple)
	}
}
