// c15: correspondence cases for property C15 (Go -> JavaScript -> Go round trip).
package main

import (
	"encoding/json"
	"fmt"
	"os"
	"os/exec"
	"runtime/debug"
	"strconv"
	"math"
	"reflect"
	"strings"
	"unicode/utf8"

	"github.com/robertkrimen/otto"
	. "ottoh/lib"
)

func jsonUnmarshal(s string, into interface{}) error { return json.Unmarshal([]byte(s), into) }
func jsonMarshal(x interface{}) ([]byte, error)        { return json.Marshal(x) }

func main() {
	if len(os.Args) == 3 && os.Args[1] == "cyclic-child" {
		n, _ := strconv.Atoi(os.Args[2])
		cyclicChild(n)
		return
	}
	env := FromFlags("c15")
	runC15(env)
	env.Finish()
}

// ---------- named scalar types: they take the reflect branch of toValue ----------
type (
	NBool    bool
	NInt     int
	NInt8    int8
	NInt16   int16
	NInt32   int32
	NInt64   int64
	NUint    uint
	NUint8   uint8
	NUint16  uint16
	NUint32  uint32
	NUint64  uint64
	NFloat32 float32
	NFloat64 float64
	NString  string
)

// ---------- a Go scalar as the model sees it ----------
type gscalar struct {
	kind string // "nil","bool","int",...,"uint64","float32","float64","string"
	b    bool
	i    int64  // signed kinds
	u    uint64 // unsigned kinds
	f32  float32
	f64  float64
	s    string
}

var intKinds = []string{"int", "int8", "int16", "int32", "int64", "uint", "uint8", "uint16", "uint32", "uint64"}
var coqKind = map[string]string{"int": "KInt", "int8": "KInt8", "int16": "KInt16", "int32": "KInt32", "int64": "KInt64",
	"uint": "KUint", "uint8": "KUint8", "uint16": "KUint16", "uint32": "KUint32", "uint64": "KUint64"}

func isSigned(k string) bool { return k[0] == 'i' }
func isIntKind(k string) bool {
	_, ok := coqKind[k]
	return ok
}
func widthOf(k string) uint {
	switch k {
	case "int8", "uint8":
		return 8
	case "int16", "uint16":
		return 16
	case "int32", "uint32":
		return 32
	}
	return 64
}

func bits32(f float32) uint32 {
	if f != f {
		return 0x7FC00000
	}
	return math.Float32bits(f)
}

func (g gscalar) coq() string {
	switch g.kind {
	case "nil":
		return "GNil"
	case "bool":
		return "(GBool " + Cbool(g.b) + ")"
	case "float32":
		return fmt.Sprintf("(GF32 %d)", bits32(g.f32))
	case "float64":
		return "(GF64 " + Cdouble(g.f64) + ")"
	case "string":
		return "(GStr " + cbytes(g.s) + ")"
	}
	if isSigned(g.kind) {
		return fmt.Sprintf("(GInt %s %s)", coqKind[g.kind], Cz(g.i))
	}
	return fmt.Sprintf("(GInt %s %s)", coqKind[g.kind], Czu(g.u))
}

func (g gscalar) text() string {
	switch g.kind {
	case "nil":
		return "nil"
	case "bool":
		return fmt.Sprintf("bool(%v)", g.b)
	case "float32":
		return fmt.Sprintf("float32(bits 0x%08X = %v)", bits32(g.f32), g.f32)
	case "float64":
		return fmt.Sprintf("float64(bits 0x%016X = %v)", Dbits(g.f64), g.f64)
	case "string":
		return fmt.Sprintf("string(%q)", g.s)
	}
	if isSigned(g.kind) {
		return fmt.Sprintf("%s(%d)", g.kind, g.i)
	}
	return fmt.Sprintf("%s(%d)", g.kind, g.u)
}

func cbytes(s string) string {
	items := make([]string, len(s))
	for i := 0; i < len(s); i++ {
		items[i] = fmt.Sprintf("%d", s[i])
	}
	return Clist(items)
}

// the built-in typed Go value
func (g gscalar) plain() interface{} {
	switch g.kind {
	case "nil":
		return nil
	case "bool":
		return g.b
	case "int":
		return int(g.i)
	case "int8":
		return int8(g.i)
	case "int16":
		return int16(g.i)
	case "int32":
		return int32(g.i)
	case "int64":
		return g.i
	case "uint":
		return uint(g.u)
	case "uint8":
		return uint8(g.u)
	case "uint16":
		return uint16(g.u)
	case "uint32":
		return uint32(g.u)
	case "uint64":
		return g.u
	case "float32":
		return g.f32
	case "float64":
		return g.f64
	case "string":
		return g.s
	}
	panic("kind " + g.kind)
}

func (g gscalar) named() interface{} {
	switch g.kind {
	case "bool":
		return NBool(g.b)
	case "int":
		return NInt(g.i)
	case "int8":
		return NInt8(g.i)
	case "int16":
		return NInt16(g.i)
	case "int32":
		return NInt32(g.i)
	case "int64":
		return NInt64(g.i)
	case "uint":
		return NUint(g.u)
	case "uint8":
		return NUint8(g.u)
	case "uint16":
		return NUint16(g.u)
	case "uint32":
		return NUint32(g.u)
	case "uint64":
		return NUint64(g.u)
	case "float32":
		return NFloat32(g.f32)
	case "float64":
		return NFloat64(g.f64)
	case "string":
		return NString(g.s)
	}
	panic("named kind " + g.kind)
}

func (g gscalar) pointer() interface{} {
	if g.kind == "nil" {
		return (*int)(nil)
	}
	v := reflect.ValueOf(g.plain())
	p := reflect.New(v.Type())
	p.Elem().Set(v)
	if g.kind != "nil" && g.kind != "string" && g.kind != "bool" && g.kind != "float64" && g.kind != "float32" && g.i%2 == 0 && g.u%2 == 0 {
		// a pointer to a pointer: toValue drills through every level
		pp := reflect.New(p.Type())
		pp.Elem().Set(p)
		return pp.Interface()
	}
	return p.Interface()
}

// the double nearest to the scalar (Go's own conversion) and the JS literal of the counterpart
func (g gscalar) literal() string {
	switch g.kind {
	case "nil":
		return "undefined"
	case "bool":
		if g.b {
			return "true"
		}
		return "false"
	case "float32":
		return jsNumF(float64(g.f32))
	case "float64":
		return jsNumF(g.f64)
	case "string":
		return jsStrLit(g.s)
	}
	if isSigned(g.kind) {
		return jsNumF(float64(g.i))
	}
	return jsNumF(float64(g.u))
}

// JS string literal of valid UTF-8 text: BMP characters escaped, astral characters raw
// (an escaped surrogate pair is not combined by otto's parser: that is C03's finding, not ours)
func jsStrLit(s string) string {
	var b strings.Builder
	b.WriteByte('"')
	for _, c := range s {
		switch {
		case c >= 0x20 && c < 0x7f && c != '"' && c != '\\':
			b.WriteRune(c)
		case c >= 0x10000:
			b.WriteRune(c)
		default:
			fmt.Fprintf(&b, "\\u%04X", c)
		}
	}
	b.WriteByte('"')
	return b.String()
}

// literal of a double whose evaluation has a float64 payload: otto keeps an integer literal as an
// int64, whose String() shows the exact digits beyond 2^53 (C06/C15-wide-int-text), so it cannot be
// the oracle for the text of the double
func jsNumF(f float64) string {
	s := JSNum(f)
	if strings.ContainsAny(s, ".eNI(") {
		return s
	}
	return s + ".0"
}

func (g gscalar) isNumber() bool {
	return g.kind != "nil" && g.kind != "bool" && g.kind != "string"
}

// ---------- generators ----------
type gen struct {
	env  *Env
	vm   *otto.Otto
	idf  otto.Value
	sunk otto.Value
	seq  seqState
	vmP  *otto.Otto // a runtime whose built-in prototypes carry enumerable data
	reop int
	ren  int64
}

func (g *gen) intValue(kind string) gscalar {
	r := g.env.Rng
	w := widthOf(kind)
	if isSigned(kind) {
		lo := int64(-1) << (w - 1)
		hi := -(lo + 1)
		var v int64
		switch r.Intn(8) {
		case 0:
			v = Pick(r, []int64{lo, lo + 1, hi, hi - 1, 0, 1, -1, 2, -2})
		case 1:
			if w == 64 {
				v = Pick(r, []int64{1 << 53, 1<<53 + 1, 1<<53 - 1, 1<<53 + 2, 1<<53 + 3, -(1 << 53), -(1<<53 + 1), -(1<<53 + 3),
					1<<63 - 512, 1<<63 - 513, 1<<63 - 1024, 1<<63 - 1025, 1<<63 - 511, -(1<<63 - 512), -(1<<63 - 513), -(1<<63 - 511),
					1<<62 + 1, 1 << 62, 999999999999999999, 1<<54 + 2, 1<<54 + 6, 1<<31 - 1, 1 << 31, -(1 << 31) - 1, 1 << 32, 1<<32 - 1})
			} else {
				v = Pick(r, []int64{lo, hi, lo / 2, hi / 2, hi/2 + 1, -(hi/2 + 1) - 1})
			}
		case 2: // around a power of two inside the type
			p := uint(r.Intn(int(w) - 1))
			v = (int64(1) << p) + int64(r.Intn(5)-2)
			if r.Intn(2) == 0 {
				v = -v
			}
		case 3: // wide random
			v = int64(r.Uint64())
		case 4: // wide random with few low bits set (exactly representable) or many
			v = int64(r.Uint64()) &^ (int64(1)<<uint(r.Intn(14)) - 1)
		default:
			v = int64(r.Intn(2001) - 1000)
		}
		// bring into range by Go's own conversion
		switch w {
		case 8:
			v = int64(int8(v))
		case 16:
			v = int64(int16(v))
		case 32:
			v = int64(int32(v))
		}
		return gscalar{kind: kind, i: v}
	}
	var hi uint64 = math.MaxUint64
	if w < 64 {
		hi = uint64(1)<<w - 1
	}
	var v uint64
	switch r.Intn(8) {
	case 0:
		v = Pick(r, []uint64{0, 1, 2, hi, hi - 1, hi / 2, hi/2 + 1, hi/2 + 2})
	case 1:
		if w == 64 {
			v = Pick(r, []uint64{1 << 53, 1<<53 + 1, 1<<53 - 1, 1<<53 + 2, 1<<53 + 3, 1<<63 - 1, 1 << 63, 1<<63 + 1, 1<<63 - 512, 1<<63 - 513,
				1<<63 - 511, 1<<63 + 1024, 1<<63 + 1025, 1<<63 + 3072, math.MaxUint64, math.MaxUint64 - 1023, math.MaxUint64 - 1024, math.MaxUint64 - 2047,
				1<<54 + 2, 1<<54 + 6, 1 << 62, 1<<32 - 1, 1 << 32, 1 << 31, 9999999999999999999, 10000000000000000000})
		} else {
			v = Pick(r, []uint64{hi, hi - 1, hi/2 + 1, hi / 2})
		}
	case 2:
		p := uint(r.Intn(int(w)))
		v = (uint64(1) << p) + uint64(r.Intn(5)) - 2
	case 3:
		v = r.Uint64()
	case 4:
		v = r.Uint64() &^ (uint64(1)<<uint(r.Intn(14)) - 1)
	default:
		v = uint64(r.Intn(1001))
	}
	if w < 64 {
		v &= hi
	}
	return gscalar{kind: kind, u: v}
}

func (g *gen) float64Value() float64 {
	r := g.env.Rng
	switch r.Intn(12) {
	case 0:
		return Pick(r, []float64{0, math.Copysign(0, -1), math.NaN(), math.Inf(1), math.Inf(-1), 1, -1, 0.5, -0.5, 1.5, 0.1, -0.1,
			math.MaxFloat64, -math.MaxFloat64, math.SmallestNonzeroFloat64, -math.SmallestNonzeroFloat64, 2.2250738585072014e-308})
	case 1: // around the int64 / uint64 / int32 edges
		base := Pick(r, []float64{1 << 31, 1 << 32, 1 << 53, 1 << 62, 1 << 63, 1 << 64, 1e21, 1e20, 1e15})
		f := base
		for k := r.Intn(4); k > 0; k-- {
			if r.Intn(2) == 0 {
				f = math.Nextafter(f, math.Inf(1))
			} else {
				f = math.Nextafter(f, 0)
			}
		}
		if r.Intn(3) == 0 {
			f += Pick(r, []float64{0.5, -0.5, 1, -1, 0.25})
		}
		if r.Intn(2) == 0 {
			f = -f
		}
		return f
	case 2: // integers with a fraction
		return float64(r.Intn(2001)-1000) + Pick(r, []float64{0.5, 0.25, 0.75, 0.125, 0.9999999999, 0.0000001})
	case 3: // wide integers
		return math.Trunc(math.Ldexp(r.Float64()*2-1, r.Intn(80)))
	case 4: // random bit pattern
		return math.Float64frombits(r.Uint64())
	case 5: // tiny
		return math.Ldexp(r.Float64()*2-1, -r.Intn(1080))
	case 6: // decimal-looking
		return float64(r.Intn(2000001)-1000000) / Pick(r, []float64{10, 100, 1000, 1e6})
	case 7: // huge
		return math.Ldexp(r.Float64()*2-1, 900+r.Intn(124))
	default:
		return float64(r.Intn(2001) - 1000)
	}
}

// float32 values whose shortest float32 digits are also the shortest digits of the widened double
func (g *gen) simpleFloat32() float32 {
	r := g.env.Rng
	switch r.Intn(6) {
	case 0:
		return Pick(r, []float32{0, float32(math.Copysign(0, -1)), float32(math.NaN()), float32(math.Inf(1)), float32(math.Inf(-1)), 1, -1})
	case 1:
		return float32(r.Intn(2001)-1000) + Pick(r, []float32{0.5, 0.25, 0.75, 0.125})
	case 2:
		return float32(int32(1) << uint(r.Intn(24)))
	default:
		return float32(r.Intn(2001) - 1000)
	}
}

func (g *gen) float32Value() (float32, bool) { // value, simple
	r := g.env.Rng
	switch r.Intn(8) {
	case 0, 1, 2:
		return g.simpleFloat32(), true
	case 3:
		return Pick(r, []float32{math.MaxFloat32, -math.MaxFloat32, math.SmallestNonzeroFloat32, -math.SmallestNonzeroFloat32, 1.17549435e-38, 1.1754942e-38, 0.1, -0.1, 16777216, 16777217, 3.4e38}), false
	case 4:
		return math.Float32frombits(r.Uint32()), false
	case 5: // subnormal float32
		return math.Float32frombits(uint32(r.Intn(1<<23)) | uint32(r.Intn(2))<<31), false
	default:
		return float32(r.Float64()*2000 - 1000), false
	}
}

var numericTexts = []string{"", " ", "0", "-0", "+0", "1", "-1", "42", " 42 ", "\t7\n", "007", "010", "0x10", "0X1f", "0xFF", " 0x7fffffffffffffff ", "+0x10", "-0x10", "0x", "+", "-",
	"Infinity", "-Infinity", "+Infinity", " Infinity ", "9007199254740993", "9007199254740992", "18446744073709551615", "18446744073709551616", "-9223372036854775808",
	"-9223372036854775809", "123456789012345678901234567890", "abc", "true", "x1", "Zz", "hello world", "1.5", ".5", "5.", "1e3", "1E-3", "-1.5e+3", "12abc", "1 2", "--1"}

func (g *gen) stringValue() string {
	r := g.env.Rng
	switch r.Intn(10) {
	case 0, 1:
		return Pick(r, numericTexts)
	case 2: // digits
		n := r.Intn(25) + 1
		var b strings.Builder
		if r.Intn(3) == 0 {
			b.WriteByte(Pick(r, []byte{'-', '+'}))
		}
		for i := 0; i < n; i++ {
			b.WriteByte(byte('0' + r.Intn(10)))
		}
		return b.String()
	case 3: // hex below 2^63
		return fmt.Sprintf("0x%x", r.Uint64()>>uint(1+r.Intn(60)))
	case 4: // multi-byte UTF-8
		n := r.Intn(6) + 1
		var b strings.Builder
		for i := 0; i < n; i++ {
			b.WriteRune(Pick(r, []rune{'a', 'Z', '0', ' ', 0xE9, 0x3B1, 0x20AC, 0xFFFD, 0xFFFF, 0x10000, 0x1F600, 0x10FFFF, 0x7FF, 0x800, 0xD7FF, 0xE000, '"', '\\', '\n', 0, '<', '&', 0x2028}))
		}
		return b.String()
	case 5: // invalid UTF-8
		n := r.Intn(5) + 1
		b := make([]byte, n)
		for i := range b {
			b[i] = Pick(r, []byte{0xff, 0xc0, 0x80, 0xed, 0xa0, 'a', 0xf8, 0xe2, 0x82})
		}
		return string(b)
	default:
		n := r.Intn(12)
		b := make([]byte, n)
		for i := range b {
			b[i] = byte(32 + r.Intn(95))
		}
		return string(b)
	}
}

func (g *gen) scalar() (gscalar, bool) { // value, "simple" (text of a float32 payload is comparable)
	r := g.env.Rng
	switch k := r.Intn(20); {
	case k == 0:
		return gscalar{kind: "nil"}, true
	case k == 1:
		return gscalar{kind: "bool", b: r.Intn(2) == 0}, true
	case k <= 10:
		return g.intValue(Pick(r, intKinds)), true
	case k <= 13:
		return gscalar{kind: "float64", f64: g.float64Value()}, true
	case k <= 16:
		f, simple := g.float32Value()
		return gscalar{kind: "float32", f32: f}, simple
	default:
		return gscalar{kind: "string", s: g.stringValue()}, true
	}
}

// ---------- observation helpers ----------
func guard(f func()) (panicked bool) {
	defer func() {
		if r := recover(); r != nil {
			panicked = true
		}
	}()
	f()
	return false
}

func errClassOf(err error) int64 {
	return ErrClass(Outcome{Err: err})
}

func obOf(panicked bool, err error, val string) string {
	if panicked {
		return "OPanic"
	}
	if err != nil {
		return fmt.Sprintf("(OErr %d)", errClassOf(err))
	}
	return "(OVal " + val + ")"
}

// Coq term of an exported Go scalar; ok=false if it is not a scalar of a known kind
func exportedScalar(x interface{}) (string, bool) {
	if x == nil {
		return "GNil", true
	}
	v := reflect.ValueOf(x)
	switch v.Kind() {
	case reflect.Bool:
		return "(GBool " + Cbool(v.Bool()) + ")", true
	case reflect.Int, reflect.Int8, reflect.Int16, reflect.Int32, reflect.Int64:
		return fmt.Sprintf("(GInt %s %s)", coqKind[v.Kind().String()], Cz(v.Int())), true
	case reflect.Uint, reflect.Uint8, reflect.Uint16, reflect.Uint32, reflect.Uint64:
		return fmt.Sprintf("(GInt %s %s)", coqKind[v.Kind().String()], Czu(v.Uint())), true
	case reflect.Float32:
		return fmt.Sprintf("(GF32 %d)", bits32(float32(v.Float()))), true
	case reflect.Float64:
		return "(GF64 " + Cdouble(v.Float()) + ")", true
	case reflect.String:
		return "(GStr " + cbytes(v.String()) + ")", true
	}
	return "", false
}

// run a script and return the observed value as an `ob` of the given projection
func (g *gen) jsOb(src string, proj func(v otto.Value) string) string {
	o := RunJS(g.vm, src)
	if o.Panic != nil {
		return "OPanic"
	}
	if o.Err != nil {
		return fmt.Sprintf("(OErr %d)", ErrClass(o))
	}
	return "(OVal " + proj(o.Val) + ")"
}

func projBool(v otto.Value) string {
	b, _ := v.ToBoolean()
	return Cbool(b)
}

func projStr(v otto.Value) string { return Cstr(v.String()) }

var typeofEnum = map[string]int{"undefined": 0, "boolean": 2, "number": 3, "string": 4, "object": 5, "function": 6}

func projTypeof(v otto.Value) string {
	n, ok := typeofEnum[v.String()]
	if !ok {
		n = 99
	}
	return fmt.Sprintf("%d", n)
}

// in-language text of an expression (oracle for text of doubles); "" on failure
func (g *gen) jsText(src string) string {
	o := RunJS(g.vm, src)
	if o.Panic != nil || o.Err != nil {
		return "\x00!fail"
	}
	return o.Val.String()
}

func (g *gen) jsNumBits(src string) uint64 {
	o := RunJS(g.vm, src)
	if o.Panic != nil || o.Err != nil {
		return 0x7FF8000000000001 // never a collapsed NaN: cannot agree
	}
	f, _ := o.Val.ToFloat()
	return Dbits(f)
}

var pathNames = []string{"Otto.Set", "named type", "pointer", "Otto.ToValue", "package ToValue", "Object.Set/Get", "Value.Call identity", "struct field", "slice element", "map value", "struct field of a named type", "slice element of a named type", "map value of a named type"}

// bring the Go scalar into the runtime along the path; the resulting Value is also bound to the global x
func (g *gen) inject(path int, s gscalar) (v otto.Value, ok bool, how string) {
	vm := g.vm
	panicked := guard(func() {
		switch path {
		case 0, 1, 2:
			var gv interface{}
			switch path {
			case 0:
				gv = s.plain()
			case 1:
				gv = s.named()
			default:
				gv = s.pointer()
			}
			if err := vm.Set("x", gv); err != nil {
				how = "Set error " + err.Error()
				return
			}
			var err error
			v, err = vm.Get("x")
			if err != nil {
				how = "Get error " + err.Error()
				return
			}
			ok = true
			return
		case 3:
			var err error
			v, err = vm.ToValue(s.plain())
			ok = err == nil
		case 4:
			var err error
			v, err = otto.ToValue(s.plain())
			ok = err == nil
		case 5:
			obj, err := vm.Object(`({})`)
			if err != nil {
				return
			}
			if err = obj.Set("p", s.plain()); err != nil {
				return
			}
			v, err = obj.Get("p")
			ok = err == nil
		case 6:
			var err error
			v, err = g.idf.Call(otto.UndefinedValue(), s.plain())
			ok = err == nil
		case 10, 11, 12:
			nv := reflect.ValueOf(s.named())
			t := nv.Type()
			var c interface{}
			src := ""
			switch path {
			case 10:
				st := reflect.New(reflect.StructOf([]reflect.StructField{{Name: "F", Type: t}, {Name: "G", Type: t}})).Elem()
				st.Field(1).Set(nv)
				c, src = st.Interface(), "c.G"
			case 11:
				sl := reflect.MakeSlice(reflect.SliceOf(t), 3, 3)
				sl.Index(1).Set(nv)
				c, src = sl.Interface(), "c[1]"
			default:
				m := reflect.MakeMap(reflect.MapOf(reflect.TypeOf(""), t))
				m.SetMapIndex(reflect.ValueOf("k"), nv)
				c, src = m.Interface(), "c.k"
			}
			if err := vm.Set("c", c); err != nil {
				return
			}
			var err error
			v, err = vm.Run(src)
			ok = err == nil
		case 7:
			t := reflect.TypeOf(s.plain())
			st := reflect.New(reflect.StructOf([]reflect.StructField{{Name: "F", Type: t}, {Name: "G", Type: t}})).Elem()
			st.Field(1).Set(reflect.ValueOf(s.plain()))
			if err := vm.Set("c", st.Interface()); err != nil {
				return
			}
			var err error
			v, err = vm.Run("c.G")
			ok = err == nil
		case 8:
			t := reflect.TypeOf(s.plain())
			sl := reflect.MakeSlice(reflect.SliceOf(t), 3, 3)
			sl.Index(1).Set(reflect.ValueOf(s.plain()))
			if err := vm.Set("c", sl.Interface()); err != nil {
				return
			}
			var err error
			v, err = vm.Run("c[1]")
			ok = err == nil
		case 9:
			t := reflect.TypeOf(s.plain())
			m := reflect.MakeMap(reflect.MapOf(reflect.TypeOf(""), t))
			m.SetMapIndex(reflect.ValueOf("k"), reflect.ValueOf(s.plain()))
			if err := vm.Set("c", m.Interface()); err != nil {
				return
			}
			var err error
			v, err = vm.Run("c.k")
			ok = err == nil
		}
		if ok {
			if err := vm.Set("x", v); err != nil {
				ok = false
			}
		}
	})
	if panicked {
		return v, false, "panic"
	}
	return v, ok, how
}

func smallPlain(s gscalar) bool {
	switch s.kind {
	case "nil", "bool":
		return true
	case "float64":
		return s.f64 == math.Trunc(s.f64) && math.Abs(s.f64) <= 1000 && !(s.f64 == 0 && math.Signbit(s.f64))
	case "float32":
		return false
	case "string":
		for i := 0; i < len(s.s); i++ {
			if s.s[i] < 'a' || s.s[i] > 'z' {
				return false
			}
		}
		return len(s.s) > 0
	}
	if isSigned(s.kind) {
		return s.i >= -1000 && s.i <= 1000
	}
	return s.u <= 1000
}

// all observations of one Go scalar along one path
func (g *gen) scalarCases(path int, s gscalar, simple bool) {
	env := g.env
	v, ok, how := g.inject(path, s)
	head := fmt.Sprintf("%s via %s", s.text(), pathNames[path])
	nontriv := path != 0 || !smallPlain(s)
	if !ok {
		env.Add(fmt.Sprintf("CExport %d %s (OErr 8)", path, s.coq()), head+" -> could not be injected: "+how, "inject-failed", true)
		return
	}
	lit := s.literal()
	validText := s.kind != "string" || utf8.ValidString(s.s)
	refl32 := s.kind == "float32" && (path == 1 || path == 2 || path >= 10)

	// Export
	{
		var x interface{}
		p := guard(func() { x, _ = v.Export() })
		term, known := exportedScalar(x)
		ob := "OPanic"
		if !p {
			if known {
				ob = "(OVal " + term + ")"
			} else {
				ob = "(OErr 8)"
			}
		}
		env.Add(fmt.Sprintf("CExport %d %s %s", path, s.coq(), ob), fmt.Sprintf("%s: Export() -> %#v", head, x), "export", nontriv)
	}
	// oracle for strings: in-language Number(LIT)
	onum := uint64(0)
	if s.kind == "string" && validText {
		onum = g.jsNumBits("Number(" + lit + ")")
	}
	if validText {
		{
			var f float64
			var err error
			p := guard(func() { f, err = v.ToFloat() })
			env.Add(fmt.Sprintf("CToFloat %d %s %d %s", path, s.coq(), onum, obOf(p, err, Cdouble(f))),
				fmt.Sprintf("%s: ToFloat() -> %v (bits %016X) err=%v panic=%v; Number(%s) bits %016X", head, f, Dbits(f), err, p, lit, onum), "tofloat", nontriv)
		}
		{
			var i int64
			var err error
			p := guard(func() { i, err = v.ToInteger() })
			env.Add(fmt.Sprintf("CToInt %d %s %d %s", path, s.coq(), onum, obOf(p, err, Cz(i))),
				fmt.Sprintf("%s: ToInteger() -> %d err=%v panic=%v", head, i, err, p), "tointeger", nontriv)
		}
		{
			preds := make([]string, 0, 11)
			p := guard(func() {
				for _, b := range []bool{v.IsDefined(), v.IsUndefined(), v.IsNull(), v.IsPrimitive(), v.IsBoolean(), v.IsNumber(), v.IsNaN(), v.IsString(), v.IsObject(), v.IsFunction(), v.Class() == ""} {
					preds = append(preds, Cbool(b))
				}
			})
			if p {
				preds = []string{}
			}
			env.Add(fmt.Sprintf("CPred %d %s %d %s", path, s.coq(), onum, Clist(preds)),
				fmt.Sprintf("%s: IsDefined,IsUndefined,IsNull,IsPrimitive,IsBoolean,IsNumber,IsNaN,IsString,IsObject,IsFunction,Class()==\"\" -> %v panic=%v", head, preds, p), "predicates", nontriv)
		}
	}
	{
		var b bool
		var err error
		p := guard(func() { b, err = v.ToBoolean() })
		env.Add(fmt.Sprintf("CToBool %d %s %s", path, s.coq(), obOf(p, err, Cbool(b))),
			fmt.Sprintf("%s: ToBoolean() -> %v err=%v panic=%v", head, b, err, p), "toboolean", nontriv)
	}
	// text: Go-side ToString against the in-language String(LIT)
	if !refl32 || simple {
		ostr := ""
		if s.isNumber() {
			ostr = g.jsText("String(" + lit + ")")
		}
		var t string
		var err error
		p := guard(func() { t, err = v.ToString() })
		ob := obOf(p, err, cbytes(t))
		env.Add(fmt.Sprintf("CToStr %d %s %s %s", path, s.coq(), cbytes(ostr), ob),
			fmt.Sprintf("%s: ToString() -> %q err=%v panic=%v; String(%s) = %q", head, t, err, p, lit, ostr), "tostring", nontriv)
	}
	// MarshalJSON against the in-language JSON.stringify(LIT); strings: the text must parse back to the string
	if validText && !refl32 {
		ojson := ""
		if s.isNumber() {
			// 15.12.3: a finite number is serialised as ToString(number)
			ojson = g.jsText("isFinite(" + lit + ") ? String(" + lit + ") : JSON.stringify(" + lit + ")")
		}
		var bs []byte
		var err error
		p := guard(func() { bs, err = v.MarshalJSON() })
		obtxt := string(bs)
		if s.kind == "string" && !p && err == nil {
			ojson = "1"
			back := g.jsText("JSON.parse(" + jsStrLit(string(bs)) + ") === " + lit)
			if utf8.Valid(bs) && back == "true" {
				obtxt = "1"
			} else {
				obtxt = "0"
			}
		}
		env.Add(fmt.Sprintf("CJson %d %s %s %s", path, s.coq(), cbytes(ojson), obOf(p, err, cbytes(obtxt))),
			fmt.Sprintf("%s: MarshalJSON() -> %q err=%v panic=%v; in-language JSON text of %s = %q (strings: 1 = text parses back to the string)", head, bs, err, p, lit, ojson), "marshaljson", nontriv)
	}
	// the script's view of x
	if validText {
		ostr := g.jsText("String(" + lit + ")")
		ty := g.jsOb("typeof x", projTypeof)
		eq := g.jsOb("x === "+lit, projBool)
		sign := "(OVal true)"
		if s.isNumber() {
			sign = g.jsOb("(1/x === 1/"+lit+") || (1/x !== 1/x && 1/"+lit+" !== 1/"+lit+")", projBool)
		}
		bo := g.jsOb("Boolean(x) === !!x && (x ? true : false)", projBool)
		sx := "None"
		if !refl32 || simple {
			sx = "(Some " + g.jsOb("String(x)", projStr) + ")"
		}
		env.Add(fmt.Sprintf("CScript %d %s %s %s %s %s %s %s", path, s.coq(), Cstr(ostr), ty, eq, sign, bo, sx),
			fmt.Sprintf("%s: script sees typeof x = %s, x === %s -> %s, sign of zero agrees -> %s, Boolean(x) -> %s, String(x) -> %s; String(%s) = %q", head, ty, lit, eq, sign, bo, sx, lit, ostr), "script-view", nontriv)
	}
}

func runC15(env *Env) {
	env.Import = "Otto.C15.Corr"
	env.Rule = "Go scalars of every kind and width (boundary integers per width, around 2^53/2^63/2^64, all float classes as bit patterns, float32 incl. subnormals, numeric/UTF-8/invalid strings, nil) injected along 10 paths (Set, named type, pointer, ToValue, Object.Set, call argument, struct field, slice element, map value) and read back by Export/ToFloat/ToInteger/ToBoolean/ToString/MarshalJSON/predicates and by scripts; script data trees (depth <= 4: homogeneous/mixed/nested arrays, holes, undefined, objects; via Run, JSON.parse, global+Get, Go-function argument) and arrays after push/pop/length/delete/index histories through Export; JavaScript values of the conversion boundary set (primitives, wrappers, objects with valueOf/toString incl. throwing) through the Value predicates and To* against in-language typeof/Number/String/Boolean/isNaN; Value.Call/Object.Call/Otto.Call (with and without this, error paths) against the in-language call; write/delete/read histories of global and object bindings through Go and script; Go containers (typed/nil/empty slices, maps, arrays, structs, pointers, nesting) seen by a script walk, Export (DeepEqual) and MarshalJSON. Non-trivial = distinct case that is not a plain Otto.Set of a small integer, bool, nil or lower-case word (all tree, call, history, container cases and js values of type number/string/object count)"
	g := &gen{env: env, vm: otto.New()}
	idf, err := g.vm.Run(`(function(a){ return a })`)
	Must(err)
	g.idf = idf
	_, err = g.vm.Run(callPrelude)
	Must(err)
	_, err = g.vm.Run(describePrelude)
	Must(err)
	g.installSeqCallbacks()
	g.installReentry()
	_, err = g.vm.Run(thisPrelude)
	Must(err)
	g.vmP = otto.New()
	_, err = g.vmP.Run(pollutedPrelude)
	Must(err)
	_, err = g.vm.Run(handlePrelude)
	Must(err)
	Must(g.vm.Set("sink", func(call otto.FunctionCall) otto.Value {
		g.sunk = call.Argument(0)
		return otto.UndefinedValue()
	}))
	r := env.Rng

	// pinned witnesses of the listed findings run first
	g.scalarCases(1, gscalar{kind: "float32", f32: 0.5}, true)
	g.scalarCases(2, gscalar{kind: "float32", f32: float32(math.NaN())}, true)
	g.scalarCases(0, gscalar{kind: "uint64", u: 1<<53 + 1}, true)
	g.scalarCases(0, gscalar{kind: "int64", i: 1<<53 + 1}, true)
	g.scalarCases(0, gscalar{kind: "float64", f64: math.NaN()}, true)
	g.scalarCases(0, gscalar{kind: "float64", f64: math.Inf(-1)}, true)

	lit := func(i int64) *jnode { return &jnode{t: "int", ik: "int64", i: i} }
	arr := func(e ...*jnode) *jnode { return &jnode{t: "arr", elems: e} }
	g.treeCase(arr(arr(arr(lit(1))), arr(arr(&jnode{t: "float", f: 1.5}))), 0)
	g.treeCase(arr(arr(arr()), arr(arr(lit(1)))), 0)
	g.treeCase(arr(lit(1), &jnode{t: "hole"}, lit(2)), 0)

	g.jsValueCase(`({valueOf:function(){throw new TypeError("t")}})`)
	g.callSeqCase(1)
	g.callSeqCase(2)
	g.depthHistCase(true)
	for src := 0; src < len(thisSrcs); src++ {
		for this := 0; this <= 10; this++ {
			g.callThisCase(0, src, this)
			if this != 0 && this != 4 {
				g.callThisCase(1, src, this)
			}
		}
	}
	for shape := range cyclicShapes {
		g.cyclicCase(shape)
	}
	g.sharedGrid()
	g.jsonStringGrid()
	g.boundaryGrid()
	g.orderHistGrid()
	g.specialGrid()
	for how := 4; how <= 7; how++ {
		g.protoObjCase(how)
	}
	for t := 1; t <= 3; t++ {
		g.kindHistCase(t)
	}
	for fr := 0; fr < 6; fr++ {
		g.reentryCase(0, fr)
		g.reentryCase(7, fr)
	}
	for sp := 0; sp < 3; sp++ {
		g.objHandleCase(sp, sp)
	}

	for env.Count() < env.N {
		switch k := r.Intn(20); {
		case k < 4:
			g.randomTreeCase()
			continue
		case k < 6:
			g.histCase()
			continue
		case k < 8:
			g.jsValueCase("")
			continue
		case k < 10:
			g.callCase()
			continue
		case k < 11:
			g.historyCase()
			continue
		case k < 13:
			g.containerCase()
			continue
		case k < 15:
			g.callSeqCase(0)
			continue
		case k < 17:
			if c := r.Intn(5); c == 4 {
				g.sharedRandomCase()
			} else if c == 3 {
				g.callThisCase(r.Intn(2), r.Intn(len(thisSrcs)), r.Intn(11))
			} else if c == 0 {
				g.protoObjCase(4 + r.Intn(4))
			} else if c == 1 {
				g.kindHistCase(0)
			} else {
				g.reentryCase(r.Intn(11), r.Intn(6))
			}
			continue
		case k < 18:
			if r.Intn(3) == 0 {
				g.depthHistCase(false)
			} else {
				g.objHandleCase(r.Intn(3), r.Intn(8))
			}
			continue
		}
		s, simple := g.scalar()
		path := 0
		switch k := r.Intn(10); {
		case k < 3:
			path = 0
		case k < 5:
			path = 1 + r.Intn(2)
		case k < 6:
			path = 10 + r.Intn(3)
		default:
			path = 3 + r.Intn(7)
		}
		if s.kind == "nil" && (path == 1 || path >= 7) {
			path = Pick(r, []int{0, 2, 3, 4, 5, 6})
		}
		g.scalarCases(path, s, simple)
	}
}

// ====================== Export of script data ======================

type jnode struct {
	t     string // "undef","null","bool","int","float","str","arr","obj","hole"
	b     bool
	ik    string // payload kind of an integer-valued number: int64 (literal), int32 (n|0), uint32 (n>>>0), int ("..".length)
	i     int64
	f     float64
	s     string
	elems []*jnode
	keys  []string
}

func (n *jnode) coq(allFloat bool) string {
	switch n.t {
	case "ref": // a reference to a shared node: the model sees the unfolded data
		return n.elems[0].coq(allFloat)
	case "undef":
		return "JUndef"
	case "null":
		return "JNull"
	case "bool":
		return "(JBool " + Cbool(n.b) + ")"
	case "int":
		if allFloat {
			return "(JNumF " + Cdouble(float64(n.i)) + ")"
		}
		return fmt.Sprintf("(JNumI %s %s)", coqKind[n.ik], Cz(n.i))
	case "float":
		return "(JNumF " + Cdouble(n.f) + ")"
	case "str":
		return "(JStr " + cbytes(n.s) + ")"
	case "arr":
		items := make([]string, len(n.elems))
		for i, e := range n.elems {
			if e.t == "hole" {
				items[i] = "None"
			} else {
				items[i] = "(Some " + e.coq(allFloat) + ")"
			}
		}
		return "(JArr " + Clist(items) + ")"
	case "obj":
		items := make([]string, len(n.elems))
		for i, e := range n.elems {
			items[i] = "(" + cbytes(n.keys[i]) + ", " + e.coq(allFloat) + ")"
		}
		return "(JObj " + Clist(items) + ")"
	}
	panic("jnode " + n.t)
}

// JS source text whose evaluation gives the node with the modelled payload types
func (n *jnode) js() string {
	switch n.t {
	case "ref":
		return n.s
	case "undef":
		return "undefined"
	case "null":
		return "null"
	case "bool":
		if n.b {
			return "true"
		}
		return "false"
	case "int":
		switch n.ik {
		case "int64":
			return fmt.Sprintf("%d", n.i)
		case "int32":
			return fmt.Sprintf("(%d|0)", n.i)
		case "uint32":
			return fmt.Sprintf("(%d>>>0)", n.i)
		default:
			return `"` + strings.Repeat("a", int(n.i)) + `".length`
		}
	case "float":
		f := n.f
		if f == math.Trunc(f) && f >= 0 && f < 1e15 && !(f == 0 && math.Signbit(f)) {
			return fmt.Sprintf("%d.0", int64(f))
		}
		return JSNum(f)
	case "str":
		return jsStrLit(n.s)
	case "arr":
		var b strings.Builder
		b.WriteByte('[')
		for i, e := range n.elems {
			if i > 0 {
				b.WriteByte(',')
			}
			if e.t != "hole" {
				b.WriteString(e.js())
			}
		}
		if len(n.elems) > 0 && n.elems[len(n.elems)-1].t == "hole" {
			b.WriteByte(',')
		}
		b.WriteByte(']')
		return b.String()
	case "obj":
		var b strings.Builder
		b.WriteString("({")
		for i, e := range n.elems {
			if i > 0 {
				b.WriteByte(',')
			}
			b.WriteString(jsStrLit(n.keys[i]) + ":" + e.js())
		}
		b.WriteString("})")
		return b.String()
	}
	panic("jnode " + n.t)
}

func (n *jnode) jsonLike() bool {
	switch n.t {
	case "undef", "hole":
		return false
	case "float":
		return !math.IsNaN(n.f) && !math.IsInf(n.f, 0)
	case "arr", "obj":
		for _, e := range n.elems {
			if !e.jsonLike() {
				return false
			}
		}
	}
	return true
}

// JSON text of JSON-like data
func (n *jnode) json() string {
	switch n.t {
	case "null":
		return "null"
	case "bool":
		return n.js()
	case "int":
		return fmt.Sprintf("%d", n.i)
	case "float":
		if n.f == 0 && math.Signbit(n.f) {
			return "-0"
		}
		return fmt.Sprintf("%.17g", n.f)
	case "str":
		return jsStrLit(n.s)
	case "arr":
		parts := make([]string, len(n.elems))
		for i, e := range n.elems {
			parts[i] = e.json()
		}
		return "[" + strings.Join(parts, ",") + "]"
	case "obj":
		parts := make([]string, len(n.elems))
		for i, e := range n.elems {
			parts[i] = jsStrLit(n.keys[i]) + ":" + e.json()
		}
		return "{" + strings.Join(parts, ",") + "}"
	}
	panic("json " + n.t)
}

func (n *jnode) depth() int {
	if n.t == "ref" {
		return n.elems[0].depth()
	}
	d := 0
	for _, e := range n.elems {
		if k := e.depth(); k > d {
			d = k
		}
	}
	if n.t == "arr" || n.t == "obj" {
		return d + 1
	}
	return 0
}

func (g *gen) leaf(kind string) *jnode {
	r := g.env.Rng
	switch kind {
	case "int":
		ik := Pick(r, []string{"int64", "int64", "int64", "int64", "int32", "uint32", "int"})
		switch ik {
		case "int64":
			return &jnode{t: "int", ik: ik, i: Pick(r, []int64{0, 1, 2, 7, 255, 1 << 31, 1<<32 + 1, 1 << 53, 1<<53 + 1, math.MaxInt64, int64(r.Intn(1000)), r.Int63()})}
		case "int32":
			return &jnode{t: "int", ik: ik, i: Pick(r, []int64{0, 1, -1, 5, math.MaxInt32, math.MinInt32, int64(int32(r.Uint32()))})}
		case "uint32":
			return &jnode{t: "int", ik: ik, i: Pick(r, []int64{0, 1, 5, math.MaxUint32, 1 << 31, int64(r.Uint32())})}
		default:
			return &jnode{t: "int", ik: ik, i: int64(r.Intn(6))}
		}
	case "float":
		return &jnode{t: "float", f: Pick(r, []float64{0.5, 1.5, -1, -2.5, 0, math.Copysign(0, -1), 5, 1e21, 1e-7, 0.1, -7, math.NaN(), math.Inf(1), math.Inf(-1), 9223372036854775808, float64(r.Intn(100)) + 0.25, r.NormFloat64()})}
	case "str":
		return &jnode{t: "str", s: Pick(r, []string{"", "a", "b", "abc", "1", "é", "\U00010000", "x y", "\"q\"", "null"})}
	case "bool":
		return &jnode{t: "bool", b: r.Intn(2) == 0}
	case "null":
		return &jnode{t: "null"}
	case "undef":
		return &jnode{t: "undef"}
	}
	panic(kind)
}

var leafKinds = []string{"int", "int", "float", "str", "bool", "null", "undef"}
var keyPool = []string{"", "0", "1", "10", "A", "a", "b", "c", "k y", "key", "z", "é"}

func (g *gen) keys(n int) []string {
	r := g.env.Rng
	chosen := map[string]bool{}
	for len(chosen) < n {
		chosen[Pick(r, keyPool)] = true
	}
	ks := make([]string, 0, n)
	for _, k := range keyPool { // keyPool is in ascending byte order
		if chosen[k] {
			ks = append(ks, k)
		}
	}
	return ks
}

// a tree of the given shape family; `leaf` fixes the leaf kind of homogeneous parts
func (g *gen) tree(depth int) *jnode {
	r := g.env.Rng
	if depth <= 0 {
		return g.leaf(Pick(r, leafKinds))
	}
	switch r.Intn(10) {
	case 0, 1: // homogeneous array of one leaf kind
		k := Pick(r, []string{"int", "float", "str", "bool", "null"})
		n := r.Intn(4)
		a := &jnode{t: "arr"}
		for i := 0; i < n; i++ {
			e := g.leaf(k)
			if k == "int" {
				e.ik = "int64"
				if e.i < 0 {
					e.i = -e.i
				}
				if e.i < 0 {
					e.i = 0
				}
			}
			a.elems = append(a.elems, e)
		}
		return a
	case 2, 3, 4: // array of subtrees of the same shape family (this is where kind triples agree and types may not)
		n := r.Intn(3) + 1
		a := &jnode{t: "arr"}
		for i := 0; i < n; i++ {
			a.elems = append(a.elems, g.tree(depth-1))
		}
		return a
	case 5: // array with holes and undefined
		n := r.Intn(4) + 1
		a := &jnode{t: "arr"}
		for i := 0; i < n; i++ {
			switch r.Intn(4) {
			case 0:
				a.elems = append(a.elems, &jnode{t: "hole"})
			default:
				a.elems = append(a.elems, g.tree(depth-1))
			}
		}
		return a
	case 6, 7: // object
		ks := g.keys(r.Intn(4))
		o := &jnode{t: "obj", keys: ks}
		for range ks {
			o.elems = append(o.elems, g.tree(depth-1))
		}
		return o
	case 8: // mixed array of leaves
		n := r.Intn(4) + 1
		a := &jnode{t: "arr"}
		for i := 0; i < n; i++ {
			a.elems = append(a.elems, g.leaf(Pick(r, leafKinds)))
		}
		return a
	default:
		return g.leaf(Pick(r, leafKinds))
	}
}

// nested arrays of equal depth whose innermost leaf kinds are chosen per branch: the family on which
// the kind triples of the elements agree at the outer level
func (g *gen) nestedUniform(depth int, leafKind string) *jnode {
	r := g.env.Rng
	if depth == 0 {
		e := g.leaf(leafKind)
		if leafKind == "int" {
			e.ik = "int64"
			if e.i < 0 {
				e.i = 0
			}
		}
		return e
	}
	n := r.Intn(3)
	if depth > 1 || r.Intn(4) > 0 {
		n++
	}
	a := &jnode{t: "arr"}
	for i := 0; i < n; i++ {
		a.elems = append(a.elems, g.nestedUniform(depth-1, leafKind))
	}
	return a
}

func gtyOf(t reflect.Type) (string, bool) {
	switch t.Kind() {
	case reflect.Bool:
		return "TBool", true
	case reflect.Int, reflect.Int8, reflect.Int16, reflect.Int32, reflect.Int64, reflect.Uint, reflect.Uint8, reflect.Uint16, reflect.Uint32, reflect.Uint64:
		return "(TInt " + coqKind[t.Kind().String()] + ")", true
	case reflect.Float64:
		return "TF64", true
	case reflect.String:
		return "TStr", true
	case reflect.Interface:
		if t.NumMethod() == 0 {
			return "TIface", true
		}
	case reflect.Slice:
		e, ok := gtyOf(t.Elem())
		return "(TSlice " + e + ")", ok
	case reflect.Map:
		if t.Key().Kind() == reflect.String && t.Elem().Kind() == reflect.Interface && t.Elem().NumMethod() == 0 {
			return "TMap", true
		}
	}
	return "", false
}

// Coq term (gv) of an exported Go value
func gvOf(x interface{}) string {
	if x == nil {
		return "XNil"
	}
	v := reflect.ValueOf(x)
	switch v.Kind() {
	case reflect.Bool:
		return "(XBool " + Cbool(v.Bool()) + ")"
	case reflect.Int, reflect.Int8, reflect.Int16, reflect.Int32, reflect.Int64:
		return fmt.Sprintf("(XInt %s %s)", coqKind[v.Kind().String()], Cz(v.Int()))
	case reflect.Uint, reflect.Uint8, reflect.Uint16, reflect.Uint32, reflect.Uint64:
		return fmt.Sprintf("(XInt %s %s)", coqKind[v.Kind().String()], Czu(v.Uint()))
	case reflect.Float64:
		return "(XF64 " + Cdouble(v.Float()) + ")"
	case reflect.String:
		return "(XStr " + cbytes(v.String()) + ")"
	case reflect.Slice:
		e, ok := gtyOf(v.Type().Elem())
		if !ok || v.IsNil() {
			return "XOther"
		}
		items := make([]string, v.Len())
		for i := range items {
			items[i] = gvOf(v.Index(i).Interface())
		}
		return "(XSlice " + e + " " + Clist(items) + ")"
	case reflect.Map:
		if _, ok := gtyOf(v.Type()); !ok || v.IsNil() {
			return "XOther"
		}
		ks := make([]string, 0, v.Len())
		for _, k := range v.MapKeys() {
			ks = append(ks, k.String())
		}
		sortStrings(ks)
		items := make([]string, len(ks))
		for i, k := range ks {
			items[i] = "(" + cbytes(k) + ", " + gvOf(v.MapIndex(reflect.ValueOf(k)).Interface()) + ")"
		}
		return "(XMap " + Clist(items) + ")"
	}
	return "XOther"
}

func sortStrings(a []string) {
	for i := 1; i < len(a); i++ {
		for j := i; j > 0 && a[j] < a[j-1]; j-- {
			a[j], a[j-1] = a[j-1], a[j]
		}
	}
}

// evaluate the source along `via`, Export, and give the observation as an `ob gv` term plus a printable form
func (g *gen) exportOb(via int, src string) (string, string) {
	var v otto.Value
	var err error
	p := guard(func() {
		switch via {
		case 0, 1, 6:
			v, err = g.vm.Run(src)
		case 7:
			if _, err = g.vm.Run("exported = " + src); err == nil {
				v, err = g.vm.Get("exported")
			}
		case 8:
			g.sunk = otto.Value{}
			if _, err = g.vm.Run("sink(" + src + ")"); err == nil {
				v = g.sunk
			}
		case 4, 5:
			v, err = g.vmP.Run(src)
		case 2:
			if _, err = g.vm.Run("exported = " + src); err == nil {
				v, err = g.vm.Get("exported")
			}
		case 3:
			g.sunk = otto.Value{}
			if _, err = g.vm.Run("sink(" + src + ")"); err == nil {
				v = g.sunk
			}
		}
	})
	if p {
		return "OPanic", "panic while evaluating"
	}
	if err != nil {
		return fmt.Sprintf("(OErr %d)", errClassOf(err)), "error " + err.Error()
	}
	var x interface{}
	var perr interface{}
	func() {
		defer func() { perr = recover() }()
		x, _ = v.Export()
	}()
	if perr != nil {
		return "OPanic", fmt.Sprintf("Go panic: %v", perr)
	}
	return "(OVal " + gvOf(x) + ")", fmt.Sprintf("%#v", x)
}

var viaNames = []string{"Run", "JSON.parse", "global + Otto.Get", "argument of a Go function", "Run under polluted prototypes", "JSON.parse under polluted prototypes", "Run (shared nodes)", "global + Otto.Get (shared nodes)", "argument of a Go function (shared nodes)"}

func (g *gen) treeCase(n *jnode, via int) {
	src := "(" + n.js() + ")"
	allFloat := false
	if via == 1 || via == 5 {
		src = "JSON.parse(" + jsStrLit(n.json()) + ")"
		allFloat = true
	}
	ob, shown := g.exportOb(via, src)
	g.env.Add(fmt.Sprintf("CExportTree %d %s %s", via, n.coq(allFloat), ob),
		fmt.Sprintf("export via %s: %s -> %s", viaNames[via], src, shown), "export-tree", n.depth() >= 1)
}

func (g *gen) randomTreeCase() {
	r := g.env.Rng
	var n *jnode
	switch r.Intn(5) {
	case 0, 1: // uniform nesting, leaf kinds differing between branches
		d := r.Intn(3) + 1
		k := r.Intn(3) + 1
		n = &jnode{t: "arr"}
		for i := 0; i < k; i++ {
			n.elems = append(n.elems, g.nestedUniform(d, Pick(r, []string{"int", "int", "float", "str", "bool", "null"})))
		}
	default:
		n = g.tree(r.Intn(4) + 1)
	}
	via := Pick(r, []int{0, 0, 0, 2, 3, 4})
	if n.jsonLike() && r.Intn(4) == 0 {
		via = Pick(r, []int{1, 1, 5})
	}
	g.treeCase(n, via)
}

func (g *gen) histCase() {
	r := g.env.Rng
	k := Pick(r, []string{"int", "int", "float", "str", "mixed"})
	pickLeaf := func() *jnode {
		kk := k
		if kk == "mixed" {
			kk = Pick(r, leafKinds)
		}
		e := g.leaf(kk)
		if kk == "int" && k != "mixed" {
			e.ik = "int64"
			if e.i < 0 {
				e.i = 0
			}
		}
		if r.Intn(8) == 0 {
			return &jnode{t: "arr", elems: []*jnode{e}}
		}
		return e
	}
	init := &jnode{t: "arr"}
	for i := r.Intn(4); i > 0; i-- {
		init.elems = append(init.elems, pickLeaf())
	}
	var src strings.Builder
	fmt.Fprintf(&src, "(function(){ var a = %s; ", init.js())
	nops := r.Intn(5) + 1
	ops := make([]string, nops)
	for i := range ops {
		switch r.Intn(6) {
		case 0, 1:
			e := pickLeaf()
			fmt.Fprintf(&src, "a.push(%s); ", e.js())
			ops[i] = "APush " + e.coq(false)
		case 2:
			src.WriteString("a.pop(); ")
			ops[i] = "APop"
		case 3:
			n := r.Intn(7)
			fmt.Fprintf(&src, "a.length = %d; ", n)
			ops[i] = fmt.Sprintf("ASetLen %d", n)
		case 4:
			n := r.Intn(6)
			fmt.Fprintf(&src, "delete a[%d]; ", n)
			ops[i] = fmt.Sprintf("ADelete %d", n)
		default:
			n := r.Intn(8)
			e := pickLeaf()
			fmt.Fprintf(&src, "a[%d] = %s; ", n, e.js())
			ops[i] = fmt.Sprintf("ASetIdx %d %s", n, e.coq(false))
		}
	}
	src.WriteString("return a })()")
	ob, shown := g.exportOb(0, src.String())
	initItems := make([]string, len(init.elems))
	for i, e := range init.elems {
		initItems[i] = "(Some " + e.coq(false) + ")"
	}
	g.env.Add(fmt.Sprintf("CExportHist %s %s %s", Clist(initItems), Clist(ops), ob),
		fmt.Sprintf("export after history: %s -> %s", src.String(), shown), "export-history", true)
}

// ====================== JavaScript values through the Go API ======================

var jsValueExprs = []string{
	`undefined`, `null`, `true`, `false`, `0`, `-0`, `1`, `-1`, `NaN`, `Infinity`, `-Infinity`, `0.5`, `-0.5`, `1.5`, `2147483647`, `2147483648`, `-2147483649`, `4294967295`, `4294967296`,
	`9007199254740991`, `9007199254740992`, `9007199254740993.0`, `9223372036854775807.0`, `9223372036854775808`, `-9223372036854775808`, `-9223372036854777856`, `18446744073709551616`, `1e21`, `1e-7`, `5e-324`,
	`1.7976931348623157e308`, `1e400`, `(5|0)`, `(5>>>0)`, `"abc".length`, `1/3`,
	`""`, `" "`, `"0"`, `"-0"`, `"1"`, `" 42 "`, `"0x10"`, `"1e3"`, `"1.5"`, `".5"`, `"abc"`, `"NaN"`, `"Infinity"`, `"-Infinity"`, `"12abc"`, `"é"`, `"true"`, `"null"`, `"9007199254740993"`, `"1e400"`,
	`({})`, `[]`, `[5]`, `[1,2]`, `["7"]`, `[[]]`, `[null]`, `[undefined]`, `(function(){})`, `(function f(a,b){ return a+b })`, `Math.max`, `new Number(5)`, `new Number(NaN)`, `new Number(-0)`, `new String("")`, `new String("12")`,
	`new Boolean(false)`, `new Boolean(true)`, `new Date(0)`, `new Date(NaN)`, `/x/g`, `new Error("m")`, `new TypeError("t")`, `Math`, `JSON`, `Object.create(null)`, `Object.create({valueOf:function(){return 3}})`,
	`({valueOf:function(){return 42}})`, `({valueOf:function(){return "17"}})`, `({toString:function(){return "7"}})`, `({valueOf:function(){return {}}, toString:function(){return "3"}})`,
	`({valueOf:function(){return {}}, toString:function(){return {}}})`, `({valueOf:function(){throw new TypeError("t")}})`, `({toString:function(){throw new RangeError("r")}})`,
	`({valueOf:function(){throw 1}})`, `({toString:function(){throw "s"}, valueOf:function(){return 1}})`, `({valueOf:function(){return NaN}})`, `({valueOf:function(){return -0}})`,
	`({valueOf:function(){return 1e400}, toString:function(){return "x"}})`, `({valueOf:function(){return true}})`, `({valueOf:function(){return null}})`, `({valueOf:function(){return undefined}})`,
	`arguments = 5`, `this`, `[1.5]`, `[-0]`, `["a","b"]`, `new Array(3)`, `[,1]`,
}

func (g *gen) jsValueCase(pinned string) {
	r := g.env.Rng
	expr := pinned
	k := r.Intn(6)
	if pinned != "" {
		k = -1
	}
	switch k {
	case -1:
	case 0: // a random number
		expr = jsNumF(g.float64Value())
	case 1: // a random numeric-looking string
		s := g.stringValue()
		if !utf8.ValidString(s) {
			s = "x"
		}
		expr = jsStrLit(s)
	case 2: // an object converting to a random primitive
		expr = fmt.Sprintf("({valueOf:function(){return %s}, toString:function(){return %s}})", jsNumF(g.float64Value()), jsStrLit(Pick(r, numericTexts)))
	default:
		expr = Pick(r, jsValueExprs)
	}
	o := RunJS(g.vm, "v = ("+expr+")")
	if o.Panic != nil || o.Err != nil {
		g.env.Add("CCallErr 9 0 1", fmt.Sprintf("js value %s could not be evaluated: %v %v", expr, o.Err, o.Panic), "jsvalue-failed", true)
		return
	}
	v := o.Val
	ty := g.jsText(`v === null ? "null" : typeof v`)
	tyn, ok := map[string]int{"undefined": 0, "null": 1, "boolean": 2, "number": 3, "string": 4, "object": 5, "function": 6}[ty]
	if !ok {
		tyn = 99
	}
	projBits := func(x otto.Value) string { f, _ := x.ToFloat(); return Cdouble(f) }
	jnum := g.jsOb("Number(v)", projBits)
	jstr := g.jsOb("String(v)", func(x otto.Value) string { return cbytes(x.String()) })
	jbool := g.jsOb("Boolean(v)", projBool)
	jisnan := g.jsOb("isNaN(v)", projBool)

	preds := []string{}
	guard(func() {
		for _, b := range []bool{v.IsDefined(), v.IsUndefined(), v.IsNull(), v.IsPrimitive(), v.IsBoolean(), v.IsNumber(), v.IsString(), v.IsObject(), v.IsFunction(), v.Class() == ""} {
			preds = append(preds, Cbool(b))
		}
	})
	var gnanB bool
	p := guard(func() { gnanB = v.IsNaN() })
	gnan := obOf(p, nil, Cbool(gnanB))
	var f float64
	var err error
	p = guard(func() { f, err = v.ToFloat() })
	gnum := obOf(p, err, Cdouble(f))
	var i int64
	p = guard(func() { i, err = v.ToInteger() })
	gint := obOf(p, err, Cz(i))
	var s string
	p = guard(func() { s, err = v.ToString() })
	gstr := obOf(p, err, cbytes(s))
	var b bool
	p = guard(func() { b, err = v.ToBoolean() })
	gbool := obOf(p, err, Cbool(b))
	g.env.Add(fmt.Sprintf("CJsVal %d %s %s %s %s %s %s %s %s %s %s", tyn, jnum, jstr, jbool, jisnan, Clist(preds), gnan, gnum, gint, gstr, gbool),
		fmt.Sprintf("js value v = %s: in-language typeof %s Number %s String %s Boolean %s isNaN %s; Go predicates %v IsNaN %s ToFloat %s ToInteger %s ToString %s ToBoolean %s",
			expr, ty, jnum, jstr, jbool, jisnan, preds, gnan, gnum, gint, gstr, gbool), "js-value", tyn >= 3)
}

// ====================== API calls against in-language calls ======================

const callPrelude = `
var G = this;
function thisTag(t) { return t === G ? "G" : t === undefined ? "U" : t === null ? "N" : (typeof t) + ":" + String(t) }
function probe() {
	var r = [thisTag(this), String(arguments.length)];
	for (var i = 0; i < arguments.length; i++) { r.push(typeof arguments[i]); r.push(String(arguments[i])) }
	return r.join("\u0001")
}
var holder = { probe: probe, toString: function(){ return "HOLDER" }, thrower: function(){ throw new RangeError("r") }, notfn: 5 };
function thrower() { throw new TypeError("t") }
function thrower2() { throw 7 }
function thrower3() { undefinedName.x }
function Ctor(a) { this.a = a }
var store = {};
`

// descriptor string -> Coq list (list Z)
func descTerm(s string) string {
	parts := strings.Split(s, "\x01")
	if len(parts) < 2 {
		return "[]"
	}
	items := []string{Cstr(parts[0]), "[" + parts[1] + "]"}
	for i := 2; i+1 < len(parts); i += 2 {
		n, ok := typeofEnum[parts[i]]
		if !ok {
			n = 99
		}
		u := Units(parts[i+1])
		z := make([]string, 0, len(u)+1)
		z = append(z, fmt.Sprintf("%d", n))
		for _, c := range u {
			z = append(z, fmt.Sprintf("%d", c))
		}
		items = append(items, Clist(z))
	}
	return Clist(items)
}

func callOb(v otto.Value, err error, panicked bool) string {
	if panicked {
		return "OPanic"
	}
	if err != nil {
		return fmt.Sprintf("(OErr %d)", errClassOf(err))
	}
	return "(OVal " + descTerm(v.String()) + ")"
}

// scalars whose String() in a script is computable by the model without an oracle
func (g *gen) callArg() gscalar {
	r := g.env.Rng
	switch r.Intn(8) {
	case 0:
		return gscalar{kind: "nil"}
	case 1:
		return gscalar{kind: "bool", b: r.Intn(2) == 0}
	case 2:
		return gscalar{kind: "string", s: Pick(r, []string{"", "a", "hello", "1", " x ", "null", "undefined", "0x10"})}
	case 3:
		return gscalar{kind: "float64", f64: Pick(r, []float64{0, math.Copysign(0, -1), 1, -1, 5, 1 << 52, -(1 << 52), math.NaN(), math.Inf(1), math.Inf(-1), float64(r.Intn(100000))})}
	default:
		s := g.intValue(Pick(r, intKinds))
		if isSigned(s.kind) {
			if s.i > 1<<53 || s.i < -(1<<53) {
				s.i >>= 12
			}
		} else if s.u > 1<<53 {
			s.u >>= 12
		}
		return s
	}
}

func (g *gen) callCase() {
	r := g.env.Rng
	vm := g.vm
	if r.Intn(6) == 0 { // error paths
		type ec struct {
			api  int
			call func() (otto.Value, error)
			lang string
			txt  string
		}
		get := func(n string) otto.Value { v, _ := vm.Get(n); return v }
		holder := get("holder").Object()
		cands := []ec{
			{0, func() (otto.Value, error) { return get("thrower").Call(otto.UndefinedValue()) }, `thrower.call(undefined)`, "Value.Call(thrower)"},
			{0, func() (otto.Value, error) { return get("thrower2").Call(otto.NullValue(), 1) }, `thrower2.call(null, 1)`, "Value.Call(thrower2)"},
			{0, func() (otto.Value, error) { return get("thrower3").Call(otto.UndefinedValue()) }, `thrower3.call(undefined)`, "Value.Call(thrower3)"},
			{0, func() (otto.Value, error) { return get("holder").Call(otto.UndefinedValue()) }, `holder.call(undefined)`, "Value.Call(holder) (not a function)"},
			{0, func() (otto.Value, error) { v, _ := vm.ToValue(5); return v.Call(otto.UndefinedValue()) }, `(5).call(undefined)`, "Value.Call(5) (not a function)"},
			{1, func() (otto.Value, error) { return holder.Call("thrower") }, `holder.thrower()`, "Object.Call(thrower)"},
			{1, func() (otto.Value, error) { return holder.Call("notfn") }, `holder.notfn()`, "Object.Call(notfn)"},
			{1, func() (otto.Value, error) { return holder.Call("missing", 1) }, `holder.missing(1)`, "Object.Call(missing)"},
			{2, func() (otto.Value, error) { return vm.Call("thrower", "T") }, `thrower.call("T")`, "Otto.Call(thrower, this)"},
			{3, func() (otto.Value, error) { return vm.Call("thrower", nil) }, `thrower()`, "Otto.Call(thrower)"},
			{3, func() (otto.Value, error) { return vm.Call("thrower2", nil, 1, 2) }, `thrower2(1,2)`, "Otto.Call(thrower2)"},
			{3, func() (otto.Value, error) { return vm.Call("holder.thrower", nil) }, `holder.thrower()`, "Otto.Call(holder.thrower)"},
			{3, func() (otto.Value, error) { return vm.Call("noSuchFunction", nil) }, `noSuchFunction()`, "Otto.Call(noSuchFunction)"},
			{3, func() (otto.Value, error) { return vm.Call("holder.notfn", nil) }, `holder.notfn()`, "Otto.Call(holder.notfn)"},
			{2, func() (otto.Value, error) { return vm.Call("holder.notfn", 1) }, `holder.notfn.call(1)`, "Otto.Call(holder.notfn, this)"},
			{3, func() (otto.Value, error) { return vm.Call("new thrower", nil) }, `new thrower()`, "Otto.Call(new thrower)"},
		}
		c := Pick(r, cands)
		var err error
		p := guard(func() { _, err = c.call() })
		ca := errClassOf(err)
		if p {
			ca = 9
		}
		cl := ErrClass(RunJS(vm, c.lang))
		g.env.Add(fmt.Sprintf("CCallErr %d %d %d", c.api, ca, cl), fmt.Sprintf("call error: %s -> class %d (%v); in-language %s -> class %d", c.txt, ca, err, c.lang, cl), "call-error", true)
		return
	}
	n := r.Intn(5)
	args := make([]gscalar, n)
	goArgs := make([]interface{}, n)
	lits := make([]string, n)
	coqs := make([]string, n)
	txts := make([]string, n)
	for i := range args {
		args[i] = g.callArg()
		goArgs[i] = args[i].plain()
		lits[i] = args[i].literal()
		coqs[i] = args[i].coq()
		txts[i] = args[i].text()
	}
	api := r.Intn(4)
	var v otto.Value
	var err error
	var lang, txt string
	argl := strings.Join(lits, ", ")
	probe, _ := vm.Get("probe")
	thisChoices := []struct {
		lit string
		val func() interface{}
	}{
		{"undefined", func() interface{} { return otto.UndefinedValue() }},
		{"null", func() interface{} { return otto.NullValue() }},
		{`"str"`, func() interface{} { return "str" }},
		{"7", func() interface{} { return 7 }},
		{"true", func() interface{} { return true }},
		{"holder", func() interface{} { h, _ := vm.Get("holder"); return h }},
	}
	p := false
	switch api {
	case 0:
		t := Pick(r, thisChoices)
		tv, _ := vm.ToValue(t.val())
		p = guard(func() { v, err = probe.Call(tv, goArgs...) })
		lang = "probe.call(" + strings.Join(append([]string{t.lit}, lits...), ", ") + ")"
		txt = "Value.Call(this=" + t.lit + ")"
	case 1:
		h, _ := vm.Get("holder")
		p = guard(func() { v, err = h.Object().Call("probe", goArgs...) })
		lang = "holder.probe(" + argl + ")"
		txt = "Object.Call(\"probe\")"
	case 2:
		t := Pick(r, thisChoices[2:])
		p = guard(func() { v, err = vm.Call("probe", t.val(), goArgs...) })
		lang = "probe.call(" + strings.Join(append([]string{t.lit}, lits...), ", ") + ")"
		txt = "Otto.Call(\"probe\", this=" + t.lit + ")"
	default:
		src := Pick(r, []string{"probe", "holder.probe", "(function(){ return probe })()", "holder['probe']"})
		p = guard(func() { v, err = vm.Call(src, nil, goArgs...) })
		lang = src + "(" + argl + ")"
		txt = "Otto.Call(" + src + ", nil)"
	}
	obsAPI := callOb(v, err, p)
	o := RunJS(vm, lang)
	obsLang := callOb(o.Val, o.Err, o.Panic != nil)
	g.env.Add(fmt.Sprintf("CCall %d %s %s %s", api, Clist(coqs), obsAPI, obsLang),
		fmt.Sprintf("call %s args [%s] -> %q err=%v; in-language %s -> %q err=%v", txt, strings.Join(txts, ", "), v.String(), err, lang, o.Val.String(), o.Err), "call", true)
}

// ====================== histories of writes and reads ======================

func cvOf(v otto.Value) string {
	switch {
	case v.IsUndefined():
		return "CVUndef"
	case v.IsNull():
		return "CVNull"
	case v.IsBoolean():
		b, _ := v.ToBoolean()
		return "(CVBool " + Cbool(b) + ")"
	case v.IsNumber():
		f := math.NaN()
		if guard(func() { f, _ = v.ToFloat() }) {
			return "CVOther"
		}
		return "(CVNum " + Cdouble(f) + ")"
	case v.IsString():
		s, _ := v.ToString()
		return "(CVStr " + cbytes(s) + ")"
	}
	return "CVOther"
}

func (g *gen) historyCase() {
	r := g.env.Rng
	vm := g.vm
	names := []string{"h0", "h1", "h2"}
	// fresh bindings for every history
	RunJS(vm, "store = {}; try { delete h0 } catch (e) {}; try { delete h1 } catch (e) {}; try { delete h2 } catch (e) {}; h0 = undefined; h1 = undefined; h2 = undefined; delete h0; delete h1; delete h2;")
	storeObj := func() *otto.Object { v, _ := vm.Get("store"); return v.Object() }
	nops := r.Intn(8) + 2
	var ops, obs, txt []string
	for i := 0; i < nops; i++ {
		store := r.Intn(2)
		name := r.Intn(len(names))
		ref := names[name]
		if store == 1 {
			ref = "store." + names[name]
		}
		switch k := r.Intn(10); {
		case k < 4: // write
			s, _ := g.scalar()
			if s.kind == "string" && !utf8.ValidString(s.s) {
				s = gscalar{kind: "string", s: "v"}
			}
			via := r.Intn(2)
			if via == 0 {
				var err error
				if store == 0 {
					err = vm.Set(names[name], s.plain())
				} else {
					err = storeObj().Set(names[name], s.plain())
				}
				txt = append(txt, fmt.Sprintf("Go set %s = %s (err %v)", ref, s.text(), err))
			} else {
				o := RunJS(vm, ref+" = "+s.literal())
				txt = append(txt, fmt.Sprintf("script %s = %s (err %v)", ref, s.literal(), o.Err))
			}
			ops = append(ops, fmt.Sprintf("HSet %d %d %d %s", store, via, name, s.coq()))
		case k < 5: // delete
			o := RunJS(vm, "delete "+ref)
			txt = append(txt, fmt.Sprintf("script delete %s (err %v)", ref, o.Err))
			ops = append(ops, fmt.Sprintf("HDel %d %d", store, name))
		default: // read
			via := r.Intn(2)
			var v otto.Value
			var err error
			if via == 0 {
				if store == 0 {
					v, err = vm.Get(names[name])
				} else {
					v, err = storeObj().Get(names[name])
				}
			} else {
				o := RunJS(vm, "typeof "+names[name]+" === 'undefined' && "+fmt.Sprint(store == 0)+" ? undefined : "+ref)
				v, err = o.Val, o.Err
			}
			c := cvOf(v)
			if err != nil {
				c = "CVOther"
			}
			obs = append(obs, c)
			txt = append(txt, fmt.Sprintf("%s read %s -> %s", []string{"Go", "script"}[via], ref, c))
			ops = append(ops, fmt.Sprintf("HGet %d %d %d", store, via, name))
		}
	}
	g.env.Add(fmt.Sprintf("CHistory %s %s", Clist(ops), Clist(obs)), "history: "+strings.Join(txt, "; "), "history", true)
}

// ====================== Go containers seen by scripts ======================

const describePrelude = `
function describe(v) {
	if (v === undefined) return {t:"u"};
	if (v === null) return {t:"n"};
	if (typeof v === "boolean") return {t:"b", v:v};
	if (typeof v === "number") return {t:"d", v:(v !== v) ? "NaN" : (v === 0 && 1/v < 0) ? "-0" : String(v)};
	if (typeof v === "string") return {t:"s", v:v};
	if (typeof v === "function") return {t:"f"};
	if (Array.isArray(v)) { var a = []; for (var i = 0; i < v.length; i++) a.push((i in v) ? describe(v[i]) : {t:"h"}); return {t:"a", v:a} }
	var ks = Object.keys(v).sort(), o = [];
	for (var j = 0; j < ks.length; j++) o.push(describe(v[ks[j]]));
	return {t:"o", k:ks, v:o};
}
`

type S2 struct {
	X uint64
	Y bool
}

type S1 struct {
	A int8
	B string
	c int
	D []uint16
	E map[string]float32
	F *S2
	G S2
	H interface{}
	I [2]int32
}

type gtnode struct {
	coq string
	val interface{}
}

func (g *gen) containerScalar(kind string) gscalar {
	r := g.env.Rng
	switch kind {
	case "bool":
		return gscalar{kind: kind, b: r.Intn(2) == 0}
	case "string":
		s := g.stringValue()
		if !utf8.ValidString(s) {
			s = "é"
		}
		return gscalar{kind: kind, s: s}
	case "float64":
		f := g.float64Value()
		if f != f {
			f = -0.0
		}
		return gscalar{kind: kind, f64: f}
	case "float32":
		f, _ := g.float32Value()
		if f != f {
			f = 0.5
		}
		return gscalar{kind: kind, f32: f}
	case "nil":
		return gscalar{kind: "nil"}
	}
	return g.intValue(kind)
}

var scalarKinds = []string{"bool", "int", "int8", "int16", "int32", "int64", "uint", "uint8", "uint16", "uint32", "uint64", "float32", "float64", "string"}

// a random Go container (depth-bounded) with its Coq description
func (g *gen) container(depth int) gtnode {
	r := g.env.Rng
	k := r.Intn(9)
	if depth <= 0 {
		k = r.Intn(3)
	}
	switch k {
	case 0, 1: // typed slice of scalars (nil, empty, or filled)
		kind := Pick(r, scalarKinds)
		t := reflect.TypeOf(g.containerScalar(kind).plain())
		switch r.Intn(6) {
		case 0:
			return gtnode{"(GTSlice true [])", reflect.Zero(reflect.SliceOf(t)).Interface()}
		}
		n := r.Intn(4)
		sl := reflect.MakeSlice(reflect.SliceOf(t), n, n)
		items := make([]string, n)
		for i := 0; i < n; i++ {
			s := g.containerScalar(kind)
			sl.Index(i).Set(reflect.ValueOf(s.plain()))
			items[i] = "(GTScalar " + s.coq() + ")"
		}
		return gtnode{"(GTSlice false " + Clist(items) + ")", sl.Interface()}
	case 2: // typed map of scalars
		kind := Pick(r, scalarKinds)
		t := reflect.TypeOf(g.containerScalar(kind).plain())
		mt := reflect.MapOf(reflect.TypeOf(""), t)
		if r.Intn(6) == 0 {
			return gtnode{"(GTMap true [])", reflect.Zero(mt).Interface()}
		}
		m := reflect.MakeMap(mt)
		ks := g.keys(r.Intn(4))
		items := make([]string, len(ks))
		for i, key := range ks {
			s := g.containerScalar(kind)
			m.SetMapIndex(reflect.ValueOf(key), reflect.ValueOf(s.plain()))
			items[i] = "(" + cbytes(key) + ", GTScalar " + s.coq() + ")"
		}
		return gtnode{"(GTMap false " + Clist(items) + ")", m.Interface()}
	case 3: // []interface{} of anything
		n := r.Intn(4)
		sl := make([]interface{}, n)
		items := make([]string, n)
		for i := range sl {
			c := g.element(depth - 1)
			sl[i] = c.val
			items[i] = c.coq
		}
		return gtnode{"(GTSlice false " + Clist(items) + ")", sl}
	case 4: // map[string]interface{} of anything
		ks := g.keys(r.Intn(4))
		m := map[string]interface{}{}
		items := make([]string, len(ks))
		for i, key := range ks {
			c := g.element(depth - 1)
			m[key] = c.val
			items[i] = "(" + cbytes(key) + ", " + c.coq + ")"
		}
		return gtnode{"(GTMap false " + Clist(items) + ")", m}
	case 5: // slice of slices / slice of maps (typed)
		n := r.Intn(3)
		inner := make([]gtnode, n)
		kind := Pick(r, scalarKinds)
		t := reflect.SliceOf(reflect.TypeOf(g.containerScalar(kind).plain()))
		sl := reflect.MakeSlice(reflect.SliceOf(t), n, n)
		items := make([]string, n)
		for i := range inner {
			m := r.Intn(3)
			row := reflect.MakeSlice(t, m, m)
			cells := make([]string, m)
			for j := 0; j < m; j++ {
				s := g.containerScalar(kind)
				row.Index(j).Set(reflect.ValueOf(s.plain()))
				cells[j] = "(GTScalar " + s.coq() + ")"
			}
			sl.Index(i).Set(row)
			items[i] = "(GTSlice false " + Clist(cells) + ")"
		}
		return gtnode{"(GTSlice false " + Clist(items) + ")", sl.Interface()}
	case 6: // fixed-size array
		kind := Pick(r, scalarKinds)
		t := reflect.TypeOf(g.containerScalar(kind).plain())
		n := r.Intn(3) + 1
		arr := reflect.New(reflect.ArrayOf(n, t)).Elem()
		items := make([]string, n)
		for i := 0; i < n; i++ {
			s := g.containerScalar(kind)
			arr.Index(i).Set(reflect.ValueOf(s.plain()))
			items[i] = "(GTScalar " + s.coq() + ")"
		}
		return gtnode{"(GTArray " + Clist(items) + ")", arr.Interface()}
	default: // struct, by value or behind a pointer
		a := g.containerScalar("int8")
		b := g.containerScalar("string")
		x := g.containerScalar("uint64")
		y := g.containerScalar("bool")
		s := S1{A: int8(a.i), B: b.s, c: r.Intn(9), G: S2{X: x.u, Y: y.b}}
		fields := []string{
			"([65], true, GTScalar " + a.coq() + ")",
			"([66], true, GTScalar " + b.coq() + ")",
			fmt.Sprintf("([99], false, GTScalar (GInt KInt %d))", s.c),
		}
		// D []uint16
		if r.Intn(3) == 0 {
			fields = append(fields, "([68], true, GTSlice true [])")
		} else {
			n := r.Intn(3)
			cells := make([]string, n)
			for i := 0; i < n; i++ {
				e := g.containerScalar("uint16")
				s.D = append(s.D, uint16(e.u))
				cells[i] = "(GTScalar " + e.coq() + ")"
			}
			if s.D == nil {
				s.D = []uint16{}
			}
			fields = append(fields, "([68], true, GTSlice false "+Clist(cells)+")")
		}
		// E map[string]float32
		if r.Intn(3) == 0 {
			fields = append(fields, "([69], true, GTMap true [])")
		} else {
			s.E = map[string]float32{}
			ks := g.keys(r.Intn(3))
			cells := make([]string, len(ks))
			for i, key := range ks {
				e := g.containerScalar("float32")
				s.E[key] = e.f32
				cells[i] = "(" + cbytes(key) + ", GTScalar " + e.coq() + ")"
			}
			fields = append(fields, "([69], true, GTMap false "+Clist(cells)+")")
		}
		// F *S2
		if r.Intn(2) == 0 {
			fields = append(fields, "([70], true, GTNilPtr)")
		} else {
			fx := g.containerScalar("uint64")
			s.F = &S2{X: fx.u, Y: true}
			fields = append(fields, "([70], true, GTStruct [([88], true, GTScalar "+fx.coq()+"); ([89], true, GTScalar (GBool true))])")
		}
		fields = append(fields, "([71], true, GTStruct [([88], true, GTScalar "+x.coq()+"); ([89], true, GTScalar "+y.coq()+")])")
		// H interface{}
		h := g.element(0)
		s.H = h.val
		fields = append(fields, "([72], true, "+h.coq+")")
		// I [2]int32
		i0, i1 := g.containerScalar("int32"), g.containerScalar("int32")
		s.I = [2]int32{int32(i0.i), int32(i1.i)}
		fields = append(fields, "([73], true, GTArray [GTScalar "+i0.coq()+"; GTScalar "+i1.coq()+"])")
		term := "(GTStruct " + Clist(fields) + ")"
		if r.Intn(2) == 0 {
			return gtnode{term, &s}
		}
		return gtnode{term, s}
	}
}

// an element of an interface{} container: a scalar of any kind, nil, or a nested container
func (g *gen) element(depth int) gtnode {
	r := g.env.Rng
	if depth > 0 && r.Intn(3) == 0 {
		return g.container(depth)
	}
	kind := Pick(r, append([]string{"nil"}, scalarKinds...))
	s := g.containerScalar(kind)
	return gtnode{"(GTScalar " + s.coq() + ")", s.plain()}
}

// the tagged tree produced by describe(), as a jv term
func jvOfDescribed(x interface{}) string {
	m, ok := x.(map[string]interface{})
	if !ok {
		return "JNull"
	}
	switch m["t"] {
	case "u":
		return "JUndef"
	case "n":
		return "JNull"
	case "b":
		b, _ := m["v"].(bool)
		return "(JBool " + Cbool(b) + ")"
	case "d":
		txt, _ := m["v"].(string)
		var f float64
		switch txt {
		case "NaN":
			f = math.NaN()
		case "Infinity":
			f = math.Inf(1)
		case "-Infinity":
			f = math.Inf(-1)
		case "-0":
			f = math.Copysign(0, -1)
		default:
			if _, err := fmt.Sscanf(txt, "%g", &f); err != nil {
				return "(JStr " + cbytes("unparsable number "+txt) + ")"
			}
		}
		return "(JNumF " + Cdouble(f) + ")"
	case "s":
		s, _ := m["v"].(string)
		return "(JStr " + cbytes(s) + ")"
	case "a":
		l, _ := m["v"].([]interface{})
		items := make([]string, len(l))
		for i, e := range l {
			if em, ok := e.(map[string]interface{}); ok && em["t"] == "h" {
				items[i] = "None"
			} else {
				items[i] = "(Some " + jvOfDescribed(e) + ")"
			}
		}
		return "(JArr " + Clist(items) + ")"
	case "o":
		ks, _ := m["k"].([]interface{})
		vs, _ := m["v"].([]interface{})
		items := make([]string, 0, len(ks))
		for i := range ks {
			k, _ := ks[i].(string)
			if i < len(vs) {
				items = append(items, "("+cbytes(k)+", "+jvOfDescribed(vs[i])+")")
			}
		}
		return "(JObj " + Clist(items) + ")"
	}
	return "(JStr " + cbytes(fmt.Sprintf("unexpected tag %v", m["t"])) + ")"
}

func (g *gen) containerCase() {
	c := g.container(3)
	if g.env.Rng.Intn(4) == 0 {
		c = g.recordContainer()
	}
	vm := g.vm
	var setErr error
	if guard(func() { setErr = vm.Set("cont", c.val) }) || setErr != nil {
		g.env.Add(fmt.Sprintf("CContainer %s OPanic OPanic OPanic", c.coq), fmt.Sprintf("container %#v could not be set: %v", c.val, setErr), "container", true)
		return
	}
	view := "OPanic"
	o := RunJS(vm, "JSON.stringify(describe(cont))")
	if o.Panic == nil {
		if o.Err != nil {
			view = fmt.Sprintf("(OErr %d)", ErrClass(o))
		} else {
			var parsed interface{}
			if err := jsonUnmarshal(o.Val.String(), &parsed); err != nil {
				view = "(OErr 8)"
			} else {
				view = "(OVal " + jvOfDescribed(parsed) + ")"
			}
		}
	}
	same, js := "OPanic", "OPanic"
	var v otto.Value
	if !guard(func() {
		var err error
		v, err = vm.Get("cont")
		if err != nil {
			panic(err)
		}
	}) {
		var x interface{}
		if !guard(func() { x, _ = v.Export() }) {
			same = "(OVal " + Cbool(reflect.DeepEqual(x, c.val)) + ")"
		}
		var bs []byte
		var err error
		if !guard(func() { bs, err = v.MarshalJSON() }) {
			want, werr := jsonMarshal(c.val)
			js = "(OVal " + Cbool((err == nil) == (werr == nil) && string(bs) == string(want)) + ")"
		}
	}
	g.env.Add(fmt.Sprintf("CContainer %s %s %s %s", c.coq, view, same, js),
		fmt.Sprintf("container %#v: script view (describe) %s; Export DeepEqual %s; MarshalJSON equals encoding/json %s", c.val, o.Val.String(), same, js), "container", true)
}

// ====================== sequences of calls: argument lists must not alias ======================

func goTypeof(v otto.Value) string {
	switch {
	case v.IsUndefined():
		return "undefined"
	case v.IsBoolean():
		return "boolean"
	case v.IsNumber():
		return "number"
	case v.IsString():
		return "string"
	case v.IsFunction():
		return "function"
	}
	return "object"
}

// descriptor (same format as probe()) of an argument list held on the Go side
func goDesc(tag string, args []otto.Value) string {
	parts := []string{tag, fmt.Sprint(len(args))}
	for _, a := range args {
		parts = append(parts, goTypeof(a), a.String())
	}
	return strings.Join(parts, "\x01")
}

type seqState struct {
	stash [2][]otto.Value // argument lists kept by stashA / stashL (not copied)
	inner []interface{}   // what the re-entrant callback passes to its nested call
}

func (g *gen) installSeqCallbacks() {
	vm := g.vm
	for i, name := range []string{"stashA", "stashL"} {
		i := i
		Must(vm.Set(name, func(call otto.FunctionCall) otto.Value {
			g.seq.stash[i] = call.ArgumentList
			return otto.UndefinedValue()
		}))
	}
	Must(vm.Set("reenter", func(call otto.FunctionCall) otto.Value {
		// first re-enter the interpreter through the API, only then look at the own arguments
		var inner otto.Value
		var err error
		if len(g.seq.inner)%2 == 0 {
			inner, err = call.Otto.Call("probe", nil, g.seq.inner...)
		} else {
			p, _ := call.Otto.Get("probe")
			inner, err = p.Call(otto.UndefinedValue(), g.seq.inner...)
		}
		in := "!error"
		if err == nil {
			in = inner.String()
		}
		r, _ := otto.ToValue(goDesc("R", call.ArgumentList) + "\x02" + in)
		return r
	}))
}

func (g *gen) seqArgs(min int) ([]gscalar, []interface{}, string, string, string) {
	n := min + g.env.Rng.Intn(3)
	args := make([]gscalar, n)
	goArgs := make([]interface{}, n)
	lits, coqs, txts := make([]string, n), make([]string, n), make([]string, n)
	for i := range args {
		args[i] = g.callArg()
		goArgs[i] = args[i].plain()
		lits[i], coqs[i], txts[i] = args[i].literal(), args[i].coq(), args[i].text()
	}
	return args, goArgs, strings.Join(lits, ", "), Clist(coqs), strings.Join(txts, ", ")
}

func (g *gen) callSeqCase(pinned int) {
	r := g.env.Rng
	vm := g.vm
	g.seq = seqState{}
	RunJS(vm, "boundA0 = boundA1 = boundL0 = boundL1 = undefined")
	var steps, obsA, obsL, txt []string
	bound := [2]bool{}
	stashed := false
	probeV, _ := vm.Get("probe")
	holderV, _ := vm.Get("holder")
	addOb := func(dst *[]string, v otto.Value, err error, p bool) {
		if p || err != nil {
			*dst = append(*dst, callOb(v, err, p))
			return
		}
		for _, part := range strings.Split(v.String(), "\x02") {
			*dst = append(*dst, "(OVal "+descTerm(part)+")")
		}
	}
	nsteps := r.Intn(6) + 3
	plan := []int{}
	switch pinned {
	case 1:
		plan = []int{0, 2, 4}
	case 2:
		plan = []int{3, 1, 2, 5}
	}
	for i := 0; i < nsteps || i < len(plan); i++ {
		k := r.Intn(6)
		if i < len(plan) {
			k = plan[i]
		} else if len(plan) > 0 {
			break
		}
		switch {
		case k == 0: // bind through Object.Call
			slot := r.Intn(2)
			_, goArgs, lits, coqs, t := g.seqArgs(1)
			var v otto.Value
			var err error
			p := guard(func() { v, err = probeV.Object().Call("bind", append([]interface{}{"T"}, goArgs...)...) })
			if p || err != nil {
				txt = append(txt, fmt.Sprintf("API bind failed: %v", err))
				obsA = append(obsA, "OPanic")
			} else {
				Must(vm.Set(fmt.Sprintf("boundA%d", slot), v))
			}
			RunJS(vm, fmt.Sprintf("boundL%d = probe.bind(\"T\", %s)", slot, lits))
			bound[slot] = true
			steps = append(steps, fmt.Sprintf("SBind %d %s", slot, coqs))
			txt = append(txt, fmt.Sprintf("bound%d = probe.bind(\"T\", %s) [API: Object.Call(\"bind\", \"T\", %s)]", slot, lits, t))
		case k == 1: // a Go callback keeps its argument list
			_, goArgs, lits, coqs, t := g.seqArgs(2)
			var err error
			p := guard(func() { _, err = vm.Call("stashA", nil, goArgs...) })
			if p || err != nil {
				obsA = append(obsA, "OPanic")
			}
			RunJS(vm, "stashL("+lits+")")
			stashed = true
			steps = append(steps, "SStash "+coqs)
			txt = append(txt, fmt.Sprintf("stash(%s) [API: Otto.Call(\"stash\", nil, %s)]", lits, t))
		case k == 2: // plain multi-argument call
			_, goArgs, lits, coqs, t := g.seqArgs(2)
			var v otto.Value
			var err error
			var lang string
			var p bool
			switch r.Intn(3) {
			case 0:
				p = guard(func() { v, err = vm.Call("probe", nil, goArgs...) })
				lang = "probe(" + lits + ")"
			case 1:
				p = guard(func() { v, err = probeV.Call(otto.UndefinedValue(), goArgs...) })
				lang = "probe(" + lits + ")"
			default:
				p = guard(func() { v, err = holderV.Object().Call("probe", goArgs...) })
				lang = "holder.probe(" + lits + ")"
			}
			addOb(&obsA, v, err, p)
			o := RunJS(vm, lang)
			addOb(&obsL, o.Val, o.Err, o.Panic != nil)
			steps = append(steps, "SProbe "+coqs)
			txt = append(txt, fmt.Sprintf("%s [API args %s] -> API %q / in-language %q", lang, t, v.String(), o.Val.String()))
		case k == 3: // re-entrant Go callback
			_, goOuter, litsO, coqsO, tO := g.seqArgs(2)
			_, goInner, _, coqsI, tI := g.seqArgs(2)
			g.seq.inner = goInner
			var v otto.Value
			var err error
			var p bool
			if r.Intn(2) == 0 {
				p = guard(func() { v, err = vm.Call("reenter", nil, goOuter...) })
			} else {
				re, _ := vm.Get("reenter")
				p = guard(func() { v, err = re.Call(otto.UndefinedValue(), goOuter...) })
			}
			addOb(&obsA, v, err, p)
			o := RunJS(vm, "reenter("+litsO+")")
			addOb(&obsL, o.Val, o.Err, o.Panic != nil)
			steps = append(steps, fmt.Sprintf("SNest %s %s", coqsO, coqsI))
			txt = append(txt, fmt.Sprintf("reenter(%s) [API args %s] whose Go body first calls probe(%s) through the API -> API %q / in-language %q", litsO, tO, tI, v.String(), o.Val.String()))
		case k == 4 && (bound[0] || bound[1]): // call a bound function
			slot := 0
			if !bound[0] || (bound[1] && r.Intn(2) == 0) {
				slot = 1
			}
			_, goArgs, lits, coqs, t := g.seqArgs(0)
			var v otto.Value
			var err error
			var p bool
			if r.Intn(2) == 0 {
				b, _ := vm.Get(fmt.Sprintf("boundA%d", slot))
				p = guard(func() { v, err = b.Call(otto.UndefinedValue(), goArgs...) })
			} else {
				o := RunJS(vm, fmt.Sprintf("boundA%d(%s)", slot, lits))
				v, err, p = o.Val, o.Err, o.Panic != nil
			}
			addOb(&obsA, v, err, p)
			o := RunJS(vm, fmt.Sprintf("boundL%d(%s)", slot, lits))
			addOb(&obsL, o.Val, o.Err, o.Panic != nil)
			steps = append(steps, fmt.Sprintf("SCallBound %d %s", slot, coqs))
			txt = append(txt, fmt.Sprintf("bound%d(%s) [API args %s] -> API %q / in-language %q", slot, lits, t, v.String(), o.Val.String()))
		case k == 5 && stashed: // read the kept argument lists
			a, l := goDesc("S", g.seq.stash[0]), goDesc("S", g.seq.stash[1])
			obsA = append(obsA, "(OVal "+descTerm(a)+")")
			obsL = append(obsL, "(OVal "+descTerm(l)+")")
			steps = append(steps, "SRecall")
			txt = append(txt, fmt.Sprintf("kept argument list: API %q / in-language %q", a, l))
		}
	}
	g.env.Add(fmt.Sprintf("CCallSeq %s %s %s", Clist(steps), Clist(obsA), Clist(obsL)), "call sequence: "+strings.Join(txt, "; "), "call-sequence", true)
}

// ====================== one script object in its Go spellings ======================

var spellingNames = []string{"otto.Value", "*otto.Object", "otto.Object (by value)"}
var handlePathNames = []string{"Otto.Set", "Otto.ToValue + Set", "Object.Set", "argument of Otto.Call", "argument of Value.Call", "argument of Object.Call", "this of Value.Call", "this of Otto.Call"}

const handlePrelude = `
var orig, copy;
function takeArg(a, b) { copy = a; return 0 }
function takeThis() { copy = this; return 0 }
holder.takeArg = takeArg;
`

func (g *gen) objHandleCase(spelling, path int) {
	r := g.env.Rng
	vm := g.vm
	var n *jnode
	for {
		n = g.tree(r.Intn(3) + 1)
		if n.t == "arr" || n.t == "obj" {
			break
		}
	}
	src := n.js()
	o := RunJS(vm, "copy = undefined; orig = ("+src+")")
	if o.Panic != nil || o.Err != nil {
		g.env.Add("CCallErr 9 0 1", "object handle: could not evaluate "+src, "handle-failed", true)
		return
	}
	v, _ := vm.Get("orig")
	var h interface{} = v
	switch spelling {
	case 1:
		h = v.Object()
	case 2:
		h = *v.Object()
	}
	var err error
	p := guard(func() {
		switch path {
		case 0:
			err = vm.Set("copy", h)
		case 1:
			var tv otto.Value
			if tv, err = vm.ToValue(h); err == nil {
				err = vm.Set("copy", tv)
			}
		case 2:
			hv, _ := vm.Get("holder")
			if err = hv.Object().Set("cp", h); err == nil {
				_, err = vm.Run("copy = holder.cp")
			}
		case 3:
			_, err = vm.Call("takeArg", nil, h, 1)
		case 4:
			f, _ := vm.Get("takeArg")
			_, err = f.Call(otto.UndefinedValue(), h, 1)
		case 5:
			hv, _ := vm.Get("holder")
			_, err = hv.Object().Call("takeArg", h, 1)
		case 6:
			var tv otto.Value
			if tv, err = vm.ToValue(h); err == nil {
				f, _ := vm.Get("takeThis")
				_, err = f.Call(tv, 1, 2)
			}
		case 7:
			_, err = vm.Call("takeThis", h, 1, 2)
		}
	})
	ident, ty, exp, shown := "OPanic", "OPanic", "OPanic", "panic"
	if !p && err != nil {
		e := fmt.Sprintf("(OErr %d)", errClassOf(err))
		ident, ty, exp, shown = e, e, e, err.Error()
	}
	if !p && err == nil {
		ident = g.jsOb("copy === orig", projBool)
		ty = g.jsOb("typeof copy", projTypeof)
		exp, shown = g.exportOb(0, "copy")
	}
	g.env.Add(fmt.Sprintf("CObjHandle %d %d %s %s %s %s", spelling, path, n.coq(false), ident, ty, exp),
		fmt.Sprintf("object handle: orig = %s given back as %s via %s: copy === orig %s, typeof copy %s, Export %s", src, spellingNames[spelling], handlePathNames[path], ident, ty, shown), "object-handle", true)
}

// ====================== failing calls must not consume stack depth ======================

const depthPrelude = `
function depth(n) { return n <= 0 ? 0 : 1 + depth(n - 1) }
function boom() { throw new TypeError("t") }
function boomDeep(n) { if (n <= 0) throw new RangeError("r"); return boomDeep(n - 1) }
function ok(a, b) { return 1 }
function stackLen() { return new Error().stack.split("\n").length }
var holder = { boom: boom, ok: ok };
`

func measureDepth(limit int, try func(n int) bool) int64 {
	for n := 1; n <= limit+8; n++ {
		if !try(n) {
			return int64(n - 1)
		}
	}
	return int64(limit + 8)
}

func (g *gen) depthHistCase(pinned bool) {
	r := g.env.Rng
	limit := 12 + r.Intn(24)
	mk := func() *otto.Otto {
		vm := otto.New()
		_, err := vm.Run(depthPrelude)
		Must(err)
		vm.SetStackDepthLimit(limit)
		return vm
	}
	a, l := mk(), mk()
	apiDepth := func(vm *otto.Otto) int64 {
		return measureDepth(limit, func(n int) bool {
			var err error
			if guard(func() { _, err = vm.Call("depth", nil, n) }) {
				return false
			}
			return err == nil
		})
	}
	scriptDepth := func(vm *otto.Otto) int64 {
		return measureDepth(limit, func(n int) bool { o := RunJS(vm, fmt.Sprintf("depth(%d)", n)); return o.Panic == nil && o.Err == nil })
	}
	stackAPI := func(vm *otto.Otto) int64 {
		var v otto.Value
		var err error
		if guard(func() { v, err = vm.Call("stackLen", nil) }) || err != nil {
			return -1
		}
		n, _ := v.ToInteger()
		return n
	}
	stackScript := func(vm *otto.Otto) int64 {
		o := RunJS(vm, "stackLen()")
		if o.Panic != nil || o.Err != nil {
			return -1
		}
		n, _ := o.Val.ToInteger()
		return n
	}
	// baselines (the script measurements first: the API measurement itself ends in a failing call)
	a0s, a0k, a0a := scriptDepth(a), stackAPI(a), apiDepth(a)
	l0s, l0k := scriptDepth(l), stackScript(l)

	type op struct {
		call func() error
		lang string
		txt  string
		cls  int
	}
	k := r.Intn(limit - 8)
	cands := []op{
		{func() error { _, e := a.Call("boom", nil); return e }, `boom()`, `Otto.Call("boom", nil)`, 6},
		{func() error { _, e := a.Call("boom", nil, 1, 2); return e }, `boom(1, 2)`, `Otto.Call("boom", nil, 1, 2)`, 6},
		{func() error { _, e := a.Call("boomDeep", nil, k); return e }, fmt.Sprintf(`boomDeep(%d)`, k), fmt.Sprintf(`Otto.Call("boomDeep", nil, %d)`, k), 3},
		{func() error { _, e := a.Call("ok", nil, 1, 2); return e }, `ok(1, 2)`, `Otto.Call("ok", nil, 1, 2)`, 0},
		{func() error { _, e := a.Call("boom", "T"); return e }, `boom.call("T")`, `Otto.Call("boom", "T")`, 6},
		{func() error { f, _ := a.Get("boom"); _, e := f.Call(otto.UndefinedValue()); return e }, `boom.call(undefined)`, `Value.Call(boom)`, 6},
		{func() error { h, _ := a.Get("holder"); _, e := h.Object().Call("boom", 1); return e }, `holder.boom(1)`, `Object.Call("boom", 1)`, 6},
		{func() error { _, e := a.Call("nosuch", nil); return e }, `nosuch()`, `Otto.Call("nosuch", nil)`, 4},
		{func() error { _, e := a.Call("new boom", nil); return e }, `new boom()`, `Otto.Call("new boom", nil)`, 6},
		{func() error { _, e := a.Call("holder.boom", nil, 1); return e }, `holder.boom(1)`, `Otto.Call("holder.boom", nil, 1)`, 6},
		{func() error { _, e := a.Call("depth", nil, limit+10); return e }, fmt.Sprintf(`depth(%d)`, limit+10), fmt.Sprintf(`Otto.Call("depth", nil, %d)`, limit+10), 3},
	}
	nops := r.Intn(10) + 3
	var ops, txt []string
	var api, lang []int64
	for i := 0; i < nops; i++ {
		c := Pick(r, cands)
		if pinned {
			c = cands[i%3]
		}
		var err error
		ca := int64(9)
		if !guard(func() { err = c.call() }) {
			ca = errClassOf(err)
		}
		api = append(api, ca)
		lang = append(lang, ErrClass(RunJS(l, c.lang)))
		if c.cls == 0 {
			ops = append(ops, "DOk")
		} else {
			ops = append(ops, fmt.Sprintf("DThrow %d", c.cls))
		}
		txt = append(txt, fmt.Sprintf("%s -> class %d / in-language %s -> class %d", c.txt, ca, c.lang, lang[len(lang)-1]))
	}
	a1s, a1k, a1a := scriptDepth(a), stackAPI(a), apiDepth(a)
	l1s, l1k := scriptDepth(l), stackScript(l)
	api = append(api, a1a-a0a, a1s-a0s, a1k-a0k)
	lang = append(lang, l1s-l0s, l1s-l0s, l1k-l0k)
	g.env.Add(fmt.Sprintf("CDepthHist %d %s %s %s", limit, Clist(ops), Czlist(api), Czlist(lang)),
		fmt.Sprintf("depth history (SetStackDepthLimit %d): %s; deepest depth(n) through Otto.Call %d -> %d, through a script %d -> %d, Error().stack lines %d -> %d; in-language runtime: depth %d -> %d, stack lines %d -> %d",
			limit, strings.Join(txt, "; "), a0a, a1a, a0s, a1s, a0k, a1k, l0s, l1s, l0k, l1k), "depth-history", true)
}

// ====================== struct types that print the same name ======================
// three function-local types all called `record` (reflect's String() is "main.record" for each), with the
// common fields at different positions

func recordA(id int, label string, flag bool) (interface{}, interface{}) {
	type record struct {
		ID    int
		Label string
	}
	return record{id, label}, &record{id, label}
}

func recordB(id int, label string, flag bool) (interface{}, interface{}) {
	type record struct {
		Label string
		ID    int
	}
	return record{label, id}, &record{label, id}
}

func recordC(id int, label string, flag bool) (interface{}, interface{}) {
	type record struct {
		Flag  bool
		ID    int
		Label string
	}
	return record{flag, id, label}, &record{flag, id, label}
}

func (g *gen) recordContainer() gtnode {
	r := g.env.Rng
	id := g.containerScalar("int")
	label := g.containerScalar("string")
	flag := r.Intn(2) == 0
	fID := "([73; 68], true, GTScalar " + id.coq() + ")"
	fLabel := "([76; 97; 98; 101; 108], true, GTScalar " + label.coq() + ")"
	fFlag := "([70; 108; 97; 103], true, GTScalar (GBool " + Cbool(flag) + "))"
	var v, pv interface{}
	var fields []string
	switch r.Intn(3) {
	case 0:
		v, pv = recordA(int(id.i), label.s, flag)
		fields = []string{fID, fLabel}
	case 1:
		v, pv = recordB(int(id.i), label.s, flag)
		fields = []string{fID, fLabel} // the script walk reports keys in ascending order
	default:
		v, pv = recordC(int(id.i), label.s, flag)
		fields = []string{fFlag, fID, fLabel}
	}
	if r.Intn(2) == 0 {
		v = pv
	}
	return gtnode{"(GTStruct " + Clist(fields) + ")", v}
}

// ====================== one binding, many numerically equal Go values ======================

func (g *gen) kindGroup() []gscalar {
	r := g.env.Rng
	i := func(k string, v int64) gscalar { return gscalar{kind: k, i: v} }
	u := func(k string, v uint64) gscalar { return gscalar{kind: k, u: v} }
	f := func(v float64) gscalar { return gscalar{kind: "float64", f64: v} }
	f32 := func(v float32) gscalar { return gscalar{kind: "float32", f32: v} }
	nz := math.Copysign(0, -1)
	groups := [][]gscalar{
		{i("int8", 1), f(1), u("uint16", 1), i("int64", 1), f32(1), u("uint", 1), i("int", 1), u("uint8", 1), i("int32", 1), {kind: "bool", b: true}, {kind: "string", s: "1"}},
		{f(1 << 53), u("uint64", 1<<53+1), i("int64", 1<<53+1), i("int64", 1<<53), u("uint64", 1<<53), u("uint", 1<<53+1), i("int", 1<<53), f32(1 << 53)},
		{i("int8", 0), f(0), f(nz), u("uint64", 0), f32(0), f32(float32(nz)), i("int64", 0), {kind: "bool", b: false}, {kind: "nil"}, {kind: "string", s: ""}, {kind: "string", s: "0"}},
		{f(math.NaN()), f32(float32(math.NaN())), {kind: "nil"}, f(math.NaN()), {kind: "string", s: "NaN"}},
		{u("uint64", 1<<63), f(1 << 63), u("uint64", 1<<63+1), u("uint", 1<<63+1024), u("uint64", 1<<63+1024), f32(1 << 63), u("uint64", 1<<63-1), i("int64", 1<<63-1)},
		{u("uint8", 255), i("int16", 255), f(255), u("uint32", 255), i("int64", 255), f32(255), u("uint16", 255)},
		{i("int8", -1), i("int64", -1), f(-1), i("int16", -1), i("int32", -1), f32(-1), i("int", -1)},
		{i("int64", -(1 << 63)), f(-(1 << 63)), i("int", -(1 << 63)), i("int64", -(1<<63 - 1)), f32(-(1 << 63))},
		{f(math.Inf(1)), f32(float32(math.Inf(1))), f(math.MaxFloat64), f(math.Inf(1))},
	}
	return Pick(r, groups)
}

func (g *gen) kindHistCase(pinned int) {
	r := g.env.Rng
	vm := g.vm
	target := r.Intn(3)
	group := g.kindGroup()
	if pinned > 0 {
		target = pinned - 1
	}
	RunJS(vm, "try { delete kh } catch (e) {}; kobj = {}; karr = [];")
	ref := []string{"kh", "kobj.p", "karr[0]"}[target]
	obj := func() *otto.Object {
		v, _ := vm.Get([]string{"", "kobj", "karr"}[target])
		return v.Object()
	}
	prop := []string{"kh", "p", "0"}[target]
	var ops, obs, txt []string
	nops := r.Intn(8) + 3
	for k := 0; k < nops; k++ {
		choice := r.Intn(10)
		if pinned > 0 {
			choice = []int{0, 9, 0, 9, 5, 8, 0, 9}[k%8]
		}
		switch {
		case choice < 4: // Go write
			s := Pick(r, group)
			if pinned > 0 {
				s = group[k/2%len(group)]
			}
			var err error
			p := guard(func() {
				if target == 0 {
					err = vm.Set(prop, s.plain())
				} else {
					err = obj().Set(prop, s.plain())
				}
			})
			ops = append(ops, "KSet "+s.coq())
			txt = append(txt, fmt.Sprintf("Go set %s = %s (err %v panic %v)", ref, s.text(), err, p))
		case choice < 6: // script write of the counterpart's literal
			s := Pick(r, group)
			if !s.isNumber() {
				continue
			}
			o := RunJS(vm, ref+" = "+s.literal())
			ops = append(ops, "KSetScript "+s.coq())
			txt = append(txt, fmt.Sprintf("script %s = %s (err %v)", ref, s.literal(), o.Err))
		default: // read
			via := choice % 2
			var v otto.Value
			var err error
			p := guard(func() {
				if via == 0 {
					if target == 0 {
						v, err = vm.Get(prop)
					} else {
						v, err = obj().Get(prop)
					}
				} else {
					o := RunJS(vm, "typeof kh === 'undefined' && "+fmt.Sprint(target == 0)+" ? undefined : "+ref)
					v, err = o.Val, o.Err
				}
			})
			ob, shown := "OPanic", "panic"
			if !p && err != nil {
				ob, shown = fmt.Sprintf("(OErr %d)", errClassOf(err)), err.Error()
			}
			if !p && err == nil {
				var x interface{}
				if !guard(func() { x, _ = v.Export() }) {
					if term, known := exportedScalar(x); known {
						ob = "(OVal " + term + ")"
					} else {
						ob = "(OErr 8)"
					}
					shown = fmt.Sprintf("%#v (%T)", x, x)
				}
			}
			ops = append(ops, fmt.Sprintf("KRead %d", via))
			obs = append(obs, ob)
			txt = append(txt, fmt.Sprintf("%s read %s -> Export %s", []string{"Go", "script"}[via], ref, shown))
		}
	}
	g.env.Add(fmt.Sprintf("CKindHist %d %s %s", target, Clist(ops), Clist(obs)), "kind history: "+strings.Join(txt, "; "), "kind-history", true)
}

// ====================== host entry points used re-entrantly under shadowing frames ======================

const reentryPrelude = `
function pick(x) { return "global pick(" + x + ")" }
var gv = "global gv", gs = "global gs";
var holder2 = { pick: function(x) { return "holder pick(" + x + ")" } };
function mk(tag) { return function(x) { return tag + " pick(" + x + ")" } }
function fin(r, gs) { return r + "\u0001" + gs }
function frame0(pick, gv, gs, src) { return fin(src ? eval(src) : hostop(), gs) }
function frame1(src) { var pick = mk("local"), gv = "local gv", gs = "local gs"; return fin(src ? eval(src) : hostop(), gs) }
function frame2(src) { with ({pick: mk("with"), gv: "with gv", gs: "with gs"}) { return fin(src ? eval(src) : hostop(), gs) } }
function frame3(src) { try { throw mk("catch") } catch (pick) { try { throw "catch gv" } catch (gv) { try { throw "catch gs" } catch (gs) { return fin(src ? eval(src) : hostop(), gs) } } } }
function frame4(src) { var pick = mk("nested"), gv = "nested gv", gs = "nested gs"; return (function() { return fin(src ? eval(src) : hostop(), gs) })() }
function frame5(src) { return fin(src ? eval(src) : hostop(), gs) }
`

var reopNames = []string{`Otto.Call("pick", nil, n)`, `Otto.Call("pick", this, n)`, `Value.Call(pick)`, `Object.Call(holder2, "pick")`, `Otto.Get("gv")`,
	`Otto.Set("gs") + Otto.Get("gs")`, `Otto.Run("pick(n)")`, `Otto.Eval("pick(n)")`, `Otto.Run("gv")`, `Otto.Eval("gv")`, `Otto.Call("holder2.pick", nil, n)`}

// one host operation on the given handle (at rest, or from inside the native callback)
func hostOperation(vm *otto.Otto, op int, n int64) (res string) {
	defer func() {
		if r := recover(); r != nil {
			res = fmt.Sprintf("!panic %v", r)
		}
	}()
	str := func(v otto.Value, err error) string {
		if err != nil {
			return fmt.Sprintf("!err %d", errClassOf(err))
		}
		return v.String()
	}
	switch op {
	case 0:
		return str(vm.Call("pick", nil, n))
	case 1:
		return str(vm.Call("pick", "T", n))
	case 2:
		f, err := vm.Get("pick")
		if err != nil {
			return str(f, err)
		}
		return str(f.Call(otto.UndefinedValue(), n))
	case 3:
		h, err := vm.Get("holder2")
		if err != nil {
			return str(h, err)
		}
		return str(h.Object().Call("pick", n))
	case 4:
		return str(vm.Get("gv"))
	case 5:
		if err := vm.Set("gs", fmt.Sprintf("set %d", n)); err != nil {
			return str(otto.Value{}, err)
		}
		return str(vm.Get("gs"))
	case 6:
		return str(vm.Run(fmt.Sprintf("pick(%d)", n)))
	case 7:
		return str(vm.Eval(fmt.Sprintf("pick(%d)", n)))
	case 8:
		return str(vm.Run("gv"))
	case 9:
		return str(vm.Eval("gv"))
	default:
		return str(vm.Call("holder2.pick", nil, n))
	}
}

func (g *gen) installReentry() {
	_, err := g.vm.Run(reentryPrelude)
	Must(err)
	Must(g.vm.Set("hostop", func(call otto.FunctionCall) otto.Value {
		r, _ := otto.ToValue(hostOperation(call.Otto, g.reop, g.ren))
		return r
	}))
}

func (g *gen) reentryCase(op, frame int) {
	r := g.env.Rng
	vm := g.vm
	n := int64(r.Intn(1000))
	g.reop, g.ren = op, n
	frameCall := func(src string) string {
		arg := "undefined"
		if src != "" {
			arg = jsStrLit(src)
		}
		if frame == 0 {
			return fmt.Sprintf(`frame0(mk("param"), "param gv", "param gs", %s)`, arg)
		}
		return fmt.Sprintf("frame%d(%s)", frame, arg)
	}
	obStr := func(s string) string {
		if strings.HasPrefix(s, "!") {
			return "(OErr 8)"
		}
		return "(OVal " + cbytes(s) + ")"
	}
	RunJS(vm, `gs = "global gs"`)
	var ref string
	isEval := op == 7 || op == 9
	if isEval { // the reference is the in-language eval in the same frame
		src := "gv"
		if op == 7 {
			src = fmt.Sprintf("pick(%d)", n)
		}
		o := RunJS(vm, frameCall(src))
		ref = "!fail"
		if o.Panic == nil && o.Err == nil {
			ref = strings.Split(o.Val.String(), "\x01")[0]
		}
	} else {
		ref = hostOperation(vm, op, n)
	}
	RunJS(vm, `gs = "global gs"`)
	o := RunJS(vm, frameCall(""))
	reent, local := "!fail", "!fail"
	if o.Panic == nil && o.Err == nil {
		parts := strings.SplitN(o.Val.String(), "\x01", 2)
		reent = parts[0]
		if len(parts) > 1 {
			local = parts[1]
		}
	}
	g.env.Add(fmt.Sprintf("CReentry %d %d %d %s %s %s", op, frame, n, obStr(ref), obStr(reent), obStr(local)),
		fmt.Sprintf("re-entrant %s with n=%d from a native callback under %s: reference %q, re-entrant %q, the frame's own gs afterwards %q", reopNames[op], n, frameCall(""), ref, reent, local), "reentry", true)
}

// ====================== pinned grid: special values of every kind on every route that keeps the kind ======================

func (g *gen) specialGrid() {
	reflPaths := []int{1, 2, 10, 11, 12}
	nz32 := float32(math.Copysign(0, -1))
	f32s := []struct {
		v      float32
		simple bool
	}{{float32(math.NaN()), true}, {0, true}, {nz32, true}, {float32(math.Inf(1)), true}, {float32(math.Inf(-1)), true}, {1, true}, {-1, true}, {0.5, true},
		{math.SmallestNonzeroFloat32, false}, {math.MaxFloat32, false}}
	for _, f := range f32s {
		for _, p := range reflPaths {
			g.scalarCases(p, gscalar{kind: "float32", f32: f.v}, f.simple)
		}
	}
	k := 0
	next := func() int { k++; return reflPaths[k%len(reflPaths)] }
	for _, f := range []float64{math.NaN(), 0, math.Copysign(0, -1), math.Inf(1), math.Inf(-1), math.SmallestNonzeroFloat64, math.MaxFloat64, -1} {
		g.scalarCases(next(), gscalar{kind: "float64", f64: f}, true)
	}
	for _, kind := range intKinds {
		w := widthOf(kind)
		if isSigned(kind) {
			lo := int64(-1) << (w - 1)
			for _, v := range []int64{0, lo, -(lo + 1)} {
				g.scalarCases(next(), gscalar{kind: kind, i: v}, true)
			}
		} else {
			hi := uint64(math.MaxUint64)
			if w < 64 {
				hi = uint64(1)<<w - 1
			}
			for _, v := range []uint64{0, hi} {
				g.scalarCases(next(), gscalar{kind: kind, u: v}, true)
			}
		}
	}
	for _, s := range []gscalar{{kind: "bool", b: false}, {kind: "bool", b: true}, {kind: "string", s: ""}, {kind: "string", s: "0"}, {kind: "string", s: "NaN"}, {kind: "string", s: " "}} {
		g.scalarCases(next(), s, true)
	}
}

// ====================== objects whose prototype chain carries enumerable data ======================

const pollutedPrelude = `
Object.prototype.tag = "polyfill";
Object.prototype.a = "inherited a";
Object.prototype.count = 1;
Array.prototype.extra = "array extra";
function Rec() {}
Rec.prototype.dflt = 5;
Rec.prototype.key = "proto key";
Rec.prototype.b = [1, 2];
Rec.prototype.z = { nested: true };
function build(how, depth, own) {
	var o;
	if (how === 6) { o = new Rec() }
	else {
		var p = { a: "chain a", c: 3, key: "chain key", "10": "chain ten", list: [1] };
		for (var i = 1; i < depth; i++) { p = Object.create(p); p["level" + i] = i; p.b = "level b" }
		o = Object.create(p);
	}
	for (var j = 0; j < own.length; j++) o[own[j][0]] = own[j][1];
	return o;
}
`

func (g *gen) protoObjCase(how int) {
	r := g.env.Rng
	vm := g.vmP
	ks := g.keys(r.Intn(5))
	o := &jnode{t: "obj", keys: ks}
	for range ks {
		o.elems = append(o.elems, g.tree(r.Intn(3)))
	}
	allFloat := false
	var src string
	switch how {
	case 4:
		src = "(" + o.js() + ")"
	case 5:
		if !o.jsonLike() {
			how, src = 4, "("+o.js()+")"
		} else {
			src, allFloat = "JSON.parse("+jsStrLit(o.json())+")", true
		}
	default:
		pairs := make([]string, len(ks))
		for i, k := range ks {
			pairs[i] = "[" + jsStrLit(k) + ", " + o.elems[i].js() + "]"
		}
		src = fmt.Sprintf("build(%d, %d, [%s])", how, r.Intn(3)+1, strings.Join(pairs, ", "))
	}
	own := make([]string, len(ks))
	for i, k := range ks {
		own[i] = "(" + cbytes(k) + ", " + o.elems[i].coq(allFloat) + ")"
	}
	exp, keys, js, shown := "OPanic", "OPanic", "OPanic", "panic"
	ro := RunJS(vm, "subject = "+src)
	if ro.Panic == nil && ro.Err != nil {
		e := fmt.Sprintf("(OErr %d)", ErrClass(ro))
		exp, keys, js, shown = e, e, e, ro.Err.Error()
	}
	if ro.Panic == nil && ro.Err == nil {
		v := ro.Val
		var x interface{}
		if !guard(func() { x, _ = v.Export() }) {
			exp, shown = "(OVal "+gvOf(x)+")", fmt.Sprintf("%#v", x)
		}
		var kl []string
		if !guard(func() { kl = v.Object().Keys() }) {
			sortStrings(kl)
			items := make([]string, len(kl))
			for i, k := range kl {
				items[i] = cbytes(k)
			}
			keys = "(OVal " + Clist(items) + ")"
		}
		var bs []byte
		var err error
		if !guard(func() { bs, err = v.MarshalJSON() }) {
			lang := RunJS(vm, "JSON.stringify(subject)")
			js = "(OVal " + Cbool(err == nil && lang.Err == nil && lang.Panic == nil && string(bs) == lang.Val.String()) + ")"
			shown += fmt.Sprintf("; MarshalJSON %q / JSON.stringify %q", bs, lang.Val.String())
		}
	}
	g.env.Add(fmt.Sprintf("CProtoObj %d %s %s %s %s", how, Clist(own), exp, keys, js),
		fmt.Sprintf("object under enumerable prototype data: %s -> Export %s; Keys %s", src, shown, keys), "proto-object", true)
}

// ====================== which this an API call runs with ======================

const thisPrelude = `
function bump(k) { this.n = (this.n || 0) + k; return thisTag(this) }
holder.bump = bump;
var deep = { a: { probe: probe, bump: bump, toString: function() { return "DEEPA" } } };
var n = 0;
function resetN() { holder.n = 0; deep.a.n = 0; n = 0 }
function readN() { return [holder.n, deep.a.n, n].join(",") }
`

var thisSrcs = [][2]string{ // source text for probe / for bump, by src kind
	{"probe", "bump"}, {"holder.probe", "holder.bump"}, {`holder["probe"]`, `holder["bump"]`}, {"deep.a.probe", "deep.a.bump"},
	{"(function(){ return probe })()", "(function(){ return bump })()"}}
var thisLits = []string{"", "undefined", "undefined", "undefined", "undefined", "null", `"str"`, "7", "true", "holder", "deep.a"}
var thisNames = []string{"nil", "otto.UndefinedValue()", "otto.Value{}", "undefined result of Run", "typed nil pointer", "otto.NullValue()", `"str"`, "7", "true", "holder (Value)", "deep.a (*otto.Object)"}

func (g *gen) thisArg(kind int) interface{} {
	vm := g.vm
	switch kind {
	case 0:
		return nil
	case 1:
		return otto.UndefinedValue()
	case 2:
		return otto.Value{}
	case 3:
		v, _ := vm.Run("undefined")
		return v
	case 4:
		return (*S2)(nil)
	case 5:
		return otto.NullValue()
	case 6:
		return "str"
	case 7:
		return 7
	case 8:
		return true
	case 9:
		v, _ := vm.Get("holder")
		return v
	default:
		v, _ := vm.Run("deep.a")
		return v.Object()
	}
}

func parseInts(s string) []int64 {
	out := []int64{}
	for _, p := range strings.Split(s, ",") {
		var v int64
		if _, err := fmt.Sscanf(p, "%d", &v); err != nil {
			v = -999
		}
		out = append(out, v)
	}
	return out
}

func (g *gen) callThisCase(api, src, this int) {
	r := g.env.Rng
	vm := g.vm
	if api == 1 && (this == 0 || this == 4) {
		this = 1 // Value.Call takes a Value
	}
	k := int64(r.Intn(50) + 1)
	_, goArgs, lits, coqs, targs := g.seqArgs(0)
	// 1. what the callee sees
	var v otto.Value
	var err error
	callAPI := func(source string, args ...interface{}) bool {
		return guard(func() {
			if api == 0 {
				v, err = vm.Call(source, g.thisArg(this), args...)
				return
			}
			var f otto.Value
			if f, err = vm.Run(source); err != nil {
				return
			}
			tv, _ := vm.ToValue(g.thisArg(this))
			v, err = f.Call(tv, args...)
		})
	}
	langCall := func(source, argl string) string {
		if this == 0 {
			return source + "(" + argl + ")"
		}
		if argl != "" {
			argl = ", " + argl
		}
		return "(" + source + ").call(" + thisLits[this] + argl + ")"
	}
	p := callAPI(thisSrcs[src][0], goArgs...)
	obsAPI := callOb(v, err, p)
	shownAPI := v.String()
	o := RunJS(vm, langCall(thisSrcs[src][0], lits))
	obsLang := callOb(o.Val, o.Err, o.Panic != nil)
	// 2. which object the callee writes to
	RunJS(vm, "resetN()")
	callAPI(thisSrcs[src][1], k)
	effAPI := g.jsText("readN()")
	RunJS(vm, "resetN()")
	RunJS(vm, langCall(thisSrcs[src][1], fmt.Sprint(k)))
	effLang := g.jsText("readN()")
	g.env.Add(fmt.Sprintf("CCallThis %d %d %d %d %s %s %s %s %s", api, src, this, k, coqs, obsAPI, obsLang, Czlist(parseInts(effAPI)), Czlist(parseInts(effLang))),
		fmt.Sprintf("this of a call: %s source %s this %s args [%s] -> %q; in-language %s -> %q; after adding %d to this.n [holder.n, deep.a.n, global n] = %s, in-language %s",
			[]string{"Otto.Call", "Value.Call"}[api], thisSrcs[src][0], thisNames[this], targs, shownAPI, langCall(thisSrcs[src][0], lits), o.Val.String(), k, effAPI, effLang), "call-this", true)
}

// ====================== Export of cyclic object graphs (in a child process: the overflow of the Go stack is fatal) ======================

var cyclicShapes = []string{
	`var a = {}; a.a = a; a`,
	`var a = {x: 1}, b = {y: 2, back: a}; a.next = b; a`,
	`var a = []; a[0] = a; a`,
	`var a = {list: []}; a.list.push({owner: a}); a`,
	`var a = {}, b = {}, c = {}; a.b = b; b.c = c; c.a = a; [a, 1]`,
}

// the same data with every reference back into the path replaced by null (jv terms; keys ascending)
var cyclicUnrolled = []string{
	`(JObj [([97], JNull)])`,
	`(JObj [([110; 101; 120; 116], JObj [([98; 97; 99; 107], JNull); ([121], JNumI KInt64 2)]); ([120], JNumI KInt64 1)])`,
	`(JArr [Some JNull])`,
	`(JObj [([108; 105; 115; 116], JArr [Some (JObj [([111; 119; 110; 101; 114], JNull)])])])`,
	`(JArr [Some (JObj [([98], JObj [([99], JObj [([97], JNull)])])]); Some (JNumI KInt64 1)])`,
}

// child mode: c15 cyclic-child <shape>; prints the exported value as a gv term
func cyclicChild(shape int) {
	debug.SetMaxStack(32 << 20) // if Export does not return, die quickly instead of growing the stack to 1 GB
	vm := otto.New()
	v, err := vm.Run(cyclicShapes[shape])
	if err != nil {
		fmt.Println("run error", err)
		os.Exit(3)
	}
	x, err := v.Export()
	if err != nil {
		fmt.Println("export error", err)
		os.Exit(4)
	}
	fmt.Printf("GV %s\n", gvOf(x))
	os.Exit(0)
}

func (g *gen) cyclicCase(shape int) {
	cmd := exec.Command(os.Args[0], "cyclic-child", fmt.Sprint(shape))
	out, err := cmd.CombinedOutput()
	shown := strings.TrimSpace(string(out))
	ob := "OPanic"
	if err == nil && strings.HasPrefix(shown, "GV ") {
		ob = "(OVal " + strings.TrimPrefix(shown, "GV ") + ")"
	} else if err != nil {
		if ee, ok := err.(*exec.ExitError); ok && (ee.ExitCode() == 3 || ee.ExitCode() == 4) {
			ob = "(OErr 8)"
		}
		if i := strings.Index(shown, "\n"); i > 0 {
			shown = shown[:i]
		}
		if len(shown) > 160 {
			shown = shown[:160]
		}
		shown = fmt.Sprintf("child process died (%v): %s", err, shown)
	}
	g.env.Add(fmt.Sprintf("CCyclic %d %s %s", shape, cyclicUnrolled[shape], ob), fmt.Sprintf("Export of a cyclic graph in a child process: %s -> %s", cyclicShapes[shape], shown), "export-cyclic", true)
}


// ====================== shared (not cyclic) nodes: one script object reachable along several paths ======================

func refTo(name string, target *jnode) *jnode { return &jnode{t: "ref", s: name, elems: []*jnode{target}} }

// source: the shared nodes are bound to variables s0, s1, ... (a later one may refer to an earlier one), the root uses them
func (g *gen) sharedCase(shared []*jnode, root *jnode, via int) {
	var b strings.Builder
	b.WriteString("(function(){ ")
	for i, sh := range shared {
		fmt.Fprintf(&b, "var s%d = %s; ", i, sh.js())
	}
	fmt.Fprintf(&b, "return %s })()", root.js())
	src := b.String()
	ob, shown := g.exportOb(via, src)
	g.env.Add(fmt.Sprintf("CExportTree %d %s %s", via, root.coq(false), ob),
		fmt.Sprintf("export via %s: %s -> %s", viaNames[via], src, shown), "export-shared", true)
}

func (g *gen) sharedShapes() []*jnode {
	lit := func(i int64) *jnode { return &jnode{t: "int", ik: "int64", i: i} }
	str := func(s string) *jnode { return &jnode{t: "str", s: s} }
	arr := func(e ...*jnode) *jnode { return &jnode{t: "arr", elems: e} }
	obj := func(k []string, e ...*jnode) *jnode { return &jnode{t: "obj", keys: k, elems: e} }
	null := &jnode{t: "null"}
	return []*jnode{
		arr(lit(1), str("x"), &jnode{t: "bool", b: true}), // heterogeneous
		arr(),                   // empty
		arr(null),               // all null
		arr(null, lit(1)),       // contains null
		arr(lit(1), lit(2)),     // homogeneous ints
		arr(str("a"), str("b")), // homogeneous strings
		arr(lit(1), &jnode{t: "float", f: 1.5}),
		arr(&jnode{t: "undef"}),
		arr(lit(1), &jnode{t: "hole"}, lit(2)),
		obj(nil),
		obj([]string{"a"}, lit(1)),
		obj([]string{"a", "b"}, arr(lit(1)), null),
		arr(arr(lit(1)), arr(str("a"))), // nested, mixed inner types
		arr(arr(), arr()),
		arr(obj([]string{"k"}, arr())),
	}
}

// every shared shape in every position pattern
func (g *gen) sharedGrid() {
	arr := func(e ...*jnode) *jnode { return &jnode{t: "arr", elems: e} }
	obj := func(k []string, e ...*jnode) *jnode { return &jnode{t: "obj", keys: k, elems: e} }
	lit := func(i int64) *jnode { return &jnode{t: "int", ik: "int64", i: i} }
	for i, sh := range g.sharedShapes() {
		s := refTo("s0", sh)
		patterns := []*jnode{
			obj([]string{"first", "list", "second"}, s, arr(s, s), s),
			arr(s, s),
			obj([]string{"a", "c"}, obj([]string{"b"}, s), s),
			arr(arr(s), arr(s)),
			arr(s, lit(1), s),
			obj([]string{"left", "right"}, s, s),
		}
		for k, root := range patterns {
			g.sharedCase([]*jnode{sh}, root, []int{6, 7, 8}[(i+k)%3])
		}
		// a shared node that itself holds a shared node twice, and is used twice
		inner := refTo("s0", sh)
		mid := obj([]string{"p", "q"}, inner, arr(inner))
		m := refTo("s1", mid)
		g.sharedCase([]*jnode{sh, mid}, obj([]string{"m1", "m2", "s"}, m, m, refTo("s0", sh)), 6)
	}
}

func (g *gen) sharedRandomCase() {
	r := g.env.Rng
	nshared := r.Intn(3) + 1
	shared := make([]*jnode, nshared)
	pickRef := func(upto int) *jnode { k := r.Intn(upto); return refTo(fmt.Sprintf("s%d", k), shared[k]) }
	var build func(depth, upto int) *jnode
	build = func(depth, upto int) *jnode {
		if upto > 0 && r.Intn(3) == 0 {
			return pickRef(upto)
		}
		if depth <= 0 {
			return g.leaf(Pick(r, leafKinds))
		}
		if r.Intn(2) == 0 {
			n := r.Intn(4)
			a := &jnode{t: "arr"}
			for i := 0; i < n; i++ {
				a.elems = append(a.elems, build(depth-1, upto))
			}
			return a
		}
		ks := g.keys(r.Intn(4))
		o := &jnode{t: "obj", keys: ks}
		for range ks {
			o.elems = append(o.elems, build(depth-1, upto))
		}
		return o
	}
	for i := range shared {
		for {
			shared[i] = build(2, i)
			if shared[i].t == "arr" || shared[i].t == "obj" {
				break
			}
		}
	}
	var root *jnode
	for {
		root = build(3, nshared)
		if root.t == "arr" || root.t == "obj" {
			break
		}
	}
	g.sharedCase(shared, root, Pick(r, []int{6, 6, 7, 8}))
}

// ====================== MarshalJSON of strings: every byte and rune class that needs escaping ======================

func (g *gen) jsonStringGrid() {
	paths := []int{0, 3, 5, 6, 1, 7}
	k := 0
	add := func(s string) {
		g.scalarCases(paths[k%len(paths)], gscalar{kind: "string", s: s}, true)
		k++
	}
	for c := 0; c <= 0x1f; c++ {
		add("c" + string(rune(c)) + "d")
	}
	for _, c := range []rune{0x7f, 0x80, 0x85, 0x9f, 0xa0, 0xad, 0x2028, 0x2029, 0xfeff, 0xfffe, 0xffff, 0xe000, 0xd7ff,
		0xe0001, 0x1d173, 0xf0000, 0x10fffe, 0x10ffff, 0x1f600, 0x10000, 0x1fffe} {
		add(string(c))
		add("a" + string(c) + "\"")
	}
	add("\a\v\x00")
	add("\\a\\v\\x07\\U0001F600")
	add("</script>&<>")
}


// ====================== pinned: the int64 saturation boundary of ToInteger, on every numeric route ======================

func (g *gen) boundaryGrid() {
	two63 := float64(1 << 63)
	k := 0
	paths := []int{0, 1, 2, 3, 5, 6, 7, 10}
	add := func(s gscalar) { g.scalarCases(paths[k%len(paths)], s, s.kind != "float32"); k++ } // text of a float32 payload: not modelled
	for _, f := range []float64{two63, -two63, math.Nextafter(two63, 0), math.Nextafter(two63, math.Inf(1)), math.Nextafter(-two63, 0), math.Nextafter(-two63, math.Inf(-1)),
		two63 * 2, math.Nextafter(two63*2, 0), 1 << 53, 1<<53 + 2, -(1 << 53), 1 << 31, 1 << 32, -(1 << 31) - 1} {
		add(gscalar{kind: "float64", f64: f})
	}
	for _, u := range []uint64{1 << 63, 1<<63 - 1, 1<<63 + 1, 1<<63 - 512, 1<<63 - 513, 1<<63 + 1024, 1<<63 + 1025, math.MaxUint64, math.MaxUint64 - 1023, math.MaxUint64 - 1024} {
		add(gscalar{kind: "uint64", u: u})
		add(gscalar{kind: "uint", u: u})
	}
	for _, i := range []int64{math.MaxInt64, math.MinInt64, math.MaxInt64 - 511, math.MaxInt64 - 512, math.MinInt64 + 1, math.MinInt64 + 512, math.MinInt64 + 513} {
		add(gscalar{kind: "int64", i: i})
		add(gscalar{kind: "int", i: i})
	}
	for _, f := range []float32{1 << 63, -(1 << 63), 1 << 62, 1 << 64} {
		add(gscalar{kind: "float32", f32: f})
	}
}

// ====================== pinned: arrays filled out of index order, then exported ======================

func (g *gen) orderHistGrid() {
	lit := func(i int64) *jnode { return &jnode{t: "int", ik: "int64", i: i} }
	str := func(s string) *jnode { return &jnode{t: "str", s: s} }
	type step struct {
		idx int
		v   *jnode
	}
	plans := [][]step{
		{{2, lit(30)}, {0, lit(10)}, {1, lit(20)}},
		{{3, str("d")}, {1, str("b")}, {2, str("c")}, {0, str("a")}},
		{{1, lit(1)}, {0, str("zero")}},
		{{4, lit(4)}, {2, lit(2)}, {0, lit(0)}},
		{{2, &jnode{t: "arr", elems: []*jnode{lit(2)}}}, {1, &jnode{t: "arr", elems: []*jnode{lit(1)}}}, {0, &jnode{t: "arr", elems: []*jnode{lit(0)}}}},
		{{10, lit(10)}, {9, lit(9)}, {1, lit(1)}, {2, lit(2)}},
	}
	for pi, plan := range plans {
		for variant := 0; variant < 2; variant++ {
			var src strings.Builder
			src.WriteString("(function(){ var a = []; ")
			ops := []string{}
			if variant == 1 { // the same through an object-literal-like initial element and a later delete
				src.WriteString("a.push(0); ")
				ops = append(ops, "APush "+lit(0).coq(false))
			}
			for _, st := range plan {
				fmt.Fprintf(&src, "a[%d] = %s; ", st.idx, st.v.js())
				ops = append(ops, fmt.Sprintf("ASetIdx %d %s", st.idx, st.v.coq(false)))
			}
			src.WriteString("return a })()")
			via := []int{0, 2, 3}[(pi+variant)%3]
			ob, shown := g.exportOb(via, src.String())
			g.env.Add(fmt.Sprintf("CExportHist [] %s %s", Clist(ops), ob),
				fmt.Sprintf("export after history (%s): %s -> %s", viaNames[via], src.String(), shown), "export-history", true)
		}
	}
}
