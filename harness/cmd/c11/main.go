// c11: correspondence cases for property C11 (JSON.parse / JSON.stringify).
package main

import (
	"bytes"
	"encoding/json"
	"fmt"
	"math"
	"math/rand"
	"os"
	"os/exec"
	"path/filepath"
	"runtime/debug"
	"strconv"
	"strings"
	"time"
	"unicode/utf16"

	"github.com/robertkrimen/otto"
	. "ottoh/lib"
)

// The work is done in a child process: a Go stack overflow inside otto (for
// instance a serialisation that recurses without end) is fatal and cannot be
// recovered by Guard.  The child leaves the index of the case in flight in
// <out>/inflight.txt; when it dies the parent starts it again with that index
// listed as crashed, and the (deterministic) rerun records "host process died"
// (error class 9) as the observation of that case instead of executing it.
func main() {
	if os.Getenv("C11_CHILD") == "" {
		out := ""
		for i, a := range os.Args {
			if a == "-out" && i+1 < len(os.Args) {
				out = os.Args[i+1]
			}
		}
		crashed := ""
		for attempt := 0; attempt < 80; attempt++ {
			cmd := exec.Command(os.Args[0], os.Args[1:]...)
			cmd.Env = append(os.Environ(), "C11_CHILD=1", "C11_CRASHED="+crashed)
			var tail bytes.Buffer
			cmd.Stdout = os.Stdout
			cmd.Stderr = &tail
			err := cmd.Run()
			if err == nil {
				return
			}
			bs, rerr := os.ReadFile(filepath.Join(out, "inflight.txt"))
			if rerr != nil || out == "" {
				os.Stderr.Write(tail.Bytes())
				os.Exit(2)
			}
			fmt.Fprintf(os.Stderr, "c11: child died (%v) on case %s: %.300s\n", err, strings.TrimSpace(string(bs)), tail.String())
			crashed += strings.TrimSpace(string(bs)) + ","
		}
		os.Exit(2)
	}
	debug.SetMaxStack(96 << 20) // an endless recursion inside otto dies quickly instead of eating a gigabyte first
	env := FromFlags("c11")
	runC11(env)
	env.Finish()
}

// run a script on the interpreter, unless an earlier attempt died on this very case
func (g *gen) run(src string) Outcome {
	if g.mark() {
		return Outcome{Panic: "host process died on this input (fatal Go error, e.g. stack overflow)"}
	}
	return RunJS(g.vm, src)
}

// note the case in flight; true if it is one that killed an earlier attempt
func (g *gen) mark() bool {
	idx := strconv.Itoa(g.env.Count())
	if g.crashed[idx] {
		return true
	}
	if g.lastMark != idx {
		g.lastMark = idx
		_ = os.WriteFile(filepath.Join(g.env.Out, "inflight.txt"), []byte(idx), 0o644)
	}
	return false
}

type gen struct {
	env       *Env
	r         *rand.Rand
	vm        *otto.Otto
	completed []*jsv // containers already generated in this case that may be referred to a second time
	crashed   map[string]bool
	lastMark  string
}

// ---------------------------------------------------------------- strings

func isHi(c uint16) bool { return c >= 0xD800 && c <= 0xDBFF }
func isLo(c uint16) bool { return c >= 0xDC00 && c <= 0xDFFF }

func hasLone(u []uint16) bool {
	for i := 0; i < len(u); i++ {
		if isHi(u[i]) {
			if i+1 < len(u) && isLo(u[i+1]) {
				i++
				continue
			}
			return true
		}
		if isLo(u[i]) {
			return true
		}
	}
	return false
}

// a JavaScript expression whose value is exactly this unit sequence.  Surrogate
// pairs are written as the character itself: otto's lexer turns each \uD8xx
// escape of a literal into U+FFFD on its own (a C03/C09 matter, kept out of here).
func jsStrExpr(u []uint16) string {
	if hasLone(u) {
		parts := make([]string, len(u))
		for i, c := range u {
			parts[i] = strconv.Itoa(int(c))
		}
		return "String.fromCharCode(" + strings.Join(parts, ",") + ")"
	}
	var b strings.Builder
	b.WriteByte('"')
	for i := 0; i < len(u); i++ {
		c := u[i]
		switch {
		case isHi(c):
			b.WriteString(string(utf16.Decode(u[i : i+2])))
			i++
		case c >= 0x20 && c < 0x7f && c != '"' && c != '\\':
			b.WriteByte(byte(c))
		default:
			fmt.Fprintf(&b, "\\u%04X", c)
		}
	}
	b.WriteByte('"')
	return b.String()
}

func ascii(s string) []uint16 { return utf16.Encode([]rune(s)) }

// one string unit (or pair) from the interesting classes
func (g *gen) unit(allowLone bool) []uint16 {
	r := g.r
	switch r.Intn(20) {
	case 0:
		return []uint16{uint16(r.Intn(0x20))} // control
	case 1:
		return []uint16{Pick(r, []uint16{'"', '\\', '/', 8, 9, 10, 12, 13, 0x7f})}
	case 2:
		return []uint16{Pick(r, []uint16{'<', '>', '&', 0x2028, 0x2029})}
	case 3:
		return []uint16{Pick(r, []uint16{0x80, 0xe9, 0xff, 0x100, 0x7ff, 0x800, 0xfffd, 0xffff, 0xd7ff, 0xe000, 0xfeff, 0xa0})}
	case 4:
		return []uint16{uint16(0xD800 + r.Intn(0x400)), uint16(0xDC00 + r.Intn(0x400))}
	case 5:
		if allowLone && r.Intn(3) == 0 {
			return []uint16{uint16(0xD800 + r.Intn(0x800))}
		}
		return []uint16{uint16(0x20 + r.Intn(0xD7E0))}
	default:
		return []uint16{uint16(Pick(r, []byte("abcxyz019 _-AZ{}[]:,")))}
	}
}

func (g *gen) str(allowLone bool) []uint16 {
	n := g.r.Intn(7)
	if g.r.Intn(12) == 0 {
		n = 8 + g.r.Intn(10)
	}
	var u []uint16
	for i := 0; i < n; i++ {
		u = append(u, g.unit(allowLone)...)
	}
	return u
}

var keyPool = []string{"a", "b", "c", "s", "s", "c", "", "1", "0", "k", "w", "é", "z", "A", "10", "-1", "x y", "€", "<", "😀", "￿", "ab", "__proto__", "length", "constructor"}

func (g *gen) key() []uint16 {
	if g.r.Intn(5) == 0 {
		return g.str(false)
	}
	return ascii(Pick(g.r, keyPool))
}

// ---------------------------------------------------------------- JSON text

func (g *gen) ws() string {
	switch g.r.Intn(12) {
	case 0:
		return " "
	case 1:
		return "\n"
	case 2:
		return "\t \r\n"
	case 3:
		return "  "
	}
	return ""
}

func (g *gen) digits(n int) string {
	b := make([]byte, n)
	for i := range b {
		b[i] = byte('0' + g.r.Intn(10))
	}
	return string(b)
}

// a JSONNumber token
func (g *gen) numToken(intOnly bool) string {
	r := g.r
	if intOnly {
		switch r.Intn(6) {
		case 0:
			return Pick(r, []string{"0", "-0", "1", "-1", "9007199254740991", "-9007199254740991", "4294967296", "2147483648", "1e3", "12E2", "5.0", "-2.50e1", "1000000000000000", "0e5", "0.0"})
		case 1:
			return strconv.FormatInt(r.Int63n(1<<53), 10)
		default:
			s := strconv.Itoa(r.Intn(2000) - 1000)
			return s
		}
	}
	switch r.Intn(10) {
	case 9:
		return Pick(r, []string{"-0", "-0.0", "-0e0", "-0E-1", "0", "-0.000", "1e-324", "-1e-324", "-1e-400", "9007199254740993", "1e308", "2e308", "1.0", "1.10", "10", "100e-2"})
	case 0:
		return Pick(r, []string{"0", "-0", "0.0", "-0.0e-5", "0e0", "0E+999", "1e400", "-1e400", "1e309", "1.7976931348623157e308", "1.7976931348623158e308",
			"1.7976931348623159e308", "179769313486231580793728971405303415079934132710037826936173778980444968292764750946649017977587207096330286416692887910946555547851940402630657488671505820681908902000708383676273854845817711531764475730270069855571366959622842914819860834936475292719074168444365510704342711559699508093042880177904174497791.9999999999999999999999999999999999999999999999999999999999999999999999",
			"5e-324", "4.9e-324", "2.4703282292062327e-324", "2.4703282292062328e-324", "2.5e-324", "1e-400", "2.2250738585072014e-308", "2.2250738585072011e-308",
			"9007199254740993", "9007199254740992.5", "9007199254740993.0000000000000000000001", "0.1", "0.30000000000000004", "123456789012345678901234567890",
			"1E5", "1e+5", "1e-5", "1.5E-7", "100e-2", "4.35", "0.000001", "1e21", "1e-7", "123e-20"})
	case 1, 2: // a double printed by Go, shortest or 17 digits
		f := g.double()
		if math.IsNaN(f) || math.IsInf(f, 0) {
			f = 1.5
		}
		if r.Intn(2) == 0 {
			return strconv.FormatFloat(f, 'g', 17, 64)
		}
		return strconv.FormatFloat(f, Pick(r, []byte{'e', 'f', 'g'}), -1, 64)
	case 3, 4:
		return strconv.Itoa(r.Intn(2000) - 1000)
	default:
		var b strings.Builder
		if r.Intn(3) == 0 {
			b.WriteByte('-')
		}
		if r.Intn(4) == 0 {
			b.WriteByte('0')
		} else {
			b.WriteByte(byte('1' + r.Intn(9)))
			b.WriteString(g.digits(r.Intn(1 + Pick(r, []int{1, 3, 18, 25}))))
		}
		if r.Intn(2) == 0 {
			b.WriteByte('.')
			b.WriteString(g.digits(1 + r.Intn(1+Pick(r, []int{1, 3, 18, 30}))))
		}
		if r.Intn(2) == 0 {
			b.WriteByte(Pick(r, []byte("eE")))
			b.WriteString(Pick(r, []string{"", "+", "-"}))
			b.WriteString(strconv.Itoa(r.Intn(Pick(r, []int{3, 30, 330, 400}))))
		}
		return b.String()
	}
}

func (g *gen) double() float64 {
	r := g.r
	switch r.Intn(10) {
	case 0:
		return Pick(r, []float64{0, math.Copysign(0, -1), 1, -1, 0.5, 1e21, 1e-7, 1e-6, 999999999999999900000, 1e20, 123456789012345680000, 5e-324, math.MaxFloat64, -math.MaxFloat64, 2.2250738585072014e-308,
			9007199254740992, 9007199254740993, 9223372036854775808, -9223372036854775808, 4294967296, 0.1, 0.2 + 0.1, 4.35, 1.7976931348623157e308, 100, 1e15, 1e16, 1e17, 123456.789, 2147483647, -2147483648, 0.000001, 0.0000001, 1.5e-10, 1e300, 1e-300})
	case 1:
		return math.Float64frombits(r.Uint64()) // anywhere in the range (may be NaN/Inf)
	case 2:
		return float64(r.Int63n(1<<53)) * Pick(r, []float64{1, -1})
	case 3:
		return math.Ldexp(float64(r.Int63n(1<<53)), r.Intn(2100)-1074-52)
	case 4:
		return float64(r.Intn(100000)) / Pick(r, []float64{10, 100, 1000, 8, 3})
	case 5:
		return math.Pow(10, float64(r.Intn(640)-320)) * float64(1+r.Intn(99))
	default:
		return float64(r.Intn(200) - 100)
	}
}

// string literal text of the JSON grammar for a unit sequence
func (g *gen) jsonStrText(u []uint16) []uint16 {
	r := g.r
	out := []uint16{'"'}
	esc := func(c uint16) {
		f := "\\u%04x"
		if r.Intn(2) == 0 {
			f = "\\u%04X"
		}
		out = append(out, ascii(fmt.Sprintf(f, c))...)
	}
	for i := 0; i < len(u); i++ {
		c := u[i]
		short := map[uint16]byte{'"': '"', '\\': '\\', 8: 'b', 9: 't', 10: 'n', 12: 'f', 13: 'r'}
		switch {
		case c == '"' || c == '\\' || c < 0x20:
			if s, ok := short[c]; ok && r.Intn(4) > 0 {
				out = append(out, '\\', uint16(s))
			} else {
				esc(c)
			}
		case c == '/' && r.Intn(2) == 0:
			out = append(out, '\\', '/')
		case isHi(c) && i+1 < len(u) && isLo(u[i+1]):
			if r.Intn(3) == 0 {
				esc(c)
				esc(u[i+1])
			} else {
				out = append(out, c, u[i+1])
			}
			i++
		case isHi(c) || isLo(c): // unpaired: as an escape, now and then raw
			if r.Intn(6) == 0 {
				out = append(out, c)
			} else {
				esc(c)
			}
		default:
			if r.Intn(10) == 0 {
				esc(c)
			} else {
				out = append(out, c)
			}
		}
	}
	return append(out, '"')
}

type topt struct {
	intOnly   bool
	lone      bool
	maxKeys   int // cap on members of one object (0 = none)
	dupKeys   bool
	noNumbers bool
}

func (g *gen) jsonText(depth int, o topt) []uint16 {
	r := g.r
	k := r.Intn(9)
	if depth <= 0 && k >= 6 {
		k = r.Intn(6)
	}
	switch k {
	case 0:
		return ascii("null")
	case 1:
		return ascii(Pick(r, []string{"true", "false"}))
	case 2, 3:
		if o.noNumbers {
			return ascii("null")
		}
		return ascii(g.numToken(o.intOnly))
	case 4, 5:
		return g.jsonStrText(g.str(o.lone))
	case 6, 7:
		n := r.Intn(5)
		out := ascii("[" + g.ws())
		for i := 0; i < n; i++ {
			if i > 0 {
				out = append(out, ascii(g.ws()+","+g.ws())...)
			}
			out = append(out, g.jsonText(depth-1, o)...)
		}
		return append(out, ascii(g.ws()+"]")...)
	default:
		n := r.Intn(5)
		if o.maxKeys > 0 && n > o.maxKeys {
			n = o.maxKeys
		}
		out := ascii("{" + g.ws())
		seen := map[string]bool{}
		cnt := 0
		for i := 0; i < n; i++ {
			key := g.key()
			if o.lone == false && hasLone(key) {
				key = ascii("q")
			}
			ks := string(utf16.Decode(key))
			if seen[ks] && !(o.dupKeys && r.Intn(2) == 0) {
				continue
			}
			seen[ks] = true
			if cnt > 0 {
				out = append(out, ascii(g.ws()+","+g.ws())...)
			}
			cnt++
			out = append(out, g.jsonStrText(key)...)
			out = append(out, ascii(g.ws()+":"+g.ws())...)
			out = append(out, g.jsonText(depth-1, o)...)
		}
		return append(out, ascii(g.ws()+"}")...)
	}
}

func (g *gen) mutate(t []uint16) []uint16 {
	r := g.r
	t = append([]uint16{}, t...)
	ins := []uint16{',', ']', '}', '[', '{', '0', '1', '"', '\\', '+', '-', '.', 'e', 'E', ':', ' ', '\n', 0xa0, 0xfeff, 0x0b, 0x0c, '/', '\'', 'n', 0, 0x1f, 9, 0x2028, 'u', 'x'}
	pos := func() int { return r.Intn(len(t) + 1) }
	switch r.Intn(14) {
	case 0: // delete one unit
		if len(t) > 0 {
			p := r.Intn(len(t))
			t = append(t[:p], t[p+1:]...)
		}
	case 1, 2: // insert one unit
		p := pos()
		t = append(t[:p], append([]uint16{Pick(r, ins)}, t[p:]...)...)
	case 3: // replace one unit
		if len(t) > 0 {
			t[r.Intn(len(t))] = Pick(r, ins)
		}
	case 4: // truncate
		t = t[:pos()]
	case 5: // leading zero before a digit
		var idx []int
		for i, c := range t {
			if c >= '0' && c <= '9' && (i == 0 || t[i-1] < '0' || t[i-1] > '9') {
				idx = append(idx, i)
			}
		}
		if len(idx) > 0 {
			p := Pick(r, idx)
			t = append(t[:p], append([]uint16{'0'}, t[p:]...)...)
		}
	case 6: // trailing comma before a closer, or a doubled comma
		var idx []int
		for i, c := range t {
			if c == ']' || c == '}' || c == ',' {
				idx = append(idx, i)
			}
		}
		if len(idx) > 0 {
			p := Pick(r, idx)
			t = append(t[:p], append([]uint16{','}, t[p:]...)...)
		}
	case 7: // garbage or a second value after the text
		t = append(t, ascii(Pick(r, []string{" 1", "x", ",", "]", " null", "\x00", "//c", "/**/", ";"}))...)
	case 8: // upper-case / near-miss literals
		s := string(utf16.Decode(t))
		for _, p := range [][2]string{{"null", Pick(r, []string{"NULL", "nul", "nulll", "Null", "undefined", "NaN"})}, {"true", Pick(r, []string{"True", "tru", "TRUE"})}, {"false", Pick(r, []string{"False", "fals", "Infinity", "-Infinity"})}} {
			if strings.Contains(s, p[0]) {
				s = strings.Replace(s, p[0], p[1], 1)
				break
			}
		}
		t = ascii(s)
	case 9: // single quotes
		for i, c := range t {
			if c == '"' {
				t[i] = '\''
			}
		}
	case 10: // swap two adjacent units
		if len(t) > 1 {
			p := r.Intn(len(t) - 1)
			t[p], t[p+1] = t[p+1], t[p]
		}
	case 11: // duplicate one unit
		if len(t) > 0 {
			p := r.Intn(len(t))
			t = append(t[:p], append([]uint16{t[p]}, t[p:]...)...)
		}
	case 12: // deep nesting around the text (balanced or one bracket short)
		n := 20 + r.Intn(180)
		open, cl := "[", "]"
		t = append(ascii(strings.Repeat(open, n)), append(t, ascii(strings.Repeat(cl, n-r.Intn(2)*r.Intn(2)))...)...)
	case 13: // raw control / unusual white space around
		t = append([]uint16{Pick(r, []uint16{9, 10, 13, 32, 0x0b, 0x0c, 0xa0, 0xfeff, 0x2028})}, t...)
	}
	return t
}

// ---------------------------------------------------------------- observing values

func cOV(v otto.Value, depth int) string {
	switch {
	case depth > 5000:
		return "OOther"
	case v.IsUndefined():
		return "OUndef"
	case v.IsNull():
		return "ONull"
	case v.IsBoolean():
		b, _ := v.ToBoolean()
		return "(OBool " + Cbool(b) + ")"
	case v.IsNumber():
		f, _ := v.ToFloat()
		return "(ONum " + Cdouble(f) + ")"
	case v.IsString():
		return "(OStr " + Cstr(v.String()) + ")"
	case v.IsObject():
		obj := v.Object()
		switch obj.Class() {
		case "Array":
			lv, _ := obj.Get("length")
			n, _ := lv.ToInteger()
			own := map[string]bool{}
			for _, k := range obj.Keys() {
				own[k] = true
			}
			items := make([]string, 0, n)
			for i := int64(0); i < n && i < 100000; i++ {
				k := strconv.FormatInt(i, 10)
				if !own[k] {
					items = append(items, "OHole")
					continue
				}
				e, _ := obj.Get(k)
				items = append(items, cOV(e, depth+1))
			}
			return "(OArr " + Clist(items) + ")"
		case "Object":
			keys := obj.Keys()
			items := make([]string, len(keys))
			for i, k := range keys {
				e, _ := obj.Get(k)
				items[i] = "(" + Cstr(k) + ", " + cOV(e, depth+1) + ")"
			}
			return "(OObj " + Clist(items) + ")"
		}
	}
	return "OOther"
}

func showUnits(u []uint16) string {
	var b strings.Builder
	for _, c := range u {
		if c >= 0x20 && c < 0x7f && c != '\\' {
			b.WriteByte(byte(c))
		} else {
			fmt.Fprintf(&b, "\\u%04x", c)
		}
	}
	return b.String()
}

// JSON.parse(text [, reviver]) with the text handed over exactly
func (g *gen) parseExpr(t []uint16, second string) (string, func()) {
	if hasLone(t) {
		parts := make([]string, len(t))
		for i, c := range t {
			parts[i] = strconv.Itoa(int(c))
		}
		return "JSON.parse(String.fromCharCode(" + strings.Join(parts, ",") + ")" + second + ")", func() {}
	}
	return "JSON.parse(T" + second + ")", func() { Must(g.vm.Set("T", string(utf16.Decode(t)))) }
}

func (g *gen) caseParse(t []uint16, bucket string) {
	src, prep := g.parseExpr(t, "")
	prep()
	o := g.run(src)
	var obs, show string
	if ec := ErrClass(o); ec != 0 {
		obs = fmt.Sprintf("(PErr %d)", ec)
		show = fmt.Sprintf("error class %d", ec)
	} else {
		obs = "(PVal " + cOV(o.Val, 0) + ")"
		show = obs
	}
	g.env.Add(fmt.Sprintf("CParse %s %s", Cunits(t), obs), fmt.Sprintf("parse JSON.parse(<%s>) -> %s", showUnits(t), trunc(show)), bucket, len(t) > 4)
}

// JSON.parse applied to a non-string first argument (ToString of it is the text)
// or with a second argument that is not callable (ignored)
func (g *gen) caseParseArg(argJS, second string, text []uint16) {
	o := g.run("JSON.parse(" + argJS + second + ")")
	var obs string
	if ec := ErrClass(o); ec != 0 {
		obs = fmt.Sprintf("(PErr %d)", ec)
	} else {
		obs = "(PVal " + cOV(o.Val, 0) + ")"
	}
	g.env.Add(fmt.Sprintf("CParse %s %s", Cunits(text), obs), fmt.Sprintf("parse JSON.parse(%s%s) -> %s", argJS, second, trunc(obs)), "parse-arg", true)
}

func trunc(s string) string {
	if len(s) > 600 {
		return s[:600] + "..."
	}
	return s
}

var revivers = []string{
	"v",
	`typeof v==="number"?undefined:v`,
	`k==="a"?undefined:v`,
	`typeof v==="string"?7:v`,
	`Array.isArray(v)?v.length:v`,
	`(v!==null&&typeof v==="object"&&!Array.isArray(v))?null:v`,
	`(v===null||typeof v==="boolean")?undefined:v`,
	`k===""?v:undefined`,
	// 8-12: the reviver changes its holder array while the array is being walked
	`(Array.isArray(this)&&k==="0"&&this.push("P"),v)`,
	`(Array.isArray(this)&&k==="1"&&(this.length=1),v===undefined?"D":v)`,
	`(Array.isArray(this)&&k==="0"&&this.pop(),v)`,
	`(Array.isArray(this)&&k==="0"&&(this.length+=2),v)`,
	`(Array.isArray(this)&&k==="0"&&this.every(function(x){return x===null||typeof x!=="object"})&&this.unshift("U"),v)`,
}

// every reviver that resizes its holder over arrays of every small shape
func (g *gen) sweepRevivers() {
	texts := []string{`[1,2]`, `[1,2,3,4]`, `[[1,2],[3]]`, `[]`, `[1]`, `{"a":[1,2,3]}`, `[[],[1,[2,3]]]`, `["a","b","c"]`, `[null,[1,2,3],3]`, `[[1,2,3],[4,5,6],[7,8]]`, `{"0":[1,2],"1":[3,4]}`, `[{"a":1},2]`}
	for _, t := range texts {
		for rid := 8; rid <= 12; rid++ {
			g.caseRevive(ascii(t), rid)
		}
	}
}

func (g *gen) caseRevive(t []uint16, rid int) {
	var log []string
	Must(g.vm.Set("LOG", func(call otto.FunctionCall) otto.Value {
		ok, _ := call.Argument(2).ToBoolean()
		val := cOV(call.Argument(1), 0)
		if !ok {
			val = "OOther" // the holder did not have this value under this key
		}
		log = append(log, "("+Cstr(call.Argument(0).String())+", "+val+")")
		return otto.UndefinedValue()
	}))
	rev := fmt.Sprintf(", function(k,v){LOG(k,v,this[k]===v&&typeof k===\"string\");return %s}", revivers[rid])
	src, prep := g.parseExpr(t, rev)
	prep()
	o := g.run(src)
	var obs string
	if ec := ErrClass(o); ec != 0 {
		obs = fmt.Sprintf("(RErr %d)", ec)
	} else {
		obs = "(RVal " + Clist(log) + " " + cOV(o.Val, 0) + ")"
	}
	g.env.Add(fmt.Sprintf("CRevive %s %d %s", Cunits(t), rid, obs),
		fmt.Sprintf("revive JSON.parse(<%s>, function(k,v){return %s}) -> %s", showUnits(t), revivers[rid], trunc(obs)), "revive", true)
}

func (g *gen) caseRevDel(n int) {
	var b strings.Builder
	b.WriteString("{")
	for i := 0; i < n; i++ {
		if i > 0 {
			b.WriteString(",")
		}
		fmt.Fprintf(&b, "\"k%d\":%d", i, i)
	}
	b.WriteString("}")
	src := fmt.Sprintf("Object.keys(JSON.parse('%s', function(k,v){return k===\"\"?v:undefined})).length", b.String())
	o := g.run(src)
	k := int64(-1)
	if ErrClass(o) == 0 {
		k, _ = o.Val.ToInteger()
	}
	g.env.Add(fmt.Sprintf("CRevDelAll %d %s", n, Cz(k)), fmt.Sprintf("revdel %s -> %d", src, k), "revdel", n > 2)
}

func (g *gen) caseOrder(n int) {
	var b strings.Builder
	keys := make([]string, n)
	b.WriteString("{")
	for i := 0; i < n; i++ {
		if i > 0 {
			b.WriteString(",")
		}
		keys[i] = fmt.Sprintf("%s%d", Pick(g.r, []string{"k", "key", "z"}), n-i)
		fmt.Fprintf(&b, "\"%s\":%d", keys[i], i)
	}
	b.WriteString("}")
	t := b.String()
	want := strings.Join(keys, ",")
	Must(g.vm.Set("T", t))
	inOrder := true
	var seen string
	for trial := 0; trial < 8; trial++ {
		o := g.run("Object.keys(JSON.parse(T)).join(',')")
		if ErrClass(o) != 0 || o.Val.String() != want {
			inOrder = false
			seen = o.Val.String()
		}
	}
	g.env.Add(fmt.Sprintf("CParseOrder %s %s", Cstr(t), Cbool(inOrder)), fmt.Sprintf("order Object.keys(JSON.parse('%s')) in text order on 8 calls: %v (e.g. %s)", t, inOrder, seen), "order", true)
}

// ---------------------------------------------------------------- stringify values

type jsv struct {
	kind  string // undef null bool num str fun wnum wstr wbool arr obj toj cyc
	b     bool
	f     float64
	s     []uint16
	items []*jsv
	keys  [][]uint16
	k     int // toJSON family
	inner *jsv
	isArr bool       // cyc: the ancestor referred to is an array
	name  string     // variable holding the container once built
	extra bool       // obj: also has an inherited enumerable and an own non-enumerable property (both invisible to JSON.stringify)
	shape string     // obj: "" plain, "args" an arguments object (first argc members are its indices), "arrproto"/"arrsub" an Object whose prototype is an array
	argc  int        // args: number of arguments passed; members "0".."argc-1" missing from keys were deleted
	junk  bool       // arr / wstr: the object also carries named properties that JSON.stringify must ignore
	hkeys [][]uint16 // obj: members [[Get]] finds beyond the own enumerable ones ...
	hvals []*jsv
	hkind []int // ... 0 own non-enumerable, 1 on the prototype, 2 on the prototype's prototype
	ovr   int   // wnum/wstr/wbool: how valueOf/toString is overridden; f/s/b hold what ToNumber/ToString(value) then gives, f0/s0 the internal value
	f0    float64
	s0    []uint16
}

func hasCyc(v *jsv) bool {
	if v.kind == "cyc" {
		return true
	}
	for _, x := range v.items {
		if hasCyc(x) {
			return true
		}
	}
	return v.kind == "toj" && v.inner != nil && hasCyc(v.inner)
}

func numCert(f float64) (string, string) { // digits list, n
	if f == 0 || math.IsNaN(f) || math.IsInf(f, 0) {
		return "[]", "0"
	}
	s := strconv.FormatFloat(math.Abs(f), 'e', -1, 64) // d.ddde+XX
	mant, exp, _ := strings.Cut(s, "e")
	e, _ := strconv.Atoi(exp)
	mant = strings.Replace(mant, ".", "", 1)
	return Cstr(mant), Cz(int64(e + 1))
}

func (v *jsv) coq() string {
	switch v.kind {
	case "undef":
		return "Undef"
	case "null":
		return "Null"
	case "bool":
		return "(Bool " + Cbool(v.b) + ")"
	case "num", "wnum":
		d, n := numCert(v.f)
		c := "Num"
		if v.kind == "wnum" {
			c = "WNum"
			if v.ovr == ovrThrow {
				return "(Cyc false)" // the conversion throws a TypeError, as a cyclic reference does
			}
		}
		return fmt.Sprintf("(%s %s %s %s)", c, Cdouble(v.f), d, n)
	case "str":
		return "(Str " + Cunits(v.s) + ")"
	case "wstr":
		if v.ovr == ovrThrow {
			return "(Cyc false)"
		}
		return "(WStr " + Cunits(v.s) + ")"
	case "wbool":
		return "(WBool " + Cbool(v.b) + ")"
	case "fun":
		return "Fun"
	case "arr":
		it := make([]string, len(v.items))
		for i, x := range v.items {
			it[i] = x.coq()
		}
		return "(Arr " + Clist(it) + ")"
	case "obj":
		it := make([]string, len(v.items))
		for i, x := range v.items {
			it[i] = "(" + Cunits(v.keys[i]) + ", " + x.coq() + ")"
		}
		if len(v.hkeys) > 0 {
			var h []string
			for kind := 0; kind <= 2; kind++ { // the order [[Get]] searches in
				for i, k := range v.hkeys {
					if v.hkind[i] == kind {
						h = append(h, "("+Cunits(k)+", "+v.hvals[i].coq()+")")
					}
				}
			}
			return "(ObjH " + Clist(it) + " " + Clist(h) + ")"
		}
		return "(Obj " + Clist(it) + ")"
	case "toj":
		return fmt.Sprintf("(ToJ %d %s)", v.k, v.inner.coq())
	case "date":
		if math.IsNaN(v.f) {
			return "(ToJ 4 Null)"
		}
		return "(ToJ 4 (Str " + Cstr(time.UnixMilli(int64(v.f)).UTC().Format("2006-01-02T15:04:05.000Z")) + "))"
	case "cyc":
		return "(Cyc " + Cbool(v.isArr) + ")"
	case "ref":
		return v.inner.coq()
	}
	panic("kind")
}

const (
	ovrDirect    = 1 // valueOf / toString returns the value
	ovrOtherType = 2 // returns a primitive of another type, converted
	ovrFallback  = 3 // returns an object, so the other method is asked
	ovrThrow     = 4 // throws a TypeError
	ovrIgnored   = 5 // the method ToNumber / ToString does not ask is overridden
)

// a wrapper object whose conversion methods are overridden on the object
func (g *gen) overridden(kind string, ovr int) *jsv {
	r := g.r
	switch kind {
	case "wnum":
		v := &jsv{kind: "wnum", ovr: ovr, f0: float64(1 + r.Intn(9))}
		switch ovr {
		case ovrDirect:
			v.f = Pick(r, []float64{42, 0.5, -3, 1e21, math.NaN(), math.Inf(1), math.Inf(-1), 0, g.double()})
		case ovrOtherType:
			v.f = Pick(r, []float64{12, 0.5, 1, 0, math.NaN(), 7, -4})
		case ovrFallback:
			v.f = float64(r.Intn(100))
		case ovrThrow:
			v.f = v.f0
		case ovrIgnored:
			v.f = v.f0
		}
		return v
	case "wstr":
		v := &jsv{kind: "wstr", ovr: ovr, s0: ascii(Pick(r, []string{"a", "", "in"}))}
		switch ovr {
		case ovrDirect, ovrFallback:
			v.s = Pick(r, [][]uint16{ascii("zz"), ascii(""), g.str(false), ascii("<\"")})
		case ovrOtherType:
			v.s = ascii(strconv.Itoa(r.Intn(1000)))
		default:
			v.s = v.s0
		}
		return v
	default:
		return &jsv{kind: "wbool", ovr: ovrDirect, b: r.Intn(2) == 0}
	}
}

// every override of every wrapper class, in every position a value can reach Str from
func (g *gen) sweepWrappers() {
	type mk struct {
		kind string
		ovr  int
	}
	var all []mk
	for o := ovrDirect; o <= ovrIgnored; o++ {
		all = append(all, mk{"wnum", o}, mk{"wstr", o})
	}
	all = append(all, mk{"wbool", ovrDirect}, mk{"wnum", ovrDirect}, mk{"wnum", ovrDirect}, mk{"wnum", ovrOtherType})
	for i, m := range all {
		w := func() *jsv { return g.overridden(m.kind, m.ovr) }
		g.caseStringify(w(), "undefined", "RNone", "undefined", "SNone", "wrapper-sweep")
		g.caseStringify(arr(num(1), w(), w()), "undefined", "RNone", "undefined", "SNone", "wrapper-sweep")
		g.caseStringify(obj("n", w(), "m", arr(w())), "undefined", "RNone", "2", "(SNum "+Cdouble(2)+")", "wrapper-sweep")
		g.caseStringify(obj("t", &jsv{kind: "toj", k: 0, inner: w()}), "undefined", "RNone", "undefined", "SNone", "wrapper-sweep")
		id := []int{0, 6, 8, 3, 13, 10}[i%6]
		g.caseStringify(obj("a", arr(w()), "b", w()), replacers[id], fmt.Sprintf("(RFun %d)", id), "undefined", "SNone", "wrapper-sweep")
		g.caseStringify(obj("b", w(), "c", w()), `["b"]`, "(RList [PStr [98]])", "undefined", "SNone", "wrapper-sweep")
		g.caseMarshal(obj("g", w()))
	}
	// wrappers with overrides made by the replacer function itself
	for _, v := range []*jsv{num(5), arr(num(1), str("x"), num(2)), obj("p", num(3), "q", str("s"))} {
		g.caseStringify(v, replacers[14], "(RFun 14)", "undefined", "SNone", "wrapper-sweep")
	}
}

type anc struct {
	name  string
	isArr bool
}

type builder struct {
	g     *gen
	stmts []string
	n     *int
}

// JavaScript that constructs the value; containers are built by statements
func (b *builder) build(v *jsv) string {
	switch v.kind {
	case "undef":
		return "undefined"
	case "null":
		return "null"
	case "bool":
		return strconv.FormatBool(v.b)
	case "num":
		return JSNum(v.f)
	case "wnum":
		if v.ovr == 0 {
			return b.bind(v, "new Number("+JSNum(v.f)+")")
		}
		nm := b.bind(v, "new Number("+JSNum(v.f0)+")")
		ret := JSNum(v.f)
		switch v.ovr {
		case ovrDirect:
			b.stmts = append(b.stmts, nm+".valueOf=function(){return "+ret+"};")
		case ovrOtherType: // a numeric string, true, null or undefined: ToNumber of it
			switch {
			case math.IsNaN(v.f):
				ret = "undefined"
			case v.f == 1 && b.g.r.Intn(2) == 0:
				ret = "true"
			case v.f == 0 && b.g.r.Intn(2) == 0:
				ret = "null"
			default:
				ret = "\"" + strconv.FormatFloat(v.f, 'f', -1, 64) + "\""
			}
			b.stmts = append(b.stmts, nm+".valueOf=function(){return "+ret+"};")
		case ovrFallback: // valueOf gives an object: toString is asked
			b.stmts = append(b.stmts, nm+".valueOf=function(){return {}};"+nm+".toString=function(){return \""+strconv.FormatFloat(v.f, 'f', -1, 64)+"\"};")
		case ovrThrow:
			b.stmts = append(b.stmts, nm+".valueOf=function(){throw new TypeError(\"valueOf\")};")
		case ovrIgnored: // toString alone is not asked by ToNumber
			b.stmts = append(b.stmts, nm+".toString=function(){return \"77\"};")
		}
		return nm
	case "str":
		return jsStrExpr(v.s)
	case "wstr":
		if v.ovr != 0 {
			nm := b.bind(v, "new String("+jsStrExpr(v.s0)+")")
			ret := jsStrExpr(v.s)
			switch v.ovr {
			case ovrDirect:
				b.stmts = append(b.stmts, nm+".toString=function(){return "+ret+"};")
			case ovrOtherType: // a number: ToString of it
				b.stmts = append(b.stmts, nm+".toString=function(){return "+string(utf16.Decode(v.s))+"};")
			case ovrFallback: // toString gives an object: valueOf is asked
				b.stmts = append(b.stmts, nm+".toString=function(){return []};"+nm+".valueOf=function(){return "+ret+"};")
			case ovrThrow:
				b.stmts = append(b.stmts, nm+".toString=function(){throw new TypeError(\"toString\")};")
			case ovrIgnored: // valueOf alone is not asked by ToString
				b.stmts = append(b.stmts, nm+".valueOf=function(){return \"zz\"};")
			}
			return nm
		}
		nm := b.bind(v, "new String("+jsStrExpr(v.s)+")")
		if v.junk {
			b.stmts = append(b.stmts, nm+".x=1;"+nm+".length2=2;")
		}
		return nm
	case "wbool":
		nm := b.bind(v, "new Boolean("+strconv.FormatBool(v.b)+")")
		if v.ovr != 0 { // a Boolean object is unboxed from its internal value: overrides are not asked
			b.stmts = append(b.stmts, nm+".valueOf=function(){return "+strconv.FormatBool(!v.b)+"};"+nm+".toString=function(){return \"x\"};")
		}
		return nm
	case "date":
		return b.bind(v, "new Date("+JSNum(v.f)+")")
	case "fun":
		return "function(){}"
	case "cyc":
		return string(utf16.Decode(v.s)) // name of the ancestor's variable
	case "ref":
		return v.inner.name // the same object a second time (not a cycle)
	case "arr":
		name := fmt.Sprintf("c%d", *b.n)
		*b.n++
		b.stmts = append(b.stmts, "var "+name+"=[];")
		v.name = name
		setName(v, name)
		for i, x := range v.items {
			if x.kind == "undef" && b.g.r.Intn(2) == 0 {
				continue // a hole
			}
			e := b.build(x)
			b.stmts = append(b.stmts, fmt.Sprintf("%s[%d]=%s;", name, i, e))
		}
		b.stmts = append(b.stmts, fmt.Sprintf("%s.length=%d;", name, len(v.items)))
		if v.junk {
			b.stmts = append(b.stmts, name+".foo=1;"+name+"[\"-1\"]=2;"+name+"[\"01\"]=3;")
		}
		return name
	case "obj":
		name := fmt.Sprintf("c%d", *b.n)
		*b.n++
		if v.shape == "args" {
			// the indices present among the keys are passed as arguments, the others are deleted afterwards
			exprs := make([]string, v.argc)
			present := make([]bool, v.argc)
			var rest []int
			for i, x := range v.items {
				ks := string(utf16.Decode(v.keys[i]))
				if n, err := strconv.Atoi(ks); err == nil && n >= 0 && n < v.argc && strconv.Itoa(n) == ks && !present[n] {
					exprs[n] = b.build(x)
					present[n] = true
				} else {
					rest = append(rest, i)
				}
			}
			for i := range exprs {
				if !present[i] {
					exprs[i] = "0"
				}
			}
			b.stmts = append(b.stmts, "var "+name+"=(function(){return arguments})("+strings.Join(exprs, ",")+");")
			for i := range exprs {
				if !present[i] {
					b.stmts = append(b.stmts, fmt.Sprintf("delete %s[%d];", name, i))
				}
			}
			v.name = name
			for _, i := range rest {
				e := b.build(v.items[i])
				b.stmts = append(b.stmts, fmt.Sprintf("%s[%s]=%s;", name, jsStrExpr(v.keys[i]), e))
			}
			return name
		}
		if v.shape == "arrproto" {
			b.stmts = append(b.stmts, "var "+name+"=Object.create([9,8,7]);")
		} else if v.shape == "arrsub" {
			b.stmts = append(b.stmts, "var "+name+"=new (function(){var A=function(){};A.prototype=[5,6];return A}())();")
		} else if len(v.hkeys) > 0 {
			gp, pr := name+"g", name+"p"
			b.stmts = append(b.stmts, "var "+gp+"={};")
			for i, k := range v.hkeys {
				if v.hkind[i] == 2 {
					b.stmts = append(b.stmts, fmt.Sprintf("%s[%s]=%s;", gp, jsStrExpr(k), b.build(v.hvals[i])))
				}
			}
			b.stmts = append(b.stmts, "var "+pr+"=Object.create("+gp+");")
			for i, k := range v.hkeys {
				if v.hkind[i] == 1 {
					b.stmts = append(b.stmts, fmt.Sprintf("%s[%s]=%s;", pr, jsStrExpr(k), b.build(v.hvals[i])))
				}
			}
			if b.g.r.Intn(2) == 0 {
				b.stmts = append(b.stmts, "var "+name+"=Object.create("+pr+");")
			} else { // the same chain through a constructor
				b.stmts = append(b.stmts, "var "+name+"=new (function(){var F=function(){};F.prototype="+pr+";return F}())();")
			}
			for i, k := range v.hkeys {
				ownToo := false // one property cannot be both: the enumerable own member of that name is the property
				for _, ok := range v.keys {
					ownToo = ownToo || string(utf16.Decode(ok)) == string(utf16.Decode(k))
				}
				if v.hkind[i] == 0 && !ownToo {
					b.stmts = append(b.stmts, fmt.Sprintf("Object.defineProperty(%s,%s,{value:%s,enumerable:false,writable:true,configurable:true});", name, jsStrExpr(k), b.build(v.hvals[i])))
				}
			}
		} else if v.extra {
			b.stmts = append(b.stmts, "var "+name+"=Object.create({\"inh!\":1});Object.defineProperty("+name+",\"hid!\",{value:2,enumerable:false});")
		} else {
			b.stmts = append(b.stmts, "var "+name+"={};")
		}
		v.name = name
		setName(v, name)
		for i, x := range v.items {
			e := b.build(x)
			b.stmts = append(b.stmts, fmt.Sprintf("%s[%s]=%s;", name, jsStrExpr(v.keys[i]), e))
		}
		return name
	case "toj":
		switch v.k {
		case 1:
			return b.bind(v, "{toJSON:function(key){return key}}")
		case 2:
			return b.bind(v, "{toJSON:function(key){return undefined}}")
		case 3:
			return b.bind(v, "{toJSON:function(key){return typeof this.toJSON}}")
		}
		inner := &builder{g: b.g, n: b.n}
		e := inner.build(v.inner)
		return b.bind(v, "{toJSON:function(key){"+strings.Join(inner.stmts, "")+"return "+e+"}}")
	}
	panic("kind")
}

// a non-container object gets a variable of its own so that the same object can be used again
func (b *builder) bind(v *jsv, expr string) string {
	name := fmt.Sprintf("c%d", *b.n)
	*b.n++
	b.stmts = append(b.stmts, "var "+name+"="+expr+";")
	v.name = name
	return name
}

// cyc nodes below v that were generated for "the container v" get its variable name
func setName(v *jsv, name string) {
	var walk func(x *jsv)
	walk = func(x *jsv) {
		if x.kind == "cyc" && x.inner == v {
			x.s = ascii(name)
		}
		for _, y := range x.items {
			walk(y)
		}
		if x.kind == "toj" && x.inner != nil {
			walk(x.inner)
		}
	}
	for _, y := range v.items {
		walk(y)
	}
}

type sopt struct {
	cyc     float64 // probability weight of cyclic references
	jsonish bool    // only what has a JSON representation, plus undefined/function members
	share   float64 // probability, at every node, of using an object generated earlier in the case once more
}

func hasRef(v *jsv) bool {
	if v.kind == "ref" {
		return true
	}
	for _, x := range v.items {
		if hasRef(x) {
			return true
		}
	}
	return v.kind == "toj" && v.inner != nil && hasRef(v.inner)
}

// record an object that later nodes of the case may refer to again
func (g *gen) done(v *jsv) *jsv {
	if !hasCyc(v) {
		g.completed = append(g.completed, v)
	}
	return v
}

func (g *gen) jsValue(depth int, ancestors []*jsv, o sopt) *jsv {
	r := g.r
	if len(g.completed) > 0 && r.Float64() < o.share {
		return &jsv{kind: "ref", inner: Pick(r, g.completed)}
	}
	k := r.Intn(22)
	if depth <= 0 && k >= 14 {
		k = r.Intn(14)
	}
	if o.share > 0 && depth > 0 && k < 8 && r.Intn(3) == 0 {
		k = 14 + r.Intn(8) // more containers where sharing is wanted
	}
	switch k {
	case 0:
		if !o.jsonish && r.Intn(3) == 0 {
			ms := g.dateMs()
			return g.done(&jsv{kind: "date", f: ms})
		}
		return &jsv{kind: "null"}
	case 1:
		return &jsv{kind: "bool", b: r.Intn(2) == 0}
	case 2, 3, 4:
		return &jsv{kind: "num", f: g.double()}
	case 5, 6, 7:
		return &jsv{kind: "str", s: g.str(true)}
	case 8:
		return &jsv{kind: "undef"}
	case 9:
		return &jsv{kind: "fun"}
	case 10:
		if o.jsonish {
			return &jsv{kind: "num", f: float64(r.Intn(100))}
		}
		if r.Intn(3) == 0 {
			return g.done(g.overridden("wnum", 1+r.Intn(5)))
		}
		return g.done(&jsv{kind: "wnum", f: g.double()})
	case 11:
		if o.jsonish {
			return &jsv{kind: "str", s: g.str(false)}
		}
		if r.Intn(3) == 0 {
			return g.done(g.overridden(Pick(r, []string{"wstr", "wstr", "wbool"}), 1+r.Intn(5)))
		}
		return g.done(Pick(r, []*jsv{{kind: "wstr", s: g.str(true)}, {kind: "wbool", b: r.Intn(2) == 0}}))
	case 12:
		if o.jsonish || depth <= 0 {
			return &jsv{kind: "null"}
		}
		kk := r.Intn(4)
		v := &jsv{kind: "toj", k: kk}
		if kk == 0 {
			saved := g.completed
			v.inner = g.jsValue(depth-1, ancestors, o)
			g.completed = saved // containers built inside the method are not visible outside
		} else {
			v.inner = &jsv{kind: "null"}
		}
		return g.done(v)
	case 13:
		if len(ancestors) > 0 && r.Float64() < o.cyc {
			a := Pick(r, ancestors)
			return &jsv{kind: "cyc", inner: a, isArr: a.kind == "arr"}
		}
		if len(g.completed) > 0 && r.Intn(2) == 0 {
			return &jsv{kind: "ref", inner: Pick(r, g.completed)}
		}
		return &jsv{kind: "num", f: float64(r.Intn(10))}
	case 14, 15, 16, 17:
		v := &jsv{kind: "arr"}
		n := r.Intn(5)
		for i := 0; i < n; i++ {
			v.items = append(v.items, g.jsValue(depth-1, append(ancestors, v), o))
		}
		if !hasCyc(v) {
			g.completed = append(g.completed, v)
		}
		return v
	default:
		v := &jsv{kind: "obj"}
		n := r.Intn(6)
		seen := map[string]bool{}
		for i := 0; i < n; i++ {
			key := g.key()
			ks := string(utf16.Decode(key))
			if hasLone(key) || seen[ks] || ks == "__proto__" || ks == "toJSON" {
				continue
			}
			seen[ks] = true
			v.keys = append(v.keys, key)
			v.items = append(v.items, g.jsValue(depth-1, append(ancestors, v), o))
		}
		v.extra = r.Intn(5) == 0
		if !hasCyc(v) {
			g.completed = append(g.completed, v)
		}
		return v
	}
}

var replacers = []string{
	"function(k,v){return v}",
	`function(k,v){return typeof v==="number"?"N":v}`,
	`function(k,v){return k==="a"?undefined:v}`,
	`function(k,v){return typeof v==="string"?new String(v):v}`,
	`function(k,v){return k===""?{w:v}:v}`,
	`function(k,v){return Array.isArray(v)?null:v}`,
	`function(k,v){return (typeof this==="object"&&this!==null&&typeof k==="string"&&(this[k]===v||v!==v||typeof this[k]==="object"))?v:"BAD HOLDER"}`,
	`(function(){var SH=[1,[2]];return function(k,v){return k==="s"?SH:v}})()`, // the same array returned for every key "s"
	`function(k,v){return typeof v==="number"?new Number(v):(typeof v==="boolean"?new Boolean(v):v)}`,
	`function(k,v){return k==="c"?this:v}`, // a cycle made by the replacer
	`function(k,v){return v===undefined?"U":v}`,
	`function(k,v){return typeof v==="function"?"F":v}`,
	`function(k,v){return (v===null||typeof v==="string")?undefined:v}`,
	`function(k,v){return (v===undefined||v===null||typeof v==="function"||typeof v==="boolean")?k+":"+typeof v+":"+(Array.isArray(this)?"A":"O"):v}`, // the call, written into the text
	`function(k,v){if(typeof v==="number"){var n=new Number(v);n.valueOf=function(){return 42};return n}if(typeof v==="string"){var s=new String(v);s.toString=function(){return "zz"};return s}return v}`,
}

// replacers that see or make undefined: used over arrays with holes and objects with undefined members
var holeReplacers = []int{10, 13, 10, 13, 11, 12, 6, 2, 0, 8}

// every boundary of the numeric space argument
var spaceNumbers = []float64{0, 1, 2, 3, 4, 5, 6, 7, 8, 9, 10, 11, 12, 20, 100, -1, -10, -0.5, 0.5, 0.99, 1.5, 3.9, 9.99, 10.5, 10.9999, 1e-9, 5e-324,
	2147483647, 2147483648, 2147483649, 4294967295, 4294967296, 4294967297, 4294967299, 4294967306, -2147483648, -2147483649, -4294967295, 9007199254740992,
	9223372036854775807, 9223372036854775808, 18446744073709551616, 1e21, 1e30, 1e300, math.MaxFloat64, -math.MaxFloat64, math.Inf(1), math.Inf(-1)}

func (g *gen) replacer() (string, string) { // JS, Coq
	r := g.r
	switch r.Intn(8) {
	case 0, 1, 2:
		return Pick(r, []string{"undefined", "null", "undefined", "{}", "\"a\"", "1"}), "RNone"
	case 3, 4, 5:
		id := r.Intn(len(replacers))
		return replacers[id], fmt.Sprintf("(RFun %d)", id)
	default:
		n := r.Intn(6)
		js := make([]string, n)
		cq := make([]string, n)
		for i := 0; i < n; i++ {
			switch r.Intn(9) {
			case 0:
				js[i], cq[i] = Pick(r, []string{"null", "true", "undefined", "{}", "[]", "function(){}", "new Boolean(true)"}), "PJunk"
			case 1:
				v := int64(r.Intn(13) - 1)
				js[i], cq[i] = strconv.FormatInt(v, 10), "(PNum "+Cz(v)+")"
			case 2:
				v := int64(r.Intn(12))
				js[i], cq[i] = "new Number("+strconv.FormatInt(v, 10)+")", "(PWNum "+Cz(v)+")"
			case 3:
				k := g.key()
				js[i], cq[i] = "new String("+jsStrExpr(k)+")", "(PWStr "+Cunits(k)+")"
			default:
				k := g.key()
				js[i], cq[i] = jsStrExpr(k), "(PStr "+Cunits(k)+")"
			}
		}
		return "[" + strings.Join(js, ",") + "]", "(RList " + Clist(cq) + ")"
	}
}

func (g *gen) gapStr() []uint16 {
	r := g.r
	switch r.Intn(6) {
	case 0:
		return ascii(Pick(r, []string{"", " ", "\t", "  ", "\n", "--", "          ", "           ", "0123456789abc", "ééééé", "éééééé", "123456789é", "12345678€", "1234567😀", "12345678😀x", "€€€€", "<&>"}))
	case 1:
		n := r.Intn(14)
		u := make([]uint16, n)
		for i := range u {
			u[i] = ' '
		}
		return u
	case 2:
		var u []uint16
		for i := r.Intn(13); i > 0; i-- {
			u = append(u, g.unit(true)...)
		}
		return u
	default:
		return ascii(strings.Repeat(Pick(r, []string{" ", "\t", "a", "é", "€"}), r.Intn(13)))
	}
}

func (g *gen) space() (string, string) {
	r := g.r
	switch r.Intn(10) {
	case 0, 1, 2:
		return "undefined", "SNone"
	case 3, 4:
		f := Pick(r, append([]float64{math.NaN(), math.Copysign(0, -1), float64(r.Intn(14)), float64(r.Intn(14)) + r.Float64(), math.Ldexp(1, r.Intn(70)) + float64(r.Intn(12))}, spaceNumbers...))
		if r.Intn(4) == 0 {
			return "new Number(" + JSNum(f) + ")", "(SWNum " + Cdouble(f) + ")"
		}
		return JSNum(f), "(SNum " + Cdouble(f) + ")"
	case 5, 6, 7:
		u := g.gapStr()
		if r.Intn(5) == 0 {
			return "new String(" + jsStrExpr(u) + ")", "(SWStr " + Cunits(u) + ")"
		}
		return jsStrExpr(u), "(SStr " + Cunits(u) + ")"
	default:
		return Pick(r, []string{"null", "true", "{}", "[]", "function(){}", "new Boolean(true)"}), "SJunk"
	}
}

func (g *gen) sres(o Outcome) string {
	if ec := ErrClass(o); ec != 0 {
		return fmt.Sprintf("(SErr %d)", ec)
	}
	if o.Val.IsUndefined() {
		return "SUndefined"
	}
	if o.Val.IsString() {
		return "(SText " + Cstr(o.Val.String()) + ")"
	}
	return "(SErr 99)"
}

func showS(o Outcome) string {
	if ec := ErrClass(o); ec != 0 {
		return fmt.Sprintf("error class %d (%v%v)", ec, o.Err, o.Panic)
	}
	if o.Val.IsString() {
		return "\"" + showUnits(Units(o.Val.String())) + "\""
	}
	return o.Val.String()
}

func (g *gen) caseStringify(v *jsv, repJS, repCoq, spJS, spCoq, bucket string) {
	n := 0
	b := &builder{g: g, n: &n}
	e := b.build(v)
	call := "JSON.stringify(" + e + "," + repJS + "," + spJS + ")"
	pre := ""
	if g.r.Intn(6) == 0 { // the same call twice: the second result must not depend on the first
		pre = "try{" + call + "}catch(e){}"
	}
	src := "(function(){" + strings.Join(b.stmts, "") + pre + "return " + call + "})()"
	o := g.run(src)
	g.env.Add(fmt.Sprintf("CStringify %s %s %s %s", v.coq(), repCoq, spCoq, g.sres(o)),
		fmt.Sprintf("stringify %s -> %s", src, trunc(showS(o))), bucket, true)
}

// a time value for a Date: round seconds, tens of milliseconds, any millisecond, invalid
func (g *gen) dateMs() float64 {
	r := g.r
	ms := r.Int63n(4e12)
	switch r.Intn(6) {
	case 0:
		return math.NaN()
	case 1:
		ms = ms / 1000 * 1000
	case 2:
		ms = ms / 100 * 100
	case 3:
		ms = ms / 10 * 10
	}
	return float64(ms)
}

// arrays with holes / undefined / function elements and objects with undefined members
func (g *gen) holeyValue(depth int) *jsv {
	r := g.r
	leaf := func() *jsv {
		switch r.Intn(9) {
		case 0, 1, 2:
			return &jsv{kind: "undef"}
		case 3:
			return &jsv{kind: "fun"}
		case 4:
			return &jsv{kind: "null"}
		case 5:
			return &jsv{kind: "bool", b: r.Intn(2) == 0}
		case 6:
			return &jsv{kind: "str", s: g.str(false)}
		case 7:
			return &jsv{kind: "toj", k: 2, inner: &jsv{kind: "null"}}
		default:
			return &jsv{kind: "num", f: float64(r.Intn(100))}
		}
	}
	if depth <= 0 {
		return leaf()
	}
	if r.Intn(3) > 0 {
		v := &jsv{kind: "arr"}
		for i := r.Intn(6); i > 0; i-- {
			if r.Intn(4) == 0 {
				v.items = append(v.items, g.holeyValue(depth-1))
			} else {
				v.items = append(v.items, leaf())
			}
		}
		return v
	}
	v := &jsv{kind: "obj"}
	for i, k := range []string{"a", "u", "f", "z", "c"} {
		if r.Intn(2) == 0 {
			continue
		}
		v.keys = append(v.keys, ascii(k))
		if i == 3 {
			v.items = append(v.items, g.holeyValue(depth-1))
		} else {
			v.items = append(v.items, leaf())
		}
	}
	return v
}

// array-like values that are not arrays, and arrays carrying named properties: [[Class]] decides, not shape
func (g *gen) arrayLike(depth int) *jsv {
	r := g.r
	leaf := func() *jsv {
		switch r.Intn(8) {
		case 0, 1:
			return &jsv{kind: "undef"}
		case 2:
			return &jsv{kind: "fun"}
		case 3:
			return &jsv{kind: "null"}
		case 4:
			return &jsv{kind: "str", s: g.str(false)}
		case 5:
			return &jsv{kind: "wstr", s: ascii(Pick(r, []string{"", "ab", "0"})), junk: true}
		default:
			return &jsv{kind: "num", f: float64(r.Intn(50))}
		}
	}
	child := func() *jsv {
		if depth > 0 && r.Intn(3) == 0 {
			return g.arrayLike(depth - 1)
		}
		return leaf()
	}
	switch r.Intn(6) {
	case 0, 1, 2: // arguments: some indices deleted, extra named properties
		n := r.Intn(5)
		v := &jsv{kind: "obj", shape: "args", argc: n}
		for i := 0; i < n; i++ {
			if r.Intn(5) == 0 {
				continue // deleted
			}
			v.keys = append(v.keys, ascii(strconv.Itoa(i)))
			v.items = append(v.items, child())
		}
		for _, k := range []string{"x", "len", "-1"} {
			if r.Intn(4) == 0 {
				v.keys = append(v.keys, ascii(k))
				v.items = append(v.items, child())
			}
		}
		return v
	case 3: // an object with length and index members, plain or with an array as prototype
		v := &jsv{kind: "obj", shape: Pick(r, []string{"", "arrproto", "arrsub", ""})}
		n := r.Intn(4)
		if r.Intn(2) == 0 {
			v.keys = append(v.keys, ascii("length"))
			v.items = append(v.items, &jsv{kind: "num", f: float64(n)})
		}
		for i := 0; i < n; i++ {
			v.keys = append(v.keys, ascii(strconv.Itoa(i)))
			v.items = append(v.items, child())
		}
		if r.Intn(2) == 0 && len(v.keys) > 0 && string(utf16.Decode(v.keys[0])) != "length" {
			v.keys = append(v.keys, ascii("length"))
			v.items = append(v.items, &jsv{kind: "num", f: float64(n)})
		}
		return v
	case 4: // a real array that also carries named properties
		v := &jsv{kind: "arr", junk: true}
		for i := r.Intn(4); i > 0; i-- {
			v.items = append(v.items, child())
		}
		return v
	default:
		v := &jsv{kind: "arr"}
		if depth <= 0 {
			v.items = []*jsv{leaf()}
			return v
		}
		for i := 1 + r.Intn(3); i > 0; i-- {
			v.items = append(v.items, g.arrayLike(depth-1))
		}
		return v
	}
}

// array replacers whose elements are of every type, over objects whose keys come from the same small set
func (g *gen) casePlist() {
	r := g.r
	names := []string{"a", "b", "c", "1", "2", "", "10", "-1"}
	var mk func(d int) *jsv
	mk = func(d int) *jsv {
		v := &jsv{kind: "obj"}
		for _, k := range names {
			if r.Intn(2) == 0 {
				continue
			}
			var x *jsv
			switch {
			case d > 0 && r.Intn(4) == 0:
				x = mk(d - 1)
			case d > 0 && r.Intn(6) == 0:
				x = arr(mk(d-1), num(1))
			default:
				x = num(float64(r.Intn(9)))
			}
			if r.Intn(4) == 0 { // not an own enumerable member: only a property list can reach it
				v.hkeys, v.hvals, v.hkind = append(v.hkeys, ascii(k)), append(v.hvals, x), append(v.hkind, r.Intn(3))
				if r.Intn(3) > 0 {
					continue
				}
				x = num(float64(10 + r.Intn(9))) // and an own member of the same name shadows it
			}
			v.keys = append(v.keys, ascii(k))
			v.items = append(v.items, x)
		}
		return v
	}
	v := mk(2)
	n := 1 + r.Intn(7)
	js := make([]string, n)
	cq := make([]string, n)
	for i := range js {
		nm := Pick(r, names)
		num, isNum := strconv.Atoi(nm)
		switch r.Intn(9) {
		case 0, 1:
			js[i], cq[i] = jsStrExpr(ascii(nm)), "(PStr "+Cstr(nm)+")"
		case 2:
			js[i], cq[i] = Pick(r, []string{"new String(", "Object("})+jsStrExpr(ascii(nm))+")", "(PWStr "+Cstr(nm)+")"
		case 3: // wrapper objects made by map(Object)
			j := r.Intn(3)
			js[i], cq[i] = "[\"a\",\"b\",\"1\"].map(Object)["+strconv.Itoa(j)+"]", "(PWStr "+Cstr([]string{"a", "b", "1"}[j])+")"
		case 4, 5:
			if isNum == nil {
				if r.Intn(2) == 0 {
					js[i], cq[i] = strconv.Itoa(num), "(PNum "+Cz(int64(num))+")"
				} else {
					js[i], cq[i] = Pick(r, []string{"new Number(", "Object("})+strconv.Itoa(num)+")", "(PWNum "+Cz(int64(num))+")"
				}
			} else {
				js[i], cq[i] = jsStrExpr(ascii(nm)), "(PStr "+Cstr(nm)+")"
			}
		default:
			js[i], cq[i] = Pick(r, []string{"true", "false", "null", "undefined", "({toString:function(){return \"a\"}})", "[\"a\"]", "[1]", "function(){}", "new Boolean(true)", "new Date(0)", "/a/", "({valueOf:function(){return 1}})", "Math"}), "PJunk"
		}
	}
	spJS, spCoq := "undefined", "SNone"
	if r.Intn(4) == 0 {
		spJS, spCoq = g.space()
	}
	g.caseStringify(v, "["+strings.Join(js, ",")+"]", "(RList "+Clist(cq)+")", spJS, spCoq, "stringify-plist")
}

// property lists over objects whose listed names live on the prototype chain or are not enumerable
func (g *gen) sweepInherited() {
	hid := func(kind int, own []interface{}, hidden ...interface{}) *jsv {
		v := obj(own...)
		for i := 0; i < len(hidden); i += 2 {
			v.hkeys = append(v.hkeys, ascii(hidden[i].(string)))
			v.hvals = append(v.hvals, hidden[i+1].(*jsv))
			k := kind
			if kind == 3 { // one of each
				k = (i / 2) % 3
			}
			v.hkind = append(v.hkind, k)
		}
		return v
	}
	own := func(kv ...interface{}) []interface{} { return kv }
	lists := []struct{ js, coq string }{
		{`["a"]`, `(RList [PStr [97]])`},
		{`["b","a"]`, `(RList [PStr [98]; PStr [97]])`},
		{`["a","b","c","zz"]`, `(RList [PStr [97]; PStr [98]; PStr [99]; PStr [122; 122]])`},
		{`[new String("a"),1]`, `(RList [PWStr [97]; PNum 1])`},
		{`[]`, `(RList [])`},
	}
	for kind := 0; kind <= 3; kind++ {
		vals := []*jsv{
			hid(kind, own(), "a", num(1)),
			hid(kind, own("b", num(2)), "a", num(1)),
			hid(kind, own("a", num(5)), "a", num(1), "b", num(2)), // own shadows inherited
			hid(kind, own("c", num(3)), "a", hid(kind, own("b", num(7)), "a", str("deep")), "b", arr(num(1), hid(kind, own(), "a", num(9)))),
			hid(kind, own("b", &jsv{kind: "undef"}), "a", &jsv{kind: "undef"}, "c", &jsv{kind: "fun"}, "1", &jsv{kind: "null"}),
			hid(kind, own(), "a", &jsv{kind: "toj", k: 1, inner: &jsv{kind: "null"}}, "b", &jsv{kind: "wnum", f: 4}, "c", &jsv{kind: "date", f: 0}),
			arr(hid(kind, own("b", num(1)), "a", str("x")), hid(kind, own(), "b", num(2)), obj("a", hid(kind, own(), "a", num(3)))),
			obj("a", hid(kind, own(), "a", num(1), "1", num(2)), "zz", hid(kind, own("zz", num(0)), "b", &jsv{kind: "bool", b: true})),
		}
		for i, v := range vals {
			l := lists[(i+kind)%len(lists)]
			g.caseStringify(v, l.js, l.coq, "undefined", "SNone", "plist-inherited")
			l = lists[(i+kind+1)%len(lists)]
			g.caseStringify(v, l.js, l.coq, "1", "(SNum "+Cdouble(1)+")", "plist-inherited")
			if i%2 == 0 { // without a list, and under a replacer function, the hidden members stay hidden
				g.caseStringify(v, "undefined", "RNone", "undefined", "SNone", "plist-inherited")
				g.caseStringify(v, replacers[10], "(RFun 10)", "undefined", "SNone", "plist-inherited")
			}
			if i%4 == 1 {
				g.caseMarshal(v)
			}
		}
	}
}

// a valid text followed or preceded by one token of every class: only JSON white space may stand there
func (g *gen) sweepAround() {
	r := g.r
	bases := []string{`[1]`, `{"a":1}`, `[]`, `{}`, `1`, `"s"`, `null`, `true`, `[[1]]`, `{"a":[]}`, `-0.5e1`, `[{"b":null}]`}
	toks := []string{"]", "}", "[", "{", ",", ":", "\"", "\"\"", "null", "true", "false", "0", "1", "-", ".", "e", "+", "[]", "{}", "]]", "}}",
		" ", "\t", "\n", "\r", "\v", "\f", "\u00a0", "\ufeff", "\u2028", "\u2029", "\u0000", "/", "//", "x", "\\", "'"}
	for _, b := range bases {
		for _, t := range toks {
			gap := Pick(r, []string{"", "", " ", "\n", "\t\r"})
			if r.Intn(2) == 0 {
				g.caseParse(ascii(b+gap+t), "parse-trailing")
			}
			if r.Intn(5) == 0 {
				g.caseParse(ascii(t+gap+b), "parse-leading")
			}
			if r.Intn(12) == 0 {
				g.caseParse(ascii(b+gap+t+gap), "parse-trailing")
			}
		}
	}
}

// Go-side marshalling of a value must give the text JSON.stringify gives for it in the script.
// setup/teardown run before/after (prototype overrides must be in force during both).
func (g *gen) caseAgree(setup, expr, teardown string) {
	if setup != "" {
		g.run(setup)
	}
	o := g.run("AGX=" + expr + ";AGS=JSON.stringify(AGX);typeof AGS")
	agree := true
	show := ""
	if ErrClass(o) != 0 {
		agree, show = false, fmt.Sprintf("script failed: %v%v", o.Err, o.Panic)
	} else {
		x, _ := g.vm.Get("AGX")
		sv, _ := g.vm.Get("AGS")
		func() {
			defer func() {
				if r := recover(); r != nil {
					agree, show = false, fmt.Sprintf("Go panic %v", r)
				}
			}()
			if g.mark() {
				panic("host process died on this input")
			}
			b1, e1 := json.Marshal(x)
			var b2 []byte
			var e2 error
			if x.IsObject() {
				b2, e2 = x.Object().MarshalJSON()
			} else {
				b2, e2 = b1, e1
			}
			show = fmt.Sprintf("JSON.stringify=%s json.Marshal=%q err=%v Object.MarshalJSON=%q err=%v", showS(Outcome{Val: sv}), b1, e1, b2, e2)
			if sv.IsString() { // otherwise undefined (functions): only "no panic" is required
				want := sv.String()
				agree = e1 == nil && e2 == nil && string(b1) == want && string(b2) == want
			}
		}()
	}
	if teardown != "" {
		g.run(teardown)
	}
	g.env.Add(fmt.Sprintf("CAgree 1 %s", Cbool(agree)), fmt.Sprintf("agree setup{%s} value %s teardown{%s}: %s", setup, expr, teardown, trunc(show)), "marshal-classes", true)
}

// json.Marshal of the exported (Go) form of a parsed JSON text against JSON.stringify of it
func (g *gen) caseAgreeExport(t []uint16) {
	Must(g.vm.Set("T", string(utf16.Decode(t))))
	o := g.run("AGX=JSON.parse(T);AGS=JSON.stringify(AGX);typeof AGS")
	agree := true
	show := ""
	if ErrClass(o) != 0 {
		agree, show = false, "script failed"
	} else {
		x, _ := g.vm.Get("AGX")
		sv, _ := g.vm.Get("AGS")
		func() {
			defer func() {
				if r := recover(); r != nil {
					agree, show = false, fmt.Sprintf("Go panic %v", r)
				}
			}()
			ex, err := x.Export()
			bs, err2 := json.Marshal(ex)
			show = fmt.Sprintf("JSON.stringify=%s json.Marshal(Export)=%q err=%v %v", showS(Outcome{Val: sv}), bs, err, err2)
			agree = err == nil && err2 == nil && sv.IsString() && string(bs) == sv.String()
		}()
	}
	g.env.Add(fmt.Sprintf("CAgree 2 %s", Cbool(agree)), fmt.Sprintf("agree-export <%s>: %s", showUnits(t), trunc(show)), "marshal-export", true)
}

// every object class a script can build, marshalled from Go
func (g *gen) sweepClasses() {
	r := g.r
	ms := func() string { return JSNum(g.dateMs()) }
	plain := []string{
		"new Date(0)", "new Date(500)", "new Date(1070)", "new Date(1234567890120)", "new Date(1234567890123)", "new Date(-1)", "new Date(-62198755200000)",
		"new Date(NaN)", "new Date(0.7)", "new Date(999.9)", "new Date(" + ms() + ")", "new Date(" + ms() + ")", "new Date(" + ms() + ")",
		"(function(){var d=new Date(0);d.toJSON=function(){return \"own\"};return d})()",
		"(function(){var d=new Date(0);d.toJSON=function(k){return {k:k,t:this.getTime()}};return d})()",
		"(function(){var d=new Date(5000);d.toISOString=function(){return \"iso!\"};return d})()",
		"(function(){var d=new Date(NaN);d.toISOString=function(){return \"iso!\"};return d})()",
		"(function(){var d=new Date(0);d.toJSON=undefined;return d})()",
		"(function(){var d=new Date(0);d.x=1;return d})()",
		"[new Date(0),new Date(NaN),new Date(" + ms() + ")]", "({d:new Date(86400000),e:[new Date(1500)]})",
		"new Number(1.5)", "new Number(NaN)", "new Number(-0)", "new String(\"a<b\")", "new String(\"\")", "new Boolean(false)", "Object(\"x\")", "Object(7)",
		"/a+/g", "new RegExp(\"x\",\"i\")", "new Error(\"boom\")", "new TypeError(\"t\")", "(function(){try{null.x}catch(e){return e}})()",
		"function(){}", "Math.max", "Object", "[function(){},1]", "({f:function(){},g:1})",
		"[1,,3]", "new Array(3)", "[,]", "[undefined,null]", "(function(){var a=[1,2,3];delete a[1];return a})()", "(function(){var a=[];a[4]=1;return a})()",
		"(function(){return arguments})(1,\"a\",null)", "(function(){return arguments})()", "(function(a){a=5;return arguments})(1,2)",
		"Object.create({a:1})", "Object.create(null)", "Math", "JSON", "({})", "[]", "[[[]]]", "({a:{b:{c:[1,{d:null}]}}})",
		"(function(){var o={b:1};Object.defineProperty(o,\"h\",{value:2,enumerable:false});return o})()",
		"({toJSON:function(){return 5}})", "({toJSON:function(){return new Date(0)}})", "[{toJSON:function(k){return k}}]",
		"true", "null", "undefined", "\"s<>\"", "12", "1e21", "0.5", "NaN", "Infinity",
		"({n:NaN,i:-Infinity,u:undefined,z:-0})", "new Date(" + ms() + ")",
	}
	for _, e := range plain {
		g.caseAgree("", e, "")
	}
	over := [][3]string{
		{"AGO=Date.prototype.toJSON;Date.prototype.toJSON=function(k){return \"proto:\"+this.getTime()}", "new Date(" + JSNum(float64(r.Intn(100000))) + ")", "Date.prototype.toJSON=AGO"},
		{"AGO=Date.prototype.toISOString;Date.prototype.toISOString=function(){return \"piso\"}", "new Date(0)", "Date.prototype.toISOString=AGO"},
		{"AGO=Date.prototype.toISOString;Date.prototype.toISOString=function(){return \"piso\"}", "[new Date(NaN),new Date(1)]", "Date.prototype.toISOString=AGO"},
		{"AGO=Date.prototype.toJSON;delete Date.prototype.toJSON", "new Date(0)", "Date.prototype.toJSON=AGO"},
		{"Number.prototype.toJSON=function(){return \"num\"}", "new Number(3)", "delete Number.prototype.toJSON"},
		{"Number.prototype.toJSON=function(){return \"num\"}", "({a:3,b:new Number(4)})", "delete Number.prototype.toJSON"},
		{"String.prototype.toJSON=function(){return 1}", "new String(\"s\")", "delete String.prototype.toJSON"},
		{"RegExp.prototype.toJSON=function(){return this.source}", "/ab/", "delete RegExp.prototype.toJSON"},
		{"Object.prototype.toJSON=function(){return \"obj\"}", "({a:1})", "delete Object.prototype.toJSON"},
		{"Object.prototype.toJSON=function(){return \"obj\"}", "[new Date(0),/x/]", "delete Object.prototype.toJSON"},
	}
	for _, c := range over {
		g.caseAgree(c[0], c[1], c[2])
	}
}

// numeric and string space arguments at every boundary, plain and as wrapper objects
func (g *gen) sweepSpace() {
	val := func() *jsv {
		return obj("a", arr(num(1), obj("b", num(2)), arr()), "c", str("x"))
	}
	for i, f := range append([]float64{math.NaN(), math.Copysign(0, -1)}, spaceNumbers...) {
		if i%3 == 2 {
			g.caseStringify(val(), "undefined", "RNone", "new Number("+JSNum(f)+")", "(SWNum "+Cdouble(f)+")", "space-sweep")
		} else {
			g.caseStringify(val(), "undefined", "RNone", JSNum(f), "(SNum "+Cdouble(f)+")", "space-sweep")
		}
	}
	for n := 0; n <= 13; n++ {
		for _, unit := range []string{" ", "ab", "é", "\t"} {
			u := ascii(strings.Repeat(unit, n))
			if len(unit) == 2 && unit != "é" {
				u = ascii(strings.Repeat(unit, n)[:n])
			}
			if (n+len(unit))%4 == 0 {
				g.caseStringify(val(), "undefined", "RNone", "new String("+jsStrExpr(u)+")", "(SWStr "+Cunits(u)+")", "space-sweep")
			} else {
				g.caseStringify(val(), "undefined", "RNone", jsStrExpr(u), "(SStr "+Cunits(u)+")", "space-sweep")
			}
		}
	}
}

func (g *gen) caseMarshal(v *jsv) {
	n := 0
	b := &builder{g: g, n: &n}
	e := b.build(v)
	src := "(function(){" + strings.Join(b.stmts, "") + "return " + e + "})()"
	o := g.run(src)
	obs, show := "", ""
	if ErrClass(o) != 0 {
		obs, show = "(SErr 99)", "evaluation failed"
	} else {
		var bs []byte
		var err error
		func() {
			defer func() {
				if r := recover(); r != nil {
					err = fmt.Errorf("panic %v", r)
					obs = "(SErr 9)"
				}
			}()
			if g.mark() {
				panic("host process died on this input")
			}
			bs, err = json.Marshal(o.Val)
		}()
		switch {
		case obs != "":
		case err != nil:
			obs = "(SErr 6)"
		default:
			obs = "(SText " + Cstr(string(bs)) + ")"
		}
		show = fmt.Sprintf("%q err=%v", bs, err)
	}
	g.env.Add(fmt.Sprintf("CMarshal %s %s", v.coq(), obs), fmt.Sprintf("marshal json.Marshal(vm value of %s) -> %s", src, trunc(show)), "marshal", true)
}

func (g *gen) caseReprint(t []uint16) {
	src, prep := g.parseExpr(t, "")
	prep()
	o := g.run("JSON.stringify(" + src + ")")
	g.env.Add(fmt.Sprintf("CReprint %s %s", Cunits(t), g.sres(o)), fmt.Sprintf("reprint JSON.stringify(JSON.parse(<%s>)) -> %s", showUnits(t), trunc(showS(o))), "reprint", true)
}

func num(f float64) *jsv { return &jsv{kind: "num", f: f} }
func str(s string) *jsv  { return &jsv{kind: "str", s: ascii(s)} }
func obj(kv ...interface{}) *jsv {
	v := &jsv{kind: "obj"}
	for i := 0; i < len(kv); i += 2 {
		v.keys = append(v.keys, ascii(kv[i].(string)))
		v.items = append(v.items, kv[i+1].(*jsv))
	}
	return v
}
func arr(xs ...*jsv) *jsv { return &jsv{kind: "arr", items: xs} }

func runC11(env *Env) {
	env.Import = "Otto.C11.Corr"
	env.Rule = "JSON texts printed from random trees (all string unit classes, escapes in every spelling, number tokens over the whole double range incl. overflow/denormal/halfway digits, white space) and 14 kinds of mutation of them; JSON.parse with 7 revivers (call log + result); JSON.stringify of random JavaScript values (undefined/function/holes/wrappers/toJSON/cycles/non-finite) under replacer functions, property lists and space arguments; stringify(parse(t)); Go-side json.Marshal of values. Non-trivial = text longer than 4 units or any non-parse case; distinct by case text"
	g := &gen{env: env, r: env.Rng, vm: otto.New(), crashed: map[string]bool{}}
	for _, c := range strings.Split(os.Getenv("C11_CRASHED"), ",") {
		if c != "" {
			g.crashed[c] = true
		}
	}
	r := g.r

	// pinned witnesses of the listed findings, every run
	g.caseParse(ascii(`"\ud800"`), "pinned")
	g.caseParse(ascii(`["\udc00\ud83d", "😀"]`), "pinned")
	g.caseParse(ascii(`1e400`), "pinned")
	g.caseParse(ascii(`[-1e309]`), "pinned")
	g.caseOrder(12)
	g.caseStringify(obj("b", num(1), "a", num(2)), "undefined", "RNone", "undefined", "SNone", "pinned")
	g.caseStringify(str("<"), "undefined", "RNone", "undefined", "SNone", "pinned")
	g.caseStringify(&jsv{kind: "str", s: []uint16{0xd800}}, "undefined", "RNone", "undefined", "SNone", "pinned")
	g.caseStringify(obj("b", num(1), "a", num(2)), `[null,"a"]`, `(RList [PJunk; PStr [97]])`, "undefined", "SNone", "pinned")
	g.caseStringify(arr(num(1)), "undefined", "RNone", `"ééééééé"`, "(SStr "+Cstr("ééééééé")+")", "pinned")
	g.caseRevDel(4)
	g.caseStringify(num(1152921504606846976), "undefined", "RNone", "undefined", "SNone", "pinned")
	g.sweepSpace()
	g.sweepWrappers()
	g.sweepInherited()
	g.sweepRevivers()
	g.sweepAround()
	g.sweepClasses()

	for env.Count() < env.N {
		switch k := r.Intn(100); {
		case k < 14: // valid texts
			g.caseParse(g.jsonText(r.Intn(5), topt{lone: true, dupKeys: true}), "parse-valid")
		case k < 18: // single tokens
			switch r.Intn(3) {
			case 0:
				g.caseParse(ascii(g.ws()+g.numToken(false)+g.ws()), "parse-number")
			case 1:
				g.caseParse(g.jsonStrText(g.str(true)), "parse-string")
			default:
				t := ascii(g.numToken(false))
				g.caseParse(g.mutate(t), "parse-number-mutated")
			}
		case k < 36: // mutated texts
			t := g.jsonText(r.Intn(4), topt{lone: r.Intn(4) == 0, dupKeys: true})
			for i := r.Intn(2) + 1; i > 0; i-- {
				t = g.mutate(t)
			}
			g.caseParse(t, "parse-mutated")
		case k < 48: // revivers
			rid := r.Intn(len(revivers))
			o := topt{intOnly: r.Intn(2) == 0}
			t := g.jsonText(1+r.Intn(4), o)
			if r.Intn(10) == 0 {
				t = g.mutate(t)
			}
			g.caseRevive(t, rid)
		case k < 49:
			g.caseRevDel(r.Intn(14))
		case k < 50:
			args := [][2]string{{"12", "12"}, {"null", "null"}, {"true", "true"}, {"undefined", "undefined"}, {"", "undefined"}, {"[1,2]", "1,2"}, {"[[1]]", "1"}, {"[\"[1]\"]", "[1]"},
				{"new String(\"[1,2]\")", "[1,2]"}, {"({toString:function(){return \"{\\\"a\\\":[null]}\"}})", "{\"a\":[null]}"}, {"-0", "0"}, {"({})", "[object Object]"},
				{"\" [1 , 2]\"", " [1 , 2]"}, {"NaN", "NaN"}, {"\"\\\"x\\\"\"", "\"x\""}}
			a := Pick(r, args)
			second := Pick(r, []string{"", ",undefined", ",null", ",{}", ",5", ",\"f\"", ",[]", ",true"})
			if a[0] == "" {
				second = ""
			}
			g.caseParseArg(a[0], second, ascii(a[1]))
		case k < 51:
			g.caseOrder(9 + r.Intn(12))
		case k < 54: // holes, undefined and functions under replacers that see or make undefined
			v := g.holeyValue(1 + r.Intn(3))
			id := Pick(r, holeReplacers)
			spJS, spCoq := "undefined", "SNone"
			if r.Intn(4) == 0 {
				spJS, spCoq = g.space()
			}
			g.caseStringify(v, replacers[id], fmt.Sprintf("(RFun %d)", id), spJS, spCoq, "stringify-holes")
		case k < 57:
			if r.Intn(4) > 0 { // array-like values that are not arrays
				v := g.arrayLike(1 + r.Intn(2))
				if r.Intn(4) == 0 {
					g.caseMarshal(v)
					continue
				}
				repJS, repCoq := "undefined", "RNone"
				if r.Intn(2) == 0 {
					id := Pick(r, []int{0, 5, 6, 10, 13, 2, 8, 1, 11})
					repJS, repCoq = replacers[id], fmt.Sprintf("(RFun %d)", id)
				}
				spJS, spCoq := "undefined", "SNone"
				if r.Intn(4) == 0 {
					spJS, spCoq = g.space()
				}
				g.caseStringify(v, repJS, repCoq, spJS, spCoq, "stringify-arraylike")
				continue
			}
			t := g.jsonText(1+r.Intn(3), topt{intOnly: true})
			if !strings.Contains(string(utf16.Decode(t)), "-0") {
				g.caseAgreeExport(t)
			}
		case k < 59:
			g.casePlist()
		case k < 64: // DAG-shaped values: objects of every kind used two or three times at different depths
			o := sopt{cyc: 0.25, share: 0.3}
			var v *jsv
			for try := 0; ; try++ {
				g.completed = nil
				v = g.jsValue(2+r.Intn(3), nil, o)
				if (v.kind == "arr" || v.kind == "obj") && (hasRef(v) || try > 40) {
					break
				}
			}
			repJS, repCoq, spJS, spCoq := "undefined", "RNone", "undefined", "SNone"
			if r.Intn(2) == 0 {
				repJS, repCoq = g.replacer()
				spJS, spCoq = g.space()
			}
			g.caseStringify(v, repJS, repCoq, spJS, spCoq, "stringify-dag")
		case k < 85: // stringify
			o := sopt{cyc: 0.5, share: 0.04}
			if r.Intn(3) == 0 {
				o.jsonish = true
			}
			g.completed = nil
			v := g.jsValue(r.Intn(5), nil, o)
			repJS, repCoq := g.replacer()
			spJS, spCoq := g.space()
			g.caseStringify(v, repJS, repCoq, spJS, spCoq, "stringify")
		case k < 93:
			g.caseReprint(g.jsonText(1+r.Intn(4), topt{intOnly: true, lone: r.Intn(5) == 0, dupKeys: true}))
		default:
			var v *jsv
			for {
				g.completed = nil
				v = g.jsValue(r.Intn(4), nil, sopt{cyc: 0.3, jsonish: r.Intn(2) == 0})
				if r.Intn(5) == 0 {
					v = &jsv{kind: "date", f: g.dateMs()}
				}
				if v.kind == "fun" || v.kind == "toj" || v.kind == "wnum" || v.kind == "wstr" || v.kind == "wbool" {
					continue
				}
				if v.kind == "num" && v.f == 0 && math.Signbit(v.f) { // Go prints -0, ES5 ToString(-0) is "0": not JSON.stringify's path

					continue
				}
				break
			}
			g.caseMarshal(v)
		}
	}
}
