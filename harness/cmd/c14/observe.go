package main

// The correspondence route of C14: observations by DIRECT property access
// (resolving each owner by its access path from the global object), in a
// runtime reached by some history.  Independent of the walker's traversal.

import (
	"fmt"
	"strings"

	"github.com/robertkrimen/otto"
	. "ottoh/lib"
)

const observerJS = `(function (global, spec, pathText, queryText) {
  var gOPD = Object.getOwnPropertyDescriptor, gPO = Object.getPrototypeOf,
      ots = Object.prototype.toString, isExt = Object.isExtensible;
  var SEP = "\u0001", REC = "\u0002";
  function desc(o, n) { try { try { return gOPD(o, n); } catch (e) { return "threw"; } } catch (e2) { return "threw"; } }
  function isObj(v) { return v !== null && (typeof v === "object" || typeof v === "function"); }
  function resolve(path) {
    if (path === "global") return global;
    var segs = path.split("."), o = global, i = 0;
    if (segs[0] === "spec") { o = spec; i = 1; }
    for (; i < segs.length; i++) {
      if (!isObj(o)) return undefined;
      var s = segs[i];
      if (s === "[[Prototype]]") { o = gPO(o); continue; }
      var d = desc(o, s);
      if (!d || d === "threw") return undefined;
      if (i + 1 < segs.length && (segs[i + 1] === "[[Get]]" || segs[i + 1] === "[[Set]]")) {
        o = segs[i + 1] === "[[Get]]" ? d.get : d.set; i++; continue;
      }
      if (!("value" in d)) return undefined;
      o = d.value;
    }
    return o;
  }
  var paths = pathText === "" ? [] : pathText.split(REC), objs = [];
  for (var i = 0; i < paths.length; i++) objs.push(resolve(paths[i]));
  function pathOf(v) { for (var i = 0; i < objs.length; i++) if (objs[i] === v) return paths[i]; return "?unlisted"; }
  function val(v) {
    if (v === undefined) return "u" + SEP;
    if (v === null) return "l" + SEP;
    if (typeof v === "boolean") return "b" + SEP + v;
    if (typeof v === "number") return "n" + SEP + (v === 0 && 1 / v < 0 ? "-0" : String(v));
    if (typeof v === "string") return "s" + SEP + v;
    return "o" + SEP + pathOf(v);
  }
  function pd(d) {
    if (!d) return ["N", "u", "", "u", "", false, false, false].join(SEP);
    if (d === "threw") return ["X", "u", "", "u", "", false, false, false].join(SEP);
    if ("value" in d) return ["D", val(d.value), val(undefined), d.writable, d.enumerable, d.configurable].join(SEP);
    return ["A", val(d.get), val(d.set), false, d.enumerable, d.configurable].join(SEP);
  }
  function prim(o) {
    var c = ots.call(o);
    try {
      if (c === "[object Number]") return val(Number.prototype.valueOf.call(o));
      if (c === "[object String]") return val(String.prototype.valueOf.call(o));
      if (c === "[object Boolean]") return val(Boolean.prototype.valueOf.call(o));
      if (c === "[object Date]") return val(Date.prototype.getTime.call(o));
    } catch (e) { return "s" + SEP + "!threw"; }
    return "u" + SEP;
  }
  function od(o) {
    var cls = ots.call(o);
    return [typeof o, cls.substring(8, cls.length - 1), val(gPO(o)), isExt(o), prim(o)].join(SEP);
  }
  var out = [];
  // object records, one per listed path
  for (var i = 0; i < paths.length; i++) {
    if (!isObj(objs[i])) out.push(["O", paths[i], "?"].join(SEP));
    else out.push(["O", paths[i], od(objs[i])].join(SEP));
  }
  var qs = queryText === "" ? [] : queryText.split(REC);
  for (var q = 0; q < qs.length; q++) {
    var f = qs[q].split(SEP), owner = resolve(f[0]);
    if (!isObj(owner)) { out.push(["Q", f[0], f[1], "?"].join(SEP)); continue; }
    var d = desc(owner, f[1]);
    var rec = ["Q", f[0], f[1], pd(d)];
    if (d && d !== "threw" && ("value" in d) && isObj(d.value)) {
      var v = d.value;
      rec.push("V", typeof v, ots.call(v).slice(8, -1), val(gPO(v)), isExt(v), pd(desc(v, "length")), desc(v, "prototype") ? true : false);
    }
    out.push(rec.join(SEP));
  }
  return out.join("\u0003");
})`

type pobsGo struct {
	Kind     string // D A X N
	Val, Set jval
	W, E, C  bool
}

type qobs struct {
	Owner, Name string
	Unresolved  bool
	P           pobsGo
	HasV        bool
	VTypeof     string
	VClass      string
	VProto      jval
	VExt        bool
	VLen        pobsGo
	VHasProto   bool
	raw         string
}

func parsePobs(f []string) pobsGo {
	return pobsGo{Kind: f[0], Val: jval{f[1], f[2]}, Set: jval{f[3], f[4]}, W: f[5] == "true", E: f[6] == "true", C: f[7] == "true"}
}

func (p pobsGo) coq() string {
	k := map[string]string{"D": "PData", "A": "PAcc", "X": "PBroken"}[p.Kind]
	return fmt.Sprintf("(mkPO %s %s %s %s %s %s)", k, p.Val.coqLit(), p.Set.coqLit(), Cbool(p.W), Cbool(p.E), Cbool(p.C))
}

func (p pobsGo) opt() string {
	if p.Kind == "N" {
		return "None"
	}
	return "(Some " + p.coq() + ")"
}

// coq term of a value with literal (not interned) strings
func (v jval) coqLit() string {
	switch v.Tag {
	case "u":
		return "VUndef"
	case "l":
		return "VNull"
	case "b":
		return "(VBool " + v.Txt + ")"
	case "n":
		return "(VNum " + numBits(v.Txt) + ")"
	case "s":
		return "(VStr " + cstrLit(v.Txt) + ")"
	case "o":
		return "(VObj " + cstrLit(v.Txt) + ")"
	}
	return "VUndef"
}

func (q qobs) coq() string {
	if q.Unresolved {
		return "(mkEO None None)"
	}
	v := "None"
	if q.HasV {
		v = fmt.Sprintf("(Some (mkVO %s %s %s %s %s %s))", cstrLit(q.VTypeof), cstrLit(q.VClass), q.VProto.coqLit(), Cbool(q.VExt), q.VLen.opt(), Cbool(q.VHasProto))
	}
	return fmt.Sprintf("(mkEO %s %s)", q.P.opt(), v)
}

func (q qobs) text() string {
	return strings.NewReplacer("\x01", " ", "\x02", ";").Replace(q.raw)
}

type observation struct {
	Objs    []jobj
	ObjRaw  map[string]string
	Missing []string // listed paths that do not resolve to an object
	Qs      []qobs
}

// observe resolves every path of `paths` and every (owner, name) of `pairs` in vm.
// The specimens are made afresh inside the call (root "spec").
func observeVM(vm *otto.Otto, paths []string, pairs [][2]string) (*observation, error) {
	qs := make([]string, len(pairs))
	for i, p := range pairs {
		qs[i] = p[0] + "\x01" + p[1]
	}
	src := observerJS + "(this, (" + specimenJS + "), " + JSStr(Units(strings.Join(paths, "\x02"))) + ", " + JSStr(Units(strings.Join(qs, "\x02"))) + ")"
	o := RunJS(vm, src)
	if o.Panic != nil {
		return nil, fmt.Errorf("observer: Go panic escaped: %v", o.Panic)
	}
	if o.Err != nil {
		return nil, fmt.Errorf("observer: %v", o.Err)
	}
	res := &observation{ObjRaw: map[string]string{}}
	for _, rec := range strings.Split(o.Val.String(), "\x03") {
		f := strings.Split(rec, "\x01")
		switch f[0] {
		case "O":
			if len(f) == 3 {
				res.Missing = append(res.Missing, f[1])
				continue
			}
			if len(f) != 9 {
				return nil, fmt.Errorf("observer: bad O record %q", rec)
			}
			res.Objs = append(res.Objs, jobj{Path: f[1], Typeof: f[2], Class: f[3], Proto: jval{f[4], f[5]}, Ext: f[6] == "true", Prim: jval{f[7], f[8]}})
			res.ObjRaw[f[1]] = rec
		case "Q":
			q := qobs{Owner: f[1], Name: f[2], raw: rec}
			if len(f) == 4 {
				q.Unresolved = true
			} else {
				if len(f) < 11 {
					return nil, fmt.Errorf("observer: bad Q record %q", rec)
				}
				q.P = parsePobs(f[3:11])
				if len(f) > 11 {
					if len(f) != 26 || f[11] != "V" {
						return nil, fmt.Errorf("observer: bad Q/V record %q (%d fields)", rec, len(f))
					}
					q.HasV = true
					q.VTypeof, q.VClass = f[12], f[13]
					q.VProto = jval{f[14], f[15]}
					q.VExt = f[16] == "true"
					q.VLen = parsePobs(f[17:25])
					q.VHasProto = f[25] == "true"
				}
			}
			res.Qs = append(res.Qs, q)
		default:
			return nil, fmt.Errorf("observer: bad record %q", rec)
		}
	}
	return res, nil
}
