package main

// The translator of C14: a JavaScript walker that runs inside the interpreter
// and lists, through the public reflection API only, every object reachable
// from the global object (and from a set of freshly made specimen objects),
// every own property of each with its descriptor, and each object's typeof,
// [[Class]], [[Prototype]], [[Extensible]] and primitive value.
//
// Object identity is turned into a canonical access path: breadth first over
// property edges (names sorted, names starting with '_' last), prototype
// edges only once the property edges are exhausted; the path of an object is
// the first access path that reaches it ("Object.prototype.toString",
// "spec.fn.prototype", "X.[[Prototype]]"), so a path is by construction a
// valid way to reach that object and two equal paths mean the same object.

import (
	"fmt"
	"math"
	"os"
	"sort"
	"strconv"
	"strings"

	"github.com/robertkrimen/otto"
	. "ottoh/lib"
)

// specimens: objects made by the dynamic constructors of the interpreter
// (type_function.go newNodeFunctionObject/newBoundFunctionObject, arguments,
// arrays, String/RegExp/Error instances, JSON.parse, descriptors ...).
const specimenJS = `{
  fn: function (a, b) { return a; },
  fn0: function () {},
  named: function nm(a, b, c) {},
  bound: (function (a, b, c) {}).bind(null, 1),
  bound0: (function () {}).bind(null, 1, 2),
  ctorfn: Function("a", "b", "return a"),
  args: (function () { return arguments; })(7, 8),
  arr: [7, 8],
  arrctor: new Array(3),
  str: new String("ab"),
  num: new Number(5),
  bool: new Boolean(true),
  date: new Date(0),
  re: /a/gi,
  rector: new RegExp("b", "m"),
  err: new Error("m"),
  terr: new TypeError("m"),
  err0: new Error(),
  obj: {a: 1, b: {}},
  bare: Object.create(null),
  created: Object.create({p: 1}, {q: {value: 2}}),
  json: JSON.parse('{"a":[1,{"b":null}]}'),
  desc: Object.getOwnPropertyDescriptor({x: 1}, "x"),
  adesc: Object.getOwnPropertyDescriptor(Object.defineProperty({}, "x", {get: undefined, configurable: true}), "x"),
  exec: /b(c)?/.exec("abd"),
  match: "abab".match(/b/g),
  split: "a,b".split(","),
  names: Object.getOwnPropertyNames({k: 1}),
  keys: Object.keys({k: 1}),
  mapped: [1, 2].map(function (x) { return x; }),
  sliced: [1, 2, 3].slice(1),
  concat: [1].concat([2]),
  inst: new (function K() { this.own = 1; })(),
  getset: {get g() { return 1; }, set g(v) {}, get h() { return 2; }},
  many: function (a1, a2, a3, a4, a5, a6, a7, a8, a9, a10, a11, a12) {},
  newfn: new Function(),
  boundnative: Math.max.bind(null, 1),
  boundbound: (function (a, b, c) {}).bind(null, 1).bind(null, 2),
  defacc: Object.defineProperty({}, "x", {get: function () { return 1; }}),
  frozen: Object.freeze({a: 1}),
  sealed: Object.seal({a: 1}),
  noext: Object.preventExtensions({a: 1}),
  arrlen: (function () { var a = [1, 2, 3]; a.length = 1; return a; })(),
  big: new Array(4294967295),
  dateutc: new Date(Date.UTC(2000, 0, 1))
}`

const walkerJS = `(function (global, spec) {
  var gOPN = Object.getOwnPropertyNames, gOPD = Object.getOwnPropertyDescriptor,
      gPO = Object.getPrototypeOf, ots = Object.prototype.toString, isExt = Object.isExtensible;
  var SEP = "\u0001", out = [];
  var buckets = {}, objs = [], paths = [];
  function isObj(v) { return v !== null && (typeof v === "object" || typeof v === "function"); }
  function keyOf(o) {
    var k;
    try { k = typeof o + ots.call(o) + gOPN(o).length; } catch (e) { k = "?"; }
    if (typeof o === "function") {
      var d = gOPD(o, "name"); if (d && typeof d.value === "string") k += d.value;
      d = gOPD(o, "length"); if (d && typeof d.value === "number") k += d.value;
    }
    return "k" + k;
  }
  function find(o) {
    var b = buckets[keyOf(o)];
    if (!b) return -1;
    for (var i = 0; i < b.length; i++) if (objs[b[i]] === o) return b[i];
    return -1;
  }
  function add(o, path) {
    var k = keyOf(o);
    if (!buckets[k]) buckets[k] = [];
    buckets[k].push(objs.length);
    objs.push(o); paths.push(path);
    return objs.length - 1;
  }
  function cmp(a, b) {
    var ua = a.charAt(0) === "_", ub = b.charAt(0) === "_";
    if (ua !== ub) return ua ? 1 : -1;
    return a < b ? -1 : (a > b ? 1 : 0);
  }
  function names(o) { return gOPN(o).sort(cmp); }
  // a Go panic inside the reflection call surfaces in a script try/catch as an exception
  // (binding the foreign panic value to the catch variable fails in turn, hence the second try)
  function desc(o, n) { try { try { return gOPD(o, n); } catch (e) { return "threw"; } } catch (e2) { return "threw"; } }
  function join(p, n) { return p === "global" ? n : p + "." + n; }
  add(global, "global");
  if (spec) add(spec, "spec");
  var head = 0, scanned = 0;
  for (;;) {
    while (head < objs.length) {
      var o = objs[head], p = paths[head]; head++;
      var ns = names(o);
      for (var i = 0; i < ns.length; i++) {
        var d = desc(o, ns[i]);
        if (!d || d === "threw") continue;
        if ("value" in d) { if (isObj(d.value) && find(d.value) < 0) add(d.value, join(p, ns[i])); }
        else {
          if (isObj(d.get) && find(d.get) < 0) add(d.get, join(p, ns[i]) + ".[[Get]]");
          if (isObj(d.set) && find(d.set) < 0) add(d.set, join(p, ns[i]) + ".[[Set]]");
        }
      }
    }
    var grew = false;
    for (; scanned < objs.length && !grew; scanned++) {
      var pr = gPO(objs[scanned]);
      if (pr !== null && find(pr) < 0) { add(pr, paths[scanned] + ".[[Prototype]]"); grew = true; }
    }
    if (!grew) break;
  }
  function val(v) {
    if (v === undefined) return "u" + SEP;
    if (v === null) return "l" + SEP;
    if (typeof v === "boolean") return "b" + SEP + v;
    if (typeof v === "number") return "n" + SEP + (v === 0 && 1 / v < 0 ? "-0" : String(v));
    if (typeof v === "string") return "s" + SEP + v;
    var i = find(v);
    return "o" + SEP + (i < 0 ? "?unreached" : paths[i]);
  }
  function prim(o) {
    var c = ots.call(o);
    try {
      if (c === "[object Number]") return val(Number.prototype.valueOf.call(o));
      if (c === "[object String]") return val(String.prototype.valueOf.call(o));
      if (c === "[object Boolean]") return val(Boolean.prototype.valueOf.call(o));
      if (c === "[object Date]") return val(Date.prototype.getTime.call(o));
    } catch (e) { return "s" + SEP + "!threw"; }
    return "u" + SEP;
  }
  for (var k = 0; k < objs.length; k++) {
    var o = objs[k], p = paths[k];
    var cls = ots.call(o);
    out.push(["O", p, typeof o, cls.substring(8, cls.length - 1), val(gPO(o)), isExt(o), prim(o)].join(SEP));
    var ns = names(o);
    for (var i = 0; i < ns.length; i++) {
      var d = desc(o, ns[i]);
      if (!d || d === "threw") { out.push(["P", p, ns[i], "?"].join(SEP)); continue; }
      if ("value" in d) out.push(["P", p, ns[i], "D", val(d.value), val(undefined), d.writable, d.enumerable, d.configurable].join(SEP));
      else out.push(["P", p, ns[i], "A", val(d.get), val(d.set), false, d.enumerable, d.configurable].join(SEP));
    }
  }
  return out.join("\u0002");
})`

// ---- Go-side representation of a dump ----

type jval struct {
	Tag string // u l b n s o
	Txt string
}

type jobj struct {
	Path, Typeof, Class string
	Proto               jval
	Ext                 bool
	Prim                jval
}

type jprop struct {
	Owner, Name string
	Acc         bool
	Val, Set    jval // Val doubles as the getter for accessors
	W, E, C     bool
	Bad         bool
}

type dump struct {
	Objs  []jobj
	Props []jprop
}

// takeDump runs the walker on vm.  withSpec: also walk freshly made specimens
// (created inside the walker call, never bound to a global name).
func takeDump(vm *otto.Otto, withSpec bool) (*dump, error) {
	spec := "null"
	if withSpec {
		spec = "(" + specimenJS + ")"
		if e := os.Getenv("C14_SPEC"); e != "" {
			spec = "(" + e + ")"
		}
	}
	src := walkerJS + "(this, " + spec + ")"
	o := RunJS(vm, src)
	if o.Panic != nil {
		return nil, fmt.Errorf("walker: Go panic escaped: %v", o.Panic)
	}
	if o.Err != nil {
		return nil, fmt.Errorf("walker: %v", o.Err)
	}
	if !o.Val.IsString() {
		return nil, fmt.Errorf("walker: result is not a string")
	}
	return parseDump(o.Val.String())
}

func parseDump(s string) (*dump, error) {
	d := &dump{}
	for _, rec := range strings.Split(s, "\x02") {
		f := strings.Split(rec, "\x01")
		switch f[0] {
		case "O":
			if len(f) != 9 {
				return nil, fmt.Errorf("bad O record %q", rec)
			}
			d.Objs = append(d.Objs, jobj{Path: f[1], Typeof: f[2], Class: f[3], Proto: jval{f[4], f[5]}, Ext: f[6] == "true", Prim: jval{f[7], f[8]}})
		case "P":
			if len(f) == 4 {
				d.Props = append(d.Props, jprop{Owner: f[1], Name: f[2], Bad: true})
				continue
			}
			if len(f) != 11 {
				return nil, fmt.Errorf("bad P record %q", rec)
			}
			d.Props = append(d.Props, jprop{Owner: f[1], Name: f[2], Acc: f[3] == "A", Val: jval{f[4], f[5]}, Set: jval{f[6], f[7]},
				W: f[8] == "true", E: f[9] == "true", C: f[10] == "true"})
		default:
			return nil, fmt.Errorf("bad record %q", rec)
		}
	}
	return d, nil
}

// ---- Coq printers for the dump ----

// Coq string literal of a JS string: backslash doubled, everything outside
// printable ASCII as \uXXXX per UTF-16 unit (injective), quote doubled for Coq.
func cstrLit(s string) string {
	var b strings.Builder
	b.WriteByte('"')
	for _, u := range Units(s) {
		switch {
		case u == '\\':
			b.WriteString("\\\\")
		case u == '"':
			b.WriteString("\"\"")
		case u >= 0x20 && u <= 0x7e:
			b.WriteByte(byte(u))
		default:
			fmt.Fprintf(&b, "\\u%04X", u)
		}
	}
	b.WriteByte('"')
	return b.String()
}

// Interning: every distinct string becomes one top-level Definition of
// Observed.v (string literals are by far the most expensive thing for coqc to
// parse, and owner paths repeat for every property and in all four dumps).
var internIdx = map[string]int{}
var internOrder []string

func cstr(s string) string {
	i, ok := internIdx[s]
	if !ok {
		i = len(internOrder)
		internIdx[s] = i
		internOrder = append(internOrder, s)
	}
	return fmt.Sprintf("s%d", i)
}

func internDefs(b *strings.Builder) {
	for i, s := range internOrder {
		fmt.Fprintf(b, "Definition s%d := %s.\n", i, cstrLit(s))
	}
	b.WriteString("\n")
}

func numBits(txt string) string {
	var f float64
	switch txt {
	case "NaN":
		f = math.NaN()
	case "Infinity":
		f = math.Inf(1)
	case "-Infinity":
		f = math.Inf(-1)
	case "-0":
		f = math.Copysign(0, -1)
	default:
		v, err := strconv.ParseFloat(txt, 64)
		if err != nil {
			return "(-1)" // unparseable number text: can never equal a table value
		}
		f = v
	}
	return Cdouble(f)
}

func (v jval) coq() string {
	switch v.Tag {
	case "u":
		return "VUndef"
	case "l":
		return "VNull"
	case "b":
		return "(VBool " + v.Txt + ")"
	case "n":
		return "(VNum " + numBits(v.Txt) + ")"
	case "s":
		return "(VStr " + cstr(v.Txt) + ")"
	case "o":
		return "(VObj " + cstr(v.Txt) + ")"
	}
	return "VUndef"
}

func (o jobj) coq() string {
	return fmt.Sprintf("mkObj %s %s %s %s %s %s", cstr(o.Path), cstr(o.Typeof), cstr(o.Class), o.Proto.coq(), Cbool(o.Ext), o.Prim.coq())
}

func (p jprop) coq() string {
	if p.Bad {
		return fmt.Sprintf("mkProp %s %s PBroken VUndef VUndef false false false", cstr(p.Owner), cstr(p.Name))
	}
	k := "PData"
	if p.Acc {
		k = "PAcc"
	}
	return fmt.Sprintf("mkProp %s %s %s %s %s %s %s %s", cstr(p.Owner), cstr(p.Name), k, p.Val.coq(), p.Set.coq(), Cbool(p.W), Cbool(p.E), Cbool(p.C))
}

func (o jobj) line() string {
	return fmt.Sprintf("O %s typeof=%s class=%s proto=%s:%s ext=%v prim=%s:%s", o.Path, o.Typeof, o.Class, o.Proto.Tag, o.Proto.Txt, o.Ext, o.Prim.Tag, o.Prim.Txt)
}

func (p jprop) line() string {
	if p.Bad {
		return fmt.Sprintf("P %s / %s no-descriptor", p.Owner, p.Name)
	}
	k := "data"
	if p.Acc {
		k = "accessor"
	}
	return fmt.Sprintf("P %s / %s %s val=%s:%s set=%s:%s w=%v e=%v c=%v", p.Owner, p.Name, k, p.Val.Tag, p.Val.Txt, p.Set.Tag, p.Set.Txt, p.W, p.E, p.C)
}

func chunked(b *strings.Builder, name, typ string, items []string) {
	const per = 150
	var parts []string
	for i := 0; i < len(items); i += per {
		end := i + per
		if end > len(items) {
			end = len(items)
		}
		pn := fmt.Sprintf("%s_%d", name, i/per)
		fmt.Fprintf(b, "Definition %s : list %s := [\n  %s\n].\n", pn, typ, strings.Join(items[i:end], ";\n  "))
		parts = append(parts, pn)
	}
	if len(parts) == 0 {
		fmt.Fprintf(b, "Definition %s : list %s := [].\n", name, typ)
		return
	}
	fmt.Fprintf(b, "Definition %s : list %s := %s.\n", name, typ, strings.Join(parts, " ++ "))
}

func (d *dump) coq(b *strings.Builder, name string) {
	os := make([]string, len(d.Objs))
	for i, o := range d.Objs {
		os[i] = o.coq()
	}
	ps := make([]string, len(d.Props))
	for i, p := range d.Props {
		ps[i] = p.coq()
	}
	chunked(b, name+"_objs", "obj", os)
	chunked(b, name+"_props", "prop", ps)
	fmt.Fprintf(b, "Definition %s : dump := mkDump %s_objs %s_props.\n\n", name, name, name)
}

// lines of a dump, sorted, for diffing two dumps in Go (history checks)
func (d *dump) lines() []string {
	var ls []string
	for _, o := range d.Objs {
		ls = append(ls, o.line())
	}
	for _, p := range d.Props {
		ls = append(ls, p.line())
	}
	sort.Strings(ls)
	return ls
}

func diffLines(a, b []string) (onlyA, onlyB []string) {
	i, j := 0, 0
	for i < len(a) || j < len(b) {
		switch {
		case j >= len(b) || (i < len(a) && a[i] < b[j]):
			onlyA = append(onlyA, a[i])
			i++
		case i >= len(a) || b[j] < a[i]:
			onlyB = append(onlyB, b[j])
			j++
		default:
			i++
			j++
		}
	}
	return
}
