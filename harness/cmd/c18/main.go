// c18: interrupts and abnormal exits.  MiniJS programs (coq/C01 Sem/Lang) are
// run with an interrupt function that re-arms itself at every polling point
// and panics at exactly poll k; every k of a small program is enumerated.
// Observed per (program, k): host-call log, how Run ended, scope depth and
// pending labels at rest (verif hooks), globals seen by a follow-up script.
// Also: host-function panics at the j-th call, stack limits L x depths d (small, and around the widths a narrowed
// depth counter would wrap at: deep chains run in child processes), host panics travelling through Go host functions
// that call script callbacks (BCase).
package main

import (
	"context"
	"errors"
	"fmt"
	"math"
	"os"
	"os/exec"
	"runtime/debug"
	"strings"
	"time"

	"github.com/robertkrimen/otto"
	. "ottoh/lib"
	"ottoh/minijs"
)

const haltMsg = "halt!"

type run struct {
	log      []string
	kind     int // 0 normal, 1 returned, 2 threw, 3 weird
	val      string
	asPanic  bool
	polls    int
	depth    int
	global   bool
	labels   int
	globals  []string
	followup bool
	note     string
}

func valTerm(v otto.Value) string {
	switch {
	case v.IsUndefined():
		return "VUndef"
	case v.IsBoolean():
		b, _ := v.ToBoolean()
		return "(VBool " + Cbool(b) + ")"
	case v.IsNumber():
		f, _ := v.ToFloat()
		if math.IsNaN(f) {
			return "VNaN"
		}
		if f == math.Trunc(f) && math.Abs(f) < 9007199254740992 {
			return "(VNum " + Cz(int64(f)) + ")"
		}
		return "VBig"
	case v.IsString():
		if v.String() == haltMsg {
			return "VHalt"
		}
	case v.IsObject():
		if v.Class() == "Error" {
			if n, err := v.Object().Get("name"); err == nil && n.String() == "ReferenceError" {
				return "VRefErr"
			}
		}
	}
	return "VOther"
}

func errTerm(err error) string {
	if oe, ok := err.(*otto.Error); ok {
		if strings.HasPrefix(oe.Error(), "ReferenceError") {
			return "VRefErr"
		}
		return "VOther"
	}
	s := err.Error()
	switch s {
	case haltMsg:
		return "VHalt"
	case "undefined":
		return "VUndef"
	case "true":
		return "(VBool true)"
	case "false":
		return "(VBool false)"
	case "NaN":
		return "VNaN"
	}
	var n int64
	if _, e := fmt.Sscanf(s, "%d", &n); e == nil && fmt.Sprintf("%d", n) == s {
		return "(VNum " + Cz(n) + ")"
	}
	return "VOther"
}

func (r *run) String() string {
	return fmt.Sprintf("log=[%s] outcome=%d %s asPanic=%v polls=%d depth=%d/%v labels=%d globals=[%s] followup=%v %s",
		strings.Join(r.log, ","), r.kind, r.val, r.asPanic, r.polls, r.depth, r.global, r.labels, strings.Join(r.globals, ","), r.followup, r.note)
}

func outcomeCoq(r *run) string {
	switch r.kind {
	case 0:
		return "ONormal"
	case 1:
		return "(OReturned " + r.val + ")"
	case 2:
		return "(OThrew " + r.val + ")"
	}
	return "OLeak"
}

// run with follow-up observation
func observe(src string, inFunc bool, k, hostPanicAt int) *run {
	return observeVia(src, inFunc, k, hostPanicAt, 0)
}

// entry 0: Run(src) with the Interrupt channel installed beforehand;
// entry 2: the function is defined by a first Run, THEN the channel is installed, then main is entered through Value.Call
func observeVia(src string, inFunc bool, k, hostPanicAt int, entry int) *run {
	r := &run{}
	vm := otto.New()
	done := false
	calls := 0
	_ = vm.Set("log", func(call otto.FunctionCall) otto.Value {
		calls++
		r.log = append(r.log, valTerm(call.Argument(0)))
		if calls == hostPanicAt {
			panic(haltMsg)
		}
		return otto.UndefinedValue()
	})
	_ = vm.Set("__done", func(call otto.FunctionCall) otto.Value {
		kk, _ := call.Argument(0).ToInteger()
		r.kind = int(kk)
		r.val = valTerm(call.Argument(1))
		done = true
		return otto.UndefinedValue()
	})
	_ = vm.Set("__probe", func(call otto.FunctionCall) otto.Value {
		r.globals = nil
		for i := 0; i < 4; i++ {
			r.globals = append(r.globals, valTerm(call.Argument(i)))
		}
		return otto.UndefinedValue()
	})
	vm.Interrupt = make(chan func(), 1)
	var f func()
	f = func() {
		r.polls++
		if r.polls == k {
			panic(haltMsg)
		}
		vm.Interrupt <- f
	}
	var out Outcome
	if entry == 2 {
		vm.Interrupt = nil
		def := src[:strings.Index(src, "var __r = main();")]
		if o0 := RunJS(vm, def); o0.Err != nil || o0.Panic != nil {
			r.kind, r.note = 3, "definition run failed"
			return r
		}
		vm.Interrupt = make(chan func(), 1)
		vm.Interrupt <- f
		out = Guard(func() (otto.Value, error) {
			fn, err := vm.Get("main")
			if err != nil {
				return otto.Value{}, err
			}
			v, err := fn.Call(otto.UndefinedValue())
			if err == nil {
				r.kind, r.val, done = 1, valTerm(v), true
			}
			return v, err
		})
	} else {
		vm.Interrupt <- f
		out = RunJS(vm, src)
	}
	switch {
	case out.Panic != nil:
		if s, ok := out.Panic.(string); ok && s == haltMsg {
			r.kind, r.val, r.asPanic = 2, "VHalt", true
		} else {
			r.kind, r.note = 3, fmt.Sprintf("foreign Go panic escaped: %v", out.Panic)
		}
	case out.Err != nil:
		r.kind, r.val = 2, errTerm(out.Err)
	case inFunc:
		if !done {
			r.kind, r.note = 3, "wrapper did not complete"
		}
	default:
		r.kind = 0
	}
	r.depth, r.global = vm.VerifScopeDepth()
	r.labels = vm.VerifLabelCount()
	select {
	case <-vm.Interrupt:
	default:
	}
	vm.Interrupt = nil
	fo := Guard(func() (otto.Value, error) {
		return vm.Run(`(function(){ var g = this; __probe(g.v0, g.v1, g.v2, g.v3); function f(n){ return n > 0 ? f(n - 1) + 1 : 0; } return f(20) * 2 + 2; })()`)
	})
	if fo.Panic == nil && fo.Err == nil {
		if n, err := fo.Val.ToInteger(); err == nil && n == 42 {
			r.followup = true
		}
	}
	return r
}

func progJS(p minijs.Program) string {
	if !p.InFunc {
		return p.JS()
	}
	// function mode WITHOUT a try wrapper: an interrupt must unwind through the call
	js := p.JS()
	i := strings.Index(js, "var __k = 0, __r;")
	return js[:i] + "var __r = main();\n__done(1, __r);\n"
}

func main() {
	if spec := os.Getenv(childEnv); spec != "" {
		stackChild(spec)
		return
	}
	env := FromFlags("c18")
	env.Import = "Otto.C18.Corr"
	env.Rule = "MiniJS programs (70% without try), global and function mode; for each program the interrupt is injected at EVERY polling point k = 1..N (N <= 40 quick / 250 thorough; a seeded sample of 12 points beyond that), plus host-function panics at the j-th call, stack limits L in 1..8 x depths 0..L+2 and around 2^7, 2^8, 2^15, 2^16 and 70000 (the deep ones in child processes), and host panics below 19 kinds of Go host functions that call script callbacks x 6 faults x no try / try-catch / try-finally / both around the call x 6 kinds of panic value (BCase); stack limits also in copies, changed and lifted; non-trivial = distinct (program, k) with 1 < k < N"
	maxAll := 40
	if env.Tier == "thorough" {
		maxAll = 250
	}
	progs := 0
	// stack limits first (cheap, exhaustive); the deep ones run in child processes, started now and collected at the end
	deep := startDeepStack()
	for L := 1; L <= 8; L++ {
		for d := 0; d <= L+2; d++ {
			addStack(env, runStack(0, L, d), d >= L-1 && d <= L+1)
		}
	}
	// the limit is a setting of the runtime: a Copy() has it too, a copy can be given its own, it can be changed and lifted
	for via := 1; via <= 6; via++ {
		for _, L := range []int{1, 2, 3, 5, 8, 50} {
			for d := L - 2; d <= L+2; d++ {
				if d >= 0 {
					addStack(env, runStackVia(0, L, d, via), true)
				}
			}
		}
		for shape := 1; shape <= 4; shape++ {
			for _, L := range []int{2, 4, 7} {
				for d := 1; d <= 4; d++ {
					addStack(env, runStackVia(shape, L, d, via), true)
				}
			}
		}
	}
	// the widths a narrowed depth counter would wrap at (8 bits; 16 bits: deep, see startDeepStack) and a few more
	for _, L := range []int{127, 128, 129, 255, 256, 257, 300, 1000} {
		for d := L - 2; d <= L+1; d++ {
			addStack(env, runStack(0, L, d), true)
		}
	}
	// the same with built-in (native) frames in the chain: they count against the limit like script frames
	for shape := 1; shape <= 4; shape++ {
		for L := 1; L <= 9; L++ {
			for d := 1; d <= L+2; d++ {
				if shape >= 2 && d > 4 {
					continue
				}
				addStack(env, runStack(shape, L, d), true)
			}
		}
	}
	for _, L := range []int{129, 257, 301} {
		// frames: shape 1 = d, shape 2 = 1 + 3d, shapes 3 and 4 = 3d + 1
		for _, d := range []int{L - 1, L} {
			addStack(env, runStack(1, L, d), true)
		}
		for shape := 2; shape <= 4; shape++ {
			for _, d := range []int{(L - 2) / 3, (L-2)/3 + 1} {
				addStack(env, runStack(shape, L, d), true)
			}
		}
	}
	// promptness: programs that would run forever must be stopped by one interrupt sent from another goroutine
	spinners := []string{
		`for (;;) {}`, `for (;;);`, `while (true) {}`, `while (true);`, `do {} while (true);`, `do ; while (true);`,
		`var i = 0; for (;;) { i++; }`, `a: for (;;) { b: for (;;) { continue a; } }`,
		`function f() { for (;;) {} } f();`, `function f(n) { while (true) { if (n > 50) { n = 0; } n++; } } f(0);`,
		`[1, 2, 3].forEach(function () { while (true) {} });`, `[3, 1, 2].sort(function (a, b) { while (true) {} });`,
		`"abc".replace(/b/, function () { for (;;) {} });`, `[1, 2].map(function () { do {} while (true); });`,
		`var o = { valueOf: function () { for (;;) {} } }; o + 1;`, `var o = { get x() { while (true) {} } }; o.x;`,
		`for (var k in { a: 1, b: 2 }) { for (;;) {} }`, `switch (1) { case 1: for (;;) {} }`,
		`L: { for (;;) { if (false) { break L; } } }`, `var f = function () { for (;;) {} }; f.call(null);`,
		`new (function () { while (true) {} })();`, `[1].reduce(function () { for (;;) {} }, 0);`,
		`JSON.stringify({ toJSON: function () { for (;;) {} } });`, `with ({}) { for (;;) {} }`,
	}
	for i, src := range spinners {
		vm := otto.New()
		if i%2 == 0 {
			vm.Interrupt = make(chan func(), 1)
		} else {
			vm.Interrupt = make(chan func()) // unbuffered: the send completes only when the interpreter receives it
		}
		type res struct {
			o Outcome
		}
		ch := make(chan res, 1)
		go func() { ch <- res{RunJS(vm, src)} }()
		time.Sleep(20 * time.Millisecond)
		go func() {
			select {
			case vm.Interrupt <- func() { panic(haltMsg) }:
			case <-time.After(5 * time.Second):
			}
		}()
		stopped, asPanic, rest := false, false, false
		select {
		case r := <-ch:
			stopped = true
			if s, ok := r.o.Panic.(string); ok && s == haltMsg {
				asPanic = true
			}
			d, _ := vm.VerifScopeDepth()
			rest = d == -1 && vm.VerifLabelCount() == 0
			if rest {
				vm.Interrupt = nil
				fo := RunJS(vm, `6 * 7`)
				n, _ := fo.Val.ToInteger()
				rest = fo.Err == nil && fo.Panic == nil && n == 42
			}
		case <-time.After(4 * time.Second):
		}
		env.Add(fmt.Sprintf("LCase %d %s %s %s", i, Cbool(stopped), Cbool(asPanic), Cbool(rest)),
			fmt.Sprintf("LCase spinner %q interrupted after 20ms: stopped=%v asPanic=%v restAndFollowup=%v", src, stopped, asPanic, rest), "promptness", true)
	}
	// the same through the other entry points, with the channel installed only after a first Run
	for i, how := range []string{"Otto.Call", "Value.Call", "Object.Call", "Otto.Eval"} {
		vm := otto.New()
		_, _ = vm.Run(`function spin() { for (;;) {} } var holder = { spin: spin };`)
		vm.Interrupt = make(chan func(), 1)
		ch := make(chan Outcome, 1)
		go func() {
			ch <- Guard(func() (otto.Value, error) {
				switch how {
				case "Otto.Call":
					return vm.Call("spin", nil)
				case "Value.Call":
					fn, _ := vm.Get("spin")
					return fn.Call(otto.UndefinedValue())
				case "Object.Call":
					h, _ := vm.Get("holder")
					return h.Object().Call("spin")
				}
				return vm.Eval("spin()")
			})
		}()
		time.Sleep(20 * time.Millisecond)
		vm.Interrupt <- func() { panic(haltMsg) }
		stopped, asPanic, rest := false, false, false
		select {
		case o := <-ch:
			stopped = true
			if s, ok := o.Panic.(string); ok && s == haltMsg {
				asPanic = true
			}
			d, _ := vm.VerifScopeDepth()
			rest = d == -1 && vm.VerifLabelCount() == 0
		case <-time.After(4 * time.Second):
		}
		env.Add(fmt.Sprintf("LCase %d %s %s %s", 100+i, Cbool(stopped), Cbool(asPanic), Cbool(rest)),
			fmt.Sprintf("LCase spinner entered through %s, Interrupt channel installed after a first Run: stopped=%v asPanic=%v rest=%v", how, stopped, asPanic, rest), "promptness", true)
	}
	// one runtime interrupted several times in a row: every interrupt must be honoured (nothing left behind by the
	// previous one), through Run and through a re-entrant Run made by a host function
	{
		vm := otto.New()
		ich := make(chan func(), 1)
		vm.Interrupt = ich
		_ = vm.Set("nest", func(c otto.FunctionCall) otto.Value { v, _ := vm.Run(c.Argument(0).String()); return v })
		allStopped, allPanic := true, true
		for round, src := range []string{`for (;;) {}`, `while (true) {}`, `nest("for (;;) {}")`, `function s() { for (;;) {} } s();`} {
			_ = round
			ch := make(chan Outcome, 1)
			go func() { ch <- RunJS(vm, src) }()
			time.Sleep(15 * time.Millisecond)
			select {
			case ich <- func() { panic(haltMsg) }:
			case <-time.After(2 * time.Second):
			}
			select {
			case o := <-ch:
				if s2, ok := o.Panic.(string); !ok || s2 != haltMsg {
					allPanic = false
				}
			case <-time.After(3 * time.Second):
				allStopped = false
			}
			if !allStopped {
				break
			}
		}
		d, _ := vm.VerifScopeDepth()
		rest := allStopped && d == -1 && vm.VerifLabelCount() == 0
		env.Add(fmt.Sprintf("LCase %d %s %s %s", 210, Cbool(allStopped), Cbool(allPanic), Cbool(rest)),
			fmt.Sprintf("LCase four non-terminating scripts in a row on ONE runtime, each interrupted once: all stopped=%v all with the host's panic=%v atRest=%v", allStopped, allPanic, rest), "repeat-interrupt", true)
	}
	// an interrupt that arrives after the last polling point of a nested Run (made by a host function) still belongs
	// to the runtime: the outer script must be stopped by it
	{
		vm := otto.New()
		ich := make(chan func(), 1)
		vm.Interrupt = ich
		_ = vm.Set("arm", func(c otto.FunctionCall) otto.Value { ich <- func() { panic(haltMsg) }; return otto.UndefinedValue() })
		_ = vm.Set("nest", func(c otto.FunctionCall) otto.Value { v, _ := vm.Run(c.Argument(0).String()); return v })
		ch := make(chan Outcome, 1)
		go func() {
			ch <- RunJS(vm, `var after = 0; nest("arm()"); for (;;) { after++; if (after > 2000000) { break; } } after`)
		}()
		stopped, asPanic, rest := false, false, false
		select {
		case o := <-ch:
			stopped = true
			s2, ok := o.Panic.(string)
			asPanic = ok && s2 == haltMsg
			d, _ := vm.VerifScopeDepth()
			rest = d == -1 && vm.VerifLabelCount() == 0
		case <-time.After(20 * time.Second):
		}
		env.Add(fmt.Sprintf("LCase %d %s %s %s", 211, Cbool(stopped), Cbool(asPanic), Cbool(rest)),
			fmt.Sprintf("LCase interrupt queued by the last call of a nested Run: outer script stopped=%v with the host's panic=%v atRest=%v", stopped, asPanic, rest), "nested-run-interrupt", true)
	}
	// an interrupt queued for one runtime is consumed by that runtime only: a Copy() (or a copy of a copy) that
	// runs a script in between must neither take it nor be stopped by it
	for i, depth := range []int{1, 2} {
		vm := otto.New()
		_, _ = vm.Run(`var seen = 0; function spin() { for (;;) { seen = 1; } }`)
		ich := make(chan func(), 1)
		vm.Interrupt = ich
		cp := vm.Copy()
		if depth == 2 {
			cp = cp.Copy()
		}
		ich <- func() { panic(haltMsg) }
		co := RunJS(cp, `var t = 0; for (var i = 0; i < 50; i++) { t += i; } t`)
		n, _ := co.Val.ToInteger()
		copyOK := co.Err == nil && co.Panic == nil && n == 1225
		ch := make(chan Outcome, 1)
		go func() { ch <- RunJS(vm, `spin()`) }()
		stopped, asPanic, rest := false, false, false
		select {
		case o := <-ch:
			stopped = true
			if s, ok := o.Panic.(string); ok && s == haltMsg {
				asPanic = true
			}
			d, _ := vm.VerifScopeDepth()
			rest = copyOK && d == -1 && vm.VerifLabelCount() == 0
		case <-time.After(3 * time.Second):
			// the interrupt went elsewhere: stop the spinner so that the harness can go on
			select {
			case ich <- func() { panic(haltMsg) }:
				<-ch
			case <-time.After(2 * time.Second):
			}
		}
		env.Add(fmt.Sprintf("LCase %d %s %s %s", 200+i, Cbool(stopped), Cbool(asPanic), Cbool(rest)),
			fmt.Sprintf("LCase interrupt queued for the original while a copy (depth %d) runs a script: copy unaffected=%v; original stopped=%v asPanic=%v", depth, copyOK, stopped, asPanic), "copy-channel", true)
	}
	// a host function that panics at unusual points of the interpreter (conversions run by the host boundary itself,
	// accessors, callbacks of built-ins, nested entry points): Run must unwind with THAT panic and be at rest
	for i, src := range []string{
		`throw { toString: function () { boom(); return "x"; } };`,
		`throw { name: "E", get message() { boom(); return "m"; }, toString: function () { return this.name + this.message; } };`,
		`var o = { valueOf: function () { boom(); return 1; } }; o + 1;`,
		`({ get x() { boom(); return 1; } }).x;`,
		`var q = {}; Object.defineProperty(q, "y", { set: function (v) { boom(); } }); q.y = 1;`,
		`[1].forEach(function () { boom(); });`,
		`[2, 1].sort(function (a, b) { boom(); return 0; });`,
		`JSON.stringify({ toJSON: function () { boom(); } });`,
		`"a".replace(/a/, function () { boom(); return "b"; });`,
		`eval("boom()");`, `(0, eval)("boom()");`, `new Function("boom()")();`,
		`String({ toString: function () { boom(); } });`,
		`new Error({ toString: function () { boom(); return "e"; } });`,
		`function F() { boom(); } new F();`, `(function () { boom(); }).call(null);`, `(function () { boom(); }).bind(null)();`,
		`for (var k in { a: 1 }) { boom(); }`, `switch (boom()) { case 1: }`, `with ({}) { boom(); }`,
	} {
		vm := otto.New()
		_ = vm.Set("boom", func(c otto.FunctionCall) otto.Value { panic(haltMsg) })
		o := RunJS(vm, src)
		s2, isStr := o.Panic.(string)
		asPanic := isStr && s2 == haltMsg
		d, _ := vm.VerifScopeDepth()
		fo := RunJS(vm, `6 * 7`)
		n, _ := fo.Val.ToInteger()
		rest := d == -1 && vm.VerifLabelCount() == 0 && fo.Err == nil && fo.Panic == nil && n == 42
		env.Add(fmt.Sprintf("LCase %d %s %s %s", 300+i, Cbool(true), Cbool(asPanic), Cbool(rest)),
			fmt.Sprintf("LCase host panic raised in %q: unwound with the host's panic=%v (got panic=%v err=%v) atRestAndFollowup=%v", src, asPanic, o.Panic, o.Err, rest), "host-panic-points", true)
	}
	// script-level errors raised inside nested entry points (eval, indirect eval, Function, JSON.parse, RegExp), caught
	// and uncaught: afterwards the call stack is back at rest and the stack limit admits the same nesting as before
	for i, inner := range []string{
		`(0, eval)("(")`, `eval("(")`, `Function("(")`, `new Function("a b")`, `JSON.parse("{")`, `new RegExp("(")`,
		`(0, eval)("throw 1")`, `(0, eval)("nowhere()")`, `eval("nowhere()")`, `(0, eval)("var x = ;")`, `Function("return nowhere()")()`,
		`(0, eval)("(0, eval)('(')")`,
	} {
		for v, src := range []string{inner + ";", "try { " + inner + "; } catch (e) { }", "function h() { try { " + inner + "; } catch (e) { return 1; } } h(); h();"} {
			vm := otto.New()
			vm.SetStackDepthLimit(8)
			_ = RunJS(vm, src)
			_ = RunJS(vm, src)
			d, _ := vm.VerifScopeDepth()
			pr := RunJS(vm, `function f(n) { return n > 1 ? f(n - 1) + 1 : 1; } var a = f(7), b; try { f(8); b = "none"; } catch (e) { b = e.name; } a + "," + b`)
			rest := d == -1 && vm.VerifLabelCount() == 0 && pr.Err == nil && pr.Panic == nil && pr.Val.String() == "7,RangeError"
			env.Add(fmt.Sprintf("LCase %d %s %s %s", 400+3*i+v, Cbool(true), Cbool(true), Cbool(rest)),
				fmt.Sprintf("LCase error inside a nested entry point, twice: %q: depthAtRest=%d, then f(7),f(8) under limit 8 -> %v", src, d, pr.Val), "nested-entry-errors", true)
		}
	}
	withScenarios(env)
	bridgeScenarios(env)
	for env.Count() < env.N {
		budget := 4 + env.Rng.Intn(14)
		if env.Tier == "thorough" {
			budget = 4 + env.Rng.Intn(40)
		}
		nonwf := 0
		p := minijs.Generate(env.Rng, budget, env.Rng.Intn(5) < 2, nonwf)
		if env.Rng.Intn(10) < 7 {
			p = stripTry(p)
		}
		src := progJS(p)
		entry := 0
		if p.InFunc && env.Rng.Intn(2) == 0 {
			entry = 2 // the Interrupt channel is installed after a first Run, main entered through Value.Call
		}
		base := observeVia(src, p.InFunc, 0, 0, entry)
		progs++
		N := base.polls
		var ks []int
		if N <= maxAll {
			for k := 1; k <= N; k++ {
				ks = append(ks, k)
			}
		} else {
			for i := 0; i < 12; i++ {
				ks = append(ks, 1+env.Rng.Intn(N))
			}
		}
		mode := "0"
		if p.InFunc {
			mode = "1"
		}
		if entry == 2 {
			mode = "2"
		}
		bucket := "interrupt-global"
		if p.InFunc {
			bucket = "interrupt-function"
		}
		if entry == 2 {
			bucket = "interrupt-late-channel-value-call"
		}
		emit := func(kind string, k int, r *run) {
			gl := r.globals
			if p.InFunc || gl == nil {
				gl = []string{}
			}
			coq := fmt.Sprintf("%s %s %s %d %d %s %s %s %s %d %s %s", kind, mode, p.Coq(), k, N, Clist(r.log), outcomeCoq(r), Cbool(r.asPanic), Cz(int64(r.depth)), r.labels, Clist(gl), Cbool(r.followup))
			txt := fmt.Sprintf("%s k=%d of %d: %s => %s", kind, k, N, src, r.String())
			env.Add(coq, txt, bucket, k > 1 && k < N)
		}
		emit("HCase", 0, base)
		for _, k := range ks {
			emit("HCase", k, observeVia(src, p.InFunc, k, 0, entry))
		}
		// host-function panic at the j-th call of log
		nlog := len(base.log)
		for j := 1; j <= nlog && j <= 6; j++ {
			r := observeVia(src, p.InFunc, 0, j, entry)
			gl := r.globals
			if p.InFunc || gl == nil {
				gl = []string{}
			}
			coq := fmt.Sprintf("PCase %s %s %d %s %s %s %s %d %s", mode, p.Coq(), j, Clist(r.log), outcomeCoq(r), Cbool(r.asPanic), Cz(int64(r.depth)), r.labels, Cbool(r.followup))
			env.Add(coq, fmt.Sprintf("PCase host panic at call %d: %s => %s", j, src, r.String()), "hostpanic", true)
		}
	}
	collectDeepStack(env, deep)
	env.Extra["programs"] = progs
	env.Finish()
}

// stripTry replaces every try statement by its try block (as a block).
func stripTry(p minijs.Program) minijs.Program {
	p.Body = stripList(p.Body)
	return p
}
func stripList(l []minijs.Stmt) []minijs.Stmt {
	out := make([]minijs.Stmt, len(l))
	for i, s := range l {
		out[i] = stripStmt(s)
	}
	return out
}
func stripStmt(s minijs.Stmt) minijs.Stmt {
	switch t := s.(type) {
	case minijs.SBlock:
		return minijs.SBlock{L: stripList(t.L)}
	case minijs.SIf:
		r := minijs.SIf{E: t.E, A: stripStmt(t.A)}
		if t.B != nil {
			r.B = stripStmt(t.B)
		}
		return r
	case minijs.SWhile:
		return minijs.SWhile{E: t.E, Body: stripList(t.Body)}
	case minijs.SDoWhile:
		return minijs.SDoWhile{E: t.E, Body: stripList(t.Body)}
	case minijs.SFor:
		return minijs.SFor{Init: t.Init, Test: t.Test, Upd: t.Upd, Body: stripList(t.Body)}
	case minijs.SForIn:
		return minijs.SForIn{X: t.X, Src: t.Src, Body: stripList(t.Body)}
	case minijs.SSwitch:
		out := minijs.SSwitch{E: t.E}
		for _, c := range t.Cases {
			out.Cases = append(out.Cases, minijs.Clause{Test: c.Test, Body: stripList(c.Body)})
		}
		return out
	case minijs.SLabelled:
		return minijs.SLabelled{L: t.L, S: stripStmt(t.S)}
	case minijs.STry:
		return minijs.SBlock{L: stripList(t.B)}
	}
	return s
}

// ---- abnormal exits that cross a `with` statement (and nested try/finally): the scope chain must be back to the
// function's own environment when a handler in the same activation goes on. The JavaScript text really raises the
// exit (throw, ReferenceError, TypeError, stack-limit RangeError); the reference term (C01/Full.v) has `throw` at
// that point: what is logged never depends on the thrown value.
func withScenarios(env *Env) {
	cs := func(s string) string {
		parts := make([]string, len(s))
		for i := 0; i < len(s); i++ {
			parts[i] = fmt.Sprintf("%d", s[i])
		}
		return "[" + strings.Join(parts, ";") + "]"
	}
	xv := func(n string) string { return "(XVar " + cs(n) + ")" }
	num := func(n int) string { return fmt.Sprintf("(XLit (WNum %d))", n) }
	logv := func(e string) string { return "JExpr (XLog " + e + ")" }
	exits := []struct{ name, js string }{
		{"throw", "throw 5;"},
		{"stack-limit", "return boom(n + 1) + 1;"},
		{"reference-error", "nowhere();"},
		{"type-error", "var u; u();"},
	}
	wobjs := []struct{ js, coq string }{
		{"{x: 3}", "(XObj [(" + cs("x") + ", " + num(3) + ")])"},
		{"w", xv("w")},
	}
	boomCoq := "JFunDecl " + cs("boom") + " [" + cs("n") + "] [JThrow " + num(5) + "]"
	prelCoq := "JVar " + cs("x") + " (Some " + num(1) + "); JVar " + cs("w") + " (Some (XObj [(" + cs("x") + ", " + num(3) + ")])); " + boomCoq
	tailJS := "log(f()); log(x); log(w.x);"
	tailCoq := logv("(XCall "+xv("f")+" [])") + "; " + logv(xv("x")) + "; " + logv("(XGet "+xv("w")+" "+cs("x")+")")
	after := "log(x); x = 4; log(x); return x;"
	afterCoq := logv(xv("x")) + "; JExpr (XAssign " + cs("x") + " " + num(4) + "); " + logv(xv("x")) + "; JReturn (Some " + xv("x") + ")"
	callBoom := "JExpr (XCall " + xv("boom") + " [" + num(0) + "])"
	id := 0
	for _, ex := range exits {
		for _, wo := range wobjs {
			shapes := []struct{ name, js, coq string }{
				{"catch in the same function",
					"function f() { var x = 2; try { with (" + wo.js + ") { log(x); boom(0); log(9); } } catch (e) { log(7); } " + after + " }",
					"JFunDecl " + cs("f") + " [] [JVar " + cs("x") + " (Some " + num(2) + "); JTry [JWith " + wo.coq + " (JBlock [" + logv(xv("x")) + "; " + callBoom + "; " + logv(num(9)) + "])] (Some (" + cs("e") + ", [" + logv(num(7)) + "])) None; " + afterCoq + "]"},
				{"nested with + finally inside, catch in the same function",
					"function f() { var x = 2; try { with (" + wo.js + ") { with ({y: 1}) { try { boom(0); } finally { log(x); log(y); } } } } catch (e) { log(7); } " + after + " }",
					"JFunDecl " + cs("f") + " [] [JVar " + cs("x") + " (Some " + num(2) + "); JTry [JWith " + wo.coq + " (JBlock [JWith (XObj [(" + cs("y") + ", " + num(1) + ")]) (JBlock [JTry [" + callBoom + "] None (Some [" + logv(xv("x")) + "; " + logv(xv("y")) + "])])])] (Some (" + cs("e") + ", [" + logv(num(7)) + "])) None; " + afterCoq + "]"},
				{"with in a callee, catch in the caller",
					"function h() { var x = 6; with (" + wo.js + ") { log(x); boom(0); } return x; } function f() { var x = 2; try { h(); } catch (e) { log(7); } " + after + " }",
					"JFunDecl " + cs("h") + " [] [JVar " + cs("x") + " (Some " + num(6) + "); JWith " + wo.coq + " (JBlock [" + logv(xv("x")) + "; " + callBoom + "]); JReturn (Some " + xv("x") + ")]; JFunDecl " + cs("f") + " [] [JVar " + cs("x") + " (Some " + num(2) + "); JTry [JExpr (XCall " + xv("h") + " [])] (Some (" + cs("e") + ", [" + logv(num(7)) + "])) None; " + afterCoq + "]"},
				{"catch inside the with body, then go on inside it",
					"function f() { var x = 2; with (" + wo.js + ") { try { boom(0); } catch (e) { log(x); } x = 5; log(x); } " + after + " }",
					"JFunDecl " + cs("f") + " [] [JVar " + cs("x") + " (Some " + num(2) + "); JWith " + wo.coq + " (JBlock [JTry [" + callBoom + "] (Some (" + cs("e") + ", [" + logv(xv("x")) + "])) None; JExpr (XAssign " + cs("x") + " " + num(5) + "); " + logv(xv("x")) + "]); " + afterCoq + "]"},
			}
			for _, sh := range shapes {
				js := "var x = 1; var w = {x: 3};\nfunction boom(n) { " + ex.js + " }\n" + sh.js + "\n" + tailJS
				src := strings.ReplaceAll(js, "\\n", "\n")
				vm := otto.New()
				if ex.name == "stack-limit" {
					vm.SetStackDepthLimit(40 + id%9)
				}
				var log []string
				_ = vm.Set("log", func(c otto.FunctionCall) otto.Value {
					v := c.Argument(0)
					switch {
					case v.IsNumber():
						n, _ := v.ToInteger()
						log = append(log, fmt.Sprintf("(WNum %s)", Cz(n)))
					case v.IsUndefined():
						log = append(log, "WUndef")
					default:
						log = append(log, "WBig")
					}
					return otto.UndefinedValue()
				})
				o := RunJS(vm, src)
				if o.Err != nil || o.Panic != nil {
					log = append(log, "WNull") // the scenario itself must complete: anything else shows as a log mismatch
				}
				d, _ := vm.VerifScopeDepth()
				fo := RunJS(vm, `var q = 0; with ({q: 1}) { q = 2; } q`)
				n, _ := fo.Val.ToInteger()
				follow := d == -1 && vm.VerifLabelCount() == 0 && fo.Err == nil && fo.Panic == nil && n == 0
				coq := "[" + prelCoq + "; " + sh.coq + "; " + tailCoq + "]"
				env.Add(fmt.Sprintf("WCase %s %s %s", coq, Clist(log), Cbool(follow)),
					fmt.Sprintf("WCase %s / %s / with (%s): %s => log=%v atRestAndFollowup=%v", ex.name, sh.name, wo.js, strings.ReplaceAll(src, "\n", " "), log, follow), "with-exit", true)
				id++
			}
		}
	}
}

// ---- stack-limit scenarios. shape 0: d nested script calls (StackCase); shapes 1..4: see StackCase2 in coq/C18/Corr.v.
type stackObs struct {
	shape, L, d int
	call, res   string
	cls         int64
	reached     int
	depth       int
	same        bool
	note        string
}

var stackVias = []string{
	"",
	"limit set, then Copy(): run in the copy",
	"limit set, then Copy().Copy(): run in the copy of the copy",
	"Copy() first, limit set on the copy: run in the copy",
	"limit set, Copy(), the copy recurses up to its limit: then run in the original",
	"a larger limit set and reached first, then this limit set on the same runtime",
	"a limit set and reached first, then SetStackDepthLimit(0): no limit",
}

func runStack(shape, L, d int) stackObs { return runStackVia(shape, L, d, 0) }

// via: how the runtime that runs the chain got its limit (stackVias)
func runStackVia(shape, L, d, via int) stackObs {
	ob := stackObs{shape: shape, L: L, d: d, res: "!", cls: 9, note: stackVias[via]}
	vm := otto.New()
	warm := `function w(n) { return n > 1 ? w(n - 1) + 1 : 1; } var r; try { r = w(40); } catch (e) { r = e.name; } r`
	switch via {
	case 0:
		vm.SetStackDepthLimit(L)
	case 1:
		vm.SetStackDepthLimit(L)
		vm = vm.Copy()
	case 2:
		vm.SetStackDepthLimit(L)
		vm = vm.Copy().Copy()
	case 3:
		vm = vm.Copy()
		vm.SetStackDepthLimit(L)
	case 4:
		vm.SetStackDepthLimit(L)
		_ = RunJS(vm.Copy(), warm)
	case 5:
		vm.SetStackDepthLimit(L + 3)
		_ = RunJS(vm, warm)
		vm.SetStackDepthLimit(L)
	case 6:
		vm.SetStackDepthLimit(L)
		_ = RunJS(vm, warm)
		vm.SetStackDepthLimit(0)
		ob.L = 0
		ob.note += fmt.Sprintf(" (the limit before was %d)", L)
	}
	_ = vm.Set("nest", func(c otto.FunctionCall) otto.Value {
		v, err := vm.Run(c.Argument(0).String())
		if err != nil {
			r, _ := vm.ToValue("ERR:" + err.Error())
			return r
		}
		return v
	})
	decl, call := stackProg(shape, d)
	ob.call = call
	src := fmt.Sprintf(`var reached = 0; %s var caught = "none"; try { %s; } catch (e) { caught = e.name; } caught + "," + reached`, decl, call)
	o := RunJS(vm, src)
	if o.Panic == nil && o.Err == nil {
		ob.res = o.Val.String()
	}
	ob.depth, _ = vm.VerifScopeDepth()
	var caught string
	if parts := strings.Split(ob.res, ","); len(parts) == 2 {
		caught = parts[0]
		fmt.Sscanf(parts[1], "%d", &ob.reached)
	}
	switch caught {
	case "none":
		ob.cls = 0
	case "RangeError":
		ob.cls = 3
	}
	// the same call again after the RangeError must behave the same (depth restored)
	o2 := RunJS(vm, fmt.Sprintf(`var c2 = "none"; reached = 0; try { %s; } catch (e) { c2 = e.name; } c2`, call))
	ob.same = o2.Panic == nil && o2.Err == nil && o2.Val.String() == caught
	return ob
}

func stackProg(shape, d int) (string, string) {
	var decl, call string
	switch shape {
	case 0:
		decl = `function f(n){ reached++; if (n > 1) { return f(n - 1); } return 0; }`
		call = fmt.Sprintf("if (%d > 0) f(%d)", d, d)
	case 3:
		decl = `function f(n){ reached++; if (n > 0) { return (0, eval)("f(" + (n - 1) + ")"); } return 0; }`
		call = fmt.Sprintf("f(%d)", d)
	case 4:
		decl = `function f(n){ reached++; if (n > 0) { var r = nest("f(" + (n - 1) + ")"); if (typeof r === "string" && r.indexOf("ERR:RangeError") === 0) { throw new RangeError("nested"); } return r; } return 0; }`
		call = fmt.Sprintf("f(%d)", d)
	case 1:
		decl = `function f(n){ reached++; if (n > 1) { return f(n - 1); } var r = Math.abs(-1); return r; }`
		call = fmt.Sprintf("f(%d)", d-1)
		if d == 1 {
			call = "Math.abs(-1)"
		}
	default:
		decl = `function f(n){ reached++; if (n > 0) { return [n].map(g)[0]; } return 0; } function g(n){ reached++; return f(n - 1); }`
		call = fmt.Sprintf("f(%d)", d)
	}
	return decl, call
}

func addStack(env *Env, ob stackObs, nontrivial bool) {
	if ob.shape == 0 {
		env.Add(fmt.Sprintf("StackCase %d %d %s %d %s %s", ob.L, ob.d, Cz(ob.cls), ob.reached, Cz(int64(ob.depth)), Cbool(ob.same)),
			fmt.Sprintf("stack limit=%d nesting=%d -> %s depthAtRest=%d repeatSame=%v %s", ob.L, ob.d, ob.res, ob.depth, ob.same, ob.note), "stack", nontrivial)
		return
	}
	env.Add(fmt.Sprintf("StackCase2 %d %d %d %s %d %s %s", ob.shape, ob.L, ob.d, Cz(ob.cls), ob.reached, Cz(int64(ob.depth)), Cbool(ob.same)),
		fmt.Sprintf("stack limit=%d shape=%d (%s) d=%d -> %s depthAtRest=%d repeatSame=%v %s", ob.L, ob.shape, ob.call, ob.d, ob.res, ob.depth, ob.same, ob.note), "stack-native", nontrivial)
}

// Limits at and above the widths a narrowed depth counter would wrap at (15/16 bits), with nestings that reach them.
// Tens of thousands of nested interpreter calls need hundreds of MB of Go stack, and a limit that fails to fire ends
// in a fatal Go stack overflow that no recover can stop: each of these runs in a child process (this binary with
// C18_STACK_CHILD=shape,L,d), a few at a time, while the parent goes on; a child that dies is an observation (class 9).
const childEnv = "C18_STACK_CHILD"

func stackChild(spec string) {
	var shape, L, d int
	if n, _ := fmt.Sscanf(spec, "%d,%d,%d", &shape, &L, &d); n != 3 {
		os.Exit(3)
	}
	debug.SetMaxStack(3 << 30)
	ob := runStack(shape, L, d)
	fmt.Printf("RES\t%s\t%d\t%d\t%d\t%v\n", ob.res, ob.cls, ob.reached, ob.depth, ob.same)
}

type deepJob struct {
	shape, L, d int
	done        chan stackObs
}

func startDeepStack() []*deepJob {
	var jobs []*deepJob
	add := func(shape, L, d int) {
		jobs = append(jobs, &deepJob{shape: shape, L: L, d: d, done: make(chan stackObs, 1)})
	}
	for _, L := range []int{32767, 32768, 32769, 65535, 65536, 65537} {
		add(0, L, L-1)
		add(0, L, L)
	}
	add(0, 70000, 69999)
	add(0, 70000, 70000)
	add(0, 70000, 80000)
	// native frames in a deep chain: innermost (shape 1), and every third frame (shape 2: 1 + 3d frames)
	add(1, 65537, 65536)
	add(1, 65537, 65537)
	add(2, 65537, 21845)
	add(2, 65537, 21846)
	exe, err := os.Executable()
	sem := make(chan bool, 5)
	for _, j := range jobs {
		j := j
		go func() {
			sem <- true
			defer func() { <-sem }()
			ob := stackObs{shape: j.shape, L: j.L, d: j.d, res: "!", cls: 9}
			_, ob.call = stackProg(j.shape, j.d)
			if err != nil {
				ob.note = "no executable: " + err.Error()
				j.done <- ob
				return
			}
			ctx, cancel := context.WithTimeout(context.Background(), 120*time.Second)
			defer cancel()
			cmd := exec.CommandContext(ctx, exe)
			cmd.Env = append(os.Environ(), fmt.Sprintf("%s=%d,%d,%d", childEnv, j.shape, j.L, j.d))
			out, cerr := cmd.Output()
			got := false
			for _, line := range strings.Split(string(out), "\n") {
				f := strings.Split(line, "\t")
				if len(f) == 6 && f[0] == "RES" {
					ob.res = f[1]
					fmt.Sscanf(f[2], "%d", &ob.cls)
					fmt.Sscanf(f[3], "%d", &ob.reached)
					fmt.Sscanf(f[4], "%d", &ob.depth)
					ob.same = f[5] == "true"
					got = true
				}
			}
			if !got {
				ob.cls, ob.depth, ob.same = 9, 0, false
				ob.note = fmt.Sprintf("child process died without a result: %v", cerr)
				if ee, ok := cerr.(*exec.ExitError); ok {
					msg := string(ee.Stderr)
					if i := strings.Index(msg, "\n"); i >= 0 {
						msg = msg[:i]
					}
					if len(msg) > 200 {
						msg = msg[:200]
					}
					ob.note += " (" + msg + ")"
				}
			}
			j.done <- ob
		}()
	}
	return jobs
}

func collectDeepStack(env *Env, jobs []*deepJob) {
	for _, j := range jobs {
		ob := <-j.done
		if ob.note == "" {
			ob.note = "(child process)"
		}
		addStack(env, ob, true)
	}
}

// ---- host panics that travel through Go host functions (BCase). A panic of the host - raised by a host function the
// script calls, by an interrupt function at a polling point, or by the host function itself - passes every Go frame
// of the bridge (the reflect wrapper of typed functions, bound methods, func fields, map entries; Value.Call made by
// native host functions) unchanged: with no try block of the script around the call, Run unwinds with that very
// value. With a try block of the script around the call the recorded finding C18-try-intercepts applies, and then
// the catch clause receives the host's own value (not something a Go wrapper made of it).
type bridgeT struct {
	F    func(n int, cb func(int))
	tail func()
}

func (b bridgeT) Each(n int, cb func(int)) {
	for i := 0; i < n; i++ {
		cb(i)
	}
	b.tail()
}

func (b *bridgeT) PEach(n int, cb func(int)) {
	for i := 0; i < n; i++ {
		cb(i)
	}
	b.tail()
}

func bridgeScenarios(env *Env) {
	type route struct {
		id    int
		name  string
		call  string // %s = the callback expression
		calls int    // callback invocations made by the host function (for the fault "host function panics after them")
		goFn  bool   // entered from Go through Otto.Call (no surrounding script)
	}
	routes := []route{
		{0, "native func(FunctionCall) calling Value.Call", "eachN(3, %s)", 3, false},
		{1, "typed func(int, func(int))", "each(3, %s)", 3, false},
		{2, "typed func(func())", "once(%s)", 1, false},
		{3, "typed func(int, func(int) int) int", "mapper(3, %s)", 3, false},
		{4, "typed variadic func(int, ...func(int)), two callbacks", "eachV(3, %s, function (i) { })", 3, false},
		{5, "typed variadic, callbacks passed as one array", "eachV(3, [%s])", 3, false},
		{6, "method of a bridged struct value", "obj.Each(3, %s)", 3, false},
		{7, "method of a bridged struct pointer", "pobj.PEach(3, %s)", 3, false},
		{8, "func-typed field of a bridged struct", "obj.F(3, %s)", 3, false},
		{9, "func stored in a bridged map", "m.each(3, %s)", 3, false},
		{10, "typed func(int, otto.Value) calling Value.Call", "viaValue(3, %s)", 3, false},
		{11, "typed function through Function.prototype.call", "each.call(null, 3, %s)", 3, false},
		{12, "typed function through Function.prototype.apply", "each.apply(null, [3, %s])", 3, false},
		{13, "typed function through bind", "each.bind(null, 3)(%s)", 3, false},
		{14, "typed function called from a callback of a built-in", "[3].forEach(function (n) { each(n, %s); })", 3, false},
		{15, "typed function called from a callback of a typed function", "each(1, function () { each(3, %s); })", 3, false},
		{16, "typed function as the callback of a built-in", "[3].forEach(function (n) { cbHolder = %s; }); [3].forEach(runHolder)", 1, false},
		{17, "typed function entered from Go through Otto.Call", "%s", 3, true},
		{18, "typed function returning (int, error) after the callbacks", "eachErr(3, %s)", 3, false},
		{19, "no host function: the script calls the callback itself", "(%s)(0)", 0, false},
		{20, "no host function: callback of Array.prototype.forEach", "[7].forEach(%s)", 0, false},
	}
	// the value the host panics with: one that has a JavaScript form (vk 0) or one that has none (vk 1: error values
	// as in the README's panic(halt) with halt = errors.New(...), structs)
	hvals := []struct {
		id   int
		name string
		val  interface{}
		js   string
		vk   int
	}{
		{0, "string", haltMsg, "\"" + haltMsg + "\"", 0},
		{1, "errors.New value", errors.New(haltMsg), "", 1},
		{2, "pointer to a struct implementing error", &bridgeErr{haltMsg}, "", 1},
		{3, "fmt.Errorf wrapping an error", fmt.Errorf("stop: %w", errors.New(haltMsg)), "", 1},
		{4, "int", 42, "42", 0},
		{5, "struct value", bridgePlain{7}, "", 1},
	}
	subset := map[int]bool{0: true, 1: true, 6: true, 17: true, 19: true, 20: true}
	faults := []struct {
		id   int
		name string
		body string // what the callback does after seen++
	}{
		{0, "a func(FunctionCall) host function called by the callback panics", "boom();"},
		{1, "an interrupt queued inside the callback panics at the next polling point", "arm(); for (;;) {}"},
		{2, "an interrupt sent from another goroutine while the callback spins", "for (;;) {}"},
		{3, "the host function itself panics after its callbacks returned", ""},
		{4, "a typed func(int) host function called by the callback panics", "tboom(1);"},
		{5, "a typed func(int) int host function used in an expression of the callback panics", "seen += tboomR(1) * 1000;"},
	}
	ctxs := []struct {
		id        int
		name      string
		pre, post string
	}{
		{0, "no try block", "", ""},
		{1, "try/catch around the call", "try { ", " } catch (e) { caught = CMP; }"},
		{2, "try/finally around the call", "try { ", " } finally { fin = 1; }"},
		{3, "try/finally around the call, try/catch around that", "try { try { ", " } finally { fin = 1; } } catch (e) { caught = CMP; }"},
	}
	for _, hv := range hvals {
		for _, rt := range routes {
			for _, ft := range faults {
				for _, cx := range ctxs {
					if rt.goFn && cx.id != 0 {
						continue
					}
					if ft.id == 2 && cx.id >= 2 {
						continue
					}
					if rt.calls == 0 && ft.id == 3 {
						continue
					}
					if hv.id != 0 && (!subset[rt.id] || ft.id == 2 || ft.id == 5) {
						continue
					}
					cmp := "2"
					if hv.js != "" {
						cmp = "(e === " + hv.js + ") ? 1 : 2"
					}
					cx.post = strings.ReplaceAll(cx.post, "CMP", cmp)
					after := false
					vm := otto.New()
					ich := make(chan func(), 1)
					vm.Interrupt = ich
					tail := func() {
						if after {
							panic(hv.val)
						}
					}
					each := func(n int, cb func(int)) {
						for i := 0; i < n; i++ {
							cb(i)
						}
						tail()
					}
					_ = vm.Set("each", each)
					_ = vm.Set("eachN", func(c otto.FunctionCall) otto.Value {
						n, _ := c.Argument(0).ToInteger()
						for i := int64(0); i < n; i++ {
							if _, err := c.Argument(1).Call(otto.UndefinedValue(), i); err != nil {
								panic(err)
							}
						}
						tail()
						return otto.UndefinedValue()
					})
					_ = vm.Set("once", func(cb func()) { cb(); tail() })
					_ = vm.Set("mapper", func(n int, cb func(int) int) int {
						t := 0
						for i := 0; i < n; i++ {
							t += cb(i)
						}
						tail()
						return t
					})
					_ = vm.Set("eachV", func(n int, cbs ...func(int)) {
						for _, cb := range cbs {
							for i := 0; i < n; i++ {
								cb(i)
							}
						}
						tail()
					})
					_ = vm.Set("eachErr", func(n int, cb func(int)) (int, error) {
						for i := 0; i < n; i++ {
							cb(i)
						}
						tail()
						return n, nil
					})
					_ = vm.Set("obj", bridgeT{F: each, tail: tail})
					_ = vm.Set("pobj", &bridgeT{tail: tail})
					_ = vm.Set("m", map[string]interface{}{"each": each})
					_ = vm.Set("viaValue", func(n int, v otto.Value) {
						for i := 0; i < n; i++ {
							if _, err := v.Call(otto.UndefinedValue(), i); err != nil {
								panic(err)
							}
						}
						tail()
					})
					_ = vm.Set("runHolder", func(n int, idx int, arr otto.Value) {
						v, _ := vm.Get("cbHolder")
						if _, err := v.Call(otto.UndefinedValue(), n); err != nil {
							panic(err)
						}
						tail()
					})
					_ = vm.Set("boom", func(c otto.FunctionCall) otto.Value { panic(hv.val) })
					_ = vm.Set("tboom", func(n int) { panic(hv.val) })
					_ = vm.Set("tboomR", func(n int) int { panic(hv.val) })
					_ = vm.Set("arm", func(c otto.FunctionCall) otto.Value {
						select {
						case ich <- func() { panic(hv.val) }:
						default:
						}
						return otto.UndefinedValue()
					})
					cb := "function (i) { seen++; " + ft.body + " seen += 100; return 0; }"
					calls := 1
					if ft.id == 3 {
						cb = "function (i) { seen++; return 0; }"
						calls = rt.calls
						after = true
					}
					prelude := "var seen = 0, caught = 0, fin = 0, after = 0, cbHolder;\n"
					src := prelude + cx.pre + fmt.Sprintf(rt.call, cb) + ";" + cx.post + "\nafter = 1;"
					ch := make(chan Outcome, 1)
					if rt.goFn {
						src = prelude + "var cbHolder = " + cb + ";"
						if o0 := RunJS(vm, src); o0.Err != nil || o0.Panic != nil {
							ch <- o0
						} else {
							src += "  then, from Go: vm.Call(\"each\", nil, 3, cbHolder)"
							go func() {
								ch <- Guard(func() (otto.Value, error) {
									fn, _ := vm.Get("cbHolder")
									return vm.Call("each", nil, 3, fn)
								})
							}()
						}
					} else {
						go func() { ch <- RunJS(vm, src) }()
					}
					if ft.id == 2 {
						go func() {
							time.Sleep(15 * time.Millisecond)
							select {
							case ich <- func() { panic(hv.val) }:
							case <-time.After(5 * time.Second):
							}
						}()
					}
					ended := 4 // not stopped
					how := "still running after 5s"
					var seen, caught, fin, aft int64 = -1, -1, -1, -1
					rest := false
					select {
					case o := <-ch:
						switch {
						case o.Panic != nil:
							if o.Panic == hv.val {
								ended, how = 0, "Run unwound with the host's panic"
							} else {
								ended, how = 3, fmt.Sprintf("Run unwound with another panic: %v", o.Panic)
							}
						case o.Err == nil:
							ended, how = 1, "Run returned normally"
						case hv.vk == 0 && o.Err.Error() == fmt.Sprint(hv.val):
							ended, how = 2, "Run returned the host's value as an error"
						case isTypeError(o.Err):
							ended, how = 6, "Run returned a TypeError: "+o.Err.Error()
						default:
							ended, how = 5, "Run returned the error "+o.Err.Error()
						}
						d, _ := vm.VerifScopeDepth()
						labels := vm.VerifLabelCount()
						select {
						case <-ich:
						default:
						}
						vm.Interrupt = nil
						get := func(name string) int64 {
							v, err := vm.Get(name)
							if err != nil {
								return -1
							}
							n, _ := v.ToInteger()
							return n
						}
						seen, caught, fin, aft = get("seen"), get("caught"), get("fin"), get("after")
						after = false
						fo := RunJS(vm, `var t = 0; each(3, function (i) { t += i + 1; }); t * 7`)
						n, _ := fo.Val.ToInteger()
						rest = d == -1 && labels == 0 && fo.Err == nil && fo.Panic == nil && n == 42
					case <-time.After(5 * time.Second):
					}
					env.Add(fmt.Sprintf("BCase %d %d %d %d %d %d %s %s %s %s %s", rt.id, ft.id, cx.id, hv.vk, calls, ended, Cz(seen), Cz(caught), Cz(fin), Cz(aft), Cbool(rest)),
						fmt.Sprintf("BCase %s / %s (the host's panic value is a %s) / %s: %s => %s; seen=%d caught=%d fin=%d after=%d atRestAndFollowup=%v", rt.name, ft.name, hv.name, cx.name, strings.ReplaceAll(src, "\n", " "), how, seen, caught, fin, aft, rest),
						"host-function-bridge", true)
				}
			}
		}
	}
}

type bridgeErr struct{ s string }

func (e *bridgeErr) Error() string { return e.s }

type bridgePlain struct{ A int }

func isTypeError(err error) bool {
	oe, ok := err.(*otto.Error)
	return ok && strings.HasPrefix(oe.Error(), "TypeError")
}
