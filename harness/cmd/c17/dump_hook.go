//go:build c17hook

package main

// Hook part of the C17 harness: needs /repo/verif_hooks_c17.go (VerifDumpHeap).  The real Go heap of a
// runtime (objects, stashes, payloads; identities are Go pointers numbered in one table for both
// runtimes) and of its copy go to Coq as a CRuntime case: the model cloner must predict whether Copy()
// panics and, if it returns, build a heap isomorphic to the real copy, runtime record included; the
// proven checker check_iso validates the real pair (injective, structure preserving, no shared location).

import (
	"fmt"
	"strings"

	"github.com/robertkrimen/otto"
	. "ottoh/lib"
)

const hookEnabled = true

func hookCases(env *Env) {}

type hookHeap struct {
	cells map[int64]otto.VerifCell
	order []int64
}

func indexHeap(h otto.VerifHeap) hookHeap {
	hh := hookHeap{cells: map[int64]otto.VerifCell{}}
	for _, c := range h.Cells {
		hh.cells[c.ID] = c
		hh.order = append(hh.order, c.ID)
	}
	return hh
}

// outgoing references in the order of Coq's refs_cell
func refsOf(c otto.VerifCell) []int64 {
	var r []int64
	add := func(x int64) {
		if x != 0 {
			r = append(r, x)
		}
	}
	val := func(v otto.VerifVal) { add(v.Ref) }
	switch c.Kind {
	case "object":
		add(c.Proto)
		for _, p := range c.Props {
			if p.Accessor {
				add(p.Get)
				add(p.Set)
			} else {
				val(p.Val)
			}
		}
		switch c.Payload {
		case "bound":
			r = append(r, c.Target)
			val(c.This)
			for _, a := range c.Args {
				val(a)
			}
		case "function", "arguments":
			add(c.Stash)
		}
	case "dcl":
		for _, v := range c.Vars {
			val(v.Val)
		}
		add(c.Outer)
	case "fn":
		for _, v := range c.Vars {
			val(v.Val)
		}
		add(c.Outer)
		add(c.Arguments)
	case "objstash":
		add(c.Outer)
		r = append(r, c.Object)
	}
	return r
}

func (t *interner) cval(v otto.VerifVal) string {
	if v.Ref != 0 {
		return fmt.Sprintf("VRef %d", v.Ref)
	}
	tag := int64(0)
	if len(v.Prim) > 0 {
		tag = int64(v.Prim[0])
	}
	return fmt.Sprintf("VPrim %d %d", tag, t.id(v.Prim))
}

func copt(x int64) string {
	if x == 0 {
		return "None"
	}
	return fmt.Sprintf("(Some %d)", x)
}

func (t *interner) ccell(c otto.VerifCell) string {
	vars := func() string {
		vs := make([]string, len(c.Vars))
		for i, v := range c.Vars {
			vs[i] = fmt.Sprintf("(%d, %s, %d)", t.id(v.Name), t.cval(v.Val), v.Flags)
		}
		return Clist(vs)
	}
	switch c.Kind {
	case "dcl":
		return fmt.Sprintf("(%d, CDcl %s %s)", c.ID, copt(c.Outer), vars())
	case "fn":
		idx := make([]string, len(c.Index))
		for i, e := range c.Index {
			idx[i] = fmt.Sprintf("(%d, %d)", t.id(e[0]), t.id(e[1]))
		}
		return fmt.Sprintf("(%d, CFn %s %s %s %s)", c.ID, copt(c.Outer), vars(), copt(c.Arguments), Clist(idx))
	case "objstash":
		return fmt.Sprintf("(%d, CObjStash %s %d)", c.ID, copt(c.Outer), c.Object)
	}
	props := make([]string, len(c.Props))
	for i, p := range c.Props {
		if p.Accessor {
			props[i] = fmt.Sprintf("(%d, PAcc %s %s %d)", t.id(p.Name), copt(p.Get), copt(p.Set), p.Mode)
		} else {
			props[i] = fmt.Sprintf("(%d, PData (%s) %d)", t.id(p.Name), t.cval(p.Val), p.Mode)
		}
	}
	pay := "PNone"
	switch c.Payload {
	case "native":
		pay = fmt.Sprintf("(PNative %d)", t.id(c.Code))
	case "bound":
		args := make([]string, len(c.Args))
		for i, a := range c.Args {
			args[i] = t.cval(a)
		}
		pay = fmt.Sprintf("(PBound %d (%s) %s)", c.Target, t.cval(c.This), Clist(args))
	case "function":
		pay = fmt.Sprintf("(PFun %d %s)", t.id(c.Code), copt(c.Stash))
	case "arguments":
		ns := make([]string, len(c.Names))
		for i, n := range c.Names {
			ns[i] = fmt.Sprintf("%d", t.id(n))
		}
		pay = fmt.Sprintf("(PArgs %s %s)", copt(c.Stash), Clist(ns))
	case "date":
		pay = fmt.Sprintf("(PDate %d)", t.id(c.Code))
	case "regexp":
		pay = fmt.Sprintf("(PRegexp %d)", t.id(c.Code))
	case "string":
		pay = fmt.Sprintf("(PString %d)", t.id(c.Code))
	case "primitive":
		pay = fmt.Sprintf("(PPrim 0 %d)", t.id(c.Code))
	case "error":
		pay = fmt.Sprintf("(PPrim 1 %d)", t.id(c.Code))
	case "other":
		pay = fmt.Sprintf("(PPrim 2 %d)", t.id(c.Code))
	}
	return fmt.Sprintf("(%d, CObj (mkObj %s %s %d %s %s))", c.ID, copt(c.Proto), Clist(props), t.id(c.Class), Cbool(c.Extensible), pay)
}

func crt(h otto.VerifHeap) string {
	return fmt.Sprintf("(mkRt %d %s %d [])", h.Global, Czlist(h.Fields), h.Eval)
}

func (g *gen) hookCase(H []string, hist []int64, serial int) {
	vm := otto.New()
	for _, s := range H {
		RunJS(vm, s)
	}
	ids := otto.NewVerifHeapIDs()
	ha := vm.VerifDumpHeap(ids)
	t := &interner{ids: map[string]int64{}}
	evalName := t.id("eval")
	ca := make([]string, len(ha.Cells))
	for i, c := range ha.Cells {
		ca[i] = t.ccell(c)
	}
	cp, p := safeCopy(vm)
	if p != nil {
		g.add(fmt.Sprintf("CRuntime %d %s %s false [] [] (mkRt 0 [] 0 [])", evalName, Clist(ca), crt(ha)),
			fmt.Sprintf("hook #%d hist=%v: %d cells, Copy() PANIC %v ; H=%q", serial, hist, len(ha.Cells), p, H[1:]), "hook-panic", true)
		return
	}
	hb := cp.VerifDumpHeap(ids)
	cb := make([]string, len(hb.Cells))
	for i, c := range hb.Cells {
		cb[i] = t.ccell(c)
	}
	// candidate renaming by parallel traversal from the runtime records (untrusted: Coq checks it)
	ia, ib := indexHeap(ha), indexHeap(hb)
	phi := map[int64]int64{}
	var order []int64
	var queue [][2]int64
	pair := func(a, b int64) {
		if a == 0 || b == 0 {
			return
		}
		if _, ok := phi[a]; ok {
			return
		}
		phi[a] = b
		order = append(order, a)
		queue = append(queue, [2]int64{a, b})
	}
	pair(ha.Global, hb.Global)
	for i := range ha.Fields {
		if i < len(hb.Fields) {
			pair(ha.Fields[i], hb.Fields[i])
		}
	}
	for len(queue) > 0 {
		q := queue[0]
		queue = queue[1:]
		ra, rb := refsOf(ia.cells[q[0]]), refsOf(ib.cells[q[1]])
		for i := range ra {
			if i < len(rb) {
				pair(ra[i], rb[i])
			}
		}
	}
	ps := make([]string, len(order))
	shared := 0
	for i, a := range order {
		ps[i] = fmt.Sprintf("(%d, %d)", a, phi[a])
		if a == phi[a] {
			shared++
		}
	}
	var sb strings.Builder
	fmt.Fprintf(&sb, "hook #%d hist=%v: original %d cells, copy %d cells, %d paired, %d locations shared ; H=%q", serial, hist, len(ha.Cells), len(hb.Cells), len(order), shared, H[1:])
	g.add(fmt.Sprintf("CRuntime %d %s %s true %s %s %s", evalName, Clist(ca), crt(ha), Clist(cb), Clist(ps), crt(hb)), sb.String(), "hook", true)
}
