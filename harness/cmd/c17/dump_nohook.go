//go:build !c17hook

package main

import . "ottoh/lib"

// without /repo/verif_hooks_c17.go there is no access to the Go heap: black box only
func hookCases(env *Env) {}
