//go:build !c17hook

package main

import . "ottoh/lib"

// without /repo/verif_hooks_c17.go there is no access to the Go heap: black box and script dumps only
const hookEnabled = false

func hookCases(env *Env) {}

func (g *gen) hookCase(H []string, hist []int64, serial int) {}
